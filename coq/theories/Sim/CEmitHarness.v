(* Entry point evaluated by py/checks/C02.py: the whole-design C model on the same design,
   initial state and inputs the real CompiledSimulation ran (definitions only). *)
From PyRTL Require Import Sim.CEmitModel Sim.FastModelHarness.

(* rows: [c_wfb; wfb]; [fp of the final memory probes];
   per cycle: fp of the wires CompiledSimulation can show (obs); per cycle: fp of all wires *)
Definition cemit_case (nl : netlist) (dflt : Z) (regmap : list (Z * Z))
    (memmap : list (Z * list (Z * Z))) (inss : list (list (Z * Z)))
    (probes : list (Z * Z)) (obs : list Z) : list (list Z) :=
  let ins := map ins_of inss in
  let '(cvs, st) := c_run nl (c_init nl dflt regmap memmap) ins in
  [b2z (c_wfb nl); b2z (wfb nl)]
  :: [fingerprint (map (fun p => limbs_to_Z (c_lookup nl (cmems st) (fst p) (snd p))) probes)]
  :: map (fun cv => fingerprint (map (fun w => limbs_to_Z (cv w)) obs)) cvs
  :: map (fun cv => fingerprint (map (fun x => limbs_to_Z (cv (wname x))) (wires nl))) cvs
  :: nil.
