(* Whole-design model of the C program pyrtl.CompiledSimulation emits
   (pyrtl/compilesim.py _create_code): every wire is an array of 64-bit limbs; one call of
   sim_run_step = copy the inputs in, run the per-net builders (Sim/CLimb.v) in block order,
   perform the enabled memory inserts, copy the register inputs through regtmp into the static
   register arrays.  Definitions only -- proofs are in Sim/CEmitProofs.v.

   The hash map of a memory (create_hash_map / insert / lookup) is modelled as a finite map
   address -> limb array whose default is the all-zero array (CompiledSimulation does not apply
   default_value to memories: the sanctioned difference).  ROMs are static tables of _makeini
   initialisers, i.e. packed values. *)
From PyRTL Require Export Netlist.Sem Netlist.WFDefs.
From PyRTL Require Export Sim.CLimb.

Definition lassoc (l : list (Z * list Z)) (k : Z) : option (list Z) :=
  match find (fun p => fst p =? k) l with
  | Some p => Some (snd p)
  | None => None
  end.

Record cstate := mkC {
  cregs : wid -> list Z;                    (* static uint64_t <reg>[limbs] *)
  cmems : Z -> list (Z * list Z)            (* hashmap_t *<mem> : key -> val_t[limbs] *)
}.

Section WithNetlist.
Variable nl : netlist.

Definition mem_dataw (m : Z) : Z :=
  match find_mem (mems nl) m with Some mm => mdataw mm | None => 0 end.

(* _makeini(w, v): the limbs of v *)
Definition c_ini (w v : Z) : list Z := c_pack (nlimbs w) v.

(* lookup(mem, addr[0]) : the stored array, else h->default_value (zeros);
   for a RomBlock: the row of the static table *)
Definition c_lookup (mv : Z -> list (Z * list Z)) (m a : Z) : list Z :=
  match find_mem (mems nl) m with
  | Some mm =>
      match mrom mm with
      | Some data => c_ini (mdataw mm) (rom_read data a)
      | None => match lassoc (mv m) a with
                | Some v => v
                | None => repeat 0 (nlimbs (mdataw mm))
                end
      end
  | None => []
  end.

Definition cargs (cv : wid -> list Z) (n : net) : list (Z * list Z) :=
  map (fun a => (width_of nl a, cv a)) (nargs n).

(* the statements emitted for one combinational net *)
Definition c_exec (mv : Z -> list (Z * list Z)) (cv : wid -> list Z) (n : net) : wid -> list Z :=
  let wd := width_of nl (ndest n) in
  let A := fun i => cv (arg n i) in
  let W := fun i => width_of nl (arg n i) in
  match nop n with
  | OpReg | OpMemWr _ => cv
  | OpW => upd cv (ndest n) (c_wire (W 0%nat) (A 0%nat) wd)
  | OpNot => upd cv (ndest n) (c_not (A 0%nat) wd)
  | OpAnd => upd cv (ndest n) (c_bitwise Z.land (W 0%nat) (A 0%nat) (W 1%nat) (A 1%nat) wd)
  | OpOr => upd cv (ndest n) (c_bitwise Z.lor (W 0%nat) (A 0%nat) (W 1%nat) (A 1%nat) wd)
  | OpXor => upd cv (ndest n) (c_bitwise Z.lxor (W 0%nat) (A 0%nat) (W 1%nat) (A 1%nat) wd)
  | OpNand => upd cv (ndest n) (c_nand (W 0%nat) (A 0%nat) (W 1%nat) (A 1%nat) wd)
  | OpAdd => upd cv (ndest n) (c_add (W 0%nat) (A 0%nat) (W 1%nat) (A 1%nat) wd)
  | OpSub => upd cv (ndest n) (c_sub (W 0%nat) (A 0%nat) (W 1%nat) (A 1%nat) wd)
  | OpMul => upd cv (ndest n) (c_mul (W 0%nat) (A 0%nat) (W 1%nat) (A 1%nat) wd)
  | OpLt => upd cv (ndest n) (c_cmp Z.ltb (W 0%nat) (A 0%nat) (W 1%nat) (A 1%nat))
  | OpGt => upd cv (ndest n) (c_cmp Z.gtb (W 0%nat) (A 0%nat) (W 1%nat) (A 1%nat))
  | OpEq => upd cv (ndest n) (c_eq (W 0%nat) (A 0%nat) (W 1%nat) (A 1%nat))
  | OpMux => upd cv (ndest n) (c_mux (A 0%nat) (W 1%nat) (A 1%nat) (W 2%nat) (A 2%nat) wd)
  | OpConcat => upd cv (ndest n) (c_concat (cargs cv n) wd)
  | OpSelect idx => upd cv (ndest n) (c_select (A 0%nat) idx wd)
  | OpMemRd m =>                                  (* dest[n] = lookup(mem, addr[0])[n]{mask} *)
      upd cv (ndest n) (c_wire (mem_dataw m) (c_lookup mv m (rd (A 0%nat) 0)) wd)
  end.

(* if (enable[0]) insert(mem, addr[0], data);  -- insert copies val_limbs limbs of data *)
Definition c_insert (cv : wid -> list Z) (mv : Z -> list (Z * list Z)) (n : net)
    : Z -> list (Z * list Z) :=
  match nop n with
  | OpMemWr m =>
      if rd (cv (arg n 2)) 0 =? 0 then mv
      else upd mv m ((rd (cv (arg n 0)) 0,
                      map (fun k => rd (cv (arg n 1)) k) (idxs (mem_dataw m))) :: mv m)
  | _ => mv
  end.

(* regtmp{x} = rin ; then  rout[n] = regtmp{x}[n]{mask} *)
Definition c_regupd (cv : wid -> list Z) (rg : wid -> list Z) (n : net) : wid -> list Z :=
  match nop n with
  | OpReg => upd rg (ndest n)
               (c_regcopy (width_of nl (arg n 0)) (cv (arg n 0)) (width_of nl (ndest n)))
  | _ => rg
  end.

(* wire arrays at the start of sim_run_step: inputs[] copied in, const initialisers, static
   registers; every other local array is uninitialised (modelled as []) *)
Definition c_base (st : cstate) (ins : wid -> Z) : wid -> list Z :=
  fun w => match find_wire (wires nl) w with
           | Some x => match wkind x with
                       | KConst c => c_ini (wwidth x) c
                       | KInput => c_ini (wwidth x) (ins w)        (* run(): packed input *)
                       | KReg _ => cregs st w
                       | _ => []
                       end
           | None => []
           end.

Definition c_step (st : cstate) (ins : wid -> Z) : (wid -> list Z) * cstate :=
  let cv := fold_left (c_exec (cmems st)) (nets nl) (c_base st ins) in
  (cv, {| cregs := fold_left (c_regupd cv) (nets nl) (cregs st);
          cmems := fold_left (c_insert cv) (nets nl) (cmems st) |}).

Fixpoint c_run (st : cstate) (inss : list (wid -> Z)) : list (wid -> list Z) * cstate :=
  match inss with
  | [] => ([], st)
  | ins :: rest =>
      let '(v, st') := c_step st ins in
      let '(vs, st'') := c_run st' rest in
      (v :: vs, st'')
  end.

(* static initialisers of the registers (register_value_map > reset_value > default) and
   initialize_mems() (one insert per memory_value_map entry) *)
Definition c_init (dflt : Z) (regmap : list (Z * Z)) (memmap : list (Z * list (Z * Z))) : cstate :=
  {| cregs := fun r => c_ini (width_of nl r) (init_reg nl dflt regmap r);
     cmems := fun m => match find (fun p => fst p =? m) memmap with
                       | Some (_, d) => map (fun kv => (fst kv, c_ini (mem_dataw m) (snd kv))) d
                       | None => []
                       end |}.

(* ---- what the C code relies on (all enforced by Block.sanity_check_net and by
   CompiledSimulation's own checks; evaluated on every dumped design) ------------------ *)
Definition c_op_ok (n : net) : bool :=
  let wd := width_of nl (ndest n) in
  let W := fun i => width_of nl (arg n i) in
  match nop n with
  | OpW | OpNot | OpReg => wd <=? W 0%nat
  | OpLt | OpGt | OpEq => wd =? 1                       (* only dest[0] is assigned *)
  | OpMux => (W 0%nat =? 1) && (wd <=? W 1%nat) && (wd <=? W 2%nat)
  | OpConcat => wd <=? fold_right (fun a acc => width_of nl a + acc) 0 (nargs n)
  | OpSelect idx => forallb (fun b => (0 <=? b) && (b <? W 0%nat)) idx
                    && (wd <=? Z.of_nat (length idx))
  | OpMemRd m => (wd <=? mem_dataw m) && (W 0%nat <=? 64)       (* the key is addr[0] *)
                 && (match find_mem (mems nl) m with Some _ => true | None => false end)
  | OpMemWr m => (W 0%nat <=? 64) && (W 1%nat =? mem_dataw m) && (W 2%nat =? 1)
                 && (match find_mem (mems nl) m with Some mm => match mrom mm with None => true | _ => false end
                                                 | None => false end)
  | _ => true
  end.

Definition c_mems_ok : bool :=
  forallb (fun mm => (0 <=? mdataw mm)
                     && match mrom mm with
                        | Some data => forallb (fun kv => inrangeb (snd kv) (mdataw mm)) data
                        | None => true
                        end) (mems nl).

(* `r` and `@` nets are emitted after the whole combinational loop, so (unlike FastSimulation)
   nothing is required of their position: wfb's "arguments are eventually driven" suffices *)
Definition c_wfb : bool := forallb c_op_ok (nets nl) && c_mems_ok.

End WithNetlist.
