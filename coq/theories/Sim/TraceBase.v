(* C15 -- base definitions shared by the generated Gen/InputGuards.v, the trace /
   step_multiple model (Sim/Trace.v) and the text encoders (IO/Vcd.v).
   No proofs here.

   Text is a list of character codes (`text := list Z`, one Z in [0,256) per
   byte): lia then decides every fact about digits and separators.
   `codes "abc"` turns a Coq string literal into text, `string_of_text` goes
   back to Coq.Strings.String. *)
From Coq Require Import ZArith List Bool Lia Ascii String.
From PyRTL Require Import Base.PyZ.
Import ListNotations.
Open Scope Z_scope.

(* Python len(bin(x)) - 2, for negative x too ("-0b101") *)
Definition len_bin_signed (x : Z) : Z := len_bin x + (if x <? 0 then 1 else 0).

(* THE SPECIFICATION of input validation: reject exactly the values outside [0, 2^w) *)
Definition reject_spec (v w : Z) : bool := negb (inrangeb v w).

(* ------------------------------------------------------------------ step events
   The observable events of one step() call.  Gen/StepOrder.v (regenerated from the source of
   Simulation.step, FastSimulation.step, CompiledSimulation.step/run on every run) lists them in
   source order for each simulator; Sim/Trace.v `exec_events` gives them their meaning. *)
Inductive step_event :=
| EvValidate            (* may raise PyrtlError; stores nothing into the simulator object *)
| EvMutatingValidate    (* may raise PyrtlError AFTER having stored input values into the object *)
| EvPrepare             (* self.value.update(...): inputs / register values made current *)
| EvCompute             (* combinational evaluation of the cycle *)
| EvPublish             (* inspect() sees the new values *)
| EvCommit              (* next register values / memory writes become the state *)
| EvTrace               (* tracer.add_step / add_fast_step: append what inspect() sees *)
| EvTraceBuffers        (* CompiledSimulation: append the computed values; inspect reads the trace *)
| EvAssert.             (* check_rtl_assertions: raises after everything before it took effect *)

(* ------------------------------------------------------------------ text *)
Definition text := list Z.

Definition code_of_ascii (c : ascii) : Z := Z.of_N (N_of_ascii c).
Definition ascii_of_code (z : Z) : ascii := ascii_of_N (Z.to_N z).
Definition codes (s : string) : text := map code_of_ascii (list_ascii_of_string s).
Definition string_of_text (t : text) : string := string_of_list_ascii (map ascii_of_code t).

Definition len {A} (l : list A) : Z := Z.of_nat (length l).

Fixpoint text_eqb (a b : text) : bool :=
  match a, b with
  | [], [] => true
  | x :: a', y :: b' => (x =? y) && text_eqb a' b'
  | _, _ => false
  end.

Definition is_nil {A} (l : list A) : bool := match l with [] => true | _ => false end.

Definition spaces (n : Z) : text := repeat 32 (Z.to_nat n).
(* str.rjust / str.ljust (and the `>` alignment of str.format): pad to at least n *)
Definition rjust (n : Z) (s : text) : text := spaces (n - len s) ++ s.
Definition ljust (n : Z) (s : text) : text := s ++ spaces (n - len s).

Fixpoint join (sep : text) (l : list text) : text :=
  match l with
  | [] => []
  | [x] => x
  | x :: rest => x ++ sep ++ join sep rest
  end.

(* str.split(sep) for a one-character separator: never returns [] *)
Fixpoint split_on (sep : Z) (s : text) : list text :=
  match s with
  | [] => [[]]
  | c :: s' =>
      if c =? sep then [] :: split_on sep s'
      else match split_on sep s' with
           | [] => [[c]]
           | h :: t => (c :: h) :: t
           end
  end.

(* str.split() restricted to the space character: non-empty space-free pieces *)
Definition words (s : text) : list text := filter (fun t => negb (is_nil t)) (split_on 32 s).

(* cut at the first occurrence of sep: (before, after) *)
Fixpoint cut_at (sep : Z) (s : text) : option (text * text) :=
  match s with
  | [] => None
  | c :: s' => if c =? sep then Some ([], s')
               else match cut_at sep s' with
                    | Some (a, b) => Some (c :: a, b)
                    | None => None
                    end
  end.

Fixpoint all_some {A} (l : list (option A)) : option (list A) :=
  match l with
  | [] => Some []
  | None :: _ => None
  | Some a :: r => match all_some r with Some r' => Some (a :: r') | None => None end
  end.

(* ------------------------------------------------------------------ numerals
   One generic renderer/parser for every radix 2..16 with Python's lower-case
   digits: '{:b}' '{:o}' '{:d}' '{:x}'.format(n) = render 2/8/10/16 n for n >= 0. *)
Definition digit_char (d : Z) : Z := if d <? 10 then 48 + d else 87 + d.
Definition char_digit (c : Z) : option Z :=
  if (48 <=? c) && (c <=? 57) then Some (c - 48)
  else if (97 <=? c) && (c <=? 102) then Some (c - 87)
  else None.

(* most significant digit first; fuel = number of bits of n *)
Fixpoint digits_fuel (fuel : nat) (b n : Z) (acc : list Z) : list Z :=
  match fuel with
  | O => n :: acc
  | S f => if n <? b then n :: acc else digits_fuel f b (n / b) (n mod b :: acc)
  end.
Definition digits (b n : Z) : list Z := digits_fuel (Z.to_nat (Z.log2 n)) b n [].
Definition render (b n : Z) : text := map digit_char (digits b n).

Definition parse_step (b : Z) (acc : option Z) (c : Z) : option Z :=
  match acc, char_digit c with
  | Some a, Some d => if d <? b then Some (a * b + d) else None
  | _, _ => None
  end.
Definition parse (b : Z) (s : text) : option Z :=
  match s with
  | [] => None
  | _ => fold_left (parse_step b) s (Some 0)
  end.
