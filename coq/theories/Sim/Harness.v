(* Entry points evaluated by the correspondence checks (py/checks/*.py) with
   vm_compute: same designs, states and input sequences the implementation ran. *)
From PyRTL Require Import Sim.SimModel Netlist.WFDefs.
From PyRTL Require Export Netlist.SpecHarness.

(* rows: final memory probes; then one row per cycle from the Simulation model *)
Definition simmodel_case (nl : netlist) (dflt : Z) (regmap : list (Z * Z))
    (memmap : list (Z * list (Z * Z))) (inss : list (list (Z * Z)))
    (probes : list (Z * Z)) : list (list Z) :=
  let ins := map ins_of inss in
  let '(vs', sst) := sim_run nl dflt (sim_init nl dflt regmap memmap) ins in
  map (fun p => assoc_d (memvalue sst (fst p)) (snd p) dflt) probes
  :: map (probe nl) vs'.
