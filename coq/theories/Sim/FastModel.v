(* Executable model of pyrtl.FastSimulation (pyrtl/simulation.py):
   _compiled (the Python expression emitted for every net), step.
   Definitions only -- proofs are in Sim/FastModelProofs.v.

   The value of the expression text FastSimulation emits is modelled on
   Python ints (Z):
     * the simple ops come from Gen/FastOps.v (regenerated from the local
       `simple_func` table of string-building lambdas in _compiled),
     * concat is the emitted shift-or chain `(a0 << s0) | (a1 << s1) | ... | an`
       (`shift` omits a shift by 0),
     * select is the run-length-split expression: maximal runs of consecutive
       source bits become one masked/shifted piece (`make_split`, three cases),
     * the destination is assigned `expr` when
       len(dest) == _no_mask_bitwidth[op](net)  (Gen/FastMask.v) and
       `bitmask & expr` otherwise,
     * step: d = inputs + registers of the previous cycle + memories; nets in
       block order; `r` nets fill the new `regs`; `@` nets append to mem_ws,
       applied after the function returns. *)
From PyRTL Require Export Sim.SimModel Netlist.WFDefs.
From PyRTL Require Export Gen.FastMask Gen.FastOps.

(* shift(value, '<<', amt): the text omits the shift when amt == 0 *)
Definition py_shiftl (v amt : Z) : Z := if amt =? 0 then v else Z.shiftl v amt.

(* `e1 | e2 | ... | ek`  (left associative) *)
Definition lor_chain (l : list Z) : Z :=
  match l with
  | [] => 0
  | x :: r => fold_left Z.lor r x
  end.

Definition sumw (args : list (Z * Z)) : Z := fold_right (fun vw acc => snd vw + acc) 0 args.

(* op 'c': term i is  shift(arg_i, '<<', sum(len(j) for j in args[i+1:])) *)
Fixpoint fast_concat_terms (args : list (Z * Z)) : list Z :=
  match args with
  | [] => []
  | (v, _) :: rest => py_shiftl v (sumw rest) :: fast_concat_terms rest
  end.

Definition fast_concat (args : list (Z * Z)) : Z := lor_chain (fast_concat_terms args).

(* op 's': the run splitter.  State of the emitter loop: current run
   (split_start_bit, split_length, split_res_start_bit); i = position in op_param.
   Each finished run is (start, length, res_start). *)
Fixpoint split_runs (idx : list Z) (i start len rstart : Z) : list (Z * Z * Z) :=
  match idx with
  | [] => [(start, len, rstart)]                        (* expr += make_split() after the loop *)
  | b :: rest =>
      if negb (b =? start + len) then
        (if 0 <=? start then [(start, len, rstart)] else [])
        ++ split_runs rest (i + 1) b 1 i
      else split_runs rest (i + 1) start (len + 1) rstart
  end.

(* make_split: the three textual cases, then shift(bit, '<<', split_res_start_bit) *)
Definition split_piece (src argw : Z) (r : Z * Z * Z) : Z :=
  let '(start, len, rstart) := r in
  let m := Z.shiftl 1 len - 1 in                         (* (1 << split_length) - 1, a literal *)
  let bit := if start =? 0 then Z.land m src
             else if argw - start =? len then Z.shiftr src start
             else Z.land m (Z.shiftr src start) in
  py_shiftl bit rstart.

Definition fast_select_terms (src argw : Z) (idx : list Z) : list Z :=
  map (split_piece src argw) (split_runs idx 0 (-2) 0 (-1)).

Definition fast_select (src argw : Z) (idx : list Z) : Z :=
  lor_chain (fast_select_terms src argw idx).

(* the masked assignment of a `t1 | t2 | ... | tk` text (concat / select).  Whether the text is
   parenthesised under the mask is read off the source (Gen/FastOps.fast_mask_parenthesised):
   with `mask & (t1 | ... | tk)` the mask applies to the whole chain; with `mask & t1 | ... | tk`
   -- the defective earlier text -- `&` binds tighter than `|` and only t1 is masked. *)
Definition masked_chain (m : Z) (ts : list Z) : Z :=
  if fast_mask_parenthesised then Z.land m (lor_chain ts)
  else match ts with
       | [] => 0
       | t :: r => lor_chain (Z.land m t :: r)
       end.

(* the value of the emitted expression of a net, as a function of (value, bitwidth) arguments *)
Definition fast_pyexpr (o : op) (args : list (Z * Z)) : option Z :=
  match o with
  | OpConcat => Some (fast_concat args)
  | OpSelect idx => match args with
                    | [(x, w)] => Some (fast_select x w idx)
                    | _ => None
                    end
  | OpMemRd _ | OpMemWr _ => None
  | o => fast_simple_func o (map fst args)
  end.

(* the value of the masked assignment's right-hand side as Python parses it.  For the simple ops
   the table comes from Gen/FastOps.v (the text is assembled from the source's templates and parsed
   by Python's own parser, which decides the precedence); a memory read text is a call: atomic. *)
Definition fast_pymasked (o : op) (m : Z) (args : list (Z * Z)) : option Z :=
  match o with
  | OpConcat => Some (masked_chain m (fast_concat_terms args))
  | OpSelect idx => match args with
                    | [(x, w)] => Some (masked_chain m (fast_select_terms x w idx))
                    | _ => None
                    end
  | OpMemRd _ | OpMemWr _ => None
  | o => fast_simple_masked o m (map fst args)
  end.

(* _no_mask_bitwidth[net.op](net) *)
Definition fast_nomask (o : op) (argw : list Z) : option Z :=
  no_mask_bitwidth o argw (match o with OpSelect idx => Z.of_nat (length idx) | _ => 0 end).

(* the mask-elision decision of _compiled *)
Definition fast_elides (o : op) (argw : list Z) (wd : Z) : bool :=
  match fast_nomask o argw with
  | Some k => wd =? k
  | None => false
  end.

(* `result = expr`   or   `result = bitmask & expr`  (text concatenation!) *)
Definition fast_result (o : op) (args : list (Z * Z)) (wd : Z) : option Z :=
  if fast_elides o (map snd args) wd then fast_pyexpr o args
  else fast_pymasked o (mask wd) args.

Record fstate := mkF {
  fregs : wid -> Z;                  (* FastSimulation.regs *)
  fmems : Z -> list (Z * Z)          (* FastSimulation.mems[fs_mem<id>] : dict *)
}.

Section WithNetlist.
Variable nl : netlist.
Variable dflt : Z.

Definition argws (n : net) : list Z := map (width_of nl) (nargs n).

(* the value assigned by the statement emitted for net n *)
Definition fast_expr (mv : Z -> list (Z * Z)) (v : wid -> Z) (n : net) : option Z :=
  let wd := width_of nl (ndest n) in
  match nop n with
  | OpMemRd m =>
      let r := sim_mem_read nl dflt mv m (v (arg n 0)) in
      Some (if fast_elides (OpMemRd m) (argws n) wd then r else Z.land (mask wd) r)
  | o => fast_result o (argvals nl v n) wd
  end.

(* locals / outs : only combinational nets assign them *)
Definition fast_exec_v (mv : Z -> list (Z * Z)) (v : wid -> Z) (n : net) : wid -> Z :=
  match nop n with
  | OpReg | OpMemWr _ => v
  | _ => match fast_expr mv v n with
         | Some r => upd v (ndest n) r
         | None => v
         end
  end.

(* regs[...] = ... *)
Definition fast_exec_r (v : wid -> Z) (rg : wid -> Z) (n : net) : wid -> Z :=
  match nop n with
  | OpReg => match fast_result OpReg (argvals nl v n) (width_of nl (ndest n)) with
             | Some r => upd rg (ndest n) r
             | None => rg
             end
  | _ => rg
  end.

(* if enable: mem_ws.append((mem, addr, val)) *)
Definition fast_exec_w (v : wid -> Z) (ws : list (Z * Z * Z)) (n : net) : list (Z * Z * Z) :=
  match nop n with
  | OpMemWr m => if v (arg n 2) =? 0 then ws else ws ++ [(m, v (arg n 0), v (arg n 1))]
  | _ => ws
  end.

Definition fast_exec (mv : Z -> list (Z * Z))
    (s : (wid -> Z) * (wid -> Z) * list (Z * Z * Z)) (n : net) :=
  let '(v, rg, ws) := s in
  (fast_exec_v mv v n, fast_exec_r v rg n, fast_exec_w v ws n).

(* for mem, addr, value in mem_writes: self.mems[mem][addr] = value *)
Definition fast_apply_write (mv : Z -> list (Z * Z)) (w : Z * Z * Z) : Z -> list (Z * Z) :=
  let '(m, a, d) := w in upd mv m (dict_set (mv m) a d).

(* d[...] for Input/Register, literal for Const; locals are unbound before assignment
   (modelled as the default) *)
Definition fast_base (st : fstate) (ins : wid -> Z) : wid -> Z :=
  fun w => match find_wire (wires nl) w with
           | Some x => match wkind x with
                       | KConst c => c
                       | KInput => ins w
                       | KReg _ => fregs st w
                       | _ => dflt
                       end
           | None => dflt
           end.

Definition fast_step (st : fstate) (ins : wid -> Z) : (wid -> Z) * fstate :=
  let '(v, rg, ws) :=
    fold_left (fast_exec (fmems st)) (nets nl) (fast_base st ins, fregs st, []) in
  (v, {| fregs := rg; fmems := fold_left fast_apply_write ws (fmems st) |}).

Fixpoint fast_run (st : fstate) (inss : list (wid -> Z)) : list (wid -> Z) * fstate :=
  match inss with
  | [] => ([], st)
  | ins :: rest =>
      let '(v, st') := fast_step st ins in
      let '(vs, st'') := fast_run st' rest in
      (v :: vs, st'')
  end.

(* _initialize *)
Definition fast_init (regmap : list (Z * Z)) (memmap : list (Z * list (Z * Z))) : fstate :=
  {| fregs := init_reg nl dflt regmap;
     fmems := fun m => match find (fun p => fst p =? m) memmap with
                       | Some (_, d) => d
                       | None => []
                       end |}.

(* ---- extra well-formedness FastSimulation relies on (all enforced by
   Block.sanity_check_net; evaluated on every dumped design) ---------------- *)

Definition binop_eqw (o : op) : bool :=
  match o with
  | OpAnd | OpOr | OpXor | OpNand | OpAdd | OpSub | OpMul | OpLt | OpGt | OpEq => true
  | _ => false
  end.

(* Block.sanity_check_net's width rules that FastSimulation relies on.  While the masked
   assignment text is parenthesised (fast_mask_parenthesised) nothing more is needed; with the
   defective unparenthesised text, truncating mux / concat / select nets had to be excluded. *)
Definition fast_op_ok (n : net) : bool :=
  let el := fast_elides (nop n) (argws n) (width_of nl (ndest n)) || fast_mask_parenthesised in
  match nop n with
  | OpMux => (width_of nl (arg n 1) =? width_of nl (arg n 2)) && el
  | OpConcat | OpSelect _ => el
  | o => if binop_eqw o then width_of nl (arg n 0) =? width_of nl (arg n 1) else true
  end.

(* `r` and `@` nets are emitted in block order too: their arguments must be
   ready where they stand (Block.__iter__ guarantees it) *)
Definition fast_net_ok (rdy : list wid) (n : net) : bool :=
  fast_op_ok n &&
  (if is_comb (nop n) then true
   else forallb (fun a => mem_in a rdy) (nargs n) && arity_ok (nop n) (length (nargs n))).

Fixpoint fast_nets_ok (rdy : list wid) (ns : list net) : bool :=
  match ns with
  | [] => true
  | n :: r => fast_net_ok rdy n && fast_nets_ok (rdy_next rdy n) r
  end.

Definition fast_wfb : bool := fast_nets_ok (rdy0 nl) (nets nl).

End WithNetlist.
