(* Model of the chained hash map the emitted C program keeps every MemBlock in
   (pyrtl/compilesim.py _declare_mem_helpers: hashmap_t, create_hash_map, hash_code, insert,
   lookup; _declare_mems: create_hash_map(<buckets>, limbs) and one insert per memory_value_map
   entry).  Definitions only -- proofs are in Sim/CEmitHashProofs.v.

   A hashmap_t is `size` buckets; a bucket is the chain of its nodes from the head
   (h->list[pos]) along ->next; a node is (key, val[val_limbs]).  The number of buckets comes
   from Gen/CHelpers.c_hash_buckets (read off the source). *)
From PyRTL Require Export Base.PyZ.
From PyRTL Require Export Gen.CHelpers.

Record hashmap := mkH {
  hsize : Z;                               (* h->size *)
  hlimbs : nat;                            (* h->val_limbs *)
  hdefault : list Z;                       (* h->default_value *)
  hlist : list (list (Z * list Z))         (* h->list[0 .. size-1] *)
}.

(* create_hash_map(size, val_limbs): default_value[i] = 0, list[i] = NULL *)
Definition hm_create (size : Z) (limbs : nat) : hashmap :=
  mkH size limbs (repeat 0 limbs) (repeat [] (Z.to_nat size)).

(* hash_code: key % h->size *)
Definition hm_hash (h : hashmap) (key : Z) : Z := key mod hsize h.

Definition hm_bucket (h : hashmap) (key : Z) : list (Z * list Z) :=
  nth (Z.to_nat (hm_hash h key)) (hlist h) [].

(* while (temp) { if (temp->key == key) return temp->val; temp = temp->next; } *)
Fixpoint chain_find (c : list (Z * list Z)) (key : Z) : option (list Z) :=
  match c with
  | [] => None
  | (k, v) :: r => if k =? key then Some v else chain_find r key
  end.

(* the search loop of insert: memcpy(temp->val, val, ...) into the first node with that key *)
Fixpoint chain_update (c : list (Z * list Z)) (key : Z) (v : list Z) : option (list (Z * list Z)) :=
  match c with
  | [] => None
  | (k, v0) :: r =>
      if k =? key then Some ((k, v) :: r)
      else match chain_update r key v with
           | Some r' => Some ((k, v0) :: r')
           | None => None
           end
  end.

Fixpoint lset {A} (n : nat) (x : A) (l : list A) : list A :=
  match l, n with
  | [], _ => []
  | _ :: r, O => x :: r
  | y :: r, S n' => y :: lset n' x r
  end.

(* insert(h, key, val): update in place, else  new_node->next = list; h->list[pos] = new_node;
   memcpy copies val_limbs limbs of val *)
Definition hm_insert (h : hashmap) (key : Z) (val : list Z) : hashmap :=
  let pos := Z.to_nat (hm_hash h key) in
  let c := hm_bucket h key in
  let v := firstn (hlimbs h) val in
  let c' := match chain_update c key v with
            | Some c' => c'
            | None => (key, v) :: c
            end in
  mkH (hsize h) (hlimbs h) (hdefault h) (lset pos c' (hlist h)).

(* lookup(h, key): the node's val, else h->default_value *)
Definition hm_lookup (h : hashmap) (key : Z) : list Z :=
  match chain_find (hm_bucket h key) key with
  | Some v => v
  | None => hdefault h
  end.

(* replaying a history: initialize_mems() inserts, then the enabled writes, then lookups *)
Definition hm_replay (limbs : nat) (ops : list (Z * list Z)) (probes : list Z) : list (list Z) :=
  let h := fold_left (fun h kv => hm_insert h (fst kv) (snd kv)) ops (hm_create c_hash_buckets limbs) in
  map (hm_lookup h) probes.
