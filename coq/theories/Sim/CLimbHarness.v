(* Entry point evaluated by py/checks/C02.py: run the C builder model of one
   net on concrete operands (definitions only). *)
From PyRTL Require Import Netlist.Syntax Sim.CLimb.

Definition to_limbs (vw : Z * Z) : list Z := c_pack (nlimbs (snd vw)) (fst vw).

(* args: (value, bitwidth) in net order; wd = bitwidth of the destination.
   Result: the integer held by the destination limbs (None: shape not handled). *)
Definition climb_op (o : op) (args : list (Z * Z)) (wd : Z) : option Z :=
  match o, args with
  | OpW, [a] => Some (limbs_to_Z (c_wire (snd a) (to_limbs a) wd))
  | OpNot, [a] => Some (limbs_to_Z (c_not (to_limbs a) wd))
  | OpAnd, [a; b] => Some (limbs_to_Z (c_bitwise Z.land (snd a) (to_limbs a) (snd b) (to_limbs b) wd))
  | OpOr, [a; b] => Some (limbs_to_Z (c_bitwise Z.lor (snd a) (to_limbs a) (snd b) (to_limbs b) wd))
  | OpXor, [a; b] => Some (limbs_to_Z (c_bitwise Z.lxor (snd a) (to_limbs a) (snd b) (to_limbs b) wd))
  | OpNand, [a; b] => Some (limbs_to_Z (c_nand (snd a) (to_limbs a) (snd b) (to_limbs b) wd))
  | OpAdd, [a; b] => Some (limbs_to_Z (c_add (snd a) (to_limbs a) (snd b) (to_limbs b) wd))
  | OpSub, [a; b] => Some (limbs_to_Z (c_sub (snd a) (to_limbs a) (snd b) (to_limbs b) wd))
  | OpMul, [a; b] => Some (limbs_to_Z (c_mul (snd a) (to_limbs a) (snd b) (to_limbs b) wd))
  | OpLt, [a; b] => Some (limbs_to_Z (c_cmp Z.ltb (snd a) (to_limbs a) (snd b) (to_limbs b)))
  | OpGt, [a; b] => Some (limbs_to_Z (c_cmp Z.gtb (snd a) (to_limbs a) (snd b) (to_limbs b)))
  | OpEq, [a; b] => Some (limbs_to_Z (c_eq (snd a) (to_limbs a) (snd b) (to_limbs b)))
  | OpMux, [s; f; t] => Some (limbs_to_Z (c_mux (to_limbs s) (snd f) (to_limbs f) (snd t) (to_limbs t) wd))
  | OpConcat, _ => Some (limbs_to_Z (c_concat (map (fun a => (snd a, to_limbs a)) args) wd))
  | OpSelect idx, [a] => Some (limbs_to_Z (c_select (to_limbs a) idx wd))
  | _, _ => None
  end.

Definition climb_ops (cases : list (op * list (Z * Z) * Z)) : list (option Z) :=
  map (fun c => climb_op (fst (fst c)) (snd (fst c)) (snd c)) cases.

(* input packing then output unpacking of run() *)
Definition climb_roundtrip (w v : Z) : Z := c_unpack (c_pack (nlimbs w) v).

(* comparison inside Coq (printing big numerals is the expensive part): each case carries the
   value the implementation showed; the result lists only the disagreeing cases (index, model value) *)
Fixpoint climb_check_from (k : Z) (cases : list (op * list (Z * Z) * Z * Z)) : list (Z * option Z) :=
  match cases with
  | [] => []
  | (o, args, wd, expected) :: rest =>
      let got := climb_op o args wd in
      let tl := climb_check_from (k + 1) rest in
      match got with
      | Some g => if g =? expected then tl else (k, got) :: tl
      | None => (k, None) :: tl
      end
  end.

Definition climb_check (cases : list (op * list (Z * Z) * Z * Z)) : list (Z * option Z) :=
  climb_check_from 0 cases.
