(* C02 (CompiledSimulation): the chained hash map of the emitted C program (Sim/CEmitHash.v)
   behaves as the finite map Sim/CEmitModel.v uses for a memory: insert = "bind the key to the
   first val_limbs limbs", lookup = "the bound array, else zeros" -- for every number of buckets,
   every history of inserts and every key, whatever chains the keys collide into. *)
From PyRTL Require Import Sim.CEmitHash Sim.CEmitModel Sim.CLimbProofs Sim.CEmitProofs.
From Coq Require Import ZifyBool.

Lemma lset_length {A} (x : A) : forall l n, length (lset n x l) = length l.
Proof. induction l as [|y l IH]; intros [|n]; cbn [lset length]; auto. Qed.

Lemma nth_lset_same {A} (x d : A) : forall l n, (n < length l)%nat -> nth n (lset n x l) d = x.
Proof.
  induction l as [|y l IH]; intros [|n] H; cbn [lset nth length] in *; try lia; auto. apply IH. lia.
Qed.

Lemma nth_lset_other {A} (x d : A) : forall l n k, k <> n -> nth k (lset n x l) d = nth k l d.
Proof.
  induction l as [|y l IH]; intros [|n] [|k] H; cbn [lset nth]; try reflexivity; try lia. apply IH. lia.
Qed.

(* the in-place update and the search agree *)
Lemma chain_update_none c key v : chain_update c key v = None -> chain_find c key = None.
Proof.
  induction c as [|[k v0] r IH]; cbn [chain_update chain_find]; [reflexivity|].
  destruct (k =? key); [discriminate|]. destruct (chain_update r key v); [discriminate|]. auto.
Qed.

Lemma chain_find_update c key v c' k' : chain_update c key v = Some c' ->
  chain_find c' k' = if key =? k' then Some v else chain_find c k'.
Proof.
  revert c'. induction c as [|[k v0] r IH]; intros c' H; cbn [chain_update] in H; [discriminate|].
  destruct (k =? key) eqn:E.
  - injection H as <-. cbn [chain_find]. assert (k = key) by lia. subst k.
    destruct (key =? k'); reflexivity.
  - destruct (chain_update r key v) as [r'|] eqn:Er; [|discriminate]. injection H as <-.
    cbn [chain_find]. destruct (k =? k') eqn:E2.
    + replace (key =? k') with false by lia. reflexivity.
    + apply IH. reflexivity.
Qed.

Definition hm_ok (h : hashmap) : Prop :=
  0 < hsize h /\ length (hlist h) = Z.to_nat (hsize h) /\ hdefault h = repeat 0 (hlimbs h).

Lemma hm_pos_lt h key : hm_ok h -> (Z.to_nat (hm_hash h key) < length (hlist h))%nat.
Proof.
  intros [Hs [Hl _]]. unfold hm_hash. pose proof (Z.mod_pos_bound key (hsize h) Hs). lia.
Qed.

Lemma hm_insert_ok h key val : hm_ok h -> hm_ok (hm_insert h key val).
Proof.
  intros [Hs [Hl Hd]]. unfold hm_ok, hm_insert. cbn [hsize hlist hdefault hlimbs].
  rewrite lset_length. auto.
Qed.

Lemma hm_create_ok size limbs : 0 < size -> hm_ok (hm_create size limbs).
Proof.
  intros H. unfold hm_ok, hm_create. cbn [hsize hlist hdefault hlimbs]. rewrite repeat_length. auto.
Qed.

(* what a lookup finds, as an option (None = h->default_value) *)
Definition hm_find (h : hashmap) (key : Z) : option (list Z) := chain_find (hm_bucket h key) key.

(* >>> lookup after insert, for every key pair -- colliding in one chain or not *)
Lemma hm_find_insert h key val k' : hm_ok h ->
  hm_find (hm_insert h key val) k'
  = if key =? k' then Some (firstn (hlimbs h) val) else hm_find h k'.
Proof.
  intros Hok. pose proof (hm_pos_lt h key Hok) as Hpos.
  unfold hm_find, hm_bucket at 1. unfold hm_hash at 1. unfold hm_insert at 1 2. cbn [hsize hlist].
  fold (hm_hash h k'). fold (hm_hash h key).
  destruct (Z.eq_dec (hm_hash h k') (hm_hash h key)) as [Eh|Nh].
  - (* same bucket *)
    rewrite Eh. rewrite nth_lset_same by assumption.
    assert (Hb : hm_bucket h k' = hm_bucket h key) by (unfold hm_bucket; rewrite Eh; reflexivity).
    unfold hm_find. rewrite Hb.
    destruct (chain_update (hm_bucket h key) key (firstn (hlimbs h) val)) as [c'|] eqn:Eu.
    + apply (chain_find_update _ _ _ _ k' Eu).
    + cbn [chain_find]. destruct (key =? k'); reflexivity.
  - (* another bucket: untouched; and the keys differ *)
    rewrite nth_lset_other by (intro Hc; apply Nh; apply Z2Nat.inj in Hc;
      [assumption|unfold hm_hash; apply Z.mod_pos_bound; apply Hok ..]).
    replace (key =? k') with false by (destruct (key =? k') eqn:E; [|reflexivity];
      assert (key = k') by lia; subst; contradiction).
    reflexivity.
Qed.

Lemma hm_find_create size limbs key : 0 < size -> hm_find (hm_create size limbs) key = None.
Proof.
  intros Hs. unfold hm_find, hm_bucket, hm_create. cbn [hlist hsize].
  assert (H : forall n (m : nat), nth m (repeat (@nil (Z * list Z)) n) [] = []).
  { induction n as [|n IH]; intros [|m]; cbn; auto. }
  rewrite H. reflexivity.
Qed.

(* ---- the bridge to the finite map of Sim/CEmitModel.v -------------------------------------- *)

(* a hash map represents an association list (first match wins) *)
Definition HM_R (h : hashmap) (l : list (Z * list Z)) : Prop :=
  hm_ok h /\ forall k, hm_find h k = lassoc l k.

Lemma HM_R_create size limbs : 0 < size -> HM_R (hm_create size limbs) [].
Proof.
  intros Hs. split; [apply hm_create_ok; assumption|]. intros k. rewrite hm_find_create by assumption.
  reflexivity.
Qed.

Lemma HM_R_insert h l key val : HM_R h l ->
  HM_R (hm_insert h key val) ((key, firstn (hlimbs h) val) :: l).
Proof.
  intros [Hok Hf]. split; [apply hm_insert_ok; assumption|]. intros k.
  rewrite hm_find_insert by assumption. rewrite lassoc_cons. destruct (key =? k); [reflexivity|apply Hf].
Qed.

Lemma HM_R_lookup h l key : HM_R h l ->
  hm_lookup h key = match lassoc l key with Some v => v | None => repeat 0 (hlimbs h) end.
Proof.
  intros [[_ [_ Hd]] Hf]. unfold hm_lookup. fold (hm_find h key). rewrite Hf, Hd. reflexivity.
Qed.

(* every history of inserts (initialize_mems, then the enabled writes of every cycle) *)
Theorem hm_history_refines limbs (ops : list (Z * list Z)) : forall h l, HM_R h l -> hlimbs h = limbs ->
  let h' := fold_left (fun h kv => hm_insert h (fst kv) (snd kv)) ops h in
  let l' := fold_left (fun l kv => (fst kv, firstn limbs (snd kv)) :: l) ops l in
  HM_R h' l' /\ hlimbs h' = limbs.
Proof.
  induction ops as [|[k v] r IH]; intros h l HR Hl; cbn [fold_left fst snd]; [auto|].
  apply IH; [|exact Hl]. rewrite <- Hl. apply HM_R_insert. assumption.
Qed.

(* the statements of the emitted program that touch a memory, on the hash map, are the ones
   CEmitModel performs on its finite map *)
Lemma map_rd_firstn l : forall n, (n <= length l)%nat -> map (rd l) (seq 0 n) = firstn n l.
Proof.
  induction l as [|x l IH]; intros [|n] H; cbn [length] in H; try reflexivity; try lia.
  cbn [seq map firstn]. f_equal. rewrite <- seq_shift, map_map. rewrite <- IH by lia.
  apply map_ext. intros k. reflexivity.
Qed.

Section Bridge.
Variable nl : netlist.

(* one hash map per memory, created with val_limbs = _limbs(mem) *)
Definition HMems (hs : Z -> hashmap) (mv : Z -> list (Z * list Z)) : Prop :=
  forall m, HM_R (hs m) (mv m) /\ hlimbs (hs m) = nlimbs (mem_dataw nl m).

Theorem hm_lookup_is_c_lookup hs mv m a mm :
  HMems hs mv -> find_mem (mems nl) m = Some mm -> mrom mm = None ->
  hm_lookup (hs m) a = c_lookup nl mv m a.
Proof.
  intros H Hf Hr. destruct (H m) as [HR Hl]. rewrite (HM_R_lookup _ _ _ HR).
  unfold c_lookup. rewrite Hf, Hr. rewrite Hl. unfold mem_dataw. rewrite Hf. reflexivity.
Qed.

(* `if (enable[0]) insert(mem, addr[0], data);` *)
Theorem hm_insert_is_c_insert hs mv cv n m :
  HMems hs mv -> nop n = OpMemWr m ->
  (nlimbs (mem_dataw nl m) <= length (cv (arg n 1)))%nat ->
  HMems (if rd (cv (arg n 2)) 0 =? 0 then hs
         else upd hs m (hm_insert (hs m) (rd (cv (arg n 0)) 0) (cv (arg n 1))))
        (c_insert nl cv mv n).
Proof.
  intros H Hop Hlen. unfold c_insert. rewrite Hop.
  destruct (rd (cv (arg n 2)) 0 =? 0); [assumption|].
  intros m'. unfold upd. destruct (m' =? m) eqn:E; [|apply H].
  assert (m' = m) by lia. subst m'. destruct (H m) as [HR Hl]. split.
  - unfold idxs. rewrite map_rd_firstn by assumption. rewrite <- Hl. apply HM_R_insert. assumption.
  - unfold hm_insert. cbn [hlimbs]. assumption.
Qed.

End Bridge.
