(* Entry points evaluated by py/checks/C02.py with vm_compute (definitions only;
   depends on no proof file). *)
From PyRTL Require Import Sim.FastModel.
From PyRTL Require Export Netlist.SpecHarness.

(* rows: [wfb; fast_wfb]; per-net mask-elision decision (1 = `dest = expr`, 0 = masked,
   2 = the net has no assignment statement ('@'));
   final memory probes; then one row per cycle (all wires, in `wires` order) *)
Definition fastmodel_case (nl : netlist) (dflt : Z) (regmap : list (Z * Z))
    (memmap : list (Z * list (Z * Z))) (inss : list (list (Z * Z)))
    (probes : list (Z * Z)) : list (list Z) :=
  let ins := map ins_of inss in
  let '(vs, st) := fast_run nl dflt (fast_init nl dflt regmap memmap) ins in
  [b2z (wfb nl); b2z (fast_wfb nl)]
  :: map (fun n => match nop n with
                   | OpMemWr _ => 2
                   | o => b2z (fast_elides o (argws nl n) (width_of nl (ndest n)))
                   end) (nets nl)
  :: map (fun p => assoc_d (fmems st (fst p)) (snd p) dflt) probes
  :: map (probe nl) vs.

(* Printing (and parsing) 100+-bit decimal numerals dominates the cost of an evaluation, so the
   routine comparison is by fingerprint: a polynomial hash mod 2^61-1 of each row, computed here
   and, identically, by the harness on the implementation's row.  On a fingerprint mismatch the
   harness falls back to spec_case / fastmodel_case, which print every value. *)
Definition fp_P : Z := 2305843009213693951.
Definition fingerprint (l : list Z) : Z :=
  fold_left (fun h x => (h * 1000003 + x mod fp_P) mod fp_P) l 7.

(* rows: [wfb; fast_wfb]; mask-elision decision per net; [fp spec memory; fp Fast-model memory];
   fp of every cycle's row under Sem; fp of every cycle's row under the Fast model *)
Definition c02_case (nl : netlist) (dflt : Z) (regmap : list (Z * Z))
    (memmap : list (Z * list (Z * Z))) (inss : list (list (Z * Z)))
    (probes : list (Z * Z)) : list (list Z) :=
  let ins := map ins_of inss in
  let '(vs, st) := run nl dflt (init_state nl dflt regmap memmap) ins in
  let '(fvs, fs) := fast_run nl dflt (fast_init nl dflt regmap memmap) ins in
  [b2z (wfb nl); b2z (fast_wfb nl)]
  :: map (fun n => match nop n with
                   | OpMemWr _ => 2
                   | o => b2z (fast_elides o (argws nl n) (width_of nl (ndest n)))
                   end) (nets nl)
  :: [fingerprint (map (fun p => smems st (fst p) (snd p)) probes);
      fingerprint (map (fun p => assoc_d (fmems fs (fst p)) (snd p) dflt) probes)]
  :: map (fun v => fingerprint (probe nl v)) vs
  :: map (fun v => fingerprint (probe nl v)) fvs
  :: nil.
