(* Entry points evaluated by py/checks/C02.py with vm_compute (definitions only;
   depends on no proof file). *)
From PyRTL Require Import Sim.FastModel.
From PyRTL Require Export Netlist.SpecHarness.

(* rows: [wfb; fast_wfb]; per-net mask-elision decision (1 = `dest = expr`, 0 = masked,
   2 = the net has no assignment statement ('@'));
   final memory probes; then one row per cycle (all wires, in `wires` order) *)
Definition fastmodel_case (nl : netlist) (dflt : Z) (regmap : list (Z * Z))
    (memmap : list (Z * list (Z * Z))) (inss : list (list (Z * Z)))
    (probes : list (Z * Z)) : list (list Z) :=
  let ins := map ins_of inss in
  let '(vs, st) := fast_run nl dflt (fast_init nl dflt regmap memmap) ins in
  [b2z (wfb nl); b2z (fast_wfb nl)]
  :: map (fun n => match nop n with
                   | OpMemWr _ => 2
                   | o => b2z (fast_elides o (argws nl n) (width_of nl (ndest n)))
                   end) (nets nl)
  :: map (fun p => assoc_d (fmems st (fst p)) (snd p) dflt) probes
  :: map (probe nl) vs.
