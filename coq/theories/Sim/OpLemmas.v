(* Per-operator lemmas: the Python-int computation of Simulation followed by
   the bitmask equals the documented integer function mod 2^width. *)
From PyRTL Require Import Sim.SimModel.
From Coq Require Import ZifyBool.

Lemma lor_add_disjoint a b :
  (forall i, 0 <= i -> Z.testbit a i && Z.testbit b i = false) -> Z.lor a b = a + b.
Proof.
  intros H. assert (Hl : Z.land a b = 0).
  { apply Z.bits_inj'. intros i Hi. rewrite Z.land_spec, Z.bits_0. apply H; assumption. }
  rewrite Z.add_nocarry_lxor by assumption. symmetry. apply Z.lxor_lor. assumption.
Qed.

Lemma lor_shiftl_add r v w : 0 <= w -> inrange v w -> Z.lor (Z.shiftl r w) v = r * 2 ^ w + v.
Proof.
  intros Hw Hv. rewrite lor_add_disjoint.
  - rewrite Z.shiftl_mul_pow2 by assumption. reflexivity.
  - intros i Hi. destruct (Z.lt_ge_cases i w).
    + rewrite Z.shiftl_spec_low by assumption. reflexivity.
    + rewrite (inrange_testbit v w) by auto. apply andb_false_r.
Qed.

Lemma sim_concat_gen args : forall acc,
  (forall v w, In (v, w) args -> 0 <= w /\ inrange v w) ->
  fold_left (fun r vw => Z.lor (Z.shiftl r (snd vw)) (fst vw)) args acc =
  fold_left (fun acc vw => acc * 2 ^ (snd vw) + fst vw) args acc.
Proof.
  induction args as [|[v w] rest IH]; intros acc H; simpl; [reflexivity|].
  destruct (H v w (or_introl eq_refl)) as [Hw Hv].
  rewrite lor_shiftl_add by assumption. apply IH.
  intros v' w' Hin. apply H. right. assumption.
Qed.

Lemma sim_concat_spec args :
  (forall v w, In (v, w) args -> 0 <= w /\ inrange v w) ->
  sim_concat args = concat_spec args.
Proof. intros. unfold sim_concat, concat_spec. apply sim_concat_gen. assumption. Qed.

Lemma land_1_shiftr src b : 0 <= b -> Z.land 1 (Z.shiftr src b) = b2z (Z.testbit src b).
Proof.
  intros Hb. rewrite Z.land_comm. change 1 with (Z.ones 1) at 1.
  rewrite Z.land_ones by lia. change (2 ^ 1) with 2.
  rewrite Zmod_odd. rewrite <- Z.bit0_odd, Z.shiftr_spec by lia.
  rewrite Z.add_0_l. unfold b2z. reflexivity.
Qed.

Lemma select_step r src b : 0 <= b ->
  Z.lor (Z.shiftl r 1) (Z.land 1 (Z.shiftr src b)) = b2z (Z.testbit src b) + 2 * r.
Proof.
  intros Hb. rewrite land_1_shiftr by assumption.
  rewrite lor_shiftl_add; [change (2 ^ 1) with 2; lia | lia |].
  unfold inrange, b2z. destruct (Z.testbit src b); simpl; lia.
Qed.

Lemma sim_select_spec src idx : (forall i, In i idx -> 0 <= i) ->
  sim_select src idx = select_spec src idx.
Proof.
  intros H. unfold sim_select, select_spec.
  rewrite <- fold_left_rev_right. rewrite rev_involutive.
  induction idx as [|i rest IH]; cbn [fold_right]; [reflexivity|].
  rewrite select_step by (apply H; left; reflexivity).
  rewrite IH by (intros; apply H; right; assumption). reflexivity.
Qed.

Lemma mod_pow2_shift a w wd : 0 <= wd <= w -> (2 ^ w + a) mod 2 ^ wd = a mod 2 ^ wd.
Proof.
  intros H. replace (2 ^ w) with (2 ^ (w - wd) * 2 ^ wd)
    by (rewrite <- Z.pow_add_r by lia; f_equal; lia).
  rewrite Z.add_comm. apply Z.mod_add. pose proof (pow2_pos wd). lia.
Qed.

(* '~' : ~x & mask(wd)  =  (2^w - 1 - x) mod 2^wd  whenever wd <= w *)
Lemma not_correct x w wd : 0 <= wd <= w ->
  sanitize (Z.lnot x) wd = (2 ^ w - 1 - x) mod 2 ^ wd.
Proof.
  intros H. rewrite sanitize_mod by lia. unfold Z.lnot.
  replace (2 ^ w - 1 - x) with (2 ^ w + Z.pred (- x)) by lia.
  symmetry. apply mod_pow2_shift. assumption.
Qed.

Lemma select_range src idx : 0 <= select_spec src idx < 2 ^ Z.of_nat (length idx).
Proof.
  unfold select_spec.
  induction idx as [|i rest IH]; cbn [length fold_right]; [simpl; lia|].
  rewrite Nat2Z.inj_succ, Z.pow_succ_r by lia.
  destruct (Z.testbit src i); cbn [b2z]; lia.
Qed.
