(* Per-operator lemmas: the Python-int computation of Simulation followed by
   the bitmask equals the documented integer function mod 2^width. *)
From PyRTL Require Import Sim.SimModel.
From Coq Require Import ZifyBool.

Lemma lor_add_disjoint a b :
  (forall i, 0 <= i -> Z.testbit a i && Z.testbit b i = false) -> Z.lor a b = a + b.
Proof.
  intros H. assert (Hl : Z.land a b = 0).
  { apply Z.bits_inj'. intros i Hi. rewrite Z.land_spec, Z.bits_0. apply H; assumption. }
  rewrite Z.add_nocarry_lxor by assumption. symmetry. apply Z.lxor_lor. assumption.
Qed.

Lemma lor_shiftl_add r v w : 0 <= w -> inrange v w -> Z.lor (Z.shiftl r w) v = r * 2 ^ w + v.
Proof.
  intros Hw Hv. rewrite lor_add_disjoint.
  - rewrite Z.shiftl_mul_pow2 by assumption. reflexivity.
  - intros i Hi. destruct (Z.lt_ge_cases i w).
    + rewrite Z.shiftl_spec_low by assumption. reflexivity.
    + rewrite (inrange_testbit v w) by auto. apply andb_false_r.
Qed.

Lemma sim_concat_gen args : forall acc,
  (forall v w, In (v, w) args -> 0 <= w /\ inrange v w) ->
  fold_left (fun r vw => Z.lor (Z.shiftl r (snd vw)) (fst vw)) args acc =
  fold_left (fun acc vw => acc * 2 ^ (snd vw) + fst vw) args acc.
Proof.
  induction args as [|[v w] rest IH]; intros acc H; simpl; [reflexivity|].
  destruct (H v w (or_introl eq_refl)) as [Hw Hv].
  rewrite lor_shiftl_add by assumption. apply IH.
  intros v' w' Hin. apply H. right. assumption.
Qed.

(* ---- the regenerated fragments (Gen/SimExec.v) ------------------------------
   Each lemma below is about a definition that py/genfrag_C01.py translates from
   the CURRENT source of pyrtl/simulation.py / wire.py; it is re-proved on every
   run, so a source edit that changes what the fragment computes stops here. *)

(* Simulation._sanitize / WireVector.bitmask:  val & ((1 << bitwidth) - 1) *)
Lemma sx_sanitize_spec v w : sx_sanitize v w = sanitize v w.
Proof.
  cbv beta delta [sx_sanitize sx_bitmask sanitize mask Z.ones].
  rewrite Z.sub_1_r. reflexivity.
Qed.

Lemma sx_sanitize_mod v w : 0 <= w -> sx_sanitize v w = v mod 2 ^ w.
Proof. intros. rewrite sx_sanitize_spec. apply sanitize_mod. assumption. Qed.

(* _execute 'c', one iteration: shift by the argument's width, or its value in *)
Lemma sx_concat_step_arith r v w : 0 <= w -> inrange v w -> sx_concat_step r (v, w) = r * 2 ^ w + v.
Proof.
  intros Hw Hv. cbv beta zeta delta [sx_concat_step]. cbn [fst snd].
  apply lor_shiftl_add; assumption.
Qed.

Lemma sx_concat_init_spec : sx_concat_init = 0.
Proof. reflexivity. Qed.

(* _execute 'c' walks net.args first to last *)
Lemma sx_concat_order_spec (A : Type) (l : list A) : sx_concat_order l = l.
Proof. reflexivity. Qed.

Lemma sx_concat_fold args : forall acc,
  (forall v w, In (v, w) args -> 0 <= w /\ inrange v w) ->
  fold_left sx_concat_step args acc =
  fold_left (fun acc vw => acc * 2 ^ (snd vw) + fst vw) args acc.
Proof.
  induction args as [|[v w] rest IH]; intros acc H; cbn [fold_left fst snd]; [reflexivity|].
  destruct (H v w (or_introl eq_refl)) as [Hw Hv].
  rewrite sx_concat_step_arith by assumption. apply IH.
  intros v' w' Hin. apply H. right. assumption.
Qed.

Lemma sim_concat_spec args :
  (forall v w, In (v, w) args -> 0 <= w /\ inrange v w) ->
  sim_concat args = concat_spec args.
Proof.
  intros. unfold sim_concat, concat_spec.
  rewrite sx_concat_order_spec, sx_concat_init_spec. apply sx_concat_fold. assumption.
Qed.

Lemma land_1_shiftr src b : 0 <= b -> Z.land 1 (Z.shiftr src b) = b2z (Z.testbit src b).
Proof.
  intros Hb. rewrite Z.land_comm. change 1 with (Z.ones 1) at 1.
  rewrite Z.land_ones by lia. change (2 ^ 1) with 2.
  rewrite Zmod_odd. rewrite <- Z.bit0_odd, Z.shiftr_spec by lia.
  rewrite Z.add_0_l. unfold b2z. reflexivity.
Qed.

Lemma select_step r src b : 0 <= b ->
  Z.lor (Z.shiftl r 1) (Z.land 1 (Z.shiftr src b)) = b2z (Z.testbit src b) + 2 * r.
Proof.
  intros Hb. rewrite land_1_shiftr by assumption.
  rewrite lor_shiftl_add; [change (2 ^ 1) with 2; lia | lia |].
  unfold inrange, b2z. destruct (Z.testbit src b); simpl; lia.
Qed.

(* _execute 's', one iteration: shift by one, or bit b of the source in *)
Lemma sx_select_step_arith src r b : 0 <= b ->
  sx_select_step src r b = b2z (Z.testbit src b) + 2 * r.
Proof.
  intros Hb. cbv beta zeta delta [sx_select_step]. apply select_step. assumption.
Qed.

Lemma sx_select_init_spec : sx_select_init = 0.
Proof. reflexivity. Qed.

(* _execute 's' walks op_param LAST to first (op_param[::-1]), so that op_param[0]
   ends up as bit 0 of the result *)
Lemma sx_select_order_spec (A : Type) (l : list A) : sx_select_order l = rev l.
Proof. reflexivity. Qed.

(* the operand positions the source reads *)
Lemma sx_select_src_arg_spec : sx_select_src_arg = 0%nat.
Proof. reflexivity. Qed.

Lemma sx_mem_read_addr_arg_spec : sx_mem_read_addr_arg = 0%nat.
Proof. reflexivity. Qed.

(* _execute 'm': memvalue[memid].get(read_addr, default_value) *)
Lemma sx_mem_get_spec d a dflt : sx_mem_get d a dflt = assoc_d d a dflt.
Proof. reflexivity. Qed.

(* _mem_update: `if write_enable: memvalue[memid][write_addr] = write_val` with
   (write_addr, write_val, write_enable) = values of (args[0], args[1], args[2]) *)
Lemma sx_mem_write_cond_spec a0 a1 a2 : sx_mem_write_cond a0 a1 a2 = negb (a2 =? 0).
Proof. reflexivity. Qed.

Lemma sx_mem_write_addr_spec a0 a1 a2 : sx_mem_write_addr a0 a1 a2 = a0.
Proof. reflexivity. Qed.

Lemma sx_mem_write_data_spec a0 a1 a2 : sx_mem_write_data a0 a1 a2 = a1.
Proof. reflexivity. Qed.

(* step: regvalue[dest] = _sanitize(value[args[0]], dest) *)
Lemma sx_reg_capture_spec x w : sx_reg_capture x w = sanitize x w.
Proof. cbv beta delta [sx_reg_capture]. apply sx_sanitize_spec. Qed.

Lemma sx_reg_capture_mod x w : 0 <= w -> sx_reg_capture x w = x mod 2 ^ w.
Proof. intros. rewrite sx_reg_capture_spec. apply sanitize_mod. assumption. Qed.

Lemma sx_mem_write_spec a0 a1 a2 :
  sx_mem_write_cond a0 a1 a2 = negb (a2 =? 0)
  /\ sx_mem_write_addr a0 a1 a2 = a0 /\ sx_mem_write_data a0 a1 a2 = a1.
Proof.
  split; [apply sx_mem_write_cond_spec|split; [apply sx_mem_write_addr_spec|apply sx_mem_write_data_spec]].
Qed.

Lemma sim_select_spec src idx : (forall i, In i idx -> 0 <= i) ->
  sim_select src idx = select_spec src idx.
Proof.
  intros H. unfold sim_select, select_spec.
  rewrite sx_select_order_spec, sx_select_init_spec.
  rewrite <- fold_left_rev_right. rewrite rev_involutive.
  induction idx as [|i rest IH]; cbn [fold_right]; [reflexivity|].
  rewrite sx_select_step_arith by (apply H; left; reflexivity).
  rewrite IH by (intros; apply H; right; assumption). reflexivity.
Qed.

Lemma mod_pow2_shift a w wd : 0 <= wd <= w -> (2 ^ w + a) mod 2 ^ wd = a mod 2 ^ wd.
Proof.
  intros H. replace (2 ^ w) with (2 ^ (w - wd) * 2 ^ wd)
    by (rewrite <- Z.pow_add_r by lia; f_equal; lia).
  rewrite Z.add_comm. apply Z.mod_add. pose proof (pow2_pos wd). lia.
Qed.

(* '~' : ~x & mask(wd)  =  (2^w - 1 - x) mod 2^wd  whenever wd <= w *)
Lemma not_correct x w wd : 0 <= wd <= w ->
  sanitize (Z.lnot x) wd = (2 ^ w - 1 - x) mod 2 ^ wd.
Proof.
  intros H. rewrite sanitize_mod by lia. unfold Z.lnot.
  replace (2 ^ w - 1 - x) with (2 ^ w + Z.pred (- x)) by lia.
  symmetry. apply mod_pow2_shift. assumption.
Qed.

Lemma select_range src idx : 0 <= select_spec src idx < 2 ^ Z.of_nat (length idx).
Proof.
  unfold select_spec.
  induction idx as [|i rest IH]; cbn [length fold_right]; [simpl; lia|].
  rewrite Nat2Z.inj_succ, Z.pow_succ_r by lia.
  destruct (Z.testbit src i); cbn [b2z]; lia.
Qed.
