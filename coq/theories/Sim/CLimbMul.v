(* C02 (CompiledSimulation): _build_mul -- schoolbook rows with 128-bit partial products --
   computes the product mod 2^destwidth for every number of limbs. *)
From PyRTL Require Import Sim.CLimb Sim.CLimbProofs Sim.OpLemmas.
From Coq Require Import ZifyBool.

Local Ltac pow64 := change (2 ^ 64) with 18446744073709551616 in *.

(* ---- set_nth ------------------------------------------------------------------------ *)

Lemma set_nth_length x : forall l n, length (set_nth n x l) = length l.
Proof. induction l as [|y l IH]; intros [|n]; cbn [set_nth length]; auto. Qed.

Lemma nth_set_nth_same x : forall l n, (n < length l)%nat -> nth n (set_nth n x l) 0 = x.
Proof.
  induction l as [|y l IH]; intros [|n] H; cbn [set_nth nth length] in *; try lia; auto.
  apply IH. lia.
Qed.

Lemma nth_set_nth_other x : forall l n k, k <> n -> nth k (set_nth n x l) 0 = nth k l 0.
Proof.
  induction l as [|y l IH]; intros [|n] [|k] H; cbn [set_nth nth]; try reflexivity; try lia.
  apply IH. lia.
Qed.

Lemma pow64_S n : 2 ^ (64 * Z.of_nat (S n)) = 2 ^ 64 * 2 ^ (64 * Z.of_nat n).
Proof. rewrite <- Z.pow_add_r by lia. f_equal. lia. Qed.

Lemma set_nth_value x : forall l n, (n < length l)%nat ->
  limbs_to_Z (set_nth n x l) = limbs_to_Z l + (x - nth n l 0) * 2 ^ (64 * Z.of_nat n).
Proof.
  induction l as [|y l IH]; intros [|n] H; cbn [length] in H; try lia.
  - cbn [set_nth nth]. rewrite !limbs_to_Z_cons. change (64 * Z.of_nat 0) with 0. rewrite Z.pow_0_r. lia.
  - cbn [set_nth nth]. rewrite !limbs_to_Z_cons. rewrite IH by lia. rewrite pow64_S. ring.
Qed.

Lemma set_nth_inrange x : forall l n, limbs_inrange l -> 0 <= x < 2 ^ 64 -> limbs_inrange (set_nth n x l).
Proof.
  unfold limbs_inrange. induction l as [|y l IH]; intros [|n] Hl Hx; cbn [set_nth]; auto;
    inversion Hl; subst; constructor; auto.
Qed.

Lemma nth_inrange l n : limbs_inrange l -> 0 <= nth n l 0 < 2 ^ 64.
Proof.
  intros H. destruct (Nat.lt_ge_cases n (length l)) as [Hlt|Hge].
  - unfold limbs_inrange in H. rewrite Forall_forall in H. apply H. apply nth_In. assumption.
  - rewrite nth_overflow by assumption. lia.
Qed.

(* ---- one 64x64 -> 128 multiply-accumulate step ------------------------------------------ *)

Lemma mul_step_arith P carry old :
  0 <= P <= (2 ^ 64 - 1) * (2 ^ 64 - 1) -> 0 <= carry < 2 ^ 64 -> 0 <= old < 2 ^ 64 ->
  let tmplo1 := wrap (P mod 2 ^ 64 + carry) in
  let c1 := b2z (tmplo1 <? carry) in
  let tmplo2 := wrap (tmplo1 + old) in
  let tmphi1 := wrap (P / 2 ^ 64 + (c1 + b2z (tmplo2 <? old))) in
  tmplo2 = (P + carry + old) mod 2 ^ 64 /\ tmphi1 = (P + carry + old) / 2 ^ 64.
Proof.
  intros HP Hc Ho. cbv zeta. unfold wrap, b2z.
  destruct ((P mod 2 ^ 64 + carry) mod 2 ^ 64 <? carry) eqn:E1;
  destruct (((P mod 2 ^ 64 + carry) mod 2 ^ 64 + old) mod 2 ^ 64 <? old) eqn:E2;
  pow64; split; Z.to_euclidean_division_equations; lia.
Qed.

(* ---- congruence modulo 2^W --------------------------------------------------------------- *)

Section Mul.
Variable W : Z.
Hypothesis HW0 : 0 <= W.

Definition cong (a b : Z) : Prop := exists q, a - b = q * 2 ^ W.

Lemma cong_refl a : cong a a.
Proof. exists 0. lia. Qed.

Lemma cong_trans a b c : cong a b -> cong b c -> cong a c.
Proof. intros [q1 H1] [q2 H2]. exists (q1 + q2). lia. Qed.

Lemma cong_sym a b : cong a b -> cong b a.
Proof. intros [q H]. exists (- q). lia. Qed.

Lemma cong_add a b c d : cong a b -> cong c d -> cong (a + c) (b + d).
Proof. intros [q1 H1] [q2 H2]. exists (q1 + q2). lia. Qed.

Lemma cong_zero_pow k e : W <= e -> cong (k * 2 ^ e) 0.
Proof.
  intros He. exists (k * 2 ^ (e - W)). rewrite Z.sub_0_r, <- Z.mul_assoc, <- Z.pow_add_r by lia.
  do 2 f_equal. lia.
Qed.

Lemma cong_mod a b : cong a b -> a mod 2 ^ W = b mod 2 ^ W.
Proof.
  intros [q H]. replace a with (b + q * 2 ^ W) by lia. apply Z.mod_add.
  pose proof (pow2_pos W HW0). lia.
Qed.

Variable mk : nat -> Z -> Z.
Variable L' : nat.
Let L := S L'.
Variable T : Z.
Hypothesis HW : W <= 64 * Z.of_nat L.
Hypothesis HT : 0 <= T <= 64.
Hypothesis Hmk_low : forall n v, (n < L')%nat -> mk n v = v.
Hypothesis Hmk_top : forall v, 0 <= v < 2 ^ 64 ->
  0 <= mk L' v < 2 ^ T /\ cong (mk L' v * 2 ^ (64 * Z.of_nat L')) (v * 2 ^ (64 * Z.of_nat L')).

Lemma pow_T_le : 2 ^ T <= 2 ^ 64.
Proof. apply Z.pow_le_mono_r; lia. Qed.

(* writing a (masked) limb: range, top bound, and value up to congruence *)
Lemma mk_write n v : (n < L)%nat -> 0 <= v < 2 ^ 64 ->
  0 <= mk n v < 2 ^ 64
  /\ (n = L' -> mk n v < 2 ^ T)
  /\ cong (mk n v * 2 ^ (64 * Z.of_nat n)) (v * 2 ^ (64 * Z.of_nat n)).
Proof.
  intros Hn Hv. destruct (Nat.eq_dec n L') as [->|Hne].
  - destruct (Hmk_top v Hv) as [Hr Hc]. pose proof pow_T_le. repeat split; try lia. exact Hc.
  - rewrite Hmk_low by (unfold L in Hn; lia). repeat split; try lia. apply cong_refl.
Qed.

Variable lb : nat.
Variable fb : nat -> Z.
Variable y : Z.
Hypothesis Hfb : forall n, fb n = limb y n.
Hypothesis Hy : 0 <= y < 2 ^ (64 * Z.of_nat lb).

Definition RowInv (p0 k : nat) (A S0 : Z) (st : list Z * Z) : Prop :=
  length (fst st) = L /\ limbs_inrange (fst st)
  /\ (forall n, (p0 + lb <= n)%nat -> nth n (fst st) 0 = 0)
  /\ nth L' (fst st) 0 < 2 ^ T
  /\ 0 <= snd st < 2 ^ 64
  /\ cong (limbs_to_Z (fst st) + snd st * 2 ^ (64 * Z.of_nat (p0 + k)))
          (S0 + A * (y mod 2 ^ (64 * Z.of_nat k)) * 2 ^ (64 * Z.of_nat p0)).

Lemma pow_split a b : 2 ^ (64 * Z.of_nat (a + b)) = 2 ^ (64 * Z.of_nat a) * 2 ^ (64 * Z.of_nat b).
Proof. rewrite <- Z.pow_add_r by lia. f_equal. lia. Qed.

Lemma inner_step p0 k A S0 st :
  0 <= A < 2 ^ 64 -> (k < lb)%nat -> RowInv p0 k A S0 st ->
  RowInv p0 (S k) A S0 (c_mul_inner A fb mk L p0 st k).
Proof.
  intros HA Hk [Hlen [Hrange [Hzero [Htop [Hcarry Hcong]]]]].
  destruct st as [dest carry]. cbn [fst snd] in *. unfold c_mul_inner.
  set (B := fb k).
  assert (HB : 0 <= B < 2 ^ 64) by (unfold B; rewrite Hfb; apply limb_range).
  assert (HY : y mod 2 ^ (64 * Z.of_nat (S k))
               = y mod 2 ^ (64 * Z.of_nat k) + 2 ^ (64 * Z.of_nat k) * B)
    by (unfold B; rewrite Hfb; apply mod_step).
  set (Yk := y mod 2 ^ (64 * Z.of_nat k)) in *.
  destruct (L <=? p0 + k)%nat eqn:Ebreak.
  - (* break: everything from here on lies beyond the destination *)
    apply Nat.leb_le in Ebreak.
    unfold RowInv. cbn [fst snd]. rewrite HY. repeat split; try assumption; try lia.
    assert (H1 : cong (carry * 2 ^ (64 * Z.of_nat (p0 + k))) 0) by (apply cong_zero_pow; lia).
    assert (H2 : cong (carry * 2 ^ (64 * Z.of_nat (p0 + S k))) 0) by (apply cong_zero_pow; lia).
    assert (H3 : cong (A * B * 2 ^ (64 * Z.of_nat (p0 + k))) 0) by (apply cong_zero_pow; lia).
    destruct Hcong as [q Hq]. destruct H1 as [q1 Hq1]. destruct H2 as [q2 Hq2]. destruct H3 as [q3 Hq3].
    exists (q - q1 + q2 - q3).
    rewrite (pow_split p0 k) in *. nia.
  - apply Nat.leb_gt in Ebreak.
    set (p := (p0 + k)%nat) in *.
    set (old := rd dest p).
    assert (Hold : 0 <= old < 2 ^ 64) by (apply nth_inrange; assumption).
    assert (HP : 0 <= A * B <= (2 ^ 64 - 1) * (2 ^ 64 - 1)) by (pow64; nia).
    destruct (mul_step_arith (A * B) carry old HP Hcarry Hold) as [Hlo Hhi]. cbv zeta in Hlo, Hhi.
    rewrite Hhi, Hlo.
    set (tot := A * B + carry + old) in *.
    assert (Htot : 0 <= tot < 2 ^ 64 * 2 ^ 64) by (unfold tot; pow64; nia).
    assert (Hu : 0 <= tot mod 2 ^ 64 < 2 ^ 64) by (apply Z.mod_pos_bound; lia).
    assert (Hc' : 0 <= tot / 2 ^ 64 < 2 ^ 64).
    { split; [apply Z.div_pos; lia|]. apply Z.div_lt_upper_bound; lia. }
    destruct (mk_write p (tot mod 2 ^ 64) Ebreak Hu) as [Hmr [Hmt Hmc]].
    unfold RowInv. cbn [fst snd]. rewrite HY.
    split; [rewrite set_nth_length; assumption|].
    split; [apply set_nth_inrange; assumption|].
    split.
    { intros n Hn. rewrite nth_set_nth_other by (unfold p; lia). apply Hzero. assumption. }
    split.
    { destruct (Nat.eq_dec p L') as [E|E].
      - rewrite <- E. rewrite nth_set_nth_same by lia. apply Hmt. assumption.
      - rewrite nth_set_nth_other by lia. assumption. }
    split; [assumption|].
    rewrite set_nth_value by lia. fold (rd dest p). fold old.
    replace (p0 + S k)%nat with (S p) by (unfold p; lia). rewrite pow64_S.
    destruct Hcong as [q Hq]. destruct Hmc as [qm Hqm].
    exists (q + qm).
    unfold p in *. rewrite (pow_split p0 k) in *.
    assert (Hdm : tot = 2 ^ 64 * (tot / 2 ^ 64) + tot mod 2 ^ 64) by (apply Z.div_mod; lia).
    set (P0 := 2 ^ (64 * Z.of_nat p0)) in *. set (Pk := 2 ^ (64 * Z.of_nat k)) in *.
    set (u := tot mod 2 ^ 64) in *. set (c' := tot / 2 ^ 64) in *.
    set (m := mk (p0 + k)%nat u) in *. set (D := limbs_to_Z dest) in *.
    unfold tot in Hdm. nia.
Qed.

Lemma row_inner p0 A S0 st0 : 0 <= A < 2 ^ 64 ->
  forall k, (k <= lb)%nat -> RowInv p0 0 A S0 st0 ->
  RowInv p0 k A S0 (fold_left (c_mul_inner A fb mk L p0) (seq 0 k) st0).
Proof.
  intros HA. induction k as [|k IH]; intros Hk H0; [exact H0|].
  rewrite seq_S, fold_left_app. cbn [fold_left Nat.add].
  apply inner_step; [assumption|lia|]. apply IH; [lia|assumption].
Qed.

Definition OuterInv (k : nat) (x : Z) (dest : list Z) : Prop :=
  length dest = L /\ limbs_inrange dest
  /\ (forall n, (k + lb <= n)%nat -> nth n dest 0 = 0)
  /\ nth L' dest 0 < 2 ^ T
  /\ cong (limbs_to_Z dest) ((x mod 2 ^ (64 * Z.of_nat k)) * y).

Lemma row_step (fa : nat -> Z) x k dest :
  (forall n, fa n = limb x n) -> OuterInv k x dest ->
  OuterInv (S k) x (c_mul_row fa fb mk L lb dest k).
Proof.
  intros Hfa [Hlen [Hrange [Hzero [Htop Hcong]]]]. unfold c_mul_row.
  set (A := fa k). assert (HA : 0 <= A < 2 ^ 64) by (unfold A; rewrite Hfa; apply limb_range).
  assert (H0 : RowInv k 0 A (limbs_to_Z dest) (dest, 0)).
  { unfold RowInv. cbn [fst snd]. repeat split; try assumption; try lia.
    change (64 * Z.of_nat 0) with 0. rewrite Z.pow_0_r, Z.mod_1_r.
    exists 0. lia. }
  pose proof (row_inner k A (limbs_to_Z dest) (dest, 0) HA lb (le_n lb) H0) as Hrow.
  destruct (fold_left (c_mul_inner A fb mk L k) (seq 0 lb) (dest, 0)) as [dest' carry].
  destruct Hrow as [Hlen' [Hrange' [Hzero' [Htop' [Hcarry' Hcong']]]]]. cbn [fst snd] in *.
  rewrite (Z.mod_small y) in Hcong' by assumption.
  (* the product added by this row *)
  assert (Hgoal : forall D, cong D (limbs_to_Z dest' + carry * 2 ^ (64 * Z.of_nat (k + lb))) ->
            cong D ((x mod 2 ^ (64 * Z.of_nat (S k))) * y)).
  { intros D HD. eapply cong_trans; [exact HD|]. eapply cong_trans; [exact Hcong'|].
    rewrite (mod_step x k). rewrite <- Hfa. fold A.
    destruct Hcong as [q Hq]. exists q. nia. }
  destruct (k + lb <? L)%nat eqn:Efin.
  - apply Nat.ltb_lt in Efin.
    destruct (mk_write (k + lb)%nat carry Efin Hcarry') as [Hmr [Hmt Hmc]].
    unfold OuterInv.
    split; [rewrite set_nth_length; assumption|].
    split; [apply set_nth_inrange; assumption|].
    split.
    { intros n Hn. rewrite nth_set_nth_other by lia. apply Hzero'. lia. }
    split.
    { destruct (Nat.eq_dec (k + lb) L') as [E|E].
      - rewrite <- E. rewrite nth_set_nth_same by lia. apply Hmt. assumption.
      - rewrite nth_set_nth_other by lia. assumption. }
    apply Hgoal. rewrite set_nth_value by lia. rewrite (Hzero' (k + lb)%nat) by lia.
    rewrite Z.sub_0_r. apply cong_add; [apply cong_refl|exact Hmc].
  - apply Nat.ltb_ge in Efin. unfold OuterInv.
    repeat split; try assumption.
    { intros n Hn. apply Hzero'. lia. }
    apply Hgoal. apply cong_sym.
    replace (limbs_to_Z dest') with (limbs_to_Z dest' + 0) at 2 by lia.
    apply cong_add; [apply cong_refl|]. apply cong_zero_pow. lia.
Qed.

Lemma rows (fa : nat -> Z) x dest0 : (forall n, fa n = limb x n) -> OuterInv 0 x dest0 ->
  forall k, OuterInv k x (fold_left (c_mul_row fa fb mk L lb) (seq 0 k) dest0).
Proof.
  intros Hfa H0. induction k as [|k IH]; [exact H0|].
  rewrite seq_S, fold_left_app. cbn [fold_left Nat.add]. apply row_step; assumption.
Qed.

Lemma repeat_nth n k : nth k (repeat 0 n) 0 = 0.
Proof. revert k. induction n as [|n IH]; intros [|k]; cbn; auto. Qed.

Lemma repeat_value n : limbs_to_Z (repeat 0 n) = 0.
Proof. induction n as [|n IH]; [reflexivity|]. cbn [repeat]. rewrite limbs_to_Z_cons, IH. lia. Qed.

Lemma mul_all (fa : nat -> Z) x la :
  (forall n, fa n = limb x n) -> 0 <= x < 2 ^ (64 * Z.of_nat la) ->
  let R := fold_left (c_mul_row fa fb mk L lb) (seq 0 la) (repeat 0 L) in
  length R = L /\ limbs_inrange R /\ nth L' R 0 < 2 ^ T /\ cong (limbs_to_Z R) (x * y).
Proof.
  intros Hfa Hx R.
  assert (H0 : OuterInv 0 x (repeat 0 L)).
  { unfold OuterInv. split; [apply repeat_length|]. split.
    - unfold limbs_inrange. apply Forall_forall. intros v Hv. apply repeat_spec in Hv. subst. lia.
    - split; [intros; apply repeat_nth|]. split.
      + rewrite repeat_nth. apply Z.pow_pos_nonneg; lia.
      + rewrite repeat_value. change (64 * Z.of_nat 0) with 0. rewrite Z.pow_0_r, Z.mod_1_r.
        exists 0. lia. }
  destruct (rows fa x (repeat 0 L) Hfa H0 la) as [H1 [H2 [_ [H4 H5]]]].
  rewrite (Z.mod_small x) in H5 by assumption. auto.
Qed.

End Mul.

(* ---- assembling: the mask of _build_mul ------------------------------------------------------ *)

Lemma c_mul_row_nil fa fb mk lb p0 : c_mul_row fa fb mk 0 lb [] p0 = [].
Proof.
  unfold c_mul_row.
  assert (H : forall l st, fst st = [] ->
            fst (fold_left (c_mul_inner (fa p0) fb mk 0 p0) l st) = []).
  { induction l as [|p1 l IH]; intros st Hst; [assumption|]. cbn [fold_left]. apply IH.
    destruct st as [d c]. unfold c_mul_inner. cbn [Nat.leb]. assumption. }
  specialize (H (seq 0 lb) ([], 0) eq_refl).
  destruct (fold_left _ _ _) as [d c]. cbn [fst] in H. subst d.
  destruct (p0 + lb <? 0)%nat eqn:E; [apply Nat.ltb_lt in E; lia|reflexivity].
Qed.

Lemma top_limb_bound l n T : length l = S n -> limbs_inrange l -> 0 <= T ->
  nth n l 0 < 2 ^ T -> limbs_to_Z l < 2 ^ T * 2 ^ (64 * Z.of_nat n).
Proof.
  intros Hlen Hr HT Htop.
  pose proof (limbs_to_Z_range l Hr) as Hv. rewrite Hlen in Hv.
  rewrite (nth_limb l Hr n) in Htop by lia. rewrite limb_divmod in Htop.
  set (P := 2 ^ (64 * Z.of_nat n)) in *. assert (HP : 0 < P) by (apply pow2_pos; lia).
  rewrite pow64_S in Hv. fold P in Hv.
  rewrite Z.mod_small in Htop.
  - pose proof (Z.mul_succ_div_gt (limbs_to_Z l) P HP). nia.
  - split; [apply Z.div_pos; lia|]. apply Z.div_lt_upper_bound; lia.
Qed.

Theorem c_mul_correct wa a wb b wd :
  0 <= wa -> 0 <= wb -> limbs_ok wa a -> limbs_ok wb b -> 0 <= wd ->
  limbs_ok wd (c_mul wa a wb b wd)
  /\ limbs_to_Z (c_mul wa a wb b wd) = (limbs_to_Z a * limbs_to_Z b) mod 2 ^ wd.
Proof.
  intros Hwa Hwb Ha Hb Hwd. unfold c_mul.
  set (x := limbs_to_Z a). set (y := limbs_to_Z b).
  pose proof (nlimbs_bounds wd Hwd) as Hbd.
  assert (Hx : 0 <= x < 2 ^ (64 * Z.of_nat (nlimbs wa))) by (apply limbs_ok_value; assumption).
  assert (Hy : 0 <= y < 2 ^ (64 * Z.of_nat (nlimbs wb))) by (apply limbs_ok_value; assumption).
  assert (Hxw : 0 <= x < 2 ^ wa) by apply Ha. assert (Hyw : 0 <= y < 2 ^ wb) by apply Hb.
  destruct (nlimbs wd) as [|L'] eqn:EL.
  - (* zero-width destination *)
    assert (wd = 0) by lia. subst wd. cbn [repeat].
    assert (Hnil : forall l, fold_left (c_mul_row (getarglimb wa a) (getarglimb wb b)
                     (makemask 0 (Some (wa + wb))) 0 (nlimbs wb)) l [] = []).
    { induction l as [|p l IH]; [reflexivity|]. cbn [fold_left]. rewrite c_mul_row_nil. apply IH. }
    rewrite Hnil. split.
    + split; [rewrite EL; reflexivity|]. split; [constructor|]. cbn. lia.
    + cbn. rewrite Z.mod_1_r. reflexivity.
  - set (mk := makemask wd (Some (wa + wb))).
    set (masked := c_makemask_cond wd (Some (wa + wb)) (Z.of_nat L')).
    set (W := if masked then wd else 64 * Z.of_nat (S L')).
    set (T := if masked then wd - 64 * Z.of_nat L' else 64).
    assert (HW0 : 0 <= W) by (unfold W; destruct masked; lia).
    assert (HWL : W <= 64 * Z.of_nat (S L')) by (unfold W; destruct masked; lia).
    assert (HT : 0 <= T <= 64) by (unfold T; destruct masked; lia).
    assert (Hlow : forall n v, (n < L')%nat -> mk n v = v).
    { intros n v Hn. apply makemask_low; [assumption|]. rewrite EL. lia. }
    assert (Htopm : forall v, 0 <= v < 2 ^ 64 ->
              0 <= mk L' v < 2 ^ T
              /\ cong W (mk L' v * 2 ^ (64 * Z.of_nat L')) (v * 2 ^ (64 * Z.of_nat L'))).
    { intros v Hv. unfold mk, makemask. fold masked. unfold T, W. destruct masked eqn:Em.
      - unfold masked, c_makemask_cond in Em.
        assert (Hm : wd mod 64 = wd - 64 * Z.of_nat L') by (Z.to_euclidean_division_equations; lia).
        rewrite makemask_val_ones, Hm. rewrite Z.land_ones by lia.
        set (t := wd - 64 * Z.of_nat L') in *.
        assert (Ht : 0 < 2 ^ t) by (apply pow2_pos; lia).
        split; [apply Z.mod_pos_bound; assumption|].
        exists (- (v / 2 ^ t)).
        replace (2 ^ wd) with (2 ^ t * 2 ^ (64 * Z.of_nat L'))
          by (rewrite <- Z.pow_add_r by lia; f_equal; unfold t; lia).
        pose proof (Z.div_mod v (2 ^ t) ltac:(lia)). nia.
      - split; [lia|]. apply cong_refl. }
    destruct (mul_all W HW0 mk L' T HWL HT Hlow Htopm (nlimbs wb) (getarglimb wb b) y
                (fun n => getarglimb_spec wb b n Hwb Hb) Hy (getarglimb wa a) x (nlimbs wa)
                (fun n => getarglimb_spec wa a n Hwa Ha) Hx) as [Hlen [Hrange [Htop Hcong]]].
    set (R := fold_left _ _ _) in *.
    pose proof (limbs_to_Z_range R Hrange) as HRr. rewrite Hlen in HRr.
    pose proof (top_limb_bound R L' T Hlen Hrange ltac:(lia) Htop) as HRt.
    apply cong_mod in Hcong; [|assumption].
    assert (Hxy : 0 <= x * y < 2 ^ (wa + wb)).
    { rewrite Z.pow_add_r by lia. nia. }
    assert (Hval : limbs_to_Z R = (x * y) mod 2 ^ wd).
    { unfold W, T in *. destruct masked eqn:Em.
      - rewrite <- Z.pow_add_r in HRt by lia.
        replace (wd - 64 * Z.of_nat L' + 64 * Z.of_nat L') with wd in HRt by lia.
        rewrite <- Hcong. symmetry. apply Z.mod_small. lia.
      - rewrite Z.mod_small in Hcong by lia.
        unfold masked, c_makemask_cond in Em.
        destruct (wd <? wa + wb) eqn:E1.
        + (* the top limb is full: wd = 64 * L *)
          assert (wd = 64 * Z.of_nat (S L')) by lia. subst wd. exact Hcong.
        + (* the product fits *)
          assert (Hfit : 0 <= x * y < 2 ^ wd).
          { split; [lia|]. eapply Z.lt_le_trans; [apply Hxy|]. apply Z.pow_le_mono_r; lia. }
          rewrite (Z.mod_small (x * y) (2 ^ wd)) by assumption.
          rewrite Hcong. apply Z.mod_small. split; [lia|].
          eapply Z.lt_le_trans; [apply Hfit|]. apply Z.pow_le_mono_r; lia. }
    split; [|exact Hval]. split; [rewrite Hlen, EL; reflexivity|]. split; [exact Hrange|].
    rewrite Hval. apply Z.mod_pos_bound. apply pow2_pos. assumption.
Qed.
