(* C02 (CompiledSimulation): _build_concat -- pieces of the arguments' limbs are assembled
   into the destination limbs; a piece that straddles a limb boundary is split and its
   leftover carried into the next limb.  Correct for every number of arguments and limbs,
   GIVEN the order of the loop tests read off the source (Gen/CHelpers.c_concat_split_first
   = true; with the other order -- the F5 defect -- these proofs do not go through). *)
From PyRTL Require Import Sim.CLimb Sim.CLimbProofs Sim.OpLemmas Sim.FastModel Sim.FastModelProofs.
From PyRTL Require Import Netlist.Sem.
From Coq Require Import ZifyBool.

(* ---- the stream of pieces ------------------------------------------------------------ *)

Definition pv (p : piece) : Z := let '(a, lx, start, size) := p in Z.shiftr (rd a lx) start.
Definition psize (p : piece) : Z := let '(_, _, _, size) := p in size.
Definition pstart (p : piece) : Z := let '(_, _, start, _) := p in start.

Definition piece_ok (p : piece) : Prop :=
  0 <= pstart p /\ 1 <= psize p /\ pstart p + psize p <= 64 /\ 0 <= pv p < 2 ^ psize p.

(* value and length of the bit stream the remaining pieces denote (first piece least significant) *)
Fixpoint SV (ps : list piece) : Z :=
  match ps with [] => 0 | p :: r => pv p + 2 ^ psize p * SV r end.
Fixpoint SS (ps : list piece) : Z :=
  match ps with [] => 0 | p :: r => psize p + SS r end.

Lemma SS_nonneg ps : Forall piece_ok ps -> 0 <= SS ps.
Proof. induction 1 as [|p r Hp Hr IH]; cbn [SS]; [lia|]. destruct Hp as [_ [H _]]. lia. Qed.

Lemma SV_range ps : Forall piece_ok ps -> 0 <= SV ps < 2 ^ SS ps.
Proof.
  induction 1 as [|p r Hp Hr IH]; cbn [SV SS]; [simpl; lia|].
  pose proof (SS_nonneg r Hr). destruct Hp as [_ [Hs [_ Hv]]].
  rewrite Z.pow_add_r by lia. pose proof (pow2_pos (psize p) ltac:(lia)). nia.
Qed.

Lemma SV_testbit_cons p r k : piece_ok p -> 0 <= k ->
  Z.testbit (SV (p :: r)) k
  = if k <? psize p then Z.testbit (pv p) k else Z.testbit (SV r) (k - psize p).
Proof.
  intros [_ [Hs [_ Hv]]] Hk. cbn [SV].
  replace (pv p + 2 ^ psize p * SV r) with (SV r * 2 ^ psize p + pv p) by ring.
  rewrite <- lor_shiftl_add by (try lia; exact Hv).
  rewrite Z.lor_spec, Z.shiftl_spec by assumption.
  destruct (k <? psize p) eqn:E.
  - rewrite Z.testbit_neg_r by lia. reflexivity.
  - rewrite (inrange_testbit (pv p) (psize p)) by (try lia; exact Hv). apply orb_false_r.
Qed.

Lemma SV_app ps qs : Forall piece_ok ps -> SV (ps ++ qs) = SV ps + 2 ^ SS ps * SV qs.
Proof.
  induction 1 as [|p r Hp Hr IH]; cbn [app SV SS]; [rewrite Z.pow_0_r; lia|].
  rewrite IH. pose proof (SS_nonneg r Hr). destruct Hp as [_ [Hs _]].
  rewrite Z.pow_add_r by lia. ring.
Qed.

Lemma SS_app ps qs : SS (ps ++ qs) = SS ps + SS qs.
Proof. induction ps as [|p r IH]; cbn [app SS]; [lia|]. rewrite IH. lia. Qed.

(* ((arg[limb]>>start)<<pos) on uint64 *)
Lemma term_testbit p dpos j : 0 <= dpos -> 0 <= j ->
  Z.testbit (wrap (Z.shiftl (pv p) dpos)) j = (j <? 64) && Z.testbit (pv p) (j - dpos).
Proof.
  intros Hd Hj. unfold wrap. rewrite testbit_mod_pow2 by lia. rewrite Z.shiftl_spec by assumption.
  destruct (j <? 64); reflexivity.
Qed.

Lemma lor_list_single t : lor_list [t] = t.
Proof. reflexivity. Qed.

(* ---- one destination limb ----------------------------------------------------------------- *)

Lemma cat_after_true dpos remaining :
  cat_after dpos remaining
  = if dpos >? 64 then CatSplit else if dpos >=? remaining then CatDone else CatAdvance.
Proof. reflexivity. Qed.

Lemma cat_limb_eq rest a lx start size dpos remaining :
  cat_limb rest (a, lx, start, size) dpos remaining
  = let term := wrap (Z.shiftl (pv (a, lx, start, size)) dpos) in
    let dpos' := dpos + size in
    match (if dpos' >? 64 then CatSplit else if dpos' >=? remaining then CatDone else CatAdvance) with
    | CatDone => ([term], (a, lx, start, size), rest)
    | CatSplit => ([term], (a, lx, 64 - (dpos' - size), dpos' - 64), rest)
    | CatAdvance =>
        match rest with
        | [] => ([term], (a, lx, start, size), [])
        | nxt :: rest' =>
            if dpos' =? 64 then ([term], nxt, rest')
            else let '(ts, c, r) := cat_limb rest' nxt dpos' remaining in (term :: ts, c, r)
        end
    end.
Proof. destruct rest; reflexivity. Qed.

Lemma triple_inv {A B C} (a a' : A) (b b' : B) (c c' : C) :
  (a, b, c) = (a', b', c') -> a' = a /\ b' = b /\ c' = c.
Proof. intros H. inversion H. auto. Qed.

Ltac inv_run H := apply triple_inv in H; destruct H as [-> [-> ->]].

Lemma cat_limb_spec : forall rest curr dpos remaining ts c r,
  piece_ok curr -> Forall piece_ok rest -> Forall (fun p => pstart p = 0) rest ->
  (pstart curr = 0 \/ dpos + psize curr <= 64) ->
  0 <= dpos < 64 -> dpos < remaining -> remaining - dpos <= SS (curr :: rest) ->
  cat_limb rest curr dpos remaining = (ts, c, r) ->
  exists E, dpos < E /\ E - dpos <= SS (curr :: rest) /\ Z.min 64 remaining <= E
    /\ (forall j, 0 <= j -> Z.testbit (lor_list ts) j
          = (j <? 64) && (dpos <=? j) && (j <? E) && Z.testbit (SV (curr :: rest)) (j - dpos))
    /\ (64 < remaining ->
          piece_ok c /\ Forall piece_ok r /\ Forall (fun p => pstart p = 0) r
          /\ SV (c :: r) = SV (curr :: rest) / 2 ^ (64 - dpos)
          /\ SS (c :: r) = SS (curr :: rest) - (64 - dpos)).
Proof.
  induction rest as [|nxt rest' IH]; intros curr dpos remaining ts c r Hc Hrest Hst0 Hsplit Hd Hrem Hbits Hrun.
  all: pose proof Hc as Hc'; destruct Hc' as [Hs0 [Hs1 [Hs2 Hpv]]].
  all: pose proof (SS_nonneg _ Hrest) as HSS.
  all: destruct curr as [[[a lx] start] size] eqn:Ecurr; cbn [pstart psize] in *.
  all: rewrite cat_limb_eq in Hrun; cbv zeta in Hrun.
  all: rewrite <- Ecurr in *.
  all: assert (Hpsz : psize curr = size) by (rewrite Ecurr; reflexivity).
  all: assert (Hbitk : forall rst j, 0 <= j -> j - dpos < size ->
         Z.testbit (SV (curr :: rst)) (j - dpos) = Z.testbit (pv curr) (j - dpos))
    by (intros rst j Hj Hlt; destruct (Z.lt_ge_cases (j - dpos) 0);
        [rewrite !Z.testbit_neg_r by lia; reflexivity|];
        rewrite SV_testbit_cons by (try assumption; lia); rewrite Hpsz;
        replace (j - dpos <? size) with true by lia; reflexivity).
  all: assert (Hhigh : forall k, size <= k -> Z.testbit (pv curr) k = false)
    by (intros k Hk; apply (inrange_testbit (pv curr) size); [lia|exact Hpv|lia]).
  all: destruct (dpos + size >? 64) eqn:E1.
  (* --- CatSplit, in both shapes of [rest] --- *)
  1, 3: (
    inv_run Hrun;
    assert (start = 0) by lia; subst start;
    exists (dpos + size); split; [lia|]; split; [cbn [SS] in *; rewrite Hpsz; lia|]; split; [lia|]; split;
    [ intros j Hj; rewrite lor_list_single, term_testbit by lia;
      destruct (j <? 64) eqn:Ej; cbn [andb]; [|reflexivity];
      replace (j <? dpos + size) with true by lia; rewrite andb_true_r;
      destruct (dpos <=? j) eqn:Edj; cbn [andb];
      [ symmetry; apply Hbitk; lia | apply Z.testbit_neg_r; lia ]
    | intros _ ]).
  (* next stream after a split: identical script for both shapes *)
  1, 2: (
    set (k := 64 - dpos);
    assert (Hpvc : pv (a, lx, 64 - (dpos + size - size), dpos + size - 64) = pv curr / 2 ^ k)
      by (rewrite Ecurr; unfold pv; rewrite Z.shiftr_0_r;
          replace (64 - (dpos + size - size)) with k by (unfold k; lia);
          apply Z.shiftr_div_pow2; unfold k; lia);
    assert (Hk : 0 < 2 ^ k) by (apply pow2_pos; unfold k; lia);
    assert (Hsk : 2 ^ size = 2 ^ k * 2 ^ (size - k))
      by (rewrite <- Z.pow_add_r by (unfold k; lia); f_equal; lia);
    split;
    [ unfold piece_ok; cbn [pstart psize]; rewrite Hpvc;
      split; [unfold k; lia|]; split; [lia|]; split; [lia|];
      split; [apply Z.div_pos; lia|];
      apply Z.div_lt_upper_bound; [lia|];
      replace (dpos + size - 64) with (size - k) by (unfold k; lia); rewrite <- Hsk; lia
    | split; [assumption|]; split; [assumption|]; split;
      [ cbn [SV psize]; rewrite Hpvc, Hpsz;
        replace (dpos + size - 64) with (size - k) by (unfold k; lia);
        rewrite Hsk;
        match goal with |- _ = (_ + _ * ?X) / _ =>
          replace (pv curr + 2 ^ k * 2 ^ (size - k) * X)
            with (pv curr + (2 ^ (size - k) * X) * 2 ^ k) by ring end;
        rewrite Z.div_add by lia; reflexivity
      | cbn [SS psize]; rewrite Hpsz; unfold k; lia ] ]).
  (* --- not split --- *)
  all: destruct (dpos + size >=? remaining) eqn:E2.
  (* CatDone *)
  1, 3: (
    inv_run Hrun;
    exists (dpos + size); split; [lia|]; split; [cbn [SS] in *; rewrite Hpsz; lia|]; split; [lia|]; split;
    [ intros j Hj; rewrite lor_list_single, term_testbit by lia;
      destruct (j <? 64) eqn:Ej; cbn [andb]; [|reflexivity];
      destruct (dpos <=? j) eqn:Edj; cbn [andb]; [|apply Z.testbit_neg_r; lia];
      destruct (j <? dpos + size) eqn:Eje; cbn [andb];
      [ symmetry; apply Hbitk; lia | apply Hhigh; lia ]
    | intros Hbig; lia ]).
  (* CatAdvance with an exhausted generator: impossible, the destination is not wider than the stream *)
  - cbn [SS] in Hbits. rewrite Hpsz in Hbits. lia.
  (* CatAdvance *)
  - pose proof (Forall_inv Hrest) as Hnxt. pose proof (Forall_inv_tail Hrest) as Hrest'.
    pose proof (Forall_inv Hst0) as Hn0. pose proof (Forall_inv_tail Hst0) as Hst0'. cbv beta in Hn0.
    pose proof (SS_nonneg _ Hrest') as HSS'. pose proof Hnxt as [_ [Hn1 _]].
    destruct (dpos + size =? 64) eqn:E3.
    + (* the limb is exactly full *)
      inv_run Hrun.
      exists 64. split; [lia|]. split; [cbn [SS] in *; rewrite Hpsz; lia|]. split; [lia|]. split.
      * intros j Hj. rewrite lor_list_single, term_testbit by lia.
        destruct (j <? 64) eqn:Ej; cbn [andb]; [|reflexivity].
        destruct (dpos <=? j) eqn:Edj; cbn [andb]; [|apply Z.testbit_neg_r; lia].
        symmetry. apply Hbitk; lia.
      * intros _. split; [assumption|]. split; [assumption|]. split; [assumption|]. split.
        -- replace (64 - dpos) with size by lia.
           change (SV (curr :: nxt :: rest')) with (pv curr + 2 ^ psize curr * SV (nxt :: rest')).
           rewrite Hpsz. rewrite Z.mul_comm, Z.div_add by (pose proof (pow2_pos size); lia).
           rewrite Z.div_small by (exact Hpv). lia.
        -- change (SS (curr :: nxt :: rest')) with (psize curr + SS (nxt :: rest')). rewrite Hpsz. lia.
    + destruct (cat_limb rest' nxt (dpos + size) remaining) as [[ts' c'] r'] eqn:Erec.
      inv_run Hrun.
      destruct (IH nxt (dpos + size) remaining ts' c' r' Hnxt Hrest' Hst0' (or_introl Hn0))
        as [E [HE1 [HE2 [HE3 [Hb Hnext]]]]]; try lia; [|exact Erec|].
      { change (SS (curr :: nxt :: rest')) with (psize curr + SS (nxt :: rest')) in Hbits.
        rewrite Hpsz in Hbits. lia. }
      exists E. split; [lia|]. split.
      { change (SS (curr :: nxt :: rest')) with (psize curr + SS (nxt :: rest')). rewrite Hpsz. lia. }
      split; [lia|]. split.
      * intros j Hj. rewrite lor_list_cons, Z.lor_spec, term_testbit, Hb by lia.
        destruct (j <? 64) eqn:Ej; cbn [andb]; [|reflexivity].
        destruct (dpos <=? j) eqn:Edj.
        -- destruct (j <? dpos + size) eqn:Ejs.
           ++ replace (dpos + size <=? j) with false by lia. cbn [andb]. rewrite orb_false_r.
              replace (j <? E) with true by lia. cbn [andb]. symmetry. apply Hbitk; lia.
           ++ rewrite Hhigh by lia. replace (dpos + size <=? j) with true by lia. cbn [andb orb].
              destruct (j <? E); cbn [andb]; [|reflexivity].
              rewrite (SV_testbit_cons curr) by (try assumption; lia). rewrite Hpsz.
              replace (j - dpos <? size) with false by lia. f_equal. lia.
        -- rewrite Z.testbit_neg_r by lia. replace (dpos + size <=? j) with false by lia. reflexivity.
      * intros Hbig. destruct (Hnext Hbig) as [K1 [K2 [K3 [K4 K5]]]].
        split; [assumption|]. split; [assumption|]. split; [assumption|]. split.
        -- rewrite K4.
           change (SV (curr :: nxt :: rest')) with (pv curr + 2 ^ psize curr * SV (nxt :: rest')).
           rewrite Hpsz.
           replace (64 - dpos) with (size + (64 - (dpos + size))) by lia.
           rewrite Z.pow_add_r by lia. rewrite <- Z.div_div by (try apply pow2_pos; lia).
           f_equal. rewrite Z.mul_comm, Z.div_add by (pose proof (pow2_pos size); lia).
           rewrite Z.div_small by (exact Hpv). lia.
        -- rewrite K5. change (SS (curr :: nxt :: rest')) with (psize curr + SS (nxt :: rest')).
           rewrite Hpsz. lia.
Qed.

(* ---- all destination limbs ------------------------------------------------------------------ *)

Lemma div_pow2_testbit V k j : 0 <= k -> 0 <= j -> Z.testbit (V / 2 ^ k) j = Z.testbit V (k + j).
Proof. intros Hk Hj. rewrite <- Z.shiftr_div_pow2 by assumption. rewrite Z.shiftr_spec by assumption. f_equal. lia. Qed.

Lemma cat_limbs_spec V total wd :
  0 <= wd <= total -> 0 <= V < 2 ^ total ->
  forall m n curr rest,
  (n + m = nlimbs wd)%nat ->
  piece_ok curr -> Forall piece_ok rest -> Forall (fun p => pstart p = 0) rest ->
  SV (curr :: rest) = V / 2 ^ (64 * Z.of_nat n) ->
  SS (curr :: rest) = total - 64 * Z.of_nat n ->
  cat_limbs (seq n m) wd (makemask wd (Some total)) curr rest
  = map (limb (V mod 2 ^ wd)) (seq n m).
Proof.
  intros Hwd HV. pose proof (nlimbs_bounds wd ltac:(lia)) as Hb.
  induction m as [|m IH]; intros n curr rest Hnm Hc Hrest Hst0 HSV HSS; [reflexivity|].
  cbn [seq cat_limbs map].
  destruct (cat_limb rest curr 0 (wd - 64 * Z.of_nat n)) as [[ts c] r] eqn:Erun.
  destruct (cat_limb_spec rest curr 0 (wd - 64 * Z.of_nat n) ts c r Hc Hrest Hst0)
    as [E [HE1 [HE2 [HE3 [Hbits Hnext]]]]]; try lia; try exact Erun.
  { right. destruct Hc as [? [? [? ?]]]. lia. }
  f_equal.
  - (* this limb *)
    apply Z.bits_inj'. intros j Hj. rewrite limb_testbit by assumption.
    rewrite testbit_mod_pow2 by lia.
    assert (Hts : Z.testbit (lor_list ts) j
                  = (j <? 64) && (j <? E) && Z.testbit V (64 * Z.of_nat n + j)).
    { rewrite Hbits by assumption. replace (0 <=? j) with true by lia. rewrite andb_true_r.
      rewrite Z.sub_0_r, HSV, div_pow2_testbit by lia. reflexivity. }
    unfold makemask, c_makemask_cond.
    destruct ((wd <? total) && ((0 <? wd - 64 * Z.of_nat n) && (wd - 64 * Z.of_nat n <? 64))) eqn:Ec.
    + rewrite Z.land_spec, Hts, makemask_val_ones.
      assert (Hm : wd mod 64 = wd - 64 * Z.of_nat n) by (Z.to_euclidean_division_equations; lia).
      rewrite Hm. destruct (j <? 64) eqn:Ej; cbn [andb]; [|reflexivity].
      destruct (j <? wd - 64 * Z.of_nat n) eqn:E1.
      * rewrite Z.ones_spec_low by lia. replace (j <? E) with true by lia.
        replace (64 * Z.of_nat n + j <? wd) with true by lia. rewrite andb_true_r. reflexivity.
      * rewrite Z.ones_spec_high by lia. replace (64 * Z.of_nat n + j <? wd) with false by lia.
        apply andb_false_r.
    + rewrite Hts. destruct (j <? 64) eqn:Ej; cbn [andb]; [|reflexivity].
      destruct (64 * Z.of_nat n + j <? wd) eqn:E1.
      * replace (j <? E) with true by lia. reflexivity.
      * destruct (j <? E); cbn [andb]; [|reflexivity].
        apply (inrange_testbit V total); [lia|exact HV|lia].
  - (* the following limbs *)
    destruct m as [|m']; [reflexivity|].
    assert (Hbig : 64 < wd - 64 * Z.of_nat n) by lia.
    destruct (Hnext Hbig) as [K1 [K2 [K3 [K4 K5]]]].
    apply IH; try assumption; try lia.
    rewrite K4, HSV, Z.sub_0_r. rewrite Z.div_div by (try apply pow2_pos; lia).
    rewrite <- Z.pow_add_r by lia. do 2 f_equal. lia.
Qed.

(* ---- the pieces of the arguments -------------------------------------------------------------- *)

Definition pieces_of (wa : Z * list Z) : list piece :=
  map (fun lx => (snd wa, lx, 0, Z.min 64 (fst wa - 64 * Z.of_nat lx))) (idxs (fst wa)).

Lemma cat_pieces_eq args : cat_pieces args = flat_map pieces_of (rev args).
Proof. reflexivity. Qed.

Lemma pieces_of_seq w l : 0 <= w -> limbs_ok w l ->
  forall m k, (k + m = nlimbs w)%nat ->
  let ps := map (fun lx => (l, lx, 0, Z.min 64 (w - 64 * Z.of_nat lx))) (seq k m) in
  Forall piece_ok ps /\ Forall (fun p => pstart p = 0) ps
  /\ SV ps = limbs_to_Z l / 2 ^ (64 * Z.of_nat k)
  /\ SS ps = Z.max 0 (w - 64 * Z.of_nat k).
Proof.
  intros Hw Hl. pose proof (nlimbs_bounds w Hw) as Hb.
  set (x := limbs_to_Z l). assert (Hx : 0 <= x < 2 ^ w) by apply Hl.
  induction m as [|m IH]; intros k Hkm.
  - cbn [seq map SV SS]. repeat split; try constructor.
    + symmetry. apply Z.div_small. split; [lia|].
      eapply Z.lt_le_trans; [apply Hx|]. apply Z.pow_le_mono_r; lia.
    + lia.
  - cbn [seq map]. destruct (IH (S k) ltac:(lia)) as [I1 [I2 [I3 I4]]].
    set (size := Z.min 64 (w - 64 * Z.of_nat k)).
    set (q := x / 2 ^ (64 * Z.of_nat k)).
    assert (Hq0 : 0 <= q) by (apply Z.div_pos; [lia|apply pow2_pos; lia]).
    assert (Hqs : q < 2 ^ (w - 64 * Z.of_nat k)).
    { apply Z.div_lt_upper_bound; [apply pow2_pos; lia|].
      rewrite <- Z.pow_add_r by lia. replace (64 * Z.of_nat k + (w - 64 * Z.of_nat k)) with w by lia. lia. }
    assert (Hpv : pv (l, k, 0, size) = q mod 2 ^ 64).
    { unfold pv. rewrite Z.shiftr_0_r. rewrite (rd_spec w) by (try assumption; lia).
      apply limb_divmod. }
    assert (Hnext : x / 2 ^ (64 * Z.of_nat (S k)) = q / 2 ^ 64).
    { unfold q. rewrite Z.div_div by (try apply pow2_pos; lia). rewrite <- Z.pow_add_r by lia.
      do 2 f_equal. lia. }
    assert (Hok : piece_ok (l, k, 0, size)).
    { unfold piece_ok. cbn [pstart psize]. rewrite Hpv. unfold size.
      split; [lia|]. split; [lia|]. split; [lia|].
      destruct (Z.le_gt_cases 64 (w - 64 * Z.of_nat k)).
      - rewrite Z.min_l by lia. apply Z.mod_pos_bound. lia.
      - rewrite Z.min_r by lia. rewrite Z.mod_small; [lia|].
        split; [lia|]. eapply Z.lt_le_trans; [exact Hqs|]. apply Z.pow_le_mono_r; lia. }
    split; [constructor; assumption|]. split; [constructor; [reflexivity|assumption]|]. split.
    + cbn [SV psize]. rewrite I3, Hpv, Hnext. unfold size.
      destruct (Z.le_gt_cases 64 (w - 64 * Z.of_nat k)).
      * rewrite Z.min_l by lia. pose proof (Z.div_mod q (2 ^ 64) ltac:(lia)). lia.
      * rewrite Z.min_r by lia.
        assert (Hq64 : q < 2 ^ 64) by (eapply Z.lt_le_trans; [exact Hqs|]; apply Z.pow_le_mono_r; lia).
        rewrite Z.mod_small, Z.div_small by lia. lia.
    + cbn [SS psize]. rewrite I4. unfold size. lia.
Qed.

Lemma pieces_of_ok wa : 0 <= fst wa -> limbs_ok (fst wa) (snd wa) ->
  Forall piece_ok (pieces_of wa) /\ Forall (fun p => pstart p = 0) (pieces_of wa)
  /\ SV (pieces_of wa) = limbs_to_Z (snd wa) /\ SS (pieces_of wa) = fst wa.
Proof.
  intros Hw Hl. destruct wa as [w l]. cbn [fst snd] in *. unfold pieces_of, idxs. cbn [fst snd].
  destruct (pieces_of_seq w l Hw Hl (nlimbs w) 0 eq_refl) as [H1 [H2 [H3 H4]]].
  repeat split; try assumption.
  - rewrite H3. change (64 * Z.of_nat 0) with 0. rewrite Z.pow_0_r, Z.div_1_r. reflexivity.
  - rewrite H4. lia.
Qed.

Definition cat_total (args : list (Z * list Z)) : Z := fold_right (fun wa acc => fst wa + acc) 0 args.
Definition cat_vals (args : list (Z * list Z)) : list (Z * Z) :=
  map (fun wa => (limbs_to_Z (snd wa), fst wa)) args.

Lemma cat_total_sumw args : sumw (cat_vals args) = cat_total args.
Proof.
  induction args as [|[w l] r IH]; [reflexivity|].
  cbn [cat_vals map fst snd cat_total fold_right]. fold (cat_vals r). fold (cat_total r).
  rewrite <- IH. reflexivity.
Qed.

Lemma cat_pieces_ok args :
  Forall (fun wa => 0 <= fst wa /\ limbs_ok (fst wa) (snd wa)) args ->
  Forall piece_ok (cat_pieces args) /\ Forall (fun p => pstart p = 0) (cat_pieces args)
  /\ SV (cat_pieces args) = concat_spec (cat_vals args)
  /\ SS (cat_pieces args) = cat_total args.
Proof.
  induction 1 as [|wa args [Hw Hl] Hargs IH].
  - cbn. repeat split; constructor.
  - destruct IH as [I1 [I2 [I3 I4]]].
    destruct (pieces_of_ok wa Hw Hl) as [P1 [P2 [P3 P4]]].
    rewrite cat_pieces_eq. cbn [rev]. rewrite flat_map_app. cbn [flat_map]. rewrite app_nil_r.
    rewrite <- cat_pieces_eq.
    split; [apply Forall_app; split; assumption|].
    split; [apply Forall_app; split; assumption|]. split.
    + rewrite SV_app by assumption. rewrite I3, I4, P3.
      cbn [cat_vals map]. fold (cat_vals args).
      rewrite concat_spec_cons.
      * rewrite cat_total_sumw. ring.
      * intros v w Hin. unfold cat_vals in Hin. apply in_map_iff in Hin.
        destruct Hin as [wa' [Heq Hin']]. injection Heq as <- <-.
        rewrite Forall_forall in Hargs. apply (Hargs wa' Hin').
    + rewrite SS_app, I4, P4. cbn [cat_total fold_right]. fold (cat_total args). lia.
Qed.

Lemma cat_total_nonneg args :
  Forall (fun wa => 0 <= fst wa /\ limbs_ok (fst wa) (snd wa)) args -> 0 <= cat_total args.
Proof.
  induction 1 as [|wa args [Hw _] _ IH]; [cbn; lia|].
  cbn [cat_total fold_right]. fold (cat_total args). lia.
Qed.

(* >>> _build_concat computes the concatenation, for every argument list and limb count *)
Theorem c_concat_correct (args : list (Z * list Z)) (wd : Z) :
  Forall (fun wa => 0 <= fst wa /\ limbs_ok (fst wa) (snd wa)) args ->
  0 <= wd <= cat_total args ->
  limbs_ok wd (c_concat args wd)
  /\ limbs_to_Z (c_concat args wd) = concat_spec (cat_vals args) mod 2 ^ wd.
Proof.
  intros Hargs Hwd. destruct (cat_pieces_ok args Hargs) as [H1 [H2 [H3 H4]]].
  set (V := concat_spec (cat_vals args)) in *.
  pose proof (SV_range _ H1) as HVr. rewrite H3, H4 in HVr.
  pose proof (nlimbs_bounds wd ltac:(lia)) as Hb.
  assert (Hr : 0 <= V mod 2 ^ wd < 2 ^ wd) by (apply Z.mod_pos_bound; apply pow2_pos; lia).
  assert (HM : c_concat args wd = map (limb (V mod 2 ^ wd)) (idxs wd)).
  { unfold c_concat. fold (cat_total args).
    destruct (cat_pieces args) as [|p ps] eqn:Ep.
    - cbn [SS] in H4. assert (wd = 0) by lia. subst wd. reflexivity.
    - unfold idxs. apply (cat_limbs_spec V (cat_total args) wd Hwd HVr (nlimbs wd) 0 p ps).
      + reflexivity.
      + inversion H1; assumption.
      + inversion H1; assumption.
      + inversion H2; assumption.
      + rewrite H3. change (64 * Z.of_nat 0) with 0. rewrite Z.pow_0_r, Z.div_1_r. reflexivity.
      + rewrite H4. lia. }
  assert (Hval : limbs_to_Z (c_concat args wd) = V mod 2 ^ wd).
  { rewrite HM. unfold idxs. rewrite limbs_of_Z. change (64 * Z.of_nat 0) with 0.
    rewrite Z.pow_0_r, Z.div_1_r. apply Z.mod_small.
    split; [lia|]. eapply Z.lt_le_trans; [apply Hr|]. apply Z.pow_le_mono_r; lia. }
  split; [|exact Hval]. split; [|split].
  - rewrite HM. unfold idxs. rewrite map_length, seq_length. reflexivity.
  - rewrite HM. apply Forall_forall. intros y Hy. apply in_map_iff in Hy.
    destruct Hy as [k [<- _]]. apply limb_range.
  - rewrite Hval. exact Hr.
Qed.
