(* C15 -- entry points evaluated by py/checks/C15.py through ctx.coq_eval.
   Definitions only; depends on no proof file. *)
From Coq Require Import ZArith List Bool Lia String.
From PyRTL Require Import Base.PyZ Sim.TraceBase Sim.Trace IO.Vcd Gen.InputGuards.
Import ListNotations.
Open Scope Z_scope.

(* the three translated guards and the specification on one (value, width) *)
Definition guard_case (v w : Z) : list bool :=
  [guard_simulation v w; guard_fast v w; guard_compiled v w; reject_spec v w].

(* does the CompiledSimulation guard reject a negative value at all (defect F6)? *)
Definition compiled_guard_neg_ok : bool := guard_compiled (-1) 1.

(* print_vcd: model text = real text?  decode the real text; declared (id, width) list *)
Definition vcd_case (clock : bool) (rows : list (name * text * Z * list Z)) (t : text) :=
  let vr := map (fun r => match r with (n, i, w, v) => mkVrow n i w v end) rows in
  let m := print_vcd clock vr in
  (text_eqb m t, decode_vcd (map vid vr) t, decode_vars (lines t),
   if text_eqb m t then [] else m).

(* print_trace: model text = real text?  decode the real text *)
Definition trace_case (base : Z) (compact : bool) (rows : list row) (t : text) :=
  let m := print_trace base compact rows in
  (text_eqb m t, decode_trace base compact t, if text_eqb m t then [] else m).

Definition sorted_case (ns : list name) : list name := sort_names ns.

(* a design replayed from a table of observed values (wire -> value per cycle): state = cycle number *)
Definition table_stepf (tbl : list (name * list Z)) (st : nat) (ins : inputs) : nat * (name -> Z) :=
  (S st, fun w => match lookup tbl w with Some l => nth st l 0 | None => 0 end).

Definition table_sim (ws : list name) : sim nat := mkSim O (fun _ => 0) (new_trace ws).

Definition outcome_code (o : outcome) : Z * name :=
  match o with Done => (0, []) | Rejected => (1, []) | AssertFailed a => (2, a) end.

(* step_multiple on the table design: (kind, index, report rows, trace length, report text) *)
Definition sm_case (guard : Z -> Z -> bool) (widths : list (name * Z)) (asserts : list name)
           (tbl : list (name * list Z)) (ws : list name)
           (provided : list (name * list Z)) (expected : list (name * list (option Z)))
           (nsteps : option Z) (stop : bool) :=
  match step_multiple nat (table_stepf tbl) widths guard asserts provided expected nsteps stop
                      (table_sim ws) with
  | SmError k => (0, k, [], 0, [])
  | SmRaised s i o => (1, Z.of_nat i, [], trace_len (str s), [])
  | SmFinished s failed =>
      (2, 0, map (fun f => match f with (i, n, e, a) => (Z.of_nat i, n, e, a) end) (report failed),
       trace_len (str s), report_text stop failed)
  end.

(* stepping one call at a time with rtl_assert wires: (calls that returned, outcome, trace length,
   predicted first failing cycle) *)
Definition assert_case (widths : list (name * Z)) (asserts : list name)
           (tbl : list (name * list Z)) (ws : list name) (inss : list inputs) :=
  match run nat (table_stepf tbl) widths reject_spec asserts (table_sim ws) inss with
  | (s, k, o) =>
      (Z.of_nat k, outcome_code o, trace_len (str s),
       match first_assert_failure asserts (pure_vals nat (table_stepf tbl) O inss) with
       | Some (t, a) => Some (Z.of_nat t, a)
       | None => None
       end)
  end.
