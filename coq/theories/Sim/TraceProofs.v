(* C15 -- proofs about the input guards (Gen/InputGuards.v, regenerated from the
   source on every run), the trace store, inspect, rtl_assert and step_multiple
   (Sim/Trace.v). *)
From Coq Require Import ZArith List Bool Lia ZifyBool Permutation Sorted.
From PyRTL Require Import Base.PyZ Sim.TraceBase Sim.Trace Gen.InputGuards Gen.StepOrder.
Import ListNotations.
Open Scope Z_scope.

(* ================================================================== guards *)
Lemma log2_ge_pow2 v w : 0 < v -> 0 <= w -> (w <= Z.log2 v <-> 2 ^ w <= v).
Proof. intros. symmetry. apply Z.log2_le_pow2; lia. Qed.

Ltac guard_norm :=
  unfold len_bin_signed, len_bin, bit_length, mask, inrangeb, reject_spec in *;
  rewrite ?Z.shiftl_1_l, ?Z.ones_equiv, ?Z.gtb_ltb, ?Z.geb_leb in *.

Ltac split_ifs :=
  repeat match goal with
         | |- context [if ?c then _ else _] => let E := fresh "E" in destruct c eqn:E
         end.

(* decides  guard v w = true <-> ~ (0 <= v < 2^w)  for guards written with comparisons,
   `1 << w`, bitmask, len(bin(v)) and bit_length; fails on anything weaker or stronger *)
Ltac solve_guard :=
  let v := fresh "v" in let w := fresh "w" in let Hw := fresh "Hw" in
  intros v w Hw; guard_norm;
  pose proof (pow2_pos w ltac:(lia));
  pose proof (Z.log2_nonneg v);
  destruct (Z_lt_le_dec v 0);
  [ rewrite ?Z.abs_neq by lia; split_ifs; lia
  | rewrite ?Z.abs_eq by lia;
    destruct (Z.eq_dec v 0);
    [ split_ifs; lia
    | pose proof (log2_ge_pow2 v w ltac:(lia) ltac:(lia)); split_ifs; lia ] ].

Definition guard_correct (g : Z -> Z -> bool) : Prop :=
  forall v w, 1 <= w -> (g v w = true <-> ~ (0 <= v < 2 ^ w)).

Lemma simulation_guard_correct : guard_correct guard_simulation.
Proof. unfold guard_correct, guard_simulation. solve_guard. Qed.

Lemma fast_guard_correct : guard_correct guard_fast.
Proof. unfold guard_correct, guard_fast. solve_guard. Qed.

(* CompiledSimulation (defect F6).  Both lemmas are conditional on what the
   translated guard does on the witness (-1, width 1), a closed boolean term that
   vm_compute decides: exactly one of them has a true premise, and Props/C15.v
   instantiates that one with eq_refl.  Both compile in either state of the source. *)
Definition compiled_rejects_minus_one : bool := guard_compiled (-1) 1.

Lemma compiled_guard_correct_if : compiled_rejects_minus_one = true -> guard_correct guard_compiled.
Proof.
  intro Hc.
  first [ exfalso; vm_compute in Hc; discriminate Hc
        | clear Hc; unfold guard_correct, guard_compiled; solve_guard ].
Qed.

Lemma compiled_guard_refuted_if : compiled_rejects_minus_one = false ->
  exists v w, 1 <= w /\ ~ (0 <= v < 2 ^ w) /\ guard_compiled v w = false.
Proof.
  intro Hc. exists (-1), 1. split; [lia|]. split; [lia|]. exact Hc.
Qed.

(* whatever the state: the upper bound is always enforced *)
Lemma compiled_guard_upper : forall v w, 1 <= w -> 2 ^ w <= v -> guard_compiled v w = true.
Proof.
  intros v w Hw Hv.
  first [ apply (proj2 (compiled_guard_correct_if eq_refl v w Hw)); lia
        | unfold guard_compiled; guard_norm; pose proof (pow2_pos w ltac:(lia)); split_ifs; lia ].
Qed.

(* reject_spec is the range test *)
Lemma reject_spec_correct : guard_correct reject_spec.
Proof. unfold guard_correct, reject_spec, inrangeb. intros. lia. Qed.

(* ================================================================== text basics *)
Lemma text_eqb_eq a b : text_eqb a b = true <-> a = b.
Proof.
  revert b. induction a as [|x a IH]; intros [|y b]; cbn [text_eqb]; split; intro H;
    try reflexivity; try discriminate.
  - apply andb_true_iff in H. destruct H as [H1 H2]. apply IH in H2. f_equal; [lia|assumption].
  - inversion H; subst. rewrite Z.eqb_refl. cbn. apply IH. reflexivity.
Qed.

Lemma text_eqb_refl a : text_eqb a a = true.
Proof. apply text_eqb_eq. reflexivity. Qed.

(* ================================================================== trace store *)
Lemma names_add_step tr vm : trace_names (add_step tr vm) = trace_names tr.
Proof. unfold trace_names, add_step. rewrite map_map. reflexivity. Qed.

Lemma lookup_add_step tr vm w :
  lookup (add_step tr vm) w = option_map (fun l => l ++ [vm w]) (lookup tr w).
Proof.
  induction tr as [|[k l] tr IH]; [reflexivity|].
  cbn [add_step map lookup fst snd]. destruct (text_eqb k w) eqn:E.
  - apply text_eqb_eq in E. subst. reflexivity.
  - exact IH.
Qed.

Lemma lookup_in {A} (tr : list (name * A)) w : In w (map fst tr) -> exists l, lookup tr w = Some l.
Proof.
  induction tr as [|[k l] tr IH]; [intros []|]. cbn [map fst In lookup].
  destruct (text_eqb k w) eqn:E; [eauto|]. intros [H|H]; [|auto].
  subst. rewrite text_eqb_refl in E. discriminate.
Qed.

Lemma last_opt_snoc l x : last_opt (l ++ [x]) = Some x.
Proof.
  unfold last_opt. destruct (l ++ [x]) eqn:E.
  - destruct l; discriminate.
  - rewrite <- E. rewrite last_last. reflexivity.
Qed.

Lemma trace_last_add_step tr vm w :
  In w (trace_names tr) -> trace_last (add_step tr vm) w = Some (vm w).
Proof.
  intro H. unfold trace_last. rewrite lookup_add_step.
  destruct (lookup_in tr w H) as [l ->]. cbn. apply last_opt_snoc.
Qed.

Lemma all_len_add_step tr vm n : all_len tr n -> all_len (add_step tr vm) (S n).
Proof.
  unfold all_len, add_step. intro H. apply Forall_map. eapply Forall_impl; [|exact H].
  intros p Hp. cbn [fst snd]. rewrite app_length, Hp. cbn [length]. apply Nat.add_1_r.
Qed.

Lemma all_len_new ws : all_len (new_trace ws) 0.
Proof. unfold all_len, new_trace. apply Forall_map. apply Forall_forall. reflexivity. Qed.

(* the key set of a fresh trace: the listed names, each once, whatever the list repeats *)
Lemma existsb_text_in x l : existsb (text_eqb x) l = true <-> In x l.
Proof.
  rewrite existsb_exists. split.
  - intros [y [Hy He]]. apply text_eqb_eq in He. subst. exact Hy.
  - intro H. exists x. split; [exact H|apply text_eqb_refl].
Qed.

Lemma dedup_from_spec : forall ws seen,
  NoDup (dedup_from seen ws) /\
  (forall w, In w (dedup_from seen ws) <-> In w ws /\ ~ In w seen).
Proof.
  induction ws as [|x r IH]; intro seen; cbn [dedup_from].
  - split; [constructor|]. intro w. cbn. tauto.
  - destruct (existsb (text_eqb x) seen) eqn:E.
    + apply existsb_text_in in E. destruct (IH seen) as [Hnd Hin]. split; [exact Hnd|].
      intro w. rewrite Hin. cbn [In]. split; [tauto|]. intros [[->|Hr] Hs]; [contradiction|tauto].
    + assert (Hx : ~ In x seen) by (intro Hc; apply existsb_text_in in Hc; congruence).
      destruct (IH (x :: seen)) as [Hnd Hin]. split.
      * constructor; [|exact Hnd]. intro Hc. apply Hin in Hc. destruct Hc as [_ Hc]. apply Hc. left. reflexivity.
      * intro w. cbn [In]. rewrite Hin. cbn [In]. split.
        -- intros [->|[Hr Hs]]; [tauto|]. split; [tauto|]. intro Hc. apply Hs. right. exact Hc.
        -- intros [[->|Hr] Hs]; [left; reflexivity|].
           destruct (text_eqb x w) eqn:Exw; [apply text_eqb_eq in Exw; left; exact Exw|].
           right. split; [exact Hr|]. intros [->|Hc]; [rewrite text_eqb_refl in Exw; discriminate|contradiction].
Qed.

Lemma new_trace_names ws :
  NoDup (trace_names (new_trace ws)) /\ (forall w, In w (trace_names (new_trace ws)) <-> In w ws).
Proof.
  unfold trace_names, new_trace. rewrite map_map. cbn [fst]. rewrite map_id.
  destruct (dedup_from_spec ws []) as [Hnd Hin]. split; [exact Hnd|].
  intro w. rewrite Hin. cbn. tauto.
Qed.

Lemma lookup_some_in {A} (tr : list (name * A)) w l : lookup tr w = Some l -> exists k, In (k, l) tr.
Proof.
  induction tr as [|[k v] tr IH]; [discriminate|]. cbn [lookup].
  destruct (text_eqb k w).
  - intro H. inversion H; subst. exists k. left. reflexivity.
  - intro H. destruct (IH H) as [k' Hk]. exists k'. right. exact Hk.
Qed.

Lemma all_len_lookup tr n w : all_len tr n -> In w (trace_names tr) ->
  exists l, lookup tr w = Some l /\ length l = n.
Proof.
  intros Hall Hin. destruct (lookup_in tr w Hin) as [l Hl]. exists l. split; [exact Hl|].
  destruct (lookup_some_in tr w l Hl) as [k Hk]. unfold all_len in Hall. rewrite Forall_forall in Hall.
  exact (Hall (k, l) Hk).
Qed.

Lemma all_len_trace_len tr n : all_len tr n -> tr <> [] -> trace_len tr = Z.of_nat n.
Proof.
  intros H Hne. destruct tr as [|[k l] tr]; [congruence|]. inversion H; subst. cbn in *. unfold len. lia.
Qed.

(* ================================================================== steps *)
Section SimProofs.
  Variable State : Type.
  Variable stepf : State -> inputs -> State * (name -> Z).
  Variable input_widths : list (name * Z).
  Variable guard : Z -> Z -> bool.
  Variable asserts : list name.

  Notation sim := (sim State).
  Notation sim_step := (sim_step State stepf input_widths guard asserts).
  Notation run := (run State stepf input_widths guard asserts).
  Notation accepted ins := (bad_inputs input_widths guard ins || missing_inputs input_widths ins = false).

  (* the trace and inspect agree on every tracked wire *)
  Definition agree (s : sim) : Prop :=
    forall w, In w (trace_names (str s)) -> trace_last (str s) w = Some (inspect State s w).

  Definition simulated (o : outcome) : bool := match o with Rejected => false | _ => true end.
  (* number of cycles a sequence of calls simulated: an assertion failure is raised AFTER its cycle *)
  Definition cycles (k : nat) (o : outcome) : nat :=
    (k + match o with AssertFailed _ => 1 | _ => 0 end)%nat.

  Lemma step_rejected s ins s' : sim_step s ins = (s', Rejected) -> s' = s.
  Proof.
    unfold Trace.sim_step. destruct (_ || _); [congruence|].
    destruct (stepf (sst s) ins) as [st' vm]. destruct (failing_assert asserts vm); discriminate.
  Qed.

  Lemma step_rejected_iff s ins : snd (sim_step s ins) = Rejected <-> ~ accepted ins.
  Proof.
    unfold Trace.sim_step. destruct (_ || _) eqn:E.
    - cbn. split; [intros _ H; discriminate | reflexivity].
    - destruct (stepf (sst s) ins) as [st' vm]. cbn.
      split; [destruct (failing_assert asserts vm); discriminate | intro H; exfalso; apply H; reflexivity].
  Qed.

  Lemma step_simulated s ins s' o : sim_step s ins = (s', o) -> simulated o = true ->
    exists st' vm, stepf (sst s) ins = (st', vm) /\
      s' = mkSim st' vm (add_step (str s) vm) /\
      o = match failing_assert asserts vm with Some a => AssertFailed a | None => Done end.
  Proof.
    unfold Trace.sim_step. destruct (_ || _).
    - intros H. inversion H; subst. discriminate.
    - destruct (stepf (sst s) ins) as [st' vm]. intros H _. inversion H; subst. eauto.
  Qed.

  Lemma step_names s ins s' o : sim_step s ins = (s', o) -> trace_names (str s') = trace_names (str s).
  Proof.
    intro H. destruct (simulated o) eqn:E.
    - destruct (step_simulated _ _ _ _ H E) as (st' & vm & _ & -> & _). cbn. apply names_add_step.
    - destruct o; try discriminate. apply step_rejected in H. subst. reflexivity.
  Qed.

  (* after every step that was simulated: inspect = last trace entry *)
  Lemma step_agree s ins s' o : sim_step s ins = (s', o) -> simulated o = true -> agree s'.
  Proof.
    intros H E. destruct (step_simulated _ _ _ _ H E) as (st' & vm & _ & -> & _).
    intros w Hw. cbn in *. rewrite names_add_step in Hw. rewrite trace_last_add_step by assumption.
    reflexivity.
  Qed.

  Lemma step_length s ins s' o n : sim_step s ins = (s', o) -> all_len (str s) n ->
    all_len (str s') (if simulated o then S n else n).
  Proof.
    intros H Hn. destruct (simulated o) eqn:E.
    - destruct (step_simulated _ _ _ _ H E) as (st' & vm & _ & -> & _). cbn. apply all_len_add_step, Hn.
    - destruct o; try discriminate. apply step_rejected in H. subst. exact Hn.
  Qed.

  Lemma run_agree : forall inss s s' k o, run s inss = (s', k, o) ->
    agree s \/ (0 < cycles k o)%nat -> agree s'.
  Proof.
    induction inss as [|ins rest IH]; intros s s' k o H Hor; cbn [Trace.run] in H.
    - inversion H; subst. destruct Hor as [Ha|Hc]; [exact Ha|cbn in Hc; lia].
    - destruct (sim_step s ins) as [s1 o1] eqn:E1. destruct o1.
      + destruct (run s1 rest) as [[s2 k2] o2] eqn:E2. inversion H; subst.
        eapply IH; [exact E2|]. left. eapply step_agree; [exact E1|reflexivity].
      + inversion H; subst. apply step_rejected in E1. subst.
        destruct Hor as [Ha|Hc]; [exact Ha|cbn in Hc; lia].
      + inversion H; subst. eapply step_agree; [exact E1|reflexivity].
  Qed.

  Lemma run_length : forall inss s s' k o n, run s inss = (s', k, o) -> all_len (str s) n ->
    all_len (str s') (n + cycles k o).
  Proof.
    induction inss as [|ins rest IH]; intros s s' k o n H Hn; cbn [Trace.run] in H.
    - inversion H; subst. unfold cycles. replace (n + (0 + 0))%nat with n by lia. exact Hn.
    - destruct (sim_step s ins) as [s1 o1] eqn:E1. pose proof (step_length _ _ _ _ _ E1 Hn) as H1.
      destruct o1; cbn in H1.
      + destruct (run s1 rest) as [[s2 k2] o2] eqn:E2. inversion H; subst.
        pose proof (IH _ _ _ _ _ E2 H1) as H2. unfold cycles in *.
        replace (n + (S k2 + match o with AssertFailed _ => 1 | _ => 0 end))%nat
          with (S n + (k2 + match o with AssertFailed _ => 1 | _ => 0 end))%nat by lia. exact H2.
      + inversion H; subst. unfold cycles. replace (n + (0 + 0))%nat with n by lia. exact H1.
      + inversion H; subst. unfold cycles. replace (n + (0 + 1))%nat with (S n) by lia. exact H1.
  Qed.

  Lemma run_names : forall inss s s' k o, run s inss = (s', k, o) ->
    trace_names (str s') = trace_names (str s).
  Proof.
    induction inss as [|ins rest IH]; intros s s' k o H; cbn [Trace.run] in H.
    - inversion H; subst. reflexivity.
    - destruct (sim_step s ins) as [s1 o1] eqn:E1. pose proof (step_names _ _ _ _ E1) as H1.
      destruct o1.
      + destruct (run s1 rest) as [[s2 k2] o2] eqn:E2. inversion H; subst.
        rewrite (IH _ _ _ _ E2). exact H1.
      + inversion H; subst. exact H1.
      + inversion H; subst. exact H1.
  Qed.

  (* k calls returned normally and every call was accepted: all were Done *)
  Lemma run_all_done : forall inss s s' k o, run s inss = (s', k, o) -> o = Done -> k = length inss.
  Proof.
    induction inss as [|ins rest IH]; intros s s' k o H Ho; cbn [Trace.run] in H.
    - inversion H; subst. reflexivity.
    - destruct (sim_step s ins) as [s1 o1] eqn:E1. destruct o1.
      + destruct (run s1 rest) as [[s2 k2] o2] eqn:E2. inversion H; subst. cbn. f_equal. eapply IH; eauto.
      + inversion H; subst. discriminate.
      + inversion H; subst. discriminate.
  Qed.

  Lemma step_inspect_last : forall s ins s' o w,
    sim_step s ins = (s', o) -> o <> Rejected -> In w (trace_names (str s)) ->
    trace_last (str s') w = Some (inspect State s' w).
  Proof.
    intros s ins s' o w H Ho Hw. apply (step_agree s ins s' o H).
    - destruct o; try reflexivity. congruence.
    - rewrite (step_names s ins s' o H). exact Hw.
  Qed.

  Lemma run_inspect_last : forall inss s s' k o w,
    run s inss = (s', k, o) -> (0 < cycles k o)%nat -> In w (trace_names (str s)) ->
    trace_last (str s') w = Some (inspect State s' w).
  Proof.
    intros inss s s' k o w H Hc Hw.
    apply (run_agree inss s s' k o H (or_intror Hc)).
    rewrite (run_names inss s s' k o H). exact Hw.
  Qed.

  Lemma run_length_all_done : forall inss ws st v0 s' k,
    run (mkSim st v0 (new_trace ws)) inss = (s', k, Done) ->
    k = length inss /\ all_len (str s') (length inss).
  Proof.
    intros inss ws st v0 s' k H.
    pose proof (run_all_done _ _ _ _ _ H eq_refl) as Hk.
    split; [exact Hk|].
    pose proof (run_length _ _ _ _ _ O H (all_len_new ws)) as Hl.
    unfold cycles in Hl. cbn in Hl. rewrite Hk in Hl. rewrite Nat.add_0_r in Hl. exact Hl.
  Qed.

  (* whatever wires_to_track list the tracer was built from (repeats included): after n calls that
     all returned, every listed wire has exactly n trace entries, found under its name *)
  Lemma run_length_by_name : forall inss ws st v0 s' k w,
    run (mkSim st v0 (new_trace ws)) inss = (s', k, Done) -> In w ws ->
    exists l, lookup (str s') w = Some l /\ length l = length inss.
  Proof.
    intros inss ws st v0 s' k w H Hw.
    destruct (run_length_all_done inss ws st v0 s' k H) as [_ Hall].
    apply all_len_lookup; [exact Hall|].
    rewrite (run_names _ _ _ _ _ H). cbn [str]. apply new_trace_names. exact Hw.
  Qed.

  (* ---------------------------------------------------------------- rtl_assert *)
  Notation pure_vals := (pure_vals State stepf).
  Notation first_assert_failure := (first_assert_failure asserts).

  Lemma run_first_assert : forall inss s s' k o,
    Forall (fun ins => accepted ins) inss -> run s inss = (s', k, o) ->
    match first_assert_failure (pure_vals (sst s) inss) with
    | Some (t, a) => k = t /\ o = AssertFailed a
    | None => k = length inss /\ o = Done
    end.
  Proof.
    induction inss as [|ins rest IH]; intros s s' k o Hacc H; cbn [Trace.run] in H.
    - inversion H; subst. cbn. auto.
    - inversion Hacc as [|? ? Hins Hrest]; subst.
      destruct (sim_step s ins) as [s1 o1] eqn:E1.
      assert (Hsim : simulated o1 = true).
      { destruct o1; try reflexivity. exfalso.
        apply (proj1 (step_rejected_iff s ins)); [rewrite E1; reflexivity | exact Hins]. }
      destruct (step_simulated _ _ _ _ E1 Hsim) as (st' & vm & Hst & Hs1 & Ho1).
      cbn [Trace.pure_vals Trace.first_assert_failure]. rewrite Hst.
      cbn [Trace.first_assert_failure]. destruct (failing_assert asserts vm) as [a|] eqn:Ef.
      + subst o1. inversion H; subst. auto.
      + subst o1. destruct (run s1 rest) as [[s2 k2] o2] eqn:E2. inversion H; subst.
        specialize (IH _ _ _ _ Hrest E2). cbn [sst] in IH.
        destruct (Trace.first_assert_failure asserts (pure_vals st' rest)) as [[t a]|].
        * destruct IH as [-> ->]. auto.
        * destruct IH as [-> ->]. auto.
  Qed.

  (* declarative reading of first_assert_failure *)
  Lemma failing_assert_none vm : failing_assert asserts vm = None <-> forall a, In a asserts -> vm a <> 0.
  Proof.
    unfold failing_assert. split.
    - intros H a Ha. pose proof (find_none _ _ H a Ha) as H1. cbn in H1. lia.
    - intro H. destruct (find _ asserts) as [a|] eqn:E; [|reflexivity].
      apply find_some in E. destruct E as [Ha Hz]. exfalso. apply (H a Ha). lia.
  Qed.

  Lemma failing_assert_some vm a : failing_assert asserts vm = Some a -> In a asserts /\ vm a = 0.
  Proof. unfold failing_assert. intro H. apply find_some in H. destruct H. split; [assumption|lia]. Qed.

  Lemma first_assert_failure_spec : forall vms t a,
    first_assert_failure vms = Some (t, a) <->
    (exists vm, nth_error vms t = Some vm /\ failing_assert asserts vm = Some a) /\
    (forall t' vm', (t' < t)%nat -> nth_error vms t' = Some vm' -> failing_assert asserts vm' = None).
  Proof.
    induction vms as [|vm rest IH]; intros t a; cbn [Trace.first_assert_failure].
    - split; [discriminate|]. intros [[vm [H _]] _]. destruct t; discriminate.
    - destruct (failing_assert asserts vm) as [b|] eqn:Ef.
      + split.
        * intro H. inversion H; subst. split; [exists vm; auto|]. intros t' vm' Hlt. lia.
        * intros [[vm0 [Hn Hf]] Hbefore]. destruct t.
          -- cbn in Hn. inversion Hn; subst. congruence.
          -- specialize (Hbefore O vm ltac:(lia) eq_refl). congruence.
      + destruct (Trace.first_assert_failure asserts rest) as [[t0 a0]|] eqn:Er.
        * split.
          -- intro H. inversion H; subst. destruct (proj1 (IH t0 a) eq_refl) as [[vm0 [Hn Hf]] Hb].
             split; [exists vm0; auto|]. intros [|t'] vm' Hlt Hn'.
             ++ cbn in Hn'. inversion Hn'; subst. exact Ef.
             ++ cbn in Hn'. eapply Hb; [|exact Hn']. lia.
          -- intros [[vm0 [Hn Hf]] Hb]. destruct t; [cbn in Hn; inversion Hn; subst; congruence|].
             cbn in Hn. assert (Hr : Some (t0, a0) = Some (t, a)).
             { apply IH. split; [eauto|]. intros t' vm' Hlt Hn'. apply (Hb (S t') vm'); [lia|exact Hn']. }
             inversion Hr; subst. reflexivity.
        * split; [discriminate|]. intros [[vm0 [Hn Hf]] Hb]. destruct t; [cbn in Hn; inversion Hn; subst; congruence|].
          cbn in Hn. assert (Hr : None = Some (t, a)).
          { apply IH. split; [eauto|]. intros t' vm' Hlt Hn'. apply (Hb (S t') vm'); [lia|exact Hn']. }
          discriminate.
  Qed.

End SimProofs.

(* ================================================================== step_multiple *)
Section StepMultiple.
  Variable State : Type.
  Variable stepf : State -> inputs -> State * (name -> Z).
  Variable input_widths : list (name * Z).
  Variable guard : Z -> Z -> bool.
  Variable asserts : list name.
  Variable provided : list (name * list Z).
  Variable expected : list (name * list (option Z)).

  Notation sim := (sim State).
  Notation sim_step := (sim_step State stepf input_widths guard asserts).
  Notation run := (run State stepf input_widths guard asserts).
  Notation sm_loop := (sm_loop State stepf input_widths guard asserts provided expected).
  Notation check := (check_expected State expected).

  (* the objects obtained by calling step once per element (meaningful while every call returns) *)
  Fixpoint states (s : sim) (inss : list inputs) : list sim :=
    match inss with
    | [] => []
    | ins :: r => let s1 := fst (sim_step s ins) in s1 :: states s1 r
    end.

  (* all mismatching expected outputs of the steps idx, in step order *)
  Definition mismatches (s : sim) (idx : list nat) : list (failure) :=
    flat_map (fun p => check (snd p) (fst p))
             (combine idx (states s (map (inputs_at provided) idx))).

  Lemma check_in s i f :
    In f (check s i) <->
    exists w l e, In (w, l) expected /\ nth i l None = Some e /\ e <> inspect State s w
                  /\ f = (i, w, e, inspect State s w).
  Proof.
    unfold Trace.check_expected. rewrite in_flat_map. split.
    - intros [[w l] [Hin Hf]]. cbn [fst snd] in Hf. destruct (nth i l None) as [e|] eqn:En; [|destruct Hf].
      destruct (e =? inspect State s w) eqn:Ee; [destruct Hf|]. destruct Hf as [Hf|[]]. subst f.
      exists w, l, e. repeat split; try assumption. lia.
    - intros (w & l & e & Hin & Hn & Hne & ->). exists (w, l). split; [assumption|]. cbn [fst snd].
      rewrite Hn. destruct (e =? inspect State s w) eqn:Ee; [lia|]. left. reflexivity.
  Qed.

  (* no stop_after_first_error: all steps are taken, every mismatch is collected *)
  Lemma sm_loop_all : forall idx s failed s',
    run s (map (inputs_at provided) idx) = (s', length idx, Done) ->
    sm_loop false s idx failed = SmFinished s' (failed ++ mismatches s idx).
  Proof.
    induction idx as [|i rest IH]; intros s failed s' H; cbn [Trace.run map] in H.
    - inversion H; subst. unfold mismatches. cbn. rewrite app_nil_r. reflexivity.
    - cbn [Trace.sm_loop]. destruct (sim_step s (inputs_at provided i)) as [s1 o1] eqn:E1.
      destruct o1; [|inversion H|inversion H].
      destruct (run s1 (map (inputs_at provided) rest)) as [[s2 k2] o2] eqn:E2.
      inversion H; subst. cbn [andb]. rewrite (IH s1 _ s' E2).
      unfold mismatches. cbn [map states combine flat_map fst snd]. rewrite E1. cbn [fst].
      rewrite <- app_assoc. reflexivity.
  Qed.

  (* a raising step ends step_multiple at the same object, with nothing reported *)
  Lemma sm_loop_raises : forall idx s failed s' k o,
    run s (map (inputs_at provided) idx) = (s', k, o) -> o <> Done ->
    sm_loop false s idx failed = SmRaised s' (nth k idx O) o.
  Proof.
    induction idx as [|i rest IH]; intros s failed s' k o H Ho; cbn [Trace.run map] in H.
    - inversion H; subst. congruence.
    - cbn [Trace.sm_loop]. destruct (sim_step s (inputs_at provided i)) as [s1 o1] eqn:E1.
      destruct o1.
      + destruct (run s1 (map (inputs_at provided) rest)) as [[s2 k2] o2] eqn:E2.
        inversion H; subst. cbn [andb nth]. eapply IH; eauto.
      + inversion H; subst. reflexivity.
      + inversion H; subst. reflexivity.
  Qed.

  (* stop_after_first_error: the loop ends after the first step that has a mismatch *)
  Fixpoint stop_result (s : sim) (ps : list (nat * sim)) : sim * list failure :=
    match ps with
    | [] => (s, [])
    | (i, si) :: r => match check si i with
                      | [] => stop_result si r
                      | f => (si, f)
                      end
    end.

  Lemma sm_loop_stop : forall idx s s',
    run s (map (inputs_at provided) idx) = (s', length idx, Done) ->
    sm_loop true s idx [] =
      let r := stop_result s (combine idx (states s (map (inputs_at provided) idx))) in
      SmFinished (fst r) (snd r).
  Proof.
    induction idx as [|i rest IH]; intros s s' H; cbn [Trace.run map] in H.
    - reflexivity.
    - cbn [Trace.sm_loop]. destruct (sim_step s (inputs_at provided i)) as [s1 o1] eqn:E1.
      destruct o1; [|inversion H|inversion H].
      destruct (run s1 (map (inputs_at provided) rest)) as [[s2 k2] o2] eqn:E2.
      inversion H; subst. cbn [map states combine stop_result]. rewrite E1. cbn [fst app andb].
      destruct (check s1 i) as [|f fs] eqn:Ec.
      + cbn [is_nil negb]. apply (IH s1 s' E2).
      + cbn [is_nil negb]. reflexivity.
  Qed.

  (* the states are the stepwise ones *)
  Lemma states_length s inss : length (states s inss) = length inss.
  Proof. revert s. induction inss; intro s; cbn; auto. Qed.

  Lemma last_cons {B} (x : B) l d : last (x :: l) d = last l x.
  Proof.
    revert x d. induction l as [|y t IH]; intros x d; [reflexivity|].
    change (last (x :: y :: t) d) with (last (y :: t) d). rewrite (IH y d), (IH y x). reflexivity.
  Qed.

  Lemma states_run : forall inss s s', run s inss = (s', length inss, Done) ->
    last (states s inss) s = s'.
  Proof.
    induction inss as [|ins rest IH]; intros s s' H; cbn [Trace.run] in H.
    - inversion H; subst. reflexivity.
    - destruct (sim_step s ins) as [s1 o1] eqn:E1.
      destruct o1; [|inversion H|inversion H].
      destruct (run s1 rest) as [[s2 k2] o2] eqn:E2. inversion H; subst.
      cbn [states]. rewrite E1. cbn [fst]. rewrite last_cons. apply IH. exact E2.
  Qed.

End StepMultiple.

(* ================================================================== report order *)
Section SortProofs.
  Context {A : Type}.
  Variable leb : A -> A -> bool.
  Hypothesis leb_total : forall a b, leb a b = false -> leb b a = true.

  Lemma insert_perm x l : Permutation (insert leb x l) (x :: l).
  Proof.
    induction l as [|y t IH]; cbn [insert]; [reflexivity|].
    destruct (leb x y); [reflexivity|]. rewrite IH. apply perm_swap.
  Qed.

  Lemma isort_perm l : Permutation (isort leb l) l.
  Proof.
    induction l as [|x t IH]; cbn [isort fold_right]; [reflexivity|].
    fold (isort leb t). rewrite insert_perm. constructor. exact IH.
  Qed.

  Lemma insert_sorted x l : Sorted (fun a b => leb a b = true) l ->
    Sorted (fun a b => leb a b = true) (insert leb x l).
  Proof.
    induction l as [|y t IH]; intro Hs; cbn [insert].
    - repeat constructor.
    - destruct (leb x y) eqn:E.
      + constructor; [exact Hs|]. constructor. exact E.
      + inversion Hs as [|? ? Hst Hhd]; subst. constructor; [apply IH, Hst|].
        destruct t as [|z t']; cbn [insert].
        * constructor. apply leb_total, E.
        * destruct (leb x z); constructor; [apply leb_total, E|].
          inversion Hhd; subst. assumption.
  Qed.

  Lemma isort_sorted l : Sorted (fun a b => leb a b = true) (isort leb l).
  Proof.
    induction l as [|x t IH]; cbn [isort fold_right]; [constructor|].
    apply insert_sorted. exact IH.
  Qed.
End SortProofs.

Lemma text_cmp_antisym a b : text_cmp b a = CompOpp (text_cmp a b).
Proof.
  revert b. induction a as [|x a IH]; intros [|y b]; cbn [text_cmp]; try reflexivity.
  rewrite (Z.compare_antisym x y). destruct (x ?= y); cbn [CompOpp]; auto.
Qed.

Lemma chunk_cmp_antisym a b : chunk_cmp b a = CompOpp (chunk_cmp a b).
Proof.
  destruct a, b; cbn [chunk_cmp]; try reflexivity.
  - apply text_cmp_antisym.
  - apply Z.compare_antisym.
Qed.

Lemma chunks_cmp_antisym a b : chunks_cmp b a = CompOpp (chunks_cmp a b).
Proof.
  revert b. induction a as [|x a IH]; intros [|y b]; cbn [chunks_cmp]; try reflexivity.
  rewrite (chunk_cmp_antisym x y). destruct (chunk_cmp x y); cbn [CompOpp]; auto.
Qed.

Lemma key_cmp_antisym a b : key_cmp b a = CompOpp (key_cmp a b).
Proof.
  unfold key_cmp. rewrite (chunks_cmp_antisym (natkey a) (natkey b)).
  destruct (chunks_cmp (natkey a) (natkey b)); cbn [CompOpp]; try reflexivity. apply text_cmp_antisym.
Qed.

Lemma failure_leb_total f g : failure_leb f g = false -> failure_leb g f = true.
Proof.
  unfold failure_leb, failure_cmp. destruct f as [[[i n] e] a], g as [[[j m] e'] a'].
  rewrite (Nat.compare_antisym i j). rewrite (key_cmp_antisym n m).
  destruct (Nat.compare i j); cbn [CompOpp]; try discriminate; try reflexivity.
  destruct (key_cmp n m); cbn [CompOpp]; try discriminate; reflexivity.
Qed.

Lemma report_perm failed : Permutation (report failed) failed.
Proof. apply isort_perm. Qed.

Lemma report_sorted failed : Sorted (fun f g => failure_leb f g = true) (report failed).
Proof. apply isort_sorted. exact failure_leb_total. Qed.

(* ================================================================== step_multiple, top level *)
Section StepMultipleTop.
  Variable State : Type.
  Variable stepf : State -> inputs -> State * (name -> Z).
  Variable input_widths : list (name * Z).
  Variable guard : Z -> Z -> bool.
  Variable asserts : list name.

  Notation run := (run State stepf input_widths guard asserts).
  Notation step_multiple := (step_multiple State stepf input_widths guard asserts).

  (* the number of steps taken when the prologue raises nothing *)
  Definition nsteps_of (provided : list (name * list Z)) (nsteps : option Z) : Z :=
    match nsteps with
    | Some m => if m =? 0 then max_len provided else m
    | None => max_len provided
    end.

  Lemma existsb_false_forall {A} (f : A -> bool) l : existsb f l = false -> Forall (fun x => f x = false) l.
  Proof.
    intro H. apply Forall_forall. intros x Hx. destruct (f x) eqn:E; [|reflexivity].
    assert (existsb f l = true) by (apply existsb_exists; eauto). congruence.
  Qed.

  Lemma sm_nsteps_ok {A} provided (expected : list (name * list A)) nsteps n :
    sm_nsteps provided expected nsteps = inr n ->
    n = nsteps_of provided nsteps /\ 1 <= n /\
    Forall (fun p => n <= len (snd p)) provided /\ Forall (fun p => n <= len (snd p)) expected.
  Proof.
    unfold sm_nsteps, nsteps_of, truthy. intro H.
    destruct (negb _ && _) eqn:E0; [discriminate|].
    match type of H with (match ?r with _ => _ end) = _ => destruct r as [e|m] eqn:Er end; [discriminate|].
    destruct (m <? 1) eqn:E1; [discriminate|].
    destruct (existsb _ provided) eqn:E2; [discriminate|].
    destruct (existsb _ expected) eqn:E3; [discriminate|].
    inversion H; subst m. apply existsb_false_forall in E2. apply existsb_false_forall in E3.
    assert (Hp : Forall (fun p : name * list Z => n <= len (snd p)) provided)
      by (eapply Forall_impl; [|exact E2]; cbn; intros; lia).
    assert (He : Forall (fun p : name * list A => n <= len (snd p)) expected)
      by (eapply Forall_impl; [|exact E3]; cbn; intros; lia).
    split; [|split; [lia|split; assumption]].
    destruct (0 <? len provided) eqn:Ep.
    - destruct nsteps as [k|].
      + destruct (k =? 0) eqn:Ek; cbn [negb] in Er.
        * inversion Er. reflexivity.
        * destruct (k >? max_len provided); inversion Er. reflexivity.
      + inversion Er. reflexivity.
    - destruct nsteps as [k|]; [|discriminate]. inversion Er; subst.
      destruct (n =? 0) eqn:Ek; [lia|reflexivity].
  Qed.

  Lemma step_multiple_all provided expected nsteps s n s' :
    sm_nsteps provided expected nsteps = inr n ->
    run s (map (inputs_at provided) (seq 0 (Z.to_nat n))) = (s', Z.to_nat n, Done) ->
    step_multiple provided expected nsteps false s =
      SmFinished s' (mismatches State stepf input_widths guard asserts provided expected s (seq 0 (Z.to_nat n))).
  Proof.
    intros Hn Hrun. unfold Trace.step_multiple. rewrite Hn.
    erewrite sm_loop_all; [reflexivity|]. rewrite seq_length. exact Hrun.
  Qed.

  Lemma run_raise_index : forall inss s s' k o, run s inss = (s', k, o) -> o <> Done -> (k < length inss)%nat.
  Proof.
    induction inss as [|ins rest IH]; intros s s' k o H Ho; cbn [Trace.run] in H.
    - inversion H; subst. congruence.
    - destruct (Trace.sim_step State stepf input_widths guard asserts s ins) as [s1 o1].
      destruct o1.
      + destruct (run s1 rest) as [[s2 k2] o2] eqn:E2. inversion H; subst. cbn [length].
        apply -> Nat.succ_lt_mono. eapply IH; eauto.
      + inversion H; subst. cbn. lia.
      + inversion H; subst. cbn. lia.
  Qed.

  Lemma step_multiple_raises provided expected nsteps s n s' k o :
    sm_nsteps provided expected nsteps = inr n ->
    run s (map (inputs_at provided) (seq 0 (Z.to_nat n))) = (s', k, o) -> o <> Done ->
    step_multiple provided expected nsteps false s = SmRaised s' k o.
  Proof.
    intros Hn Hrun Ho. unfold Trace.step_multiple. rewrite Hn.
    erewrite sm_loop_raises; [|exact Hrun|exact Ho].
    f_equal. pose proof (run_raise_index _ _ _ _ _ Hrun Ho) as Hk.
    rewrite map_length, seq_length in Hk. rewrite seq_nth by exact Hk. reflexivity.
  Qed.

  Lemma step_multiple_stop provided expected nsteps s n s' :
    sm_nsteps provided expected nsteps = inr n ->
    run s (map (inputs_at provided) (seq 0 (Z.to_nat n))) = (s', Z.to_nat n, Done) ->
    step_multiple provided expected nsteps true s =
      let idx := seq 0 (Z.to_nat n) in
      let r := stop_result State expected s
                 (combine idx (states State stepf input_widths guard asserts s (map (inputs_at provided) idx))) in
      SmFinished (fst r) (snd r).
  Proof.
    intros Hn Hrun. unfold Trace.step_multiple. rewrite Hn.
    erewrite sm_loop_stop; [reflexivity|]. rewrite seq_length. exact Hrun.
  Qed.

  (* without expected outputs nothing can be reported: step_multiple is just the steps, one per
     cycle -- also when one of them raises (validation and simulation stay interleaved) *)
  Lemma mismatches_no_expected provided s idx :
    mismatches State stepf input_widths guard asserts provided [] s idx = [].
  Proof.
    unfold mismatches. induction (combine idx _) as [|p l IH]; [reflexivity|]. cbn [flat_map]. exact IH.
  Qed.

  Lemma step_multiple_no_expected provided nsteps s n s' k o :
    sm_nsteps provided (@nil (name * list (option Z))) nsteps = inr n ->
    run s (map (inputs_at provided) (seq 0 (Z.to_nat n))) = (s', k, o) ->
    step_multiple provided [] nsteps false s =
      match o with Done => SmFinished s' [] | _ => SmRaised s' k o end.
  Proof.
    intros Hn Hrun. destruct o.
    - pose proof (run_all_done State stepf input_widths guard asserts _ _ _ _ _ Hrun eq_refl) as Hk.
      rewrite map_length, seq_length in Hk. subst k.
      rewrite (step_multiple_all provided [] nsteps s n s' Hn Hrun). rewrite mismatches_no_expected. reflexivity.
    - apply (step_multiple_raises provided [] nsteps s n s' k Rejected Hn Hrun). discriminate.
    - apply (step_multiple_raises provided [] nsteps s n s' k (AssertFailed a) Hn Hrun). discriminate.
  Qed.

  Lemma step_multiple_prologue_error provided (expected : list (name * list (option Z))) nsteps stop s e :
    sm_nsteps provided expected nsteps = inl e ->
    step_multiple provided expected nsteps stop s = SmError e.
  Proof. intro H. unfold Trace.step_multiple. rewrite H. reflexivity. Qed.
End StepMultipleTop.


(* ================================================================== step order (Gen/StepOrder.v)
   The event lists regenerated from the source of the three step() implementations mean exactly
   the hand-written sim_step that every theorem above is about.  `solve_order` evaluates the
   interpreter on the generated list, so any reordering with the same observable meaning still
   proves, and any other one (assertions checked before tracing, values stored while validating,
   tracing before the values are published, ...) does not. *)
Ltac order_cbn := cbn [exec_events m_st m_val m_tr m_cur m_sim sst sval str failing_assert find].
Ltac solve_order :=
  intros; unfold exec_order, Trace.sim_step;
  repeat match goal with s : sim _ |- _ => destruct s end; order_cbn;
  repeat (first [ match goal with |- context [if ?c then _ else _] => destruct c end
                | match goal with |- context [let '(_, _) := ?p in _] => destruct p end ]; order_cbn);
  repeat (match goal with |- context [match failing_assert ?a ?v with _ => _ end] =>
                            destruct (failing_assert a v) end; order_cbn);
  try reflexivity.

Section StepOrder.
  Variable State : Type.
  Variable stepf : State -> inputs -> State * (name -> Z).
  Variable input_widths : list (name * Z).
  Variable guard : Z -> Z -> bool.
  Variable asserts : list name.

  Lemma step_order_simulation_ok : forall s ins,
    exec_order State stepf input_widths guard asserts step_order_simulation s ins
    = sim_step State stepf input_widths guard asserts s ins.
  Proof. unfold step_order_simulation. solve_order. Qed.

  Lemma step_order_fast_ok : forall s ins,
    exec_order State stepf input_widths guard asserts step_order_fast s ins
    = sim_step State stepf input_widths guard asserts s ins.
  Proof. unfold step_order_fast. solve_order. Qed.

  (* CompiledSimulation checks no rtl_assert *)
  Lemma step_order_compiled_ok : forall s ins,
    exec_order State stepf input_widths guard [] step_order_compiled s ins
    = sim_step State stepf input_widths guard [] s ins.
  Proof. unfold step_order_compiled. solve_order. Qed.
End StepOrder.
