(* C15 -- proofs about the input guards (Gen/InputGuards.v, regenerated from the
   source on every run), the trace store, inspect, rtl_assert and step_multiple
   (Sim/Trace.v). *)
From Coq Require Import ZArith List Bool Lia ZifyBool Permutation Sorted.
From PyRTL Require Import Base.PyZ Sim.TraceBase Sim.Trace Gen.InputGuards.
Import ListNotations.
Open Scope Z_scope.

(* ================================================================== guards *)
Lemma log2_ge_pow2 v w : 0 < v -> 0 <= w -> (w <= Z.log2 v <-> 2 ^ w <= v).
Proof. intros. symmetry. apply Z.log2_le_pow2; lia. Qed.

Ltac guard_norm :=
  unfold len_bin_signed, len_bin, bit_length, mask, inrangeb, reject_spec in *;
  rewrite ?Z.shiftl_1_l, ?Z.ones_equiv, ?Z.gtb_ltb, ?Z.geb_leb in *.

Ltac split_ifs :=
  repeat match goal with
         | |- context [if ?c then _ else _] => let E := fresh "E" in destruct c eqn:E
         end.

(* decides  guard v w = true <-> ~ (0 <= v < 2^w)  for guards written with comparisons,
   `1 << w`, bitmask, len(bin(v)) and bit_length; fails on anything weaker or stronger *)
Ltac solve_guard :=
  let v := fresh "v" in let w := fresh "w" in let Hw := fresh "Hw" in
  intros v w Hw; guard_norm;
  pose proof (pow2_pos w ltac:(lia));
  pose proof (Z.log2_nonneg v);
  destruct (Z_lt_le_dec v 0);
  [ rewrite ?Z.abs_neq by lia; split_ifs; lia
  | rewrite ?Z.abs_eq by lia;
    destruct (Z.eq_dec v 0);
    [ split_ifs; lia
    | pose proof (log2_ge_pow2 v w ltac:(lia) ltac:(lia)); split_ifs; lia ] ].

Definition guard_correct (g : Z -> Z -> bool) : Prop :=
  forall v w, 1 <= w -> (g v w = true <-> ~ (0 <= v < 2 ^ w)).

Lemma simulation_guard_correct : guard_correct guard_simulation.
Proof. unfold guard_correct, guard_simulation. solve_guard. Qed.

Lemma fast_guard_correct : guard_correct guard_fast.
Proof. unfold guard_correct, guard_fast. solve_guard. Qed.

(* CompiledSimulation (defect F6).  Both lemmas are conditional on what the
   translated guard does on the witness (-1, width 1), a closed boolean term that
   vm_compute decides: exactly one of them has a true premise, and Props/C15.v
   instantiates that one with eq_refl.  Both compile in either state of the source. *)
Definition compiled_rejects_minus_one : bool := guard_compiled (-1) 1.

Lemma compiled_guard_correct_if : compiled_rejects_minus_one = true -> guard_correct guard_compiled.
Proof.
  intro Hc.
  first [ exfalso; vm_compute in Hc; discriminate Hc
        | clear Hc; unfold guard_correct, guard_compiled; solve_guard ].
Qed.

Lemma compiled_guard_refuted_if : compiled_rejects_minus_one = false ->
  exists v w, 1 <= w /\ ~ (0 <= v < 2 ^ w) /\ guard_compiled v w = false.
Proof.
  intro Hc. exists (-1), 1. split; [lia|]. split; [lia|]. exact Hc.
Qed.

(* whatever the state: the upper bound is always enforced *)
Lemma compiled_guard_upper : forall v w, 1 <= w -> 2 ^ w <= v -> guard_compiled v w = true.
Proof.
  intros v w Hw Hv.
  first [ apply (proj2 (compiled_guard_correct_if eq_refl v w Hw)); lia
        | unfold guard_compiled; guard_norm; pose proof (pow2_pos w ltac:(lia)); split_ifs; lia ].
Qed.

(* reject_spec is the range test *)
Lemma reject_spec_correct : guard_correct reject_spec.
Proof. unfold guard_correct, reject_spec, inrangeb. intros. lia. Qed.
