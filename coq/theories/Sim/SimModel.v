(* Executable model of pyrtl.Simulation (pyrtl/simulation.py):
   _initialize, step, _execute, _mem_update, _sanitize.
   Values are Python ints (Z); every destination is masked with
   `val & bitmask`.  The op table comes from Gen/SimOps.v, which is
   regenerated from Simulation.simple_func on every run. *)
From PyRTL Require Export Netlist.Sem.
From PyRTL Require Export Gen.SimOps.

(* _execute, op 'c':   result = (result << len(arg)) | value[arg]   *)
Definition sim_concat (args : list (Z * Z)) : Z :=
  fold_left (fun r vw => Z.lor (Z.shiftl r (snd vw)) (fst vw)) args 0.

(* _execute, op 's':   for b in op_param[::-1]: result = (result << 1) | (1 & (source >> b)) *)
Definition sim_select (src : Z) (idx : list Z) : Z :=
  fold_left (fun r b => Z.lor (Z.shiftl r 1) (Z.land 1 (Z.shiftr src b))) (rev idx) 0.

Record sstate := mkS {
  value : wid -> Z;                 (* Simulation.value *)
  regvalue : wid -> Z;              (* Simulation.regvalue *)
  memvalue : Z -> list (Z * Z)      (* Simulation.memvalue[memid] : dict *)
}.

Section WithNetlist.
Variable nl : netlist.
Variable dflt : Z.                  (* Simulation.default_value *)

Definition sim_mem_read (mv : Z -> list (Z * Z)) (m a : Z) : Z :=
  match find_mem (mems nl) m with
  | Some mm => match mrom mm with
               | Some data => rom_read data a            (* RomBlock._get_read_data *)
               | None => assoc_d (mv m) a dflt           (* memvalue[memid].get(addr, default) *)
               end
  | None => assoc_d (mv m) a dflt
  end.

Definition execute (mv : Z -> list (Z * Z)) (v : wid -> Z) (n : net) : wid -> Z :=
  let wd := width_of nl (ndest n) in
  match nop n with
  | OpReg | OpMemWr _ => v
  | OpConcat => upd v (ndest n) (sanitize (sim_concat (argvals nl v n)) wd)
  | OpSelect idx => upd v (ndest n) (sanitize (sim_select (v (arg n 0)) idx) wd)
  | OpMemRd m => upd v (ndest n) (sanitize (sim_mem_read mv m (v (arg n 0))) wd)
  | o => match simple_func o (map v (nargs n)) with
         | Some r => upd v (ndest n) (sanitize r wd)
         | None => v
         end
  end.

(* _mem_update *)
Definition mem_update (v : wid -> Z) (mv : Z -> list (Z * Z)) (n : net) : Z -> list (Z * Z) :=
  match nop n with
  | OpMemWr m =>
      if v (arg n 2) =? 0 then mv
      else upd mv m (dict_set (mv m) (v (arg n 0)) (v (arg n 1)))
  | _ => mv
  end.

Definition reg_update (v : wid -> Z) (rv : wid -> Z) (n : net) : wid -> Z :=
  match nop n with
  | OpReg => upd rv (ndest n) (sanitize (v (arg n 0)) (width_of nl (ndest n)))
  | _ => rv
  end.

Definition is_input (w : wid) : bool :=
  match kind_of nl w with KInput => true | _ => false end.
Definition is_reg (w : wid) : bool :=
  match kind_of nl w with KReg _ => true | _ => false end.

Definition sim_step (st : sstate) (ins : wid -> Z) : (wid -> Z) * sstate :=
  let v1 := fun w => if is_input w then ins w else value st w in
  let v2 := fun w => if is_reg w then regvalue st w else v1 w in     (* value.update(regvalue) *)
  let v3 := fold_left (execute (memvalue st)) (nets nl) v2 in
  let mv := fold_left (mem_update v3) (nets nl) (memvalue st) in
  let rv := fold_left (reg_update v3) (nets nl) (regvalue st) in
  (v3, {| value := v3; regvalue := rv; memvalue := mv |}).

Fixpoint sim_run (st : sstate) (inss : list (wid -> Z)) : list (wid -> Z) * sstate :=
  match inss with
  | [] => ([], st)
  | ins :: rest =>
      let '(v, st') := sim_step st ins in
      let '(vs, st'') := sim_run st' rest in
      (v :: vs, st'')
  end.

(* _initialize *)
Definition sim_init (regmap : list (Z * Z)) (memmap : list (Z * list (Z * Z))) : sstate :=
  let rv := init_reg nl dflt regmap in
  {| value := fun w => match kind_of nl w with
                       | KReg _ => rv w
                       | KConst c => c
                       | _ => dflt
                       end;
     regvalue := rv;
     memvalue := fun m => match find (fun p => fst p =? m) memmap with
                          | Some (_, d) => d
                          | None => []
                          end |}.

End WithNetlist.
