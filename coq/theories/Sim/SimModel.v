(* Executable model of pyrtl.Simulation (pyrtl/simulation.py):
   _initialize, step, _execute, _mem_update, _sanitize.
   Values are Python ints (Z).  Everything that computes a value is
   REGENERATED from the current source on every run:
     Gen/SimOps.v   simple_func (the 13 lambdas)                 [py/gen_coq.py]
     Gen/SimExec.v  _sanitize and WireVector.bitmask, the loop bodies, initial
                    values and iteration orders of the 'c' and 's' arms of
                    _execute, the dict lookup of the 'm' arm, the condition /
                    address / data of _mem_update, the register capture of
                    step                                         [py/genfrag_C01.py]
   What is written here by hand is the plumbing between them (which the same
   plug-in checks against the shape of _execute / step / _initialize, aborting
   the translation when the dispatch or the order of the phases changes). *)
From PyRTL Require Export Netlist.Sem.
From PyRTL Require Export Gen.SimOps Gen.SimExec.

(* _execute, op 'c':   result = 0; for arg in net.args: <sx_concat_step>   *)
Definition sim_concat (args : list (Z * Z)) : Z :=
  fold_left sx_concat_step (sx_concat_order args) sx_concat_init.

(* _execute, op 's':   result = 0; for b in op_param[::-1]: <sx_select_step source> *)
Definition sim_select (src : Z) (idx : list Z) : Z :=
  fold_left (sx_select_step src) (sx_select_order idx) sx_select_init.

Record sstate := mkS {
  value : wid -> Z;                 (* Simulation.value *)
  regvalue : wid -> Z;              (* Simulation.regvalue *)
  memvalue : Z -> list (Z * Z)      (* Simulation.memvalue[memid] : dict *)
}.

Section WithNetlist.
Variable nl : netlist.
Variable dflt : Z.                  (* Simulation.default_value *)

Definition sim_mem_read (mv : Z -> list (Z * Z)) (m a : Z) : Z :=
  match find_mem (mems nl) m with
  | Some mm => match mrom mm with
               | Some data => rom_read data a            (* RomBlock._get_read_data *)
               | None => sx_mem_get (mv m) a dflt        (* memvalue[memid].get(addr, default) *)
               end
  | None => sx_mem_get (mv m) a dflt
  end.

Definition execute (mv : Z -> list (Z * Z)) (v : wid -> Z) (n : net) : wid -> Z :=
  let wd := width_of nl (ndest n) in
  match nop n with
  | OpReg | OpMemWr _ => v
  | OpConcat => upd v (ndest n) (sx_sanitize (sim_concat (argvals nl v n)) wd)
  | OpSelect idx => upd v (ndest n) (sx_sanitize (sim_select (v (arg n sx_select_src_arg)) idx) wd)
  | OpMemRd m => upd v (ndest n) (sx_sanitize (sim_mem_read mv m (v (arg n sx_mem_read_addr_arg))) wd)
  | o => match simple_func o (map v (nargs n)) with
         | Some r => upd v (ndest n) (sx_sanitize r wd)
         | None => v
         end
  end.

(* _mem_update: `if <cond>: memvalue[memid][<addr>] = <data>`, the three read off the source as
   functions of the values of args[0], args[1], args[2] *)
Definition mem_update (v : wid -> Z) (mv : Z -> list (Z * Z)) (n : net) : Z -> list (Z * Z) :=
  match nop n with
  | OpMemWr m =>
      let a0 := v (arg n 0) in let a1 := v (arg n 1) in let a2 := v (arg n 2) in
      if sx_mem_write_cond a0 a1 a2
      then upd mv m (dict_set (mv m) (sx_mem_write_addr a0 a1 a2) (sx_mem_write_data a0 a1 a2))
      else mv
  | _ => mv
  end.

Definition reg_update (v : wid -> Z) (rv : wid -> Z) (n : net) : wid -> Z :=
  match nop n with
  | OpReg => upd rv (ndest n) (sx_reg_capture (v (arg n 0)) (width_of nl (ndest n)))
  | _ => rv
  end.

Definition is_input (w : wid) : bool :=
  match kind_of nl w with KInput => true | _ => false end.
Definition is_reg (w : wid) : bool :=
  match kind_of nl w with KReg _ => true | _ => false end.

(* step.  The order of the phases -- inputs, value.update(regvalue), nets in order, memory
   writes, trace, register capture -- is the one py/genfrag_C01.py finds in the source; the
   translation aborts (and Gen/SimExec.v stops compiling) when it is any other. *)
Definition sim_step (st : sstate) (ins : wid -> Z) : (wid -> Z) * sstate :=
  let v1 := fun w => if is_input w then ins w else value st w in
  let v2 := fun w => if is_reg w then regvalue st w else v1 w in     (* value.update(regvalue) *)
  let v3 := fold_left (execute (memvalue st)) (nets nl) v2 in
  let mv := fold_left (mem_update v3) (nets nl) (memvalue st) in
  let rv := fold_left (reg_update v3) (nets nl) (regvalue st) in
  (v3, {| value := v3; regvalue := rv; memvalue := mv |}).

Fixpoint sim_run (st : sstate) (inss : list (wid -> Z)) : list (wid -> Z) * sstate :=
  match inss with
  | [] => ([], st)
  | ins :: rest =>
      let '(v, st') := sim_step st ins in
      let '(vs, st'') := sim_run st' rest in
      (v :: vs, st'')
  end.

(* _initialize: the four initial-value rules are the regenerated ones (Gen/SimExec.v) *)
Definition reset_of (w : wid) : option Z := match kind_of nl w with KReg r => r | _ => None end.
Definition sim_init (regmap : list (Z * Z)) (memmap : list (Z * list (Z * Z))) : sstate :=
  let rv := fun w => sx_init_reg (assoc regmap w) (reset_of w) dflt in
  {| value := fun w => match kind_of nl w with
                       | KReg _ => rv w
                       | KConst c => sx_init_const c
                       | _ => sx_init_other dflt
                       end;
     regvalue := rv;
     memvalue := fun m => sx_init_mem (match find (fun p => fst p =? m) memmap with
                                       | Some (_, d) => Some d
                                       | None => None
                                       end) |}.

End WithNetlist.
