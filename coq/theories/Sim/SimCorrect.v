(* C01: the model of pyrtl.Simulation refines the reference semantics. *)
From PyRTL Require Import Sim.SimModel Sim.OpLemmas.
From PyRTL Require Export Netlist.WFDefs.
From Coq Require Import ZifyBool.

Lemma mem_in_In w l : mem_in w l = true <-> In w l.
Proof.
  unfold mem_in. rewrite existsb_exists. split.
  - intros [x [Hin Heq]]. apply Z.eqb_eq in Heq. subst. assumption.
  - intros H. exists w. split; [assumption|apply Z.eqb_refl].
Qed.

Lemma find_wire_In ws w x : find_wire ws w = Some x -> In x ws /\ wname x = w.
Proof.
  induction ws as [|y r IH]; simpl; [discriminate|].
  destruct (wname y =? w) eqn:E.
  - intros H. injection H as <-. split; [left; reflexivity|lia].
  - intros H. destruct (IH H). split; [right|]; assumption.
Qed.

Section Correct.
Variable nl : netlist.
Variable dflt : Z.

Local Notation is_base := (is_base nl).
Local Notation op_ok := (op_ok nl).
Local Notation net_ok := (net_ok nl).
Local Notation nets_ok := (nets_ok nl).
Local Notation rdy0 := (rdy0 nl).
Local Notation rdy_final := (rdy_final nl).
Local Notation wfb := (wfb nl).

Definition legal_ins (ins : wid -> Z) : Prop :=
  forall w, is_input nl w = true -> inrange (ins w) (width_of nl w).
Definition legal_regs (rg : wid -> Z) : Prop :=
  forall w, is_reg nl w = true -> inrange (rg w) (width_of nl w).

(* abstraction relation between the simulator's state and the reference state *)
Definition R (st : state) (sst : sstate) : Prop :=
  (forall r, sregs st r = regvalue sst r)
  /\ (forall m a, smems st m a = assoc_d (memvalue sst m) a dflt)
  /\ (forall w c, kind_of nl w = KConst c -> value sst w = c).

Definition Agree (rdy : list wid) (v v' : wid -> Z) : Prop :=
  forall w, In w rdy -> v w = v' w /\ inrange (v w) (width_of nl w).

Hypothesis Hwidths : forallb (fun x => 0 <=? wwidth x) (wires nl) = true.

Lemma width_nonneg w : 0 <= width_of nl w.
Proof.
  unfold width_of. destruct (find_wire (wires nl) w) as [x|] eqn:E; [|lia].
  apply find_wire_In in E. destruct E as [Hin _].
  rewrite forallb_forall in Hwidths. specialize (Hwidths x Hin). lia.
Qed.

Lemma mem_read_agree st mv m a :
  (forall m a, smems st m a = assoc_d (mv m) a dflt) ->
  mem_read nl st m a = sim_mem_read nl dflt mv m a.
Proof.
  intros H. unfold mem_read, sim_mem_read.
  destruct (find_mem (mems nl) m) as [mm|]; [destruct (mrom mm)|]; rewrite ?sx_mem_get_spec; auto.
Qed.

Lemma argvals_agree rdy v v' n :
  Agree rdy v v' -> forallb (fun a => mem_in a rdy) (nargs n) = true ->
  argvals nl v n = argvals nl v' n /\ map v (nargs n) = map v' (nargs n)
  /\ (forall x w, In (x, w) (argvals nl v n) -> 0 <= w /\ inrange x w).
Proof.
  intros HA Hall. rewrite forallb_forall in Hall. unfold argvals.
  assert (Hp : forall a, In a (nargs n) -> v a = v' a /\ inrange (v a) (width_of nl a)).
  { intros a Ha. apply HA. apply mem_in_In. apply Hall. assumption. }
  split; [|split].
  - apply map_ext_in. intros a Ha. destruct (Hp a Ha) as [-> _]. reflexivity.
  - apply map_ext_in. intros a Ha. destruct (Hp a Ha) as [-> _]. reflexivity.
  - intros x w Hin. apply in_map_iff in Hin. destruct Hin as [a [Heq Ha]].
    injection Heq as <- <-. split; [apply width_nonneg|apply Hp; assumption].
Qed.

Lemma arg0_in rdy n : forallb (fun a => mem_in a rdy) (nargs n) = true ->
  (1 <= length (nargs n))%nat -> In (arg n 0) rdy.
Proof.
  intros Hall Hlen. unfold arg. destruct (nargs n) as [|a r]; [simpl in Hlen; lia|].
  simpl in *. apply andb_true_iff in Hall. apply mem_in_In. apply Hall.
Qed.

(* the value both sides assign to the destination of a combinational net *)
Lemma exec_dest_agree st mv rdy v v' n :
  (forall m a, smems st m a = assoc_d (mv m) a dflt) ->
  Agree rdy v v' -> net_ok rdy n = true -> is_comb (nop n) = true ->
  exists r, exec_spec nl st v n = upd v (ndest n) r
            /\ execute nl dflt mv v' n = upd v' (ndest n) r
            /\ inrange r (width_of nl (ndest n)).
Proof.
  intros Hm HA Hok Hc. unfold net_ok in Hok. rewrite Hc in Hok.
  apply andb_true_iff in Hok. destruct Hok as [Hok Hop].
  apply andb_true_iff in Hok. destruct Hok as [Hok Har].
  apply andb_true_iff in Hok. destruct Hok as [Hargs Hfresh].
  destruct (argvals_agree rdy v v' n HA Hargs) as [Hav [Hmv Hrange]].
  pose proof (width_nonneg (ndest n)) as Hwd.
  unfold exec_spec, execute. rewrite Hav in *. clear Hmv.
  destruct (nop n) eqn:Eop; try discriminate Hc.
  (* the table ops whose Python computation is literally the documented function *)
  all: try (
    unfold argvals in *; unfold op_ok in Hop; rewrite Eop in Hop;
    destruct (nargs n) as [|a0 [|a1 [|a2 [|a3 rest]]]] eqn:Eargs; try discriminate Har;
    cbn [map op_spec simple_func] in *;
    eexists; split; [reflexivity|]; split;
    [ rewrite sx_sanitize_spec; rewrite sanitize_mod by assumption; reflexivity
    | apply mod_range; assumption ]).
  - (* OpNot *)
    unfold argvals in *; unfold op_ok in Hop; rewrite Eop in Hop.
    destruct (nargs n) as [|a0 [|a1 rest]] eqn:Eargs; try discriminate Har.
    cbn [map op_spec simple_func] in *.
    eexists; split; [reflexivity|]; split; [|apply mod_range; assumption].
    f_equal. unfold arg in Hop. rewrite Eargs in Hop. simpl in Hop.
    rewrite sx_sanitize_spec. apply not_correct. lia.
  - (* OpNand *)
    unfold argvals in *; unfold op_ok in Hop; rewrite Eop in Hop.
    destruct (nargs n) as [|a0 [|a1 [|a2 rest]]] eqn:Eargs; try discriminate Har.
    cbn [map op_spec simple_func] in *.
    eexists; split; [reflexivity|]; split; [|apply mod_range; assumption].
    f_equal. unfold arg in Hop. rewrite Eargs in Hop. simpl in Hop.
    rewrite sx_sanitize_spec. apply not_correct. lia.
  - (* OpConcat *)
    eexists; split; [reflexivity|]; split; [|apply mod_range; assumption].
    f_equal. rewrite sx_sanitize_spec. rewrite sanitize_mod by assumption.
    rewrite sim_concat_spec by assumption. reflexivity.
  - (* OpSelect *)
    unfold argvals in *; unfold op_ok in Hop; rewrite Eop in Hop.
    destruct (nargs n) as [|a0 [|a1 rest]] eqn:Eargs; try discriminate Har.
    cbn [map op_spec] in *.
    eexists; split; [reflexivity|]; split; [|apply mod_range; assumption].
    f_equal. rewrite sx_select_src_arg_spec. unfold arg. rewrite Eargs. cbn [nth].
    rewrite sx_sanitize_spec. rewrite sanitize_mod by assumption. rewrite sim_select_spec; [reflexivity|].
    intros i Hi. rewrite forallb_forall in Hop. specialize (Hop i Hi). lia.
  - (* OpMemRd *)
    eexists; split; [reflexivity|]; split; [|apply mod_range; assumption].
    f_equal. rewrite sx_mem_read_addr_arg_spec.
    rewrite sx_sanitize_spec. rewrite sanitize_mod by assumption.
    assert (Ha0 : v (arg n 0) = v' (arg n 0)).
    { apply HA. apply arg0_in; [assumption|].
      simpl in Har. apply Nat.eqb_eq in Har. lia. }
    rewrite <- Ha0. rewrite (mem_read_agree st mv) by assumption. reflexivity.
Qed.

Lemma exec_agree st mv rdy v v' n :
  (forall m a, smems st m a = assoc_d (mv m) a dflt) ->
  Agree rdy v v' -> net_ok rdy n = true ->
  Agree (rdy_next rdy n) (exec_spec nl st v n) (execute nl dflt mv v' n).
Proof.
  intros Hm HA Hok. unfold rdy_next. destruct (is_comb (nop n)) eqn:Hc.
  - destruct (exec_dest_agree st mv rdy v v' n Hm HA Hok Hc) as [r [E1 [E2 Hr]]].
    rewrite E1, E2. unfold net_ok in Hok. rewrite Hc in Hok.
    assert (Hfresh : ~ In (ndest n) rdy).
    { intro Hin. apply mem_in_In in Hin. rewrite Hin in Hok.
      rewrite andb_false_r in Hok. simpl in Hok. discriminate. }
    intros w [<-|Hin].
    + rewrite !upd_same. split; [reflexivity|assumption].
    + assert (w <> ndest n) by (intro; subst; contradiction).
      rewrite !upd_other by assumption. apply HA. assumption.
  - unfold exec_spec, execute. destruct (nop n); try discriminate Hc; assumption.
Qed.

Lemma comb_agree st mv : forall ns rdy v v',
  (forall m a, smems st m a = assoc_d (mv m) a dflt) ->
  Agree rdy v v' -> nets_ok rdy ns = true ->
  Agree (fold_left rdy_next ns rdy)
        (fold_left (exec_spec nl st) ns v) (fold_left (execute nl dflt mv) ns v').
Proof.
  induction ns as [|n r IH]; intros rdy v v' Hm HA Hok; simpl; [assumption|].
  simpl in Hok. apply andb_true_iff in Hok. destruct Hok as [Hn Hr].
  apply IH; [assumption| |assumption]. apply exec_agree; assumption.
Qed.

Hypothesis Hconsts :
  forallb (fun x => match wkind x with
                    | KConst c => inrangeb c (wwidth x)
                    | _ => true
                    end) (wires nl) = true.

Lemma base_agree st sst ins :
  R st sst -> legal_ins ins -> legal_regs (sregs st) ->
  Agree rdy0 (base_val nl dflt st ins)
    (fun w => if is_reg nl w then regvalue sst w
              else if is_input nl w then ins w else value sst w).
Proof.
  intros [HR1 [HR2 HR3]] Hins Hregs w Hin.
  unfold rdy0 in Hin. apply filter_In in Hin. destruct Hin as [_ Hb].
  unfold is_base in Hb. unfold base_val, is_reg, is_input, kind_of.
  destruct (find_wire (wires nl) w) as [x|] eqn:E; [|discriminate].
  pose proof (find_wire_In _ _ _ E) as [Hx _].
  destruct (wkind x) eqn:Ek; try discriminate.
  - (* input *) split; [reflexivity|]. apply Hins. unfold is_input, kind_of. rewrite E, Ek. reflexivity.
  - (* const *) split.
    + symmetry. apply HR3. unfold kind_of. rewrite E. assumption.
    + rewrite forallb_forall in Hconsts. specialize (Hconsts x Hx). rewrite Ek in Hconsts.
      apply inrangeb_spec in Hconsts. unfold width_of. rewrite E. assumption.
  - (* reg *) split; [apply HR1|]. apply Hregs. unfold is_reg, kind_of. rewrite E, Ek. reflexivity.
Qed.

Lemma regs_agree v v' : forall ns rg rv,
  (forall n, In n ns -> nop n = OpReg -> v (arg n 0) = v' (arg n 0)) ->
  (forall r, rg r = rv r) ->
  forall r, fold_left (regnext_spec nl v) ns rg r = fold_left (reg_update nl v') ns rv r.
Proof.
  induction ns as [|n rest IH]; intros rg rv Hv Heq r; simpl; [apply Heq|].
  apply IH; [intros; apply Hv; [right|]; assumption|].
  intros r'. unfold regnext_spec, reg_update. destruct (nop n) eqn:E; try apply Heq.
  rewrite sx_reg_capture_spec. rewrite sanitize_mod by apply width_nonneg.
  rewrite (Hv n (or_introl eq_refl) E). unfold upd. destruct (r' =? ndest n); [reflexivity|apply Heq].
Qed.

Lemma regs_legal v : forall ns rg,
  legal_regs rg -> legal_regs (fold_left (regnext_spec nl v) ns rg).
Proof.
  induction ns as [|n rest IH]; intros rg H; simpl; [assumption|].
  apply IH. unfold regnext_spec. destruct (nop n); try assumption.
  intros w Hw. unfold upd. destruct (w =? ndest n) eqn:E.
  - assert (w = ndest n) by lia. subst. apply mod_range. apply width_nonneg.
  - apply H. assumption.
Qed.

Lemma mems_agree v v' : forall ns ms mv,
  (forall n m, In n ns -> nop n = OpMemWr m ->
     v (arg n 0) = v' (arg n 0) /\ v (arg n 1) = v' (arg n 1) /\ v (arg n 2) = v' (arg n 2)) ->
  (forall m a, ms m a = assoc_d (mv m) a dflt) ->
  forall m a, fold_left (write_spec v) ns ms m a
              = assoc_d (fold_left (mem_update v') ns mv m) a dflt.
Proof.
  induction ns as [|n rest IH]; intros ms mv Hv Heq m a; simpl; [apply Heq|].
  apply IH; [intros; eapply Hv; [right|]; eassumption|].
  intros m' a'. unfold write_spec, mem_update. destruct (nop n) eqn:E; try apply Heq.
  destruct (Hv n m0 (or_introl eq_refl) E) as [H0 [H1 H2]]. rewrite <- H0, <- H1, <- H2.
  cbv zeta. rewrite sx_mem_write_cond_spec, sx_mem_write_addr_spec, sx_mem_write_data_spec.
  destruct (v (arg n 2) =? 0); cbn [negb]; [apply Heq|].
  unfold upd. destruct (m' =? m0) eqn:Em; [|apply Heq].
  unfold assoc_d, dict_set. simpl. rewrite (Z.eqb_sym a').
  destruct (v (arg n 0) =? a') eqn:Ea; [reflexivity|].
  assert (m' = m0) by lia. subst. specialize (Heq m0 a'). unfold assoc_d in Heq. exact Heq.
Qed.

Hypothesis Hnets : nets_ok rdy0 (nets nl) = true.
Hypothesis Hseq :
  forallb (fun n => if is_comb (nop n) then true
                    else forallb (fun a => mem_in a rdy_final) (nargs n)
                         && arity_ok (nop n) (length (nargs n))) (nets nl) = true.

Lemma nth_in_args n (i : nat) : (i < length (nargs n))%nat -> In (arg n i) (nargs n).
Proof. intros. unfold arg. apply nth_In. assumption. Qed.

Theorem step_refines st sst ins :
  R st sst -> legal_ins ins -> legal_regs (sregs st) ->
  let '(v, st') := step nl dflt st ins in
  let '(v', sst') := sim_step nl dflt sst ins in
  Agree rdy_final v v' /\ R st' sst' /\ legal_regs (sregs st').
Proof.
  intros HR Hins Hregs. unfold step, sim_step.
  set (v0 := base_val nl dflt st ins).
  set (v0' := fun w => if is_reg nl w then regvalue sst w
                       else if is_input nl w then ins w else value sst w).
  pose proof (base_agree st sst ins HR Hins Hregs) as HA0. fold v0 v0' in HA0.
  destruct HR as [HR1 [HR2 HR3]].
  pose proof (comb_agree st (memvalue sst) (nets nl) rdy0 v0 v0' HR2 HA0 Hnets) as HA.
  fold rdy_final in HA. unfold comb. fold v0.
  set (v := fold_left (exec_spec nl st) (nets nl) v0) in *.
  set (v' := fold_left (execute nl dflt (memvalue sst)) (nets nl) v0') in *.
  assert (Hseqargs : forall n, In n (nets nl) -> is_comb (nop n) = false ->
            forall i, (i < length (nargs n))%nat -> v (arg n i) = v' (arg n i)).
  { intros n Hn Hc i Hi. rewrite forallb_forall in Hseq. specialize (Hseq n Hn).
    rewrite Hc in Hseq. apply andb_true_iff in Hseq. destruct Hseq as [Hs _].
    rewrite forallb_forall in Hs. apply HA. apply mem_in_In. apply Hs.
    apply nth_in_args. assumption. }
  assert (Harity : forall n, In n (nets nl) -> is_comb (nop n) = false ->
            arity_ok (nop n) (length (nargs n)) = true).
  { intros n Hn Hc. rewrite forallb_forall in Hseq. specialize (Hseq n Hn).
    rewrite Hc in Hseq. apply andb_true_iff in Hseq. apply Hseq. }
  split; [exact HA|]. split; [|apply regs_legal; assumption].
  split; [|split]; cbn [sregs smems regvalue memvalue value].
  - apply regs_agree; [|assumption]. intros n Hn E.
    assert (Hc : is_comb (nop n) = false) by (rewrite E; reflexivity).
    apply Hseqargs; [assumption|assumption|].
    specialize (Harity n Hn Hc). rewrite E in Harity. simpl in Harity.
    apply Nat.eqb_eq in Harity. lia.
  - apply mems_agree; [|assumption]. intros n m Hn E.
    assert (Hc : is_comb (nop n) = false) by (rewrite E; reflexivity).
    specialize (Harity n Hn Hc). rewrite E in Harity. simpl in Harity.
    apply Nat.eqb_eq in Harity.
    repeat split; apply Hseqargs; try assumption; lia.
  - (* constants keep their value: they are ready from the start and never a destination *)
    intros w c Hk.
    assert (Hin0 : forall x, In x (wires nl) -> wname x = w -> True) by auto.
    unfold kind_of in Hk. destruct (find_wire (wires nl) w) as [x|] eqn:E; [|discriminate].
    destruct (find_wire_In _ _ _ E) as [Hx Hn].
    assert (Hb : In w rdy0).
    { unfold rdy0. apply filter_In. split.
      - apply in_map_iff. exists x. split; assumption.
      - unfold is_base. rewrite E, Hk. reflexivity. }
    assert (Hsub : forall ns rdy, In w rdy -> In w (fold_left rdy_next ns rdy)).
    { induction ns as [|n r IH]; intros rdy Hin; simpl; [assumption|].
      apply IH. unfold rdy_next. destruct (is_comb (nop n)); [right|]; assumption. }
    destruct (HA w (Hsub _ _ Hb)) as [<- _].
    (* v w = c : w is in rdy0 so no net overwrites it *)
    assert (Hkeep : forall ns rdy u, In w rdy -> nets_ok rdy ns = true ->
              fold_left (exec_spec nl st) ns u w = u w).
    { induction ns as [|n r IH]; intros rdy u Hin Hok; simpl; [reflexivity|].
      simpl in Hok. apply andb_true_iff in Hok. destruct Hok as [Hn1 Hr].
      rewrite (IH (rdy_next rdy n)); [| |assumption].
      - unfold exec_spec. unfold net_ok in Hn1.
        destruct (is_comb (nop n)) eqn:Hc.
        + assert (Hne : w <> ndest n).
          { intro Heq. rewrite Heq in Hin. apply mem_in_In in Hin. rewrite Hin in Hn1.
            rewrite andb_false_r in Hn1. simpl in Hn1. discriminate. }
          destruct (nop n); try reflexivity;
            try (destruct (op_spec _ _); [apply upd_other; assumption|reflexivity]);
            apply upd_other; assumption.
        + destruct (nop n); try discriminate Hc; reflexivity.
      - unfold rdy_next. destruct (is_comb (nop n)); [right|]; assumption. }
    unfold v. rewrite (Hkeep _ rdy0) by assumption.
    unfold v0, base_val. rewrite E, Hk. reflexivity.
Qed.

End Correct.

(* ---- packaged statements ------------------------------------------------ *)

Lemma wfb_parts nl : wfb nl = true ->
  forallb (fun x => 0 <=? wwidth x) (wires nl) = true
  /\ forallb (fun x => match wkind x with
                       | KConst c => inrangeb c (wwidth x)
                       | _ => true
                       end) (wires nl) = true
  /\ nets_ok nl (rdy0 nl) (nets nl) = true
  /\ forallb (fun n => if is_comb (nop n) then true
                       else forallb (fun a => mem_in a (rdy_final nl)) (nargs n)
                            && arity_ok (nop n) (length (nargs n))) (nets nl) = true
  /\ forallb (fun x => mem_in (wname x) (rdy_final nl)) (wires nl) = true.
Proof.
  unfold wfb. intros H.
  repeat (apply andb_true_iff in H; destruct H as [H ?]). auto.
Qed.

Theorem step_refines_wf nl dflt st sst ins :
  wfb nl = true ->
  R nl dflt st sst -> legal_ins nl ins -> legal_regs nl (sregs st) ->
  let '(v, st') := step nl dflt st ins in
  let '(v', sst') := sim_step nl dflt sst ins in
  (forall x, In x (wires nl) ->
     v' (wname x) = v (wname x) /\ inrange (v' (wname x)) (width_of nl (wname x)))
  /\ R nl dflt st' sst' /\ legal_regs nl (sregs st').
Proof.
  intros Hwf HR Hi Hr. destruct (wfb_parts nl Hwf) as [H1 [H2 [H3 [H4 H5]]]].
  pose proof (step_refines nl dflt H1 H2 H3 H4 st sst ins HR Hi Hr) as H.
  destruct (step nl dflt st ins) as [v st'].
  destruct (sim_step nl dflt sst ins) as [v' sst'].
  destruct H as [HA [HR' HL]]. split; [|auto].
  intros x Hx. rewrite forallb_forall in H5. specialize (H5 x Hx).
  apply mem_in_In in H5. destruct (HA _ H5) as [Heq Hrange].
  rewrite <- Heq. split; [reflexivity|assumption].
Qed.

(* every cycle of every input sequence *)
Definition wires_agree (nl : netlist) (v v' : wid -> Z) : Prop :=
  forall x, In x (wires nl) ->
    v' (wname x) = v (wname x) /\ inrange (v' (wname x)) (width_of nl (wname x)).

Theorem run_refines nl dflt : wfb nl = true ->
  forall inss st sst,
  R nl dflt st sst -> Forall (legal_ins nl) inss -> legal_regs nl (sregs st) ->
  let '(vs, st') := run nl dflt st inss in
  let '(vs', sst') := sim_run nl dflt sst inss in
  Forall2 (wires_agree nl) vs vs' /\ R nl dflt st' sst' /\ legal_regs nl (sregs st').
Proof.
  intros Hwf. induction inss as [|ins rest IH]; intros st sst HR Hins Hregs; cbn [run sim_run].
  - auto.
  - inversion Hins as [|? ? Hi Hrest]; subst.
    pose proof (step_refines_wf nl dflt st sst ins Hwf HR Hi Hregs) as Hs.
    destruct (step nl dflt st ins) as [v st1].
    destruct (sim_step nl dflt sst ins) as [v' sst1].
    destruct Hs as [Hv [HR1 HL1]].
    specialize (IH st1 sst1 HR1 Hrest HL1).
    destruct (run nl dflt st1 rest) as [vs st2].
    destruct (sim_run nl dflt sst1 rest) as [vs' sst2].
    destruct IH as [Hvs [HR2 HL2]]. cbv iota beta.
    split; [constructor; assumption|auto].
Qed.

(* the regenerated register rule of _initialize is the documented priority:
   register_value_map, else reset_value, else default_value *)
Lemma sx_init_reg_spec nl dflt regmap w :
  sx_init_reg (assoc regmap w) (reset_of nl w) dflt = init_reg nl dflt regmap w.
Proof.
  unfold sx_init_reg, init_reg, reset_of.
  destruct (assoc regmap w) as [v|]; [reflexivity|].
  destruct (kind_of nl w) as [| | |c|[r|]]; reflexivity.
Qed.

Lemma sx_init_mem_spec (memmap : list (Z * list (Z * Z))) m a dflt :
  assoc_d (sx_init_mem (match find (fun p => fst p =? m) memmap with Some (_, d) => Some d | None => None end)) a dflt
  = match find (fun p => fst p =? m) memmap with Some (_, d) => assoc_d d a dflt | None => dflt end.
Proof. destruct (find (fun p => fst p =? m) memmap) as [[k d]|]; reflexivity. Qed.

(* the initial state built by _initialize is related to the reference initial state *)
Lemma init_related nl dflt regmap memmap :
  R nl dflt (init_state nl dflt regmap memmap) (sim_init nl dflt regmap memmap).
Proof.
  unfold R, init_state, sim_init. cbn [sregs smems regvalue memvalue value].
  split; [intro r; symmetry; apply sx_init_reg_spec|]. split.
  - intros m a. destruct (find (fun p => fst p =? m) memmap) as [[k d]|]; reflexivity.
  - intros w c Hk. rewrite Hk. reflexivity.
Qed.

Definition legal_init (nl : netlist) (dflt : Z) (regmap : list (Z * Z)) : Prop :=
  forall w, is_reg nl w = true -> inrange (init_reg nl dflt regmap w) (width_of nl w).

Theorem sim_refines_spec nl dflt regmap memmap inss :
  wfb nl = true -> legal_init nl dflt regmap -> Forall (legal_ins nl) inss ->
  Forall2 (wires_agree nl)
    (fst (run nl dflt (init_state nl dflt regmap memmap) inss))
    (fst (sim_run nl dflt (sim_init nl dflt regmap memmap) inss)).
Proof.
  intros Hwf Hinit Hins.
  pose proof (run_refines nl dflt Hwf inss _ _ (init_related nl dflt regmap memmap) Hins Hinit) as H.
  destruct (run nl dflt (init_state nl dflt regmap memmap) inss) as [vs st'].
  destruct (sim_run nl dflt (sim_init nl dflt regmap memmap) inss) as [vs' sst'].
  apply H.
Qed.
