(* C02 (CompiledSimulation): the whole-design model of the emitted C program refines the
   reference semantics, assembling the per-builder theorems of Sim/CLimb*.v. *)
From PyRTL Require Import Sim.CEmitModel Sim.CLimbProofs Sim.CLimbMul Sim.CLimbConcat.
From PyRTL Require Import Sim.SimModel Sim.SimCorrect Sim.FastModel Sim.FastModelProofs.
From Coq Require Import ZifyBool.

(* ---- small facts about limb arrays ------------------------------------------------------- *)

Lemma rd0_value w l : 0 <= w <= 64 -> limbs_ok w l -> rd l 0 = limbs_to_Z l.
Proof.
  intros Hw [Hlen _]. pose proof (nlimbs_bounds w ltac:(lia)) as Hb.
  destruct l as [|x [|y r]]; cbn [length] in Hlen.
  - reflexivity.
  - unfold rd. cbn. lia.
  - lia.
Qed.

Lemma map_rd_self l : map (rd l) (seq 0 (length l)) = l.
Proof.
  induction l as [|x l IH]; [reflexivity|].
  cbn [length seq map]. f_equal. rewrite <- seq_shift, map_map.
  rewrite <- IH at 2. apply map_ext. intros k. reflexivity.
Qed.

Lemma repeat0_inrange n : Forall (fun x => 0 <= x < 2 ^ 64) (repeat 0 n).
Proof. induction n as [|n IH]; cbn [repeat]; constructor; [lia|assumption]. Qed.

Lemma repeat0_value n : limbs_to_Z (repeat 0 n) = 0.
Proof. induction n as [|n IH]; [reflexivity|]. cbn [repeat]. rewrite limbs_to_Z_cons, IH. lia. Qed.

Lemma zeros_ok w : 0 <= w -> limbs_ok w (repeat 0 (nlimbs w)) /\ limbs_to_Z (repeat 0 (nlimbs w)) = 0.
Proof.
  intros Hw. pose proof (repeat0_value (nlimbs w)) as Hv. split; [|exact Hv].
  split; [apply repeat_length|]. split; [apply repeat0_inrange|].
  rewrite Hv. pose proof (pow2_pos w Hw). lia.
Qed.

Lemma bool_limb_ok b : limbs_ok 1 [b2z b] /\ limbs_to_Z [b2z b] = b2z b.
Proof.
  split.
  - split; [reflexivity|]. split.
    + constructor; [|constructor]. destruct b; cbn; lia.
    + cbn. destruct b; cbn; lia.
  - cbn. lia.
Qed.

Section Correct.
Variable nl : netlist.
Variable dflt : Z.
Hypothesis Hwidths : forallb (fun x => 0 <=? wwidth x) (wires nl) = true.
Hypothesis Hconsts :
  forallb (fun x => match wkind x with
                    | KConst c => inrangeb c (wwidth x)
                    | _ => true
                    end) (wires nl) = true.
Hypothesis Hmems : c_mems_ok nl = true.

Local Notation wof := (width_of nl).

Definition CAgree (rdy : list wid) (v : wid -> Z) (cv : wid -> list Z) : Prop :=
  forall w, In w rdy -> limbs_ok (wof w) (cv w) /\ limbs_to_Z (cv w) = v w.

(* the memory word the hash map holds at an address *)
Definition c_memval (mv : Z -> list (Z * list Z)) (m a : Z) : list Z :=
  match lassoc (mv m) a with
  | Some v => v
  | None => repeat 0 (nlimbs (mem_dataw nl m))
  end.

Definition RCmem (st : state) (mv : Z -> list (Z * list Z)) : Prop :=
  forall m a, limbs_ok (mem_dataw nl m) (c_memval mv m a)
              /\ limbs_to_Z (c_memval mv m a) = smems st m a.

Definition RC (st : state) (cs : cstate) : Prop :=
  (forall r, is_reg nl r = true ->
     limbs_ok (wof r) (cregs cs r) /\ limbs_to_Z (cregs cs r) = sregs st r)
  /\ RCmem st (cmems cs).

Lemma wnn w : 0 <= wof w.
Proof. apply width_nonneg. assumption. Qed.

Lemma mem_dataw_nonneg m : 0 <= mem_dataw nl m.
Proof.
  unfold mem_dataw. destruct (find_mem (mems nl) m) as [mm|] eqn:E; [|lia].
  unfold c_mems_ok in Hmems. rewrite forallb_forall in Hmems.
  assert (Hin : In mm (mems nl)).
  { clear Hmems. induction (mems nl) as [|y r IH]; simpl in E; [discriminate|].
    destruct (mid y =? m); [injection E as <-; left; reflexivity|right; apply IH; assumption]. }
  specialize (Hmems mm Hin). apply andb_true_iff in Hmems. lia.
Qed.

(* lookup(...) yields a well-formed word holding what the reference memory holds *)
Lemma c_lookup_spec st mv m a :
  RCmem st mv -> (match find_mem (mems nl) m with Some _ => true | None => false end) = true ->
  limbs_ok (mem_dataw nl m) (c_lookup nl mv m a) /\ limbs_to_Z (c_lookup nl mv m a) = mem_read nl st m a.
Proof.
  intros HR Hdecl. unfold c_lookup, mem_read.
  destruct (find_mem (mems nl) m) as [mm|] eqn:E; [|discriminate].
  assert (Hdw : mem_dataw nl m = mdataw mm) by (unfold mem_dataw; rewrite E; reflexivity).
  destruct (mrom mm) as [data|] eqn:Er.
  - rewrite Hdw. unfold c_ini. apply c_pack_ok.
    + rewrite <- Hdw. apply mem_dataw_nonneg.
    + unfold rom_read, assoc_d.
      assert (Hin : In mm (mems nl)).
      { clear -E. induction (mems nl) as [|y r IH]; simpl in E; [discriminate|].
        destruct (mid y =? m); [injection E as <-; left; reflexivity|right; apply IH; assumption]. }
      unfold c_mems_ok in Hmems. rewrite forallb_forall in Hmems. specialize (Hmems mm Hin).
      apply andb_true_iff in Hmems. destruct Hmems as [Hw Hd]. rewrite Er in Hd.
      rewrite forallb_forall in Hd.
      destruct (assoc data a) as [v|] eqn:Ea.
      * assert (Hv : In (a, v) data \/ True) by (right; exact I).
        assert (Hin2 : exists k, In (k, v) data).
        { clear -Ea. induction data as [|[k' v'] r IH]; simpl in Ea; [discriminate|].
          destruct (k' =? a); [injection Ea as <-; exists k'; left; reflexivity|].
          destruct (IH Ea) as [k Hk]. exists k. right. assumption. }
        destruct Hin2 as [k Hk]. specialize (Hd (k, v) Hk). cbn [snd] in Hd.
        apply inrangeb_spec in Hd. exact Hd.
      * pose proof (pow2_pos (mdataw mm) ltac:(lia)). lia.
  - destruct (HR m a) as [H1 H2]. unfold c_memval in H1, H2. rewrite Hdw in *.
    destruct (lassoc (mv m) a); auto.
Qed.

Lemma cargs_spec rdy v cv : CAgree rdy v cv -> forall l,
  forallb (fun a => mem_in a rdy) l = true ->
  Forall (fun wa => 0 <= fst wa /\ limbs_ok (fst wa) (snd wa)) (map (fun a => (wof a, cv a)) l)
  /\ cat_vals (map (fun a => (wof a, cv a)) l) = map (fun a => (v a, wof a)) l
  /\ cat_total (map (fun a => (wof a, cv a)) l) = fold_right (fun a acc => wof a + acc) 0 l.
Proof.
  intros HA. induction l as [|a l IH]; intros Hall.
  - cbn. repeat split. constructor.
  - cbn [forallb] in Hall. apply andb_true_iff in Hall. destruct Hall as [Ha Hl].
    destruct (IH Hl) as [I1 [I2 I3]]. apply mem_in_In in Ha. destruct (HA a Ha) as [Hok Hval].
    cbn [map]. split; [constructor; [cbn [fst snd]; split; [apply wnn|assumption]|assumption]|].
    split.
    + cbn [cat_vals map fst snd]. fold (cat_vals (map (fun a0 => (wof a0, cv a0)) l)).
      rewrite I2, Hval. reflexivity.
    + cbn [cat_total fold_right fst]. fold (cat_total (map (fun a0 => (wof a0, cv a0)) l)).
      rewrite I3. reflexivity.
Qed.

(* the value both sides assign to the destination of a combinational net *)
Lemma c_dest_agree st mv rdy v cv n :
  RCmem st mv -> CAgree rdy v cv ->
  net_ok nl rdy n = true -> c_op_ok nl n = true -> is_comb (nop n) = true ->
  exists r l, exec_spec nl st v n = upd v (ndest n) r
              /\ c_exec nl mv cv n = upd cv (ndest n) l
              /\ limbs_ok (wof (ndest n)) l /\ limbs_to_Z l = r.
Proof.
  intros HRm HA Hok Hcok Hc. unfold net_ok in Hok. rewrite Hc in Hok.
  apply andb_true_iff in Hok. destruct Hok as [Hok Hop].
  apply andb_true_iff in Hok. destruct Hok as [Hok Har].
  apply andb_true_iff in Hok. destruct Hok as [Hargs Hfresh].
  pose proof (wnn (ndest n)) as Hwd. set (wd := wof (ndest n)) in *.
  assert (Harg : forall a, In a (nargs n) ->
            0 <= wof a /\ limbs_ok (wof a) (cv a) /\ limbs_to_Z (cv a) = v a).
  { intros a Ha. rewrite forallb_forall in Hargs. specialize (Hargs a Ha). apply mem_in_In in Hargs.
    destruct (HA a Hargs). split; [apply wnn|]. split; assumption. }
  unfold exec_spec, c_exec, c_op_ok, op_ok in *. fold wd in Hcok, Hop |- *.
  destruct (nop n) eqn:Eop; try discriminate Hc; cbn [arity_ok] in Har.
  (* unary / binary / ternary shapes *)
  all: try (apply Nat.eqb_eq in Har).
  all: unfold argvals, arg in *.
  all: try (match type of Har with length _ = _ => idtac end;
            destruct (nargs n) as [|a0 [|a1 [|a2 [|a3 rest]]]] eqn:Eargs; try discriminate Har;
            cbn [map nth op_spec] in *).
  all: try (destruct (Harg a0 (or_introl eq_refl)) as [W0 [K0 V0]]).
  all: try (destruct (Harg a1 (or_intror (or_introl eq_refl))) as [W1 [K1 V1]]).
  all: try (destruct (Harg a2 (or_intror (or_intror (or_introl eq_refl)))) as [W2 [K2 V2]]).
  - (* w *) destruct (c_wire_correct (wof a0) (cv a0) wd K0 ltac:(lia)) as [R1 R2].
    do 2 eexists. split; [reflexivity|]. split; [reflexivity|]. split; [exact R1|]. rewrite R2, V0. reflexivity.
  - (* ~ *) destruct (c_not_correct (wof a0) (cv a0) wd K0 ltac:(lia)) as [R1 R2].
    do 2 eexists. split; [reflexivity|]. split; [reflexivity|]. split; [exact R1|]. rewrite R2, V0. reflexivity.
  - (* & *) destruct (c_bitwise_correct Z.land (wof a0) (cv a0) (wof a1) (cv a1) wd
                       (or_introl eq_refl) W0 W1 K0 K1 Hwd) as [R1 R2].
    do 2 eexists. split; [reflexivity|]. split; [reflexivity|]. split; [exact R1|]. rewrite R2, V0, V1. reflexivity.
  - (* | *) destruct (c_bitwise_correct Z.lor (wof a0) (cv a0) (wof a1) (cv a1) wd
                       (or_intror (or_introl eq_refl)) W0 W1 K0 K1 Hwd) as [R1 R2].
    do 2 eexists. split; [reflexivity|]. split; [reflexivity|]. split; [exact R1|]. rewrite R2, V0, V1. reflexivity.
  - (* ^ *) destruct (c_bitwise_correct Z.lxor (wof a0) (cv a0) (wof a1) (cv a1) wd
                       (or_intror (or_intror eq_refl)) W0 W1 K0 K1 Hwd) as [R1 R2].
    do 2 eexists. split; [reflexivity|]. split; [reflexivity|]. split; [exact R1|]. rewrite R2, V0, V1. reflexivity.
  - (* nand *) destruct (c_nand_correct (wof a0) (cv a0) (wof a1) (cv a1) wd W0 W1 K0 K1 ltac:(lia)) as [R1 R2].
    do 2 eexists. split; [reflexivity|]. split; [reflexivity|]. split; [exact R1|]. rewrite R2, V0, V1. reflexivity.
  - (* + *) destruct (c_add_correct (wof a0) (cv a0) (wof a1) (cv a1) wd W0 W1 K0 K1 Hwd) as [R1 R2].
    do 2 eexists. split; [reflexivity|]. split; [reflexivity|]. split; [exact R1|]. rewrite R2, V0, V1. reflexivity.
  - (* - *) destruct (c_sub_correct (wof a0) (cv a0) (wof a1) (cv a1) wd W0 W1 K0 K1 Hwd) as [R1 R2].
    do 2 eexists. split; [reflexivity|]. split; [reflexivity|]. split; [exact R1|]. rewrite R2, V0, V1. reflexivity.
  - (* * *) destruct (c_mul_correct (wof a0) (cv a0) (wof a1) (cv a1) wd W0 W1 K0 K1 Hwd) as [R1 R2].
    do 2 eexists. split; [reflexivity|]. split; [reflexivity|]. split; [exact R1|]. rewrite R2, V0, V1. reflexivity.
  - (* < *) assert (wd = 1) by lia.
    pose proof (c_lt_correct (wof a0) (cv a0) (wof a1) (cv a1) W0 W1 K0 K1) as R2.
    unfold c_cmp in *. destruct (bool_limb_ok (c_cmp_cond Z.ltb (getarglimb (wof a0) (cv a0))
       (getarglimb (wof a1) (cv a1)) (Nat.max (nlimbs (wof a0)) (nlimbs (wof a1))))) as [B1 B2].
    do 2 eexists. split; [reflexivity|]. split; [reflexivity|]. replace wd with 1 by lia.
    split; [exact B1|]. rewrite R2, V0, V1. change (2 ^ 1) with 2. unfold b2z. destruct (v a0 <? v a1); reflexivity.
  - (* > *) assert (wd = 1) by lia.
    pose proof (c_gt_correct (wof a0) (cv a0) (wof a1) (cv a1) W0 W1 K0 K1) as R2.
    unfold c_cmp in *. destruct (bool_limb_ok (c_cmp_cond Z.gtb (getarglimb (wof a0) (cv a0))
       (getarglimb (wof a1) (cv a1)) (Nat.max (nlimbs (wof a0)) (nlimbs (wof a1))))) as [B1 B2].
    do 2 eexists. split; [reflexivity|]. split; [reflexivity|]. replace wd with 1 by lia.
    split; [exact B1|]. rewrite R2, V0, V1. change (2 ^ 1) with 2. unfold b2z. destruct (v a0 >? v a1); reflexivity.
  - (* = *) assert (wd = 1) by lia.
    pose proof (c_eq_correct (wof a0) (cv a0) (wof a1) (cv a1) W0 W1 K0 K1) as R2.
    unfold c_eq in *. destruct (bool_limb_ok (forallb (fun k => getarglimb (wof a0) (cv a0) k =? getarglimb (wof a1) (cv a1) k)
       (seq 0 (Nat.max (nlimbs (wof a0)) (nlimbs (wof a1)))))) as [B1 B2].
    do 2 eexists. split; [reflexivity|]. split; [reflexivity|]. replace wd with 1 by lia.
    split; [exact B1|]. rewrite R2, V0, V1. change (2 ^ 1) with 2. unfold b2z. destruct (v a0 =? v a1); reflexivity.
  - (* x *) apply andb_true_iff in Hcok. destruct Hcok as [Hcok Hc2].
    apply andb_true_iff in Hcok. destruct Hcok as [Hc0 Hc1].
    assert (Hs1 : wof a0 = 1) by lia. rewrite Hs1 in K0.
    destruct (c_mux_correct (cv a0) (wof a1) (cv a1) (wof a2) (cv a2) wd K0 K1 K2 ltac:(lia) ltac:(lia)) as [R1 R2].
    do 2 eexists. split; [reflexivity|]. split; [reflexivity|]. split; [exact R1|]. rewrite R2, V0, V1, V2. reflexivity.
  - (* c *) destruct (cargs_spec rdy v cv HA (nargs n) Hargs) as [C1 [C2 C3]].
    destruct (c_concat_correct (cargs nl cv n) wd C1) as [R1 R2].
    { unfold cargs. rewrite C3. lia. }
    do 2 eexists. split; [reflexivity|]. split; [reflexivity|]. split; [exact R1|].
    rewrite R2. unfold cargs. rewrite C2. reflexivity.
  - (* s *) apply andb_true_iff in Hcok. destruct Hcok as [Hidx Hlen].
    destruct (c_select_correct (wof a0) (cv a0) idx wd W0 K0) as [R1 R2].
    { intros b Hb. rewrite forallb_forall in Hidx. specialize (Hidx b Hb). lia. }
    { lia. }
    do 2 eexists. split; [reflexivity|]. split; [reflexivity|]. split; [exact R1|]. rewrite R2, V0. reflexivity.
  - (* m *) apply andb_true_iff in Hcok. destruct Hcok as [Hcok Hdecl].
    apply andb_true_iff in Hcok. destruct Hcok as [Hc0 Hc1].
    destruct (c_lookup_spec st mv m (rd (cv a0) 0) HRm Hdecl) as [L1 L2].
    destruct (c_wire_correct (mem_dataw nl m) (c_lookup nl mv m (rd (cv a0) 0)) wd L1 ltac:(lia)) as [R1 R2].
    do 2 eexists. split; [reflexivity|]. split; [reflexivity|]. split; [exact R1|].
    rewrite R2, L2. rewrite (rd0_value (wof a0)) by (try assumption; lia). rewrite V0. reflexivity.
Qed.

Lemma c_exec_agree st mv rdy v cv n :
  RCmem st mv -> CAgree rdy v cv -> net_ok nl rdy n = true -> c_op_ok nl n = true ->
  CAgree (rdy_next rdy n) (exec_spec nl st v n) (c_exec nl mv cv n).
Proof.
  intros HRm HA Hok Hcok. unfold rdy_next. destruct (is_comb (nop n)) eqn:Hc.
  - destruct (c_dest_agree st mv rdy v cv n HRm HA Hok Hcok Hc) as [r [l [E1 [E2 [Hl Hv]]]]].
    rewrite E1, E2. unfold net_ok in Hok. rewrite Hc in Hok.
    assert (Hfresh : ~ In (ndest n) rdy).
    { intro Hin. apply mem_in_In in Hin. rewrite Hin in Hok.
      rewrite andb_false_r in Hok. simpl in Hok. discriminate. }
    intros w [<-|Hin].
    + rewrite !upd_same. split; assumption.
    + assert (w <> ndest n) by (intro; subst; contradiction).
      rewrite !upd_other by assumption. apply HA. assumption.
  - unfold exec_spec, c_exec. destruct (nop n); try discriminate Hc; assumption.
Qed.

Lemma c_comb_agree st mv : RCmem st mv -> forall ns rdy v cv,
  CAgree rdy v cv -> nets_ok nl rdy ns = true -> forallb (c_op_ok nl) ns = true ->
  CAgree (fold_left rdy_next ns rdy)
         (fold_left (exec_spec nl st) ns v) (fold_left (c_exec nl mv) ns cv).
Proof.
  intros HRm. induction ns as [|n r IH]; intros rdy v cv HA Hok Hcok; simpl; [assumption|].
  simpl in Hok, Hcok. apply andb_true_iff in Hok. destruct Hok as [Hn Hr].
  apply andb_true_iff in Hcok. destruct Hcok as [Hcn Hcr].
  apply IH; [|assumption|assumption]. apply c_exec_agree; assumption.
Qed.

Lemma c_base_agree st cs ins :
  RC st cs -> legal_ins nl ins ->
  CAgree (rdy0 nl) (base_val nl dflt st ins) (c_base nl cs ins).
Proof.
  intros [HR1 HR2] Hins w Hin.
  unfold rdy0 in Hin. apply filter_In in Hin. destruct Hin as [_ Hb].
  unfold is_base in Hb. unfold base_val, c_base, width_of.
  destruct (find_wire (wires nl) w) as [x|] eqn:E; [|discriminate].
  pose proof (find_wire_In _ _ _ E) as [Hx _].
  assert (Hwx : 0 <= wwidth x).
  { rewrite forallb_forall in Hwidths. specialize (Hwidths x Hx). lia. }
  destruct (wkind x) eqn:Ek; try discriminate.
  - (* input *) unfold c_ini. apply c_pack_ok; [assumption|].
    assert (Hi : is_input nl w = true) by (unfold is_input, kind_of; rewrite E, Ek; reflexivity).
    specialize (Hins w Hi). unfold width_of in Hins. rewrite E in Hins. exact Hins.
  - (* const *) unfold c_ini. apply c_pack_ok; [assumption|].
    rewrite forallb_forall in Hconsts. specialize (Hconsts x Hx). rewrite Ek in Hconsts.
    apply inrangeb_spec in Hconsts. exact Hconsts.
  - (* reg *) assert (Hr : is_reg nl w = true) by (unfold is_reg, kind_of; rewrite E, Ek; reflexivity).
    specialize (HR1 w Hr). unfold width_of in HR1. rewrite E in HR1. exact HR1.
Qed.

Lemma c_regs_agree v cv : forall ns rg crg,
  (forall n, In n ns -> nop n = OpReg ->
     limbs_ok (wof (arg n 0)) (cv (arg n 0)) /\ limbs_to_Z (cv (arg n 0)) = v (arg n 0)) ->
  (forall n, In n ns -> c_op_ok nl n = true) ->
  (forall r, is_reg nl r = true -> limbs_ok (wof r) (crg r) /\ limbs_to_Z (crg r) = rg r) ->
  forall r, is_reg nl r = true ->
    limbs_ok (wof r) (fold_left (c_regupd nl cv) ns crg r)
    /\ limbs_to_Z (fold_left (c_regupd nl cv) ns crg r) = fold_left (regnext_spec nl v) ns rg r.
Proof.
  induction ns as [|n rest IH]; intros rg crg Hv Hcok Heq r Hr; simpl; [apply Heq; assumption|].
  apply IH; [intros; apply Hv; [right|]; assumption|intros; apply Hcok; right; assumption| |assumption].
  intros r' Hr'. unfold regnext_spec, c_regupd. destruct (nop n) eqn:E; try (apply Heq; assumption).
  destruct (Hv n (or_introl eq_refl) E) as [K V].
  pose proof (Hcok n (or_introl eq_refl)) as Hc. unfold c_op_ok in Hc. rewrite E in Hc.
  unfold upd. destruct (r' =? ndest n) eqn:Er; [|apply Heq; assumption].
  assert (r' = ndest n) by lia. subst r'.
  destruct (c_regcopy_correct (wof (arg n 0)) (cv (arg n 0)) (wof (ndest n)) K) as [R1 R2].
  { pose proof (wnn (ndest n)). lia. }
  split; [exact R1|]. rewrite R2, V. reflexivity.
Qed.

Lemma lassoc_cons k d l a : lassoc ((k, d) :: l) a = if k =? a then Some d else lassoc l a.
Proof. unfold lassoc. cbn [find fst snd]. destruct (k =? a); reflexivity. Qed.

Lemma c_mems_agree v cv : forall ns ms mv,
  (forall n m, In n ns -> nop n = OpMemWr m ->
     forall i, (i < 3)%nat ->
       limbs_ok (wof (arg n i)) (cv (arg n i)) /\ limbs_to_Z (cv (arg n i)) = v (arg n i)) ->
  (forall n, In n ns -> c_op_ok nl n = true) ->
  RCmem {| sregs := fun _ => 0; smems := ms |} mv ->
  RCmem {| sregs := fun _ => 0; smems := fold_left (write_spec v) ns ms |}
        (fold_left (c_insert nl cv) ns mv).
Proof.
  induction ns as [|n rest IH]; intros ms mv Hv Hcok HR; simpl; [assumption|].
  apply IH; [intros; eapply Hv; [right|..]; eassumption|intros; apply Hcok; right; assumption|].
  unfold write_spec, c_insert. destruct (nop n) eqn:E; try assumption.
  pose proof (Hcok n (or_introl eq_refl)) as Hc. unfold c_op_ok in Hc. rewrite E in Hc.
  apply andb_true_iff in Hc. destruct Hc as [Hc Hdecl].
  apply andb_true_iff in Hc. destruct Hc as [Hc Hen].
  apply andb_true_iff in Hc. destruct Hc as [Hca Hcd].
  destruct (Hv n m (or_introl eq_refl) E 0%nat ltac:(lia)) as [K0 V0].
  destruct (Hv n m (or_introl eq_refl) E 1%nat ltac:(lia)) as [K1 V1].
  destruct (Hv n m (or_introl eq_refl) E 2%nat ltac:(lia)) as [K2 V2].
  rewrite (rd0_value (wof (arg n 2))) by (try assumption; pose proof (wnn (arg n 2)); lia).
  rewrite (rd0_value (wof (arg n 0))) by (try assumption; pose proof (wnn (arg n 0)); lia).
  rewrite V2, V0. destruct (v (arg n 2) =? 0); [assumption|].
  assert (Hdata : map (fun k => rd (cv (arg n 1)) k) (idxs (mem_dataw nl m)) = cv (arg n 1)).
  { unfold idxs. replace (mem_dataw nl m) with (wof (arg n 1)) by lia.
    rewrite <- (limbs_ok_len _ _ K1). apply map_rd_self. }
  rewrite Hdata.
  intros m' a'. cbn [smems]. unfold c_memval, upd.
  destruct (m' =? m) eqn:Em.
  - assert (m' = m) by lia. subst m'. rewrite lassoc_cons. rewrite (Z.eqb_sym a').
    destruct (v (arg n 0) =? a') eqn:Ea.
    + replace (mem_dataw nl m) with (wof (arg n 1)) by lia. split; [exact K1|exact V1].
    + specialize (HR m a'). cbn [smems] in HR. unfold c_memval in HR. exact HR.
  - specialize (HR m' a'). cbn [smems] in HR. unfold c_memval in HR. exact HR.
Qed.

Hypothesis Hnets : nets_ok nl (rdy0 nl) (nets nl) = true.
Hypothesis Hseq :
  forallb (fun n => if is_comb (nop n) then true
                    else forallb (fun a => mem_in a (rdy_final nl)) (nargs n)
                         && arity_ok (nop n) (length (nargs n))) (nets nl) = true.
Hypothesis Hcops : forallb (c_op_ok nl) (nets nl) = true.

Theorem c_step_refines st cs ins :
  RC st cs -> legal_ins nl ins ->
  let '(v, st') := step nl dflt st ins in
  let '(cv, cs') := c_step nl cs ins in
  CAgree (rdy_final nl) v cv /\ RC st' cs'.
Proof.
  intros HR Hins. unfold step, c_step, comb.
  pose proof (c_base_agree st cs ins HR Hins) as HA0.
  destruct HR as [HR1 HR2].
  pose proof (c_comb_agree st (cmems cs) HR2 (nets nl) (rdy0 nl) _ _ HA0 Hnets Hcops) as HA.
  fold (rdy_final nl) in HA.
  set (v := fold_left (exec_spec nl st) (nets nl) (base_val nl dflt st ins)) in *.
  set (cv := fold_left (c_exec nl (cmems cs)) (nets nl) (c_base nl cs ins)) in *.
  assert (Hseqargs : forall n, In n (nets nl) -> is_comb (nop n) = false ->
            forall i, (i < length (nargs n))%nat ->
            limbs_ok (wof (arg n i)) (cv (arg n i)) /\ limbs_to_Z (cv (arg n i)) = v (arg n i)).
  { intros n Hn Hc i Hi. rewrite forallb_forall in Hseq. specialize (Hseq n Hn).
    rewrite Hc in Hseq. apply andb_true_iff in Hseq. destruct Hseq as [Hs _].
    rewrite forallb_forall in Hs. apply HA. apply mem_in_In. apply Hs.
    apply nth_in_args. assumption. }
  assert (Harity : forall n, In n (nets nl) -> is_comb (nop n) = false ->
            arity_ok (nop n) (length (nargs n)) = true).
  { intros n Hn Hc. rewrite forallb_forall in Hseq. specialize (Hseq n Hn).
    rewrite Hc in Hseq. apply andb_true_iff in Hseq. apply Hseq. }
  assert (Hcok : forall n, In n (nets nl) -> c_op_ok nl n = true)
    by (rewrite forallb_forall in Hcops; exact Hcops).
  split; [exact HA|]. split; cbn [sregs smems cregs cmems].
  - intros r Hr. apply c_regs_agree; try assumption.
    intros n Hn E. assert (Hc : is_comb (nop n) = false) by (rewrite E; reflexivity).
    apply Hseqargs; [assumption|assumption|].
    specialize (Harity n Hn Hc). rewrite E in Harity. simpl in Harity. apply Nat.eqb_eq in Harity. lia.
  - assert (Hmv : forall n m, In n (nets nl) -> nop n = OpMemWr m -> forall i, (i < 3)%nat ->
              limbs_ok (wof (arg n i)) (cv (arg n i)) /\ limbs_to_Z (cv (arg n i)) = v (arg n i)).
    { intros n m Hn E i Hi. assert (Hc : is_comb (nop n) = false) by (rewrite E; reflexivity).
      apply Hseqargs; [assumption|assumption|].
      specialize (Harity n Hn Hc). rewrite E in Harity. simpl in Harity. apply Nat.eqb_eq in Harity. lia. }
    pose proof (c_mems_agree v cv (nets nl) (smems st) (cmems cs) Hmv Hcok) as Hm.
    intros m a. apply Hm. intros m' a'. cbn [smems]. apply HR2.
Qed.

End Correct.

(* ---- packaged statements ------------------------------------------------------------------ *)

Lemma c_wfb_parts nl : c_wfb nl = true ->
  forallb (c_op_ok nl) (nets nl) = true /\ c_mems_ok nl = true.
Proof. unfold c_wfb. intros H. apply andb_true_iff in H. exact H. Qed.

Definition cwires_agree (nl : netlist) (v : wid -> Z) (cv : wid -> list Z) : Prop :=
  forall x, In x (wires nl) ->
    limbs_ok (width_of nl (wname x)) (cv (wname x)) /\ limbs_to_Z (cv (wname x)) = v (wname x).

Theorem c_step_refines_wf nl dflt st cs ins :
  wfb nl = true -> c_wfb nl = true -> RC nl st cs -> legal_ins nl ins ->
  let '(v, st') := step nl dflt st ins in
  let '(cv, cs') := c_step nl cs ins in
  cwires_agree nl v cv /\ RC nl st' cs'.
Proof.
  intros Hwf Hcwf HR Hi. destruct (wfb_parts nl Hwf) as [H1 [H2 [H3 [H4 H5]]]].
  destruct (c_wfb_parts nl Hcwf) as [C1 C2].
  pose proof (c_step_refines nl dflt H1 H2 C2 H3 H4 C1 st cs ins HR Hi) as H.
  destruct (step nl dflt st ins) as [v st'].
  destruct (c_step nl cs ins) as [cv cs'].
  destruct H as [HA HR']. split; [|exact HR'].
  intros x Hx. rewrite forallb_forall in H5. specialize (H5 x Hx).
  apply mem_in_In in H5. apply HA. exact H5.
Qed.

Theorem c_run_refines nl dflt : wfb nl = true -> c_wfb nl = true ->
  forall inss st cs,
  RC nl st cs -> Forall (legal_ins nl) inss ->
  let '(vs, st') := run nl dflt st inss in
  let '(cvs, cs') := c_run nl cs inss in
  Forall2 (cwires_agree nl) vs cvs /\ RC nl st' cs'.
Proof.
  intros Hwf Hcwf. induction inss as [|ins rest IH]; intros st cs HR Hins; cbn [run c_run].
  - auto.
  - inversion Hins as [|? ? Hi Hrest]; subst.
    pose proof (c_step_refines_wf nl dflt st cs ins Hwf Hcwf HR Hi) as Hs.
    destruct (step nl dflt st ins) as [v st1].
    destruct (c_step nl cs ins) as [cv cs1].
    destruct Hs as [Hv HR1].
    specialize (IH st1 cs1 HR1 Hrest).
    destruct (run nl dflt st1 rest) as [vs st2].
    destruct (c_run nl cs1 rest) as [cvs cs2].
    destruct IH as [Hvs HR2]. cbv iota beta.
    split; [constructor; assumption|assumption].
Qed.

(* the initial state: static register initialisers and initialize_mems().  CompiledSimulation
   leaves unwritten memory words at 0 whatever default_value is (the sanctioned difference), so
   the memories are related only when default_value = 0 or no word is left to the default. *)
Definition legal_cmems (nl : netlist) (memmap : list (Z * list (Z * Z))) : Prop :=
  forall m k d a v, find (fun p => fst p =? m) memmap = Some (k, d) -> assoc d a = Some v ->
    inrange v (mem_dataw nl m).

Lemma lassoc_map_ini w d a :
  lassoc (map (fun kv : Z * Z => (fst kv, c_ini w (snd kv))) d) a
  = match assoc d a with Some v => Some (c_ini w v) | None => None end.
Proof.
  induction d as [|[k v] r IH]; [reflexivity|].
  cbn [map fst snd]. rewrite lassoc_cons. cbn [assoc]. destruct (k =? a); [reflexivity|exact IH].
Qed.

Lemma c_init_related nl regmap memmap :
  wfb nl = true -> c_wfb nl = true ->
  legal_init nl 0 regmap -> legal_cmems nl memmap ->
  RC nl (init_state nl 0 regmap memmap) (c_init nl 0 regmap memmap).
Proof.
  intros Hwf Hcwf Hregs Hmems.
  destruct (wfb_parts nl Hwf) as [Hw [Hcst _]]. destruct (c_wfb_parts nl Hcwf) as [_ Hm]. split.
  - intros r Hr. unfold c_init, init_state. cbn [cregs sregs]. unfold c_ini.
    apply c_pack_ok; [apply width_nonneg; assumption|]. apply Hregs. assumption.
  - intros m a. unfold c_memval, c_init, init_state. cbn [cmems smems].
    pose proof (mem_dataw_nonneg nl Hw Hcst Hm m) as Hdw.
    destruct (find (fun p => fst p =? m) memmap) as [[k d]|] eqn:Ef.
    + rewrite lassoc_map_ini. unfold assoc_d. destruct (assoc d a) as [v|] eqn:Ea.
      * unfold c_ini. apply c_pack_ok; [assumption|]. apply (Hmems m k d a v Ef Ea).
      * apply zeros_ok. assumption.
    + cbn. apply zeros_ok. assumption.
Qed.

(* every wire, every cycle, every legal input sequence, every legal initial state (default 0) *)
Theorem c_refines_spec nl regmap memmap inss :
  wfb nl = true -> c_wfb nl = true ->
  legal_init nl 0 regmap -> legal_cmems nl memmap -> Forall (legal_ins nl) inss ->
  Forall2 (cwires_agree nl)
    (fst (run nl 0 (init_state nl 0 regmap memmap) inss))
    (fst (c_run nl (c_init nl 0 regmap memmap) inss)).
Proof.
  intros Hwf Hcwf Hregs Hmems Hins.
  pose proof (c_run_refines nl 0 Hwf Hcwf inss _ _
                (c_init_related nl regmap memmap Hwf Hcwf Hregs Hmems) Hins) as H.
  destruct (run nl 0 (init_state nl 0 regmap memmap) inss) as [vs st'].
  destruct (c_run nl (c_init nl 0 regmap memmap) inss) as [cvs cs'].
  apply H.
Qed.
