(* C02 (CompiledSimulation half): the C builders over 64-bit limbs compute the
   documented op table, for every number of limbs. *)
From PyRTL Require Import Sim.CLimb Sim.OpLemmas.
From Coq Require Import ZifyBool.

Local Ltac pow64 := change (2 ^ 64) with 18446744073709551616 in *.
Local Ltac euclid := pow64; Z.to_euclidean_division_equations; lia.

(* limb n of an integer (also of a negative one: two's complement) *)
Definition limb (x : Z) (n : nat) : Z := Z.land (Z.shiftr x (64 * Z.of_nat n)) (Z.ones 64).

Lemma limb_testbit x n j : 0 <= j ->
  Z.testbit (limb x n) j = (j <? 64) && Z.testbit x (64 * Z.of_nat n + j).
Proof.
  intros Hj. unfold limb. rewrite Z.land_spec, Z.shiftr_spec by assumption.
  rewrite (Z.add_comm j). destruct (j <? 64) eqn:E.
  - rewrite Z.ones_spec_low by lia. rewrite andb_true_r. reflexivity.
  - rewrite Z.ones_spec_high by lia. rewrite andb_false_r. reflexivity.
Qed.

Lemma limb_divmod x n : limb x n = (x / 2 ^ (64 * Z.of_nat n)) mod 2 ^ 64.
Proof. unfold limb. rewrite Z.land_ones by lia. rewrite Z.shiftr_div_pow2 by lia. reflexivity. Qed.

Lemma limb_range x n : 0 <= limb x n < 2 ^ 64.
Proof. rewrite limb_divmod. apply Z.mod_pos_bound. lia. Qed.

Lemma limb_0 x : limb x 0 = x mod 2 ^ 64.
Proof. rewrite limb_divmod. simpl. rewrite Z.div_1_r. reflexivity. Qed.

Lemma limb_S x n : limb x (S n) = limb (x / 2 ^ 64) n.
Proof.
  rewrite !limb_divmod. rewrite Z.div_div by lia. rewrite <- Z.pow_add_r by lia.
  do 3 f_equal. lia.
Qed.

Lemma limbs_to_Z_cons x l : limbs_to_Z (x :: l) = x + 2 ^ 64 * limbs_to_Z l.
Proof. reflexivity. Qed.

(* a list of limbs read off an integer *)
Lemma limbs_of_Z r : forall L k,
  limbs_to_Z (map (limb r) (seq k L)) = (r / 2 ^ (64 * Z.of_nat k)) mod 2 ^ (64 * Z.of_nat L).
Proof.
  induction L as [|L IH]; intros k.
  - simpl. rewrite Z.mod_1_r. reflexivity.
  - cbn [seq map]. rewrite limbs_to_Z_cons, IH. rewrite limb_divmod.
    set (q := r / 2 ^ (64 * Z.of_nat k)).
    replace (r / 2 ^ (64 * Z.of_nat (S k))) with (q / 2 ^ 64).
    2:{ unfold q. rewrite Z.div_div by lia. rewrite <- Z.pow_add_r by lia. do 2 f_equal. lia. }
    replace (64 * Z.of_nat (S L)) with (64 + 64 * Z.of_nat L) by lia.
    rewrite Z.pow_add_r by lia. rewrite Z.rem_mul_r by lia. reflexivity.
Qed.

Lemma limbs_of_Z_ext (D : nat -> Z) r L :
  (forall n, (n < L)%nat -> D n = limb r n) ->
  limbs_to_Z (map D (seq 0 L)) = r mod 2 ^ (64 * Z.of_nat L).
Proof.
  intros H. rewrite (map_ext_in D (limb r)).
  - rewrite limbs_of_Z. change (64 * Z.of_nat 0) with 0. rewrite Z.pow_0_r, Z.div_1_r. reflexivity.
  - intros n Hn. apply in_seq in Hn. apply H. lia.
Qed.

Definition limbs_inrange (l : list Z) : Prop := Forall (fun x => 0 <= x < 2 ^ 64) l.

Lemma limbs_to_Z_range l : limbs_inrange l -> 0 <= limbs_to_Z l < 2 ^ (64 * Z.of_nat (length l)).
Proof.
  induction 1 as [|x l Hx Hl IH].
  - simpl. lia.
  - rewrite limbs_to_Z_cons. cbn [length].
    replace (64 * Z.of_nat (S (length l))) with (64 + 64 * Z.of_nat (length l)) by lia.
    rewrite Z.pow_add_r by lia. nia.
Qed.

Lemma nth_limb l : limbs_inrange l -> forall n, (n < length l)%nat -> nth n l 0 = limb (limbs_to_Z l) n.
Proof.
  induction 1 as [|x l Hx Hl IH]; intros n Hn; [simpl in Hn; lia|].
  rewrite limbs_to_Z_cons. destruct n as [|n].
  - cbn [nth]. rewrite limb_0. rewrite Z.mul_comm, Z.mod_add by lia. symmetry. apply Z.mod_small. lia.
  - cbn [nth]. rewrite limb_S. rewrite IH by (simpl in Hn; lia). f_equal.
    rewrite Z.mul_comm, Z.div_add by lia. rewrite Z.div_small by lia. reflexivity.
Qed.

(* ---- the generated helpers ------------------------------------------------- *)

(* >>> _limbs w = ceil(w / 64) *)
Theorem limbs_spec_lemma : forall w, 64 * (c_limbs w - 1) < w <= 64 * c_limbs w.
Proof. intros w. unfold c_limbs. Z.to_euclidean_division_equations. lia. Qed.

Lemma nlimbs_Z w : 0 <= w -> Z.of_nat (nlimbs w) = c_limbs w.
Proof. intros Hw. unfold nlimbs. pose proof (limbs_spec_lemma w). lia. Qed.

Lemma nlimbs_bounds w : 0 <= w -> 64 * (Z.of_nat (nlimbs w) - 1) < w <= 64 * Z.of_nat (nlimbs w).
Proof. intros Hw. rewrite nlimbs_Z by assumption. apply limbs_spec_lemma. Qed.

Lemma nlimbs_mono w w' : 0 <= w <= w' -> (nlimbs w <= nlimbs w')%nat.
Proof.
  intros H. pose proof (nlimbs_bounds w ltac:(lia)). pose proof (nlimbs_bounds w' ltac:(lia)). lia.
Qed.

Lemma limbs_ok_len w a : limbs_ok w a -> length a = nlimbs w.
Proof. intros H. apply H. Qed.

(* _getarglimb reads exactly limb n of the value (0 beyond the argument) *)
Lemma getarglimb_spec w a n : 0 <= w -> limbs_ok w a -> getarglimb w a n = limb (limbs_to_Z a) n.
Proof.
  intros Hw [Hlen [Hr [Hx0 Hx1]]]. unfold getarglimb, c_getarglimb_cond.
  pose proof (nlimbs_bounds w Hw) as Hb.
  destruct (w >? 64 * Z.of_nat n) eqn:E.
  - unfold rd. apply nth_limb; [assumption|]. lia.
  - rewrite limb_divmod. rewrite Z.div_small; [reflexivity|].
    split; [assumption|]. eapply Z.lt_le_trans; [exact Hx1|]. apply Z.pow_le_mono_r; lia.
Qed.

Lemma rd_spec w a n : 0 <= w -> limbs_ok w a -> (n < nlimbs w)%nat -> rd a n = limb (limbs_to_Z a) n.
Proof.
  intros Hw [Hlen [Hr _]] Hn. unfold rd. apply nth_limb; [assumption|lia].
Qed.

Lemma makemask_val_ones wd : c_makemask_val wd = Z.ones (wd mod 64).
Proof. unfold c_makemask_val, Z.ones. lia. Qed.

(* masking limb n of r yields limb n of r mod 2^wd, provided an elided mask is justified *)
Lemma makemask_limb wd res r n :
  0 <= wd -> (n < nlimbs wd)%nat ->
  (forall k, res = Some k -> k <= wd -> 0 <= r < 2 ^ k) ->
  makemask wd res n (limb r n) = limb (r mod 2 ^ wd) n.
Proof.
  intros Hwd Hn Hres. pose proof (nlimbs_bounds wd Hwd) as Hb.
  apply Z.bits_inj'. intros j Hj. rewrite limb_testbit by assumption.
  rewrite testbit_mod_pow2 by lia.
  unfold makemask, c_makemask_cond.
  destruct (match res with None => true | Some v_res' => wd <? v_res' end) eqn:Eres; cbn [andb].
  - destruct ((0 <? wd - 64 * Z.of_nat n) && (wd - 64 * Z.of_nat n <? 64)) eqn:Ec.
    + rewrite Z.land_spec, limb_testbit, makemask_val_ones by assumption.
      assert (Hm : wd mod 64 = wd - 64 * Z.of_nat n) by (Z.to_euclidean_division_equations; lia).
      rewrite Hm. destruct (j <? wd - 64 * Z.of_nat n) eqn:E1.
      * rewrite Z.ones_spec_low by lia. replace (64 * Z.of_nat n + j <? wd) with true by lia.
        rewrite andb_true_r. reflexivity.
      * rewrite Z.ones_spec_high by lia. replace (64 * Z.of_nat n + j <? wd) with false by lia.
        rewrite !andb_false_r. reflexivity.
    + rewrite limb_testbit by assumption. destruct (j <? 64) eqn:E1; [|reflexivity].
      replace (64 * Z.of_nat n + j <? wd) with true by lia. reflexivity.
  - destruct res as [k|]; [|discriminate].
    assert (Hk : k <= wd) by lia. specialize (Hres k eq_refl Hk).
    rewrite limb_testbit by assumption. destruct (j <? 64) eqn:E1; [|reflexivity]. cbn [andb].
    destruct (64 * Z.of_nat n + j <? wd) eqn:E2; [reflexivity|].
    apply (inrange_testbit r wd); [assumption| |lia].
    split; [lia|]. eapply Z.lt_le_trans; [apply Hres|]. apply Z.pow_le_mono_r; lia.
Qed.

(* the common tail of every limb-wise builder *)
Lemma masked_limbs_spec wd res r (U : nat -> Z) :
  0 <= wd ->
  (forall n, (n < nlimbs wd)%nat -> U n = limb r n) ->
  (forall k, res = Some k -> k <= wd -> 0 <= r < 2 ^ k) ->
  let M := map (fun n => makemask wd res n (U n)) (idxs wd) in
  limbs_ok wd M /\ limbs_to_Z M = r mod 2 ^ wd.
Proof.
  intros Hwd HU Hres M. pose proof (nlimbs_bounds wd Hwd) as Hb.
  assert (HM : M = map (limb (r mod 2 ^ wd)) (idxs wd)).
  { unfold M, idxs. apply map_ext_in. intros n Hn. apply in_seq in Hn.
    rewrite HU by lia. apply makemask_limb; [assumption|lia|assumption]. }
  assert (Hval : limbs_to_Z M = r mod 2 ^ wd).
  { rewrite HM. unfold idxs. rewrite limbs_of_Z. change (64 * Z.of_nat 0) with 0.
    rewrite Z.pow_0_r, Z.div_1_r.
    apply Z.mod_small. pose proof (Z.mod_pos_bound r (2 ^ wd) (pow2_pos wd Hwd)).
    split; [lia|]. eapply Z.lt_le_trans; [apply H|]. apply Z.pow_le_mono_r; lia. }
  split; [|exact Hval]. split; [|split].
  - unfold M, idxs. rewrite map_length, seq_length. reflexivity.
  - rewrite HM. apply Forall_forall. intros x Hx. apply in_map_iff in Hx.
    destruct Hx as [n [<- _]]. apply limb_range.
  - rewrite Hval. apply Z.mod_pos_bound. apply pow2_pos. assumption.
Qed.

(* ---- wire / memread ---------------------------------------------------------- *)

Theorem c_wire_correct wa a wd :
  limbs_ok wa a -> 0 <= wd <= wa ->
  limbs_ok wd (c_wire wa a wd) /\ limbs_to_Z (c_wire wa a wd) = limbs_to_Z a mod 2 ^ wd.
Proof.
  intros Ha Hwd. unfold c_wire.
  apply (masked_limbs_spec wd (Some wa) (limbs_to_Z a) (rd a)); [lia| |].
  - intros n Hn. apply (rd_spec wa); [lia|assumption|].
    pose proof (nlimbs_mono wd wa Hwd). lia.
  - intros k Hk _. injection Hk as <-. apply Ha.
Qed.

(* ---- not ----------------------------------------------------------------------- *)

Lemma wrap_lnot_limb x n : wrap (Z.lnot (limb x n)) = limb (Z.lnot x) n.
Proof.
  apply Z.bits_inj'. intros j Hj. unfold wrap. rewrite testbit_mod_pow2 by lia.
  rewrite !limb_testbit by assumption. rewrite !Z.lnot_spec by lia.
  rewrite limb_testbit by assumption. destruct (j <? 64); reflexivity.
Qed.

Theorem c_not_correct wa a wd :
  limbs_ok wa a -> 0 <= wd <= wa ->
  limbs_ok wd (c_not a wd)
  /\ limbs_to_Z (c_not a wd) = (2 ^ wa - 1 - limbs_to_Z a) mod 2 ^ wd.
Proof.
  intros Ha Hwd. unfold c_not.
  destruct (masked_limbs_spec wd None (Z.lnot (limbs_to_Z a)) (fun n => wrap (Z.lnot (rd a n))))
    as [Hok Hval]; [lia| | |].
  - intros n Hn. rewrite (rd_spec wa) by (try assumption; try lia; pose proof (nlimbs_mono wd wa Hwd); lia).
    apply wrap_lnot_limb.
  - intros k Hk. discriminate Hk.
  - split; [exact Hok|]. rewrite Hval. rewrite <- sanitize_mod by lia. apply not_correct. lia.
Qed.

(* ---- & | ^ ---------------------------------------------------------------------- *)

Lemma limb_land x y n : Z.land (limb x n) (limb y n) = limb (Z.land x y) n.
Proof.
  apply Z.bits_inj'. intros j Hj. rewrite Z.land_spec, !limb_testbit, Z.land_spec by assumption.
  destruct (j <? 64); cbn [andb]; reflexivity.
Qed.

Lemma limb_lor x y n : Z.lor (limb x n) (limb y n) = limb (Z.lor x y) n.
Proof.
  apply Z.bits_inj'. intros j Hj. rewrite Z.lor_spec, !limb_testbit, Z.lor_spec by assumption.
  destruct (j <? 64); cbn [andb]; reflexivity.
Qed.

Lemma limb_lxor x y n : Z.lxor (limb x n) (limb y n) = limb (Z.lxor x y) n.
Proof.
  apply Z.bits_inj'. intros j Hj. rewrite Z.lxor_spec, !limb_testbit, Z.lxor_spec by assumption.
  destruct (j <? 64); cbn [andb]; reflexivity.
Qed.

Definition is_bitwise (f : Z -> Z -> Z) : Prop := f = Z.land \/ f = Z.lor \/ f = Z.lxor.

Lemma bitwise_range f x y wx wy : is_bitwise f -> 0 <= wx -> 0 <= wy ->
  inrange x wx -> inrange y wy -> inrange (f x y) (Z.max wx wy).
Proof.
  intros Hf Hwx Hwy Hx Hy.
  assert (Hx' : inrange x (Z.max wx wy)) by (eapply inrange_mono; [|exact Hx]; lia).
  assert (Hy' : inrange y (Z.max wx wy)) by (eapply inrange_mono; [|exact Hy]; lia).
  destruct Hf as [ -> | [ -> | -> ] ]; [apply land_range|apply lor_range|apply lxor_range]; try assumption; lia.
Qed.

Theorem c_bitwise_correct f wa a wb b wd :
  is_bitwise f -> 0 <= wa -> 0 <= wb -> limbs_ok wa a -> limbs_ok wb b -> 0 <= wd ->
  limbs_ok wd (c_bitwise f wa a wb b wd)
  /\ limbs_to_Z (c_bitwise f wa a wb b wd) = f (limbs_to_Z a) (limbs_to_Z b) mod 2 ^ wd.
Proof.
  intros Hf Hwa Hwb Ha Hb Hwd. unfold c_bitwise.
  apply (masked_limbs_spec wd (Some (Z.max wa wb)) (f (limbs_to_Z a) (limbs_to_Z b))
           (fun n => f (getarglimb wa a n) (getarglimb wb b n))); [assumption| |].
  - intros n Hn. rewrite !getarglimb_spec by assumption.
    destruct Hf as [ -> | [ -> | -> ] ]; [apply limb_land|apply limb_lor|apply limb_lxor].
  - intros k Hk _. injection Hk as <-.
    apply (bitwise_range f _ _ wa wb); try assumption; [apply Ha|apply Hb].
Qed.

(* ---- nand ------------------------------------------------------------------------ *)

Theorem c_nand_correct wa a wb b wd :
  0 <= wa -> 0 <= wb -> limbs_ok wa a -> limbs_ok wb b -> 0 <= wd <= Z.max wa wb ->
  limbs_ok wd (c_nand wa a wb b wd)
  /\ limbs_to_Z (c_nand wa a wb b wd)
     = (2 ^ Z.max wa wb - 1 - Z.land (limbs_to_Z a) (limbs_to_Z b)) mod 2 ^ wd.
Proof.
  intros Hwa Hwb Ha Hb Hwd. unfold c_nand.
  destruct (masked_limbs_spec wd None (Z.lnot (Z.land (limbs_to_Z a) (limbs_to_Z b)))
              (fun n => wrap (Z.lnot (Z.land (getarglimb wa a n) (getarglimb wb b n)))))
    as [Hok Hval]; [lia| | |].
  - intros n Hn. rewrite !getarglimb_spec by assumption. rewrite limb_land. apply wrap_lnot_limb.
  - intros k Hk. discriminate Hk.
  - split; [exact Hok|]. rewrite Hval. rewrite <- sanitize_mod by lia. apply not_correct. lia.
Qed.

(* ---- add: carry chain ---------------------------------------------------------- *)

Lemma lor_b2z p q : Z.lor (b2z p) (b2z q) = b2z (p || q).
Proof. destruct p, q; reflexivity. Qed.


(* invariant by induction on the limbs, from the least significant one:
   x, y are the parts of the operands not yet consumed, c the carry in *)
Lemma add_chain_spec mk : forall m k x y c fa fb,
  (c = 0 \/ c = 1) ->
  (forall i, fa (k + i)%nat = limb x i) -> (forall i, fb (k + i)%nat = limb y i) ->
  (forall i v, (i + 1 < m)%nat -> mk (k + i)%nat v = v) ->
  c_add_chain fa fb mk (seq k m) c
  = map (fun n => mk n (limb (x + y + c) (n - k))) (seq k m).
Proof.
  induction m as [|m IH]; intros k x y c fa fb Hc Hfa Hfb Hmk; [reflexivity|].
  cbn [seq c_add_chain map].
  pose proof (Hfa 0%nat) as Ha0. pose proof (Hfb 0%nat) as Hb0.
  rewrite Nat.add_0_r in Ha0, Hb0. rewrite Ha0, Hb0, !limb_0. rewrite Nat.sub_diag.
  set (A := x mod 2 ^ 64). set (B := y mod 2 ^ 64).
  assert (Hd0 : wrap (wrap (A + B) + c) = limb (x + y + c) 0).
  { rewrite limb_0. unfold wrap, A, B. euclid. }
  rewrite Hd0. f_equal.
  destruct m as [|m]; [reflexivity|].
  pose proof (Hmk 0%nat) as Hmk0. rewrite Nat.add_0_r in Hmk0. rewrite Hmk0 by lia.
  (* the carry out *)
  set (c' := (A + B + c) / 2 ^ 64).
  assert (Hc' : Z.lor (b2z (wrap (A + B) <? A)) (b2z (limb (x + y + c) 0 <? wrap (A + B))) = c').
  { rewrite lor_b2z. rewrite limb_0. unfold wrap, c', A, B.
    assert (H1 : 0 <= x mod 2 ^ 64 < 2 ^ 64) by (apply Z.mod_pos_bound; lia).
    assert (H2 : 0 <= y mod 2 ^ 64 < 2 ^ 64) by (apply Z.mod_pos_bound; lia).
    unfold b2z.
    destruct ((x mod 2 ^ 64 + y mod 2 ^ 64) mod 2 ^ 64 <? x mod 2 ^ 64) eqn:E1;
    destruct ((x + y + c) mod 2 ^ 64 <? (x mod 2 ^ 64 + y mod 2 ^ 64) mod 2 ^ 64) eqn:E2;
    cbn [orb]; euclid. }
  rewrite Hc'.
  rewrite (IH (S k) (x / 2 ^ 64) (y / 2 ^ 64) c').
  - apply map_ext_in. intros n Hn. apply in_seq in Hn. f_equal.
    replace (n - k)%nat with (S (n - S k)) by lia. rewrite limb_S. f_equal.
    unfold c', A, B. euclid.
  - unfold c', A, B. euclid.
  - intros i. replace (S k + i)%nat with (k + S i)%nat by lia. rewrite Hfa. apply limb_S.
  - intros i. replace (S k + i)%nat with (k + S i)%nat by lia. rewrite Hfb. apply limb_S.
  - intros i v Hi. replace (S k + i)%nat with (k + S i)%nat by lia. apply Hmk. lia.
Qed.

(* the mask is the identity below the top limb *)
Lemma makemask_low wd res n v : 0 <= wd -> (n + 1 < nlimbs wd)%nat -> makemask wd res n v = v.
Proof.
  intros Hwd Hn. pose proof (nlimbs_bounds wd Hwd). unfold makemask, c_makemask_cond.
  replace ((0 <? wd - 64 * Z.of_nat n) && (wd - 64 * Z.of_nat n <? 64)) with false by lia.
  rewrite andb_false_r. reflexivity.
Qed.

Theorem c_add_correct wa a wb b wd :
  0 <= wa -> 0 <= wb -> limbs_ok wa a -> limbs_ok wb b -> 0 <= wd ->
  limbs_ok wd (c_add wa a wb b wd)
  /\ limbs_to_Z (c_add wa a wb b wd) = (limbs_to_Z a + limbs_to_Z b) mod 2 ^ wd.
Proof.
  intros Hwa Hwb Ha Hb Hwd. unfold c_add, idxs.
  rewrite (add_chain_spec _ (nlimbs wd) 0 (limbs_to_Z a) (limbs_to_Z b) 0).
  - rewrite Z.add_0_r.
    replace (map (fun n => makemask wd (Some (Z.max wa wb + 1)) n (limb (limbs_to_Z a + limbs_to_Z b) (n - 0)))
                 (seq 0 (nlimbs wd)))
      with (map (fun n => makemask wd (Some (Z.max wa wb + 1)) n (limb (limbs_to_Z a + limbs_to_Z b) n))
                (idxs wd))
      by (unfold idxs; apply map_ext; intros n; rewrite Nat.sub_0_r; reflexivity).
    apply (masked_limbs_spec wd (Some (Z.max wa wb + 1)) (limbs_to_Z a + limbs_to_Z b)
             (limb (limbs_to_Z a + limbs_to_Z b))); [assumption|reflexivity|].
    intros k Hk _. injection Hk as <-.
    destruct Ha as [_ [_ Hx]]. destruct Hb as [_ [_ Hy]].
    assert (Hx' : inrange (limbs_to_Z a) (Z.max wa wb)) by (eapply inrange_mono; [|exact Hx]; lia).
    assert (Hy' : inrange (limbs_to_Z b) (Z.max wa wb)) by (eapply inrange_mono; [|exact Hy]; lia).
    unfold inrange in *. rewrite Z.pow_add_r by lia. change (2 ^ 1) with 2. lia.
  - left. reflexivity.
  - intros i. apply getarglimb_spec; assumption.
  - intros i. apply getarglimb_spec; assumption.
  - intros i v Hi. apply makemask_low; [assumption|lia].
Qed.

(* ---- sub: borrow chain ----------------------------------------------------------- *)

Lemma sub_chain_spec mk : forall m k x y c fa fb,
  (c = 0 \/ c = 1) ->
  (forall i, fa (k + i)%nat = limb x i) -> (forall i, fb (k + i)%nat = limb y i) ->
  (forall i v, (i + 1 < m)%nat -> mk (k + i)%nat v = v) ->
  c_sub_chain fa fb mk (seq k m) c
  = map (fun n => mk n (limb (x - y - c) (n - k))) (seq k m).
Proof.
  induction m as [|m IH]; intros k x y c fa fb Hc Hfa Hfb Hmk; [reflexivity|].
  cbn [seq c_sub_chain map].
  pose proof (Hfa 0%nat) as Ha0. pose proof (Hfb 0%nat) as Hb0.
  rewrite Nat.add_0_r in Ha0, Hb0. rewrite Ha0, Hb0, !limb_0. rewrite Nat.sub_diag.
  set (A := x mod 2 ^ 64). set (B := y mod 2 ^ 64).
  assert (Hd0 : wrap (wrap (A - B) - c) = limb (x - y - c) 0).
  { rewrite limb_0. unfold wrap, A, B. euclid. }
  rewrite Hd0. f_equal.
  destruct m as [|m]; [reflexivity|].
  pose proof (Hmk 0%nat) as Hmk0. rewrite Nat.add_0_r in Hmk0. rewrite Hmk0 by lia.
  (* the borrow out *)
  set (c' := - ((A - B - c) / 2 ^ 64)).
  assert (Hc' : Z.lor (b2z (wrap (A - B) >? A)) (b2z (limb (x - y - c) 0 >? wrap (A - B))) = c').
  { rewrite lor_b2z. rewrite limb_0. unfold wrap, c', A, B.
    assert (H1 : 0 <= x mod 2 ^ 64 < 2 ^ 64) by (apply Z.mod_pos_bound; lia).
    assert (H2 : 0 <= y mod 2 ^ 64 < 2 ^ 64) by (apply Z.mod_pos_bound; lia).
    unfold b2z.
    destruct ((x mod 2 ^ 64 - y mod 2 ^ 64) mod 2 ^ 64 >? x mod 2 ^ 64) eqn:E1;
    destruct ((x - y - c) mod 2 ^ 64 >? (x mod 2 ^ 64 - y mod 2 ^ 64) mod 2 ^ 64) eqn:E2;
    cbn [orb]; euclid. }
  rewrite Hc'.
  rewrite (IH (S k) (x / 2 ^ 64) (y / 2 ^ 64) c').
  - apply map_ext_in. intros n Hn. apply in_seq in Hn. f_equal.
    replace (n - k)%nat with (S (n - S k)) by lia. rewrite limb_S. f_equal.
    unfold c', A, B. euclid.
  - unfold c', A, B. euclid.
  - intros i. replace (S k + i)%nat with (k + S i)%nat by lia. rewrite Hfa. apply limb_S.
  - intros i. replace (S k + i)%nat with (k + S i)%nat by lia. rewrite Hfb. apply limb_S.
  - intros i v Hi. replace (S k + i)%nat with (k + S i)%nat by lia. apply Hmk. lia.
Qed.

Theorem c_sub_correct wa a wb b wd :
  0 <= wa -> 0 <= wb -> limbs_ok wa a -> limbs_ok wb b -> 0 <= wd ->
  limbs_ok wd (c_sub wa a wb b wd)
  /\ limbs_to_Z (c_sub wa a wb b wd) = (limbs_to_Z a - limbs_to_Z b) mod 2 ^ wd.
Proof.
  intros Hwa Hwb Ha Hb Hwd. unfold c_sub, idxs.
  rewrite (sub_chain_spec _ (nlimbs wd) 0 (limbs_to_Z a) (limbs_to_Z b) 0).
  - rewrite Z.sub_0_r.
    replace (map (fun n => makemask wd None n (limb (limbs_to_Z a - limbs_to_Z b) (n - 0)))
                 (seq 0 (nlimbs wd)))
      with (map (fun n => makemask wd None n (limb (limbs_to_Z a - limbs_to_Z b) n)) (idxs wd))
      by (unfold idxs; apply map_ext; intros n; rewrite Nat.sub_0_r; reflexivity).
    apply (masked_limbs_spec wd None (limbs_to_Z a - limbs_to_Z b)
             (limb (limbs_to_Z a - limbs_to_Z b))); [assumption|reflexivity|].
    intros k Hk. discriminate Hk.
  - left. reflexivity.
  - intros i. apply getarglimb_spec; assumption.
  - intros i. apply getarglimb_spec; assumption.
  - intros i v Hi. apply makemask_low; [assumption|lia].
Qed.

(* ---- eq / lt / gt : limb-wise comparison ------------------------------------------ *)

Lemma limbs_ok_value w a : 0 <= w -> limbs_ok w a ->
  0 <= limbs_to_Z a < 2 ^ (64 * Z.of_nat (nlimbs w)).
Proof.
  intros Hw [_ [_ [H0 H1]]]. pose proof (nlimbs_bounds w Hw). split; [assumption|].
  eapply Z.lt_le_trans; [exact H1|]. apply Z.pow_le_mono_r; lia.
Qed.

Lemma value_below_max wa wb a K : 0 <= wa -> limbs_ok wa a -> K = Nat.max (nlimbs wa) (nlimbs wb) ->
  0 <= limbs_to_Z a < 2 ^ (64 * Z.of_nat K).
Proof.
  intros Hwa Ha ->. destruct (limbs_ok_value wa a Hwa Ha) as [H0 H1]. split; [assumption|].
  eapply Z.lt_le_trans; [exact H1|]. apply Z.pow_le_mono_r; lia.
Qed.

Theorem c_eq_correct wa a wb b :
  0 <= wa -> 0 <= wb -> limbs_ok wa a -> limbs_ok wb b ->
  limbs_to_Z (c_eq wa a wb b) = b2z (limbs_to_Z a =? limbs_to_Z b).
Proof.
  intros Hwa Hwb Ha Hb. unfold c_eq. cbn [limbs_to_Z fold_right]. rewrite Z.mul_0_r, Z.add_0_r. f_equal.
  set (K := Nat.max (nlimbs wa) (nlimbs wb)).
  set (x := limbs_to_Z a). set (y := limbs_to_Z b).
  assert (Hx : 0 <= x < 2 ^ (64 * Z.of_nat K)) by (apply (value_below_max wa wb a K); auto).
  assert (Hy : 0 <= y < 2 ^ (64 * Z.of_nat K)).
  { apply (value_below_max wb wa b K); auto. unfold K. apply Nat.max_comm. }
  destruct (x =? y) eqn:E.
  - assert (x = y) by lia. apply forallb_forall. intros n _.
    rewrite !getarglimb_spec by assumption. fold x y. rewrite H. apply Z.eqb_refl.
  - apply not_true_is_false. intro Hall. rewrite forallb_forall in Hall.
    assert (Hxy : x mod 2 ^ (64 * Z.of_nat K) = y mod 2 ^ (64 * Z.of_nat K)).
    { rewrite <- (limbs_of_Z_ext (limb x) x K) by reflexivity.
      rewrite <- (limbs_of_Z_ext (limb y) y K) by reflexivity. f_equal.
      apply map_ext_in. intros n Hn. specialize (Hall n Hn).
      rewrite !getarglimb_spec in Hall by assumption. fold x y in Hall. lia. }
    rewrite !Z.mod_small in Hxy by assumption. lia.
Qed.

Lemma mod_step x K : x mod 2 ^ (64 * Z.of_nat (S K))
  = x mod 2 ^ (64 * Z.of_nat K) + 2 ^ (64 * Z.of_nat K) * limb x K.
Proof.
  replace (64 * Z.of_nat (S K)) with (64 * Z.of_nat K + 64) by lia.
  rewrite Z.pow_add_r by lia. rewrite Z.rem_mul_r by lia. rewrite limb_divmod. reflexivity.
Qed.

Lemma lex_lt P xm ym A B : 0 < P -> 0 <= xm < P -> 0 <= ym < P ->
  (xm + P * A <? ym + P * B) = (A <? B) || ((A =? B) && (xm <? ym)).
Proof.
  intros HP Hx Hy. destruct (A <? B) eqn:E1; cbn [orb].
  - assert (A + 1 <= B) by lia. nia.
  - destruct (A =? B) eqn:E2; cbn [andb].
    + assert (A = B) by lia. subst. nia.
    + assert (B + 1 <= A) by lia. nia.
Qed.

Lemma cmp_lt_spec x y : forall K,
  c_cmp_cond Z.ltb (limb x) (limb y) K
  = (x mod 2 ^ (64 * Z.of_nat K) <? y mod 2 ^ (64 * Z.of_nat K)).
Proof.
  induction K as [|K IH].
  - simpl. rewrite !Z.mod_1_r. reflexivity.
  - cbn [c_cmp_cond]. rewrite IH, !mod_step.
    assert (HP : 0 < 2 ^ (64 * Z.of_nat K)) by (apply pow2_pos; lia).
    symmetry. apply lex_lt; [assumption| |]; apply Z.mod_pos_bound; assumption.
Qed.

Lemma cmp_gt_spec x y : forall K,
  c_cmp_cond Z.gtb (limb x) (limb y) K
  = (x mod 2 ^ (64 * Z.of_nat K) >? y mod 2 ^ (64 * Z.of_nat K)).
Proof.
  induction K as [|K IH].
  - simpl. rewrite !Z.mod_1_r. reflexivity.
  - cbn [c_cmp_cond]. rewrite IH, !mod_step.
    assert (HP : 0 < 2 ^ (64 * Z.of_nat K)) by (apply pow2_pos; lia).
    rewrite !Z.gtb_ltb. rewrite (Z.eqb_sym (limb x K)).
    symmetry. apply lex_lt; [assumption| |]; apply Z.mod_pos_bound; assumption.
Qed.

Lemma cmp_cond_ext cmp fa fb ga gb : forall K,
  (forall n, fa n = ga n) -> (forall n, fb n = gb n) ->
  c_cmp_cond cmp fa fb K = c_cmp_cond cmp ga gb K.
Proof.
  induction K as [|K IH]; intros Ha Hb; [reflexivity|].
  cbn [c_cmp_cond]. rewrite IH, Ha, Hb by assumption. reflexivity.
Qed.

Theorem c_lt_correct wa a wb b :
  0 <= wa -> 0 <= wb -> limbs_ok wa a -> limbs_ok wb b ->
  limbs_to_Z (c_cmp Z.ltb wa a wb b) = b2z (limbs_to_Z a <? limbs_to_Z b).
Proof.
  intros Hwa Hwb Ha Hb. unfold c_cmp. cbn [limbs_to_Z fold_right]. rewrite Z.mul_0_r, Z.add_0_r. f_equal.
  set (K := Nat.max (nlimbs wa) (nlimbs wb)).
  rewrite (cmp_cond_ext _ _ _ (limb (limbs_to_Z a)) (limb (limbs_to_Z b)))
    by (intros n; apply getarglimb_spec; assumption).
  rewrite cmp_lt_spec.
  rewrite !Z.mod_small; [reflexivity| |].
  - apply (value_below_max wb wa b K); auto. unfold K. apply Nat.max_comm.
  - apply (value_below_max wa wb a K); auto.
Qed.

Theorem c_gt_correct wa a wb b :
  0 <= wa -> 0 <= wb -> limbs_ok wa a -> limbs_ok wb b ->
  limbs_to_Z (c_cmp Z.gtb wa a wb b) = b2z (limbs_to_Z a >? limbs_to_Z b).
Proof.
  intros Hwa Hwb Ha Hb. unfold c_cmp. cbn [limbs_to_Z fold_right]. rewrite Z.mul_0_r, Z.add_0_r. f_equal.
  set (K := Nat.max (nlimbs wa) (nlimbs wb)).
  rewrite (cmp_cond_ext _ _ _ (limb (limbs_to_Z a)) (limb (limbs_to_Z b)))
    by (intros n; apply getarglimb_spec; assumption).
  rewrite cmp_gt_spec.
  rewrite !Z.mod_small; [reflexivity| |].
  - apply (value_below_max wb wa b K); auto. unfold K. apply Nat.max_comm.
  - apply (value_below_max wa wb a K); auto.
Qed.

(* ---- mux --------------------------------------------------------------------------- *)

Theorem c_mux_correct s wf f wt t wd :
  limbs_ok 1 s -> limbs_ok wf f -> limbs_ok wt t -> 0 <= wd <= wf -> wd <= wt ->
  limbs_ok wd (c_mux s wf f wt t wd)
  /\ limbs_to_Z (c_mux s wf f wt t wd)
     = (if limbs_to_Z s =? 0 then limbs_to_Z f else limbs_to_Z t) mod 2 ^ wd.
Proof.
  intros Hs Hf Ht Hwd Hwt. unfold c_mux.
  assert (Hs0 : rd s 0 = limbs_to_Z s).
  { destruct Hs as [Hlen _]. change (nlimbs 1) with 1%nat in Hlen.
    destruct s as [|s0 [|? ?]]; try discriminate Hlen. unfold rd. cbn. lia. }
  rewrite Hs0. destruct (limbs_to_Z s =? 0); cbn [negb].
  - apply c_wire_correct; [assumption|lia].
  - apply c_wire_correct; [assumption|lia].
Qed.

(* ---- run(): input packing / output unpacking ---------------------------------------- *)

Lemma c_pack_spec : forall n v, c_pack n v = map (limb v) (seq 0 n).
Proof.
  induction n as [|n IH]; intros v; [reflexivity|].
  cbn [c_pack seq map]. f_equal.
  rewrite IH. rewrite <- seq_shift, map_map. apply map_ext. intros k.
  rewrite limb_S. rewrite Z.shiftr_div_pow2 by lia. reflexivity.
Qed.

Lemma c_unpack_spec buf : limbs_inrange buf -> c_unpack buf = limbs_to_Z buf.
Proof.
  intros H. unfold c_unpack. rewrite <- fold_left_rev_right, rev_involutive.
  induction H as [|x l Hx Hl IH]; [reflexivity|].
  cbn [fold_right]. rewrite IH. rewrite limbs_to_Z_cons.
  rewrite lor_shiftl_add; [lia|lia|exact Hx].
Qed.

Theorem c_pack_roundtrip n v : 0 <= v < 2 ^ (64 * Z.of_nat n) -> c_unpack (c_pack n v) = v.
Proof.
  intros Hv. rewrite c_pack_spec. rewrite c_unpack_spec.
  - rewrite limbs_of_Z. change (64 * Z.of_nat 0) with 0. rewrite Z.pow_0_r, Z.div_1_r.
    apply Z.mod_small. assumption.
  - apply Forall_forall. intros x Hx. apply in_map_iff in Hx. destruct Hx as [k [<- _]]. apply limb_range.
Qed.

(* a packed input is a well-formed wire value *)
Lemma c_pack_ok w v : 0 <= w -> 0 <= v < 2 ^ w -> limbs_ok w (c_pack (nlimbs w) v) /\ limbs_to_Z (c_pack (nlimbs w) v) = v.
Proof.
  intros Hw Hv. pose proof (nlimbs_bounds w Hw) as Hb.
  assert (Hval : limbs_to_Z (c_pack (nlimbs w) v) = v).
  { rewrite c_pack_spec, limbs_of_Z. change (64 * Z.of_nat 0) with 0. rewrite Z.pow_0_r, Z.div_1_r.
    apply Z.mod_small. split; [lia|]. eapply Z.lt_le_trans; [apply Hv|]. apply Z.pow_le_mono_r; lia. }
  split; [|exact Hval]. split; [|split].
  - rewrite c_pack_spec, map_length, seq_length. reflexivity.
  - rewrite c_pack_spec. apply Forall_forall. intros x Hx. apply in_map_iff in Hx.
    destruct Hx as [k [<- _]]. apply limb_range.
  - rewrite Hval. assumption.
Qed.

(* ---- concat / mul: full statements ------------------------------------------------------ *)
From PyRTL Require Import Netlist.Sem.

(* what _build_concat should compute *)
Definition c_concat_full_statement : Prop :=
  forall (args : list (Z * list Z)) (wd : Z),
  args <> [] ->
  Forall (fun wa => 0 <= fst wa /\ limbs_ok (fst wa) (snd wa)) args ->
  0 <= wd <= fold_right (fun wa acc => fst wa + acc) 0 args ->
  limbs_ok wd (c_concat args wd)
  /\ limbs_to_Z (c_concat args wd)
     = concat_spec (map (fun wa => (limbs_to_Z (snd wa), fst wa)) args) mod 2 ^ wd.

(* what _build_mul should compute *)
Definition c_mul_full_statement : Prop :=
  forall wa a wb b wd,
  0 <= wa -> 0 <= wb -> limbs_ok wa a -> limbs_ok wb b -> 0 <= wd ->
  limbs_ok wd (c_mul wa a wb b wd)
  /\ limbs_to_Z (c_mul wa a wb b wd) = (limbs_to_Z a * limbs_to_Z b) mod 2 ^ wd.

(* ---- select: one term per destination bit ------------------------------------------------ *)
From PyRTL Require Import Sim.FastModelProofs.   (* sel_bit, select_spec_testbit *)

Lemma lor_list_cons x r : lor_list (x :: r) = Z.lor x (lor_list r).
Proof.
  unfold lor_list at 1. rewrite fold_lor_acc. f_equal. destruct r as [|y r]; simpl; reflexivity.
Qed.

Lemma nth_error_skipn' {A} : forall a (l : list A) j, nth_error (skipn a l) j = nth_error l (a + j).
Proof.
  induction a as [|a IH]; intros l j; [reflexivity|].
  destruct l as [|x l]; [destruct j; reflexivity|]. cbn [skipn Nat.add nth_error]. apply IH.
Qed.

Lemma nth_error_firstn' {A} : forall m (l : list A) i,
  nth_error (firstn m l) i = if (i <? m)%nat then nth_error l i else None.
Proof.
  induction m as [|m IH]; intros l i.
  - cbn [firstn]. destruct i; reflexivity.
  - destruct l as [|x l];
      [destruct i; cbn [firstn nth_error];
       match goal with |- context [if ?c then _ else _] => destruct c end; reflexivity|].
    destruct i as [|i]; [reflexivity|]. cbn [firstn nth_error]. rewrite IH.
    replace (S i <? S m)%nat with (i <? m)%nat by (destruct (i <? m)%nat eqn:E; lia). reflexivity.
Qed.

Lemma in_firstn' {A} m (l : list A) b : In b (firstn m l) -> In b l.
Proof. intros H. rewrite <- (firstn_skipn m l). apply in_or_app. left. assumption. Qed.

Lemma in_skipn' {A} m (l : list A) b : In b (skipn m l) -> In b l.
Proof. intros H. rewrite <- (firstn_skipn m l). apply in_or_app. right. assumption. Qed.

Definition sel_term (src : list Z) (eb : Z * Z) : Z :=
  wrap (Z.shiftl (Z.land 1 (Z.shiftr (rd src (Z.to_nat (snd eb / 64))) (snd eb mod 64))) (fst eb)).

Lemma sel_term_testbit w src en b j :
  0 <= w -> limbs_ok w src -> 0 <= b < w -> 0 <= en < 64 -> 0 <= j ->
  Z.testbit (sel_term src (en, b)) j = (j =? en) && Z.testbit (limbs_to_Z src) b.
Proof.
  intros Hw Hs Hb Hen Hj. unfold sel_term. cbn [fst snd].
  pose proof (nlimbs_bounds w Hw) as Hbd.
  rewrite (rd_spec w) by (try assumption; Z.to_euclidean_division_equations; lia).
  rewrite land_1_shiftr by (Z.to_euclidean_division_equations; lia).
  rewrite limb_testbit by (Z.to_euclidean_division_equations; lia).
  replace (b mod 64 <? 64) with true by (Z.to_euclidean_division_equations; lia). cbn [andb].
  replace (64 * Z.of_nat (Z.to_nat (b / 64)) + b mod 64) with b
    by (Z.to_euclidean_division_equations; lia).
  unfold wrap. rewrite testbit_mod_pow2 by lia. rewrite Z.shiftl_spec by assumption.
  unfold b2z. destruct (Z.testbit (limbs_to_Z src) b).
  - destruct (j =? en) eqn:E.
    + assert (j = en) by lia. subst. replace (en <? 64) with true by lia.
      rewrite Z.sub_diag. reflexivity.
    + destruct (j <? 64); [|reflexivity].
      destruct (Z.lt_ge_cases j en); [apply Z.testbit_neg_r; lia|].
      replace (j - en) with (Z.succ (j - en - 1)) by lia.
      change 1 with (2 * 0 + Z.b2z true). rewrite Z.testbit_succ_r by lia. apply Z.bits_0.
  - rewrite andb_false_r. destruct (j <? 64); [apply Z.bits_0|reflexivity].
Qed.

Lemma select_limb_testbit w src : 0 <= w -> limbs_ok w src ->
  forall chunk k j,
  (forall b, In b chunk -> 0 <= b < w) -> 0 <= k -> k + Z.of_nat (length chunk) <= 64 -> 0 <= j ->
  Z.testbit (lor_list (map (sel_term src) (enum_from k chunk))) j
  = if j <? k then false else sel_bit (limbs_to_Z src) chunk (j - k).
Proof.
  intros Hw Hs. induction chunk as [|b rest IH]; intros k j Hb Hk Hlen Hj.
  - cbn. rewrite Z.bits_0. unfold sel_bit. destruct (Z.to_nat _); destruct (j <? k); reflexivity.
  - cbn [enum_from map]. rewrite lor_list_cons, Z.lor_spec.
    cbn [length] in Hlen.
    rewrite (sel_term_testbit w) by (try assumption; try lia; apply Hb; left; reflexivity).
    rewrite IH by (try lia; intros; apply Hb; right; assumption).
    destruct (j <? k) eqn:E1.
    + replace (j =? k) with false by lia. replace (j <? k + 1) with true by lia. reflexivity.
    + destruct (j =? k) eqn:E2.
      * assert (j = k) by lia. subst. replace (k <? k + 1) with true by lia.
        rewrite Z.sub_diag, sel_bit_0, orb_false_r. reflexivity.
      * replace (j <? k + 1) with false by lia. cbn [andb orb].
        rewrite sel_bit_succ by lia. f_equal. lia.
Qed.

Theorem c_select_correct w src idx wd :
  0 <= w -> limbs_ok w src -> (forall b, In b idx -> 0 <= b < w) ->
  0 <= wd <= Z.of_nat (length idx) ->
  limbs_ok wd (c_select src idx wd)
  /\ limbs_to_Z (c_select src idx wd) = select_spec (limbs_to_Z src) idx mod 2 ^ wd.
Proof.
  intros Hw Hs Hidx Hwd. pose proof (nlimbs_bounds wd ltac:(lia)) as Hb.
  set (x := limbs_to_Z src). set (r := select_spec x idx mod 2 ^ wd).
  assert (Hr : 0 <= r < 2 ^ wd) by (apply Z.mod_pos_bound; apply pow2_pos; lia).
  assert (HM : c_select src idx wd = map (limb r) (idxs wd)).
  { unfold c_select, idxs. apply map_ext_in. intros n Hn. apply in_seq in Hn.
    unfold c_select_limb. fold (sel_term src).
    set (chunk := skipn (64 * n) (firstn (Z.to_nat (Z.min wd (64 * (Z.of_nat n + 1)))) idx)).
    assert (Hclen : Z.of_nat (length chunk) <= 64).
    { unfold chunk. rewrite skipn_length, firstn_length. lia. }
    assert (Hcin : forall b, In b chunk -> 0 <= b < w).
    { intros b Hin. apply Hidx. unfold chunk in Hin.
      apply (in_firstn' (Z.to_nat (Z.min wd (64 * (Z.of_nat n + 1))))).
      eapply in_skipn'. exact Hin. }
    apply Z.bits_inj'. intros j Hj.
    rewrite (select_limb_testbit w src Hw Hs chunk 0 j) by (try assumption; lia).
    replace (j <? 0) with false by lia. rewrite Z.sub_0_r.
    rewrite limb_testbit by assumption. unfold r. rewrite testbit_mod_pow2 by lia.
    rewrite select_spec_testbit by lia. fold x.
    unfold sel_bit, chunk. rewrite nth_error_skipn', nth_error_firstn'.
    destruct (j <? 64) eqn:E1; cbn [andb].
    - destruct (64 * Z.of_nat n + j <? wd) eqn:E2.
      + replace ((64 * n + Z.to_nat j <? Z.to_nat (Z.min wd (64 * (Z.of_nat n + 1))))%nat) with true
          by (symmetry; apply Nat.ltb_lt; lia).
        replace (Z.to_nat (64 * Z.of_nat n + j)) with (64 * n + Z.to_nat j)%nat by lia. reflexivity.
      + replace ((64 * n + Z.to_nat j <? Z.to_nat (Z.min wd (64 * (Z.of_nat n + 1))))%nat) with false
          by (symmetry; apply Nat.ltb_ge; lia). reflexivity.
    - replace ((64 * n + Z.to_nat j <? Z.to_nat (Z.min wd (64 * (Z.of_nat n + 1))))%nat) with false
        by (symmetry; apply Nat.ltb_ge; lia). reflexivity. }
  assert (Hval : limbs_to_Z (c_select src idx wd) = r).
  { rewrite HM. unfold idxs. rewrite limbs_of_Z. change (64 * Z.of_nat 0) with 0.
    rewrite Z.pow_0_r, Z.div_1_r. apply Z.mod_small.
    split; [lia|]. eapply Z.lt_le_trans; [apply Hr|]. apply Z.pow_le_mono_r; lia. }
  split; [|exact Hval]. split; [|split].
  - rewrite HM. unfold idxs. rewrite map_length, seq_length. reflexivity.
  - rewrite HM. apply Forall_forall. intros y Hy. apply in_map_iff in Hy.
    destruct Hy as [k [<- _]]. apply limb_range.
  - rewrite Hval. exact Hr.
Qed.

(* ---- register update through regtmp (masked like a wire copy) ------------------------------ *)
Theorem c_regcopy_correct wrin rin wrout :
  limbs_ok wrin rin -> 0 <= wrout <= wrin ->
  limbs_ok wrout (c_regcopy wrin rin wrout)
  /\ limbs_to_Z (c_regcopy wrin rin wrout) = limbs_to_Z rin mod 2 ^ wrout.
Proof. exact (c_wire_correct wrin rin wrout). Qed.
