(* C15 -- executable model of the observation channels of a PyRTL simulation:
   the trace store (SimulationTrace / TraceStorage), inspect, one simulation step
   with input validation and rtl_assert checking, and step_multiple (the loop
   shared, textually, by Simulation / FastSimulation / CompiledSimulation).

   The design itself is abstract: `stepf st ins = (st', vm)` is one clock cycle
   (C01/C02 are about what it computes); everything here is about how its
   results are OBSERVED.  No proofs in this file (Sim/TraceProofs.v). *)
From Coq Require Import ZArith List Bool Lia.
From PyRTL Require Import Base.PyZ Sim.TraceBase.
Import ListNotations.
Open Scope Z_scope.

Definition name := text.

(* ------------------------------------------------------------------ trace store
   TraceStorage: wire name -> list of values, fixed key set, append-only.  *)
Definition trace := list (name * list Z).

(* TraceStorage.__init__: `{wv.name: [] for wv in wvs}` -- keyed by NAME, so a wires_to_track
   list that mentions a wire several times still yields one list per wire (first occurrence
   decides the position) *)
Fixpoint dedup_from (seen : list name) (ws : list name) : list name :=
  match ws with
  | [] => []
  | w :: r => if existsb (text_eqb w) seen then dedup_from seen r
              else w :: dedup_from (w :: seen) r
  end.

Definition new_trace (ws : list name) : trace := map (fun w => (w, [])) (dedup_from [] ws).
Definition trace_names (tr : trace) : list name := map fst tr.

Fixpoint lookup {A} (l : list (name * A)) (w : name) : option A :=
  match l with
  | [] => None
  | (k, v) :: r => if text_eqb k w then Some v else lookup r w
  end.

(* SimulationTrace.add_step / add_fast_step: append value_map[w] to every tracked list;
   CompiledSimulation.run: `self.tracer.trace[name].extend(res)` with one value per step *)
Definition add_step (tr : trace) (vm : name -> Z) : trace :=
  map (fun p => (fst p, snd p ++ [vm (fst p)])) tr.

Definition last_opt (l : list Z) : option Z :=
  match l with [] => None | _ => Some (last l 0) end.

(* the last trace entry of w (None: untracked or no step yet) -- this IS
   CompiledSimulation.inspect: `self.tracer.trace[w][-1]` *)
Definition trace_last (tr : trace) (w : name) : option Z :=
  match lookup tr w with Some l => last_opt l | None => None end.

(* SimulationTrace.__len__: length of the first tracked list *)
Definition trace_len (tr : trace) : Z :=
  match tr with [] => 0 | (_, l) :: _ => len l end.

(* every tracked list has n entries *)
Definition all_len (tr : trace) (n : nat) : Prop := Forall (fun p => length (snd p) = n) tr.

(* ------------------------------------------------------------------ one step *)
Definition inputs := list (name * Z).          (* provided_inputs of one step *)

Inductive outcome :=
| Done                        (* step returned *)
| Rejected                    (* PyrtlError from input validation: nothing simulated *)
| AssertFailed (a : name).    (* exception of the rtl_assert on wire a (raised after tracing) *)

Section Sim.
  Variable State : Type.
  (* one clock cycle of the design on validated inputs: next state, value of every wire *)
  Variable stepf : State -> inputs -> State * (name -> Z).
  (* declared Input wires with bitwidths; guard v w = true: value v refused for width w *)
  Variable input_widths : list (name * Z).
  Variable guard : Z -> Z -> bool.
  (* wires registered with rtl_assert, in registration (dict) order *)
  Variable asserts : list name.

  Record sim := mkSim {
    sst : State;               (* registers and memories *)
    sval : name -> Z;          (* Simulation.value / FastSimulation.context *)
    str : trace                (* tracer.trace *)
  }.

  (* Simulation.inspect / FastSimulation.inspect *)
  Definition inspect (s : sim) (w : name) : Z := sval s w.

  (* a provided value is refused: unknown input name, or the guard fires *)
  Definition bad_inputs (ins : inputs) : bool :=
    existsb (fun p => match lookup input_widths (fst p) with
                      | Some w => guard (snd p) w
                      | None => true
                      end) ins.
  (* some declared Input has no value (Simulation only; harmless for the others) *)
  Definition missing_inputs (ins : inputs) : bool :=
    existsb (fun p => match lookup ins (fst p) with Some _ => false | None => true end) input_widths.

  (* check_rtl_assertions: the first registered assertion whose wire is 0 raises *)
  Definition failing_assert (vm : name -> Z) : option name :=
    find (fun a => vm a =? 0) asserts.

  (* Simulation.step / FastSimulation.step / CompiledSimulation.step *)
  Definition sim_step (s : sim) (ins : inputs) : sim * outcome :=
    if bad_inputs ins || missing_inputs ins then (s, Rejected)
    else
      let '(st', vm) := stepf (sst s) ins in
      let s' := mkSim st' vm (add_step (str s) vm) in
      (s', match failing_assert vm with Some a => AssertFailed a | None => Done end).

  (* ---- the same step as a list of events (Gen/StepOrder.v is regenerated from the source;
     Sim/TraceProofs.v proves exec_order <generated list> = sim_step).  Machine state: the object's
     three fields plus the result of the combinational evaluation while it is being distributed. *)
  Record mstate := mkM {
    m_st : State; m_val : name -> Z; m_tr : trace; m_cur : option (State * (name -> Z))
  }.
  Definition m_sim (m : mstate) : sim := mkSim (m_st m) (m_val m) (m_tr m).
  Definition apply_inputs (ins : inputs) (v : name -> Z) : name -> Z :=
    fun w => match lookup ins w with Some x => x | None => v w end.

  Fixpoint exec_events (evs : list step_event) (m : mstate) (ins : inputs) : sim * outcome :=
    match evs with
    | [] => (m_sim m, Done)
    | e :: r =>
        match e with
        | EvValidate =>
            if bad_inputs ins || missing_inputs ins then (m_sim m, Rejected) else exec_events r m ins
        | EvMutatingValidate =>
            let m' := mkM (m_st m) (apply_inputs ins (m_val m)) (m_tr m) (m_cur m) in
            if bad_inputs ins || missing_inputs ins then (m_sim m', Rejected) else exec_events r m' ins
        | EvPrepare => exec_events r m ins
        | EvCompute => exec_events r (mkM (m_st m) (m_val m) (m_tr m) (Some (stepf (m_st m) ins))) ins
        | EvPublish =>
            exec_events r (mkM (m_st m) (match m_cur m with Some (_, vm) => vm | None => m_val m end)
                               (m_tr m) (m_cur m)) ins
        | EvCommit =>
            exec_events r (mkM (match m_cur m with Some (st', _) => st' | None => m_st m end)
                               (m_val m) (m_tr m) (m_cur m)) ins
        | EvTrace => exec_events r (mkM (m_st m) (m_val m) (add_step (m_tr m) (m_val m)) (m_cur m)) ins
        | EvTraceBuffers =>
            match m_cur m with
            | Some (_, vm) => exec_events r (mkM (m_st m) vm (add_step (m_tr m) vm) (m_cur m)) ins
            | None => exec_events r m ins
            end
        | EvAssert =>
            match failing_assert (m_val m) with
            | Some a => (m_sim m, AssertFailed a)
            | None => exec_events r m ins
            end
        end
    end.

  Definition exec_order (evs : list step_event) (s : sim) (ins : inputs) : sim * outcome :=
    exec_events evs (mkM (sst s) (sval s) (str s) None) ins.

  (* calling step once per element until one raises: final object, number of calls
     that returned normally, and what the raising call did *)
  Fixpoint run (s : sim) (inss : list inputs) : sim * nat * outcome :=
    match inss with
    | [] => (s, O, Done)
    | ins :: rest =>
        match sim_step s ins with
        | (s', Done) => let '(s'', k, o) := run s' rest in (s'', S k, o)
        | (s', o) => (s', O, o)
        end
    end.

  (* the values the design computes, cycle by cycle, ignoring validation and
     assertions (the mathematical run that the channels are supposed to show) *)
  Fixpoint pure_vals (st : State) (inss : list inputs) : list (name -> Z) :=
    match inss with
    | [] => []
    | ins :: rest => let '(st', vm) := stepf st ins in vm :: pure_vals st' rest
    end.

  (* index of the first cycle in which some assertion wire is 0, and which one *)
  Fixpoint first_assert_failure (vms : list (name -> Z)) : option (nat * name) :=
    match vms with
    | [] => None
    | vm :: rest =>
        match failing_assert vm with
        | Some a => Some (O, a)
        | None => match first_assert_failure rest with
                  | Some (t, a) => Some (S t, a)
                  | None => None
                  end
        end
    end.

  (* ---------------------------------------------------------------- step_multiple *)
  (* expected_outputs entry: None is '?' *)
  Definition failure := (nat * name * Z * Z)%type.     (* (step, name, expected, actual) *)

  Inductive sm_result :=
  | SmError (k : Z)                              (* k-th `raise` of the prologue, source order *)
  | SmRaised (s : sim) (i : nat) (o : outcome)   (* self.step raised in iteration i: nothing is written *)
  | SmFinished (s : sim) (failed : list failure). (* loop left normally; report written iff failed <> [] *)

  Definition truthy (nsteps : option Z) : bool :=
    match nsteps with Some n => negb (n =? 0) | None => false end.

  Definition max_len {A} (l : list (name * list A)) : Z :=
    fold_right Z.max 0 (map (fun p => len (snd p)) l).

  (* the prologue: nsteps inference and the four length checks *)
  Definition sm_nsteps {A} (provided : list (name * list Z)) (expected : list (name * list A))
             (nsteps : option Z) : (Z + Z)%type :=
    if negb (truthy nsteps) && (len provided =? 0) then inl 1
    else
      let r : (Z + Z)%type :=
        if 0 <? len provided then
          let msteps := max_len provided in
          match nsteps with
          | Some n => if negb (n =? 0) then (if n >? msteps then inl 2 else inr n) else inr msteps
          | None => inr msteps
          end
        else match nsteps with Some n => inr n | None => inl 1 end in
      match r with
      | inl e => inl e
      | inr n =>
          if n <? 1 then inl 3
          else if existsb (fun p => len (snd p) <? n) provided then inl 4
          else if existsb (fun p => len (snd p) <? n) expected then inl 5
          else inr n
      end.

  (* {w: int(v[i]) for w, v in provided_inputs.items()} *)
  Definition inputs_at (provided : list (name * list Z)) (i : nat) : inputs :=
    map (fun p => (fst p, nth i (snd p) 0)) provided.

  (* the inner `for expvar in expected_outputs.keys()` loop of iteration i *)
  Definition check_expected (expected : list (name * list (option Z))) (s : sim) (i : nat)
    : list failure :=
    flat_map (fun p => match nth i (snd p) None with
                       | None => []
                       | Some e => let a := inspect s (fst p) in
                                   if e =? a then [] else [(i, fst p, e, a)]
                       end) expected.

  Fixpoint sm_loop (provided : list (name * list Z)) (expected : list (name * list (option Z)))
           (stop : bool) (s : sim) (idx : list nat) (failed : list failure) : sm_result :=
    match idx with
    | [] => SmFinished s failed
    | i :: rest =>
        match sim_step s (inputs_at provided i) with
        | (s', Done) =>
            let failed' := failed ++ check_expected expected s' i in
            if stop && negb (is_nil failed') then SmFinished s' failed'
            else sm_loop provided expected stop s' rest failed'
        | (s', o) => SmRaised s' i o
        end
    end.

  Definition step_multiple (provided : list (name * list Z))
             (expected : list (name * list (option Z))) (nsteps : option Z) (stop : bool)
             (s : sim) : sm_result :=
    match sm_nsteps provided expected nsteps with
    | inl e => SmError e
    | inr n => sm_loop provided expected stop s (seq 0 (Z.to_nat n)) []
    end.

End Sim.

Arguments mkSim {State}.
Arguments sst {State}.
Arguments sval {State}.
Arguments str {State}.
Arguments SmError {State}.
Arguments SmRaised {State}.
Arguments SmFinished {State}.

(* ------------------------------------------------------------------ report order
   sorted(failed, key=lambda t: (t[0], _trace_sort_key(t[1]))), stable.
   _trace_sort_key = (re.split('([0-9]+)', name) with the digit runs as ints, name):
   alternating text / number chunks, first and last chunk text (maybe empty). *)
Inductive chunk := CStr (s : text) | CNum (n : Z).

Definition is_digit (c : Z) : bool := (48 <=? c) && (c <=? 57).

Fixpoint nk_str (acc : text) (s : text) : list chunk :=
  match s with
  | [] => [CStr (rev acc)]
  | c :: s' => if is_digit c then CStr (rev acc) :: nk_num (c - 48) s'
               else nk_str (c :: acc) s'
  end
with nk_num (n : Z) (s : text) : list chunk :=
  match s with
  | [] => [CNum n; CStr []]
  | c :: s' => if is_digit c then nk_num (10 * n + (c - 48)) s'
               else CNum n :: nk_str [c] s'
  end.

Definition natkey (w : name) : list chunk := nk_str [] w.

Fixpoint text_cmp (a b : text) : comparison :=
  match a, b with
  | [], [] => Eq
  | [], _ => Lt
  | _, [] => Gt
  | x :: a', y :: b' => match x ?= y with Eq => text_cmp a' b' | c => c end
  end.

Definition chunk_cmp (a b : chunk) : comparison :=
  match a, b with
  | CStr s, CStr t => text_cmp s t
  | CNum n, CNum m => n ?= m
  | CStr _, CNum _ => Lt     (* never compared by Python: positions alternate *)
  | CNum _, CStr _ => Gt
  end.

Fixpoint chunks_cmp (a b : list chunk) : comparison :=
  match a, b with
  | [], [] => Eq
  | [], _ => Lt
  | _, [] => Gt
  | x :: a', y :: b' => match chunk_cmp x y with Eq => chunks_cmp a' b' | c => c end
  end.

(* _trace_sort_key(w) = (natural chunks, w): the raw name breaks ties between names that
   differ only in leading zeros ("x1" / "x01"), so the order is total *)
Definition key_cmp (n m : name) : comparison :=
  match chunks_cmp (natkey n) (natkey m) with
  | Eq => text_cmp n m
  | c => c
  end.

Definition failure_cmp (f g : nat * name * Z * Z) : comparison :=
  let '(i, n, _, _) := f in
  let '(j, m, _, _) := g in
  match Nat.compare i j with
  | Eq => key_cmp n m
  | c => c
  end.

Definition failure_leb (f g : nat * name * Z * Z) : bool :=
  match failure_cmp f g with Gt => false | _ => true end.

Section Sort.
  Context {A : Type}.
  Variable leb : A -> A -> bool.
  Fixpoint insert (x : A) (l : list A) : list A :=
    match l with
    | [] => [x]
    | y :: t => if leb x y then x :: y :: t else y :: insert x t
    end.
  (* stable: an element stays in front of the later elements it ties with *)
  Definition isort (l : list A) : list A := fold_right insert [] l.
End Sort.

(* the rows written to `file=` after the two header lines *)
Definition report (failed : list (nat * name * Z * Z)) : list (nat * name * Z * Z) :=
  isort failure_leb failed.

(* names in the order print_trace / print_vcd list them *)
Definition name_leb (a b : name) : bool :=
  match key_cmp a b with Gt => false | _ => true end.
Definition sort_names (l : list name) : list name := isort name_leb l.
