(* C02 (FastSimulation half): the expressions FastSimulation emits compute the
   documented op table; the mask is elided only where the unmasked value is
   already in range; the one-pass step refines Sem.step. *)
From PyRTL Require Import Sim.FastModel Sim.OpLemmas Sim.SimCorrect.
From Coq Require Import ZifyBool.

(* ---- `|` chains ----------------------------------------------------------- *)

Lemma fold_lor_acc r : forall a, fold_left Z.lor r a = Z.lor a (fold_left Z.lor r 0).
Proof.
  induction r as [|y r IH]; intros a; simpl.
  - rewrite Z.lor_0_r. reflexivity.
  - rewrite IH. rewrite (IH y). rewrite Z.lor_assoc. reflexivity.
Qed.

Lemma lor_chain_cons x r : lor_chain (x :: r) = Z.lor x (lor_chain r).
Proof.
  unfold lor_chain at 1. rewrite fold_lor_acc. f_equal.
  destruct r as [|y r]; simpl; reflexivity.
Qed.

(* ---- concat ---------------------------------------------------------------- *)

Lemma sumw_nonneg args : (forall v w, In (v, w) args -> 0 <= w) -> 0 <= sumw args.
Proof.
  induction args as [|[v w] r IH]; intros H; simpl; [lia|].
  assert (0 <= w) by (apply (H v w); left; reflexivity).
  assert (0 <= sumw r) by (apply IH; intros v' w' Hin; apply (H v' w'); right; assumption). lia.
Qed.

Lemma concat_fold_acc args : forall acc,
  (forall v w, In (v, w) args -> 0 <= w) ->
  fold_left (fun acc vw => acc * 2 ^ (snd vw) + fst vw) args acc
  = acc * 2 ^ (sumw args) + fold_left (fun acc vw => acc * 2 ^ (snd vw) + fst vw) args 0.
Proof.
  induction args as [|[v w] r IH]; intros acc H; cbn [fold_left fst snd sumw fold_right].
  - lia.
  - assert (Hw : 0 <= w) by (apply (H v w); left; reflexivity).
    assert (Hr : forall v' w', In (v', w') r -> 0 <= w') by (intros; eapply H; right; eassumption).
    pose proof (sumw_nonneg r Hr). fold (sumw r).
    rewrite (IH (acc * 2 ^ w + v)) by assumption. rewrite (IH (0 * 2 ^ w + v)) by assumption.
    rewrite Z.pow_add_r by lia. ring.
Qed.

Lemma concat_spec_cons v w r :
  (forall v' w', In (v', w') r -> 0 <= w') ->
  concat_spec ((v, w) :: r) = v * 2 ^ (sumw r) + concat_spec r.
Proof.
  intros H. unfold concat_spec. cbn [fold_left fst snd].
  rewrite concat_fold_acc by assumption. f_equal.
Qed.

Lemma concat_spec_range args :
  (forall v w, In (v, w) args -> 0 <= w /\ inrange v w) -> inrange (concat_spec args) (sumw args).
Proof.
  induction args as [|[v w] r IH]; intros H.
  - unfold concat_spec, inrange. simpl. lia.
  - assert (Hr : forall v' w', In (v', w') r -> 0 <= w' /\ inrange v' w')
      by (intros; apply H; right; assumption).
    assert (Hr0 : forall v' w', In (v', w') r -> 0 <= w') by (intros v' w' Hin; apply (Hr v' w' Hin)).
    rewrite concat_spec_cons by assumption.
    destruct (H v w (or_introl eq_refl)) as [Hw [Hv0 Hv1]].
    specialize (IH Hr). destruct IH as [I0 I1]. pose proof (sumw_nonneg r Hr0) as Hs.
    unfold inrange. replace (sumw ((v, w) :: r)) with (w + sumw r) by reflexivity.
    rewrite Z.pow_add_r by lia.
    pose proof (pow2_pos (sumw r) Hs). pose proof (pow2_pos w Hw). nia.
Qed.

Lemma py_shiftl_mul v k : 0 <= k -> py_shiftl v k = v * 2 ^ k.
Proof.
  intros Hk. unfold py_shiftl. destruct (k =? 0) eqn:E.
  - assert (k = 0) by lia. subst. simpl. lia.
  - apply Z.shiftl_mul_pow2. assumption.
Qed.

Lemma fast_concat_spec args :
  (forall v w, In (v, w) args -> 0 <= w /\ inrange v w) ->
  fast_concat args = concat_spec args.
Proof.
  unfold fast_concat. induction args as [|[v w] r IH]; intros H.
  - reflexivity.
  - assert (Hr : forall v' w', In (v', w') r -> 0 <= w' /\ inrange v' w')
      by (intros; apply H; right; assumption).
    assert (Hr0 : forall v' w', In (v', w') r -> 0 <= w') by (intros v' w' Hin; apply (Hr v' w' Hin)).
    cbn [fast_concat_terms]. rewrite lor_chain_cons, IH by assumption.
    rewrite concat_spec_cons by assumption.
    pose proof (sumw_nonneg r Hr0) as Hs. rewrite py_shiftl_mul by assumption.
    rewrite <- Z.shiftl_mul_pow2 by assumption.
    rewrite lor_shiftl_add; [rewrite Z.shiftl_mul_pow2 by assumption; reflexivity|assumption|].
    apply concat_spec_range. assumption.
Qed.

Lemma sumw_map_snd args : fold_right Z.add 0 (map snd args) = sumw args.
Proof. induction args as [|[v w] r IH]; simpl; [reflexivity|]. rewrite IH. reflexivity. Qed.

(* ---- select: the run splitter ---------------------------------------------- *)

Definition sel_bit (x : Z) (idx : list Z) (j : Z) : bool :=
  match nth_error idx (Z.to_nat j) with
  | Some i => Z.testbit x i
  | None => false
  end.

Lemma sel_bit_0 x b rest : sel_bit x (b :: rest) 0 = Z.testbit x b.
Proof. reflexivity. Qed.

Lemma sel_bit_succ x b rest j : 0 < j -> sel_bit x (b :: rest) j = sel_bit x rest (j - 1).
Proof.
  intros Hj. unfold sel_bit. replace (Z.to_nat j) with (S (Z.to_nat (j - 1))) by lia. reflexivity.
Qed.

Lemma select_spec_testbit x idx : forall j, 0 <= j ->
  Z.testbit (select_spec x idx) j = sel_bit x idx j.
Proof.
  unfold select_spec. induction idx as [|i rest IH]; intros j Hj; cbn [fold_right].
  - unfold sel_bit. destruct (Z.to_nat j); simpl; apply Z.bits_0.
  - set (a := fold_right (fun i acc => b2z (Z.testbit x i) + 2 * acc) 0 rest) in *.
    replace (b2z (Z.testbit x i) + 2 * a) with (2 * a + Z.b2z (Z.testbit x i))
      by (unfold b2z, Z.b2z; destruct (Z.testbit x i); lia).
    destruct (Z.eq_dec j 0) as [->|Hne].
    + rewrite Z.testbit_0_r. reflexivity.
    + replace j with (Z.succ (j - 1)) at 1 by lia.
      rewrite Z.testbit_succ_r by lia. rewrite IH by lia. rewrite sel_bit_succ by lia. reflexivity.
Qed.

Lemma shiftl1_ones len : Z.shiftl 1 len - 1 = Z.ones len.
Proof. unfold Z.ones. lia. Qed.

(* one piece: bits [rstart, rstart+len) of the result are bits [start, start+len) of the source *)
Lemma split_piece_testbit x w start len rstart j :
  0 <= w -> inrange x w -> 0 <= start -> 0 <= len -> 0 <= rstart -> 0 <= j ->
  Z.testbit (split_piece x w (start, len, rstart)) j
  = if (rstart <=? j) && (j <? rstart + len) then Z.testbit x (start + (j - rstart)) else false.
Proof.
  intros Hw Hx Hs Hl Hr Hj. unfold split_piece. rewrite shiftl1_ones.
  set (bit := if start =? 0 then Z.land (Z.ones len) x
              else if w - start =? len then Z.shiftr x start
              else Z.land (Z.ones len) (Z.shiftr x start)).
  assert (Hbit : forall i, 0 <= i -> Z.testbit bit i = if i <? len then Z.testbit x (start + i) else false).
  { intros i Hi. unfold bit. destruct (start =? 0) eqn:E0.
    - assert (start = 0) by lia. subst start. rewrite Z.land_comm, Z.land_ones by assumption.
      rewrite testbit_mod_pow2 by assumption. rewrite Z.add_0_l. reflexivity.
    - destruct (w - start =? len) eqn:E1.
      + rewrite Z.shiftr_spec by assumption. rewrite (Z.add_comm i start).
        destruct (i <? len) eqn:E2; [reflexivity|].
        apply (inrange_testbit x w); [assumption|assumption|lia].
      + rewrite Z.land_comm, Z.land_ones by assumption. rewrite testbit_mod_pow2 by assumption.
        rewrite Z.shiftr_spec by assumption. rewrite (Z.add_comm i start). reflexivity. }
  unfold py_shiftl. destruct (rstart =? 0) eqn:Er.
  - assert (rstart = 0) by lia. subst rstart. rewrite Hbit by assumption.
    rewrite Z.add_0_l, Z.sub_0_r. replace (0 <=? j) with true by lia. reflexivity.
  - rewrite Z.shiftl_spec by assumption.
    destruct (rstart <=? j) eqn:E3.
    + rewrite Hbit by lia. cbn [andb].
      replace (j - rstart <? len) with (j <? rstart + len) by lia. reflexivity.
    + apply Z.testbit_neg_r. lia.
Qed.

Lemma split_runs_testbit x w : 0 <= w -> inrange x w ->
  forall idx i start len rstart,
  (forall b, In b idx -> 0 <= b) ->
  0 <= start -> 1 <= len -> 0 <= rstart -> i = rstart + len ->
  forall j, 0 <= j ->
  Z.testbit (lor_chain (map (split_piece x w) (split_runs idx i start len rstart))) j
  = if j <? rstart then false
    else if j <? i then Z.testbit x (start + (j - rstart))
    else sel_bit x idx (j - i).
Proof.
  intros Hw Hx. induction idx as [|b rest IH]; intros i start len rstart Hidx Hs Hl Hr Hi j Hj.
  - cbn [split_runs map]. unfold lor_chain. cbn [fold_left].
    rewrite split_piece_testbit by (try assumption; lia).
    destruct (j <? rstart) eqn:E1.
    + replace (rstart <=? j) with false by lia. reflexivity.
    + replace (rstart <=? j) with true by lia. cbn [andb]. subst i.
      destruct (j <? rstart + len); [reflexivity|].
      unfold sel_bit. destruct (Z.to_nat _); reflexivity.
  - assert (Hb : 0 <= b) by (apply Hidx; left; reflexivity).
    assert (Hrest : forall b', In b' rest -> 0 <= b') by (intros; apply Hidx; right; assumption).
    cbn [split_runs]. destruct (b =? start + len) eqn:Eb; cbn [negb].
    + (* the run continues *)
      rewrite (IH (i + 1) start (len + 1) rstart) by (try assumption; lia).
      destruct (j <? rstart) eqn:E1; [reflexivity|].
      destruct (j <? i) eqn:E2.
      * replace (j <? i + 1) with true by lia. reflexivity.
      * destruct (j <? i + 1) eqn:E3.
        -- assert (j = i) by lia. subst j. replace (i - i) with 0 by lia.
           rewrite sel_bit_0. f_equal; lia.
        -- rewrite sel_bit_succ by lia. f_equal; lia.
    + (* a new run starts at b *)
      replace (0 <=? start) with true by lia.
      cbn [app map]. rewrite lor_chain_cons, Z.lor_spec.
      rewrite split_piece_testbit by (try assumption; lia).
      rewrite (IH (i + 1) b 1 i) by (try assumption; lia).
      destruct (j <? rstart) eqn:E1.
      * replace (rstart <=? j) with false by lia. replace (j <? i) with true by lia. reflexivity.
      * replace (rstart <=? j) with true by lia. cbn [andb]. subst i.
        destruct (j <? rstart + len) eqn:E2; [rewrite orb_false_r; reflexivity|].
        cbn [orb]. destruct (j <? rstart + len + 1) eqn:E3.
        -- assert (j = rstart + len) by lia. subst j.
           replace (rstart + len - (rstart + len)) with 0 by lia.
           rewrite sel_bit_0. f_equal; lia.
        -- rewrite sel_bit_succ by lia. f_equal; lia.
Qed.

Lemma fast_select_spec x w idx :
  0 <= w -> inrange x w -> (forall b, In b idx -> 0 <= b) ->
  fast_select x w idx = select_spec x idx.
Proof.
  intros Hw Hx Hidx. unfold fast_select, fast_select_terms. destruct idx as [|b rest].
  - cbn. unfold split_piece, py_shiftl. cbn [Z.eqb].
    destruct (w - -2 =? 0) eqn:E; [lia|]. reflexivity.
  - assert (Hb : 0 <= b) by (apply Hidx; left; reflexivity).
    cbn [split_runs]. replace (b =? -2 + 0) with false by lia. cbn [negb].
    replace (0 <=? -2) with false by reflexivity. cbn [app].
    apply Z.bits_inj'. intros j Hj.
    rewrite (split_runs_testbit x w Hw Hx rest (0 + 1) b 1 0) by
      (try lia; intros; apply Hidx; right; assumption).
    rewrite select_spec_testbit by assumption.
    replace (j <? 0) with false by lia.
    destruct (j <? 0 + 1) eqn:E.
    + assert (j = 0) by lia. subst j. rewrite sel_bit_0. f_equal; lia.
    + rewrite sel_bit_succ by lia. f_equal; lia.
Qed.

(* ---- per-op: value of the emitted statement -------------------------------- *)

(* what Block.sanity_check_net guarantees about the arguments of one net *)
Definition fast_args_ok (o : op) (args : list (Z * Z)) : Prop :=
  (forall v w, In (v, w) args -> 0 <= w /\ inrange v w)
  /\ (binop_eqw o = true -> nth 0 (map snd args) 0 = nth 1 (map snd args) 0)
  /\ (o = OpMux -> nth 1 (map snd args) 0 = nth 2 (map snd args) 0)
  /\ (forall idx, o = OpSelect idx -> forall i, In i idx -> 0 <= i).

Lemma b2z_range b : inrange (b2z b) 1.
Proof. unfold inrange, b2z. destruct b; simpl; lia. Qed.

Lemma mul_range x y wx wy : 0 <= wx -> 0 <= wy -> inrange x wx -> inrange y wy -> inrange (x * y) (wx + wy).
Proof.
  unfold inrange. intros Hwx Hwy [Hx0 Hx1] [Hy0 Hy1]. rewrite Z.pow_add_r by assumption.
  pose proof (pow2_pos wx Hwx). pose proof (pow2_pos wy Hwy). nia.
Qed.

Lemma add_range x y w : 0 <= w -> inrange x w -> inrange y w -> inrange (x + y) (w + 1).
Proof.
  unfold inrange. intros Hw [Hx0 Hx1] [Hy0 Hy1]. rewrite Z.pow_add_r by lia.
  change (2 ^ 1) with 2. lia.
Qed.

(* >>> mask elision is sound: whenever the emitter writes `dest = expr` without a mask
   (dest width = _no_mask_bitwidth[op](net)), the Python int `expr` is already in
   [0, 2^destwidth).  The table is Gen/FastMask.v, regenerated from the source. *)
Theorem fast_mask_elision_sound_lemma : forall o args wd e,
  fast_args_ok o args -> 0 <= wd ->
  fast_elides o (map snd args) wd = true ->
  fast_pyexpr o args = Some e ->
  inrange e wd.
Proof.
  intros o args wd e [Hr [Heq [Hmux Hsel]]] Hwd Hel He.
  unfold fast_elides, fast_nomask in Hel.
  destruct o; cbn [no_mask_bitwidth] in Hel;
    try (assert (wd = -1) by lia; lia);
    try discriminate Hel;
    cbn [fast_pyexpr] in He.
  - (* w *) destruct args as [|[x w] [|? ?]]; try discriminate He. injection He as <-.
    cbn in Hel. assert (wd = w) by lia. subst. apply (Hr x w). left. reflexivity.
  - (* & *) destruct args as [|[x wx] [|[y wy] [|? ?]]]; try discriminate He. injection He as <-.
    cbn in Hel, Heq. specialize (Heq eq_refl). assert (wd = wx) by lia. subst wd wy.
    apply land_range; [assumption| apply (Hr x wx); left; reflexivity
                      | apply (Hr y wx); right; left; reflexivity].
  - (* | *) destruct args as [|[x wx] [|[y wy] [|? ?]]]; try discriminate He. injection He as <-.
    cbn in Hel, Heq. specialize (Heq eq_refl). assert (wd = wx) by lia. subst wd wy.
    apply lor_range; [assumption| apply (Hr x wx); left; reflexivity
                     | apply (Hr y wx); right; left; reflexivity].
  - (* ^ *) destruct args as [|[x wx] [|[y wy] [|? ?]]]; try discriminate He. injection He as <-.
    cbn in Hel, Heq. specialize (Heq eq_refl). assert (wd = wx) by lia. subst wd wy.
    apply lxor_range; [assumption| apply (Hr x wx); left; reflexivity
                      | apply (Hr y wx); right; left; reflexivity].
  - (* + *) destruct args as [|[x wx] [|[y wy] [|? ?]]]; try discriminate He. injection He as <-.
    cbn in Hel, Heq. specialize (Heq eq_refl). assert (wd = wx + 1) by lia. subst wd wy.
    destruct (Hr x wx (or_introl eq_refl)) as [Hw0 Hx].
    apply add_range; [assumption|assumption| apply (Hr y wx); right; left; reflexivity].
  - (* * *) destruct args as [|[x wx] [|[y wy] [|? ?]]]; try discriminate He. injection He as <-.
    cbn in Hel. assert (wd = wx + wy) by lia. subst wd.
    destruct (Hr x wx (or_introl eq_refl)) as [Hw0 Hx].
    destruct (Hr y wy (or_intror (or_introl eq_refl))) as [Hw1 Hy].
    apply mul_range; assumption.
  - (* < *) destruct args as [|[x wx] [|[y wy] [|? ?]]]; try discriminate He. injection He as <-.
    assert (wd = 1) by lia. subst. apply b2z_range.
  - (* > *) destruct args as [|[x wx] [|[y wy] [|? ?]]]; try discriminate He. injection He as <-.
    assert (wd = 1) by lia. subst. apply b2z_range.
  - (* = *) destruct args as [|[x wx] [|[y wy] [|? ?]]]; try discriminate He. injection He as <-.
    assert (wd = 1) by lia. subst. apply b2z_range.
  - (* x *) destruct args as [|[s ws] [|[f wf] [|[t wt] [|? ?]]]]; try discriminate He. injection He as <-.
    cbn in Hel, Hmux. specialize (Hmux eq_refl). assert (wd = wf) by lia. subst wd wt.
    destruct (s =? 0).
    + apply (Hr f wf). right. left. reflexivity.
    + apply (Hr t wf). right. right. left. reflexivity.
  - (* c *) injection He as <-. rewrite sumw_map_snd in Hel. assert (wd = sumw args) by lia. subst wd.
    rewrite fast_concat_spec by assumption. apply concat_spec_range. assumption.
  - (* s *) destruct args as [|[x w] [|? ?]]; try discriminate He. injection He as <-.
    assert (wd = Z.of_nat (length idx)) by lia. subst wd.
    destruct (Hr x w (or_introl eq_refl)) as [Hw Hx].
    rewrite fast_select_spec by (try assumption; apply (Hsel idx eq_refl)).
    apply select_range.
  - (* r *) destruct args as [|[x w] [|? ?]]; try discriminate He. injection He as <-.
    cbn in Hel. assert (wd = w) by lia. subst. apply (Hr x w). left. reflexivity.
Qed.

Lemma land_mask_mod e wd : 0 <= wd -> Z.land (mask wd) e = e mod 2 ^ wd.
Proof. intros. rewrite Z.land_comm. apply sanitize_mod. assumption. Qed.

(* the statement emitted for a combinational (non-memory) net assigns the documented value *)
Lemma fast_result_spec o args wd s :
  op_spec o args = Some s -> fast_args_ok o args -> 0 <= wd ->
  (o = OpNot -> wd <= nth 0 (map snd args) 0) ->
  (o = OpNand -> wd <= Z.max (nth 0 (map snd args) 0) (nth 1 (map snd args) 0)) ->
  fast_result o args wd = Some (s mod 2 ^ wd).
Proof.
  intros Hs Hok Hwd Hnot Hnand.
  assert (Hsound := fun e => fast_mask_elision_sound_lemma o args wd e Hok Hwd).
  destruct o; cbn [op_spec] in Hs;
    try (lazymatch type of Hs with Some (concat_spec _) = _ => fail | _ => idtac end;
         destruct args as [|[x wx] [|[y wy] [|[z wz] [|? ?]]]]; try discriminate Hs);
    try (injection Hs as <-);
    unfold fast_result; cbn [map snd fst] in *.
  (* simple ops whose Python value is the documented integer *)
  all: try (destruct (fast_elides _ _ _) eqn:Hel;
    [ cbn [fast_pyexpr fast_simple_func map fst] in *; f_equal; symmetry; apply Z.mod_small;
      apply Hsound; reflexivity
    | cbn [fast_pymasked fast_simple_masked map fst]; f_equal; apply land_mask_mod; assumption ]).
  - (* ~ *) destruct (fast_elides _ _ _) eqn:Hel.
    + unfold fast_elides, fast_nomask in Hel. cbn in Hel. lia.
    + cbn [fast_pymasked fast_simple_masked map fst]. f_equal.
      rewrite Z.land_comm. apply (not_correct x wx wd). specialize (Hnot eq_refl). cbn in Hnot. lia.
  - (* nand *) destruct (fast_elides _ _ _) eqn:Hel.
    + unfold fast_elides, fast_nomask in Hel. cbn in Hel. lia.
    + cbn [fast_pymasked fast_simple_masked map fst]. f_equal.
      rewrite Z.land_comm. apply (not_correct (Z.land x y) (Z.max wx wy) wd).
      specialize (Hnand eq_refl). cbn in Hnand. lia.
  - (* c *) destruct Hok as [Hr Hrest].
    assert (He : fast_concat args = concat_spec args) by (apply fast_concat_spec; assumption).
    destruct (fast_elides _ _ _) eqn:Hel.
    + cbn [fast_pyexpr]. f_equal. rewrite <- He. symmetry. apply Z.mod_small.
      apply Hsound; reflexivity.
    + cbn [fast_pymasked]. unfold masked_chain, fast_mask_parenthesised. f_equal.
      fold (fast_concat args). rewrite He. apply land_mask_mod. assumption.
  - (* s *) destruct Hok as [Hr [Hq1 [Hq2 Hsel]]].
    destruct (Hr x wx (or_introl eq_refl)) as [Hw Hx].
    assert (He : fast_select x wx idx = select_spec x idx)
      by (apply fast_select_spec; try assumption; apply (Hsel idx eq_refl)).
    destruct (fast_elides _ _ _) eqn:Hel.
    + cbn [fast_pyexpr]. f_equal. rewrite <- He. symmetry. apply Z.mod_small.
      apply Hsound; reflexivity.
    + cbn [fast_pymasked]. unfold masked_chain, fast_mask_parenthesised. f_equal.
      fold (fast_select x wx idx). rewrite He. apply land_mask_mod. assumption.
Qed.

(* ---- one net of a netlist --------------------------------------------------- *)

Lemma op_spec_some o (args : list (Z * Z)) :
  is_comb o = true -> (forall m, o <> OpMemRd m) -> arity_ok o (length args) = true ->
  exists s, op_spec o args = Some s.
Proof.
  intros Hc Hm Har.
  destruct o; try discriminate Hc; try (exfalso; eapply Hm; reflexivity);
    try (eexists; reflexivity);
    destruct args as [|[x wx] [|[y wy] [|[z wz] [|? ?]]]]; try discriminate Har;
    eexists; reflexivity.
Qed.

Section Correct.
Variable nl : netlist.
Variable dflt : Z.
Hypothesis Hwidths : forallb (fun x => 0 <=? wwidth x) (wires nl) = true.

Lemma nth_argws n i : (i < length (nargs n))%nat ->
  nth i (map snd (argvals nl (fun _ => 0) n)) 0 = width_of nl (arg n i).
Proof.
  intros Hi. unfold argvals. rewrite map_map. cbn [snd]. unfold arg.
  rewrite (nth_indep _ 0 (width_of nl 0)) by (rewrite map_length; assumption).
  apply map_nth.
Qed.

Lemma argws_snd v n : map snd (argvals nl v n) = argws nl n.
Proof. unfold argvals, argws. rewrite map_map. reflexivity. Qed.

Lemma nth_argws' n i : (i < length (nargs n))%nat -> nth i (argws nl n) 0 = width_of nl (arg n i).
Proof. intros Hi. rewrite <- (argws_snd (fun _ => 0)). apply nth_argws. assumption. Qed.

(* the value both sides assign to the destination of a combinational net *)
Lemma fast_dest_agree st mv rdy v v' n :
  (forall m a, smems st m a = assoc_d (mv m) a dflt) ->
  Agree nl rdy v v' -> net_ok nl rdy n = true -> fast_op_ok nl n = true -> is_comb (nop n) = true ->
  exists r, exec_spec nl st v n = upd v (ndest n) r
            /\ fast_exec_v nl dflt mv v' n = upd v' (ndest n) r
            /\ inrange r (width_of nl (ndest n)).
Proof.
  intros Hm HA Hok Hfok Hc. unfold net_ok in Hok. rewrite Hc in Hok.
  apply andb_true_iff in Hok. destruct Hok as [Hok Hop].
  apply andb_true_iff in Hok. destruct Hok as [Hok Har].
  apply andb_true_iff in Hok. destruct Hok as [Hargs Hfresh].
  destruct (argvals_agree nl Hwidths rdy v v' n HA Hargs) as [Hav [Hmv Hrange]].
  pose proof (width_nonneg nl Hwidths (ndest n)) as Hwd.
  destruct (nop n) eqn:Eop; try discriminate Hc.
  16: { (* memory read *)
    match type of Eop with _ = OpMemRd ?mm => rename mm into mid0 end.
    exists (mem_read nl st mid0 (v (arg n 0)) mod 2 ^ width_of nl (ndest n)).
    split; [unfold exec_spec; rewrite Eop; reflexivity|]. split; [|apply mod_range; assumption].
    unfold fast_exec_v, fast_expr. rewrite Eop. f_equal.
    assert (Hel : fast_elides (OpMemRd mid0) (argws nl n) (width_of nl (ndest n)) = false).
    { unfold fast_elides, fast_nomask. cbn. lia. }
    rewrite Hel. rewrite land_mask_mod by assumption.
    assert (Ha0 : v (arg n 0) = v' (arg n 0)).
    { apply HA. apply (arg0_in nl Hwidths); [assumption|].
      simpl in Har. apply Nat.eqb_eq in Har. lia. }
    rewrite <- Ha0. rewrite (mem_read_agree nl dflt st mv) by assumption. reflexivity. }
  all: (
    assert (Hlen : length (argvals nl v n) = length (nargs n)) by (unfold argvals; apply map_length);
    destruct (op_spec_some (nop n) (argvals nl v n)) as [s Hs];
      [ rewrite Eop; reflexivity | rewrite Eop; discriminate | rewrite Hlen, Eop; exact Har | ];
    rewrite Eop in Hs;
    exists (s mod 2 ^ width_of nl (ndest n));
    split; [unfold exec_spec; rewrite Eop, Hs; reflexivity|];
    split; [|apply mod_range; assumption];
    unfold fast_exec_v, fast_expr; rewrite Eop; rewrite <- Hav;
    erewrite fast_result_spec; [reflexivity | exact Hs | | assumption | | ]).
  (* the side conditions of fast_result_spec, from op_ok / fast_op_ok / arity *)
  all: try (intros Habs; discriminate Habs).
  all: try exact I.
  all: unfold op_ok in Hop; unfold fast_op_ok in Hfok; rewrite Eop in Hop, Hfok; cbn [arity_ok] in Har;
       try apply Nat.eqb_eq in Har; rewrite ?argws_snd.
  all: try (split; [exact Hrange|]; split; [|split]; try (intros Habs; discriminate Habs);
            cbn [binop_eqw] in *; rewrite ?argws_snd).
  all: try (intros _; rewrite !nth_argws' by lia; lia).
  all: try (intros idx0 Hidx i Hi; injection Hidx as <-; rewrite forallb_forall in Hop;
            specialize (Hop i Hi); lia).
  all: try (apply andb_true_iff in Hfok; destruct Hfok as [Hf1 Hf2]).
  all: try (intros _; rewrite !nth_argws' by lia; lia).
  all: try assumption.
  all: intros idx0 Hidx; discriminate Hidx.
Qed.

Lemma fast_exec_agree st mv rdy v v' n :
  (forall m a, smems st m a = assoc_d (mv m) a dflt) ->
  Agree nl rdy v v' -> net_ok nl rdy n = true -> fast_op_ok nl n = true ->
  Agree nl (rdy_next rdy n) (exec_spec nl st v n) (fast_exec_v nl dflt mv v' n).
Proof.
  intros Hm HA Hok Hfok. unfold rdy_next. destruct (is_comb (nop n)) eqn:Hc.
  - destruct (fast_dest_agree st mv rdy v v' n Hm HA Hok Hfok Hc) as [r [E1 [E2 Hr]]].
    rewrite E1, E2. unfold net_ok in Hok. rewrite Hc in Hok.
    assert (Hfresh : ~ In (ndest n) rdy).
    { intro Hin. apply mem_in_In in Hin. rewrite Hin in Hok.
      rewrite andb_false_r in Hok. simpl in Hok. discriminate. }
    intros w [<-|Hin].
    + rewrite !upd_same. split; [reflexivity|assumption].
    + assert (w <> ndest n) by (intro; subst; contradiction).
      rewrite !upd_other by assumption. apply HA. assumption.
  - unfold exec_spec, fast_exec_v. destruct (nop n); try discriminate Hc; assumption.
Qed.

(* a wire that is ready keeps its value: later nets drive other wires *)
Lemma spec_stable st : forall ns rdy u w,
  In w rdy -> nets_ok nl rdy ns = true -> fold_left (exec_spec nl st) ns u w = u w.
Proof.
  induction ns as [|n r IH]; intros rdy u w Hin Hok; simpl; [reflexivity|].
  simpl in Hok. apply andb_true_iff in Hok. destruct Hok as [Hn1 Hr].
  rewrite (IH (rdy_next rdy n)); [| |assumption].
  - unfold exec_spec. unfold net_ok in Hn1.
    destruct (is_comb (nop n)) eqn:Hc.
    + assert (Hne : w <> ndest n).
      { intro Heq. rewrite Heq in Hin. apply mem_in_In in Hin. rewrite Hin in Hn1.
        rewrite andb_false_r in Hn1. simpl in Hn1. discriminate. }
      destruct (nop n); try reflexivity;
        try (destruct (op_spec _ _); [apply upd_other; assumption|reflexivity]);
        apply upd_other; assumption.
    + destruct (nop n); try discriminate Hc; reflexivity.
  - unfold rdy_next. destruct (is_comb (nop n)); [right|]; assumption.
Qed.

Lemma fast_result_reg x w wd : 0 <= w -> 0 <= wd -> inrange x w ->
  fast_result OpReg [(x, w)] wd = Some (x mod 2 ^ wd).
Proof.
  intros Hw Hwd Hx. unfold fast_result, fast_elides, fast_nomask. cbn.
  destruct (wd =? w) eqn:E.
  - assert (wd = w) by lia. subst. f_equal. symmetry. apply Z.mod_small. exact Hx.
  - f_equal. apply land_mask_mod. assumption.
Qed.

Lemma fast_fold_agree st mv0 (VF : wid -> Z) :
  (forall m a, smems st m a = assoc_d (mv0 m) a dflt) ->
  forall ns rdy v v' rgs rg ms ws vf rgf wsf,
  Agree nl rdy v v' -> nets_ok nl rdy ns = true -> fast_nets_ok nl rdy ns = true ->
  VF = fold_left (exec_spec nl st) ns v ->
  (forall r, rgs r = rg r) ->
  (forall m a, ms m a = assoc_d (fold_left fast_apply_write ws mv0 m) a dflt) ->
  fold_left (fast_exec nl dflt mv0) ns (v', rg, ws) = (vf, rgf, wsf) ->
  Agree nl (fold_left (rdy_next) ns rdy) VF vf
  /\ (forall r, fold_left (regnext_spec nl VF) ns rgs r = rgf r)
  /\ (forall m a, fold_left (write_spec VF) ns ms m a
                  = assoc_d (fold_left fast_apply_write wsf mv0 m) a dflt).
Proof.
  intros Hm. induction ns as [|n ns' IH];
    intros rdy v v' rgs rg ms ws vf rgf wsf HA Hok Hfok HVF Hrg Hms Hfold.
  - cbn in Hfold. injection Hfold as <- <- <-. subst VF. cbn. auto.
  - cbn [fold_left] in *. cbn [fast_exec] in Hfold.
    cbn [nets_ok fast_nets_ok] in Hok, Hfok.
    apply andb_true_iff in Hok. destruct Hok as [Hn Hok'].
    apply andb_true_iff in Hfok. destruct Hfok as [Hfn Hfok'].
    unfold fast_net_ok in Hfn. apply andb_true_iff in Hfn. destruct Hfn as [Hfop Hfseq].
    (* arguments of a sequential net are ready here, hence final *)
    assert (Hseqarg : is_comb (nop n) = false -> forall i, (i < length (nargs n))%nat ->
              VF (arg n i) = v' (arg n i) /\ inrange (v' (arg n i)) (width_of nl (arg n i))).
    { intros Hc i Hi. rewrite Hc in Hfseq. apply andb_true_iff in Hfseq. destruct Hfseq as [Hrdy _].
      rewrite forallb_forall in Hrdy.
      assert (Hin : In (arg n i) rdy) by (apply mem_in_In, Hrdy, nth_in_args; assumption).
      destruct (HA _ Hin) as [Heq Hr]. rewrite <- Heq. split; [|assumption].
      rewrite HVF. rewrite (spec_stable st ns' (rdy_next rdy n)); [| |assumption].
      - unfold exec_spec. destruct (nop n); try discriminate Hc; reflexivity.
      - unfold rdy_next. rewrite Hc. assumption. }
    assert (Harity : is_comb (nop n) = false -> arity_ok (nop n) (length (nargs n)) = true).
    { intros Hc. rewrite Hc in Hfseq. apply andb_true_iff in Hfseq. apply Hfseq. }
    eapply (IH (rdy_next rdy n)); try eassumption.
    + apply fast_exec_agree; assumption.
    + (* registers *)
      intros r. unfold regnext_spec, fast_exec_r. destruct (nop n) eqn:Eop; try apply Hrg.
      specialize (Harity eq_refl). specialize (Hseqarg eq_refl).
      cbn in Harity. apply Nat.eqb_eq in Harity.
      destruct (Hseqarg 0%nat) as [Heq Hr]; [lia|].
      unfold argvals. unfold arg in *. destruct (nargs n) as [|a0 [|a1 rest]]; try discriminate Harity.
      cbn [map nth] in *.
      rewrite fast_result_reg by (try apply (width_nonneg nl Hwidths); assumption).
      rewrite Heq. unfold upd. destruct (r =? ndest n); [reflexivity|apply Hrg].
    + (* memory writes *)
      intros m a. unfold write_spec, fast_exec_w. destruct (nop n) eqn:Eop; try apply Hms.
      specialize (Harity eq_refl). specialize (Hseqarg eq_refl).
      cbn in Harity. apply Nat.eqb_eq in Harity.
      destruct (Hseqarg 0%nat) as [H0 _]; [lia|].
      destruct (Hseqarg 1%nat) as [H1 _]; [lia|].
      destruct (Hseqarg 2%nat) as [H2 _]; [lia|].
      rewrite H0, H1, H2. destruct (v' (arg n 2) =? 0); [apply Hms|].
      rewrite fold_left_app. cbn [fold_left fast_apply_write].
      set (MV := fold_left fast_apply_write ws mv0) in *.
      unfold upd. destruct (m =? m0) eqn:Em; [|apply Hms].
      unfold assoc_d, dict_set. simpl. rewrite (Z.eqb_sym a).
      destruct (v' (arg n 0) =? a) eqn:Ea; [reflexivity|].
      assert (m = m0) by lia. subst. specialize (Hms m0 a). unfold assoc_d in Hms. exact Hms.
Qed.

Hypothesis Hconsts :
  forallb (fun x => match wkind x with
                    | KConst c => inrangeb c (wwidth x)
                    | _ => true
                    end) (wires nl) = true.

(* abstraction relation between FastSimulation's state and the reference state *)
Definition RF (st : state) (fs : fstate) : Prop :=
  (forall r, sregs st r = fregs fs r)
  /\ (forall m a, smems st m a = assoc_d (fmems fs m) a dflt).

Lemma fast_base_agree st fs ins :
  RF st fs -> legal_ins nl ins -> legal_regs nl (sregs st) ->
  Agree nl (rdy0 nl) (base_val nl dflt st ins) (fast_base nl dflt fs ins).
Proof.
  intros [HR1 HR2] Hins Hregs w Hin.
  unfold rdy0 in Hin. apply filter_In in Hin. destruct Hin as [_ Hb].
  unfold is_base in Hb. unfold base_val, fast_base.
  destruct (find_wire (wires nl) w) as [x|] eqn:E; [|discriminate].
  pose proof (find_wire_In _ _ _ E) as [Hx _].
  destruct (wkind x) eqn:Ek; try discriminate.
  - split; [reflexivity|]. apply Hins. unfold is_input, kind_of. rewrite E, Ek. reflexivity.
  - split; [reflexivity|].
    rewrite forallb_forall in Hconsts. specialize (Hconsts x Hx). rewrite Ek in Hconsts.
    apply inrangeb_spec in Hconsts. unfold width_of. rewrite E. assumption.
  - split; [apply HR1|]. apply Hregs. unfold is_reg, kind_of. rewrite E, Ek. reflexivity.
Qed.

Hypothesis Hnets : nets_ok nl (rdy0 nl) (nets nl) = true.
Hypothesis Hfast : fast_wfb nl = true.

Theorem fast_step_refines st fs ins :
  RF st fs -> legal_ins nl ins -> legal_regs nl (sregs st) ->
  let '(v, st') := step nl dflt st ins in
  let '(v', fs') := fast_step nl dflt fs ins in
  Agree nl (rdy_final nl) v v' /\ RF st' fs' /\ legal_regs nl (sregs st').
Proof.
  intros HR Hins Hregs. unfold step, fast_step, comb.
  pose proof (fast_base_agree st fs ins HR Hins Hregs) as HA0.
  destruct HR as [HR1 HR2].
  destruct (fold_left (fast_exec nl dflt (fmems fs)) (nets nl)
                      (fast_base nl dflt fs ins, fregs fs, [])) as [[vf rgf] wsf] eqn:Efold.
  set (VF := fold_left (exec_spec nl st) (nets nl) (base_val nl dflt st ins)).
  destruct (fast_fold_agree st (fmems fs) VF HR2 (nets nl) (rdy0 nl) _ _ (sregs st) (fregs fs)
              (smems st) [] vf rgf wsf HA0 Hnets Hfast eq_refl HR1 HR2 Efold) as [HA [Hrg Hms]].
  split; [exact HA|]. split.
  - split; cbn [sregs smems fregs fmems]; assumption.
  - cbn [sregs]. apply regs_legal; assumption.
Qed.

End Correct.

(* ---- packaged statements ---------------------------------------------------- *)

Theorem fast_step_refines_wf nl dflt st fs ins :
  wfb nl = true -> fast_wfb nl = true ->
  RF dflt st fs -> legal_ins nl ins -> legal_regs nl (sregs st) ->
  let '(v, st') := step nl dflt st ins in
  let '(v', fs') := fast_step nl dflt fs ins in
  (forall x, In x (wires nl) ->
     v' (wname x) = v (wname x) /\ inrange (v' (wname x)) (width_of nl (wname x)))
  /\ RF dflt st' fs' /\ legal_regs nl (sregs st').
Proof.
  intros Hwf Hfw HR Hi Hr. destruct (wfb_parts nl Hwf) as [H1 [H2 [H3 [H4 H5]]]].
  pose proof (fast_step_refines nl dflt H1 H2 H3 Hfw st fs ins HR Hi Hr) as H.
  destruct (step nl dflt st ins) as [v st'].
  destruct (fast_step nl dflt fs ins) as [v' fs'].
  destruct H as [HA [HR' HL]]. split; [|auto].
  intros x Hx. rewrite forallb_forall in H5. specialize (H5 x Hx).
  apply mem_in_In in H5. destruct (HA _ H5) as [Heq Hrange].
  rewrite <- Heq. split; [reflexivity|assumption].
Qed.

Theorem fast_run_refines nl dflt : wfb nl = true -> fast_wfb nl = true ->
  forall inss st fs,
  RF dflt st fs -> Forall (legal_ins nl) inss -> legal_regs nl (sregs st) ->
  let '(vs, st') := run nl dflt st inss in
  let '(vs', fs') := fast_run nl dflt fs inss in
  Forall2 (wires_agree nl) vs vs' /\ RF dflt st' fs' /\ legal_regs nl (sregs st').
Proof.
  intros Hwf Hfw. induction inss as [|ins rest IH]; intros st fs HR Hins Hregs; cbn [run fast_run].
  - auto.
  - inversion Hins as [|? ? Hi Hrest]; subst.
    pose proof (fast_step_refines_wf nl dflt st fs ins Hwf Hfw HR Hi Hregs) as Hs.
    destruct (step nl dflt st ins) as [v st1].
    destruct (fast_step nl dflt fs ins) as [v' fs1].
    destruct Hs as [Hv [HR1 HL1]].
    specialize (IH st1 fs1 HR1 Hrest HL1).
    destruct (run nl dflt st1 rest) as [vs st2].
    destruct (fast_run nl dflt fs1 rest) as [vs' fs2].
    destruct IH as [Hvs [HR2 HL2]]. cbv iota beta.
    split; [constructor; assumption|auto].
Qed.

Lemma fast_init_related nl dflt regmap memmap :
  RF dflt (init_state nl dflt regmap memmap) (fast_init nl dflt regmap memmap).
Proof.
  unfold RF, init_state, fast_init. cbn [sregs smems fregs fmems].
  split; [reflexivity|].
  intros m a. destruct (find (fun p => fst p =? m) memmap) as [[k d]|]; reflexivity.
Qed.

(* every wire, every cycle, every legal input sequence, every legal initial state *)
Theorem fast_refines_spec nl dflt regmap memmap inss :
  wfb nl = true -> fast_wfb nl = true ->
  legal_init nl dflt regmap -> Forall (legal_ins nl) inss ->
  Forall2 (wires_agree nl)
    (fst (run nl dflt (init_state nl dflt regmap memmap) inss))
    (fst (fast_run nl dflt (fast_init nl dflt regmap memmap) inss)).
Proof.
  intros Hwf Hfw Hinit Hins.
  pose proof (fast_run_refines nl dflt Hwf Hfw inss _ _
                (fast_init_related nl dflt regmap memmap) Hins Hinit) as H.
  destruct (run nl dflt (init_state nl dflt regmap memmap) inss) as [vs st'].
  destruct (fast_run nl dflt (fast_init nl dflt regmap memmap) inss) as [vs' fs'].
  apply H.
Qed.


