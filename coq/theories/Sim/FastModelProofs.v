(* C02 (FastSimulation half): the expressions FastSimulation emits compute the
   documented op table; the mask is elided only where the unmasked value is
   already in range; the one-pass step refines Sem.step. *)
From PyRTL Require Import Sim.FastModel Sim.OpLemmas Sim.SimCorrect.
From Coq Require Import ZifyBool.

(* ---- `|` chains ----------------------------------------------------------- *)

Lemma fold_lor_acc r : forall a, fold_left Z.lor r a = Z.lor a (fold_left Z.lor r 0).
Proof.
  induction r as [|y r IH]; intros a; simpl.
  - rewrite Z.lor_0_r. reflexivity.
  - rewrite IH. rewrite (IH y). rewrite Z.lor_assoc. reflexivity.
Qed.

Lemma lor_chain_cons x r : lor_chain (x :: r) = Z.lor x (lor_chain r).
Proof.
  unfold lor_chain at 1. rewrite fold_lor_acc. f_equal.
  destruct r as [|y r]; simpl; reflexivity.
Qed.

(* ---- concat ---------------------------------------------------------------- *)

Lemma sumw_nonneg args : (forall v w, In (v, w) args -> 0 <= w) -> 0 <= sumw args.
Proof.
  induction args as [|[v w] r IH]; intros H; simpl; [lia|].
  assert (0 <= w) by (apply (H v w); left; reflexivity).
  assert (0 <= sumw r) by (apply IH; intros v' w' Hin; apply (H v' w'); right; assumption). lia.
Qed.

Lemma concat_fold_acc args : forall acc,
  (forall v w, In (v, w) args -> 0 <= w) ->
  fold_left (fun acc vw => acc * 2 ^ (snd vw) + fst vw) args acc
  = acc * 2 ^ (sumw args) + fold_left (fun acc vw => acc * 2 ^ (snd vw) + fst vw) args 0.
Proof.
  induction args as [|[v w] r IH]; intros acc H; cbn [fold_left fst snd sumw fold_right].
  - lia.
  - assert (Hw : 0 <= w) by (apply (H v w); left; reflexivity).
    assert (Hr : forall v' w', In (v', w') r -> 0 <= w') by (intros; eapply H; right; eassumption).
    pose proof (sumw_nonneg r Hr). fold (sumw r).
    rewrite (IH (acc * 2 ^ w + v)) by assumption. rewrite (IH (0 * 2 ^ w + v)) by assumption.
    rewrite Z.pow_add_r by lia. ring.
Qed.

Lemma concat_spec_cons v w r :
  (forall v' w', In (v', w') r -> 0 <= w') ->
  concat_spec ((v, w) :: r) = v * 2 ^ (sumw r) + concat_spec r.
Proof.
  intros H. unfold concat_spec. cbn [fold_left fst snd].
  rewrite concat_fold_acc by assumption. f_equal.
Qed.

Lemma concat_spec_range args :
  (forall v w, In (v, w) args -> 0 <= w /\ inrange v w) -> inrange (concat_spec args) (sumw args).
Proof.
  induction args as [|[v w] r IH]; intros H.
  - unfold concat_spec, inrange. simpl. lia.
  - assert (Hr : forall v' w', In (v', w') r -> 0 <= w' /\ inrange v' w')
      by (intros; apply H; right; assumption).
    assert (Hr0 : forall v' w', In (v', w') r -> 0 <= w') by (intros v' w' Hin; apply (Hr v' w' Hin)).
    rewrite concat_spec_cons by assumption.
    destruct (H v w (or_introl eq_refl)) as [Hw [Hv0 Hv1]].
    specialize (IH Hr). destruct IH as [I0 I1]. pose proof (sumw_nonneg r Hr0) as Hs.
    unfold inrange. replace (sumw ((v, w) :: r)) with (w + sumw r) by reflexivity.
    rewrite Z.pow_add_r by lia.
    pose proof (pow2_pos (sumw r) Hs). pose proof (pow2_pos w Hw). nia.
Qed.

Lemma py_shiftl_mul v k : 0 <= k -> py_shiftl v k = v * 2 ^ k.
Proof.
  intros Hk. unfold py_shiftl. destruct (k =? 0) eqn:E.
  - assert (k = 0) by lia. subst. simpl. lia.
  - apply Z.shiftl_mul_pow2. assumption.
Qed.

Lemma fast_concat_spec args :
  (forall v w, In (v, w) args -> 0 <= w /\ inrange v w) ->
  fast_concat args = concat_spec args.
Proof.
  unfold fast_concat. induction args as [|[v w] r IH]; intros H.
  - reflexivity.
  - assert (Hr : forall v' w', In (v', w') r -> 0 <= w' /\ inrange v' w')
      by (intros; apply H; right; assumption).
    assert (Hr0 : forall v' w', In (v', w') r -> 0 <= w') by (intros v' w' Hin; apply (Hr v' w' Hin)).
    cbn [fast_concat_terms]. rewrite lor_chain_cons, IH by assumption.
    rewrite concat_spec_cons by assumption.
    pose proof (sumw_nonneg r Hr0) as Hs. rewrite py_shiftl_mul by assumption.
    rewrite <- Z.shiftl_mul_pow2 by assumption.
    rewrite lor_shiftl_add; [rewrite Z.shiftl_mul_pow2 by assumption; reflexivity|assumption|].
    apply concat_spec_range. assumption.
Qed.

Lemma sumw_map_snd args : fold_right Z.add 0 (map snd args) = sumw args.
Proof. induction args as [|[v w] r IH]; simpl; [reflexivity|]. rewrite IH. reflexivity. Qed.

(* ---- select: the run splitter ---------------------------------------------- *)

Definition sel_bit (x : Z) (idx : list Z) (j : Z) : bool :=
  match nth_error idx (Z.to_nat j) with
  | Some i => Z.testbit x i
  | None => false
  end.

Lemma sel_bit_0 x b rest : sel_bit x (b :: rest) 0 = Z.testbit x b.
Proof. reflexivity. Qed.

Lemma sel_bit_succ x b rest j : 0 < j -> sel_bit x (b :: rest) j = sel_bit x rest (j - 1).
Proof.
  intros Hj. unfold sel_bit. replace (Z.to_nat j) with (S (Z.to_nat (j - 1))) by lia. reflexivity.
Qed.

Lemma select_spec_testbit x idx : forall j, 0 <= j ->
  Z.testbit (select_spec x idx) j = sel_bit x idx j.
Proof.
  unfold select_spec. induction idx as [|i rest IH]; intros j Hj; cbn [fold_right].
  - unfold sel_bit. destruct (Z.to_nat j); simpl; apply Z.bits_0.
  - set (a := fold_right (fun i acc => b2z (Z.testbit x i) + 2 * acc) 0 rest) in *.
    replace (b2z (Z.testbit x i) + 2 * a) with (2 * a + Z.b2z (Z.testbit x i))
      by (unfold b2z, Z.b2z; destruct (Z.testbit x i); lia).
    destruct (Z.eq_dec j 0) as [->|Hne].
    + rewrite Z.testbit_0_r. reflexivity.
    + replace j with (Z.succ (j - 1)) at 1 by lia.
      rewrite Z.testbit_succ_r by lia. rewrite IH by lia. rewrite sel_bit_succ by lia. reflexivity.
Qed.

Lemma shiftl1_ones len : Z.shiftl 1 len - 1 = Z.ones len.
Proof. unfold Z.ones. lia. Qed.

(* one piece: bits [rstart, rstart+len) of the result are bits [start, start+len) of the source *)
Lemma split_piece_testbit x w start len rstart j :
  0 <= w -> inrange x w -> 0 <= start -> 0 <= len -> 0 <= rstart -> 0 <= j ->
  Z.testbit (split_piece x w (start, len, rstart)) j
  = if (rstart <=? j) && (j <? rstart + len) then Z.testbit x (start + (j - rstart)) else false.
Proof.
  intros Hw Hx Hs Hl Hr Hj. unfold split_piece. rewrite shiftl1_ones.
  set (bit := if start =? 0 then Z.land (Z.ones len) x
              else if w - start =? len then Z.shiftr x start
              else Z.land (Z.ones len) (Z.shiftr x start)).
  assert (Hbit : forall i, 0 <= i -> Z.testbit bit i = if i <? len then Z.testbit x (start + i) else false).
  { intros i Hi. unfold bit. destruct (start =? 0) eqn:E0.
    - assert (start = 0) by lia. subst start. rewrite Z.land_comm, Z.land_ones by assumption.
      rewrite testbit_mod_pow2 by assumption. rewrite Z.add_0_l. reflexivity.
    - destruct (w - start =? len) eqn:E1.
      + rewrite Z.shiftr_spec by assumption. rewrite (Z.add_comm i start).
        destruct (i <? len) eqn:E2; [reflexivity|].
        apply (inrange_testbit x w); [assumption|assumption|lia].
      + rewrite Z.land_comm, Z.land_ones by assumption. rewrite testbit_mod_pow2 by assumption.
        rewrite Z.shiftr_spec by assumption. rewrite (Z.add_comm i start). reflexivity. }
  unfold py_shiftl. destruct (rstart =? 0) eqn:Er.
  - assert (rstart = 0) by lia. subst rstart. rewrite Hbit by assumption.
    rewrite Z.add_0_l, Z.sub_0_r. replace (0 <=? j) with true by lia. reflexivity.
  - rewrite Z.shiftl_spec by assumption.
    destruct (rstart <=? j) eqn:E3.
    + rewrite Hbit by lia. cbn [andb].
      replace (j - rstart <? len) with (j <? rstart + len) by lia. reflexivity.
    + apply Z.testbit_neg_r. lia.
Qed.

Lemma split_runs_testbit x w : 0 <= w -> inrange x w ->
  forall idx i start len rstart,
  (forall b, In b idx -> 0 <= b) ->
  0 <= start -> 1 <= len -> 0 <= rstart -> i = rstart + len ->
  forall j, 0 <= j ->
  Z.testbit (lor_chain (map (split_piece x w) (split_runs idx i start len rstart))) j
  = if j <? rstart then false
    else if j <? i then Z.testbit x (start + (j - rstart))
    else sel_bit x idx (j - i).
Proof.
  intros Hw Hx. induction idx as [|b rest IH]; intros i start len rstart Hidx Hs Hl Hr Hi j Hj.
  - cbn [split_runs map]. unfold lor_chain. cbn [fold_left].
    rewrite split_piece_testbit by (try assumption; lia).
    destruct (j <? rstart) eqn:E1.
    + replace (rstart <=? j) with false by lia. reflexivity.
    + replace (rstart <=? j) with true by lia. cbn [andb]. subst i.
      destruct (j <? rstart + len); [reflexivity|].
      unfold sel_bit. destruct (Z.to_nat _); reflexivity.
  - assert (Hb : 0 <= b) by (apply Hidx; left; reflexivity).
    assert (Hrest : forall b', In b' rest -> 0 <= b') by (intros; apply Hidx; right; assumption).
    cbn [split_runs]. destruct (b =? start + len) eqn:Eb; cbn [negb].
    + (* the run continues *)
      rewrite (IH (i + 1) start (len + 1) rstart) by (try assumption; lia).
      destruct (j <? rstart) eqn:E1; [reflexivity|].
      destruct (j <? i) eqn:E2.
      * replace (j <? i + 1) with true by lia. reflexivity.
      * destruct (j <? i + 1) eqn:E3.
        -- assert (j = i) by lia. subst j. replace (i - i) with 0 by lia.
           rewrite sel_bit_0. f_equal; lia.
        -- rewrite sel_bit_succ by lia. f_equal; lia.
    + (* a new run starts at b *)
      replace (0 <=? start) with true by lia.
      cbn [app map]. rewrite lor_chain_cons, Z.lor_spec.
      rewrite split_piece_testbit by (try assumption; lia).
      rewrite (IH (i + 1) b 1 i) by (try assumption; lia).
      destruct (j <? rstart) eqn:E1.
      * replace (rstart <=? j) with false by lia. replace (j <? i) with true by lia. reflexivity.
      * replace (rstart <=? j) with true by lia. cbn [andb]. subst i.
        destruct (j <? rstart + len) eqn:E2; [rewrite orb_false_r; reflexivity|].
        cbn [orb]. destruct (j <? rstart + len + 1) eqn:E3.
        -- assert (j = rstart + len) by lia. subst j.
           replace (rstart + len - (rstart + len)) with 0 by lia.
           rewrite sel_bit_0. f_equal; lia.
        -- rewrite sel_bit_succ by lia. f_equal; lia.
Qed.

Lemma fast_select_spec x w idx :
  0 <= w -> inrange x w -> (forall b, In b idx -> 0 <= b) ->
  fast_select x w idx = select_spec x idx.
Proof.
  intros Hw Hx Hidx. unfold fast_select, fast_select_terms. destruct idx as [|b rest].
  - cbn. unfold split_piece, py_shiftl. cbn [Z.eqb].
    destruct (w - -2 =? 0) eqn:E; [lia|]. reflexivity.
  - assert (Hb : 0 <= b) by (apply Hidx; left; reflexivity).
    cbn [split_runs]. replace (b =? -2 + 0) with false by lia. cbn [negb].
    replace (0 <=? -2) with false by reflexivity. cbn [app].
    apply Z.bits_inj'. intros j Hj.
    rewrite (split_runs_testbit x w Hw Hx rest (0 + 1) b 1 0) by
      (try lia; intros; apply Hidx; right; assumption).
    rewrite select_spec_testbit by assumption.
    replace (j <? 0) with false by lia.
    destruct (j <? 0 + 1) eqn:E.
    + assert (j = 0) by lia. subst j. rewrite sel_bit_0. f_equal; lia.
    + rewrite sel_bit_succ by lia. f_equal; lia.
Qed.

(* ---- per-op: value of the emitted statement -------------------------------- *)

(* what Block.sanity_check_net guarantees about the arguments of one net *)
Definition fast_args_ok (o : op) (args : list (Z * Z)) : Prop :=
  (forall v w, In (v, w) args -> 0 <= w /\ inrange v w)
  /\ (binop_eqw o = true -> nth 0 (map snd args) 0 = nth 1 (map snd args) 0)
  /\ (o = OpMux -> nth 1 (map snd args) 0 = nth 2 (map snd args) 0)
  /\ (forall idx, o = OpSelect idx -> forall i, In i idx -> 0 <= i).

Lemma b2z_range b : inrange (b2z b) 1.
Proof. unfold inrange, b2z. destruct b; simpl; lia. Qed.

Lemma mul_range x y wx wy : 0 <= wx -> 0 <= wy -> inrange x wx -> inrange y wy -> inrange (x * y) (wx + wy).
Proof.
  unfold inrange. intros Hwx Hwy [Hx0 Hx1] [Hy0 Hy1]. rewrite Z.pow_add_r by assumption.
  pose proof (pow2_pos wx Hwx). pose proof (pow2_pos wy Hwy). nia.
Qed.

Lemma add_range x y w : 0 <= w -> inrange x w -> inrange y w -> inrange (x + y) (w + 1).
Proof.
  unfold inrange. intros Hw [Hx0 Hx1] [Hy0 Hy1]. rewrite Z.pow_add_r by lia.
  change (2 ^ 1) with 2. lia.
Qed.

(* >>> mask elision is sound: whenever the emitter writes `dest = expr` without a mask
   (dest width = _no_mask_bitwidth[op](net)), the Python int `expr` is already in
   [0, 2^destwidth).  The table is Gen/FastMask.v, regenerated from the source. *)
Theorem fast_mask_elision_sound_lemma : forall o args wd e,
  fast_args_ok o args -> 0 <= wd ->
  fast_elides o (map snd args) wd = true ->
  fast_pyexpr o args = Some e ->
  inrange e wd.
Proof.
  intros o args wd e [Hr [Heq [Hmux Hsel]]] Hwd Hel He.
  unfold fast_elides, fast_nomask in Hel.
  destruct o; cbn [no_mask_bitwidth] in Hel;
    try (assert (wd = -1) by lia; lia);
    try discriminate Hel;
    cbn [fast_pyexpr] in He.
  - (* w *) destruct args as [|[x w] [|? ?]]; try discriminate He. injection He as <-.
    cbn in Hel. assert (wd = w) by lia. subst. apply (Hr x w). left. reflexivity.
  - (* & *) destruct args as [|[x wx] [|[y wy] [|? ?]]]; try discriminate He. injection He as <-.
    cbn in Hel, Heq. specialize (Heq eq_refl). assert (wd = wx) by lia. subst wd wy.
    apply land_range; [assumption| apply (Hr x wx); left; reflexivity
                      | apply (Hr y wx); right; left; reflexivity].
  - (* | *) destruct args as [|[x wx] [|[y wy] [|? ?]]]; try discriminate He. injection He as <-.
    cbn in Hel, Heq. specialize (Heq eq_refl). assert (wd = wx) by lia. subst wd wy.
    apply lor_range; [assumption| apply (Hr x wx); left; reflexivity
                     | apply (Hr y wx); right; left; reflexivity].
  - (* ^ *) destruct args as [|[x wx] [|[y wy] [|? ?]]]; try discriminate He. injection He as <-.
    cbn in Hel, Heq. specialize (Heq eq_refl). assert (wd = wx) by lia. subst wd wy.
    apply lxor_range; [assumption| apply (Hr x wx); left; reflexivity
                      | apply (Hr y wx); right; left; reflexivity].
  - (* + *) destruct args as [|[x wx] [|[y wy] [|? ?]]]; try discriminate He. injection He as <-.
    cbn in Hel, Heq. specialize (Heq eq_refl). assert (wd = wx + 1) by lia. subst wd wy.
    destruct (Hr x wx (or_introl eq_refl)) as [Hw0 Hx].
    apply add_range; [assumption|assumption| apply (Hr y wx); right; left; reflexivity].
  - (* * *) destruct args as [|[x wx] [|[y wy] [|? ?]]]; try discriminate He. injection He as <-.
    cbn in Hel. assert (wd = wx + wy) by lia. subst wd.
    destruct (Hr x wx (or_introl eq_refl)) as [Hw0 Hx].
    destruct (Hr y wy (or_intror (or_introl eq_refl))) as [Hw1 Hy].
    apply mul_range; assumption.
  - (* < *) destruct args as [|[x wx] [|[y wy] [|? ?]]]; try discriminate He. injection He as <-.
    assert (wd = 1) by lia. subst. apply b2z_range.
  - (* > *) destruct args as [|[x wx] [|[y wy] [|? ?]]]; try discriminate He. injection He as <-.
    assert (wd = 1) by lia. subst. apply b2z_range.
  - (* = *) destruct args as [|[x wx] [|[y wy] [|? ?]]]; try discriminate He. injection He as <-.
    assert (wd = 1) by lia. subst. apply b2z_range.
  - (* x *) destruct args as [|[s ws] [|[f wf] [|[t wt] [|? ?]]]]; try discriminate He. injection He as <-.
    cbn in Hel, Hmux. specialize (Hmux eq_refl). assert (wd = wf) by lia. subst wd wt.
    destruct (s =? 0).
    + apply (Hr f wf). right. left. reflexivity.
    + apply (Hr t wf). right. right. left. reflexivity.
  - (* c *) injection He as <-. rewrite sumw_map_snd in Hel. assert (wd = sumw args) by lia. subst wd.
    rewrite fast_concat_spec by assumption. apply concat_spec_range. assumption.
  - (* s *) destruct args as [|[x w] [|? ?]]; try discriminate He. injection He as <-.
    assert (wd = Z.of_nat (length idx)) by lia. subst wd.
    destruct (Hr x w (or_introl eq_refl)) as [Hw Hx].
    rewrite fast_select_spec by (try assumption; apply (Hsel idx eq_refl)).
    apply select_range.
  - (* r *) destruct args as [|[x w] [|? ?]]; try discriminate He. injection He as <-.
    cbn in Hel. assert (wd = w) by lia. subst. apply (Hr x w). left. reflexivity.
Qed.
