(* Model of the C code pyrtl.CompiledSimulation emits (pyrtl/compilesim.py,
   _build_* and run()): every wire is an array of 64-bit limbs, little-endian.
   Definitions only -- proofs are in Sim/CLimbProofs.v.

   uint64_t arithmetic is written explicitly: `wrap x = x mod 2^64` after every
   +, -, ~, << ; comparisons give 0/1; `|` of two 0/1 values is Z.lor.
   `_limbs`, the `_makemask` condition/constant and the `_getarglimb` condition
   come from Gen/CHelpers.v (regenerated from the source on every run). *)
From PyRTL Require Export Base.PyZ.
From PyRTL Require Export Gen.CHelpers.

Definition wrap (x : Z) : Z := x mod 2 ^ 64.

(* little-endian limbs -> integer *)
Definition limbs_to_Z (l : list Z) : Z := fold_right (fun x acc => x + 2 ^ 64 * acc) 0 l.

Definition nlimbs (w : Z) : nat := Z.to_nat (c_limbs w).
Definition idxs (w : Z) : list nat := seq 0 (nlimbs w).          (* range(self._limbs(w)) *)

Definition rd (a : list Z) (n : nat) : Z := nth n a 0.            (* vn[n] *)

(* _getarglimb: vn[n] if arg.bitwidth > 64*n else the literal 0 *)
Definition getarglimb (wa : Z) (a : list Z) (n : nat) : Z :=
  if c_getarglimb_cond wa (Z.of_nat n) then rd a n else 0.

(* `expr{mask}` with mask = _makemask(dest, res, n) *)
Definition makemask (wd : Z) (res : option Z) (n : nat) (x : Z) : Z :=
  if c_makemask_cond wd res (Z.of_nat n) then Z.land x (c_makemask_val wd) else x.

Definition lor_list (l : list Z) : Z :=                          (* '|'.join(...) *)
  match l with
  | [] => 0
  | x :: r => fold_left Z.lor r x
  end.

(* ---- _build_wire / _build_memread (res = mem.bitwidth) ------------------- *)
Definition c_wire (wa : Z) (a : list Z) (wd : Z) : list Z :=
  map (fun n => makemask wd (Some wa) n (rd a n)) (idxs wd).

(* ---- _build_not ----------------------------------------------------------- *)
Definition c_not (a : list Z) (wd : Z) : list Z :=
  map (fun n => makemask wd None n (wrap (Z.lnot (rd a n)))) (idxs wd).

(* ---- _build_bitwise (&, |, ^) -------------------------------------------- *)
Definition c_bitwise (f : Z -> Z -> Z) (wa : Z) (a : list Z) (wb : Z) (b : list Z) (wd : Z) : list Z :=
  map (fun n => makemask wd (Some (Z.max wa wb)) n (f (getarglimb wa a n) (getarglimb wb b n)))
      (idxs wd).

(* ---- _build_nand ---------------------------------------------------------- *)
Definition c_nand (wa : Z) (a : list Z) (wb : Z) (b : list Z) (wd : Z) : list Z :=
  map (fun n => makemask wd None n (wrap (Z.lnot (Z.land (getarglimb wa a n) (getarglimb wb b n)))))
      (idxs wd).

(* ---- _build_eq : dest[0] = (a0==b0)&&(a1==b1)&&... ------------------------ *)
Definition c_eq (wa : Z) (a : list Z) (wb : Z) (b : list Z) : list Z :=
  [b2z (forallb (fun n => getarglimb wa a n =? getarglimb wb b n)
                (seq 0 (Nat.max (nlimbs wa) (nlimbs wb))))].

(* ---- _build_cmp : cond_k = (a_k op b_k) || ((a_k == b_k) && cond_{k-1}),
   built from limb 0 upwards (limb 0 alone: `(a_0 op b_0)`, i.e. inner = false) *)
Fixpoint c_cmp_cond (cmp : Z -> Z -> bool) (fa fb : nat -> Z) (k : nat) : bool :=
  match k with
  | O => false
  | S k' => cmp (fa k') (fb k') || ((fa k' =? fb k') && c_cmp_cond cmp fa fb k')
  end.

Definition c_cmp (cmp : Z -> Z -> bool) (wa : Z) (a : list Z) (wb : Z) (b : list Z) : list Z :=
  [b2z (c_cmp_cond cmp (getarglimb wa a) (getarglimb wb b) (Nat.max (nlimbs wa) (nlimbs wb)))].

(* ---- _build_mux : if (mux[0]) {dest = args[2]} else {dest = args[1]} ------ *)
Definition c_mux (s : list Z) (wf : Z) (f : list Z) (wt : Z) (t : list Z) (wd : Z) : list Z :=
  if negb (rd s 0 =? 0) then c_wire wt t wd else c_wire wf f wd.

(* ---- _build_add : carry chain --------------------------------------------
     tmp = a+b; dest[n] = (tmp + carry){mask}; carry = (tmp < a)|(dest[n] < tmp); *)
Fixpoint c_add_chain (fa fb : nat -> Z) (mk : nat -> Z -> Z) (ns : list nat) (carry : Z) : list Z :=
  match ns with
  | [] => []
  | n :: r =>
      let tmp := wrap (fa n + fb n) in
      let d := mk n (wrap (tmp + carry)) in
      let carry' := Z.lor (b2z (tmp <? fa n)) (b2z (d <? tmp)) in
      d :: c_add_chain fa fb mk r carry'
  end.

Definition c_add (wa : Z) (a : list Z) (wb : Z) (b : list Z) (wd : Z) : list Z :=
  c_add_chain (getarglimb wa a) (getarglimb wb b) (makemask wd (Some (Z.max wa wb + 1)))
              (idxs wd) 0.

(* ---- _build_sub : borrow chain --------------------------------------------
     tmp = a-b; dest[n] = (tmp - carry){mask}; carry = (tmp > a)|(dest[n] > tmp); *)
Fixpoint c_sub_chain (fa fb : nat -> Z) (mk : nat -> Z -> Z) (ns : list nat) (carry : Z) : list Z :=
  match ns with
  | [] => []
  | n :: r =>
      let tmp := wrap (fa n - fb n) in
      let d := mk n (wrap (tmp - carry)) in
      let carry' := Z.lor (b2z (tmp >? fa n)) (b2z (d >? tmp)) in
      d :: c_sub_chain fa fb mk r carry'
  end.

Definition c_sub (wa : Z) (a : list Z) (wb : Z) (b : list Z) (wd : Z) : list Z :=
  c_sub_chain (getarglimb wa a) (getarglimb wb b) (makemask wd None) (idxs wd) 0.

(* ---- _build_mul : schoolbook rows with 128-bit products ------------------- *)
Fixpoint set_nth (n : nat) (x : Z) (l : list Z) : list Z :=
  match l, n with
  | [], _ => []
  | _ :: r, O => x :: r
  | y :: r, S n' => y :: set_nth n' x r
  end.

(* one iteration of the p1 loop; state = (dest, carry) *)
Definition c_mul_inner (fa0 : Z) (fb : nat -> Z) (mk : nat -> Z -> Z) (L p0 : nat)
    (st : list Z * Z) (p1 : nat) : list Z * Z :=
  let '(dest, carry) := st in
  if (L <=? p0 + p1)%nat then st                              (* break *)
  else
    let prod := fa0 * fb p1 in                                 (* mul128 *)
    let tmplo := prod mod 2 ^ 64 in
    let tmphi := prod / 2 ^ 64 in
    let tmp := rd dest (p0 + p1) in
    let tmplo1 := wrap (tmplo + carry) in                      (* tmplo += carry *)
    let c1 := b2z (tmplo1 <? carry) in                         (* carry = tmplo < carry *)
    let tmplo2 := wrap (tmplo1 + tmp) in                       (* tmplo += tmp *)
    let tmphi1 := wrap (tmphi + (c1 + b2z (tmplo2 <? tmp))) in (* tmphi += carry + (tmplo < tmp) *)
    (set_nth (p0 + p1) (mk (p0 + p1)%nat tmplo2) dest, tmphi1).  (* carry = tmphi; dest[p] = tmplo{mask} *)

Definition c_mul_row (fa fb : nat -> Z) (mk : nat -> Z -> Z) (L lb : nat)
    (dest : list Z) (p0 : nat) : list Z :=
  let '(dest', carry) := fold_left (c_mul_inner (fa p0) fb mk L p0) (seq 0 lb) (dest, 0) in
  if (p0 + lb <? L)%nat then set_nth (p0 + lb) (mk (p0 + lb)%nat carry) dest' else dest'.

Definition c_mul (wa : Z) (a : list Z) (wb : Z) (b : list Z) (wd : Z) : list Z :=
  fold_left (c_mul_row (getarglimb wa a) (getarglimb wb b) (makemask wd (Some (wa + wb)))
                       (nlimbs wd) (nlimbs wb))
            (seq 0 (nlimbs wa)) (repeat 0 (nlimbs wd)).

(* ---- _build_concat : piece assembly ---------------------------------------
   pieces = ((arg, limb, 0, min(64, bitwidth - 64*limb)) for arg in reversed(args)
                                                          for limb in range(limbs(arg)))
   a piece is (limbs of the argument, limb index, start bit, size) *)
Definition piece := (list Z * nat * Z * Z)%type.

Definition cat_pieces (args : list (Z * list Z)) : list piece :=
  flat_map (fun wa => map (fun lx => (snd wa, lx, 0, Z.min 64 (fst wa - 64 * Z.of_nat lx)))
                          (idxs (fst wa)))
           (rev args).

Inductive cat_next := CatDone | CatSplit | CatAdvance.

(* >>> THE F5 SPOT <<<  what the `while True` body does after `dpos += asize`
   (the order of the first two tests is READ OFF THE SOURCE on every run:
   Gen/CHelpers.c_concat_split_first; the repaired code tests `dpos > 64` first, the
   defective version (F5) tested `dpos >= remaining` first and lost the leftover):
     if dpos > 64: curr = (arg, limb, 64-(dpos-asize), dpos-64); break     (CatSplit)
     if dpos >= dest.bitwidth - 64*n: break                      (CatDone: curr is not advanced)
     curr = next(pieces); if dpos == 64: break                   (CatAdvance) *)
Definition cat_after (dpos remaining : Z) : cat_next :=
  if c_concat_split_first then                       (* Gen/CHelpers.v: read off the source *)
    (if dpos >? 64 then CatSplit
     else if dpos >=? remaining then CatDone
     else CatAdvance)
  else
    (if dpos >=? remaining then CatDone
     else if dpos >? 64 then CatSplit
     else CatAdvance).

(* one destination limb: returns (terms, curr, rest of the generator) *)
Fixpoint cat_limb (rest : list piece) (curr : piece) (dpos remaining : Z)
    : list Z * piece * list piece :=
  let '(a, lx, start, size) := curr in
  let term := wrap (Z.shiftl (Z.shiftr (rd a lx) start) dpos) in   (* ((arg[limb]>>start)<<pos) *)
  let dpos' := dpos + size in
  match cat_after dpos' remaining with
  | CatDone => ([term], curr, rest)
  | CatSplit => ([term], (a, lx, 64 - (dpos' - size), dpos' - 64), rest)
  | CatAdvance =>
      match rest with
      | [] => ([term], curr, [])                     (* next(pieces) raises StopIteration *)
      | nxt :: rest' =>
          if dpos' =? 64 then ([term], nxt, rest')
          else let '(ts, c, r) := cat_limb rest' nxt dpos' remaining in (term :: ts, c, r)
      end
  end.

Fixpoint cat_limbs (ns : list nat) (wd : Z) (mk : nat -> Z -> Z) (curr : piece)
    (rest : list piece) : list Z :=
  match ns with
  | [] => []
  | n :: ns' =>
      let '(ts, c, r) := cat_limb rest curr 0 (wd - 64 * Z.of_nat n) in
      mk n (lor_list ts) :: cat_limbs ns' wd mk c r
  end.

(* args in net order (first = most significant), each (bitwidth, limbs) *)
Definition c_concat (args : list (Z * list Z)) (wd : Z) : list Z :=
  let cattotal := fold_right (fun wa acc => fst wa + acc) 0 args in
  match cat_pieces args with
  | [] => []
  | p :: ps => cat_limbs (idxs wd) wd (makemask wd (Some cattotal)) p ps
  end.

(* ---- _build_select : one term per destination bit -------------------------
   bits = ((1&(src[b//64]>>(b%64)))<<en) for en, b in enumerate(param[64n : min(bw, 64(n+1))]) *)
Fixpoint enum_from (k : Z) (l : list Z) : list (Z * Z) :=
  match l with
  | [] => []
  | x :: r => (k, x) :: enum_from (k + 1) r
  end.

Definition c_select_limb (src : list Z) (chunk : list Z) : Z :=
  lor_list (map (fun eb => wrap (Z.shiftl (Z.land 1 (Z.shiftr (rd src (Z.to_nat (snd eb / 64)))
                                                              (snd eb mod 64)))
                                          (fst eb)))
                (enum_from 0 chunk)).

Definition c_select (src : list Z) (idx : list Z) (wd : Z) : list Z :=
  map (fun n => c_select_limb src
                  (skipn (64 * n) (firstn (Z.to_nat (Z.min wd (64 * (Z.of_nat n + 1)))) idx)))
      (idxs wd).

(* ---- run(): input packing / output unpacking ------------------------------
     for pos in range(start, start+count): ibuf[pos] = val & ((1 << 64) - 1); val >>= 64
     for pos in reversed(range(start, start+count)): val <<= 64; val |= buf[pos]        *)
Fixpoint c_pack (count : nat) (val : Z) : list Z :=
  match count with
  | O => []
  | S k => Z.land val (Z.shiftl 1 64 - 1) :: c_pack k (Z.shiftr val 64)
  end.

Definition c_unpack (buf : list Z) : Z :=
  fold_left (fun val x => Z.lor (Z.shiftl val 64) x) (rev buf) 0.

(* ---- register double buffering: regtmp = rin (all its limbs);
        rout[n] = regtmp[n]{mask}  with mask = _makemask(rout, rin.bitwidth, n) *)
Definition c_regcopy (wrin : Z) (rin : list Z) (wrout : Z) : list Z :=
  map (fun n => makemask wrout (Some wrin) n (rd rin n)) (idxs wrout).

(* representation invariant of a wire of width w *)
Definition limbs_ok (w : Z) (l : list Z) : Prop :=
  length l = nlimbs w /\ Forall (fun x => 0 <= x < 2 ^ 64) l /\ 0 <= limbs_to_Z l < 2 ^ w.
