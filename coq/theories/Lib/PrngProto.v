(* The load / req / ready protocol of the three generators, for EVERY schedule: the cycle-level
   structure model (PrngModel.v) produces exactly the outputs of the protocol specification built
   from the published single steps (PrngSpec.v).  Also: the LFSR output is the last `bitwidth`
   stream bits, earliest most significant. *)
From Coq Require Import ZArith List Bool Lia ZifyBool.
From PyRTL Require Import Base.PyZ Lib.PrngSpec Lib.PrngModel Lib.PrngProofs.
Import ListNotations.
Open Scope Z_scope.

Notation b2z := PrngSpec.b2z.

(* ---------------- bit lists ---------------- *)
Lemma concat_bits_app x l1 l2 : concat_bits x (l1 ++ l2) = concat_bits (concat_bits x l1) l2.
Proof. unfold concat_bits. apply fold_left_app. Qed.

Lemma msb_first_concat l : msb_first l = concat_bits 0 l.
Proof. reflexivity. Qed.

Lemma concat_bits_pow l : forall x, concat_bits x l = x * 2 ^ Z.of_nat (length l) + msb_first l.
Proof.
  induction l as [|b l IH]; intros x.
  - cbn. lia.
  - rewrite msb_first_concat. unfold concat_bits. cbn [fold_left length].
    fold (concat_bits (2 * x + b2z b) l). fold (concat_bits (2 * 0 + b2z b) l).
    rewrite !IH. rewrite Nat2Z.inj_succ, Z.pow_succ_r by lia. ring.
Qed.

Lemma low_0 x : low 0 x = 0.
Proof. unfold low. change (Z.ones 0) with 0. apply Z.land_0_r. Qed.

Lemma low_low n x : 0 <= n -> low n (low n x) = low n x.
Proof. intros. apply low_id; [assumption|]. apply low_range. assumption. Qed.

Lemma b2z_spec (t : bool) : b2z t = Z.b2z t.
Proof. destruct t; reflexivity. Qed.

(* the bit at position n splits low (n+1) *)
Lemma low_succ n x : 0 <= n -> low (n + 1) x = b2z (Z.testbit x n) * 2 ^ n + low n x.
Proof.
  intros Hn. rewrite !low_mod by lia. rewrite Z.pow_add_r by lia.
  rewrite Z.rem_mul_r by (try apply Z.pow_nonzero; lia).
  rewrite b2z_spec, Z.testbit_spec' by lia. change (2 ^ 1) with 2. ring.
Qed.

(* low n of (2M + b) *)
Lemma low_double n m t : 0 <= n -> low (n + 1) (2 * m + b2z t) = 2 * low n m + b2z t.
Proof.
  intros Hn. rewrite !low_mod by lia.
  replace (2 ^ (n + 1)) with (2 * 2 ^ n) by (rewrite Z.pow_add_r by lia; change (2 ^ 1) with 2; ring).
  assert (Hp : 0 < 2 ^ n) by (apply Z.pow_pos_nonneg; lia).
  symmetry. apply (Z.mod_unique_pos (2 * m + b2z t) (2 * 2 ^ n) (m / 2 ^ n)).
  - pose proof (Z.mod_pos_bound m (2 ^ n) Hp). destruct t; cbn [PrngSpec.b2z]; lia.
  - pose proof (Z.div_mod m (2 ^ n) ltac:(lia)). lia.
Qed.

(* the n low bits of a number written MSB-first are its n last = n newest bits *)
Lemma low_msb_firstn : forall (L : list bool) (n : nat),
  low (Z.of_nat n) (msb_first (rev L)) = msb_first (rev (firstn n L)).
Proof.
  induction L as [|b L IH]; intros n.
  - rewrite firstn_nil. cbn [rev]. unfold msb_first, low. cbn [fold_left]. apply Z.land_0_l.
  - destruct n as [|n].
    + cbn [firstn rev Z.of_nat]. rewrite low_0. reflexivity.
    + cbn [firstn rev].
      rewrite (msb_first_concat (rev L ++ [b])), (msb_first_concat (rev (firstn n L) ++ [b])).
      rewrite !concat_bits_app.
      change (concat_bits (concat_bits 0 (rev L)) [b]) with (2 * concat_bits 0 (rev L) + b2z b).
      change (concat_bits (concat_bits 0 (rev (firstn n L))) [b]) with (2 * concat_bits 0 (rev (firstn n L)) + b2z b).
      rewrite <- (msb_first_concat (rev L)), <- (msb_first_concat (rev (firstn n L))). rewrite Nat2Z.inj_succ. unfold Z.succ.
      rewrite low_double by lia. rewrite IH. reflexivity.
Qed.

(* ---------------- (3) the LFSR output is the stream, earliest bit most significant ---------------- *)
Lemma lfsr_fb_low s : lfsr_fb (low 127 s) = lfsr_fb s.
Proof. unfold lfsr_fb. rewrite !low_testbit by lia. reflexivity. Qed.

Lemma lfsr_bit0 W z : 0 < W -> Z.testbit (lfsr_step W z) 0 = lfsr_fb z.
Proof.
  intros HW. unfold lfsr_step. rewrite low_testbit by lia. replace (0 <? W) with true by lia.
  destruct (lfsr_fb z); cbn [PrngSpec.b2z].
  - apply Z.testbit_odd_0.
  - rewrite Z.add_0_r. apply Z.testbit_even_0.
Qed.

Lemma iter_bit W n : forall y i, 0 <= i -> i + Z.of_nat n < W ->
  Z.testbit (iter n (lfsr_step W) y) (i + Z.of_nat n) = Z.testbit y i.
Proof.
  induction n; intros y i Hi Hn; cbn [iter].
  - rewrite Z.add_0_r. reflexivity.
  - unfold lfsr_step at 1. rewrite bit_shift by lia.
    replace (i + Z.of_nat (S n) - 1) with (i + Z.of_nat n) by lia. apply IHn; lia.
Qed.

Lemma lfsr_stream_length n : forall s, length (lfsr_stream n s) = n.
Proof. induction n; intros; cbn [lfsr_stream length]; auto. Qed.

Theorem lfsr_output_stream : forall n W s, 127 <= W -> Z.of_nat n <= W ->
  low (Z.of_nat n) (iter n (lfsr_step W) s) = msb_first (lfsr_stream n (low 127 s)).
Proof.
  induction n; intros W s HW Hn.
  - cbn [iter lfsr_stream Z.of_nat]. rewrite low_0. reflexivity.
  - change (iter (S n) (lfsr_step W) s) with (lfsr_step W (iter n (lfsr_step W) s)).
    rewrite <- iter_shift.
    rewrite Nat2Z.inj_succ. unfold Z.succ. rewrite low_succ by lia.
    pose proof (iter_bit W n (lfsr_step W s) 0 ltac:(lia) ltac:(lia)) as Hb. rewrite Z.add_0_l in Hb.
    rewrite Hb, lfsr_bit0 by lia.
    rewrite IHn by lia. rewrite lfsr_step_127 by lia.
    cbn [lfsr_stream]. rewrite lfsr_fb_low.
    rewrite (msb_first_concat (_ :: _)). unfold concat_bits. cbn [fold_left].
    fold (concat_bits (2 * 0 + b2z (lfsr_fb s)) (lfsr_stream n (lfsr_step 127 (low 127 s)))).
    rewrite concat_bits_pow, lfsr_stream_length. ring.
Qed.

(* ---------------- (2a) prng_lfsr protocol ---------------- *)
Lemma lfsr_width_max bw : lfsr_width bw = Z.max 127 bw.
Proof. unfold lfsr_width. destruct (Z.ltb_spec bw 127); lia. Qed.

Theorem lfsr_protocol : forall bw ins lfsr, lfsr = low (lfsr_width bw) lfsr ->
  m_lfsr_run bw lfsr ins = s_lfsr_run bw lfsr ins.
Proof.
  intros bw. induction ins as [|[[load req] seed] ins IH]; intros lfsr Hinv; [reflexivity|].
  cbn [m_lfsr_run s_lfsr_run]. unfold m_lfsr_out. f_equal.
  assert (HW : 127 <= lfsr_width bw) by (rewrite lfsr_width_max; lia).
  assert (E : m_lfsr_step bw lfsr (load, req, seed) = s_lfsr_step bw lfsr (load, req, seed)).
  { unfold m_lfsr_step, s_lfsr_step, nz. rewrite <- lfsr_width_max.
    destruct (load =? 0); cbn [negb]; [|reflexivity].
    destruct (req =? 0); cbn [negb]; [reflexivity|].
    rewrite lfsr_leap_lemma by exact HW. rewrite <- Hinv. reflexivity. }
  rewrite E. apply IH. rewrite <- E.
  unfold m_lfsr_step.
  destruct (load =? 0); cbn [negb]; [|symmetry; apply low_low; lia].
  destruct (req =? 0); cbn [negb]; [exact Hinv|symmetry; apply low_low; lia].
Qed.

(* ---------------- (2c) csprng_trivium protocol ---------------- *)
Definition bpc_ok (k : Z) : Prop := In k [1; 2; 4; 8; 16; 32; 64].

Lemma bpc_facts k : bpc_ok k -> 1 <= k <= 64 /\ k * tv_init_cycles k = 1152 /\ 18 <= tv_init_cycles k.
Proof.
  unfold bpc_ok. simpl. intros [<-|[<-|[<-|[<-|[<-|[<-|[<-|[]]]]]]]]; vm_compute; intuition discriminate.
Qed.

Lemma rand_assembly bw bits zs : 0 <= bw ->
  low bw (concat_bits (msb_first (rev bits)) zs)
  = msb_first (rev (firstn (Z.to_nat bw) (rev zs ++ bits))).
Proof.
  intros Hb. rewrite (msb_first_concat (rev bits)), <- concat_bits_app, <- msb_first_concat.
  replace (rev bits ++ zs) with (rev (rev zs ++ bits)) by (rewrite rev_app_distr, rev_involutive; reflexivity).
  rewrite <- (Z2Nat.id bw) at 1 by lia. apply low_msb_firstn.
Qed.

Lemma gen_cycles_pos bw k : 0 < bw -> 0 < k -> 1 <= stv_g bw k.
Proof. intros. unfold stv_g. apply Z.div_le_lower_bound; lia. Qed.

Lemma tv_cbw_bound bw k : bpc_ok k -> 0 < bw ->
  tv_init_cycles k + 1 <= 2 ^ tv_counter_bw bw k /\ stv_g bw k <= 2 ^ tv_counter_bw bw k.
Proof.
  intros Hk Hb. destruct (bpc_facts k Hk) as (Hk1 & _ & H18).
  unfold tv_counter_bw. change (tv_gen_cycles bw k) with (stv_g bw k).
  set (M := Z.max (tv_init_cycles k + 1) (stv_g bw k)).
  pose proof (Z.log2_up_spec M ltac:(lia)). lia.
Qed.

Definition tv_rel (bw k : Z) (m : tv_state) (sp : stv_state) : Prop :=
  let '(abc, rand, counter, state) := m in
  let '(ts, bits, phase, n) := sp in
  abc = ts /\ tv_inrange ts /\ state = phase /\ rand = msb_first (rev bits) /\
  (phase = 0 \/ (phase = 1 /\ 0 <= counter <= tv_init_cycles k /\ n = k * counter)
   \/ (phase = 2 /\ 0 <= counter /\ n = counter + 1 /\ n <= stv_g bw k)).

Lemma tv_rel_intro bw k ts rand bits counter phase n :
  tv_inrange ts -> rand = msb_first (rev bits) ->
  (phase = 0 \/ (phase = 1 /\ 0 <= counter <= tv_init_cycles k /\ n = k * counter)
   \/ (phase = 2 /\ 0 <= counter /\ n = counter + 1 /\ n <= stv_g bw k)) ->
  tv_rel bw k (ts, rand, counter, phase) (ts, bits, phase, n).
Proof. intros. unfold tv_rel. auto 6. Qed.

Lemma tv_step_rel bw k m sp i : bpc_ok k -> 0 < bw -> tv_rel bw k m sp ->
  m_tv_out bw k m i = s_tv_out bw k sp i /\ tv_rel bw k (m_tv_step bw k m i) (s_tv_step bw k sp i).
Proof.
  intros Hk Hb.
  destruct m as [[[abc rand] counter] state], sp as [[[ts bits] phase] n], i as [[load req] seed].
  intros (-> & Hr & -> & -> & Hph).
  destruct (bpc_facts k Hk) as (Hk1 & Hdiv & H18).
  destruct (tv_cbw_bound bw k Hk Hb) as [Hc1 Hc2].
  pose proof (gen_cycles_pos bw k Hb ltac:(lia)) as Hg.
  assert (Hadv : m_tv_par (Z.to_nat k) ts = triv_run (Z.to_nat k) ts)
    by (apply trivium_parallel_lemma; [lia|exact Hr]).
  pose proof (triv_run_inrange (Z.to_nat k) ts Hr) as Hr'.
  change (tv_gen_cycles bw k) with (stv_g bw k) in *.
  set (g := stv_g bw k) in *. set (init := tv_init_cycles k) in *.
  set (cbw := tv_counter_bw bw k) in *.
  assert (Hcb : 0 <= cbw) by apply Z.log2_up_nonneg.
  split.
  - (* outputs *)
    unfold m_tv_out, s_tv_out, nz. rewrite !negb_involutive. f_equal.
    change (tv_gen_cycles bw k) with g. fold init. fold g.
    destruct (load =? 0), (req =? 0); cbn [andb]; try reflexivity.
    f_equal.
    destruct Hph as [->|[(-> & Hc & ->)|(-> & Hc & -> & Hn)]].
    + reflexivity.
    + change (1 =? 1) with true. change (1 =? 2) with false. cbn [andb orb]. rewrite !orb_false_r.
      destruct (Z.eqb_spec counter init), (Z.leb_spec 1152 (k * counter)); try reflexivity; nia.
    + change (2 =? 1) with false. change (2 =? 2) with true. cbn [andb orb].
      destruct (Z.eqb_spec counter (g - 1)), (Z.eqb_spec (counter + 1) g); try reflexivity; lia.
  - (* next state *)
    unfold m_tv_step, s_tv_step, nz. rewrite Hadv.
    change (tv_gen_cycles bw k) with g. fold init cbw. fold g.
    destruct (load =? 0); cbn [negb].
    2:{ apply tv_rel_intro; [apply triv_load_inrange|reflexivity|].
        right; left. fold init. lia. }
    destruct (req =? 0); cbn [negb].
    2:{ apply tv_rel_intro; [exact Hr'|apply rand_assembly; lia|].
        right; right. fold g. lia. }
    destruct Hph as [->|[(-> & Hc & ->)|(-> & Hc & -> & Hn)]].
    + change (0 =? 1) with false. change (0 =? 2) with false. cbn [andb].
      apply tv_rel_intro; [exact Hr|reflexivity|left; reflexivity].
    + change (1 =? 1) with true. cbn [andb].
      destruct (Z.eqb_spec counter init) as [E|N]; cbn [negb].
      * destruct (Z.ltb_spec (k * counter) 1152); [nia|].
        change (1 =? 2) with false. cbn [andb].
        apply tv_rel_intro; [exact Hr|reflexivity|]. right; left. fold init. lia.
      * destruct (Z.ltb_spec (k * counter) 1152); [|nia].
        rewrite (low_id cbw) by lia.
        apply tv_rel_intro; [exact Hr'|reflexivity|]. right; left. fold init. lia.
    + change (2 =? 1) with false. change (2 =? 2) with true. cbn [andb].
      destruct (Z.eqb_spec counter (g - 1)) as [E|N]; cbn [negb].
      * destruct (Z.ltb_spec (counter + 1) g); [lia|].
        apply tv_rel_intro; [exact Hr|reflexivity|]. right; right. fold g. lia.
      * destruct (Z.ltb_spec (counter + 1) g); [|lia].
        rewrite (low_id cbw) by lia.
        apply tv_rel_intro; [exact Hr'|apply rand_assembly; lia|]. right; right. fold g. lia.
Qed.

Lemma tv_run_rel bw k : bpc_ok k -> 0 < bw -> forall ins m sp, tv_rel bw k m sp ->
  m_tv_run bw k m ins = s_tv_run bw k sp ins.
Proof.
  intros Hk Hb. induction ins as [|i ins IH]; intros m sp R; [reflexivity|].
  cbn [m_tv_run s_tv_run]. destruct (tv_step_rel bw k m sp i Hk Hb R) as [Eo R'].
  rewrite Eo. f_equal. apply IH. exact R'.
Qed.

Theorem trivium_protocol bw k ins : 0 < bw -> bpc_ok k ->
  m_tv_run bw k tv_init ins = s_tv_run bw k stv_init ins.
Proof.
  intros Hb Hk. apply tv_run_rel; try assumption.
  apply tv_rel_intro; [|reflexivity|left; reflexivity].
  unfold tv_inrange. repeat split; (lia || (apply Z.pow_pos_nonneg; lia)).
Qed.

(* ---------------- (2b) prng_xoroshiro128 protocol ---------------- *)
Definition word64 (w : Z) : Prop := 0 <= w < 2 ^ 64.
Definition V (l : list Z) : Z := fold_right (fun w acc => w + Z.shiftl acc 64) 0 l.

Lemma low_land0 n : low n 0 = 0.
Proof. unfold low. apply Z.land_0_l. Qed.

Lemma low_shift64 m w X : 0 <= m -> word64 w ->
  low (64 + m) (w + Z.shiftl X 64) = w + Z.shiftl (low m X) 64.
Proof.
  intros Hm Hw. unfold word64 in Hw. rewrite !Z.shiftl_mul_pow2 by lia. rewrite !low_mod by lia.
  rewrite Z.pow_add_r by lia.
  assert (0 < 2 ^ 64) by (apply Z.pow_pos_nonneg; lia).
  assert (0 < 2 ^ m) by (apply Z.pow_pos_nonneg; lia).
  rewrite Z.rem_mul_r by lia.
  rewrite Z.mod_add by lia. rewrite Z.div_add by lia.
  rewrite (Z.mod_small w), (Z.div_small w) by lia. rewrite Z.add_0_l. ring.
Qed.

Lemma Forall_firstn' {A} (P : A -> Prop) n : forall l, Forall P l -> Forall P (firstn n l).
Proof.
  induction n; intros l H; cbn [firstn]; [constructor|].
  destruct l; [constructor|]. inversion H; subst. constructor; auto.
Qed.

Lemma V_low : forall m ws, Forall word64 ws -> low (64 * Z.of_nat m) (V ws) = V (firstn m ws).
Proof.
  induction m; intros ws H.
  - cbn [Z.of_nat firstn]. rewrite Z.mul_0_r, low_0. reflexivity.
  - destruct ws as [|w ws]; [cbn [firstn V fold_right]; apply low_land0|].
    inversion H; subst. cbn [firstn]. unfold V at 1 2. cbn [fold_right]. fold (V ws). fold (V (firstn m ws)).
    replace (64 * Z.of_nat (S m)) with (64 + 64 * Z.of_nat m) by lia.
    rewrite low_shift64 by (assumption || lia). rewrite IHm by assumption. reflexivity.
Qed.

Lemma V_push g w ws : (1 <= g)%nat -> word64 w -> Forall word64 ws ->
  low (64 * Z.of_nat g) (Z.shiftl (V (firstn g ws)) 64 + w) = V (firstn g (w :: ws)).
Proof.
  intros Hg Hw Hws. destruct g as [|g']; [lia|].
  rewrite firstn_cons. unfold V at 2. cbn [fold_right]. fold (V (firstn g' ws)).
  replace (64 * Z.of_nat (S g')) with (64 + 64 * Z.of_nat g') by lia.
  rewrite (Z.add_comm (Z.shiftl _ 64) w). rewrite low_shift64 by (assumption || lia).
  rewrite V_low by (apply Forall_firstn'; exact Hws).
  rewrite firstn_firstn. replace (Nat.min g' (S g')) with g' by lia. reflexivity.
Qed.

Lemma xo_g_eq bw : xo_gen_cycles bw = sxo_g bw.
Proof. unfold xo_gen_cycles, ceil_div, sxo_g. f_equal. lia. Qed.

Definition xo_rel (bw : Z) (m : xo_state) (sp : sxo_state) : Prop :=
  let '(s0, s1, rand, counter, state) := m in
  let '(s, words, collected, gen) := sp in
  s = (s0, s1) /\ word64 s0 /\ word64 s1 /\ state = (if gen then 1 else 0) /\
  Forall word64 words /\ rand = V (firstn (Z.to_nat (sxo_g bw)) words) /\
  (gen = true -> 0 <= counter /\ collected = counter + 1 /\ collected <= sxo_g bw).

Lemma xo_rel_intro bw s0 s1 rand counter state s words collected (gen : bool) :
  s = (s0, s1) -> word64 s0 -> word64 s1 -> state = (if gen then 1 else 0) ->
  Forall word64 words -> rand = V (firstn (Z.to_nat (sxo_g bw)) words) ->
  (gen = true -> 0 <= counter /\ collected = counter + 1 /\ collected <= sxo_g bw) ->
  xo_rel bw (s0, s1, rand, counter, state) (s, words, collected, gen).
Proof. intros. unfold xo_rel. auto 8. Qed.

Lemma low_word64 x : word64 (low 64 x).
Proof. apply low_range. lia. Qed.

Lemma xo_step_rel bw m sp i : 0 < bw -> xo_rel bw m sp ->
  m_xo_out bw m i = s_xo_out bw sp i /\ xo_rel bw (m_xo_step bw m i) (s_xo_step bw sp i).
Proof.
  intros Hb.
  destruct m as [[[[s0 s1] rand] counter] state], sp as [[[s words] collected] gen], i as [[load req] seed].
  intros (-> & H0 & H1 & -> & Hw & -> & Hgen).
  assert (Hg : 1 <= sxo_g bw) by (unfold sxo_g; apply Z.div_le_lower_bound; lia).
  destruct (xoroshiro_step_lemma s0 s1 H0 H1) as (Eo & E0 & E1).
  set (g := sxo_g bw) in *.
  split.
  - unfold m_xo_out, s_xo_out, nz. rewrite !negb_involutive, xo_g_eq. fold g. f_equal.
    + f_equal. destruct (load =? 0), (req =? 0); cbn [andb]; try reflexivity.
      destruct gen; cbn [andb]; [|reflexivity].
      change (1 =? 1) with true. cbn [andb].
      destruct (Hgen eq_refl) as (Hc & -> & Hle).
      destruct (Z.eqb_spec counter (g - 1)), (Z.eqb_spec (counter + 1) g); try reflexivity; lia.
    + replace (g * 64 - bw) with (64 * g - bw) by lia. reflexivity.
  - unfold m_xo_step, s_xo_step, nz. rewrite xo_g_eq. fold g.
    rewrite E0, E1, Eo.
    set (nx := xoro_next (s0, s1)) in *.
    assert (Wn0 : word64 (fst (snd nx))) by (rewrite <- E0; apply low_word64).
    assert (Wn1 : word64 (snd (snd nx))) by (rewrite <- E1; apply low_word64).
    assert (Wo : word64 (fst nx)) by (rewrite <- Eo; apply low_word64).
    assert (Epair : snd nx = (fst (snd nx), snd (snd nx))) by (destruct (snd nx); reflexivity).
    assert (Push : low (g * 64) (Z.shiftl (V (firstn (Z.to_nat g) words)) 64 + fst nx)
                   = V (firstn (Z.to_nat g) (fst nx :: words))).
    { replace (g * 64) with (64 * Z.of_nat (Z.to_nat g)) by lia. apply V_push; (assumption || lia). }
    destruct (load =? 0); cbn [negb].
    2:{ apply xo_rel_intro; try apply low_word64; try assumption; try reflexivity; try discriminate. }
    destruct (req =? 0); cbn [negb].
    2:{ rewrite Push.
        apply xo_rel_intro; try assumption; try reflexivity; try (constructor; assumption); try (intros _; fold g; lia). }
    destruct gen; cbn [andb].
    + change (1 =? 1) with true. cbv iota.
      destruct (Hgen eq_refl) as (Hc & -> & Hle).
      destruct (Z.eqb_spec counter (g - 1)) as [E|N]; cbn [negb].
      * destruct (Z.ltb_spec (counter + 1) g); [lia|].
        apply xo_rel_intro; try assumption; try reflexivity; try (intros _; fold g; lia).
      * destruct (Z.ltb_spec (counter + 1) g); [|lia].
        rewrite Push.
        assert (Hcb : low (xo_counter_bw bw) (counter + 1) = counter + 1).
        { unfold xo_counter_bw. rewrite xo_g_eq. fold g.
          destruct (Z.ltb_spec 1 g); [|lia].
          pose proof (Z.log2_up_spec g ltac:(lia)). pose proof (Z.log2_up_nonneg g).
          apply low_id; lia. }
        rewrite Hcb.
        apply xo_rel_intro; try assumption; try reflexivity; try (constructor; assumption); try (intros _; fold g; lia).
    + change (0 =? 1) with false. cbv iota.
      apply xo_rel_intro; try assumption; try reflexivity; try discriminate.
Qed.

Lemma xo_run_rel bw : 0 < bw -> forall ins m sp, xo_rel bw m sp ->
  m_xo_run bw m ins = s_xo_run bw sp ins.
Proof.
  intros Hb. induction ins as [|i ins IH]; intros m sp R; [reflexivity|].
  cbn [m_xo_run s_xo_run]. destruct (xo_step_rel bw m sp i Hb R) as [Eo R'].
  rewrite Eo. f_equal. apply IH. exact R'.
Qed.

Theorem xoroshiro_protocol bw ins : 0 < bw -> m_xo_run bw xo_init ins = s_xo_run bw sxo_init ins.
Proof.
  intros Hb. apply xo_run_rel; [exact Hb|].
  unfold xo_init, sxo_init.
  apply xo_rel_intro; try reflexivity; try (unfold word64; split; [lia|apply Z.pow_pos_nonneg; lia]).
  - constructor.
  - rewrite firstn_nil. reflexivity.
  - discriminate.
Qed.

(* all three generators, every schedule *)
Theorem prng_protocol_all :
  (forall bw ins, 0 < bw -> m_lfsr_run bw 0 ins = s_lfsr_run bw 0 ins) /\
  (forall bw ins, 0 < bw -> m_xo_run bw xo_init ins = s_xo_run bw sxo_init ins) /\
  (forall bw k ins, 0 < bw -> In k [1; 2; 4; 8; 16; 32; 64] ->
     m_tv_run bw k tv_init ins = s_tv_run bw k stv_init ins).
Proof.
  split; [|split].
  - intros bw ins _. apply lfsr_protocol. symmetry. apply low_land0.
  - intros bw ins Hb. apply xoroshiro_protocol. exact Hb.
  - intros bw k ins Hb Hk. apply trivium_protocol; assumption.
Qed.

(* one request from any register content: rand afterwards = the next `bitwidth` bits of the
   127-bit LFSR stream started from the register's low 127 bits, earliest bit most significant *)
Theorem lfsr_request_is_stream bw lfsr seed : 0 < bw ->
  m_lfsr_out bw (m_lfsr_step bw lfsr (0, 1, seed))
  = msb_first (lfsr_stream (Z.to_nat bw) (low 127 lfsr)).
Proof.
  intros Hb. unfold m_lfsr_out, m_lfsr_step. change (negb (0 =? 0)) with false. change (negb (1 =? 0)) with true.
  cbv iota.
  assert (HW : 127 <= lfsr_width bw) by (rewrite lfsr_width_max; lia).
  assert (Hle : bw <= lfsr_width bw) by (rewrite lfsr_width_max; lia).
  rewrite lfsr_leap_lemma by exact HW.
  pose proof (lfsr_output_stream (Z.to_nat bw) (lfsr_width bw) (low (lfsr_width bw) lfsr) HW ltac:(lia)) as H.
  rewrite Z2Nat.id in H by lia. rewrite H. f_equal. f_equal.
  apply Z.bits_inj'. intros i Hi. rewrite !low_testbit by lia.
  destruct (i <? 127) eqn:E; [|reflexivity]. replace (i <? lfsr_width bw) with true by lia. reflexivity.
Qed.

(* ---------------- waiting is stationary ----------------
   In every state in which a unit waits for the user (nothing loaded yet, seed initialised, result
   delivered) ANY number of idle cycles (load = req = 0, arbitrary seed input) leaves every register
   unchanged, and the outputs (ready, rand) are constant -- no internal counter keeps running. *)
Definition idle_in (i : Z * Z * Z) : Prop := fst (fst i) = 0 /\ snd (fst i) = 0.

Definition tv_waiting (bw k : Z) (m : tv_state) : Prop :=
  let '(abc, rand, counter, state) := m in
  state = 0 \/ (state = 1 /\ counter = tv_init_cycles k) \/ (state = 2 /\ counter = tv_gen_cycles bw k - 1).
Definition xo_waiting (bw : Z) (m : xo_state) : Prop :=
  let '(s0, s1, rand, counter, state) := m in
  state = 0 \/ (state = 1 /\ counter = xo_gen_cycles bw - 1).

Lemma tv_idle_step bw k m i : idle_in i -> tv_waiting bw k m ->
  m_tv_step bw k m i = m /\ m_tv_out bw k m i = m_tv_out bw k m (0, 0, 0).
Proof.
  destruct m as [[[abc rand] counter] state], i as [[load req] seed].
  unfold idle_in. cbn [fst snd]. intros [-> ->] W. split; [|reflexivity].
  unfold m_tv_step. change (negb (0 =? 0)) with false. cbv iota zeta.
  destruct W as [->|[[-> ->]|[-> ->]]].
  - reflexivity.
  - change (1 =? 1) with true. cbv iota. rewrite Z.eqb_refl. reflexivity.
  - change (2 =? 1) with false. change (2 =? 2) with true. cbv iota. rewrite Z.eqb_refl. reflexivity.
Qed.

Lemma xo_idle_step bw m i : idle_in i -> xo_waiting bw m ->
  m_xo_step bw m i = m /\ m_xo_out bw m i = m_xo_out bw m (0, 0, 0).
Proof.
  destruct m as [[[[s0 s1] rand] counter] state], i as [[load req] seed].
  unfold idle_in. cbn [fst snd]. intros [-> ->] W. split; [|reflexivity].
  unfold m_xo_step. change (negb (0 =? 0)) with false. cbv iota zeta.
  destruct W as [->|[-> ->]].
  - reflexivity.
  - change (1 =? 1) with true. cbv iota. rewrite Z.eqb_refl. reflexivity.
Qed.

Theorem tv_waiting_stationary bw k : forall ins m, Forall idle_in ins -> tv_waiting bw k m ->
  fold_left (m_tv_step bw k) ins m = m /\
  m_tv_run bw k m ins = repeat (m_tv_out bw k m (0, 0, 0)) (length ins).
Proof.
  induction ins as [|i ins IH]; intros m HF W; [split; reflexivity|].
  pose proof (Forall_inv HF) as Hi. apply Forall_inv_tail in HF.
  destruct (tv_idle_step bw k m i Hi W) as [Es Eo].
  cbn [fold_left m_tv_run length repeat]. rewrite Es, Eo.
  destruct (IH m HF W) as [E1 E2]. rewrite E1, E2. split; reflexivity.
Qed.

Theorem xo_waiting_stationary bw : forall ins m, Forall idle_in ins -> xo_waiting bw m ->
  fold_left (m_xo_step bw) ins m = m /\
  m_xo_run bw m ins = repeat (m_xo_out bw m (0, 0, 0)) (length ins).
Proof.
  induction ins as [|i ins IH]; intros m HF W; [split; reflexivity|].
  pose proof (Forall_inv HF) as Hi. apply Forall_inv_tail in HF.
  destruct (xo_idle_step bw m i Hi W) as [Es Eo].
  cbn [fold_left m_xo_run length repeat]. rewrite Es, Eo.
  destruct (IH m HF W) as [E1 E2]. rewrite E1, E2. split; reflexivity.
Qed.

Theorem lfsr_idle_stationary bw : forall ins lfsr, Forall idle_in ins ->
  fold_left (m_lfsr_step bw) ins lfsr = lfsr /\
  m_lfsr_run bw lfsr ins = repeat (m_lfsr_out bw lfsr) (length ins).
Proof.
  induction ins as [|[[load req] seed] ins IH]; intros lfsr HF; [split; reflexivity|].
  pose proof (Forall_inv HF) as Hi. apply Forall_inv_tail in HF.
  unfold idle_in in Hi. cbn [fst snd] in Hi. destruct Hi as [-> ->].
  cbn [fold_left m_lfsr_run length repeat].
  change (m_lfsr_step bw lfsr (0, 0, seed)) with lfsr.
  destruct (IH lfsr HF) as [E1 E2]. rewrite E1, E2. split; reflexivity.
Qed.

(* the waiting states are the ones in which ready is raised (or nothing was ever requested) *)
Lemma tv_ready_is_waiting bw k m : fst (m_tv_out bw k m (0, 0, 0)) = 1 -> tv_waiting bw k m.
Proof.
  destruct m as [[[abc rand] counter] state]. unfold m_tv_out, tv_waiting. cbn [fst].
  change (0 =? 0) with true. cbn [andb].
  destruct (Z.eqb_spec state 1), (Z.eqb_spec state 2), (Z.eqb_spec counter (tv_init_cycles k)),
    (Z.eqb_spec counter (tv_gen_cycles bw k - 1)); cbn; intros; try discriminate; auto.
Qed.

(* ---------------- the degenerate seed 0 (legal as an integer seed): all-zero streams ---------------- *)
Theorem zero_seed_streams : forall n,
  lfsr_stream n 0 = repeat false n /\ xoro_words n (0, 0) = repeat 0 n.
Proof.
  induction n as [|n [IH1 IH2]]; [split; reflexivity|].
  split.
  - cbn [lfsr_stream repeat]. change (lfsr_fb 0) with false. change (lfsr_step 127 0) with 0. rewrite IH1. reflexivity.
  - cbn [xoro_words repeat]. change (fst (xoro_next (0, 0))) with 0. change (snd (xoro_next (0, 0))) with (0, 0).
    rewrite IH2. reflexivity.
Qed.
