(* The STRUCTURE model of pyrtl/rtllib/aes.py: the same functions, in the same order, with the
   same byte/word ordering (libutils.partition_wire is little-end-first, pyrtl.concat_list puts
   element 0 at the least significant end), over 128-bit integers.  Every table, index tuple,
   multiplier list and loop bound comes from Gen/AesTables.v, which is regenerated from the source
   on every run.  Definitions only; proofs are in AesProofs.v. *)
From Coq Require Import ZArith List Bool.
From PyRTL Require Import Gen.AesTables Lib.AesSpec.
Import ListNotations.
Open Scope Z_scope.

(* asynchronous RomBlock(bitwidth=8, addrwidth=8, romdata=<list>) read *)
Definition rom (tbl : list Z) (addr : Z) : Z := nth (Z.to_nat addr) tbl 0.

Definition part8 (x : Z) : list Z := partition 8 16 x.

(* _sub_bytes *)
Definition m_sub_bytes (inverse : bool) (x : Z) : Z :=
  concat_list 8 (map (rom (if inverse then mem_inv_sbox else mem_sbox)) (part8 x)).

(* _shift_rows / _inv_shift_rows: concat_list((a[i0], a[i1], ...)) *)
Definition m_select (idx : list nat) (x : Z) : Z :=
  let a := part8 x in concat_list 8 (map (fun i => nth i a 0) idx).
Definition m_shift_rows : Z -> Z := m_select shift_rows_idx.
Definition m_inv_shift_rows : Z -> Z := m_select inv_shift_rows_idx.

(* _galois_mult *)
Fixpoint gm_table (k : Z) (l : list (Z * list Z)) : list Z :=
  match l with [] => [] | (k', t) :: l' => if k =? k' then t else gm_table k l' end.
Definition m_galois_mult (c mult_table : Z) : Z :=
  if mult_table =? 1 then c else rom (gm_table mult_table galois_mults) c.

(* _mix_col_subgroup / _mix_single *)
Definition m_mix_single (a mults : list Z) (index : nat) : Z :=
  let items := map (fun lm => m_galois_mult (nth ((index + fst lm) mod 4) a 0) (snd lm))
                   (combine (seq 0 (length mults)) mults) in
  xor4 (nth 0 items 0) (nth 1 items 0) (nth 2 items 0) (nth 3 items 0).
Definition m_mix_col_subgroup (mults : list Z) (x : Z) : Z :=
  let a := partition 8 4 x in
  concat_list 8 (map (m_mix_single a mults) (seq 0 (length a))).
(* _mix_columns *)
Definition m_mix_columns (inverse : bool) (x : Z) : Z :=
  let mults := if inverse then inv_mix_mults else mix_mults in
  concat_list 32 (map (m_mix_col_subgroup mults) (partition 32 4 x)).

(* _g: rcon_val is self._rcon_data[round+1] (int round) or self.rcon[round+1] (wire round) *)
Definition m_g (word rcon_val : Z) : Z :=
  let a := partition 8 4 word in
  let sub := map (fun i => rom mem_sbox (nth i a 0)) g_rot_idx in
  concat_list 8 [nth 0 sub 0; nth 1 sub 0; nth 2 sub 0; Z.lxor (nth 3 sub 0) rcon_val].

(* _key_expansion: x = [w3^g(w0)]; x.insert(0, x[0]^w[2]); x.insert(0, x[0]^w[1]);
   x.insert(0, x[0]^w[0]); concat_list(x) *)
Definition m_key_expansion (old_key rcon_val : Z) : Z :=
  let w := partition 32 4 old_key in
  let x3 := Z.lxor (nth 3 w 0) (m_g (nth 0 w 0) rcon_val) in
  let x2 := Z.lxor x3 (nth 2 w 0) in
  let x1 := Z.lxor x2 (nth 1 w 0) in
  let x0 := Z.lxor x1 (nth 0 w 0) in
  concat_list 32 [x0; x1; x2; x3].

Definition rcon_int (round : nat) : Z := nth (round + 1) tbl_rcon_data 0.   (* self._rcon_data[r+1] *)
Definition rcon_rom (round : Z) : Z := rom mem_rcon (round + 1).            (* self.rcon[r+1] *)

(* _key_gen *)
Fixpoint m_key_gen (n round : nat) (key : Z) : list Z :=
  match n with
  | O => []
  | S n' => let k := m_key_expansion key (rcon_int round) in k :: m_key_gen n' (S round) k
  end.
Definition m_key_list (key : Z) : list Z := key :: m_key_gen key_gen_rounds 0 key.

(* encryption *)
Fixpoint m_enc_rounds (n round : nat) (keys : list Z) (t : Z) : Z :=
  match n with
  | O => t
  | S n' =>
      let t := m_sub_bytes false t in
      let t := m_shift_rows t in
      let t := if negb (round =? encryption_nomix_round)%nat then m_mix_columns false t else t in
      m_enc_rounds n' (S round) keys (Z.lxor t (nth round keys 0))
  end.
Definition m_encryption (key plaintext : Z) : Z :=
  let kl := m_key_list key in
  m_enc_rounds (encryption_stop_round - encryption_first_round) encryption_first_round kl
               (Z.lxor plaintext (nth 0 kl 0)).

(* decryption *)
Fixpoint m_dec_rounds (n round : nat) (keys : list Z) (t : Z) : Z :=
  match n with
  | O => t
  | S n' =>
      let t := m_inv_shift_rows t in
      let t := m_sub_bytes true t in
      let t := Z.lxor t (nth (10 - round) keys 0) in
      let t := if negb (round =? decryption_nomix_round)%nat then m_mix_columns true t else t in
      m_dec_rounds n' (S round) keys t
  end.
Definition m_decryption (key ciphertext : Z) : Z :=
  let kl := m_key_list key in
  m_dec_rounds (decryption_stop_round - decryption_first_round) decryption_first_round kl
               (Z.lxor ciphertext (nth 10 kl 0)).

(* ---- the state machines: registers (counter : 4 bits, text, key), all reset to 0;
        inputs per cycle (reset, text_in, key_in); outputs (ready, text register) ---- *)
Definition sm_state := (Z * Z * Z)%type.
Definition sm_input := (Z * Z * Z)%type.
Definition sm_init : sm_state := (0, 0, 0).
Definition sm_out (s : sm_state) : Z * Z :=
  let '(counter, text, _) := s in (if counter =? 10 then 1 else 0, text).

(* encrypt_state_m *)
Definition enc_sm_step (s : sm_state) (i : sm_input) : sm_state :=
  let '(counter, text, key) := s in
  let '(reset, pt_in, key_in) := i in
  if reset =? 1 then (0, Z.lxor pt_in key_in, key_in)
  else if counter =? 10 then (counter, text, key)
  else
    let key_out := m_key_expansion key (rcon_rom counter) in
    let shift_out := m_shift_rows (m_sub_bytes false text) in
    let add_round_in := if counter =? 9 then shift_out else m_mix_columns false shift_out in
    ((counter + 1) mod 16, Z.lxor add_round_in key_out, key_out).

(* decryption_statem: key_out = mux(round, *reversed(_key_gen(key_exp_in)), default=0) *)
Definition dec_key_out (key_exp_in round : Z) : Z :=
  nth (Z.to_nat round) (rev (m_key_list key_exp_in)) 0.
Definition dec_sm_step (s : sm_state) (i : sm_input) : sm_state :=
  let '(counter, text, key) := s in
  let '(reset, ct_in, key_in) := i in
  if reset =? 1 then (0, Z.lxor ct_in (dec_key_out key_in 0), key_in)
  else if counter =? 10 then (counter, text, key)
  else
    let round := (counter + 1) mod 16 in
    let inv_sub := m_sub_bytes true (m_inv_shift_rows text) in
    let add_round_out := Z.lxor inv_sub (dec_key_out key round) in
    (round, if counter =? 9 then add_round_out else m_mix_columns true add_round_out, key).

Fixpoint sm_run (step : sm_state -> sm_input -> sm_state) (s : sm_state) (ins : list sm_input)
  : list (Z * Z) :=
  match ins with
  | [] => []
  | i :: ins' => sm_out s :: sm_run step (step s i) ins'
  end.

(* ---- harness entry points (nested lists of Z) ---- *)
Definition pair2 (p : Z * Z) : list Z := [fst p; snd p].
(* per (key, block): [model enc; model dec; spec Cipher; spec InvCipher] *)
Definition aes_case (kb : Z * Z) : list Z :=
  let '(k, b) := kb in [m_encryption k b; m_decryption k b; CipherZ k b; InvCipherZ k b].
Definition aes_cases (l : list (Z * Z)) : list (list Z) := map aes_case l.
(* the sub-circuits, in the order: sub, inv_sub, shift, inv_shift, mix, inv_mix, key_expansion r=0..9 *)
Definition aes_parts (x : Z) : list Z :=
  [m_sub_bytes false x; m_sub_bytes true x; m_shift_rows x; m_inv_shift_rows x;
   m_mix_columns false x; m_mix_columns true x] ++ map (fun r => m_key_expansion x (rcon_int r)) (seq 0 10).
Definition enc_sm_trace (ins : list sm_input) : list (list Z) := map pair2 (sm_run enc_sm_step sm_init ins).
Definition dec_sm_trace (ins : list sm_input) : list (list Z) := map pair2 (sm_run dec_sm_step sm_init ins).

(* compact summaries of state-machine traces for the harness (printing big numbers from Coq is
   slow): 320-bit polynomial digest over all cycles (cycle = 2*text + ready), length, last cycle,
   and the first 12 rising edges of ready with the text register there *)
Definition sm_HM : Z := 0x9E3779B97F4A7C15F39CC0605CEDC8341082276BF3A27251F86C6A11D0C18E95.
Definition sm_digest (l : list Z) : Z :=
  fold_left (fun h v => Z.land (h * sm_HM + v + 1) (Z.ones 320)) l 0.
Fixpoint sm_rises (n : nat) (prev idx : Z) (l : list Z) : list (list Z) :=
  match l with
  | [] => []
  | v :: t =>
      if Z.testbit v 0 && negb (Z.testbit prev 0) then
        match n with O => [] | S n' => [idx; Z.shiftr v 1] :: sm_rises n' v (idx + 1) t end
      else sm_rises n v (idx + 1) t
  end.
Definition sm_summary (tr : list (Z * Z)) : list (list Z) :=
  let l := map (fun p => Z.shiftl (snd p) 1 + fst p) tr in
  [sm_digest l; Z.of_nat (length l); last l 0] :: sm_rises 12 0 0 l.
Definition enc_sm_sum (ins : list sm_input) : list (list Z) := sm_summary (sm_run enc_sm_step sm_init ins).
Definition dec_sm_sum (ins : list sm_input) : list (list Z) := sm_summary (sm_run dec_sm_step sm_init ins).
