(* Bit lists (list bool, LSB first) -- definitions only, no proofs.
   A PyRTL WireVector of bitwidth n is modelled by the list of its n bits,
   index 0 = least significant bit (the same order as iterating over a
   WireVector / concat_list). *)
From PyRTL Require Export Base.PyZ.

(* value of a bit list (unsigned) *)
Fixpoint bval (l : list bool) : Z :=
  match l with [] => 0 | b :: t => b2z b + 2 * bval t end.

(* the n low bits of z (two's complement for negative z) *)
Fixpoint zbits (n : nat) (z : Z) : list bool :=
  match n with O => [] | S k => Z.odd z :: zbits k (Z.div2 z) end.

(* WireVector.zero_extended / match_bitwidth (unsigned) *)
Definition zext (n : nat) (l : list bool) : list bool := l ++ repeat false (n - length l).

(* two's complement reading of a bit list (val_to_signed_integer) *)
Definition sval (l : list bool) : Z :=
  if last l false then bval l - 2 ^ Z.of_nat (length l) else bval l.

Fixpoint map2 {A B C} (f : A -> B -> C) (a : list A) (b : list B) : list C :=
  match a, b with x :: ta, y :: tb => f x y :: map2 f ta tb | _, _ => [] end.

(* number of 1 bits in a column of one-bit wires *)
Fixpoint popc (l : list bool) : Z :=
  match l with [] => 0 | b :: t => b2z b + popc t end.

(* lst[i] = x *)
Fixpoint set_nth {A} (i : nat) (x : A) (l : list A) : list A :=
  match l with
  | [] => []
  | h :: t => match i with O => x :: t | S j => h :: set_nth j x t end
  end.

(* _one_bit_add_no_concat: (sum, cout) *)
Definition full_add (a b c : bool) : bool * bool :=
  (xorb (xorb a b) c, (a && b) || (a && c) || (b && c)).

(* half_adder: (sum, cout) *)
Definition half_add (a b : bool) : bool * bool := (xorb a b, a && b).

Definition match2 (a b : list bool) : list bool * list bool :=
  let n := Nat.max (length a) (length b) in (zext n a, zext n b).

(* weighted sum of a column array: sum_i 2^i * popcount(col_i) *)
Fixpoint colsum (cols : list (list bool)) : Z :=
  match cols with [] => 0 | c :: r => popc c + 2 * colsum r end.
