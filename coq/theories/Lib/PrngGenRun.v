(* Running the step functions REGENERATED from prngs.py (Gen/PrngFrag.v) over an input schedule,
   and their trace summaries for the harness.  Definitions only (no proofs), so the harness can
   still execute the regenerated functions against the real circuits when a bridging proof breaks. *)
From Coq Require Import ZArith List Bool.
From PyRTL Require Import Lib.PrngSpec Lib.PrngGenBase Gen.PrngFrag.
Import ListNotations.
Open Scope Z_scope.

Fixpoint g_lfsr_run (bw : Z) (regs : Z) (ins : list (Z * Z * Z)) : list Z :=
  match ins with
  | [] => []
  | i :: t => snd (g_lfsr_step bw regs i) :: g_lfsr_run bw (fst (g_lfsr_step bw regs i)) t
  end.
Fixpoint g_xo_run (bw : Z) (regs : Z * Z * Z * Z * Z) (ins : list (Z * Z * Z)) : list (Z * Z) :=
  match ins with
  | [] => []
  | i :: t => snd (g_xo_step bw regs i) :: g_xo_run bw (fst (g_xo_step bw regs i)) t
  end.
Fixpoint g_tv_run (bw k : Z) (regs : Z * Z * Z * Z * Z * Z) (ins : list (Z * Z * Z)) : list (Z * Z) :=
  match ins with
  | [] => []
  | i :: t => snd (g_tv_step bw k regs i) :: g_tv_run bw k (fst (g_tv_step bw k regs i)) t
  end.

(* harness entry points: all registers start at 0 *)
Definition g_lfsr_sum (bw : Z) (ins : list (Z * Z * Z)) : list (list Z) :=
  summary (map (fun r => Z.shiftl r 1) (g_lfsr_run bw 0 ins)).
Definition g_xo_sum (bw : Z) (ins : list (Z * Z * Z)) : list (list Z) :=
  summary (map enc_cycle (g_xo_run bw (0, 0, 0, 0, 0) ins)).
Definition g_tv_sum (bw k : Z) (ins : list (Z * Z * Z)) : list (list Z) :=
  summary (map enc_cycle (g_tv_run bw k (0, 0, 0, 0, 0, 0) ins)).
