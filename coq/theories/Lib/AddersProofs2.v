(* cla_adder is exact for every look-ahead unit length >= 1. *)
From PyRTL Require Import Lib.Adders Lib.BitListFacts Lib.AddersProofs.
From Coq Require Import ZifyBool.

(* ripple recurrence on (generate, propagate) pairs: (sum bits, carry out) *)
Fixpoint ripple_gp (gp : list (bool * bool)) (c : bool) : list bool * bool :=
  match gp with
  | [] => ([], c)
  | (g, p) :: t => let '(ss, co) := ripple_gp t (g || (p && c)) in (xorb p c :: ss, co)
  end.

(* the look-ahead loop computes the ripple recurrence: its group generate /
   propagate give the same carry out *)
Lemma cla_loop_ripple cin t : forall cg cp cprev,
  cprev = cg || (cp && cin) ->
  ripple_gp t cprev =
  (fst (cla_unit_loop t cg cp cprev),
   fst (snd (cla_unit_loop t cg cp cprev)) || (snd (snd (cla_unit_loop t cg cp cprev)) && cin)).
Proof.
  induction t as [|[g p] t IH]; intros cg cp cprev H.
  - cbn [ripple_gp cla_unit_loop fst snd]. rewrite H. reflexivity.
  - cbn [ripple_gp cla_unit_loop].
    rewrite (IH (g || (p && cg)) (cp && p) (g || (p && cprev))).
    + destruct (cla_unit_loop t (g || p && cg) (cp && p) (g || p && cprev)) as [ss [cg' cp']].
      reflexivity.
    + subst cprev. destruct g, p, cg, cp, cin; reflexivity.
Qed.

Lemma cla_unit_ripple a b cin :
  cla_unit a b cin = ripple_gp (combine (map2 andb a b) (map2 xorb a b)) cin.
Proof.
  unfold cla_unit. destruct (combine (map2 andb a b) (map2 xorb a b)) as [|[g0 p0] t].
  - reflexivity.
  - cbn [ripple_gp]. rewrite (cla_loop_ripple cin t g0 p0 (g0 || (p0 && cin)) eq_refl).
    destruct (cla_unit_loop t g0 p0 (g0 || p0 && cin)) as [ss [cg cp]]. reflexivity.
Qed.

Lemma ripple_gp_val a : forall b c, length a = length b ->
  let r := ripple_gp (combine (map2 andb a b) (map2 xorb a b)) c in
  bval (fst r) + 2 ^ Z.of_nat (length a) * b2z (snd r) = bval a + bval b + b2z c /\
  length (fst r) = length a.
Proof.
  induction a as [|x ta IH]; intros [|y tb] c H; cbn [length] in H; try lia.
  - cbn [map2 combine ripple_gp fst snd bval length]. change (2 ^ Z.of_nat 0) with 1.
    split; [lia|reflexivity].
  - cbn [map2 combine ripple_gp].
    specialize (IH tb (x && y || xorb x y && c) ltac:(lia)). cbn zeta in IH.
    destruct (ripple_gp (combine (map2 andb ta tb) (map2 xorb ta tb)) (x && y || xorb x y && c))
      as [ss co].
    cbn [fst snd bval length] in *. destruct IH as [IH1 IH2].
    rewrite Nat2Z.inj_succ, Z.pow_succ_r by lia. split; [|lia].
    destruct x, y, c; cbn [xorb andb orb b2z] in *; lia.
Qed.

Lemma cla_unit_val a b c : length a = length b ->
  bval (fst (cla_unit a b c)) + 2 ^ Z.of_nat (length a) * b2z (snd (cla_unit a b c))
  = bval a + bval b + b2z c /\ length (fst (cla_unit a b c)) = length a.
Proof. intros H. rewrite cla_unit_ripple. apply ripple_gp_val. assumption. Qed.

Lemma cla_rec_val la fuel : forall a b c, (1 <= la)%nat -> length a = length b ->
  (length a < fuel)%nat ->
  bval (cla_rec fuel la a b c) = bval a + bval b + b2z c /\
  length (cla_rec fuel la a b c) = S (length a).
Proof.
  induction fuel as [|f IH]; intros a b c Hla Hab Hf; [lia|].
  cbn [cla_rec]. destruct (length a <=? la)%nat eqn:E.
  - destruct (cla_unit_val a b c Hab) as [Hv Hl].
    destruct (cla_unit a b c) as [s co]. cbn [fst snd] in *.
    rewrite bval_app, app_length, Hl. cbn [bval length]. split; lia.
  - assert (Hlen : (la < length a)%nat) by lia.
    assert (Lfa : length (firstn la a) = la) by (rewrite firstn_length; lia).
    assert (Lfb : length (firstn la b) = la) by (rewrite firstn_length; lia).
    destruct (cla_unit_val (firstn la a) (firstn la b) c ltac:(lia)) as [Hv Hl].
    destruct (cla_unit (firstn la a) (firstn la b) c) as [s co]. cbn [fst snd] in *.
    destruct (IH (skipn la a) (skipn la b) co Hla) as [Hr Hrl].
    { rewrite !skipn_length. lia. }
    { rewrite skipn_length. lia. }
    rewrite bval_app, app_length, Hr, Hrl, Hl, Lfa, skipn_length.
    pose proof (bval_split la a) as Ha. pose proof (bval_split la b) as Hb.
    rewrite Lfa in Ha. rewrite Lfb in Hb. split; [|lia].
    rewrite Lfa in Hv. nia.
Qed.

Theorem cla_adder_exact la a b c : (1 <= la)%nat ->
  bval (cla_adder la a b c) = bval a + bval b + b2z c /\
  length (cla_adder la a b c) = S (Nat.max (length a) (length b)).
Proof.
  intros Hla. unfold cla_adder. pose proof (match2_spec a b) as Hm.
  destruct (match2 a b) as [a' b']. destruct Hm as (La & Lb & Va & Vb).
  destruct (cla_rec_val la (S (length a')) a' b' c Hla ltac:(lia) ltac:(lia)) as [H1 H2].
  rewrite H1, H2. split; lia.
Qed.

Lemma add_cla_ok la : (1 <= la)%nat -> adder_ok (add_cla la).
Proof.
  intros Hla a b. unfold add_cla. destruct (cla_adder_exact la a b false Hla) as [H _].
  rewrite H. cbn [b2z]. lia.
Qed.
