(* Proofs relating the rtllib AES structure model (AesModel.v, over the regenerated tables of
   Gen/AesTables.v) to the FIPS-197 specification (AesSpec.v). *)
From Coq Require Import ZArith List Bool Lia ZifyBool Ring.
From PyRTL Require Import Base.PyZ Gen.AesTables Lib.AesSpec Lib.AesModel.
Import ListNotations.
Open Scope Z_scope.

(* ------------------------------------------------------------------------------------------ *)
(* finite sweeps over bytes *)
Definition byte (b : Z) : Prop := 0 <= b < 256.

Lemma sweep256 (P : Z -> bool) :
  forallb (fun n => P (Z.of_nat n)) (seq 0 256) = true -> forall b, byte b -> P b = true.
Proof.
  intros H b Hb. rewrite forallb_forall in H.
  specialize (H (Z.to_nat b)). rewrite Z2Nat.id in H by (unfold byte in Hb; lia).
  apply H. apply in_seq. unfold byte in Hb. lia.
Qed.

Lemma sweep256x256 (P : Z -> Z -> bool) :
  forallb (fun n => forallb (fun m => P (Z.of_nat n) (Z.of_nat m)) (seq 0 256)) (seq 0 256) = true ->
  forall a b, byte a -> byte b -> P a b = true.
Proof.
  intros H a b Ha Hb.
  pose proof (sweep256 (fun x => forallb (fun m => P x (Z.of_nat m)) (seq 0 256)) H a Ha) as H1.
  cbv beta in H1. exact (sweep256 (P a) H1 b Hb).
Qed.

(* ---- the regenerated tables are the functions they stand for (bound: 256 entries each) ---- *)
Definition table_row_ok (b : Z) : bool :=
  (rom mem_sbox b =? SubByte b) && (rom mem_inv_sbox b =? InvSubByte b) &&
  (m_galois_mult b 2 =? gmul 2 b) && (m_galois_mult b 3 =? gmul 3 b) &&
  (m_galois_mult b 9 =? gmul 9 b) && (m_galois_mult b 11 =? gmul 11 b) &&
  (m_galois_mult b 13 =? gmul 13 b) && (m_galois_mult b 14 =? gmul 14 b) &&
  (m_galois_mult b 1 =? b) &&
  ((b =? 0) || (rom mem_rcon b =? xtime_pow (Z.to_nat (b - 1)) 1)) &&
  (InvSubByte (SubByte b) =? b) && (SubByte (InvSubByte b) =? b) &&
  (0 <=? SubByte b) && (SubByte b <? 256) && (0 <=? InvSubByte b) && (InvSubByte b <? 256).

Lemma tables_sweep : forallb (fun n => table_row_ok (Z.of_nat n)) (seq 0 256) = true.
Proof. vm_compute. reflexivity. Qed.

Lemma table_row b : byte b -> table_row_ok b = true.
Proof. apply sweep256. exact tables_sweep. Qed.

Lemma table_lengths :
  map (@length Z) [tbl_sbox_data; tbl_inv_sbox_data; tbl_rcon_data; tbl_GM2_data; tbl_GM3_data;
                   tbl_GM9_data; tbl_GM11_data; tbl_GM13_data; tbl_GM14_data]
  = repeat 256%nat 9.
Proof. vm_compute. reflexivity. Qed.

Ltac row_facts b Hb :=
  let H := fresh "Hrow" in
  pose proof (table_row b Hb) as H; unfold table_row_ok in H;
  repeat (apply andb_prop in H; let H2 := fresh "Hr" in destruct H as [H H2]).

Theorem aes_tables_correct_lemma : forall b, 0 <= b < 256 ->
  rom mem_sbox b = SubByte b /\ rom mem_inv_sbox b = InvSubByte b /\
  m_galois_mult b 2 = gmul 2 b /\ m_galois_mult b 3 = gmul 3 b /\
  m_galois_mult b 9 = gmul 9 b /\ m_galois_mult b 11 = gmul 11 b /\
  m_galois_mult b 13 = gmul 13 b /\ m_galois_mult b 14 = gmul 14 b /\
  (1 <= b -> rom mem_rcon b = xtime_pow (Z.to_nat (b - 1)) 1) /\
  InvSubByte (SubByte b) = b /\ SubByte (InvSubByte b) = b.
Proof.
  intros b Hb. row_facts b Hb.
  repeat split; try (apply Z.eqb_eq; assumption).
  intros H1. apply orb_prop in Hr5. destruct Hr5 as [E|E]; [apply Z.eqb_eq in E; lia|].
  apply Z.eqb_eq; assumption.
Qed.

Lemma sbox_tbl b : byte b -> rom mem_sbox b = SubByte b.
Proof. intros H. apply aes_tables_correct_lemma; exact H. Qed.
Lemma inv_sbox_tbl b : byte b -> rom mem_inv_sbox b = InvSubByte b.
Proof. intros H. apply aes_tables_correct_lemma; exact H. Qed.
Lemma SubByte_byte b : byte b -> byte (SubByte b).
Proof. intros Hb. row_facts b Hb. unfold byte. lia. Qed.
Lemma InvSubByte_byte b : byte b -> byte (InvSubByte b).
Proof. intros Hb. row_facts b Hb. unfold byte. lia. Qed.
Lemma InvSub_Sub b : byte b -> InvSubByte (SubByte b) = b.
Proof. intros H. apply aes_tables_correct_lemma; exact H. Qed.

(* gmul by the six constants: closure, additivity over xor (65536-entry sweeps) *)
Definition gm_ok (k a : Z) : bool := (0 <=? gmul k a) && (gmul k a <? 256).
Lemma gm_range_sweep :
  forallb (fun n => let a := Z.of_nat n in
             gm_ok 2 a && gm_ok 3 a && gm_ok 9 a && gm_ok 11 a && gm_ok 13 a && gm_ok 14 a)
          (seq 0 256) = true.
Proof. vm_compute. reflexivity. Qed.
Lemma gmul_byte k a : In k [2; 3; 9; 11; 13; 14] -> byte a -> byte (gmul k a).
Proof.
  intros Hk Ha.
  pose proof (sweep256 (fun a => gm_ok 2 a && gm_ok 3 a && gm_ok 9 a && gm_ok 11 a && gm_ok 13 a && gm_ok 14 a)
                gm_range_sweep a Ha) as H. cbv beta zeta in H.
  unfold gm_ok in H. unfold byte.
  simpl in Hk. destruct Hk as [<-|[<-|[<-|[<-|[<-|[<-|[]]]]]]]; lia.
Qed.

Definition gm_add (k a b : Z) : bool := gmul k (Z.lxor a b) =? Z.lxor (gmul k a) (gmul k b).
Lemma gm_add_sweep :
  forallb (fun n => forallb (fun m => let a := Z.of_nat n in let b := Z.of_nat m in
             gm_add 9 a b && gm_add 11 a b && gm_add 13 a b && gm_add 14 a b)
          (seq 0 256)) (seq 0 256) = true.
Proof. vm_compute. reflexivity. Qed.
Lemma gmul_add k a b : In k [9; 11; 13; 14] -> byte a -> byte b ->
  gmul k (Z.lxor a b) = Z.lxor (gmul k a) (gmul k b).
Proof.
  intros Hk Ha Hb.
  pose proof (sweep256x256 (fun a b => gm_add 9 a b && gm_add 11 a b && gm_add 13 a b && gm_add 14 a b)
                gm_add_sweep a b Ha Hb) as H. cbv beta zeta in H.
  unfold gm_add in H.
  simpl in Hk. destruct Hk as [<-|[<-|[<-|[<-|[]]]]]; lia.
Qed.

(* InvMixColumns o MixColumns on one column: the 16 single-variable identities *)
Definition invmix_row_ok (a : Z) : bool :=
  let g := gmul in
  (Z.lxor (Z.lxor (Z.lxor (g 14 (g 2 a)) (g 11 a)) (g 13 a)) (g 9 (g 3 a)) =? a) &&
  (Z.lxor (Z.lxor (Z.lxor (g 14 (g 3 a)) (g 11 (g 2 a))) (g 13 a)) (g 9 a) =? 0) &&
  (Z.lxor (Z.lxor (Z.lxor (g 14 a) (g 11 (g 3 a))) (g 13 (g 2 a))) (g 9 a) =? 0) &&
  (Z.lxor (Z.lxor (Z.lxor (g 14 a) (g 11 a)) (g 13 (g 3 a))) (g 9 (g 2 a)) =? 0) &&
  (Z.lxor (Z.lxor (Z.lxor (g 9 (g 2 a)) (g 14 a)) (g 11 a)) (g 13 (g 3 a)) =? 0) &&
  (Z.lxor (Z.lxor (Z.lxor (g 9 (g 3 a)) (g 14 (g 2 a))) (g 11 a)) (g 13 a) =? a) &&
  (Z.lxor (Z.lxor (Z.lxor (g 9 a) (g 14 (g 3 a))) (g 11 (g 2 a))) (g 13 a) =? 0) &&
  (Z.lxor (Z.lxor (Z.lxor (g 9 a) (g 14 a)) (g 11 (g 3 a))) (g 13 (g 2 a)) =? 0) &&
  (Z.lxor (Z.lxor (Z.lxor (g 13 (g 2 a)) (g 9 a)) (g 14 a)) (g 11 (g 3 a)) =? 0) &&
  (Z.lxor (Z.lxor (Z.lxor (g 13 (g 3 a)) (g 9 (g 2 a))) (g 14 a)) (g 11 a) =? 0) &&
  (Z.lxor (Z.lxor (Z.lxor (g 13 a) (g 9 (g 3 a))) (g 14 (g 2 a))) (g 11 a) =? a) &&
  (Z.lxor (Z.lxor (Z.lxor (g 13 a) (g 9 a)) (g 14 (g 3 a))) (g 11 (g 2 a)) =? 0) &&
  (Z.lxor (Z.lxor (Z.lxor (g 11 (g 2 a)) (g 13 a)) (g 9 a)) (g 14 (g 3 a)) =? 0) &&
  (Z.lxor (Z.lxor (Z.lxor (g 11 (g 3 a)) (g 13 (g 2 a))) (g 9 a)) (g 14 a) =? 0) &&
  (Z.lxor (Z.lxor (Z.lxor (g 11 a) (g 13 (g 3 a))) (g 9 (g 2 a))) (g 14 a) =? 0) &&
  (Z.lxor (Z.lxor (Z.lxor (g 11 a) (g 13 a)) (g 9 (g 3 a))) (g 14 (g 2 a)) =? a).
Lemma invmix_sweep : forallb (fun n => invmix_row_ok (Z.of_nat n)) (seq 0 256) = true.
Proof. vm_compute. reflexivity. Qed.

(* ------------------------------------------------------------------------------------------ *)
(* partition / concat_list *)
Definition inr (w : Z) (b : Z) : Prop := 0 <= b < 2 ^ w.

Lemma partition_length w n x : length (partition w n x) = n.
Proof. revert x. induction n; intros; cbn [partition length]; auto. Qed.

Lemma partition_range w n x : 0 < w -> Forall (inr w) (partition w n x).
Proof.
  intros Hw. revert x. induction n; intros; cbn [partition]; constructor; auto.
  unfold inr. apply Z.mod_pos_bound. apply Z.pow_pos_nonneg; lia.
Qed.

Lemma partition_concat w l : 0 < w -> Forall (inr w) l ->
  partition w (length l) (concat_list w l) = l.
Proof.
  intros Hw H. induction H as [|b l Hb Hl IH]; [reflexivity|].
  cbn [length partition concat_list]. unfold inr in Hb.
  assert (Hp : 0 < 2 ^ w) by (apply Z.pow_pos_nonneg; lia).
  replace (b + 2 ^ w * concat_list w l) with (b + concat_list w l * 2 ^ w) by ring.
  f_equal.
  - rewrite Z.mod_add by lia. apply Z.mod_small; lia.
  - rewrite Z.div_add by lia. rewrite (Z.div_small b) by lia. exact IH.
Qed.

Lemma concat_partition w n x : 0 < w -> 0 <= x < 2 ^ (w * Z.of_nat n) ->
  concat_list w (partition w n x) = x.
Proof.
  intros Hw. revert x. induction n; intros x Hx.
  - cbn. rewrite Z.mul_0_r in Hx. cbn in Hx. lia.
  - cbn [partition concat_list].
    assert (Hp : 0 < 2 ^ w) by (apply Z.pow_pos_nonneg; lia).
    rewrite IHn.
    + pose proof (Z.div_mod x (2 ^ w)). lia.
    + split; [apply Z.div_pos; lia|].
      apply Z.div_lt_upper_bound; [lia|].
      rewrite <- Z.pow_add_r by lia. replace (w + w * Z.of_nat n) with (w * Z.of_nat (S n)) by lia.
      lia.
Qed.

Lemma concat_range w l : 0 < w -> Forall (inr w) l ->
  0 <= concat_list w l < 2 ^ (w * Z.of_nat (length l)).
Proof.
  intros Hw H. induction H as [|b l Hb Hl IH]; [cbn; lia|].
  cbn [concat_list length]. unfold inr in Hb.
  replace (w * Z.of_nat (S (length l))) with (w + w * Z.of_nat (length l)) by lia.
  rewrite Z.pow_add_r by lia.
  assert (Hp : 0 < 2 ^ w) by (apply Z.pow_pos_nonneg; lia). nia.
Qed.

Lemma mod_lxor x y w : 0 <= w -> (Z.lxor x y) mod 2 ^ w = Z.lxor (x mod 2 ^ w) (y mod 2 ^ w).
Proof.
  intros Hw. apply Z.bits_inj'. intros i Hi.
  rewrite Z.lxor_spec, !testbit_mod_pow2 by lia. rewrite Z.lxor_spec.
  destruct (i <? w); reflexivity.
Qed.

Lemma div_lxor x y w : 0 <= w -> (Z.lxor x y) / 2 ^ w = Z.lxor (x / 2 ^ w) (y / 2 ^ w).
Proof. intros Hw. rewrite <- !Z.shiftr_div_pow2 by lia. apply Z.shiftr_lxor. Qed.

Lemma partition_lxor w n x y : 0 <= w ->
  partition w n (Z.lxor x y) = xorl (partition w n x) (partition w n y).
Proof.
  intros Hw. revert x y. induction n; intros; cbn [partition xorl]; [reflexivity|].
  rewrite mod_lxor, div_lxor by lia. f_equal. apply IHn.
Qed.

Lemma concat_lxor w l1 l2 : 0 < w -> Forall (inr w) l1 -> Forall (inr w) l2 -> length l1 = length l2 ->
  Z.lxor (concat_list w l1) (concat_list w l2) = concat_list w (xorl l1 l2).
Proof.
  intros Hw H1 H2 Hl.
  pose proof (concat_range w l1 Hw H1) as R1. pose proof (concat_range w l2 Hw H2) as R2.
  rewrite <- (concat_partition w (length l1) (Z.lxor _ _)) at 1; [|lia|].
  - rewrite partition_lxor by lia. rewrite partition_concat by assumption.
    rewrite Hl, partition_concat by assumption. reflexivity.
  - rewrite <- Hl in R2. split; [apply Z.lxor_nonneg; lia|].
    assert (Hr : inrange (Z.lxor (concat_list w l1) (concat_list w l2)) (w * Z.of_nat (length l1))).
    { apply lxor_range; unfold inrange; lia. }
    unfold inrange in Hr. lia.
Qed.
