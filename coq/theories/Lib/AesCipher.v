(* Key schedule and whole-cipher theorems: the rtllib encryption / decryption structure models equal
   FIPS-197 Cipher / InvCipher for every key and block, and InvCipher inverts Cipher. *)
From Coq Require Import ZArith List Bool Lia ZifyBool Btauto.
From PyRTL Require Import Base.PyZ Gen.AesTables Lib.AesSpec Lib.AesModel Lib.AesProofs Lib.AesSteps.
Import ListNotations.
Open Scope Z_scope.

Arguments SubByte : simpl never.
Arguments InvSubByte : simpl never.
Arguments xtime_pow : simpl never.

(* ---------------- the FIPS key schedule, one round key at a time ---------------- *)
Definition next_rk (cur : list word) (r : nat) : list word :=
  let b0 := xorl (nth 0 cur []) (xorl (SubWord (RotWord (nth 3 cur []))) (Rcon r)) in
  let b1 := xorl (nth 1 cur []) b0 in
  let b2 := xorl (nth 2 cur []) b1 in
  let b3 := xorl (nth 3 cur []) b2 in
  [b0; b1; b2; b3].

Lemma key_sched_S n i acc :
  key_sched (S n) i acc =
  key_sched n (S i) (xorl (nth 3 acc [])
                          (if (i mod 4 =? 0)%nat then xorl (SubWord (RotWord (nth 0 acc []))) (Rcon (i / 4))
                           else nth 0 acc []) :: acc).
Proof. reflexivity. Qed.

Lemma mod4_0 r : ((4 * r) mod 4 =? 0)%nat = true.
Proof. apply Nat.eqb_eq. rewrite Nat.mul_comm. apply Nat.mod_mul. lia. Qed.
Lemma div4 r : ((4 * r) / 4)%nat = r.
Proof. rewrite Nat.mul_comm. apply Nat.div_mul. lia. Qed.
Lemma mod4_k r k : (0 < k < 4)%nat -> ((k + 4 * r) mod 4 =? 0)%nat = false.
Proof.
  intros Hk. apply Nat.eqb_neq. rewrite (Nat.mul_comm 4 r), Nat.mod_add by lia.
  rewrite Nat.mod_small by lia. lia.
Qed.

Lemma ks4 n r a0 a1 a2 a3 rest :
  key_sched (4 + n) (4 * r) (a3 :: a2 :: a1 :: a0 :: rest)
  = key_sched n (4 * S r) (rev (next_rk [a0; a1; a2; a3] r) ++ a3 :: a2 :: a1 :: a0 :: rest).
Proof.
  change (4 + n)%nat with (S (S (S (S n)))).
  rewrite key_sched_S, mod4_0, div4.
  rewrite key_sched_S. change (S (4 * r)) with (1 + 4 * r)%nat. rewrite mod4_k by lia.
  rewrite key_sched_S. change (S (1 + 4 * r)) with (2 + 4 * r)%nat. rewrite mod4_k by lia.
  rewrite key_sched_S. change (S (2 + 4 * r)) with (3 + 4 * r)%nat. rewrite mod4_k by lia.
  replace (S (3 + 4 * r)) with (4 * S r)%nat by lia.
  reflexivity.
Qed.

Fixpoint rks (n r : nat) (cur : list word) : list (list word) :=
  cur :: match n with O => [] | S n' => rks n' (S r) (next_rk cur (S r)) end.

Lemma next_rk_length cur r : length (next_rk cur r) = 4%nat.
Proof. reflexivity. Qed.

Lemma ks_rks n : forall r cur rest, length cur = 4%nat ->
  rev (key_sched (4 * n) (4 * S r) (rev cur ++ rest)) = rev rest ++ concat (rks n r cur).
Proof.
  induction n; intros r cur rest Hl.
  - rewrite Nat.mul_0_r. cbn [key_sched rks concat]. rewrite rev_app_distr, rev_involutive, app_nil_r. reflexivity.
  - destruct cur as [|a0 [|a1 [|a2 [|a3 [|? ?]]]]]; try discriminate Hl.
    replace (4 * S n)%nat with (4 + 4 * n)%nat by lia.
    cbn [rev app]. rewrite ks4.
    rewrite IHn by apply next_rk_length.
    cbn [rks concat rev app]. rewrite <- !app_assoc. reflexivity.
Qed.

Lemma KeyExpansion_rks key : length (words_of 4 key) = 4%nat ->
  KeyExpansion key = concat (rks 10 0 (words_of 4 key)).
Proof.
  intros Hl. unfold KeyExpansion.
  rewrite <- (app_nil_r (rev (words_of 4 key))).
  change (key_sched 40 4) with (key_sched (4 * 10) (4 * S 0)).
  rewrite ks_rks by exact Hl. reflexivity.
Qed.

Lemma chunk_nth : forall r (L : list (list word)),
  Forall (fun x => length x = 4%nat) L -> (r < length L)%nat ->
  firstn 4 (skipn (4 * r) (concat L)) = nth r L [].
Proof.
  induction r; intros L HL Hr.
  - destruct L as [|x L]; [cbn in Hr; lia|]. apply Forall_inv in HL.
    destruct x as [|a0 [|a1 [|a2 [|a3 [|? ?]]]]]; try discriminate HL. reflexivity.
  - destruct L as [|x L]; [cbn in Hr; lia|].
    pose proof (Forall_inv HL) as Hx. apply Forall_inv_tail in HL.
    destruct x as [|a0 [|a1 [|a2 [|a3 [|? ?]]]]]; try discriminate Hx.
    replace (4 * S r)%nat with (4 + 4 * r)%nat by lia.
    cbn [concat app nth]. change (skipn (4 + 4 * r) (a0 :: a1 :: a2 :: a3 :: concat L))
      with (skipn (4 * r) (concat L)).
    apply IHr; [exact HL|]. cbn in Hr. lia.
Qed.

Lemma rks_len4 n : forall r cur, length cur = 4%nat -> Forall (fun x => length x = 4%nat) (rks n r cur).
Proof.
  induction n; intros; cbn [rks]; constructor; auto.
Qed.
Lemma rks_length n : forall r cur, length (rks n r cur) = S n.
Proof. induction n; intros; cbn [rks length]; auto. Qed.

(* ---------------- words of good bytes ---------------- *)
Definition goodword (w : word) : Prop := length w = 4%nat /\ Forall byte w.
Definition goodrk (cur : list word) : Prop := length cur = 4%nat /\ Forall goodword cur.

Lemma rcon_sweep : forallb (fun r => (rcon_int r =? xtime_pow r 1) && (0 <=? rcon_int r) && (rcon_int r <? 256)
                                     && (rcon_rom (Z.of_nat r) =? rcon_int r))
                           (seq 0 10) = true.
Proof. vm_compute. reflexivity. Qed.
Lemma rcon_facts r : (r < 10)%nat ->
  rcon_int r = xtime_pow r 1 /\ byte (rcon_int r) /\ rcon_rom (Z.of_nat r) = rcon_int r.
Proof.
  intros Hr. pose proof rcon_sweep as H. rewrite forallb_forall in H.
  specialize (H r). rewrite in_seq in H. specialize (H ltac:(lia)).
  unfold byte. lia.
Qed.

Ltac byte_tac :=
  repeat first [ assumption | apply xor_byte | apply SubByte_byte | apply (proj1 (proj2 (rcon_facts _ ltac:(assumption)))) ].

Lemma lxor4 a b c d a' b' c' d' :
  byte a -> byte b -> byte c -> byte d -> byte a' -> byte b' -> byte c' -> byte d' ->
  Z.lxor (concat_list 8 [a; b; c; d]) (concat_list 8 [a'; b'; c'; d'])
  = concat_list 8 [Z.lxor a a'; Z.lxor b b'; Z.lxor c c'; Z.lxor d d'].
Proof.
  intros. rewrite concat_lxor; [reflexivity|lia| | |reflexivity];
    repeat (apply Forall_cons; [apply byte_inr; assumption|]); apply Forall_nil.
Qed.

Ltac explode_rk cur H :=
  let Hl := fresh "Hl" in let Hw := fresh "Hw" in
  destruct H as [Hl Hw];
  do 4 (destruct cur as [|? cur]; [discriminate Hl|]);
  destruct cur; [|discriminate Hl]; clear Hl;
  repeat match goal with
         | H : Forall goodword (_ :: _) |- _ =>
             let H1 := fresh "W" in apply Forall_cons_iff in H; destruct H as [H1 H]
         end;
  try clear Hw;
  repeat match goal with
         | H : goodword ?w |- _ =>
             let Hl := fresh "Hl" in let Hb := fresh "Hb" in
             destruct H as [Hl Hb];
             do 4 (destruct w as [|? w]; [discriminate Hl|]);
             destruct w; [|discriminate Hl]; clear Hl;
             repeat match goal with
                    | H : Forall byte (_ :: _) |- _ =>
                        let H1 := fresh "B" in apply Forall_cons_iff in H; destruct H as [H1 H]
                    end;
             try clear Hb
         end.

Lemma goodword_intro a b c d : byte a -> byte b -> byte c -> byte d -> goodword [a; b; c; d].
Proof. intros. split; [reflexivity|]. repeat (apply Forall_cons; [assumption|]). apply Forall_nil. Qed.

Lemma next_rk_good cur r : goodrk cur -> (r < 10)%nat -> goodrk (next_rk cur (S r)).
Proof.
  intros H Hr. explode_rk cur H. split; [reflexivity|].
  assert (Bx : byte (xtime_pow r 1)).
  { destruct (rcon_facts r Hr) as [E [Hb _]]. rewrite <- E. exact Hb. }
  unfold next_rk. cbn. rewrite ?Nat.sub_0_r, !Z.lxor_0_r.
  repeat (apply Forall_cons; [apply goodword_intro; repeat first [assumption | apply xor_byte | apply SubByte_byte]|]).
  apply Forall_nil.
Qed.

Arguments rcon_int : simpl never.

Lemma m_key_expansion_spec cur r : goodrk cur -> (r < 10)%nat ->
  m_key_expansion (of_bytes_be (concat cur)) (rcon_int r) = of_bytes_be (concat (next_rk cur (S r))).
Proof.
  intros H Hr. explode_rk cur H.
  destruct (rcon_facts r Hr) as [Erc [Brc _]].
  unfold m_key_expansion, of_bytes_be. cbn [concat app rev].
  rewrite part32 by (repeat (apply Forall_cons; [assumption|]); apply Forall_nil).
  cbn [nth]. unfold m_g. rewrite part8_4 by assumption.
  unfold g_rot_idx. cbn [map nth].
  rewrite !sbox_tbl by assumption.
  rewrite !lxor4 by byte_tac.
  rewrite concat32_8.
  unfold next_rk. cbn. rewrite ?Nat.sub_0_r, !Z.lxor_0_r, <- Erc.
  f_equal. bytes_eq.
Qed.

Lemma m_key_gen_spec n : forall r cur, goodrk cur -> (r + n <= 10)%nat ->
  m_key_gen n r (of_bytes_be (concat cur)) = map (fun c => of_bytes_be (concat c)) (tl (rks n r cur)).
Proof.
  induction n; intros r cur Hc Hr; [reflexivity|].
  cbn [m_key_gen rks tl]. rewrite m_key_expansion_spec by (assumption || lia).
  rewrite IHn by (try apply next_rk_good; assumption || lia).
  destruct n; reflexivity.
Qed.

Definition words16 (kb : list Z) : list word := words_of 4 kb.

Lemma words16_good kb : good16 kb -> goodrk (words16 kb) /\ concat (words16 kb) = kb.
Proof.
  intros H. explode kb H. split; [|reflexivity].
  split; [reflexivity|]. unfold words16. cbn.
  repeat (apply Forall_cons; [apply goodword_intro; assumption|]). apply Forall_nil.
Qed.

Lemma m_key_list_spec kb : good16 kb ->
  m_key_list (of_bytes_be kb) = map (fun c => of_bytes_be (concat c)) (rks 10 0 (words16 kb)).
Proof.
  intros H. destruct (words16_good kb H) as [Hg Hc].
  unfold m_key_list, key_gen_rounds. rewrite <- Hc at 1 2.
  rewrite m_key_gen_spec by (assumption || lia). rewrite Hc at 1.
  cbn [rks tl map]. rewrite Hc. reflexivity.
Qed.

Lemma rks_good n : forall r cur, goodrk cur -> (r + n <= 10)%nat -> Forall goodrk (rks n r cur).
Proof.
  induction n; intros r cur Hc Hr; cbn [rks]; constructor; auto.
  apply IHn; [apply next_rk_good; assumption || lia|lia].
Qed.

Lemma goodrk_concat cur : goodrk cur -> good16 (concat cur).
Proof.
  intros H. explode_rk cur H. apply good16_intro; [reflexivity|].
  cbn. repeat (apply Forall_cons; [assumption|]). apply Forall_nil.
Qed.

Lemma round_key_spec kb r : good16 kb -> (r <= 10)%nat ->
  round_key (KeyExpansion kb) r = concat (nth r (rks 10 0 (words16 kb)) []) /\
  good16 (round_key (KeyExpansion kb) r) /\
  nth r (m_key_list (of_bytes_be kb)) 0 = of_bytes_be (round_key (KeyExpansion kb) r).
Proof.
  intros H Hr. destruct (words16_good kb H) as [Hg Hc].
  assert (E : round_key (KeyExpansion kb) r = concat (nth r (rks 10 0 (words16 kb)) [])).
  { unfold round_key. rewrite KeyExpansion_rks by (destruct Hg; assumption).
    rewrite chunk_nth; [reflexivity| |rewrite rks_length; lia].
    apply rks_len4. destruct Hg; assumption. }
  split; [exact E|]. split.
  - rewrite E. apply goodrk_concat.
    pose proof (rks_good 10 0 (words16 kb) Hg ltac:(lia)) as HF. rewrite Forall_forall in HF.
    apply HF. apply nth_In. rewrite rks_length. lia.
  - rewrite m_key_list_spec by exact H. rewrite E.
    change 0 with ((fun c => of_bytes_be (concat c)) []).
    rewrite map_nth. reflexivity.
Qed.

(* ---------------- the ciphers ---------------- *)
Ltac good_tac :=
  repeat match goal with
         | |- good16 (AddRoundKey _ _) => apply xorl_good
         | |- good16 (SubBytes _) => apply SubBytes_good
         | |- good16 (ShiftRows _) => apply ShiftRows_good
         | |- good16 (MixColumns _) => apply MixColumns_good
         | |- good16 (InvSubBytes _) => apply InvSubBytes_good
         | |- good16 (InvShiftRows _) => apply InvShiftRows_good
         | |- good16 (InvMixColumns _) => apply InvMixColumns_good
         | |- good16 _ => assumption
         end.

Ltac push_steps :=
  repeat first [ rewrite add_round_key_spec by good_tac
               | rewrite m_sub_bytes_spec by good_tac
               | rewrite m_inv_sub_bytes_spec by good_tac
               | rewrite m_shift_rows_spec by good_tac
               | rewrite m_inv_shift_rows_spec by good_tac
               | rewrite m_mix_columns_spec by good_tac
               | rewrite m_inv_mix_columns_spec by good_tac ].

Opaque m_sub_bytes m_shift_rows m_inv_shift_rows m_mix_columns m_key_list.
Opaque SubBytes ShiftRows MixColumns InvSubBytes InvShiftRows InvMixColumns AddRoundKey round_key.

Lemma enc_model_bytes kb pb : good16 kb -> good16 pb ->
  m_encryption (of_bytes_be kb) (of_bytes_be pb) = of_bytes_be (Cipher kb pb).
Proof.
  intros Hk Hp.
  unfold Cipher. cbn [cipher_rounds].
  unfold m_encryption, encryption_stop_round, encryption_first_round.
  cbn [Nat.sub m_enc_rounds]. unfold encryption_nomix_round. cbn [Nat.eqb negb].
  destruct (round_key_spec kb 0 Hk ltac:(lia)) as [_ [G0 ->]].
  destruct (round_key_spec kb 1 Hk ltac:(lia)) as [_ [G1 ->]].
  destruct (round_key_spec kb 2 Hk ltac:(lia)) as [_ [G2 ->]].
  destruct (round_key_spec kb 3 Hk ltac:(lia)) as [_ [G3 ->]].
  destruct (round_key_spec kb 4 Hk ltac:(lia)) as [_ [G4 ->]].
  destruct (round_key_spec kb 5 Hk ltac:(lia)) as [_ [G5 ->]].
  destruct (round_key_spec kb 6 Hk ltac:(lia)) as [_ [G6 ->]].
  destruct (round_key_spec kb 7 Hk ltac:(lia)) as [_ [G7 ->]].
  destruct (round_key_spec kb 8 Hk ltac:(lia)) as [_ [G8 ->]].
  destruct (round_key_spec kb 9 Hk ltac:(lia)) as [_ [G9 ->]].
  destruct (round_key_spec kb 10 Hk ltac:(lia)) as [_ [G10 ->]].
  generalize dependent (KeyExpansion kb). intros w G0 G1 G2 G3 G4 G5 G6 G7 G8 G9 G10.
  push_steps. reflexivity.
Qed.

Lemma dec_model_bytes kb cb : good16 kb -> good16 cb ->
  m_decryption (of_bytes_be kb) (of_bytes_be cb) = of_bytes_be (InvCipher kb cb).
Proof.
  intros Hk Hp.
  unfold InvCipher. cbn [inv_cipher_rounds Nat.sub].
  unfold m_decryption, decryption_stop_round, decryption_first_round.
  cbn [Nat.sub m_dec_rounds]. unfold decryption_nomix_round. cbn [Nat.eqb negb].
  destruct (round_key_spec kb 0 Hk ltac:(lia)) as [_ [G0 ->]].
  destruct (round_key_spec kb 1 Hk ltac:(lia)) as [_ [G1 ->]].
  destruct (round_key_spec kb 2 Hk ltac:(lia)) as [_ [G2 ->]].
  destruct (round_key_spec kb 3 Hk ltac:(lia)) as [_ [G3 ->]].
  destruct (round_key_spec kb 4 Hk ltac:(lia)) as [_ [G4 ->]].
  destruct (round_key_spec kb 5 Hk ltac:(lia)) as [_ [G5 ->]].
  destruct (round_key_spec kb 6 Hk ltac:(lia)) as [_ [G6 ->]].
  destruct (round_key_spec kb 7 Hk ltac:(lia)) as [_ [G7 ->]].
  destruct (round_key_spec kb 8 Hk ltac:(lia)) as [_ [G8 ->]].
  destruct (round_key_spec kb 9 Hk ltac:(lia)) as [_ [G9 ->]].
  destruct (round_key_spec kb 10 Hk ltac:(lia)) as [_ [G10 ->]].
  generalize dependent (KeyExpansion kb). intros w G0 G1 G2 G3 G4 G5 G6 G7 G8 G9 G10.
  push_steps. reflexivity.
Qed.

(* 128-bit integers *)
Lemma bytes_be_good x : good16 (bytes_be x).
Proof.
  unfold bytes_be. split; [rewrite rev_length; apply partition_length|].
  apply Forall_rev. eapply Forall_impl; [|apply (partition_range 8 16 x); lia].
  intros a. apply byte_inr.
Qed.

Lemma of_bytes_be_bytes_be x : 0 <= x < 2 ^ 128 -> of_bytes_be (bytes_be x) = x.
Proof.
  intros Hx. unfold of_bytes_be, bytes_be. rewrite rev_involutive.
  apply concat_partition; [lia|]. exact Hx.
Qed.

Lemma bytes_be_of_bytes_be s : good16 s -> bytes_be (of_bytes_be s) = s.
Proof.
  intros Hs. unfold bytes_be. change (partition 8 16) with part8.
  rewrite part8_of_bytes by exact Hs. apply rev_involutive.
Qed.

Lemma of_bytes_be_range s : good16 s -> 0 <= of_bytes_be s < 2 ^ 128.
Proof.
  intros [Hl Hb]. unfold of_bytes_be.
  pose proof (concat_range 8 (rev s) ltac:(lia) (Forall_byte_inr _ (Forall_rev Hb))) as H.
  rewrite rev_length, Hl in H. exact H.
Qed.

Theorem enc_model_is_fips197 key pt : 0 <= key < 2 ^ 128 -> 0 <= pt < 2 ^ 128 ->
  m_encryption key pt = CipherZ key pt.
Proof.
  intros Hk Hp. unfold CipherZ.
  rewrite <- (of_bytes_be_bytes_be key Hk) at 1. rewrite <- (of_bytes_be_bytes_be pt Hp) at 1.
  apply enc_model_bytes; apply bytes_be_good.
Qed.

Theorem dec_model_is_fips197 key ct : 0 <= key < 2 ^ 128 -> 0 <= ct < 2 ^ 128 ->
  m_decryption key ct = InvCipherZ key ct.
Proof.
  intros Hk Hp. unfold InvCipherZ.
  rewrite <- (of_bytes_be_bytes_be key Hk) at 1. rewrite <- (of_bytes_be_bytes_be ct Hp) at 1.
  apply dec_model_bytes; apply bytes_be_good.
Qed.
