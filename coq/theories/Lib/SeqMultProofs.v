(* simple_mult / complex_mult: loop invariant accum + areg*breg = A*B (mod 2^(alen+blen)),
   done within len(A) (resp. ceil(len(A)/shifts)) cycles after the load cycle,
   and from then on the accumulator holds A*B. *)
From PyRTL Require Import Lib.SeqMult.
From Coq Require Import ZifyBool.

Lemma mod_combine M x y z : M <> 0 -> (x mod M + y * (z mod M)) mod M = (x + y * z) mod M.
Proof.
  intros HM. rewrite Z.add_mod_idemp_l by assumption.
  rewrite <- Z.add_mod_idemp_r by assumption. rewrite Z.mul_mod_idemp_r by assumption.
  rewrite Z.add_mod_idemp_r by assumption. reflexivity.
Qed.

Section Machine.
  Variable stepf : mstate -> mstate.     (* one cycle with start low *)
  Variable M s : Z.
  Hypothesis P1 : forall st, areg st = 0 -> stepf st = st.
  Hypothesis P2 : forall st n, areg st <> 0 -> 0 <= areg st < 2 ^ (s * (Z.of_nat n + 1)) ->
    0 <= areg (stepf st) < 2 ^ (s * Z.of_nat n) /\
    0 <= accum (stepf st) < M /\
    (accum (stepf st) + areg (stepf st) * breg (stepf st)) mod M
    = (accum st + areg st * breg st) mod M.

  Lemma run_idle k : forall st, areg st = 0 -> m_run stepf k st = st.
  Proof.
    induction k as [|k IH]; intros st H; cbn [m_run]; [reflexivity|].
    rewrite P1 by assumption. apply IH. assumption.
  Qed.

  Lemma run_finish n : forall st,
    0 <= areg st < 2 ^ (s * Z.of_nat n) -> 0 <= accum st < M ->
    exists d, (d <= n)%nat /\
      (forall j, (j < d)%nat -> m_done (m_run stepf j st) = false) /\
      (forall k, (d <= k)%nat ->
         m_done (m_run stepf k st) = true /\
         accum (m_run stepf k st) = (accum st + areg st * breg st) mod M).
  Proof.
    assert (Hidle : forall st, areg st = 0 -> 0 <= accum st < M ->
      exists d, (d <= 0)%nat /\
      (forall j, (j < d)%nat -> m_done (m_run stepf j st) = false) /\
      (forall k, (d <= k)%nat ->
         m_done (m_run stepf k st) = true /\
         accum (m_run stepf k st) = (accum st + areg st * breg st) mod M)).
    { intros st H0 Hacc. exists 0%nat. split; [lia|]. split; [intros j Hj; lia|].
      intros k _. rewrite run_idle by assumption. unfold m_done. rewrite H0. split; [reflexivity|].
      rewrite Z.mul_0_l, Z.add_0_r. symmetry. apply Z.mod_small. assumption. }
    induction n as [|n IH]; intros st Ha Hacc.
    - change (Z.of_nat 0) with 0 in Ha. rewrite Z.mul_0_r in Ha. change (2 ^ 0) with 1 in Ha.
      apply Hidle; [lia|assumption].
    - destruct (Z.eq_dec (areg st) 0) as [H0|Hne].
      + destruct (Hidle st H0 Hacc) as (d & Hd & H1 & H2). exists d. split; [lia|]. split; assumption.
      + rewrite Nat2Z.inj_succ in Ha. unfold Z.succ in Ha.
        destruct (P2 st n Hne Ha) as (Ha' & Hacc' & Hinv).
        destruct (IH (stepf st) Ha' Hacc') as (d & Hd & H1 & H2).
        exists (S d). split; [lia|]. split.
        * intros [|j] Hj; cbn [m_run].
          -- unfold m_done. apply Z.eqb_neq. assumption.
          -- apply H1. lia.
        * intros [|k] Hk; [lia|]. cbn [m_run]. destruct (H2 k ltac:(lia)) as [H3 H4].
          split; [assumption|]. rewrite H4. exact Hinv.
  Qed.
End Machine.

(* ------------------------------------------------------------ simple_mult *)

Lemma simple_P1 alen blen A B st : areg st = 0 -> simple_step alen blen false A B st = st.
Proof. intros H. unfold simple_step, m_done. rewrite H. reflexivity. Qed.

Lemma simple_P2 alen blen A B st n : 0 <= alen + blen ->
  areg st <> 0 -> 0 <= areg st < 2 ^ (1 * (Z.of_nat n + 1)) ->
  let st' := simple_step alen blen false A B st in
  0 <= areg st' < 2 ^ (1 * Z.of_nat n) /\
  0 <= accum st' < 2 ^ (alen + blen) /\
  (accum st' + areg st' * breg st') mod 2 ^ (alen + blen)
  = (accum st + areg st * breg st) mod 2 ^ (alen + blen).
Proof.
  intros Hw Hne Ha. unfold simple_step, m_done.
  replace (areg st =? 0) with false by lia. cbn [negb areg breg accum].
  assert (HM : 0 < 2 ^ (alen + blen)) by (apply Z.pow_pos_nonneg; lia).
  rewrite Z.shiftr_div_pow2, Z.shiftl_mul_pow2 by lia. change (2 ^ 1) with 2.
  rewrite !Z.mul_1_l in *. rewrite Z.pow_add_r in Ha by lia. change (2 ^ 1) with 2 in Ha.
  assert (Hp : 0 < 2 ^ Z.of_nat n) by (apply Z.pow_pos_nonneg; lia).
  split; [split; [apply Z.div_pos; lia | apply Z.div_lt_upper_bound; lia]|].
  split; [apply Z.mod_pos_bound; assumption|].
  rewrite mod_combine by lia. f_equal.
  rewrite Z.bit0_odd. pose proof (Zmod_odd (areg st)) as Ho.
  pose proof (Z.div_mod (areg st) 2 ltac:(lia)) as Hd.
  destruct (Z.odd (areg st)); nia.
Qed.

Theorem simple_mult_done_and_product alen blen A B st0 :
  0 < alen -> 0 < blen -> 0 <= A < 2 ^ alen -> 0 <= B < 2 ^ blen ->
  let st1 := simple_step alen blen true A B st0 in      (* the cycle with start high *)
  let hold := simple_step alen blen false A B in        (* operands held, start low *)
  exists d, (d <= Z.to_nat alen)%nat /\
    (forall j, (j < d)%nat -> m_done (m_run hold j st1) = false) /\
    (forall k, (d <= k)%nat ->
       m_done (m_run hold k st1) = true /\ accum (m_run hold k st1) = A * B).
Proof.
  intros Ha Hb HA HB st1 hold.
  assert (HM : 0 < 2 ^ (alen + blen)) by (apply Z.pow_pos_nonneg; lia).
  destruct (run_finish hold (2 ^ (alen + blen)) 1
              (fun st => simple_P1 alen blen A B st)
              (fun st n => simple_P2 alen blen A B st n ltac:(lia))
              (Z.to_nat alen) st1) as (d & Hd & H1 & H2).
  - unfold st1, simple_step. cbn [areg]. rewrite Z.mul_1_l, Z2Nat.id by lia. assumption.
  - unfold st1, simple_step. cbn [accum]. lia.
  - exists d. split; [assumption|]. split; [assumption|].
    intros k Hk. destruct (H2 k Hk) as [H3 H4]. split; [assumption|].
    rewrite H4. unfold st1, simple_step. cbn [areg breg accum]. rewrite Z.add_0_l.
    apply Z.mod_small. rewrite Z.pow_add_r by lia. nia.
Qed.

(* ----------------------------------------------------------- complex_mult *)

Lemma ocm_spec a b w rem : forall sum cb, 0 <= cb -> 0 <= w ->
  (one_cycle_mult a b w rem sum cb) mod 2 ^ w
  = (sum + ((a / 2 ^ cb) mod 2 ^ Z.of_nat rem) * (2 ^ cb * b)) mod 2 ^ w.
Proof.
  induction rem as [|r IH]; intros sum cb Hcb Hw; cbn [one_cycle_mult].
  - change (2 ^ Z.of_nat 0) with 1. rewrite Z.mod_1_r. f_equal. lia.
  - assert (HM : 0 < 2 ^ w) by (apply Z.pow_pos_nonneg; lia).
    rewrite IH by lia.
    rewrite Nat2Z.inj_succ, Z.pow_succ_r by lia.
    assert (Hr : 0 < 2 ^ Z.of_nat r) by (apply Z.pow_pos_nonneg; lia).
    rewrite (Z.rem_mul_r (a / 2 ^ cb) 2 (2 ^ Z.of_nat r)) by lia.
    rewrite Z.div_div by (try apply Z.pow_pos_nonneg; lia).
    replace (2 ^ cb * 2) with (2 ^ (cb + 1)) by (rewrite Z.pow_add_r by lia; lia).
    rewrite Z.testbit_odd, Z.shiftr_div_pow2 by lia.
    rewrite Zmod_odd.
    set (hi := (a / 2 ^ (cb + 1)) mod 2 ^ Z.of_nat r).
    destruct (Z.odd (a / 2 ^ cb)).
    + rewrite Z.shiftl_mul_pow2 by lia.
      rewrite <- Z.add_assoc, (Z.add_comm sum), <- Z.add_assoc.
      rewrite Z.add_mod_idemp_l by lia. f_equal.
      rewrite (Z.pow_add_r 2 cb 1) by lia. change (2 ^ 1) with 2. ring.
    + f_equal. rewrite (Z.pow_add_r 2 cb 1) by lia. change (2 ^ 1) with 2. ring.
Qed.

Lemma complex_P1 alen blen sh A B st : areg st = 0 -> complex_step alen blen sh false A B st = st.
Proof. intros H. unfold complex_step, m_done. rewrite H. reflexivity. Qed.

Lemma complex_P2 alen blen sh A B st n : 0 <= alen + blen -> (1 <= sh)%nat ->
  areg st <> 0 -> 0 <= areg st < 2 ^ (Z.of_nat sh * (Z.of_nat n + 1)) ->
  let st' := complex_step alen blen sh false A B st in
  0 <= areg st' < 2 ^ (Z.of_nat sh * Z.of_nat n) /\
  0 <= accum st' < 2 ^ (alen + blen) /\
  (accum st' + areg st' * breg st') mod 2 ^ (alen + blen)
  = (accum st + areg st * breg st) mod 2 ^ (alen + blen).
Proof.
  intros Hw Hsh Hne Ha. unfold complex_step, m_done.
  replace (areg st =? 0) with false by lia. cbn [negb areg breg accum].
  set (s := Z.of_nat sh) in *. assert (Hs : 0 < s) by lia.
  assert (HM : 0 < 2 ^ (alen + blen)) by (apply Z.pow_pos_nonneg; lia).
  assert (Hps : 0 < 2 ^ s) by (apply Z.pow_pos_nonneg; lia).
  rewrite Z.shiftr_div_pow2, Z.shiftl_mul_pow2 by lia.
  rewrite Z.mul_add_distr_l, Z.mul_1_r, Z.pow_add_r in Ha by lia.
  assert (Hp : 0 < 2 ^ (s * Z.of_nat n)) by (apply Z.pow_pos_nonneg; lia).
  split; [split; [apply Z.div_pos; lia | apply Z.div_lt_upper_bound; lia]|].
  split; [apply Z.mod_pos_bound; assumption|].
  rewrite mod_combine by lia.
  rewrite <- Z.add_assoc, <- Z.add_mod_idemp_r by lia.
  rewrite <- (Z.add_mod_idemp_l (one_cycle_mult _ _ _ _ _ _)) by lia.
  rewrite (ocm_spec (areg st) (breg st) (alen + blen) sh 0 0) by lia.
  rewrite Z.add_mod_idemp_l, Z.add_mod_idemp_r by lia. f_equal.
  change (2 ^ 0) with 1. rewrite Z.div_1_r. fold s.
  pose proof (Z.div_mod (areg st) (2 ^ s) ltac:(lia)) as Hd. nia.
Qed.

Theorem complex_mult_done_and_product alen blen sh A B st0 :
  0 < alen -> 0 < blen -> (1 <= sh)%nat -> 0 <= A < 2 ^ alen -> 0 <= B < 2 ^ blen ->
  let st1 := complex_step alen blen sh true A B st0 in
  let hold := complex_step alen blen sh false A B in
  let bound := Z.to_nat ((alen + Z.of_nat sh - 1) / Z.of_nat sh) in   (* ceil(alen/shifts) *)
  exists d, (d <= bound)%nat /\
    (forall j, (j < d)%nat -> m_done (m_run hold j st1) = false) /\
    (forall k, (d <= k)%nat ->
       m_done (m_run hold k st1) = true /\ accum (m_run hold k st1) = A * B).
Proof.
  intros Ha Hb Hsh HA HB st1 hold bound.
  assert (HM : 0 < 2 ^ (alen + blen)) by (apply Z.pow_pos_nonneg; lia).
  destruct (run_finish hold (2 ^ (alen + blen)) (Z.of_nat sh)
              (fun st => complex_P1 alen blen sh A B st)
              (fun st n => complex_P2 alen blen sh A B st n ltac:(lia) Hsh)
              bound st1) as (d & Hd & H1 & H2).
  - unfold st1, complex_step. cbn [areg]. split; [lia|].
    eapply Z.lt_le_trans; [apply HA|]. apply Z.pow_le_mono_r; [lia|].
    unfold bound. rewrite Z2Nat.id by (apply Z.div_pos; lia).
    pose proof (Z.div_mod (alen + Z.of_nat sh - 1) (Z.of_nat sh) ltac:(lia)) as Hd.
    pose proof (Z.mod_pos_bound (alen + Z.of_nat sh - 1) (Z.of_nat sh) ltac:(lia)) as Hm. lia.
  - unfold st1, complex_step. cbn [accum]. lia.
  - exists d. split; [assumption|]. split; [assumption|].
    intros k Hk. destruct (H2 k Hk) as [H3 H4]. split; [assumption|].
    rewrite H4. unfold st1, complex_step. cbn [areg breg accum]. rewrite Z.add_0_l.
    apply Z.mod_small. rewrite Z.pow_add_r by lia. nia.
Qed.

(* Restart while busy: the theorems above quantify over an ARBITRARY prior state st0,
   so a start pulse that arrives while an earlier multiplication is still running
   (done low, accum and breg holding partial results of other operands) behaves like
   any other start: the new operands are latched, accum is cleared, done rises within
   the bound and the product of the NEW operands is held. *)
Corollary simple_mult_restart_while_busy alen blen A B st0 :
  0 < alen -> 0 < blen -> 0 <= A < 2 ^ alen -> 0 <= B < 2 ^ blen ->
  m_done st0 = false ->
  let st1 := simple_step alen blen true A B st0 in
  let hold := simple_step alen blen false A B in
  st1 = MkM A B 0 /\
  exists d, (d <= Z.to_nat alen)%nat /\
    (forall j, (j < d)%nat -> m_done (m_run hold j st1) = false) /\
    (forall k, (d <= k)%nat ->
       m_done (m_run hold k st1) = true /\ accum (m_run hold k st1) = A * B).
Proof.
  intros Ha Hb HA HB _. split; [reflexivity|].
  apply simple_mult_done_and_product; assumption.
Qed.

Corollary complex_mult_restart_while_busy alen blen sh A B st0 :
  0 < alen -> 0 < blen -> (1 <= sh)%nat -> 0 <= A < 2 ^ alen -> 0 <= B < 2 ^ blen ->
  m_done st0 = false ->
  let st1 := complex_step alen blen sh true A B st0 in
  let hold := complex_step alen blen sh false A B in
  let bound := Z.to_nat ((alen + Z.of_nat sh - 1) / Z.of_nat sh) in
  st1 = MkM A B 0 /\
  exists d, (d <= bound)%nat /\
    (forall j, (j < d)%nat -> m_done (m_run hold j st1) = false) /\
    (forall k, (d <= k)%nat ->
       m_done (m_run hold k st1) = true /\ accum (m_run hold k st1) = A * B).
Proof.
  intros Ha Hb Hsh HA HB _. split; [reflexivity|].
  apply complex_mult_done_and_product; assumption.
Qed.
