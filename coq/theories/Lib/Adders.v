(* Gallina models of pyrtl/rtllib/adders.py -- definitions only, no proofs.
   Each definition mirrors the structure of the Python generator it is named
   after; bit lists are LSB first.  Generators that can raise return option. *)
From PyRTL Require Export Lib.BitList.

Definition adder := list bool -> list bool -> list bool.

(* ---------------------------------------------------------------- ripple *)

(* ripple_half_add(a, cin): the len(a)==1 base case [sum; cout] is the
   unrolling of the general rule with an empty tail. *)
Fixpoint ripple_half_add (a : list bool) (cin : bool) : list bool :=
  match a with
  | [] => [cin]
  | x :: t => let '(s, c) := half_add x cin in s :: ripple_half_add t c
  end.

(* ripple_add after the operand swap (a is the longer operand) *)
Fixpoint ripple_aux (a b : list bool) (cin : bool) {struct a} : list bool :=
  match a with
  | [] => match b with [] => [cin] | _ => ripple_half_add b cin end
  | x :: ta =>
      match b with
      | [] => ripple_half_add a cin
      | y :: tb => let '(s, c) := full_add x y cin in s :: ripple_aux ta tb c
      end
  end.

Definition ripple_add (a b : list bool) (cin : bool) : list bool :=
  if (length a <? length b)%nat then ripple_aux b a cin else ripple_aux a b cin.

(* ------------------------------------------------------------ kogge_stone *)

(* SWITCH POINT (F9).  The generate bits the prefix tree starts from.  Before the
   fix (fa565d3) the code used `a & b` and never fed cin into the tree
   (ks_init_gen_asis); since the fix `gen_bits[0] = gen_bits[0] | (prop_bits[0] & cin)`
   (ks_init_gen_cin).  `ks_init_gen` below selects the model of record. *)
Definition ks_init_gen_asis (a b : list bool) (cin : bool) : list bool := map2 andb a b.

Definition ks_init_gen_cin (a b : list bool) (cin : bool) : list bool :=
  match map2 andb a b, map2 xorb a b with
  | g0 :: gt, p0 :: _ => (g0 || (p0 && cin)) :: gt
  | g, _ => g
  end.

(* body of `for i in reversed(range(prop_dist, len(a)))`: in-place update *)
Definition ks_update (d : nat) (gp : list bool * list bool) (i : nat) : list bool * list bool :=
  let '(g, p) := gp in
  let prop_old := nth i p false in
  let g' := set_nth i (nth i g false || (prop_old && nth (i - d) g false)) g in
  let p' := if (2 * d <=? i)%nat then set_nth i (prop_old && nth (i - d) p false) p else p in
  (g', p').

Definition ks_stage (d n : nat) (gp : list bool * list bool) : list bool * list bool :=
  fold_left (ks_update d) (rev (seq d (n - d))) gp.

(* `while prop_dist < len(a): ...; prop_dist *= 2` *)
Fixpoint ks_loop (fuel d n : nat) (gp : list bool * list bool) : list bool * list bool :=
  match fuel with
  | O => gp
  | S f => if (d <? n)%nat then ks_loop f (2 * d) n (ks_stage d n gp) else gp
  end.

(* `concat_list(gen_bits) ^ prop_orig` (the shorter operand is zero-extended) *)
Fixpoint xor_ext (c p : list bool) : list bool :=
  match c with
  | [] => p
  | x :: tc => match p with [] => c | y :: tp => xorb x y :: xor_ext tc tp end
  end.

Definition kogge_stone_with (init : list bool -> list bool -> bool -> list bool)
    (a b : list bool) (cin : bool) : list bool :=
  let '(a', b') := match2 a b in
  let n := length a' in
  let p0 := map2 xorb a' b' in
  let g0 := init a' b' cin in
  let '(g, _) := ks_loop n 1 n (g0, p0) in
  xor_ext (cin :: g) p0.

(* the generate/propagate lists after each stage (for inspection) *)
Fixpoint ks_trace (fuel d n : nat) (gp : list bool * list bool) : list (list bool * list bool) :=
  match fuel with
  | O => [gp]
  | S f => if (d <? n)%nat then gp :: ks_trace f (2 * d) n (ks_stage d n gp) else [gp]
  end.

(* THE model of kogge_stone as the code is today (after fix fa565d3) *)
Definition ks_init_gen := ks_init_gen_cin.
Definition kogge_stone := kogge_stone_with ks_init_gen.

(* ------------------------------------------------------------- cla_adder *)

(* the `for i in range(1, len(prop))` loop of _cla_adder_unit;
   state = (cur_gen, cur_prop, carry[i-1]); returns sum bits 1.. and the
   final (cur_gen, cur_prop) *)
Fixpoint cla_unit_loop (gp : list (bool * bool)) (cur_gen cur_prop cprev : bool)
  : list bool * (bool * bool) :=
  match gp with
  | [] => ([], (cur_gen, cur_prop))
  | (g, p) :: t =>
      let cur_gen' := g || (p && cur_gen) in
      let cur_prop' := cur_prop && p in
      let s := xorb p cprev in
      let c := g || (p && cprev) in
      let '(ss, fin) := cla_unit_loop t cur_gen' cur_prop' c in
      (s :: ss, fin)
  end.

(* _cla_adder_unit(a, b, cin) = (sum bits, cout) *)
Definition cla_unit (a b : list bool) (cin : bool) : list bool * bool :=
  match combine (map2 andb a b) (map2 xorb a b) with
  | [] => ([], cin)
  | (g0, p0) :: t =>
      let '(ss, (cg, cp)) := cla_unit_loop t g0 p0 (g0 || (p0 && cin)) in
      (xorb p0 cin :: ss, cg || (cp && cin))
  end.

Fixpoint cla_rec (fuel la : nat) (a b : list bool) (cin : bool) : list bool :=
  match fuel with
  | O => []
  | S f =>
      if (length a <=? la)%nat then
        let '(s, c) := cla_unit a b cin in s ++ [c]
      else
        let '(s, c) := cla_unit (firstn la a) (firstn la b) cin in
        s ++ cla_rec f la (skipn la a) (skipn la b) c
  end.

Definition cla_adder (la : nat) (a b : list bool) (cin : bool) : list bool :=
  let '(a', b') := match2 a b in cla_rec (S (length a')) la a' b' cin.

(* -------------------------------------------------------- carrysave_adder *)

(* F12.  Before fix 36743df the code was
     concat(final_adder(partial_sum[1:], shift_carry), partial_sum[0])
   and raised when all three operands are one bit wide (empty slice):
   carrysave_adder_with true.  Since the fix it is
     final_adder(partial_sum, concat(shift_carry, Const(0, 1)))
   = carrysave_adder below (the model of record). *)

Fixpoint map3 (f : bool -> bool -> bool -> bool) (a b c : list bool) : list bool :=
  match a, b, c with
  | x :: ta, y :: tb, z :: tc => f x y z :: map3 f ta tb tc
  | _, _, _ => []
  end.

Definition cs_sum (a b c : bool) := xorb (xorb a b) c.
Definition cs_carry (a b c : bool) := (a || b) && (a || c) && (b || c).

Definition carrysave_adder_with (raises1 : bool) (add : adder) (a b c : list bool)
  : option (list bool) :=
  let n := Nat.max (length a) (Nat.max (length b) (length c)) in
  let a' := zext n a in let b' := zext n b in let c' := zext n c in
  let partial_sum := map3 cs_sum a' b' c' in
  let shift_carry := map3 cs_carry a' b' c' in
  if (n <=? 1)%nat && raises1 then None
  else match partial_sum with
       | [] => None
       | p0 :: pt => Some (p0 :: add pt shift_carry)
       end.

Definition carrysave_adder (add : adder) (a b c : list bool) : option (list bool) :=
  let n := Nat.max (length a) (Nat.max (length b) (length c)) in
  let a' := zext n a in let b' := zext n b in let c' := zext n c in
  let partial_sum := map3 cs_sum a' b' c' in
  let shift_carry := map3 cs_carry a' b' c' in
  Some (add partial_sum (false :: shift_carry)).

(* ---------------------------------------------------------- tree reducers *)

(* one column of a Wallace pass: (bits staying in this column, carries) *)
Fixpoint wallace_col (w : list bool) : list bool * list bool :=
  match w with
  | x :: y :: z :: t =>
      let '(s, c) := full_add x y z in
      let '(st, ca) := wallace_col t in (s :: st, c :: ca)
  | [x; y] => let '(s, c) := half_add x y in ([s], [c])
  | _ => (w, [])
  end.

(* one pass over all columns; cin = what the previous column deferred here.
   The last element is deferred[len(wire_array_2)]. *)
Fixpoint wallace_pass (cols : list (list bool)) (cin : list bool) : list (list bool) :=
  match cols with
  | [] => [cin]
  | w :: rest => let '(st, ca) := wallace_col w in (cin ++ st) :: wallace_pass rest ca
  end.

(* `deferred = [[] for weight in range(rw + 1)] ... deferred[:rw]` *)
Definition take_pad (rw : nat) (cols : list (list bool)) : list (list bool) :=
  firstn rw (cols ++ repeat [] (rw - length cols)).

Definition all_le2 (cols : list (list bool)) : bool :=
  forallb (fun c => (length c <=? 2)%nat) cols.

Fixpoint wallace_loop (fuel rw : nat) (cols : list (list bool)) : option (list (list bool)) :=
  if all_le2 cols then Some cols
  else match fuel with
       | O => None
       | S f => wallace_loop f rw (take_pad rw (wallace_pass cols []))
       end.

(* _sparse_adder: leading columns until the first one of height 2 are passed
   through; None = the IndexError the source raises when no column has height
   2 or a leading column is empty. *)
Fixpoint sparse_split (cols : list (list bool)) : option (list bool * list (list bool)) :=
  match cols with
  | [] => None
  | c :: rest =>
      if (length c =? 2)%nat then Some ([], cols)
      else match c with
           | [] => None
           | x :: _ => match sparse_split rest with
                       | Some (pre, z) => Some (x :: pre, z)
                       | None => None
                       end
           end
  end.

(* _sparse_adder since fix be08f74, which never raises: an empty leading column
   passes a constant 0, and when no column has height 2 there is nothing left to
   add (the for/else returns concat_list(result)) *)
Fixpoint sparse_split_total (cols : list (list bool)) : option (list bool * list (list bool)) :=
  match cols with
  | [] => Some ([], [])
  | c :: rest =>
      if (length c =? 2)%nat then Some ([], cols)
      else match sparse_split_total rest with
           | Some (pre, z) => Some (nth 0 c false :: pre, z)
           | None => None
           end
  end.

Definition sparse_adder_with (split : list (list bool) -> option (list bool * list (list bool)))
    (add : adder) (cols : list (list bool)) : option (list bool) :=
  match split cols with
  | None => None
  | Some (pre, []) => Some pre
  | Some (pre, z) =>
      Some (pre ++ add (map (fun c => nth 0 c false) z) (map (fun c => nth 1 c false) z))
  end.

(* SWITCH POINT (_sparse_adder raising when no column has height 2).  Before fix
   be08f74 the code was sparse_adder_with sparse_split (None = IndexError); since
   the fix it is sparse_adder_with sparse_split_total, the model of record.  (The
   lemma used in ReducerProofs.sparse_adder_spec switches with it:
   sparse_split_ok / sparse_split_total_ok.) *)
Definition sparse_adder : adder -> list (list bool) -> option (list bool) :=
  sparse_adder_with sparse_split_total.

Definition maxheight (cols : list (list bool)) : nat :=
  fold_right (fun c m => Nat.max (length c) m) O cols.

Definition reducer := adder -> list (list bool) -> nat -> option (list bool).

(* `result[:rw] if len(result) > rw else result`  ==  firstn rw result *)
Definition wallace_reducer_fuel (fuel : nat) : reducer := fun add cols rw =>
  if (rw <? length cols)%nat then None else
  match wallace_loop fuel rw cols with
  | None => None
  | Some c => match sparse_adder add c with
              | None => None
              | Some r => Some (firstn rw r)
              end
  end.

Definition wallace_reducer : reducer := fun add cols rw =>
  wallace_reducer_fuel (maxheight cols) add cols rw.

(* one column of a Dada pass: `while len(w)+len(def) > target: ...`;
   None = pop from an empty list (IndexError) or fuel exhausted *)
Fixpoint dada_col (fuel target : nat) (w def carry : list bool)
  : option (list bool * list bool) :=
  if (length w + length def <=? target)%nat then Some (def ++ w, carry)
  else match fuel with
       | O => None
       | S f =>
           if (2 <=? length w + length def - target)%nat then
             match w with
             | x :: y :: z :: t =>
                 let '(s, c) := full_add x y z in dada_col f target t (def ++ [s]) (carry ++ [c])
             | _ => None
             end
           else
             match w with
             | x :: y :: t =>
                 let '(s, c) := half_add x y in dada_col f target t (def ++ [s]) (carry ++ [c])
             | _ => None
             end
       end.

Fixpoint dada_pass (target : nat) (cols : list (list bool)) (cin : list bool)
  : option (list (list bool)) :=
  match cols with
  | [] => Some [cin]
  | w :: rest =>
      match dada_col (S (length w)) target w cin [] with
      | None => None
      | Some (d, ca) => match dada_pass target rest ca with
                        | None => None
                        | Some r => Some (d :: r)
                        end
      end
  end.

(* reduction_schedule[:-1] in increasing order: 2, 3, 4, 6, 9, ... <= max_width *)
Fixpoint dada_sched_up (fuel cur maxw : nat) : list nat :=
  match fuel with
  | O => []
  | S f => if (cur <=? maxw)%nat then cur :: dada_sched_up f (cur * 3 / 2) maxw else []
  end.

Definition dada_targets (maxw : nat) : list nat := rev (dada_sched_up (S maxw) 2 maxw).

Fixpoint dada_loop (targets : list nat) (rw : nat) (cols : list (list bool))
  : option (list (list bool)) :=
  match targets with
  | [] => Some cols
  | t :: ts => match dada_pass t cols [] with
               | None => None
               | Some c' => dada_loop ts rw (take_pad rw c')
               end
  end.

Definition dada_reducer : reducer := fun add cols rw =>
  if (rw <? length cols)%nat then None else
  match dada_loop (dada_targets (maxheight cols)) rw cols with
  | None => None
  | Some c => match sparse_adder add c with
              | None => None
              | Some r => Some (firstn rw r)
              end
  end.

(* ------------------------------------------------------- fast_group_adder *)

(* `for bit_loc, bit in enumerate(wire): bits[bit_loc].append(bit)`.  (The
   source raises IndexError past the last column; callers size the array by
   the longest wire, so the model simply grows it.) *)
Fixpoint add_wire (cols : list (list bool)) (w : list bool) : list (list bool) :=
  match w with
  | [] => cols
  | b :: tw => match cols with
               | [] => [b] :: add_wire [] tw
               | c :: tc => (c ++ [b]) :: add_wire tc tw
               end
  end.

Definition maxlen (ws : list (list bool)) : nat :=
  fold_right (fun w m => Nat.max (length w) m) O ws.

(* int(math.ceil(math.log(k, 2))) *)
Definition clog2 (k : nat) : nat := Z.to_nat (Z.log2_up (Z.of_nat k)).

Definition fga_width (ws : list (list bool)) : nat := (maxlen ws + clog2 (length ws))%nat.

Definition fast_group_adder (red : reducer) (add : adder) (ws : list (list bool))
  : option (list bool) :=
  let bits := fold_left add_wire ws (repeat [] (maxlen ws)) in
  red add bits (fga_width ws).

(* the three final adders the check instantiates (two-argument call, cin=0) *)
Definition add_ks : adder := fun a b => kogge_stone a b false.
Definition add_ripple : adder := fun a b => ripple_add a b false.
Definition add_cla (la : nat) : adder := fun a b => cla_adder la a b false.
