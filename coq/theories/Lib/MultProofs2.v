(* signed_tree_multiplier: two's complement product modulo 2^(len A + len B). *)
From PyRTL Require Import Lib.Mult Lib.BitListFacts Lib.AddersProofs Lib.ReducerProofs
  Lib.MultProofs.
From Coq Require Import ZifyBool.

Lemma bval_map_negb w : bval (map negb w) = 2 ^ Z.of_nat (length w) - 1 - bval w.
Proof.
  induction w as [|b t IH]; cbn [map bval length].
  - change (2 ^ Z.of_nat 0) with 1. lia.
  - rewrite IH, Nat2Z.inj_succ, Z.pow_succ_r by lia. destruct b; cbn [negb b2z]; lia.
Qed.

(* the top bit is the sign: it is set iff the value is at least 2^(n-1) *)
Lemma last_bit w : w <> [] ->
  if last w false then 2 ^ Z.of_nat (length w - 1) <= bval w
  else bval w < 2 ^ Z.of_nat (length w - 1).
Proof.
  induction w as [|b t IH]; intros H; [congruence|].
  destruct t as [|b2 t2].
  - cbn [last bval length Nat.sub]. change (2 ^ Z.of_nat 0) with 1. destruct b; cbn [b2z]; lia.
  - specialize (IH ltac:(discriminate)).
    change (last (b :: b2 :: t2) false) with (last (b2 :: t2) false).
    cbn [length Nat.sub] in *. rewrite Nat.sub_0_r in IH.
    cbn [bval] in *. rewrite Nat2Z.inj_succ, Z.pow_succ_r by lia.
    pose proof (b2z_range b). destruct (last (b2 :: t2) false); lia.
Qed.

Lemma length_twos_comp w s : length (twos_comp_cond w s) = length w.
Proof. unfold twos_comp_cond. destruct s; [apply length_zbits|reflexivity]. Qed.

Lemma bval_twos_comp w s :
  bval (twos_comp_cond w s) = if s then (- bval w) mod 2 ^ Z.of_nat (length w) else bval w.
Proof.
  unfold twos_comp_cond. destruct s; [|reflexivity].
  rewrite bval_zbits, bval_map_negb.
  replace (2 ^ Z.of_nat (length w) - 1 - bval w + 1) with (- bval w + 1 * 2 ^ Z.of_nat (length w)) by lia.
  apply Z.mod_add. apply Z.pow_nonzero; lia.
Qed.

(* conditional negation by the sign bit yields the magnitude *)
Lemma bval_abs w : w <> [] -> bval (twos_comp_cond w (last w false)) = Z.abs (sval w).
Proof.
  intros H. rewrite bval_twos_comp. unfold sval. pose proof (last_bit w H) as Hl.
  pose proof (bval_range w) as Hr.
  assert (Hn : (1 <= length w)%nat) by (destruct w; [congruence|cbn [length]; lia]).
  assert (Hp : 2 ^ Z.of_nat (length w) = 2 * 2 ^ Z.of_nat (length w - 1)).
  { rewrite <- Z.pow_succ_r by lia. f_equal. lia. }
  destruct (last w false).
  - replace (- bval w) with ((2 ^ Z.of_nat (length w) - bval w) + (-1) * 2 ^ Z.of_nat (length w)) by lia.
    rewrite Z.mod_add by lia. rewrite Z.mod_small by lia. lia.
  - lia.
Qed.

Lemma sval_range w : w <> [] ->
  - 2 ^ Z.of_nat (length w - 1) <= sval w < 2 ^ Z.of_nat (length w - 1).
Proof.
  intros H. unfold sval. pose proof (last_bit w H) as Hl. pose proof (bval_range w) as Hr.
  assert (Hn : (1 <= length w)%nat) by (destruct w; [congruence|cbn [length]; lia]).
  assert (Hp : 2 ^ Z.of_nat (length w) = 2 * 2 ^ Z.of_nat (length w - 1)).
  { rewrite <- Z.pow_succ_r by lia. f_equal. lia. }
  destruct (last w false); lia.
Qed.

(* a magnitude extractor is adequate for an operand when it keeps |operand| *)
Definition mag_ok (mag : list bool -> list bool) (W : list bool) : Prop :=
  bval (mag (twos_comp_cond W (last W false))) = Z.abs (sval W).

Theorem signed_tree_multiplier_gen mag A B r :
  signed_tree_multiplier_with mag A B = Some r ->
  mag_ok mag A -> mag_ok mag B ->
  bval r = (sval A * sval B) mod 2 ^ Z.of_nat (length A + length B) /\
  length r = (length A + length B)%nat.
Proof.
  unfold signed_tree_multiplier_with, mag_ok. intros H HA HB.
  destruct ((length A =? 1)%nat || (length B =? 1)%nat || (length A =? 0)%nat || (length B =? 0)%nat)
    eqn:Eg; [discriminate|].
  assert (HnA : A <> []) by (intros ->; cbn in Eg; rewrite ?orb_true_r in Eg; discriminate).
  assert (HnB : B <> []) by (intros ->; cbn in Eg; rewrite ?orb_true_r in Eg; discriminate).
  destruct (tree_multiplier wallace_reducer add_ks _ _) as [p|] eqn:Et; [|discriminate].
  destruct (length A + length B <? length p)%nat eqn:El; [discriminate|].
  injection H as <-.
  pose proof (tree_multiplier_exact _ _ _ _ p wallace_exact add_ks_ok Et) as Hp.
  rewrite HA, HB in Hp.
  assert (Lz : length (zext (length A + length B) p) = (length A + length B)%nat)
    by (rewrite length_zext; lia).
  split; [|rewrite length_twos_comp; exact Lz].
  rewrite bval_twos_comp, Lz, bval_zext, Hp.
  set (N := Z.of_nat (length A + length B)).
  assert (HN : 0 < 2 ^ N) by (apply Z.pow_pos_nonneg; lia).
  (* bounds: |sA*sB| <= 2^(N-2) < 2^N *)
  pose proof (sval_range A HnA) as RA. pose proof (sval_range B HnB) as RB.
  assert (Hn1 : (1 <= length A)%nat) by (destruct A; [congruence|cbn [length]; lia]).
  assert (Hn2 : (1 <= length B)%nat) by (destruct B; [congruence|cbn [length]; lia]).
  assert (Hpow : 2 ^ N = 4 * (2 ^ Z.of_nat (length A - 1) * 2 ^ Z.of_nat (length B - 1))).
  { unfold N. rewrite <- Z.pow_add_r by lia. change 4 with (2 ^ 2). rewrite <- Z.pow_add_r by lia.
    f_equal. lia. }
  assert (PA : 0 < 2 ^ Z.of_nat (length A - 1)) by (apply Z.pow_pos_nonneg; lia).
  assert (PB : 0 < 2 ^ Z.of_nat (length B - 1)) by (apply Z.pow_pos_nonneg; lia).
  assert (Habs : Z.abs (sval A) * Z.abs (sval B) < 2 ^ N) by nia.
  assert (Hsign : forall W, W <> [] -> last W false = (sval W <? 0)).
  { intros W HW. unfold sval. pose proof (bval_range W). destruct (last W false); lia. }
  rewrite (Hsign A HnA), (Hsign B HnB).
  destruct (sval A <? 0) eqn:EA; destruct (sval B <? 0) eqn:EB; cbn [xorb].
  - rewrite Z.mod_small by nia. nia.
  - f_equal. nia.
  - f_equal. nia.
  - rewrite Z.mod_small by nia. nia.
Qed.

(* keeping all magnitude bits (the one-definition repair) is always adequate *)
Theorem signed_tree_multiplier_fullmag_exact A B r :
  signed_tree_multiplier A B = Some r ->
  bval r = (sval A * sval B) mod 2 ^ Z.of_nat (length A + length B) /\
  length r = (length A + length B)%nat.
Proof.
  intros H. unfold signed_tree_multiplier in H.
  assert (HnA : A <> []).
  { intros ->. unfold signed_tree_multiplier_with in H. cbn in H. rewrite ?orb_true_r in H. discriminate. }
  assert (HnB : B <> []).
  { intros ->. unfold signed_tree_multiplier_with in H. cbn [length Nat.eqb] in H.
    rewrite ?orb_true_r in H. discriminate. }
  apply (signed_tree_multiplier_gen _ A B r H); unfold mag_ok, stm_magnitude; apply bval_abs; assumption.
Qed.

(* the code as it is (a[:-1]): adequate unless the operand is the most negative value *)
Lemma stm_magnitude_ok W : W <> [] -> sval W <> - 2 ^ Z.of_nat (length W - 1) ->
  mag_ok stm_magnitude_prefix W.
Proof.
  intros HW Hmn. unfold mag_ok, stm_magnitude_prefix.
  rewrite removelast_firstn_len, bval_firstn, length_twos_comp, bval_abs by assumption.
  replace (Nat.pred (length W)) with (length W - 1)%nat by lia.
  apply Z.mod_small. pose proof (sval_range W HW). lia.
Qed.

Theorem signed_tree_multiplier_partial A B r :
  signed_tree_multiplier_with stm_magnitude_prefix A B = Some r ->
  sval A <> - 2 ^ Z.of_nat (length A - 1) -> sval B <> - 2 ^ Z.of_nat (length B - 1) ->
  bval r = (sval A * sval B) mod 2 ^ Z.of_nat (length A + length B) /\
  length r = (length A + length B)%nat.
Proof.
  intros H HA HB.
  assert (HnA : A <> []).
  { intros ->. unfold signed_tree_multiplier_with in H. cbn in H. rewrite ?orb_true_r in H. discriminate. }
  assert (HnB : B <> []).
  { intros ->. unfold signed_tree_multiplier_with in H. cbn [length Nat.eqb] in H.
    rewrite ?orb_true_r in H. discriminate. }
  apply (signed_tree_multiplier_gen _ A B r H); apply stm_magnitude_ok; assumption.
Qed.

(* F10: 1 * (-2) on 2x2 bits gives 0 instead of -2 = 14 mod 16 *)
Theorem signed_tree_most_negative_refuted :
  exists A B r, signed_tree_multiplier_with stm_magnitude_prefix A B = Some r /\
    bval r <> (sval A * sval B) mod 2 ^ Z.of_nat (length A + length B).
Proof.
  exists [true; false], [false; true], [false; false; false; false].
  vm_compute. split; [reflexivity|discriminate].
Qed.

(* reading the result as a two's complement number (to_signed) *)
Lemma sval_of_mod r P : (1 <= length r)%nat ->
  bval r = P mod 2 ^ Z.of_nat (length r) ->
  - 2 ^ Z.of_nat (length r - 1) <= P < 2 ^ Z.of_nat (length r - 1) ->
  sval r = P.
Proof.
  intros Hn Hb HP. assert (Hr : r <> []) by (intros ->; cbn [length] in Hn; lia).
  pose proof (last_bit r Hr) as Hl. unfold sval.
  assert (Hp : 2 ^ Z.of_nat (length r) = 2 * 2 ^ Z.of_nat (length r - 1)).
  { rewrite <- Z.pow_succ_r by lia. f_equal. lia. }
  assert (Hq : 0 < 2 ^ Z.of_nat (length r - 1)) by (apply Z.pow_pos_nonneg; lia).
  destruct (Z.lt_ge_cases P 0) as [Hneg|Hpos].
  - assert (E : P mod 2 ^ Z.of_nat (length r) = P + 2 ^ Z.of_nat (length r)).
    { replace P with ((P + 2 ^ Z.of_nat (length r)) + (-1) * 2 ^ Z.of_nat (length r)) at 1 by lia.
      rewrite Z.mod_add by lia. apply Z.mod_small. lia. }
    rewrite E in Hb. destruct (last r false); lia.
  - rewrite Z.mod_small in Hb by lia. destruct (last r false); lia.
Qed.

Lemma signed_product_range A B : A <> [] -> B <> [] ->
  - 2 ^ Z.of_nat (length A + length B - 1) <= sval A * sval B < 2 ^ Z.of_nat (length A + length B - 1).
Proof.
  intros HA HB. pose proof (sval_range A HA) as RA. pose proof (sval_range B HB) as RB.
  assert (Hn1 : (1 <= length A)%nat) by (destruct A; [congruence|cbn [length]; lia]).
  assert (Hn2 : (1 <= length B)%nat) by (destruct B; [congruence|cbn [length]; lia]).
  assert (Hpow : 2 ^ Z.of_nat (length A + length B - 1)
                 = 2 * (2 ^ Z.of_nat (length A - 1) * 2 ^ Z.of_nat (length B - 1))).
  { rewrite <- Z.pow_add_r by lia. rewrite <- Z.pow_succ_r by lia. f_equal. lia. }
  assert (PA : 0 < 2 ^ Z.of_nat (length A - 1)) by (apply Z.pow_pos_nonneg; lia).
  assert (PB : 0 < 2 ^ Z.of_nat (length B - 1)) by (apply Z.pow_pos_nonneg; lia).
  nia.
Qed.

Theorem signed_tree_multiplier_partial_signed A B r :
  signed_tree_multiplier_with stm_magnitude_prefix A B = Some r ->
  sval A <> - 2 ^ Z.of_nat (length A - 1) -> sval B <> - 2 ^ Z.of_nat (length B - 1) ->
  sval r = sval A * sval B /\ length r = (length A + length B)%nat.
Proof.
  intros H HA HB.
  assert (HnA : A <> []).
  { intros ->. unfold signed_tree_multiplier_with in H. cbn in H.
    rewrite ?orb_true_r in H. discriminate. }
  assert (HnB : B <> []).
  { intros ->. unfold signed_tree_multiplier_with in H.
    cbn [length Nat.eqb] in H. rewrite ?orb_true_r in H. discriminate. }
  destruct (signed_tree_multiplier_partial A B r H HA HB) as [Hv Hl]. split; [|exact Hl].
  assert (Hn1 : (1 <= length A)%nat) by (destruct A; [congruence|cbn [length]; lia]).
  apply sval_of_mod; rewrite Hl; [lia|exact Hv|apply signed_product_range; assumption].
Qed.

Theorem signed_tree_multiplier_fullmag_signed A B r :
  signed_tree_multiplier A B = Some r ->
  sval r = sval A * sval B /\ length r = (length A + length B)%nat.
Proof.
  intros H. pose proof H as H0. unfold signed_tree_multiplier in H.
  assert (HnA : A <> []).
  { intros ->. unfold signed_tree_multiplier_with in H. cbn in H. rewrite ?orb_true_r in H. discriminate. }
  assert (HnB : B <> []).
  { intros ->. unfold signed_tree_multiplier_with in H. cbn [length Nat.eqb] in H.
    rewrite ?orb_true_r in H. discriminate. }
  destruct (signed_tree_multiplier_fullmag_exact A B r H0) as [Hv Hl]. split; [|exact Hl].
  assert (Hn1 : (1 <= length A)%nat) by (destruct A; [congruence|cbn [length]; lia]).
  apply sval_of_mod; rewrite Hl; [lia|exact Hv|apply signed_product_range; assumption].
Qed.
