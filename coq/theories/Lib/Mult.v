(* Gallina models of the combinational generators of pyrtl/rtllib/multipliers.py
   -- definitions only, no proofs. *)
From PyRTL Require Export Lib.Adders.

(* _trivial_mult: an AND row when one operand is one bit wide, else None *)
Definition trivial_mult (A B : list bool) : option (list bool) :=
  let '(A', B') := if (length B =? 1)%nat then (B, A) else (A, B) in
  if (length A' =? 1)%nat then Some (map (andb (hd false A')) B' ++ [false]) else None.

(* `for i, a in enumerate(A): for j, b in enumerate(B): bits[i+j].append(a & b)`:
   row i is appended to the columns from offset i on *)
Fixpoint add_pp (cols : list (list bool)) (A B : list bool) : list (list bool) :=
  match A with
  | [] => cols
  | a :: ta => match add_wire cols (map (andb a) B) with
               | [] => []
               | c0 :: rest => c0 :: add_pp rest ta B
               end
  end.

Definition tree_multiplier (red : reducer) (add : adder) (A B : list bool) : option (list bool) :=
  match trivial_mult A B with
  | Some r => Some r
  | None => let n := (length A + length B)%nat in red add (add_pp (repeat [] n) A B) n
  end.

(* _twos_comp_conditional(w, s): `~w + 1` (a word-level `+`, truncated by the
   assignment to a len(w)-bit wire) when s, else w *)
Definition twos_comp_cond (w : list bool) (s : bool) : list bool :=
  if s then zbits (length w) (bval (map negb w) + 1) else w.

(* SWITCH POINT (F10).  Before fix 04b48dd signed_tree_multiplier multiplied
   `a[:-1]`, `b[:-1]` (stm_magnitude_prefix): the magnitude with its top bit
   dropped, which loses |-2^(n-1)| = 2^(n-1).  Since the fix it multiplies the
   full-width magnitudes: stm_magnitude (the model of record). *)
Definition stm_magnitude_prefix (a : list bool) : list bool := removelast a.
Definition stm_magnitude (a : list bool) : list bool := a.

(* signed_tree_multiplier ignores its reducer/adder_func arguments: the inner
   tree_multiplier is called with the defaults (wallace_reducer, kogge_stone) *)
Definition signed_tree_multiplier_with (mag : list bool -> list bool) (A B : list bool)
  : option (list bool) :=
  if (length A =? 1)%nat || (length B =? 1)%nat || (length A =? 0)%nat || (length B =? 0)%nat
  then None else
  let aneg := last A false in
  let bneg := last B false in
  let a := twos_comp_cond A aneg in
  let b := twos_comp_cond B bneg in
  match tree_multiplier wallace_reducer add_ks (mag a) (mag b) with
  | None => None
  | Some r =>
      let n := (length A + length B)%nat in
      if (n <? length r)%nat then None   (* zero_extended to a smaller width raises *)
      else Some (twos_comp_cond (zext n r) (xorb aneg bneg))
  end.

Definition signed_tree_multiplier := signed_tree_multiplier_with stm_magnitude.

(* generalized_fma *)
Definition fma_mult_max (pairs : list (list bool * list bool)) : nat :=
  fold_right (fun ab m => Nat.max (length (fst ab) + length (snd ab) - 1) m) O pairs.

Definition fma_longest (pairs : list (list bool * list bool)) (adds : list (list bool)) : nat :=
  Nat.max (maxlen adds) (fma_mult_max pairs).

(* the code's result width: longest + ceil(log2(#terms)) *)
Definition fma_width (pairs : list (list bool * list bool)) (adds : list (list bool)) : nat :=
  (fma_longest pairs adds + clog2 (length adds + length pairs))%nat.

Definition fma_bits (pairs : list (list bool * list bool)) (adds : list (list bool))
  : list (list bool) :=
  let bits0 := repeat [] (fma_longest pairs adds) in
  let bits1 := fold_left (fun cols ab => add_pp cols (fst ab) (snd ab)) pairs bits0 in
  fold_left add_wire adds bits1.

Definition generalized_fma (red : reducer) (add : adder)
    (pairs : list (list bool * list bool)) (adds : list (list bool)) : option (list bool) :=
  red add (fma_bits pairs adds) (fma_width pairs adds).

Definition fused_multiply_adder (red : reducer) (add : adder) (a b c : list bool) :=
  generalized_fma red add [(a, b)] [c].

(* the exact value generalized_fma is documented to compute *)
Definition fma_exact (pairs : list (list bool * list bool)) (adds : list (list bool)) : Z :=
  fold_right (fun ab s => bval (fst ab) * bval (snd ab) + s) 0 pairs
  + fold_right (fun c s => bval c + s) 0 adds.
