(* Proofs relating the rtllib PRNG structure models (PrngModel.v) to the published algorithms
   (PrngSpec.v). *)
From Coq Require Import ZArith List Bool Lia ZifyBool Btauto.
From PyRTL Require Import Base.PyZ Lib.PrngSpec Lib.PrngModel.
Import ListNotations.
Open Scope Z_scope.

Notation b2z := PrngSpec.b2z.

Lemma low_mod n x : 0 <= n -> low n x = x mod 2 ^ n.
Proof. intros. unfold low. apply Z.land_ones. assumption. Qed.

Lemma low_testbit n x i : 0 <= n -> 0 <= i -> Z.testbit (low n x) i = if i <? n then Z.testbit x i else false.
Proof. intros. rewrite low_mod by assumption. apply testbit_mod_pow2; assumption. Qed.

Lemma iter_shift {A} (f : A -> A) n x : iter n f (f x) = f (iter n f x).
Proof. induction n; cbn [iter]; [reflexivity|]. rewrite IHn. reflexivity. Qed.

Lemma low_step n x b : 0 <= n -> low n (2 * x + b) = low n (2 * low n x + b).
Proof.
  intros Hn. rewrite !low_mod by assumption.
  assert (Hm : 2 ^ n <> 0) by (apply Z.pow_nonzero; lia).
  rewrite (Z.add_mod (2 * x) b), (Z.add_mod (2 * (x mod 2 ^ n)) b) by assumption.
  rewrite Z.mul_mod_idemp_r by assumption. reflexivity.
Qed.

(* ---------------- LFSR: leap-ahead by n chained concats = n single steps ---------------- *)
Lemma leap_step W la : 127 <= W ->
  low W (2 * la + b2z (xorb (Z.testbit la 125) (Z.testbit la 126))) = lfsr_step W (low W la).
Proof.
  intros HW. unfold lfsr_step, lfsr_fb.
  rewrite !low_testbit by lia.
  replace (126 <? W) with true by lia. replace (125 <? W) with true by lia.
  rewrite (xorb_comm (Z.testbit la 126)). apply low_step. lia.
Qed.

Theorem lfsr_leap_lemma : forall n W la, 127 <= W ->
  low W (m_leap n la) = iter n (lfsr_step W) (low W la).
Proof.
  induction n; intros W la HW; cbn [m_leap iter]; [reflexivity|].
  rewrite IHn by assumption. rewrite leap_step by assumption.
  rewrite iter_shift. reflexivity.
Qed.

(* the wider register only keeps more history: its 127 low bits are the 127-bit LFSR *)
Lemma lfsr_step_127 W s : 127 <= W -> low 127 (lfsr_step W s) = lfsr_step 127 (low 127 s).
Proof.
  intros HW. unfold lfsr_step, lfsr_fb.
  rewrite !(low_testbit 127) by lia.
  change (126 <? 127) with true. change (125 <? 127) with true. cbv iota.
  assert (LL : forall y, low 127 (low W y) = low 127 y).
  { intros y. apply Z.bits_inj'. intros i Hi. rewrite !low_testbit by lia.
    destruct (i <? 127) eqn:E; [|reflexivity]. replace (i <? W) with true by lia. reflexivity. }
  rewrite LL. apply low_step. lia.
Qed.

(* ---------------- xoroshiro128+ ---------------- *)
Lemma tb64 x i : 0 <= x < 2 ^ 64 -> 64 <= i -> Z.testbit x i = false.
Proof. intros Hx Hi. apply (inrange_testbit x 64); [lia|exact Hx|exact Hi]. Qed.

Ltac bits_tac :=
  repeat first [ rewrite Z.land_spec | rewrite Z.lxor_spec | rewrite Z.lor_spec
               | rewrite Z.shiftl_spec by lia | rewrite Z.shiftr_spec by lia
               | rewrite Z.testbit_ones_nonneg by lia ].

Theorem xoroshiro_step_lemma s0 s1 : 0 <= s0 < 2 ^ 64 -> 0 <= s1 < 2 ^ 64 ->
  m_xo_output s0 s1 = fst (xoro_next (s0, s1)) /\
  low 64 (m_xo_s0_next s0 s1) = fst (snd (xoro_next (s0, s1))) /\
  low 64 (m_xo_s1_next s0 s1) = snd (snd (xoro_next (s0, s1))).
Proof.
  intros H0 H1. cbn [xoro_next fst snd]. split; [reflexivity|].
  assert (Hx : 0 <= Z.lxor s1 s0 < 2 ^ 64).
  { pose proof (lxor_range s1 s0 64) as H. unfold inrange in H. apply H; lia. }
  split.
  - unfold m_xo_s0_next, rotl64, low. apply Z.bits_inj'. intros i Hi. bits_tac.
    destruct (Z.ltb_spec i 64).
    + rewrite !andb_true_r. replace (i + (64 - 55)) with (i + 9) by lia. btauto.
    + rewrite !andb_false_r. replace (i + (64 - 55)) with (i + 9) by lia.
      rewrite (tb64 s0 (i + 9)), (tb64 s1 i), (tb64 s0 i) by lia. reflexivity.
  - unfold m_xo_s1_next, rotl64, low. apply Z.bits_inj'. intros i Hi. bits_tac.
    destruct (Z.ltb_spec i 64).
    + rewrite !andb_true_r. replace (i + (64 - 36)) with (i + 28) by lia. btauto.
    + rewrite !andb_false_r. cbn [orb]. replace (i + (64 - 36)) with (i + 28) by lia.
      rewrite (tb64 s1 (i + 28)), (tb64 s0 (i + 28)) by lia. reflexivity.
Qed.

(* ---------------- Trivium: k parallel taps = k serial steps ---------------- *)
Lemma bit_shift n x t j : 1 <= j < n ->
  Z.testbit (low n (2 * x + b2z t)) j = Z.testbit x (j - 1).
Proof.
  intros Hj. rewrite low_testbit by lia. replace (j <? n) with true by lia.
  replace j with (Z.succ (j - 1)) at 1 by lia.
  destruct t; cbn [PrngSpec.b2z].
  - rewrite Z.testbit_odd_succ by lia. reflexivity.
  - rewrite Z.add_0_r. rewrite Z.testbit_even_succ by lia. reflexivity.
Qed.

Lemma triv_step_taps a b c :
  triv_step (a, b, c) =
  (out4 (m_tv_taps a b c 0),
   (low 93 (2 * a + b2z (fa4 (m_tv_taps a b c 0))),
    low 84 (2 * b + b2z (fb4 (m_tv_taps a b c 0))),
    low 111 (2 * c + b2z (fc4 (m_tv_taps a b c 0))))).
Proof. reflexivity. Qed.

Lemma taps_shift a b c i : 0 <= i <= 63 ->
  let st' := snd (triv_step (a, b, c)) in
  m_tv_taps (fst (fst st')) (snd (fst st')) (snd st') i = m_tv_taps a b c (i + 1).
Proof.
  intros Hi. rewrite triv_step_taps. cbn [fst snd]. unfold m_tv_taps at 1.
  rewrite !bit_shift by lia. unfold m_tv_taps.
  repeat (f_equal; try lia).
Qed.

Lemma concat_bits_low n : 0 <= n -> forall l x, low n (concat_bits x l) = low n (concat_bits (low n x) l).
Proof.
  intros Hn. unfold concat_bits.
  induction l as [|t l IH] using rev_ind; intros x; cbn [fold_left].
  - rewrite !low_mod by lia. rewrite Z.mod_mod; [reflexivity|apply Z.pow_nonzero; lia].
  - rewrite !fold_left_app. cbn [fold_left].
    rewrite low_step by lia. rewrite IH. rewrite <- low_step by lia. reflexivity.
Qed.

Lemma idxs_S k : idxs (S k) = 0 :: map (fun i => i + 1) (idxs k).
Proof.
  unfold idxs. cbn [seq map]. f_equal. rewrite <- seq_shift, !map_map.
  apply map_ext. intros. lia.
Qed.

Definition tv_inrange (st : tstate) : Prop :=
  let '(a, b, c) := st in 0 <= a < 2 ^ 93 /\ 0 <= b < 2 ^ 84 /\ 0 <= c < 2 ^ 111.

Lemma low_range n x : 0 <= n -> 0 <= low n x < 2 ^ n.
Proof. intros. rewrite low_mod by assumption. apply Z.mod_pos_bound. apply Z.pow_pos_nonneg; lia. Qed.

Lemma low_id n x : 0 <= n -> 0 <= x < 2 ^ n -> low n x = x.
Proof. intros. rewrite low_mod by assumption. apply Z.mod_small. assumption. Qed.

Lemma triv_step_inrange st : tv_inrange (snd (triv_step st)).
Proof.
  destruct st as [[a b] c]. rewrite triv_step_taps. cbn [snd tv_inrange].
  repeat split; apply low_range; lia.
Qed.

Lemma map_taps_shift a b c k : (k <= 63)%nat ->
  let st' := snd (triv_step (a, b, c)) in
  map (m_tv_taps a b c) (map (fun i => i + 1) (idxs k))
  = map (m_tv_taps (fst (fst st')) (snd (fst st')) (snd st')) (idxs k).
Proof.
  intros Hk st'. rewrite map_map. apply map_ext_in. intros i Hi.
  symmetry. apply taps_shift.
  unfold idxs in Hi. apply in_map_iff in Hi. destruct Hi as [n [<- Hn]]. apply in_seq in Hn. lia.
Qed.

Theorem trivium_parallel_lemma : forall k st, (k <= 64)%nat -> tv_inrange st ->
  m_tv_par k st = triv_run k st.
Proof.
  induction k; intros [[a b] c] Hk Hr.
  - cbn [tv_inrange] in Hr. destruct Hr as [Ha [Hb Hc]].
    unfold m_tv_par, idxs. cbn [seq map triv_run]. unfold concat_bits. cbn [fold_left].
    rewrite !low_id by lia. reflexivity.
  - cbn [triv_run].
    pose proof (map_taps_shift a b c k ltac:(lia)) as HT. cbv zeta in HT.
    pose proof (triv_step_inrange (a, b, c)) as Hr'.
    rewrite triv_step_taps in *.
    set (T0 := m_tv_taps a b c 0) in *.
    set (a' := low 93 (2 * a + b2z (fa4 T0))) in *.
    set (b' := low 84 (2 * b + b2z (fb4 T0))) in *.
    set (c' := low 111 (2 * c + b2z (fc4 T0))) in *.
    cbv beta iota delta [fst snd] in HT, Hr'.
    rewrite <- (IHk (a', b', c')) by (lia || exact Hr').
    unfold m_tv_par. rewrite idxs_S. cbn [map]. rewrite HT. fold T0.
    unfold concat_bits. cbn [fold_left].
    fold (concat_bits (2 * a + b2z (fa4 T0)) (map fa4 (map (m_tv_taps a' b' c') (idxs k)))).
    fold (concat_bits (2 * b + b2z (fb4 T0)) (map fb4 (map (m_tv_taps a' b' c') (idxs k)))).
    fold (concat_bits (2 * c + b2z (fc4 T0)) (map fc4 (map (m_tv_taps a' b' c') (idxs k)))).
    rewrite (concat_bits_low 93 ltac:(lia) _ (2 * a + _)), (concat_bits_low 84 ltac:(lia) _ (2 * b + _)),
      (concat_bits_low 111 ltac:(lia) _ (2 * c + _)).
    fold a' b' c'.
    fold (concat_bits a' (map fa4 (map (m_tv_taps a' b' c') (idxs k)))).
    reflexivity.
Qed.

(* the state the circuit loads is the published key/IV set-up, and it is in range *)
Lemma triv_load_inrange key iv : tv_inrange (triv_load key iv).
Proof.
  unfold triv_load, tv_inrange.
  pose proof (low_range 80 key ltac:(lia)). pose proof (low_range 80 iv ltac:(lia)).
  assert (2 ^ 80 < 2 ^ 84) by (apply Z.pow_lt_mono_r; lia).
  assert (2 ^ 80 < 2 ^ 93) by (apply Z.pow_lt_mono_r; lia).
  assert (0 <= Z.shiftl 7 108 < 2 ^ 111) by (vm_compute; split; [discriminate|reflexivity]).
  lia.
Qed.

Lemma triv_run_inrange k : forall st, tv_inrange st -> tv_inrange (snd (triv_run k st)).
Proof.
  induction k; intros st Hr; cbn [triv_run]; [exact Hr|].
  pose proof (triv_step_inrange st) as H1. destruct (triv_step st) as [z st'].
  specialize (IHk st' H1). destruct (triv_run k st') as [zs st'']. exact IHk.
Qed.
