(* Result LENGTHS of the reducer-based generators, and their totality:
   tree_multiplier, generalized_fma / fused_multiply_adder, fast_group_adder with
   wallace_reducer or dada_reducer always return, with the exact value and the
   documented result width. *)
From PyRTL Require Import Lib.Mult Lib.BitListFacts Lib.AddersProofs Lib.AddersProofs2
  Lib.AddersProofs3 Lib.AddersProofs4 Lib.AddersProofs5 Lib.ReducerProofs Lib.MultProofs
  Lib.MultProofs2.
From Coq Require Import ZifyBool.

(* ------------------------------------------------------------ adder lengths *)

Definition adder_len (add : adder) : Prop :=
  forall a b, length (add a b) = S (Nat.max (length a) (length b)).

Lemma add_ks_len : adder_len add_ks.
Proof. intros a b. unfold add_ks. apply kogge_stone_exact. Qed.

Lemma add_ripple_len : adder_len add_ripple.
Proof. intros a b. unfold add_ripple. apply ripple_add_exact. Qed.

Lemma add_cla_len la : (1 <= la)%nat -> adder_len (add_cla la).
Proof. intros H a b. unfold add_cla. apply cla_adder_exact. assumption. Qed.

(* --------------------------------------------------------- _sparse_adder length *)

Definition has2 (cols : list (list bool)) : bool := existsb (fun c => (length c =? 2)%nat) cols.

Lemma sparse_split_total_len cols : forall pre z,
  sparse_split_total cols = Some (pre, z) ->
  (length pre + length z = length cols)%nat /\
  (has2 cols = true -> z <> []) /\ (has2 cols = false -> z = []).
Proof.
  induction cols as [|c rest IH]; intros pre z H; cbn [sparse_split_total] in H.
  - injection H as <- <-. cbn. split; [reflexivity|]. split; [discriminate|reflexivity].
  - cbn [has2 existsb]. destruct (length c =? 2)%nat eqn:E.
    + injection H as <- <-. cbn [length orb]. split; [lia|]. split; [discriminate|discriminate].
    + destruct (sparse_split_total rest) as [[pre' z']|] eqn:Es; [|discriminate].
      injection H as <- <-. destruct (IH pre' z' eq_refl) as (H1 & H2 & H3).
      cbn [length orb]. fold (has2 rest). split; [lia|]. split; assumption.
Qed.

Lemma sparse_adder_len add cols r0 : adder_len add ->
  sparse_adder add cols = Some r0 ->
  length r0 = (length cols + (if has2 cols then 1 else 0))%nat.
Proof.
  intros Hadd H. unfold sparse_adder, sparse_adder_with in H.
  destruct (sparse_split_total cols) as [[pre z]|] eqn:Es; [|discriminate].
  destruct (sparse_split_total_len cols pre z Es) as (H1 & H2 & H3).
  destruct (has2 cols) eqn:Eh.
  - destruct z as [|c0 z0]; [exfalso; apply H2; reflexivity|].
    injection H as <-. rewrite app_length, Hadd. cbn [length] in *. rewrite !map_length. lia.
  - rewrite (H3 eq_refl) in *. injection H as <-. cbn [length] in H1. lia.
Qed.

Lemma all_le2_maxheight cols : all_le2 cols = true -> (maxheight cols <= 2)%nat.
Proof.
  induction cols as [|c t IH]; intros H; cbn [maxheight fold_right]; [lia|].
  fold (maxheight t). rewrite all_le2_cons in H. apply andb_prop in H. destruct H as [H1 H2].
  specialize (IH H2). lia.
Qed.

Lemma maxheight2_has2 cols : maxheight cols = 2%nat -> has2 cols = true.
Proof.
  induction cols as [|c t IH]; cbn [maxheight fold_right has2 existsb]; [discriminate|].
  fold (maxheight t). fold (has2 t). intros H.
  destruct (length c =? 2)%nat eqn:E; [reflexivity|]. cbn [orb]. apply IH. lia.
Qed.

(* when does a reducer fill all rw result bits *)
Definition fills (cols : list (list bool)) (rw : nat) : Prop :=
  length cols = rw \/ (3 <= maxheight cols)%nat \/
  (maxheight cols = 2%nat /\ (rw <= length cols + 1)%nat).

Definition reducer_len (red : reducer) : Prop :=
  forall add cols rw r, adder_len add -> (length cols <= rw)%nat -> fills cols rw ->
    red add cols rw = Some r -> length r = rw.

Definition reducer_total (red : reducer) : Prop :=
  forall add cols rw, (length cols <= rw)%nat -> exists r, red add cols rw = Some r.

Lemma wallace_loop_len rw fuel : forall cols c',
  wallace_loop fuel rw cols = Some c' ->
  (all_le2 cols = true /\ c' = cols) \/ (all_le2 cols = false /\ length c' = rw).
Proof.
  induction fuel as [|f IH]; intros cols c' H; cbn [wallace_loop] in H.
  - destruct (all_le2 cols) eqn:E; [|discriminate]. injection H as <-. left. split; reflexivity.
  - destruct (all_le2 cols) eqn:E.
    + injection H as <-. left. split; reflexivity.
    + right. split; [reflexivity|]. apply IH in H. destruct H as [[_ ->]|[_ H]].
      * apply take_pad_len.
      * exact H.
Qed.

Theorem wallace_len : reducer_len wallace_reducer.
Proof.
  intros add cols rw r Hadd Hle Hf H. unfold wallace_reducer, wallace_reducer_fuel in H.
  destruct (rw <? length cols)%nat; [discriminate|].
  destruct (wallace_loop (maxheight cols) rw cols) as [c'|] eqn:El; [|discriminate].
  destruct (sparse_adder add c') as [r0|] eqn:Es; [|discriminate].
  injection H as <-. rewrite firstn_length, (sparse_adder_len add c' r0 Hadd Es).
  destruct (wallace_loop_len rw _ cols c' El) as [[Ha ->]|[Ha Hl]].
  - pose proof (all_le2_maxheight cols Ha) as Hm.
    destruct Hf as [Hf|[Hf|[Hf1 Hf2]]]; [destruct (has2 cols); lia|lia|].
    rewrite (maxheight2_has2 cols Hf1). lia.
  - rewrite Hl. destruct (has2 c'); lia.
Qed.

Lemma dada_loop_len rw ts : forall t cols c',
  dada_loop (t :: ts) rw cols = Some c' -> length c' = rw.
Proof.
  induction ts as [|t2 ts IH]; intros t cols c' H; cbn [dada_loop] in H.
  - destruct (dada_pass t cols []) as [c1|]; [|discriminate]. injection H as <-. apply take_pad_len.
  - destruct (dada_pass t cols []) as [c1|]; [|discriminate].
    apply (IH t2 (take_pad rw c1)). cbn [dada_loop]. exact H.
Qed.

Lemma dada_targets_nonempty m : (2 <= m)%nat -> dada_targets m <> [].
Proof.
  intros H. unfold dada_targets. cbn [dada_sched_up]. replace (2 <=? m)%nat with true by lia.
  cbn [rev]. intros E. apply app_eq_nil in E. destruct E as [_ E]. discriminate.
Qed.

Lemma dada_targets_empty m : (m < 2)%nat -> dada_targets m = [].
Proof.
  intros H. unfold dada_targets. cbn [dada_sched_up]. replace (2 <=? m)%nat with false by lia.
  reflexivity.
Qed.

Theorem dada_len : reducer_len dada_reducer.
Proof.
  intros add cols rw r Hadd Hle Hf H. unfold dada_reducer in H.
  destruct (rw <? length cols)%nat; [discriminate|].
  destruct (dada_loop (dada_targets (maxheight cols)) rw cols) as [c'|] eqn:El; [|discriminate].
  destruct (sparse_adder add c') as [r0|] eqn:Es; [|discriminate].
  injection H as <-. rewrite firstn_length, (sparse_adder_len add c' r0 Hadd Es).
  destruct (Nat.le_gt_cases 2 (maxheight cols)) as [Hm|Hm].
  - pose proof (dada_targets_nonempty _ Hm) as Hne.
    destruct (dada_targets (maxheight cols)) as [|t ts]; [congruence|].
    rewrite (dada_loop_len rw ts t cols c' El). destruct (has2 c'); lia.
  - rewrite dada_targets_empty in El by assumption. cbn [dada_loop] in El. injection El as <-.
    destruct Hf as [Hf|[Hf|[Hf1 Hf2]]]; [destruct (has2 cols); lia|lia|lia].
Qed.

Theorem wallace_total : reducer_total wallace_reducer.
Proof. intros add cols rw H. apply wallace_reducer_returns. assumption. Qed.

Theorem dada_total : reducer_total dada_reducer.
Proof. intros add cols rw H. apply dada_reducer_returns. assumption. Qed.

(* everything a generator needs from its reducer / final adder *)
Definition reducer_good (red : reducer) : Prop :=
  reducer_ok red /\ reducer_total red /\ reducer_len red.
Definition adder_good (add : adder) : Prop := adder_ok add /\ adder_len add.

Theorem reducers_good : reducer_good wallace_reducer /\ reducer_good dada_reducer.
Proof.
  split; repeat split.
  - exact wallace_exact. - exact wallace_total. - exact wallace_len.
  - exact dada_exact. - exact dada_total. - exact dada_len.
Qed.

Theorem adders_good :
  adder_good add_ks /\ adder_good add_ripple /\ forall la, (1 <= la)%nat -> adder_good (add_cla la).
Proof.
  repeat split.
  - exact add_ks_ok. - exact add_ks_len. - exact add_ripple_ok. - exact add_ripple_len.
  - apply add_cla_ok. assumption. - apply add_cla_len. assumption.
Qed.

(* ------------------------------------------------- shapes of the bit arrays *)

Lemma add_wire_len w : forall cols, length (add_wire cols w) = Nat.max (length cols) (length w).
Proof.
  induction w as [|b tw IH]; intros cols; cbn [add_wire length]; [lia|].
  destruct cols as [|c tc]; cbn [length]; rewrite IH; cbn [length]; lia.
Qed.

Lemma add_pp_len B : (1 <= length B)%nat -> forall A cols,
  length (add_pp cols A B) =
  match A with [] => length cols | _ => Nat.max (length cols) (length A + length B - 1) end.
Proof.
  intros HB. induction A as [|a ta IH]; intros cols; cbn [add_pp]; [reflexivity|].
  pose proof (add_wire_len (map (andb a) B) cols) as Hw. rewrite map_length in Hw.
  destruct (add_wire cols (map (andb a) B)) as [|c0 rest]; cbn [length] in *; [lia|].
  rewrite IH. destruct ta as [|a2 ta2]; cbn [length]; lia.
Qed.

Definition h0 (cols : list (list bool)) : nat := length (hd [] cols).

Lemma h0_le_maxheight cols : (h0 cols <= maxheight cols)%nat.
Proof. destruct cols as [|c t]; cbn [h0 hd maxheight fold_right length]; lia. Qed.

Lemma add_wire_h0 w cols : w <> [] -> h0 (add_wire cols w) = S (h0 cols).
Proof.
  destruct w as [|b tw]; [congruence|]. intros _. cbn [add_wire].
  destruct cols as [|c tc]; cbn [h0 hd length]; [reflexivity|]. rewrite app_length. cbn [length]. lia.
Qed.

Lemma add_pp_h0 A B cols : A <> [] -> B <> [] -> h0 (add_pp cols A B) = S (h0 cols).
Proof.
  destruct A as [|a ta]; [congruence|]. intros _ HB. cbn [add_pp].
  assert (Hm : map (andb a) B <> []) by (destruct B; [congruence|discriminate]).
  pose proof (add_wire_h0 (map (andb a) B) cols Hm) as Hh.
  destruct (add_wire cols (map (andb a) B)) as [|c0 rest]; cbn [h0 hd length] in *; [lia|exact Hh].
Qed.

(* ------------------------------------------------------------ tree_multiplier *)

Theorem tree_multiplier_total red add A B :
  reducer_good red -> adder_good add -> (1 <= length A)%nat -> (1 <= length B)%nat ->
  exists r, tree_multiplier red add A B = Some r /\
            bval r = bval A * bval B /\ length r = (length A + length B)%nat.
Proof.
  intros (Hok & Htot & Hlen) (Haok & Halen) HA HB.
  assert (Hcols : length (add_pp (repeat [] (length A + length B)) A B) = (length A + length B)%nat).
  { rewrite add_pp_len by assumption. rewrite repeat_length. destruct A; cbn [length] in *; lia. }
  assert (Hex : exists r, tree_multiplier red add A B = Some r).
  { unfold tree_multiplier. destruct (trivial_mult A B); [eexists; reflexivity|].
    apply Htot. lia. }
  destruct Hex as [r Hr]. exists r. split; [exact Hr|]. split.
  - apply (tree_multiplier_exact red add A B r Hok Haok Hr).
  - unfold tree_multiplier in Hr. destruct (trivial_mult A B) as [t|] eqn:Et.
    + injection Hr as <-. unfold trivial_mult in Et.
      destruct (length B =? 1)%nat eqn:EB.
      * rewrite EB in Et. injection Et as <-. rewrite app_length, map_length. cbn [length]. lia.
      * destruct (length A =? 1)%nat eqn:EA; [|discriminate].
        injection Et as <-. rewrite app_length, map_length. cbn [length]. lia.
    + apply (Hlen add (add_pp (repeat [] (length A + length B)) A B) (length A + length B)%nat r Halen);
        [lia|left; exact Hcols|exact Hr].
Qed.

(* ------------------------------------------------------------ generalized_fma *)

Definition pairs_nonempty (pairs : list (list bool * list bool)) : Prop :=
  Forall (fun ab => fst ab <> [] /\ snd ab <> []) pairs.
Definition wires_nonempty (ws : list (list bool)) : Prop := Forall (fun w => w <> []) ws.

Lemma fold_add_pp_shape pairs : pairs_nonempty pairs -> forall cols,
  length (fold_left (fun cols ab => add_pp cols (fst ab) (snd ab)) pairs cols)
    = Nat.max (length cols) (fma_mult_max pairs) /\
  h0 (fold_left (fun cols ab => add_pp cols (fst ab) (snd ab)) pairs cols)
    = (h0 cols + length pairs)%nat.
Proof.
  induction 1 as [|[a b] t [Ha Hb] _ IH]; intros cols; cbn [fold_left fma_mult_max fold_right length].
  - split; lia.
  - cbn [fst snd] in *. fold (fma_mult_max t). destruct (IH (add_pp cols a b)) as [I1 I2].
    rewrite I1, I2, add_pp_h0 by assumption.
    rewrite add_pp_len by (destruct b; [congruence|cbn [length]; lia]).
    destruct a as [|a0 ta]; [congruence|]. cbn [length]. split; lia.
Qed.

Lemma fold_add_wire_shape adds : wires_nonempty adds -> forall cols,
  length (fold_left add_wire adds cols) = Nat.max (length cols) (maxlen adds) /\
  h0 (fold_left add_wire adds cols) = (h0 cols + length adds)%nat.
Proof.
  induction 1 as [|w t Hw _ IH]; intros cols; cbn [fold_left maxlen fold_right length].
  - split; lia.
  - fold (maxlen t). destruct (IH (add_wire cols w)) as [I1 I2].
    rewrite I1, I2, add_wire_h0, add_wire_len by assumption. split; lia.
Qed.

Lemma h0_repeat_nil n : h0 (repeat [] n) = 0%nat.
Proof. destruct n; reflexivity. Qed.

Lemma fma_bits_shape pairs adds : pairs_nonempty pairs -> wires_nonempty adds ->
  length (fma_bits pairs adds) = fma_longest pairs adds /\
  h0 (fma_bits pairs adds) = (length adds + length pairs)%nat.
Proof.
  intros Hp Ha. unfold fma_bits.
  destruct (fold_add_wire_shape adds Ha
              (fold_left (fun cols ab => add_pp cols (fst ab) (snd ab)) pairs
                         (repeat [] (fma_longest pairs adds)))) as [W1 W2].
  destruct (fold_add_pp_shape pairs Hp (repeat [] (fma_longest pairs adds))) as [P1 P2].
  rewrite W1, W2, P1, P2, repeat_length, h0_repeat_nil. unfold fma_longest. split; lia.
Qed.

Lemma clog2_small : clog2 0 = 0%nat /\ clog2 1 = 0%nat /\ clog2 2 = 1%nat.
Proof. vm_compute. repeat split. Qed.

Lemma fma_fills pairs adds : pairs_nonempty pairs -> wires_nonempty adds ->
  fills (fma_bits pairs adds) (fma_width pairs adds).
Proof.
  intros Hp Ha. destruct (fma_bits_shape pairs adds Hp Ha) as [S1 S2].
  pose proof (h0_le_maxheight (fma_bits pairs adds)) as Hh. rewrite S2 in Hh.
  unfold fills, fma_width. rewrite S1. destruct clog2_small as (C0 & C1 & C2).
  destruct (length adds + length pairs)%nat as [|[|[|n]]] eqn:En.
  - left. rewrite C0. lia.
  - left. rewrite C1. lia.
  - rewrite C2. destruct (Nat.eq_dec (maxheight (fma_bits pairs adds)) 2) as [E|E].
    + right. right. split; [exact E|lia].
    + right. left. lia.
  - right. left. lia.
Qed.

Theorem generalized_fma_total red add pairs adds :
  reducer_good red -> adder_good add -> pairs_nonempty pairs -> wires_nonempty adds ->
  exists r, generalized_fma red add pairs adds = Some r /\
            bval r = fma_exact pairs adds mod 2 ^ Z.of_nat (fma_width pairs adds) /\
            length r = fma_width pairs adds.
Proof.
  intros (Hok & Htot & Hlen) (Haok & Halen) Hp Ha.
  destruct (fma_bits_shape pairs adds Hp Ha) as [S1 _].
  assert (Hle : (length (fma_bits pairs adds) <= fma_width pairs adds)%nat)
    by (rewrite S1; unfold fma_width; lia).
  destruct (Htot add (fma_bits pairs adds) (fma_width pairs adds) Hle) as [r Hr].
  exists r. split; [exact Hr|]. split.
  - apply (generalized_fma_mod red add pairs adds r Hok Haok Hr).
  - apply (Hlen add _ _ r Halen Hle); [apply fma_fills; assumption|exact Hr].
Qed.

(* ----------------------------------------------------------- fast_group_adder *)

Lemma fga_as_gfma red add ws : fast_group_adder red add ws = generalized_fma red add [] ws.
Proof.
  unfold fast_group_adder, generalized_fma, fma_bits, fma_width, fga_width, fma_longest.
  cbn [fma_mult_max fold_right fold_left length]. rewrite Nat.max_0_r, Nat.add_0_r. reflexivity.
Qed.

Theorem fast_group_adder_total red add ws :
  reducer_good red -> adder_good add -> wires_nonempty ws ->
  exists r, fast_group_adder red add ws = Some r /\
            bval r = sum_bvals ws /\ length r = fga_width ws.
Proof.
  intros Hred Hadd Hw.
  destruct (generalized_fma_total red add [] ws Hred Hadd (Forall_nil _) Hw) as (r & Hr & _ & Hl).
  rewrite <- fga_as_gfma in Hr. exists r. split; [exact Hr|]. split.
  - destruct Hred as (Hok & _). destruct Hadd as (Haok & _).
    apply (fast_group_adder_exact red add ws r Hok Haok Hr).
  - rewrite Hl. unfold fma_width, fga_width, fma_longest. cbn [fma_mult_max fold_right length].
    rewrite Nat.max_0_r, Nat.add_0_r. reflexivity.
Qed.

(* ------------------------------------------------------ signed_tree_multiplier *)

Theorem signed_tree_multiplier_total A B :
  (2 <= length A)%nat -> (2 <= length B)%nat ->
  exists r, signed_tree_multiplier A B = Some r /\
            sval r = sval A * sval B /\ length r = (length A + length B)%nat.
Proof.
  intros HA HB.
  assert (Hex : exists r, signed_tree_multiplier A B = Some r).
  { unfold signed_tree_multiplier, signed_tree_multiplier_with, stm_magnitude.
    replace (length A =? 1)%nat with false by lia. replace (length B =? 1)%nat with false by lia.
    replace (length A =? 0)%nat with false by lia. replace (length B =? 0)%nat with false by lia.
    cbn [orb].
    destruct (tree_multiplier_total wallace_reducer add_ks
                (twos_comp_cond A (last A false)) (twos_comp_cond B (last B false)))
      as (p & Hp & _ & Hl).
    - apply reducers_good.
    - apply adders_good.
    - rewrite length_twos_comp. lia.
    - rewrite length_twos_comp. lia.
    - rewrite Hp. rewrite !length_twos_comp in Hl. rewrite Hl, Nat.ltb_irrefl. eexists. reflexivity. }
  destruct Hex as [r Hr]. exists r. split; [exact Hr|].
  apply signed_tree_multiplier_fullmag_signed. exact Hr.
Qed.
