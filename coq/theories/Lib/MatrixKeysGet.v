(* C19 -- __getitem__ key normalisation: regenerated = model, per key-kind combination *)
From PyRTL Require Import Base.PyZ Lib.Matrix Gen.MatrixKeys Lib.MatrixKeysBase.
From Coq Require Import ZifyBool.

Lemma gen_getitem_II r c x y : getitem_keys_II_gen r c x y = keys_model key_get r c (KInt x) (KInt y).
Proof. unfold getitem_keys_II_gen, keys_model, key_get, neg_norm, chk. kcases. Qed.

Lemma gen_getitem_SS r c a b st a' b' st' :
  getitem_keys_SS_gen r c a b st a' b' st' = keys_model key_get r c (KSl a b st) (KSl a' b' st').
Proof.
  unfold getitem_keys_SS_gen, keys_model, key_get, sl_bounds, step_accepted, neg_norm, chk.
  destruct a, b, st, a', b', st'; cbv zeta; abs_norm; wcases.
Qed.

Lemma gen_getitem_IS r c x a b st :
  getitem_keys_IS_gen r c x a b st = keys_model key_get r c (KInt x) (KSl a b st).
Proof.
  unfold getitem_keys_IS_gen, keys_model, key_get, sl_bounds, step_accepted, neg_norm, chk.
  destruct a, b, st; cbv zeta; destruct (x <? 0) eqn:?; cbv iota; abs_norm; kcases.
Qed.

Lemma gen_getitem_SI r c a b st y :
  getitem_keys_SI_gen r c a b st y = keys_model key_get r c (KSl a b st) (KInt y).
Proof.
  unfold getitem_keys_SI_gen, keys_model, key_get, sl_bounds, step_accepted, neg_norm, chk.
  destruct a, b, st; cbv zeta; destruct (y <? 0) eqn:?; cbv iota; abs_norm; kcases.
Qed.

