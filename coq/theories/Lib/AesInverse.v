(* InvCipher inverts Cipher (from per-step inverses), hence the rtllib decryption model inverts the
   rtllib encryption model, for every key and block. *)
From Coq Require Import ZArith List Bool Lia ZifyBool Btauto.
From PyRTL Require Import Base.PyZ Gen.AesTables Lib.AesSpec Lib.AesModel Lib.AesProofs Lib.AesSteps Lib.AesCipher.
Import ListNotations.
Open Scope Z_scope.

Transparent SubBytes ShiftRows MixColumns InvSubBytes InvShiftRows InvMixColumns AddRoundKey round_key.

(* the sixteen single-variable identities of (InvMixColumns matrix) x (MixColumns matrix) = I *)
Lemma invmix_ids a : byte a -> invmix_row_ok a = true.
Proof. apply sweep256. exact invmix_sweep. Qed.

Ltac elim_last H :=
  match type of H with
  | xorb (xorb (xorb ?q1 ?q2) ?q3) ?q4 = false =>
      let E := fresh "E" in
      assert (E : q4 = xorb (xorb q1 q2) q3)
        by (revert H; generalize q1 q2 q3 q4; intros [] [] [] []; simpl; congruence);
      rewrite E; clear E
  end.

Ltac byte_side :=
  repeat match goal with
         | |- byte (gmul _ _) => apply gmul_byte; [simpl; tauto|]
         | |- byte (Z.lxor _ _) => apply xor_byte
         | |- byte _ => assumption
         end.
Ltac side := solve [ simpl; tauto | byte_side ].

Ltac get_ids a Ha :=
  let H := fresh "I" in
  pose proof (invmix_ids a Ha) as H; unfold invmix_row_ok in H; cbv zeta in H;
  repeat (apply andb_prop in H; let H2 := fresh "I" in destruct H as [H H2]);
  repeat match goal with H : (_ =? _) = true |- _ => apply Z.eqb_eq in H end.

Ltac bitify n :=
  repeat match goal with
         | H : Z.lxor _ _ = _ |- _ => apply (f_equal (fun z => Z.testbit z n)) in H; cbv beta in H
         end;
  rewrite ?Z.lxor_spec, ?Z.bits_0 in *.

Ltac use_zero t1 t2 :=
  match goal with
  | H : xorb (xorb (xorb (Z.testbit t1 ?n) (Z.testbit t2 ?n)) _) _ = false |- _ => elim_last H
  end.
Ltac use_one t1 t2 x :=
  match goal with
  | H : xorb (xorb (xorb (Z.testbit t1 ?n) (Z.testbit t2 ?n)) _) _ = Z.testbit x ?n |- _ => rewrite <- H
  end.

Section Column.
  Variables a b c d : Z.
  Hypothesis (Ha : byte a) (Hb : byte b) (Hc : byte c) (Hd : byte d).
  Let m0 := xor4 (gmul 2 a) (gmul 3 b) c d.
  Let m1 := xor4 a (gmul 2 b) (gmul 3 c) d.
  Let m2 := xor4 a b (gmul 2 c) (gmul 3 d).
  Let m3 := xor4 (gmul 3 a) b c (gmul 2 d).

  Ltac row_setup :=
    unfold m0, m1, m2, m3, xor4;
    rewrite !(gmul_add 14), !(gmul_add 11), !(gmul_add 13), !(gmul_add 9) by side;
    get_ids a Ha; get_ids b Hb; get_ids c Hc; get_ids d Hd;
    apply Z.bits_inj'; intros n Hn; bitify n.

  Lemma invmix_r0 : xor4 (gmul 14 m0) (gmul 11 m1) (gmul 13 m2) (gmul 9 m3) = a.
  Proof.
    row_setup.
    use_one (gmul 14 (gmul 2 a)) (gmul 11 a) a.
    use_zero (gmul 14 (gmul 3 b)) (gmul 11 (gmul 2 b)).
    use_zero (gmul 14 c) (gmul 11 (gmul 3 c)).
    use_zero (gmul 14 d) (gmul 11 d).
    btauto.
  Qed.

  Lemma invmix_r1 : xor4 (gmul 9 m0) (gmul 14 m1) (gmul 11 m2) (gmul 13 m3) = b.
  Proof.
    row_setup.
    use_one (gmul 9 (gmul 3 b)) (gmul 14 (gmul 2 b)) b.
    use_zero (gmul 9 (gmul 2 a)) (gmul 14 a).
    use_zero (gmul 9 c) (gmul 14 (gmul 3 c)).
    use_zero (gmul 9 d) (gmul 14 d).
    btauto.
  Qed.

  Lemma invmix_r2 : xor4 (gmul 13 m0) (gmul 9 m1) (gmul 14 m2) (gmul 11 m3) = c.
  Proof.
    row_setup.
    use_one (gmul 13 c) (gmul 9 (gmul 3 c)) c.
    use_zero (gmul 13 (gmul 2 a)) (gmul 9 a).
    use_zero (gmul 13 (gmul 3 b)) (gmul 9 (gmul 2 b)).
    use_zero (gmul 13 d) (gmul 9 d).
    btauto.
  Qed.

  Lemma invmix_r3 : xor4 (gmul 11 m0) (gmul 13 m1) (gmul 9 m2) (gmul 14 m3) = d.
  Proof.
    row_setup.
    use_one (gmul 11 d) (gmul 13 d) d.
    use_zero (gmul 11 (gmul 2 a)) (gmul 13 a).
    use_zero (gmul 11 (gmul 3 b)) (gmul 13 (gmul 2 b)).
    use_zero (gmul 11 c) (gmul 13 (gmul 3 c)).
    btauto.
  Qed.
End Column.

Lemma InvMix_Mix s : good16 s -> InvMixColumns (MixColumns s) = s.
Proof.
  intros Hs. explode s Hs.
  cbv [InvMixColumns MixColumns build st map seq nth Nat.modulo Nat.divmod Nat.div Nat.add Nat.mul Nat.sub fst snd].
  repeat (apply (f_equal2 (@cons Z));
          [first [apply invmix_r0 | apply invmix_r1 | apply invmix_r2 | apply invmix_r3]; assumption|]).
  reflexivity.
Qed.

Lemma InvSub_Sub_bytes s : good16 s -> InvSubBytes (SubBytes s) = s.
Proof.
  intros [_ Hb]. unfold InvSubBytes, SubBytes. rewrite map_map.
  rewrite <- (map_id s) at 2. apply map_ext_in. intros x Hx. apply InvSub_Sub.
  rewrite Forall_forall in Hb. auto.
Qed.

Lemma xorl_cancel : forall s k, length s = length k -> xorl (xorl s k) k = s.
Proof.
  induction s; intros [|y k] H; cbn in *; try discriminate; [reflexivity|].
  rewrite IHs by lia. f_equal. rewrite Z.lxor_assoc, Z.lxor_nilpotent, Z.lxor_0_r. reflexivity.
Qed.

Lemma ark_cancel s k : good16 s -> good16 k -> AddRoundKey (AddRoundKey s k) k = s.
Proof. intros [H1 _] [H2 _]. unfold AddRoundKey. apply xorl_cancel. lia. Qed.

Opaque SubBytes ShiftRows MixColumns InvSubBytes InvShiftRows InvMixColumns AddRoundKey round_key.

Ltac good_tac2 :=
  repeat match goal with
         | |- good16 (AddRoundKey _ _) => apply xorl_good
         | |- good16 (SubBytes _) => apply SubBytes_good
         | |- good16 (ShiftRows _) => apply ShiftRows_good
         | |- good16 (MixColumns _) => apply MixColumns_good
         | |- good16 _ => assumption
         end.

Lemma InvCipher_Cipher kb pb : good16 kb -> good16 pb -> InvCipher kb (Cipher kb pb) = pb.
Proof.
  intros Hk Hp. unfold InvCipher, Cipher. cbn [cipher_rounds inv_cipher_rounds Nat.sub].
  destruct (round_key_spec kb 0 Hk ltac:(lia)) as [_ [G0 _]].
  destruct (round_key_spec kb 1 Hk ltac:(lia)) as [_ [G1 _]].
  destruct (round_key_spec kb 2 Hk ltac:(lia)) as [_ [G2 _]].
  destruct (round_key_spec kb 3 Hk ltac:(lia)) as [_ [G3 _]].
  destruct (round_key_spec kb 4 Hk ltac:(lia)) as [_ [G4 _]].
  destruct (round_key_spec kb 5 Hk ltac:(lia)) as [_ [G5 _]].
  destruct (round_key_spec kb 6 Hk ltac:(lia)) as [_ [G6 _]].
  destruct (round_key_spec kb 7 Hk ltac:(lia)) as [_ [G7 _]].
  destruct (round_key_spec kb 8 Hk ltac:(lia)) as [_ [G8 _]].
  destruct (round_key_spec kb 9 Hk ltac:(lia)) as [_ [G9 _]].
  destruct (round_key_spec kb 10 Hk ltac:(lia)) as [_ [G10 _]].
  generalize dependent (KeyExpansion kb). intros w G0 G1 G2 G3 G4 G5 G6 G7 G8 G9 G10.
  repeat first [ rewrite ark_cancel by good_tac2
               | rewrite InvShift_Shift by good_tac2
               | rewrite InvSub_Sub_bytes by good_tac2
               | rewrite InvMix_Mix by good_tac2 ].
  reflexivity.
Qed.

Theorem dec_inverts_enc key pt : 0 <= key < 2 ^ 128 -> 0 <= pt < 2 ^ 128 ->
  m_decryption key (m_encryption key pt) = pt.
Proof.
  intros Hk Hp.
  rewrite enc_model_is_fips197 by assumption. unfold CipherZ.
  assert (Gc : good16 (Cipher (bytes_be key) (bytes_be pt))).
  { pose proof (bytes_be_good key) as Gk. pose proof (bytes_be_good pt) as Gp.
    unfold Cipher. cbn [cipher_rounds].
    destruct (round_key_spec _ 0 Gk ltac:(lia)) as [_ [G0 _]].
    destruct (round_key_spec _ 1 Gk ltac:(lia)) as [_ [G1 _]].
    destruct (round_key_spec _ 2 Gk ltac:(lia)) as [_ [G2 _]].
    destruct (round_key_spec _ 3 Gk ltac:(lia)) as [_ [G3 _]].
    destruct (round_key_spec _ 4 Gk ltac:(lia)) as [_ [G4 _]].
    destruct (round_key_spec _ 5 Gk ltac:(lia)) as [_ [G5 _]].
    destruct (round_key_spec _ 6 Gk ltac:(lia)) as [_ [G6 _]].
    destruct (round_key_spec _ 7 Gk ltac:(lia)) as [_ [G7 _]].
    destruct (round_key_spec _ 8 Gk ltac:(lia)) as [_ [G8 _]].
    destruct (round_key_spec _ 9 Gk ltac:(lia)) as [_ [G9 _]].
    destruct (round_key_spec _ 10 Gk ltac:(lia)) as [_ [G10 _]].
    good_tac2. }
  rewrite dec_model_is_fips197; [|assumption|apply of_bytes_be_range; exact Gc].
  unfold InvCipherZ. rewrite bytes_be_of_bytes_be by exact Gc.
  rewrite InvCipher_Cipher by apply bytes_be_good.
  apply of_bytes_be_bytes_be. exact Hp.
Qed.

Theorem InvCipherZ_CipherZ key pt : 0 <= key < 2 ^ 128 -> 0 <= pt < 2 ^ 128 ->
  InvCipherZ key (CipherZ key pt) = pt.
Proof.
  intros Hk Hp. rewrite <- enc_model_is_fips197 by assumption.
  rewrite <- dec_model_is_fips197; [apply dec_inverts_enc; assumption|assumption|].
  rewrite enc_model_is_fips197 by assumption. unfold CipherZ. apply of_bytes_be_range.
  (* goodness of the cipher output *)
  pose proof (bytes_be_good key) as Gk. pose proof (bytes_be_good pt) as Gp.
  unfold Cipher. cbn [cipher_rounds].
  destruct (round_key_spec _ 0 Gk ltac:(lia)) as [_ [G0 _]].
  destruct (round_key_spec _ 1 Gk ltac:(lia)) as [_ [G1 _]].
  destruct (round_key_spec _ 2 Gk ltac:(lia)) as [_ [G2 _]].
  destruct (round_key_spec _ 3 Gk ltac:(lia)) as [_ [G3 _]].
  destruct (round_key_spec _ 4 Gk ltac:(lia)) as [_ [G4 _]].
  destruct (round_key_spec _ 5 Gk ltac:(lia)) as [_ [G5 _]].
  destruct (round_key_spec _ 6 Gk ltac:(lia)) as [_ [G6 _]].
  destruct (round_key_spec _ 7 Gk ltac:(lia)) as [_ [G7 _]].
  destruct (round_key_spec _ 8 Gk ltac:(lia)) as [_ [G8 _]].
  destruct (round_key_spec _ 9 Gk ltac:(lia)) as [_ [G9 _]].
  destruct (round_key_spec _ 10 Gk ltac:(lia)) as [_ [G10 _]].
  good_tac2.
Qed.
