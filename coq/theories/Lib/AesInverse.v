(* InvCipher inverts Cipher (from per-step inverses), hence the rtllib decryption model inverts the
   rtllib encryption model, for every key and block. *)
From Coq Require Import ZArith List Bool Lia ZifyBool Btauto.
From PyRTL Require Import Base.PyZ Gen.AesTables Lib.AesSpec Lib.AesModel Lib.AesProofs Lib.AesSteps Lib.AesCipher.
Import ListNotations.
Open Scope Z_scope.

Transparent SubBytes ShiftRows MixColumns InvSubBytes InvShiftRows InvMixColumns AddRoundKey round_key.

(* the sixteen single-variable identities of (InvMixColumns matrix) x (MixColumns matrix) = I *)
Lemma invmix_ids a : byte a -> invmix_row_ok a = true.
Proof. apply sweep256. exact invmix_sweep. Qed.

Ltac elim_last H :=
  match type of H with
  | xorb (xorb (xorb ?q1 ?q2) ?q3) ?q4 = false =>
      let E := fresh "E" in
      assert (E : q4 = xorb (xorb q1 q2) q3)
        by (revert H; generalize q1 q2 q3 q4; intros [] [] [] []; simpl; congruence);
      rewrite E; clear E
  end.

Ltac side := solve [ simpl; tauto
                   | repeat first [ assumption | apply xor_byte | apply gmul_byte; [simpl; tauto|] ] ].

Ltac get_ids a Ha :=
  let H := fresh "I" in
  pose proof (invmix_ids a Ha) as H; unfold invmix_row_ok in H; cbv zeta in H;
  repeat (apply andb_prop in H; let H2 := fresh "I" in destruct H as [H H2]);
  repeat match goal with H : (_ =? _) = true |- _ => apply Z.eqb_eq in H end.

Ltac bitify n :=
  repeat match goal with
         | H : Z.lxor _ _ = _ |- _ => apply (f_equal (fun z => Z.testbit z n)) in H; cbv beta in H
         end;
  rewrite ?Z.lxor_spec, ?Z.bits_0 in *.

Section Column.
  Variables a b c d : Z.
  Hypothesis (Ha : byte a) (Hb : byte b) (Hc : byte c) (Hd : byte d).
  Let m0 := xor4 (gmul 2 a) (gmul 3 b) c d.
  Let m1 := xor4 a (gmul 2 b) (gmul 3 c) d.
  Let m2 := xor4 a b (gmul 2 c) (gmul 3 d).
  Let m3 := xor4 (gmul 3 a) b c (gmul 2 d).

  Ltac row A B C D :=
    subst m0 m1 m2 m3; unfold xor4;
    rewrite !(gmul_add 14), !(gmul_add 11), !(gmul_add 13), !(gmul_add 9) by side;
    get_ids a Ha; get_ids b Hb; get_ids c Hc; get_ids d Hd;
    apply Z.bits_inj'; intros n Hn; bitify n.

  Lemma invmix_r0 : xor4 (gmul 14 m0) (gmul 11 m1) (gmul 13 m2) (gmul 9 m3) = a.
  Proof.
    subst m0 m1 m2 m3; unfold xor4.
    rewrite !(gmul_add 14), !(gmul_add 11), !(gmul_add 13), !(gmul_add 9) by side.
    get_ids a Ha. get_ids b Hb. get_ids c Hc. get_ids d Hd.
    apply Z.bits_inj'; intros n Hn; bitify n.
    rewrite <- I. elim_last I31. elim_last I45. elim_last I59. btauto.
  Qed.
End Column.
