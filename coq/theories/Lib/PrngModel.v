(* STRUCTURE model of pyrtl/rtllib/prngs.py: the registers, the combinational next-state
   expressions exactly as the Python builds them (leap-ahead by chained concat, the un-truncated
   shifts of xoroshiro, Trivium's `bits_per_cycle` parallel taps with index offset -i, word assembly
   by concat(rand, output...)), and the WAIT/INIT/GEN state machines with `load` over `req`
   priority.  Definitions only; proofs in PrngProofs.v. *)
From Coq Require Import ZArith List Bool.
From PyRTL Require Import Lib.PrngSpec.
Import ListNotations.
Open Scope Z_scope.

(* pyrtl.concat(x, bit0, bit1, ...): x most significant, then the 1-bit wires in order *)
Definition concat_bits (x : Z) (bits : list bool) : Z :=
  fold_left (fun acc b => 2 * acc + b2z b) bits x.

(* ---------------- prng_lfsr ---------------- *)
Definition lfsr_width (bitwidth : Z) : Z := if bitwidth <? 127 then 127 else bitwidth.
(* for i in range(bitwidth): leap_ahead = concat(leap_ahead, leap_ahead[125] ^ leap_ahead[126])
   -- the vector GROWS by one bit per iteration; it is truncated only by `lfsr.next |=` *)
Fixpoint m_leap (n : nat) (la : Z) : Z :=
  match n with
  | O => la
  | S n' => m_leap n' (2 * la + b2z (xorb (Z.testbit la 125) (Z.testbit la 126)))
  end.
(* one clock: inputs (load, req, seed) *)
Definition m_lfsr_step (bitwidth : Z) (lfsr : Z) (i : Z * Z * Z) : Z :=
  let '(load, req, seed) := i in
  let W := lfsr_width bitwidth in
  if negb (load =? 0) then low W seed
  else if negb (req =? 0) then low W (m_leap (Z.to_nat bitwidth) lfsr)
  else lfsr.
Definition m_lfsr_out (bitwidth lfsr : Z) : Z := low bitwidth lfsr.   (* lfsr[:bitwidth] *)
Fixpoint m_lfsr_run (bitwidth lfsr : Z) (ins : list (Z * Z * Z)) : list Z :=
  match ins with
  | [] => []
  | i :: ins' => m_lfsr_out bitwidth lfsr :: m_lfsr_run bitwidth (m_lfsr_step bitwidth lfsr i) ins'
  end.

(* ---------------- prng_xoroshiro128 ---------------- *)
Definition ceil_div (a b : Z) : Z := (a + b - 1) / b.
Definition xo_gen_cycles (bitwidth : Z) : Z := ceil_div bitwidth 64.
Definition xo_counter_bw (bitwidth : Z) : Z :=
  let g := xo_gen_cycles bitwidth in if 1 <? g then Z.log2_up g else 1.
(* libutils._shifted_reg_next(reg,'l',n) = concat(reg, Const(0,n)) (NOT truncated);
   ('r',n) = reg[n:] *)
Definition m_xo_s0_next (s0 s1 : Z) : Z :=
  let _s1 := Z.lxor s0 s1 in
  Z.lxor (Z.lxor (Z.lor (Z.shiftl s0 55) (Z.shiftr s0 9)) (Z.shiftl _s1 14)) _s1.
Definition m_xo_s1_next (s0 s1 : Z) : Z :=
  let _s1 := Z.lxor s0 s1 in Z.lor (Z.shiftl _s1 36) (Z.shiftr _s1 28).
Definition m_xo_output (s0 s1 : Z) : Z := low 64 (s0 + s1).   (* output <<= kogge_stone(s0, s1) *)

(* registers: s0, s1, rand, counter, state *)
Definition xo_state := (Z * Z * Z * Z * Z)%type.
Definition xo_init : xo_state := (0, 0, 0, 0, 0).
Definition m_xo_step (bitwidth : Z) (st : xo_state) (i : Z * Z * Z) : xo_state :=
  let '(s0, s1, rand, counter, state) := st in
  let '(load, req, seed) := i in
  let g := xo_gen_cycles bitwidth in
  let R := g * 64 in
  let adv_s0 := low 64 (m_xo_s0_next s0 s1) in
  let adv_s1 := low 64 (m_xo_s1_next s0 s1) in
  let adv_rand := low R (Z.shiftl rand 64 + m_xo_output s0 s1) in
  if negb (load =? 0) then (low 64 seed, low 64 (Z.shiftr seed 64), rand, counter, 0)
  else if negb (req =? 0) then (adv_s0, adv_s1, adv_rand, 0, 1)
  else if state =? 1 then
    if negb (counter =? g - 1) then (adv_s0, adv_s1, adv_rand, low (xo_counter_bw bitwidth) (counter + 1), state)
    else st
  else st.
(* outputs this cycle: ready = ~load & ~req & (state == GEN) & gen_done ; rand[-bitwidth:] *)
Definition m_xo_out (bitwidth : Z) (st : xo_state) (i : Z * Z * Z) : Z * Z :=
  let '(s0, s1, rand, counter, state) := st in
  let '(load, req, seed) := i in
  let g := xo_gen_cycles bitwidth in
  (b2z ((load =? 0) && (req =? 0) && (state =? 1) && (counter =? g - 1)), Z.shiftr rand (g * 64 - bitwidth)).
Fixpoint m_xo_run (bitwidth : Z) (st : xo_state) (ins : list (Z * Z * Z)) : list (Z * Z) :=
  match ins with
  | [] => []
  | i :: ins' => m_xo_out bitwidth st i :: m_xo_run bitwidth (m_xo_step bitwidth st i) ins'
  end.

(* ---------------- csprng_trivium ---------------- *)
(* the loop `for i in range(bits_per_cycle)`: (feedback_a, feedback_b, feedback_c, output)[i] *)
Definition m_tv_taps (a b c : Z) (i : Z) : bool * bool * bool * bool :=
  let t1 := xorb (Z.testbit a (65 - i)) (Z.testbit a (92 - i)) in
  let t2 := xorb (Z.testbit b (68 - i)) (Z.testbit b (83 - i)) in
  let t3 := xorb (Z.testbit c (65 - i)) (Z.testbit c (110 - i)) in
  (xorb (xorb t3 (Z.testbit c (108 - i) && Z.testbit c (109 - i))) (Z.testbit a (68 - i)),
   xorb (xorb t1 (Z.testbit a (90 - i) && Z.testbit a (91 - i))) (Z.testbit b (77 - i)),
   xorb (xorb t2 (Z.testbit b (81 - i) && Z.testbit b (82 - i))) (Z.testbit c (86 - i)),
   xorb (xorb t1 t2) t3).
Definition idxs (k : nat) : list Z := map Z.of_nat (seq 0 k).
Definition fa4 (x : bool * bool * bool * bool) : bool := let '(p, _, _, _) := x in p.
Definition fb4 (x : bool * bool * bool * bool) : bool := let '(_, p, _, _) := x in p.
Definition fc4 (x : bool * bool * bool * bool) : bool := let '(_, _, p, _) := x in p.
Definition out4 (x : bool * bool * bool * bool) : bool := let '(_, _, _, p) := x in p.
(* a_next = concat(a, *feedback_a) etc. (un-truncated), and the output bit list *)
Definition m_tv_par (k : nat) (st : tstate) : list bool * tstate :=
  let '(a, b, c) := st in
  let taps := map (m_tv_taps a b c) (idxs k) in
  (map out4 taps,
   (low 93 (concat_bits a (map fa4 taps)), low 84 (concat_bits b (map fb4 taps)),
    low 111 (concat_bits c (map fc4 taps)))).

Definition tv_init_cycles (bpc : Z) : Z := 1152 / bpc.
Definition tv_gen_cycles (bitwidth bpc : Z) : Z := ceil_div bitwidth bpc.
Definition tv_counter_bw (bitwidth bpc : Z) : Z :=
  Z.log2_up (Z.max (tv_init_cycles bpc + 1) (tv_gen_cycles bitwidth bpc)).

(* registers: (a,b,c), rand, counter, state (WAIT=0, INIT=1, GEN=2) *)
Definition tv_state := (tstate * Z * Z * Z)%type.
Definition tv_init : tv_state := ((0, 0, 0), 0, 0, 0).
Definition m_tv_step (bitwidth bpc : Z) (s : tv_state) (i : Z * Z * Z) : tv_state :=
  let '(abc, rand, counter, state) := s in
  let '(load, req, seed) := i in
  let k := Z.to_nat bpc in
  let adv := m_tv_par k abc in
  let adv_rand := low bitwidth (concat_bits rand (fst adv)) in   (* concat(rand, *output) *)
  let cnt1 := low (tv_counter_bw bitwidth bpc) (counter + 1) in
  if negb (load =? 0) then
    ((low 80 (Z.shiftr seed 80), low 80 seed, Z.shiftl 7 108), rand, 0, 1)
  else if negb (req =? 0) then (snd adv, adv_rand, 0, 2)
  else if state =? 1 then
    if negb (counter =? tv_init_cycles bpc) then (snd adv, rand, cnt1, state) else s
  else if state =? 2 then
    if negb (counter =? tv_gen_cycles bitwidth bpc - 1) then (snd adv, adv_rand, cnt1, state) else s
  else s.
Definition m_tv_out (bitwidth bpc : Z) (s : tv_state) (i : Z * Z * Z) : Z * Z :=
  let '(abc, rand, counter, state) := s in
  let '(load, req, seed) := i in
  (b2z ((load =? 0) && (req =? 0) &&
        (((state =? 1) && (counter =? tv_init_cycles bpc))
         || ((state =? 2) && (counter =? tv_gen_cycles bitwidth bpc - 1)))), rand).
Fixpoint m_tv_run (bitwidth bpc : Z) (s : tv_state) (ins : list (Z * Z * Z)) : list (Z * Z) :=
  match ins with
  | [] => []
  | i :: ins' => m_tv_out bitwidth bpc s i :: m_tv_run bitwidth bpc (m_tv_step bitwidth bpc s i) ins'
  end.

(* ---------------- harness entry points ---------------- *)
Definition pr2 (p : Z * Z) : list Z := [fst p; snd p].
Definition lfsr_trace (bitwidth : Z) (ins : list (Z * Z * Z)) : list Z := m_lfsr_run bitwidth 0 ins.
Definition xo_trace (bitwidth : Z) (ins : list (Z * Z * Z)) : list (list Z) :=
  map pr2 (m_xo_run bitwidth xo_init ins).
Definition tv_trace (bitwidth bpc : Z) (ins : list (Z * Z * Z)) : list (list Z) :=
  map pr2 (m_tv_run bitwidth bpc tv_init ins).
(* trace summaries (see PrngSpec.summary) *)
Definition lfsr_sum (bitwidth : Z) (ins : list (Z * Z * Z)) : list (list Z) :=
  summary (map (fun r => Z.shiftl r 1) (m_lfsr_run bitwidth 0 ins)).
Definition xo_sum (bitwidth : Z) (ins : list (Z * Z * Z)) : list (list Z) :=
  summary (map enc_cycle (m_xo_run bitwidth xo_init ins)).
Definition tv_sum (bitwidth bpc : Z) (ins : list (Z * Z * Z)) : list (list Z) :=
  summary (map enc_cycle (m_tv_run bitwidth bpc tv_init ins)).
