(* Bridge between the expressions REGENERATED from the current source
   (Gen/C13Src.v, one definition per hole of the frozen function templates) and the
   hand-written models Lib/Adders.v, Lib/Mult.v, Lib/SeqMult.v: at every place the
   model computes a gate, a loop condition, a guard, an index or a width, it computes
   exactly what the source expression computes.  A source edit of such an expression
   changes Gen/C13Src.v and these lemmas are re-checked against it. *)
From PyRTL Require Import Gen.C13Src Lib.Mult Lib.SeqMult Lib.BitListFacts Lib.AddersProofs.
From Coq Require Import ZifyBool.

(* the bridging proofs are SEMANTIC (truth tables / lia), so an equivalent rewrite of a source
   expression still checks; a change of meaning does not *)
Lemma map2_ext {A B C} (f g : A -> B -> C) : (forall x y, f x y = g x y) ->
  forall a b, map2 f a b = map2 g a b.
Proof.
  intros H a. induction a as [|x ta IH]; intros [|y tb]; cbn [map2]; try reflexivity.
  rewrite H, IH. reflexivity.
Qed.

(* ------------------------------------------------------------- gate level *)

Theorem src_gates :
  (forall a b c, full_add a b c = (src_fa_sum a b c, src_fa_cout a b c)) /\
  (forall a b, half_add a b = (src_ha_sum a b, src_ha_cout a b)) /\
  (forall a b c, cs_sum a b c = src_cs_sum a b c /\ cs_carry a b c = src_cs_carry a b c) /\
  (forall a b, andb a b = src_tree_pp a b /\ andb a b = src_fma_pp a b) /\
  (forall s t, xorb s t = src_st_sign s t).
Proof.
  repeat split; intros; repeat match goal with b : bool |- _ => destruct b end; reflexivity.
Qed.

(* ------------------------------------------------------------ ripple_add *)

Theorem src_ripple :
  (forall a b : list bool, (length a <? length b)%nat
      = src_rp_swap (Z.of_nat (length a)) (Z.of_nat (length b))) /\
  (* the model recurses on the list structure: "tail empty" is the source's len(..) == 1 *)
  (forall (x : bool) t, src_rp_a1 (Z.of_nat (length (x :: t))) = match t with [] => true | _ => false end) /\
  (forall (x : bool) t, src_rp_b1 (Z.of_nat (length (x :: t))) = match t with [] => true | _ => false end) /\
  (forall (x : bool) t, src_rh_a1 (Z.of_nat (length (x :: t))) = match t with [] => true | _ => false end).
Proof.
  unfold src_rp_swap, src_rp_a1, src_rp_b1, src_rh_a1.
  repeat split; intros; try (destruct t; cbn [length]); lia.
Qed.

(* ----------------------------------------------------------- kogge_stone *)

Lemma ks_update_src d g p i :
  ks_update d (g, p) i =
  (set_nth i (src_ks_upd_gen (nth i g false) (nth i p false) (nth (i - d) g false)) g,
   if src_ks_guard (Z.of_nat i) (Z.of_nat d)
   then set_nth i (src_ks_upd_prop (nth i p false) (nth (i - d) p false)) p else p).
Proof.
  unfold ks_update.
  assert (G : forall x y z, x || (y && z) = src_ks_upd_gen x y z) by (intros [] [] []; reflexivity).
  assert (P : forall x y, x && y = src_ks_upd_prop x y) by (intros [] []; reflexivity).
  assert (C : (2 * d <=? i)%nat = src_ks_guard (Z.of_nat i) (Z.of_nat d)) by (unfold src_ks_guard; lia).
  rewrite G, P, C. reflexivity.
Qed.

Lemma ks_loop_src f d n gp :
  ks_loop (S f) d n gp =
  if src_ks_loop_cond (Z.of_nat d) (Z.of_nat n) then ks_loop f (2 * d) n (ks_stage d n gp) else gp.
Proof.
  cbn [ks_loop]. unfold src_ks_loop_cond.
  replace (Z.of_nat d <? Z.of_nat n) with (d <? n)%nat by lia. reflexivity.
Qed.

Theorem src_kogge :
  (forall d g p i, ks_update d (g, p) i =
     (set_nth i (src_ks_upd_gen (nth i g false) (nth i p false) (nth (i - d) g false)) g,
      if src_ks_guard (Z.of_nat i) (Z.of_nat d)
      then set_nth i (src_ks_upd_prop (nth i p false) (nth (i - d) p false)) p else p)) /\
  (forall f d n gp, ks_loop (S f) d n gp =
     if src_ks_loop_cond (Z.of_nat d) (Z.of_nat n)
     then ks_loop f (2 * d) n (ks_stage d n gp) else gp) /\
  (* `prop_dist *= 2` is part of the frozen skeleton; the initial lists: *)
  (forall a b, map2 xorb a b = map2 src_ks_prop a b /\ map2 andb a b = map2 src_ks_gen a b) /\
  (forall x y ta tb cin,
     ks_init_gen (x :: ta) (y :: tb) cin
     = src_ks_fold (src_ks_gen x y) (src_ks_prop x y) cin :: map2 src_ks_gen ta tb).
Proof.
  split; [exact ks_update_src|]. split; [exact ks_loop_src|]. split.
  - intros a b. split; apply map2_ext; intros [] []; reflexivity.
  - intros. unfold ks_init_gen, ks_init_gen_cin. cbn [map2].
    rewrite (map2_ext andb src_ks_gen) by (intros [] []; reflexivity).
    destruct x, y, cin; reflexivity.
Qed.

(* ------------------------------------------------------------- cla_adder *)

Theorem src_cla :
  (forall la (a : list bool), (length a <=? la)%nat = src_cla_fits (Z.of_nat (length a)) (Z.of_nat la)) /\
  (forall a b, map2 andb a b = map2 src_cla_gen a b /\ map2 xorb a b = map2 src_cla_prop a b) /\
  (forall g p t cg cp cprev,
     cla_unit_loop ((g, p) :: t) cg cp cprev =
     let '(ss, fin) := cla_unit_loop t (src_cla_cur_gen g p cg) (src_cla_cur_prop cp p)
                                     (src_cla_carry g p cprev) in
     (src_cla_sumbit p cprev :: ss, fin)) /\
  (forall x y ta tb cin,
     cla_unit (x :: ta) (y :: tb) cin =
     let g0 := src_cla_gen x y in let p0 := src_cla_prop x y in
     let '(ss, (cg, cp)) := cla_unit_loop (combine (map2 src_cla_gen ta tb) (map2 src_cla_prop ta tb))
                                         g0 p0 (src_cla_c0 g0 p0 cin) in
     (src_cla_s0 p0 cin :: ss, src_cla_cout cg cp cin)).
Proof.
  assert (G : forall x y, andb x y = src_cla_gen x y) by (intros [] []; reflexivity).
  assert (P : forall x y, xorb x y = src_cla_prop x y) by (intros [] []; reflexivity).
  split; [intros; unfold src_cla_fits; lia|].
  split; [intros a b; split; apply map2_ext; assumption|].
  split.
  - intros g p t cg cp cprev. cbn [cla_unit_loop].
    replace (g || p && cg) with (src_cla_cur_gen g p cg) by (destruct g, p, cg; reflexivity).
    replace (cp && p) with (src_cla_cur_prop cp p) by (destruct cp, p; reflexivity).
    replace (g || p && cprev) with (src_cla_carry g p cprev) by (destruct g, p, cprev; reflexivity).
    replace (xorb p cprev) with (src_cla_sumbit p cprev) by (destruct p, cprev; reflexivity).
    reflexivity.
  - intros x y ta tb cin. unfold cla_unit. cbn [map2 combine]. cbv zeta.
    assert (Hg : forall u v, src_cla_gen u v = u && v) by (intros [] []; reflexivity).
    assert (Hp : forall u v, src_cla_prop u v = xorb u v) by (intros [] []; reflexivity).
    assert (Hc0 : forall g p c, src_cla_c0 g p c = g || p && c) by (intros [] [] []; reflexivity).
    assert (Hs0 : forall p c, src_cla_s0 p c = xorb p c) by (intros [] []; reflexivity).
    assert (Hco : forall g p c, src_cla_cout g p c = g || p && c) by (intros [] [] []; reflexivity).
    replace (map2 src_cla_gen ta tb) with (map2 andb ta tb) by (apply map2_ext; intros [] []; reflexivity).
    replace (map2 src_cla_prop ta tb) with (map2 xorb ta tb) by (apply map2_ext; intros [] []; reflexivity).
    replace (src_cla_c0 (src_cla_gen x y) (src_cla_prop x y) cin) with (x && y || xorb x y && cin)
      by (destruct x, y, cin; reflexivity).
    replace (src_cla_s0 (src_cla_prop x y) cin) with (xorb (xorb x y) cin) by (destruct x, y, cin; reflexivity).
    replace (src_cla_gen x y) with (x && y) by (destruct x, y; reflexivity).
    replace (src_cla_prop x y) with (xorb x y) by (destruct x, y; reflexivity).
    destruct (cla_unit_loop _ _ _ _) as [ss [cg cp]].
    replace (src_cla_cout cg cp cin) with (cg || cp && cin) by (destruct cg, cp, cin; reflexivity).
    reflexivity.
Qed.

(* ------------------------------------------------- Wallace / Dada / sparse *)

Lemma wallace_col_src w :
  wallace_col w =
  if src_wl_full (Z.of_nat (length w)) then
    match w with
    | x :: y :: z :: t => let '(s, c) := full_add x y z in
                          let '(st, ca) := wallace_col t in (s :: st, c :: ca)
    | _ => (w, [])
    end
  else if src_wl_half (Z.of_nat (length w)) then
    match w with [x; y] => let '(s, c) := half_add x y in ([s], [c]) | _ => (w, []) end
  else (w, []).
Proof.
  unfold src_wl_full, src_wl_half.
  destruct w as [|x [|y [|z t]]]; cbn [length wallace_col].
  - reflexivity.
  - reflexivity.
  - reflexivity.
  - replace (Z.of_nat (S (S (S (length t)))) >=? 3) with true by lia. reflexivity.
Qed.

Lemma dada_col_src f target w def carry :
  dada_col (S f) target w def carry =
  if negb (src_dd_more (Z.of_nat (length w)) (Z.of_nat (length def)) (Z.of_nat target))
  then Some (def ++ w, carry)
  else if src_dd_full (Z.of_nat (length w)) (Z.of_nat (length def)) (Z.of_nat target) then
    match w with
    | x :: y :: z :: t => let '(s, c) := full_add x y z in dada_col f target t (def ++ [s]) (carry ++ [c])
    | _ => None
    end
  else
    match w with
    | x :: y :: t => let '(s, c) := half_add x y in dada_col f target t (def ++ [s]) (carry ++ [c])
    | _ => None
    end.
Proof.
  cbn [dada_col]. unfold src_dd_more, src_dd_full.
  destruct (length w + length def <=? target)%nat eqn:E.
  - replace (Z.of_nat (length w) + Z.of_nat (length def) >? Z.of_nat target) with false by lia. reflexivity.
  - replace (Z.of_nat (length w) + Z.of_nat (length def) >? Z.of_nat target) with true by lia.
    cbn [negb].
    replace (Z.of_nat (length w) + Z.of_nat (length def) - Z.of_nat target >=? 2)
      with (2 <=? length w + length def - target)%nat by lia.
    reflexivity.
Qed.

Theorem src_reducers :
  (forall c : list bool, (length c <=? 2)%nat = src_wl_done (Z.of_nat (length c))) /\
  (forall w, wallace_col w =
     if src_wl_full (Z.of_nat (length w)) then
       match w with
       | x :: y :: z :: t => let '(s, c) := full_add x y z in
                             let '(st, ca) := wallace_col t in (s :: st, c :: ca)
       | _ => (w, [])
       end
     else if src_wl_half (Z.of_nat (length w)) then
       match w with [x; y] => let '(s, c) := half_add x y in ([s], [c]) | _ => (w, []) end
     else (w, [])) /\
  (* deferred has result_bitwidth + 1 rows, one more than take_pad keeps *)
  (forall rw, src_wl_rows (Z.of_nat rw) = Z.of_nat (S rw) /\ src_dd_rows (Z.of_nat rw) = Z.of_nat (S rw)) /\
  (* `result[:rw] if len(result) > rw else result` is firstn rw *)
  (forall rw (r : list bool),
     firstn rw r = (if src_wl_trunc (Z.of_nat (length r)) (Z.of_nat rw) then firstn rw r else r) /\
     firstn rw r = (if src_dd_trunc (Z.of_nat (length r)) (Z.of_nat rw) then firstn rw r else r)) /\
  (forall f target w def carry, dada_col (S f) target w def carry =
     if negb (src_dd_more (Z.of_nat (length w)) (Z.of_nat (length def)) (Z.of_nat target))
     then Some (def ++ w, carry)
     else if src_dd_full (Z.of_nat (length w)) (Z.of_nat (length def)) (Z.of_nat target) then
       match w with
       | x :: y :: z :: t => let '(s, c) := full_add x y z in dada_col f target t (def ++ [s]) (carry ++ [c])
       | _ => None
       end
     else
       match w with
       | x :: y :: t => let '(s, c) := half_add x y in dada_col f target t (def ++ [s]) (carry ++ [c])
       | _ => None
       end) /\
  (* the "Expected ... reduce more wires" raise is dead: after the while loop exits it cannot fire *)
  (forall lw ld t, src_dd_more lw ld t = false -> src_dd_err (lw + ld) t = false) /\
  (* the reduction schedule 2, 3, 4, 6, 9, ... *)
  (forall f cur maxw, dada_sched_up (S f) cur maxw =
     if src_dd_sched_cond (Z.of_nat cur) (Z.of_nat maxw)
     then cur :: dada_sched_up f (Z.to_nat (src_dd_sched_next (Z.of_nat cur))) maxw else []) /\
  (forall c : list bool, (length c =? 2)%nat = src_sp_two (Z.of_nat (length c))).
Proof.
  split; [intros; unfold src_wl_done; lia|].
  split; [exact wallace_col_src|].
  split; [intros; unfold src_wl_rows, src_dd_rows; lia|].
  split.
  { intros rw r. unfold src_wl_trunc, src_dd_trunc.
    destruct (Z.of_nat (length r) >? Z.of_nat rw) eqn:E; split; try reflexivity;
      apply firstn_all2; lia. }
  split; [exact dada_col_src|].
  split; [intros lw ld t; unfold src_dd_more, src_dd_err; lia|].
  split.
  { intros f cur maxw. cbn [dada_sched_up]. unfold src_dd_sched_cond, src_dd_sched_next.
    replace (Z.of_nat cur <=? Z.of_nat maxw) with (cur <=? maxw)%nat by lia.
    replace (Z.to_nat (Z.of_nat cur * 3 / 2)) with (cur * 3 / 2)%nat; [reflexivity|].
    rewrite <- (Nat2Z.id (cur * 3 / 2)). f_equal. rewrite Nat2Z.inj_div, Nat2Z.inj_mul. reflexivity. }
  intros; unfold src_sp_two; lia.
Qed.

(* ------------------------------------------------------------------ widths *)

Theorem src_widths :
  (forall ws, fga_width ws
     = Z.to_nat (src_fga_width (Z.of_nat (maxlen ws)) (Z.of_nat (length ws)))) /\
  (forall pairs adds, fma_width pairs adds
     = Z.to_nat (src_fma_width (Z.of_nat (fma_longest pairs adds)) (Z.of_nat (length adds))
                               (Z.of_nat (length pairs)))) /\
  (forall (a b : list bool), (1 <= length a + length b)%nat ->
     Z.of_nat (length a + length b - 1) = src_fma_pairlen (Z.of_nat (length a)) (Z.of_nat (length b))) /\
  (forall A B : list bool,
     Z.of_nat (length A + length B) = src_tree_len (Z.of_nat (length A)) (Z.of_nat (length B)) /\
     Z.of_nat (length A + length B) = src_st_len (Z.of_nat (length A)) (Z.of_nat (length B))).
Proof.
  repeat split.
  - intros ws. unfold fga_width, clog2, src_fga_width.
    pose proof (Z.log2_up_nonneg (Z.of_nat (length ws))). lia.
  - intros pairs adds. unfold fma_width, clog2, src_fma_width.
    rewrite Nat2Z.inj_add. pose proof (Z.log2_up_nonneg (Z.of_nat (length adds) + Z.of_nat (length pairs))). lia.
  - intros a b H. unfold src_fma_pairlen. lia.
  - unfold src_tree_len. lia.
  - unfold src_st_len. lia.
Qed.

(* ------------------------------------------------------------- multipliers *)

Lemma add_wire_nth w : forall cols j, (j < length w)%nat ->
  nth j (add_wire cols w) [] = nth j cols [] ++ [nth j w false].
Proof.
  induction w as [|b tw IH]; intros cols j Hj; cbn [length] in Hj; [lia|].
  cbn [add_wire]. destruct cols as [|c tc]; destruct j as [|j]; cbn [nth]; try reflexivity.
  - rewrite IH by lia. destruct j; reflexivity.
  - apply IH. lia.
Qed.

Lemma add_wire_keeps w : forall cols j (x : bool), In x (nth j cols []) -> In x (nth j (add_wire cols w) []).
Proof.
  induction w as [|b tw IH]; intros cols j x H; cbn [add_wire]; [exact H|].
  destruct cols as [|c tc].
  - destruct j; cbn [nth] in H; contradiction.
  - destruct j as [|j]; cbn [nth] in *; [apply in_or_app; left; exact H|apply IH; exact H].
Qed.

Lemma add_pp_keeps A B : forall cols j (x : bool), In x (nth j cols []) -> In x (nth j (add_pp cols A B) []).
Proof.
  induction A as [|a ta IH]; intros cols j x H; cbn [add_pp]; [exact H|].
  pose proof (add_wire_keeps (map (andb a) B) cols j x H) as Hk.
  destruct (add_wire cols (map (andb a) B)) as [|c0 rest].
  - destruct j; cbn [nth] in Hk; contradiction.
  - destruct j as [|j]; cbn [nth] in *; [exact Hk|apply IH; exact Hk].
Qed.

(* the partial product a_i & b_j lands in the column the source indexes with i + j *)
Lemma add_pp_places A B : forall cols i j, (i < length A)%nat -> (j < length B)%nat ->
  In (src_tree_pp (nth i A false) (nth j B false))
     (nth (Z.to_nat (src_tree_idx (Z.of_nat i) (Z.of_nat j))) (add_pp cols A B) []).
Proof.
  unfold src_tree_idx, src_tree_pp.
  induction A as [|a ta IH]; intros cols i j Hi Hj; cbn [length] in Hi; [lia|].
  cbn [add_pp].
  pose proof (add_wire_nth (map (andb a) B) cols j ltac:(rewrite map_length; exact Hj)) as Hn.
  assert (Hm : nth j (map (andb a) B) false = a && nth j B false).
  { rewrite <- (map_nth (andb a) B false j). f_equal. destruct a; reflexivity. }
  destruct (add_wire cols (map (andb a) B)) as [|c0 rest] eqn:E.
  - destruct j; cbn [nth] in Hn; destruct (nth _ cols []); discriminate.
  - destruct i as [|i].
    + replace (Z.to_nat (Z.of_nat 0 + Z.of_nat j)) with j by lia. cbn [nth].
      destruct j as [|j].
      * cbn [nth] in *. rewrite Hn. apply in_or_app. right. left. exact Hm.
      * cbn [nth] in *. apply add_pp_keeps. rewrite Hn. apply in_or_app. right. left. exact Hm.
    + replace (Z.to_nat (Z.of_nat (S i) + Z.of_nat j)) with (S (Z.to_nat (Z.of_nat i + Z.of_nat j))) by lia.
      cbn [nth]. apply IH; lia.
Qed.

Theorem src_multipliers :
  (forall A B cols i j, (i < length A)%nat -> (j < length B)%nat ->
     In (src_tree_pp (nth i A false) (nth j B false))
        (nth (Z.to_nat (src_tree_idx (Z.of_nat i) (Z.of_nat j))) (add_pp cols A B) [])) /\
  (forall i j, src_fma_idx i j = src_tree_idx i j) /\
  (forall A B : list bool,
     trivial_mult A B =
     let '(A', B') := if src_tm_b1 (Z.of_nat (length B)) then (B, A) else (A, B) in
     if src_tm_a1 (Z.of_nat (length A')) then Some (map (andb (hd false A')) B' ++ [false]) else None) /\
  (* sign bit required: the source refuses exactly when the model returns None (lengths >= 1) *)
  (forall A B : list bool, (1 <= length A)%nat -> (1 <= length B)%nat ->
     ((length A =? 1)%nat || (length B =? 1)%nat || (length A =? 0)%nat || (length B =? 0)%nat)
     = src_st_guard (Z.of_nat (length A)) (Z.of_nat (length B))).
Proof.
  split; [exact add_pp_places|]. split; [reflexivity|]. split.
  - intros A B. unfold trivial_mult, src_tm_b1, src_tm_a1.
    replace (Z.of_nat (length B) =? 1) with (length B =? 1)%nat by lia.
    destruct (length B =? 1)%nat.
    + replace (Z.of_nat (length B) =? 1) with (length B =? 1)%nat by lia. reflexivity.
    + replace (Z.of_nat (length A) =? 1) with (length A =? 1)%nat by lia. reflexivity.
  - intros A B HA HB. unfold src_st_guard. lia.
Qed.

(* ------------------------------------------------- sequential multipliers *)

Theorem src_sequential :
  (forall alen blen, alen + blen = src_sm_w alen blen /\ alen + blen = src_cm_w alen blen) /\
  (* complex_mult raises unless shifts <= len(A) and shifts <= len(B) *)
  (forall sh alen blen, src_cm_guard sh alen blen = false <-> sh <= alen /\ sh <= blen) /\
  (* _one_cycle_mult recursion: rem_bits == 0 / rem_bits - 1 / curr_bit + 1 *)
  (forall a b w sum cb,
     one_cycle_mult a b w O sum cb = sum /\ src_oc_done (Z.of_nat O) = true) /\
  (forall a b w r sum cb,
     src_oc_done (Z.of_nat (S r)) = false /\
     one_cycle_mult a b w (S r) sum cb =
     one_cycle_mult a b w (Z.to_nat (src_oc_dec (Z.of_nat (S r))))
       (sum + (if Z.testbit a cb then (Z.shiftl b cb) mod 2 ^ w else 0)) (src_oc_inc cb)) /\
  (* the curr_bit == 0 branch omits the shift: shifting by 0 is the identity *)
  (forall b cb, src_oc_first cb = true -> Z.shiftl b cb = b) /\
  (* _shifted_reg_next returns 0 when num >= len(reg): the model's shift already is 0 then *)
  (forall reg num lreg, 0 <= lreg -> 0 <= reg < 2 ^ lreg -> src_sr_over num lreg = true ->
     Z.shiftr reg num = 0).
Proof.
  split; [intros; unfold src_sm_w, src_cm_w; lia|].
  split; [intros; unfold src_cm_guard; lia|].
  split; [intros; split; reflexivity|].
  split.
  { intros a b w r sum cb. split; [reflexivity|].
    unfold src_oc_dec, src_oc_inc. replace (Z.to_nat (Z.of_nat (S r) - 1)) with r by lia. reflexivity. }
  split.
  { intros b cb H. unfold src_oc_first in H. assert (cb = 0) by lia. subst. apply Z.shiftl_0_r. }
  intros reg num lreg Hl Hr H. unfold src_sr_over in H.
  rewrite Z.shiftr_div_pow2 by lia. apply Z.div_small.
  split; [lia|]. eapply Z.lt_le_trans; [apply Hr|]. apply Z.pow_le_mono_r; lia.
Qed.
