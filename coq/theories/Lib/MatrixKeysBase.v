(* C19 -- the key normalisation of Matrix.__getitem__ / __setitem__ REGENERATED from the source
   (Gen/MatrixKeys.v, symbolic execution of the `if isinstance(key, tuple):` fragment for every
   combination of int / slice keys, and of the single-int-key case) equals the model's key_get / key_set
   on which every getitem/setitem theorem rests. *)
From PyRTL Require Import Base.PyZ Lib.Matrix Gen.MatrixKeys.
From Coq Require Import ZifyBool.

Definition keys_model (kg : Z -> key1 -> option (Z * Z)) (r c : Z) (kr kc : key1) : option (Z * Z * Z * Z) :=
  match kg r kr, kg c kc with
  | Some (a, b), Some (c0, d) => Some (a, b, c0, d)
  | _, _ => None
  end.

Ltac kstep :=
  match goal with
  | |- context [Z.ltb ?a ?b] => destruct (Z.ltb a b) eqn:?
  | |- context [Z.gtb ?a ?b] => destruct (Z.gtb a b) eqn:?
  | |- context [Z.eqb ?a ?b] => destruct (Z.eqb a b) eqn:?
  end.
Ltac kcases :=
  cbv zeta; repeat (cbn [orb andb negb]; cbv iota; try reflexivity; kstep);
  cbn [orb andb negb]; cbv iota; try reflexivity; try lia.
(* whole `if` conditions at once (the compound bounds tests are the same term on both sides) *)
Ltac wstep := match goal with |- context [if ?c then _ else _] => destruct c eqn:? end.
Ltac wcases :=
  cbv zeta; repeat (cbn [orb andb negb]; cbv iota; try reflexivity; wstep);
  cbn [orb andb negb]; cbv iota; try reflexivity; try lia.


(* a slice bound brought to the matrix (negative counts from the end) is treated as one opaque value *)
Ltac abs_norm :=
  repeat match goal with
         | |- context [if (?z <? 0) then ?n - Z.abs ?z else ?z] =>
             is_var z; generalize (if z <? 0 then n - Z.abs z else z); intro
         end.

