(* Dada completion: the Dada schedule never runs out of wires -- dada_reducer
   returns for EVERY column array (not longer than the result width).
   Invariant of a pass with target t: every column height h satisfies 2h <= 3t
   (true at the first pass because the next schedule value exceeds the maximal
   height, and afterwards because the previous target was floor(3t/2) at most),
   and the carries handed to a column number at most floor(t/2). *)
From PyRTL Require Import Lib.Adders Lib.BitListFacts Lib.AddersProofs Lib.ReducerProofs
  Lib.AddersProofs3 Lib.AddersProofs4.
From Coq Require Import ZifyBool.

(* one column: if E = |w| + |def| - target wires must go, o = ceil(E/2) adders are
   used, which needs E + o wires in w; then the column loop succeeds *)
Lemma dada_col_ok target fuel : forall w def carry o,
  (length w + length def - target <= 2 * o)%nat ->
  (2 * o <= length w + length def - target + 1)%nat ->
  (length w + length def - target + o <= length w)%nat ->
  (o <= fuel)%nat ->
  exists d ca, dada_col fuel target w def carry = Some (d, ca) /\
               length ca = (length carry + o)%nat.
Proof.
  induction fuel as [|f IH]; intros w def carry o H1 H2 H3 H4.
  - cbn [dada_col]. assert (o = 0)%nat by lia. subst o.
    replace (length w + length def <=? target)%nat with true by lia.
    eexists; eexists; split; [reflexivity|lia].
  - cbn [dada_col]. destruct (length w + length def <=? target)%nat eqn:E1.
    + assert (o = 0)%nat by lia. subst o. eexists; eexists; split; [reflexivity|lia].
    + destruct (2 <=? length w + length def - target)%nat eqn:E2.
      * destruct w as [|x [|y [|z t]]]; cbn [length] in *; try lia.
        unfold full_add.
        destruct (IH t (def ++ [xorb (xorb x y) z]) (carry ++ [x && y || x && z || y && z]) (o - 1)%nat)
          as (d & ca & Hd & Hl); rewrite ?app_length; cbn [length]; try lia.
        exists d, ca. split; [exact Hd|]. rewrite Hl, app_length. cbn [length]. lia.
      * destruct w as [|x [|y t]]; cbn [length] in *; try lia.
        unfold half_add.
        destruct (IH t (def ++ [xorb x y]) (carry ++ [x && y]) (o - 1)%nat)
          as (d & ca & Hd & Hl); rewrite ?app_length; cbn [length]; try lia.
        exists d, ca. split; [exact Hd|]. rewrite Hl, app_length. cbn [length]. lia.
Qed.

(* one pass *)
Lemma dada_pass_ok t cols : forall cin,
  (forall c, In c cols -> (2 * length c <= 3 * t)%nat) -> (2 * length cin <= t)%nat ->
  exists r, dada_pass t cols cin = Some r /\ heights_le t r.
Proof.
  induction cols as [|w rest IH]; intros cin Hh Hc; cbn [dada_pass].
  - eexists. split; [reflexivity|]. constructor; [lia|constructor].
  - assert (Hw : (2 * length w <= 3 * t)%nat) by (apply Hh; left; reflexivity).
    set (E := (length w + length cin - t)%nat).
    pose proof (Nat.div_mod (E + 1) 2 ltac:(lia)) as Hdm.
    pose proof (Nat.mod_upper_bound (E + 1) 2 ltac:(lia)) as Hmod.
    set (o := ((E + 1) / 2)%nat) in *.
    destruct (dada_col_ok t (S (length w)) w cin [] o) as (d & ca & Hd & Hl); try (unfold E in *; lia).
    rewrite Hd. cbn [length] in Hl.
    destruct (IH ca) as (r & Hr & Hrh).
    + intros c Hin. apply Hh. right. assumption.
    + unfold E in *. lia.
    + rewrite Hr. eexists. split; [reflexivity|].
      constructor; [|assumption]. apply dada_col_spec in Hd. apply Hd.
Qed.

(* a descending schedule along which the height invariant propagates *)
Fixpoint chain_ok (m : nat) (targets : list nat) : Prop :=
  match targets with
  | [] => True
  | t :: ts => (2 * m <= 3 * t)%nat /\ chain_ok t ts
  end.

Lemma chain_ok_mono m m' targets : (m <= m')%nat -> chain_ok m' targets -> chain_ok m targets.
Proof. destruct targets as [|t ts]; cbn [chain_ok]; [auto|]. intros H [H1 H2]. split; [lia|assumption]. Qed.

Lemma dada_loop_ok rw targets : forall m cols,
  chain_ok m targets -> heights_le m cols ->
  exists c', dada_loop targets rw cols = Some c'.
Proof.
  induction targets as [|t ts IH]; intros m cols Hc Hh; cbn [dada_loop].
  - eexists; reflexivity.
  - cbn [chain_ok] in Hc. destruct Hc as [Hm Hts].
    destruct (dada_pass_ok t cols []) as (r & Hr & Hrh).
    + intros c Hin. unfold heights_le in Hh. rewrite Forall_forall in Hh. specialize (Hh c Hin). lia.
    + cbn [length]. lia.
    + rewrite Hr. apply (IH t); [assumption|]. apply heights_le_take_pad. assumption.
Qed.

(* the schedule 2, 3, 4, 6, 9, ... reversed is such a chain for the maximal height m *)
Lemma sched_chain m fuel : forall cur tail,
  (2 <= cur)%nat -> (m < fuel + cur)%nat -> chain_ok cur tail ->
  chain_ok m (rev (dada_sched_up fuel cur m) ++ tail).
Proof.
  induction fuel as [|f IH]; intros cur tail H2 Hf Ht; cbn [dada_sched_up].
  - cbn [rev app]. apply (chain_ok_mono m cur); [lia|assumption].
  - destruct (cur <=? m)%nat eqn:E.
    + cbn [rev]. rewrite <- app_assoc. cbn [app].
      pose proof (Nat.div_mod (cur * 3) 2 ltac:(lia)) as Hdm.
      pose proof (Nat.mod_upper_bound (cur * 3) 2 ltac:(lia)) as Hmod.
      apply IH; [lia|lia|]. cbn [chain_ok]. split; [lia|assumption].
    + cbn [rev app]. apply (chain_ok_mono m cur); [lia|assumption].
Qed.

Lemma dada_targets_chain m : chain_ok m (dada_targets m).
Proof.
  unfold dada_targets. rewrite <- (app_nil_r (rev _)). apply sched_chain; [lia|lia|exact I].
Qed.

(* the Dada schedule always completes *)
Theorem dada_reduced_returns cols rw : exists c', dada_reduced cols rw = Some c'.
Proof.
  unfold dada_reduced. apply (dada_loop_ok rw _ (maxheight cols)).
  - apply dada_targets_chain.
  - apply heights_le_maxheight.
Qed.

Theorem dada_reducer_returns add cols rw :
  (length cols <= rw)%nat -> exists r, dada_reducer add cols rw = Some r.
Proof.
  intros H. unfold dada_reducer. replace (rw <? length cols)%nat with false by lia.
  destruct (dada_reduced_returns cols rw) as [c' Hc]. unfold dada_reduced in Hc. rewrite Hc.
  unfold sparse_adder, sparse_adder_with.
  destruct (sparse_split_total_some c') as (pre & z & ->).
  destruct z; eexists; reflexivity.
Qed.
