(* FIPS-197 AES-128: the SPECIFICATION, written from the standard (section numbers below refer
   to FIPS-197).  No table appears here: GF(2^8) is built from xtime (4.2.1), the S-box is
   affine o inverse (5.1.1), Rcon is a power of {02} (5.2).  This file contains definitions only
   (the harness evaluates them); it is part of the trusted base of C18.

   Data layout.  A block / key is a list of 16 bytes in[0..15] in the order of FIPS-197 3.4:
   state s[r,c] = in[r + 4c].  As a 128-bit integer, in[0] is the MOST significant byte (the
   convention of Appendix B/C: 00112233..ff is in[0]=00, in[1]=11, ...). *)
From Coq Require Import ZArith List Bool.
Import ListNotations.
Open Scope Z_scope.

(* ---- 4.2 multiplication in GF(2^8), polynomial x^8+x^4+x^3+x+1 = {01}{1b} ---- *)
Definition xtime (b : Z) : Z :=
  Z.lxor (Z.land (Z.shiftl b 1) 255) (if Z.testbit b 7 then 27 else 0).

(* c . x = xor over the set bits i of c of xtime^i(x)   (4.2.1, last paragraph) *)
Fixpoint gmul_fuel (n : nat) (c x : Z) : Z :=
  match n with
  | O => 0
  | S n' => Z.lxor (if Z.testbit c 0 then x else 0) (gmul_fuel n' (Z.shiftr c 1) (xtime x))
  end.
Definition gmul (c x : Z) : Z := gmul_fuel 8 c x.

Definition all_bytes : list Z := map Z.of_nat (seq 0 256).

(* 4.2 / 5.1.1: the multiplicative inverse, {00} mapped to itself: THE x with b.x = {01} *)
Definition ginv (b : Z) : Z :=
  match find (fun x => gmul b x =? 1) all_bytes with Some x => x | None => 0 end.

(* ---- 5.1.1 SubBytes: b'_i = b_i + b_(i+4) + b_(i+5) + b_(i+6) + b_(i+7) + c_i, c = {63} ---- *)
Definition bit8 (b i : Z) : bool := Z.testbit b (i mod 8).
Definition of_bits8 (f : Z -> bool) : Z :=
  fold_right (fun i acc => (if f i then 2 ^ i else 0) + acc) 0 [0; 1; 2; 3; 4; 5; 6; 7].
Definition affine (b : Z) : Z :=
  of_bits8 (fun i => xorb (xorb (xorb (xorb (xorb (bit8 b i) (bit8 b (i + 4))) (bit8 b (i + 5)))
                                     (bit8 b (i + 6))) (bit8 b (i + 7))) (Z.testbit 99 i)).
Definition SubByte (b : Z) : Z := affine (ginv b).

(* 5.3.2 InvSubBytes: inverse affine map (b'_i = b_(i+2) + b_(i+5) + b_(i+7) + d_i, d = {05})
   followed by the multiplicative inverse.  AesProofs.v proves by a 256-entry sweep that this IS
   the two-sided inverse of SubByte, so nothing rests on this formula. *)
Definition inv_affine (b : Z) : Z :=
  of_bits8 (fun i => xorb (xorb (xorb (bit8 b (i + 2)) (bit8 b (i + 5))) (bit8 b (i + 7)))
                          (Z.testbit 5 i)).
Definition InvSubByte (b : Z) : Z := ginv (inv_affine b).

(* ---- the state: s[r,c] = in[r + 4c]  (3.4) ---- *)
Definition st (s : list Z) (r c : nat) : Z := nth (r + 4 * c) s 0.
Definition build (f : nat -> nat -> Z) : list Z :=
  map (fun i => f (i mod 4)%nat (i / 4)%nat) (seq 0 16).

Definition SubBytes (s : list Z) : list Z := map SubByte s.
Definition InvSubBytes (s : list Z) : list Z := map InvSubByte s.

(* 5.1.2: s'[r,c] = s[r, (c + shift(r,4)) mod 4], shift(r,4) = r *)
Definition ShiftRows (s : list Z) : list Z := build (fun r c => st s r ((c + r) mod 4)).
(* 5.3.1: s'[r, (c + r) mod 4] = s[r,c] *)
Definition InvShiftRows (s : list Z) : list Z := build (fun r c => st s r ((c + 4 - r) mod 4)).

Definition xor4 (a b c d : Z) : Z := Z.lxor (Z.lxor (Z.lxor a b) c) d.

(* 5.1.3 (5.6) *)
Definition MixColumns (s : list Z) : list Z :=
  build (fun r c =>
    let s0 := st s 0 c in let s1 := st s 1 c in let s2 := st s 2 c in let s3 := st s 3 c in
    match r with
    | 0%nat => xor4 (gmul 2 s0) (gmul 3 s1) s2 s3
    | 1%nat => xor4 s0 (gmul 2 s1) (gmul 3 s2) s3
    | 2%nat => xor4 s0 s1 (gmul 2 s2) (gmul 3 s3)
    | _ => xor4 (gmul 3 s0) s1 s2 (gmul 2 s3)
    end).

(* 5.3.3 (5.10) *)
Definition InvMixColumns (s : list Z) : list Z :=
  build (fun r c =>
    let s0 := st s 0 c in let s1 := st s 1 c in let s2 := st s 2 c in let s3 := st s 3 c in
    match r with
    | 0%nat => xor4 (gmul 14 s0) (gmul 11 s1) (gmul 13 s2) (gmul 9 s3)
    | 1%nat => xor4 (gmul 9 s0) (gmul 14 s1) (gmul 11 s2) (gmul 13 s3)
    | 2%nat => xor4 (gmul 13 s0) (gmul 9 s1) (gmul 14 s2) (gmul 11 s3)
    | _ => xor4 (gmul 11 s0) (gmul 13 s1) (gmul 9 s2) (gmul 14 s3)
    end).

Fixpoint xorl (a b : list Z) : list Z :=
  match a, b with
  | x :: a', y :: b' => Z.lxor x y :: xorl a' b'
  | _, _ => []
  end.

(* 5.1.4: column c of the state is xored with word w[4*round + c]; with the byte layout above
   that is a bytewise xor with the 16 bytes of the four words *)
Definition AddRoundKey (s rk : list Z) : list Z := xorl s rk.

(* ---- 5.2 key expansion (Nk = 4, Nr = 10); a word is a list of 4 bytes [a0;a1;a2;a3] ---- *)
Definition word := list Z.
Definition RotWord (w : word) : word :=
  match w with [a0; a1; a2; a3] => [a1; a2; a3; a0] | _ => w end.
Definition SubWord (w : word) : word := map SubByte w.
Fixpoint xtime_pow (n : nat) (b : Z) : Z := match n with O => b | S n' => xtime (xtime_pow n' b) end.
(* Rcon[i] = [x^(i-1), 00, 00, 00], x = {02} *)
Definition Rcon (i : nat) : word := [xtime_pow (i - 1) 1; 0; 0; 0].

Fixpoint words_of (n : nat) (bytes : list Z) : list word :=
  match n with O => [] | S n' => firstn 4 bytes :: words_of n' (skipn 4 bytes) end.

(* The loop of Figure 11, `while i < 44`:
      temp = w[i-1]; if i mod 4 = 0 then temp = SubWord(RotWord(temp)) xor Rcon[i/4];
      w[i] = w[i-4] xor temp
   The accumulator holds w[i-1], w[i-2], ..., w[0] (newest first), so w[i-1] = nth 0 and
   w[i-4] = nth 3; KeyExpansion reverses it into w[0..43]. *)
Fixpoint key_sched (n i : nat) (acc : list word) : list word :=
  match n with
  | O => acc
  | S n' =>
      let temp := nth 0 acc [] in
      let temp' := if (i mod 4 =? 0)%nat then xorl (SubWord (RotWord temp)) (Rcon (i / 4)) else temp in
      key_sched n' (S i) (xorl (nth 3 acc []) temp' :: acc)
  end.
Definition KeyExpansion (key : list Z) : list word := rev (key_sched 40 4 (rev (words_of 4 key))).

(* the 16 bytes of w[4*round .. 4*round+3] *)
Definition round_key (w : list word) (round : nat) : list Z :=
  concat (firstn 4 (skipn (4 * round) w)).

(* ---- 5.1 Cipher (Figure 5) ---- *)
Fixpoint cipher_rounds (n round : nat) (w : list word) (s : list Z) : list Z :=
  match n with
  | O => s
  | S n' => cipher_rounds n' (S round) w
              (AddRoundKey (MixColumns (ShiftRows (SubBytes s))) (round_key w round))
  end.
Definition Cipher (key inp : list Z) : list Z :=
  let w := KeyExpansion key in
  let s := AddRoundKey inp (round_key w 0) in
  let s := cipher_rounds 9 1 w s in
  AddRoundKey (ShiftRows (SubBytes s)) (round_key w 10).

(* ---- 5.3 InvCipher (Figure 12): round = 9 downto 1 ---- *)
Fixpoint inv_cipher_rounds (n round : nat) (w : list word) (s : list Z) : list Z :=
  match n with
  | O => s
  | S n' => inv_cipher_rounds n' (round - 1) w
              (InvMixColumns (AddRoundKey (InvSubBytes (InvShiftRows s)) (round_key w round)))
  end.
Definition InvCipher (key inp : list Z) : list Z :=
  let w := KeyExpansion key in
  let s := AddRoundKey inp (round_key w 10) in
  let s := inv_cipher_rounds 9 9 w s in
  AddRoundKey (InvSubBytes (InvShiftRows s)) (round_key w 0).

(* ---- 128-bit integers <-> byte lists, in[0] most significant ---- *)
Fixpoint partition (w : Z) (n : nat) (x : Z) : list Z :=   (* little end first *)
  match n with O => [] | S n' => (x mod 2 ^ w) :: partition w n' (x / 2 ^ w) end.
Fixpoint concat_list (w : Z) (l : list Z) : Z :=            (* l[0] least significant *)
  match l with [] => 0 | b :: t => b + 2 ^ w * concat_list w t end.
Definition bytes_be (x : Z) : list Z := rev (partition 8 16 x).
Definition of_bytes_be (l : list Z) : Z := concat_list 8 (rev l).

Definition CipherZ (key pt : Z) : Z := of_bytes_be (Cipher (bytes_be key) (bytes_be pt)).
Definition InvCipherZ (key ct : Z) : Z := of_bytes_be (InvCipher (bytes_be key) (bytes_be ct)).
