(* The PUBLISHED algorithms behind pyrtl/rtllib/prngs.py -- SPECIFICATIONS, definitions only
   (trusted base of C18).
   * 127-bit Fibonacci LFSR, taps 126/125 (x^127 + x^126 + 1), one bit per step;
   * xoroshiro128+ (Blackman & Vigna 2016; rotations 55 / 14 / 36), 64-bit wrap made explicit;
   * Trivium (De Canniere & Preneel, eSTREAM): 288-bit state s1..s288, one bit per step,
     4*288 = 1152 warm-up steps. *)
From Coq Require Import ZArith List Bool.
Import ListNotations.
Open Scope Z_scope.

Definition b2z (b : bool) : Z := if b then 1 else 0.

(* the n low bits of x, i.e. x mod 2^n (PrngProofs.low_mod); written with land because Coq's
   Z.modulo is a quadratic long division and these definitions are executed by the harness *)
Definition low (n x : Z) : Z := Z.land x (Z.ones n).

Fixpoint iter {A : Type} (n : nat) (f : A -> A) (x : A) : A :=
  match n with O => x | S n' => f (iter n' f x) end.

(* bits, earliest first, packed with the earliest bit most significant *)
Definition msb_first (bits : list bool) : Z := fold_left (fun acc b => 2 * acc + b2z b) bits 0.

(* ---------------- Fibonacci LFSR ---------------- *)
(* the register holds the W >= 127 most recent bits, newest at bit 0; the new bit is the xor of
   the bits 127 and 126 steps old *)
Definition lfsr_fb (s : Z) : bool := xorb (Z.testbit s 126) (Z.testbit s 125).
Definition lfsr_step (W s : Z) : Z := low W (2 * s + b2z (lfsr_fb s)).
(* the bit stream of the 127-bit LFSR started in state s *)
Fixpoint lfsr_stream (n : nat) (s : Z) : list bool :=
  match n with O => [] | S n' => lfsr_fb s :: lfsr_stream n' (lfsr_step 127 s) end.

(* ---------------- xoroshiro128+ ---------------- *)
Definition rotl64 (x k : Z) : Z := Z.lor (low 64 (Z.shiftl x k)) (Z.shiftr x (64 - k)).
(* uint64 next(): result = s0 + s1; s1 ^= s0; s[0] = rotl(s0,55) ^ s1 ^ (s1 << 14); s[1] = rotl(s1,36) *)
Definition xoro_next (s : Z * Z) : Z * (Z * Z) :=
  let '(s0, s1) := s in
  let result := low 64 (s0 + s1) in
  let s1' := Z.lxor s1 s0 in
  (result, (Z.lxor (Z.lxor (rotl64 s0 55) s1') (low 64 (Z.shiftl s1' 14)), rotl64 s1' 36)).
(* n consecutive outputs, first output first *)
Fixpoint xoro_words (n : nat) (s : Z * Z) : list Z :=
  match n with O => [] | S n' => fst (xoro_next s) :: xoro_words n' (snd (xoro_next s)) end.

(* ---------------- Trivium ---------------- *)
(* state = (a, b, c): s_i = bit i-1 of a (1 <= i <= 93), bit i-94 of b (94 <= i <= 177),
   bit i-178 of c (178 <= i <= 288) *)
Definition tstate := (Z * Z * Z)%type.
Definition tbit (st : tstate) (i : Z) : bool :=
  let '(a, b, c) := st in
  if i <=? 93 then Z.testbit a (i - 1) else if i <=? 177 then Z.testbit b (i - 94) else Z.testbit c (i - 178).

(* one iteration of the key stream generation loop of the specification:
     t1 = s66 + s93;  t2 = s162 + s177;  t3 = s243 + s288;  z = t1 + t2 + t3
     t1 = t1 + s91.s92 + s171;  t2 = t2 + s175.s176 + s264;  t3 = t3 + s286.s287 + s69
     (s1..s93) = (t3, s1..s92);  (s94..s177) = (t1, s94..s176);  (s178..s288) = (t2, s178..s287) *)
Definition triv_step (st : tstate) : bool * tstate :=
  let s := tbit st in
  let t1 := xorb (s 66) (s 93) in
  let t2 := xorb (s 162) (s 177) in
  let t3 := xorb (s 243) (s 288) in
  let z := xorb (xorb t1 t2) t3 in
  let t1' := xorb (xorb t1 (s 91 && s 92)) (s 171) in
  let t2' := xorb (xorb t2 (s 175 && s 176)) (s 264) in
  let t3' := xorb (xorb t3 (s 286 && s 287)) (s 69) in
  let '(a, b, c) := st in
  (z, (low 93 (2 * a + b2z t3'), low 84 (2 * b + b2z t1'), low 111 (2 * c + b2z t2'))).

(* key / IV set-up: (s1..s93) = (K1..K80,0..0); (s94..s177) = (IV1..IV80,0..0);
   (s178..s288) = (0,..,0,1,1,1).  K_i = bit i-1 of key, IV_i = bit i-1 of iv. *)
Definition triv_load (key iv : Z) : tstate := (low 80 key, low 80 iv, Z.shiftl 7 108).

(* n steps: the n output bits (earliest first) and the final state *)
Fixpoint triv_run (n : nat) (st : tstate) : list bool * tstate :=
  match n with
  | O => ([], st)
  | S n' => let '(z, st') := triv_step st in
            let '(zs, st'') := triv_run n' st' in (z :: zs, st'')
  end.
Definition triv_warmup : nat := 1152.
(* the usable key stream: warm-up outputs discarded *)
Definition triv_keystream (key iv : Z) (n : nat) : list bool :=
  fst (triv_run n (snd (triv_run triv_warmup (triv_load key iv)))).

(* ================= the documented load / req / ready protocol =================
   Cycle-level reference behaviour phrased ONLY with the published single-step algorithms above:
   what the docstrings of prngs.py promise, with `load` taking priority over `req`.
   Inputs per cycle: (load, req, seed).  All registers start at 0. *)
Definition nz (x : Z) : bool := negb (x =? 0).

(* prng_lfsr: load -> state := seed; req -> `bitwidth` single steps; rand = the `bitwidth` newest
   bits (earliest most significant).  The register keeps max(127, bitwidth) bits of history. *)
Definition s_lfsr_step (bitwidth s : Z) (i : Z * Z * Z) : Z :=
  let '(load, req, seed) := i in
  let W := Z.max 127 bitwidth in
  if nz load then low W seed
  else if nz req then iter (Z.to_nat bitwidth) (lfsr_step W) s
  else s.
Fixpoint s_lfsr_run (bitwidth s : Z) (ins : list (Z * Z * Z)) : list Z :=
  match ins with
  | [] => []
  | i :: ins' => low bitwidth s :: s_lfsr_run bitwidth (s_lfsr_step bitwidth s i) ins'
  end.

(* prng_xoroshiro128: load -> s := (seed[63:0], seed[127:64]), not generating;
   req -> start a generation of g = ceil(bitwidth/64) words, one word per cycle starting in the
   req cycle itself; ready (while neither load nor req) once g words have been collected;
   rand = the `bitwidth` most significant bits of the g newest words, oldest word first.
   state: (s, words newest first, number collected, generating) *)
Definition sxo_state := ((Z * Z) * list Z * Z * bool)%type.
Definition sxo_init : sxo_state := ((0, 0), [], 0, false).
Definition sxo_g (bitwidth : Z) : Z := (bitwidth + 63) / 64.
Definition s_xo_step (bitwidth : Z) (st : sxo_state) (i : Z * Z * Z) : sxo_state :=
  let '(s, words, collected, gen) := st in
  let '(load, req, seed) := i in
  let nx := xoro_next s in
  if nz load then ((low 64 seed, low 64 (Z.shiftr seed 64)), words, collected, false)
  else if nz req then (snd nx, fst nx :: words, 1, true)
  else if gen && (collected <? sxo_g bitwidth) then (snd nx, fst nx :: words, collected + 1, true)
  else st.
Definition s_xo_out (bitwidth : Z) (st : sxo_state) (i : Z * Z * Z) : Z * Z :=
  let '(s, words, collected, gen) := st in
  let '(load, req, seed) := i in
  let g := sxo_g bitwidth in
  let v := fold_right (fun w acc => w + Z.shiftl acc 64) 0 (firstn (Z.to_nat g) words) in
  (b2z (negb (nz load) && negb (nz req) && gen && (collected =? g)), Z.shiftr v (64 * g - bitwidth)).
Fixpoint s_xo_run (bitwidth : Z) (st : sxo_state) (ins : list (Z * Z * Z)) : list (Z * Z) :=
  match ins with
  | [] => []
  | i :: ins' => s_xo_out bitwidth st i :: s_xo_run bitwidth (s_xo_step bitwidth st i) ins'
  end.

(* csprng_trivium with k = bits_per_cycle key-stream bits per cycle:
   load -> key/IV set-up (key = seed[159:80], iv = seed[79:0]) and warm-up phase, k steps per cycle
   starting the cycle after the load, ready once 1152 steps are done;
   req -> generation phase, k steps per cycle starting in the req cycle, every output bit shifted
   into rand (earliest most significant, rand keeps the `bitwidth` newest bits), ready once
   ceil(bitwidth/k) cycles' worth has been collected.
   state: (trivium state, rand bits newest first, phase 0/1/2, progress) *)
Definition stv_state := (tstate * list bool * Z * Z)%type.
Definition stv_init : stv_state := ((0, 0, 0), [], 0, 0).
Definition stv_g (bitwidth k : Z) : Z := (bitwidth + k - 1) / k.
Definition s_tv_step (bitwidth k : Z) (st : stv_state) (i : Z * Z * Z) : stv_state :=
  let '(ts, bits, phase, n) := st in
  let '(load, req, seed) := i in
  let adv := triv_run (Z.to_nat k) ts in
  let bits' := firstn (Z.to_nat bitwidth) (rev (fst adv) ++ bits) in
  if nz load then (triv_load (Z.shiftr seed 80) seed, bits, 1, 0)
  else if nz req then (snd adv, bits', 2, 1)
  else if (phase =? 1) && (n <? 1152) then (snd adv, bits, 1, n + k)
  else if (phase =? 2) && (n <? stv_g bitwidth k) then (snd adv, bits', 2, n + 1)
  else st.
Definition s_tv_out (bitwidth k : Z) (st : stv_state) (i : Z * Z * Z) : Z * Z :=
  let '(ts, bits, phase, n) := st in
  let '(load, req, seed) := i in
  (b2z (negb (nz load) && negb (nz req) &&
        (((phase =? 1) && (1152 <=? n)) || ((phase =? 2) && (n =? stv_g bitwidth k)))),
   msb_first (rev bits)).
Fixpoint s_tv_run (bitwidth k : Z) (st : stv_state) (ins : list (Z * Z * Z)) : list (Z * Z) :=
  match ins with
  | [] => []
  | i :: ins' => s_tv_out bitwidth k st i :: s_tv_run bitwidth k (s_tv_step bitwidth k st i) ins'
  end.

Definition spr2 (p : Z * Z) : list Z := [fst p; snd p].
Definition s_lfsr_trace (bitwidth : Z) (ins : list (Z * Z * Z)) : list Z := s_lfsr_run bitwidth 0 ins.
Definition s_xo_trace (bitwidth : Z) (ins : list (Z * Z * Z)) : list (list Z) :=
  map spr2 (s_xo_run bitwidth sxo_init ins).
Definition s_tv_trace (bitwidth k : Z) (ins : list (Z * Z * Z)) : list (list Z) :=
  map spr2 (s_tv_run bitwidth k stv_init ins).

(* run-length encoded stimulus used by the harness: (load, req, seed, repeat count) *)
Definition expand (l : list (Z * Z * Z * Z)) : list (Z * Z * Z) :=
  flat_map (fun r => let '(a, b, c, n) := r in repeat (a, b, c) (Z.to_nat n)) l.

(* ---- compact trace summaries for the harness (printing thousands of 256-bit numbers from Coq is
   very slow): a 320-bit polynomial digest over ALL cycles (odd multiplier, so a difference in any
   single cycle changes it), the trace length, the first 12 cycles at which `ready` rises with the
   value of rand there, and the last cycle.  A cycle is encoded as 2*rand + ready. *)
Definition HM : Z := 0x9E3779B97F4A7C15F39CC0605CEDC8341082276BF3A27251F86C6A11D0C18E95.
Definition digest (l : list Z) : Z := fold_left (fun h v => low 320 (h * HM + v + 1)) l 0.
Fixpoint rises (n : nat) (prev idx : Z) (l : list Z) : list (list Z) :=
  match l with
  | [] => []
  | v :: t =>
      if Z.testbit v 0 && negb (Z.testbit prev 0) then
        match n with O => [] | S n' => [idx; Z.shiftr v 1] :: rises n' v (idx + 1) t end
      else rises n v (idx + 1) t
  end.
Definition summary (l : list Z) : list (list Z) :=
  [digest l; Z.of_nat (length l); last l 0] :: rises 12 0 0 l.
Definition enc_cycle (p : Z * Z) : Z := Z.shiftl (snd p) 1 + fst p.
Definition s_lfsr_sum (bitwidth : Z) (ins : list (Z * Z * Z)) : list (list Z) :=
  summary (map (fun r => Z.shiftl r 1) (s_lfsr_run bitwidth 0 ins)).
Definition s_xo_sum (bitwidth : Z) (ins : list (Z * Z * Z)) : list (list Z) :=
  summary (map enc_cycle (s_xo_run bitwidth sxo_init ins)).
Definition s_tv_sum (bitwidth k : Z) (ins : list (Z * Z * Z)) : list (list Z) :=
  summary (map enc_cycle (s_tv_run bitwidth k stv_init ins)).
