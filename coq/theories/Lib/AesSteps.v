(* Each function of the rtllib AES structure model equals the FIPS-197 transformation, for every
   128-bit state: m_X (of_bytes_be s) = of_bytes_be (X s). *)
From Coq Require Import ZArith List Bool Lia ZifyBool Btauto.
From PyRTL Require Import Base.PyZ Gen.AesTables Lib.AesSpec Lib.AesModel Lib.AesProofs.
Import ListNotations.
Open Scope Z_scope.

Definition good16 (s : list Z) : Prop := length s = 16%nat /\ Forall byte s.

Lemma byte_inr b : byte b <-> inr 8 b.
Proof. unfold byte, inr. change (2 ^ 8) with 256. tauto. Qed.

Lemma Forall_byte_inr l : Forall byte l -> Forall (inr 8) l.
Proof. apply Forall_impl. intros a. apply byte_inr. Qed.

Lemma part8_of_bytes s : good16 s -> part8 (of_bytes_be s) = rev s.
Proof.
  intros [Hl Hb]. unfold part8, of_bytes_be.
  replace 16%nat with (length (rev s)) by (rewrite rev_length; exact Hl).
  apply partition_concat; [lia|]. apply Forall_byte_inr. apply Forall_rev. exact Hb.
Qed.

(* ---- explicit 16-byte states ---- *)
Ltac explode s Hs :=
  let Hl := fresh "Hl" in let Hb := fresh "Hb" in
  destruct Hs as [Hl Hb];
  do 16 (destruct s as [|? s]; [discriminate Hl|]);
  destruct s; [|discriminate Hl]; clear Hl;
  repeat match goal with
         | H : Forall byte (_ :: _) |- _ =>
             let H1 := fresh "B" in apply Forall_cons_iff in H; destruct H as [H1 H]
         end;
  try clear Hb.

Ltac xor_ac :=
  unfold xor4; apply Z.bits_inj'; intros ?n ?Hn; rewrite !Z.lxor_spec; btauto.

Lemma good16_intro (l : list Z) : length l = 16%nat -> Forall byte l -> good16 l.
Proof. split; assumption. Qed.

Lemma xor_byte a b : byte a -> byte b -> byte (Z.lxor a b).
Proof.
  intros Ha Hb. pose proof (lxor_range a b 8) as H. unfold inrange in H. change (2 ^ 8) with 256 in H.
  unfold byte in *. apply H; lia.
Qed.

Lemma xor4_byte a b c d : byte a -> byte b -> byte c -> byte d -> byte (xor4 a b c d).
Proof. intros. unfold xor4. repeat apply xor_byte; assumption. Qed.

(* ---- SubBytes / InvSubBytes ---- *)
Lemma m_sub_bytes_spec s : good16 s -> m_sub_bytes false (of_bytes_be s) = of_bytes_be (SubBytes s).
Proof.
  intros Hs. unfold m_sub_bytes. rewrite part8_of_bytes by exact Hs.
  unfold of_bytes_be, SubBytes. rewrite <- map_rev. f_equal.
  apply map_ext_in. intros b Hb. apply sbox_tbl.
  destruct Hs as [_ Hall]. rewrite Forall_forall in Hall. apply Hall. apply in_rev. exact Hb.
Qed.

Lemma m_inv_sub_bytes_spec s : good16 s -> m_sub_bytes true (of_bytes_be s) = of_bytes_be (InvSubBytes s).
Proof.
  intros Hs. unfold m_sub_bytes. rewrite part8_of_bytes by exact Hs.
  unfold of_bytes_be, InvSubBytes. rewrite <- map_rev. f_equal.
  apply map_ext_in. intros b Hb. apply inv_sbox_tbl.
  destruct Hs as [_ Hall]. rewrite Forall_forall in Hall. apply Hall. apply in_rev. exact Hb.
Qed.

Lemma SubBytes_good s : good16 s -> good16 (SubBytes s).
Proof.
  intros [Hl Hb]. split; [unfold SubBytes; rewrite map_length; exact Hl|].
  unfold SubBytes. rewrite Forall_forall in *. intros x Hx. apply in_map_iff in Hx.
  destruct Hx as [y [<- Hy]]. apply SubByte_byte. auto.
Qed.

Lemma InvSubBytes_good s : good16 s -> good16 (InvSubBytes s).
Proof.
  intros [Hl Hb]. split; [unfold InvSubBytes; rewrite map_length; exact Hl|].
  unfold InvSubBytes. rewrite Forall_forall in *. intros x Hx. apply in_map_iff in Hx.
  destruct Hx as [y [<- Hy]]. apply InvSubByte_byte. auto.
Qed.

(* ---- ShiftRows / InvShiftRows ---- *)
Lemma m_shift_rows_spec s : good16 s -> m_shift_rows (of_bytes_be s) = of_bytes_be (ShiftRows s).
Proof.
  intros Hs. unfold m_shift_rows, m_select. rewrite part8_of_bytes by exact Hs.
  unfold of_bytes_be. f_equal. explode s Hs. reflexivity.
Qed.

Lemma m_inv_shift_rows_spec s : good16 s -> m_inv_shift_rows (of_bytes_be s) = of_bytes_be (InvShiftRows s).
Proof.
  intros Hs. unfold m_inv_shift_rows, m_select. rewrite part8_of_bytes by exact Hs.
  unfold of_bytes_be. f_equal. explode s Hs. reflexivity.
Qed.

Lemma ShiftRows_good s : good16 s -> good16 (ShiftRows s).
Proof.
  intros Hs. explode s Hs. apply good16_intro; [reflexivity|].
  cbv [ShiftRows build st map seq nth Nat.modulo Nat.divmod Nat.div Nat.add Nat.mul Nat.sub fst snd].
  repeat (apply Forall_cons; [assumption|]). apply Forall_nil.
Qed.

Lemma InvShiftRows_good s : good16 s -> good16 (InvShiftRows s).
Proof.
  intros Hs. explode s Hs. apply good16_intro; [reflexivity|].
  cbv [InvShiftRows build st map seq nth Nat.modulo Nat.divmod Nat.div Nat.add Nat.mul Nat.sub fst snd].
  repeat (apply Forall_cons; [assumption|]). apply Forall_nil.
Qed.

Lemma InvShift_Shift s : good16 s -> InvShiftRows (ShiftRows s) = s.
Proof. intros Hs. explode s Hs. reflexivity. Qed.

(* ---- AddRoundKey ---- *)
Lemma xorl_length a b : length a = length b -> length (xorl a b) = length a.
Proof.
  revert b. induction a; intros [|y b] H; cbn in *; try discriminate; auto.
Qed.

Lemma xorl_byte a b : Forall byte a -> Forall byte b -> Forall byte (xorl a b).
Proof.
  intros Ha. revert b. induction Ha; intros [|y b'] Hb; cbn [xorl]; constructor.
  - apply xor_byte; [assumption|]. apply Forall_inv in Hb. exact Hb.
  - apply IHHa. apply Forall_inv_tail in Hb. exact Hb.
Qed.

Lemma xorl_good s k : good16 s -> good16 k -> good16 (AddRoundKey s k).
Proof.
  intros [Hl Hb] [Hl' Hb']. split.
  - unfold AddRoundKey. rewrite xorl_length; lia.
  - apply xorl_byte; assumption.
Qed.

Lemma xorl_rev a b : length a = length b -> xorl (rev a) (rev b) = rev (xorl a b).
Proof.
  revert b. induction a as [|x a IH]; intros [|y b] H; cbn in *; try discriminate; [reflexivity|].
  injection H as H.
  assert (G : forall l1 l2 u v, length l1 = length l2 -> xorl (l1 ++ [u]) (l2 ++ [v]) = xorl l1 l2 ++ [Z.lxor u v]).
  { induction l1; intros [|? l2] u v E; cbn in *; try discriminate; [reflexivity|].
    f_equal. apply IHl1. lia. }
  rewrite G by (rewrite !rev_length; exact H). rewrite IH by exact H. reflexivity.
Qed.

Lemma add_round_key_spec s k : good16 s -> good16 k ->
  Z.lxor (of_bytes_be s) (of_bytes_be k) = of_bytes_be (AddRoundKey s k).
Proof.
  intros [Hl Hb] [Hl' Hb']. unfold of_bytes_be, AddRoundKey.
  rewrite concat_lxor; [|lia| | |].
  - rewrite xorl_rev by lia. reflexivity.
  - apply Forall_byte_inr, Forall_rev, Hb.
  - apply Forall_byte_inr, Forall_rev, Hb'.
  - rewrite !rev_length. lia.
Qed.

(* ---- MixColumns / InvMixColumns ---- *)
Lemma concat32_8 a0 a1 a2 a3 a4 a5 a6 a7 a8 a9 a10 a11 a12 a13 a14 a15 :
  concat_list 32 [concat_list 8 [a0; a1; a2; a3]; concat_list 8 [a4; a5; a6; a7];
                  concat_list 8 [a8; a9; a10; a11]; concat_list 8 [a12; a13; a14; a15]]
  = concat_list 8 [a0; a1; a2; a3; a4; a5; a6; a7; a8; a9; a10; a11; a12; a13; a14; a15].
Proof. cbn [concat_list]. change (2 ^ 32) with 4294967296. change (2 ^ 8) with 256. ring. Qed.

Lemma word_inr a b c d : byte a -> byte b -> byte c -> byte d -> inr 32 (concat_list 8 [a; b; c; d]).
Proof.
  intros. pose proof (concat_range 8 [a; b; c; d]) as H'. cbn [length] in H'.
  unfold inr. change (8 * Z.of_nat 4) with 32 in H'. apply H'; [lia|].
  repeat (apply Forall_cons; [apply byte_inr; assumption|]). apply Forall_nil.
Qed.

Lemma part32 a0 a1 a2 a3 a4 a5 a6 a7 a8 a9 a10 a11 a12 a13 a14 a15 :
  Forall byte [a0; a1; a2; a3; a4; a5; a6; a7; a8; a9; a10; a11; a12; a13; a14; a15] ->
  partition 32 4 (concat_list 8 [a0; a1; a2; a3; a4; a5; a6; a7; a8; a9; a10; a11; a12; a13; a14; a15])
  = [concat_list 8 [a0; a1; a2; a3]; concat_list 8 [a4; a5; a6; a7];
     concat_list 8 [a8; a9; a10; a11]; concat_list 8 [a12; a13; a14; a15]].
Proof.
  intros H. rewrite <- concat32_8.
  repeat match goal with
         | H : Forall byte (_ :: _) |- _ =>
             let H1 := fresh "B" in apply Forall_cons_iff in H; destruct H as [H1 H]
         end.
  change 4%nat with (length [concat_list 8 [a0; a1; a2; a3]; concat_list 8 [a4; a5; a6; a7];
     concat_list 8 [a8; a9; a10; a11]; concat_list 8 [a12; a13; a14; a15]]).
  apply partition_concat; [lia|]. repeat (apply Forall_cons; [apply word_inr; assumption|]). apply Forall_nil.
Qed.

Lemma part8_4 a b c d : byte a -> byte b -> byte c -> byte d ->
  partition 8 4 (concat_list 8 [a; b; c; d]) = [a; b; c; d].
Proof.
  intros. change 4%nat with (length [a; b; c; d]). apply partition_concat; [lia|].
  repeat (apply Forall_cons; [apply byte_inr; assumption|]). apply Forall_nil.
Qed.

Lemma gm1 c : m_galois_mult c 1 = c.
Proof. reflexivity. Qed.
Lemma gmk k c : In k [2; 3; 9; 11; 13; 14] -> byte c -> m_galois_mult c k = gmul k c.
Proof.
  intros Hk Hc. pose proof (aes_tables_correct_lemma c Hc) as T.
  simpl in Hk. destruct Hk as [<-|[<-|[<-|[<-|[<-|[<-|[]]]]]]]; apply T.
Qed.

Arguments m_galois_mult : simpl never.
Arguments gmul : simpl never.
Arguments concat_list : simpl never.
Arguments partition : simpl never.

Lemma mix_subgroup a b c d : byte a -> byte b -> byte c -> byte d ->
  m_mix_col_subgroup mix_mults (concat_list 8 [a; b; c; d])
  = concat_list 8 [xor4 (gmul 2 a) b c (gmul 3 d); xor4 (gmul 2 b) c d (gmul 3 a);
                   xor4 (gmul 2 c) d a (gmul 3 b); xor4 (gmul 2 d) a b (gmul 3 c)].
Proof.
  intros Ha Hb Hc Hd. unfold m_mix_col_subgroup. rewrite part8_4 by assumption.
  cbn. unfold m_mix_single, mix_mults. cbn. rewrite !gm1.
  rewrite !(gmk 2), !(gmk 3) by (assumption || (simpl; tauto)). reflexivity.
Qed.

Lemma inv_mix_subgroup a b c d : byte a -> byte b -> byte c -> byte d ->
  m_mix_col_subgroup inv_mix_mults (concat_list 8 [a; b; c; d])
  = concat_list 8 [xor4 (gmul 14 a) (gmul 9 b) (gmul 13 c) (gmul 11 d);
                   xor4 (gmul 14 b) (gmul 9 c) (gmul 13 d) (gmul 11 a);
                   xor4 (gmul 14 c) (gmul 9 d) (gmul 13 a) (gmul 11 b);
                   xor4 (gmul 14 d) (gmul 9 a) (gmul 13 b) (gmul 11 c)].
Proof.
  intros Ha Hb Hc Hd. unfold m_mix_col_subgroup. rewrite part8_4 by assumption.
  cbn. unfold m_mix_single, inv_mix_mults. cbn.
  rewrite !(gmk 14), !(gmk 9), !(gmk 13), !(gmk 11) by (assumption || (simpl; tauto)). reflexivity.
Qed.

Ltac bytes_eq := repeat first [ reflexivity | apply (f_equal2 (@cons Z)); [xor_ac|] ].

Lemma m_mix_columns_spec s : good16 s -> m_mix_columns false (of_bytes_be s) = of_bytes_be (MixColumns s).
Proof.
  intros Hs. explode s Hs. unfold m_mix_columns, of_bytes_be. cbn [rev app].
  rewrite part32 by (repeat (apply Forall_cons; [assumption|]); apply Forall_nil).
  cbn [map]. rewrite !mix_subgroup by assumption. rewrite concat32_8.
  cbv [MixColumns build st map seq nth Nat.modulo Nat.divmod Nat.div Nat.add Nat.mul Nat.sub fst snd rev app].
  f_equal. bytes_eq.
Qed.

Lemma m_inv_mix_columns_spec s : good16 s -> m_mix_columns true (of_bytes_be s) = of_bytes_be (InvMixColumns s).
Proof.
  intros Hs. explode s Hs. unfold m_mix_columns, of_bytes_be. cbn [rev app].
  rewrite part32 by (repeat (apply Forall_cons; [assumption|]); apply Forall_nil).
  cbn [map]. rewrite !inv_mix_subgroup by assumption. rewrite concat32_8.
  cbv [InvMixColumns build st map seq nth Nat.modulo Nat.divmod Nat.div Nat.add Nat.mul Nat.sub fst snd rev app].
  f_equal. bytes_eq.
Qed.

Lemma MixColumns_good s : good16 s -> good16 (MixColumns s).
Proof.
  intros Hs. explode s Hs. apply good16_intro; [reflexivity|].
  cbv [MixColumns build st map seq nth Nat.modulo Nat.divmod Nat.div Nat.add Nat.mul Nat.sub fst snd].
  repeat (apply Forall_cons; [apply xor4_byte; try assumption; apply gmul_byte; try assumption; simpl; tauto|]).
  apply Forall_nil.
Qed.

Lemma InvMixColumns_good s : good16 s -> good16 (InvMixColumns s).
Proof.
  intros Hs. explode s Hs. apply good16_intro; [reflexivity|].
  cbv [InvMixColumns build st map seq nth Nat.modulo Nat.divmod Nat.div Nat.add Nat.mul Nat.sub fst snd].
  repeat (apply Forall_cons; [apply xor4_byte; try assumption; apply gmul_byte; try assumption; simpl; tauto|]).
  apply Forall_nil.
Qed.
