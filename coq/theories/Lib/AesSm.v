(* The two multi-cycle state machines of aes.py, for EVERY key, block and prior state:
   invariant "counter = j  =>  text register = FIPS-197 state after round j (and, for encryption,
   key register = round key j)", hence not ready during the ten cycles after a reset, ready with
   Cipher / InvCipher from then on, held while reset stays low; a reset restarts from any state. *)
From Coq Require Import ZArith List Bool Lia ZifyBool.
From PyRTL Require Import Base.PyZ Gen.AesTables Lib.AesSpec Lib.AesModel Lib.AesProofs Lib.AesSteps Lib.AesCipher.
Import ListNotations.
Open Scope Z_scope.

(* FIPS-197 state after round j of Cipher / InvCipher (j = 0: after the initial AddRoundKey) *)
Fixpoint enc_state (w : list word) (pb : list Z) (j : nat) : list Z :=
  match j with
  | O => AddRoundKey pb (round_key w 0)
  | S j' => let t := ShiftRows (SubBytes (enc_state w pb j')) in
            AddRoundKey (if (j' =? 9)%nat then t else MixColumns t) (round_key w (S j'))
  end.
Fixpoint dec_state (w : list word) (cb : list Z) (j : nat) : list Z :=
  match j with
  | O => AddRoundKey cb (round_key w 10)
  | S j' => let t := AddRoundKey (InvSubBytes (InvShiftRows (dec_state w cb j'))) (round_key w (10 - S j')) in
            if (j' =? 9)%nat then t else InvMixColumns t
  end.

Lemma enc_state_10 kb pb : enc_state (KeyExpansion kb) pb 10 = Cipher kb pb.
Proof. unfold Cipher. cbn [enc_state cipher_rounds Nat.eqb]. reflexivity. Qed.
Lemma dec_state_10 kb cb : dec_state (KeyExpansion kb) cb 10 = InvCipher kb cb.
Proof. unfold InvCipher. cbn [dec_state inv_cipher_rounds Nat.eqb Nat.sub]. reflexivity. Qed.

Lemma rks_head n r0 cur : nth 0 (rks n r0 cur) [] = cur.
Proof. destruct n; reflexivity. Qed.

Lemma rks_nth_S n : forall r r0 cur, (r < n)%nat ->
  nth (S r) (rks n r0 cur) [] = next_rk (nth r (rks n r0 cur) []) (S (r0 + r)).
Proof.
  induction n; intros r r0 cur H; [lia|].
  cbn [rks]. destruct r as [|r'].
  - cbn [nth]. rewrite rks_head, Nat.add_0_r. reflexivity.
  - change (nth (S (S r')) (cur :: rks n (S r0) (next_rk cur (S r0))) [])
      with (nth (S r') (rks n (S r0) (next_rk cur (S r0))) []).
    rewrite IHn by lia. cbn [nth]. replace (S r0 + r')%nat with (r0 + S r')%nat by lia. reflexivity.
Qed.

Section WithKey.
  Variable kb : list Z.
  Hypothesis Hk : good16 kb.
  Let w := KeyExpansion kb.

  Lemma rk_good r : (r <= 10)%nat -> good16 (round_key w r).
  Proof. intros Hr. apply (round_key_spec kb r Hk Hr). Qed.

  Lemma rk0 : round_key w 0 = kb.
  Proof.
    destruct (round_key_spec kb 0 Hk ltac:(lia)) as [E _]. unfold w. rewrite E.
    rewrite rks_head. apply (words16_good kb Hk).
  Qed.

  Lemma key_step j : (j < 10)%nat ->
    m_key_expansion (of_bytes_be (round_key w j)) (rcon_rom (Z.of_nat j)) = of_bytes_be (round_key w (S j)).
  Proof.
    intros Hj. destruct (words16_good kb Hk) as [Hg _].
    destruct (round_key_spec kb j Hk ltac:(lia)) as [E _].
    destruct (round_key_spec kb (S j) Hk ltac:(lia)) as [E' _].
    unfold w. rewrite E, E'. rewrite rks_nth_S by lia.
    destruct (rcon_facts j Hj) as [_ [_ ->]].
    rewrite m_key_expansion_spec; [reflexivity| |exact Hj].
    pose proof (rks_good 10 0 (words16 kb) Hg ltac:(lia)) as HF. rewrite Forall_forall in HF.
    apply HF. apply nth_In. rewrite rks_length. lia.
  Qed.

  Lemma key_list_length : length (m_key_list (of_bytes_be kb)) = 11%nat.
  Proof. rewrite m_key_list_spec by exact Hk. rewrite map_length, rks_length. reflexivity. Qed.

  Lemma dec_key_out_spec r : (r <= 10)%nat ->
    dec_key_out (of_bytes_be kb) (Z.of_nat r) = of_bytes_be (round_key w (10 - r)).
  Proof.
    intros Hr. unfold dec_key_out. rewrite Nat2Z.id.
    rewrite rev_nth by (rewrite key_list_length; lia). rewrite key_list_length.
    replace (11 - S r)%nat with (10 - r)%nat by lia.
    apply (round_key_spec kb (10 - r) Hk ltac:(lia)).
  Qed.

  Section WithBlock.
    Variable pb : list Z.
    Hypothesis Hp : good16 pb.

    Lemma enc_state_good j : (j <= 10)%nat -> good16 (enc_state w pb j).
    Proof.
      induction j; intros Hj; cbn [enc_state].
      - apply xorl_good; [exact Hp|apply rk_good; lia].
      - apply xorl_good; [|apply rk_good; lia].
        destruct (j =? 9)%nat.
        + apply ShiftRows_good, SubBytes_good, IHj. lia.
        + apply MixColumns_good, ShiftRows_good, SubBytes_good, IHj. lia.
    Qed.

    Lemma dec_state_good j : (j <= 10)%nat -> good16 (dec_state w pb j).
    Proof.
      induction j; intros Hj; cbn [dec_state].
      - apply xorl_good; [exact Hp|apply rk_good; lia].
      - assert (G : good16 (AddRoundKey (InvSubBytes (InvShiftRows (dec_state w pb j))) (round_key w (10 - S j)))).
        { apply xorl_good; [|apply rk_good; lia].
          apply InvSubBytes_good, InvShiftRows_good, IHj. lia. }
        destruct (j =? 9)%nat; [exact G|apply InvMixColumns_good, G].
    Qed.

    Definition enc_inv (j : nat) : sm_state :=
      (Z.of_nat j, of_bytes_be (enc_state w pb j), of_bytes_be (round_key w j)).
    Definition dec_inv (j : nat) : sm_state :=
      (Z.of_nat j, of_bytes_be (dec_state w pb j), of_bytes_be kb).

    Lemma enc_sm_round j a b : (j < 10)%nat -> enc_sm_step (enc_inv j) (0, a, b) = enc_inv (S j).
    Proof.
      intros Hj. unfold enc_inv, enc_sm_step.
      change (0 =? 1) with false. cbv iota.
      destruct (Z.eqb_spec (Z.of_nat j) 10) as [E|_]; [lia|].
      cbv zeta. rewrite key_step by exact Hj.
      pose proof (enc_state_good j ltac:(lia)) as G.
      rewrite m_sub_bytes_spec by exact G.
      rewrite m_shift_rows_spec by (apply SubBytes_good, G).
      assert (Gs : good16 (ShiftRows (SubBytes (enc_state w pb j)))) by (apply ShiftRows_good, SubBytes_good, G).
      pose proof (rk_good (S j) ltac:(lia)) as Gk.
      rewrite Z.mod_small by lia.
      replace (Z.of_nat j + 1) with (Z.of_nat (S j)) by lia.
      cbn [enc_state].
      destruct (Z.eqb_spec (Z.of_nat j) 9) as [E9|N9].
      - replace (j =? 9)%nat with true by (symmetry; apply Nat.eqb_eq; lia).
        rewrite add_round_key_spec by assumption. reflexivity.
      - replace (j =? 9)%nat with false by (symmetry; apply Nat.eqb_neq; lia).
        rewrite m_mix_columns_spec by exact Gs.
        rewrite add_round_key_spec by (try apply MixColumns_good; assumption). reflexivity.
    Qed.

    Lemma enc_sm_hold a b : enc_sm_step (enc_inv 10) (0, a, b) = enc_inv 10.
    Proof. reflexivity. Qed.

    Lemma dec_sm_round j a b : (j < 10)%nat -> dec_sm_step (dec_inv j) (0, a, b) = dec_inv (S j).
    Proof.
      intros Hj. unfold dec_inv, dec_sm_step.
      change (0 =? 1) with false. cbv iota.
      destruct (Z.eqb_spec (Z.of_nat j) 10) as [E|_]; [lia|].
      cbv zeta. rewrite Z.mod_small by lia.
      replace (Z.of_nat j + 1) with (Z.of_nat (S j)) by lia.
      rewrite dec_key_out_spec by lia.
      pose proof (dec_state_good j ltac:(lia)) as G.
      rewrite m_inv_shift_rows_spec by exact G.
      rewrite m_inv_sub_bytes_spec by (apply InvShiftRows_good, G).
      pose proof (rk_good (10 - S j) ltac:(lia)) as Gk.
      assert (Gs : good16 (InvSubBytes (InvShiftRows (dec_state w pb j)))) by (apply InvSubBytes_good, InvShiftRows_good, G).
      rewrite add_round_key_spec by assumption.
      cbn [dec_state].
      destruct (Z.eqb_spec (Z.of_nat j) 9) as [E9|N9].
      - replace (j =? 9)%nat with true by (symmetry; apply Nat.eqb_eq; lia). reflexivity.
      - replace (j =? 9)%nat with false by (symmetry; apply Nat.eqb_neq; lia).
        rewrite m_inv_mix_columns_spec by (apply xorl_good; assumption). reflexivity.
    Qed.

    Lemma dec_sm_hold a b : dec_sm_step (dec_inv 10) (0, a, b) = dec_inv 10.
    Proof. reflexivity. Qed.

    Definition no_reset (i : sm_input) : Prop := fst (fst i) = 0.

    Lemma enc_sm_run_inv : forall rest j, (j <= 10)%nat -> Forall no_reset rest ->
      fold_left enc_sm_step rest (enc_inv j) = enc_inv (Nat.min (j + length rest) 10).
    Proof.
      induction rest as [|[[r a] b] rest IH]; intros j Hj HF; cbn [fold_left length].
      - rewrite Nat.add_0_r, Nat.min_l by lia. reflexivity.
      - pose proof (Forall_inv HF) as Hr. apply Forall_inv_tail in HF. unfold no_reset in Hr. cbn in Hr. subst r.
        destruct (Nat.eq_dec j 10) as [->|Hn].
        + rewrite enc_sm_hold, IH by (lia || assumption). rewrite !Nat.min_r by lia. reflexivity.
        + rewrite enc_sm_round, IH by (lia || assumption). f_equal. lia.
    Qed.

    Lemma dec_sm_run_inv : forall rest j, (j <= 10)%nat -> Forall no_reset rest ->
      fold_left dec_sm_step rest (dec_inv j) = dec_inv (Nat.min (j + length rest) 10).
    Proof.
      induction rest as [|[[r a] b] rest IH]; intros j Hj HF; cbn [fold_left length].
      - rewrite Nat.add_0_r, Nat.min_l by lia. reflexivity.
      - pose proof (Forall_inv HF) as Hr. apply Forall_inv_tail in HF. unfold no_reset in Hr. cbn in Hr. subst r.
        destruct (Nat.eq_dec j 10) as [->|Hn].
        + rewrite dec_sm_hold, IH by (lia || assumption). rewrite !Nat.min_r by lia. reflexivity.
        + rewrite dec_sm_round, IH by (lia || assumption). f_equal. lia.
    Qed.

    (* a reset pulse from ANY state establishes the invariant at j = 0 *)
    Lemma enc_sm_reset s : enc_sm_step s (1, of_bytes_be pb, of_bytes_be kb) = enc_inv 0.
    Proof.
      destruct s as [[c t] k]. unfold enc_sm_step, enc_inv. change (1 =? 1) with true. cbv iota.
      cbn [enc_state]. rewrite rk0. rewrite add_round_key_spec by assumption. reflexivity.
    Qed.

    Lemma dec_sm_reset s : dec_sm_step s (1, of_bytes_be pb, of_bytes_be kb) = dec_inv 0.
    Proof.
      destruct s as [[c t] k]. unfold dec_sm_step, dec_inv. change (1 =? 1) with true. cbv iota.
      cbn [dec_state]. pose proof (dec_key_out_spec 0 ltac:(lia)) as D. change (Z.of_nat 0) with 0 in D.
      rewrite D. change (10 - 0)%nat with 10%nat.
      rewrite add_round_key_spec by (try apply rk_good; (assumption || lia)). reflexivity.
    Qed.
  End WithBlock.
End WithKey.

Definition sm_no_reset (i : sm_input) : Prop := fst (fst i) = 0.

(* after a reset with (x, key) and n further cycles without reset, the machine is in round min(n,10):
   text = FIPS state after that round (key register = that round key) *)
Theorem enc_sm_invariant key x s rest : 0 <= key < 2 ^ 128 -> 0 <= x < 2 ^ 128 -> Forall sm_no_reset rest ->
  let j := Nat.min (length rest) 10 in
  let w := KeyExpansion (bytes_be key) in
  fold_left enc_sm_step rest (enc_sm_step s (1, x, key))
  = (Z.of_nat j, of_bytes_be (enc_state w (bytes_be x) j), of_bytes_be (round_key w j)).
Proof.
  intros Hk Hx HF j w.
  rewrite <- (of_bytes_be_bytes_be key Hk) at 1. rewrite <- (of_bytes_be_bytes_be x Hx) at 1.
  rewrite (enc_sm_reset _ (bytes_be_good key) _ (bytes_be_good x)).
  rewrite (enc_sm_run_inv _ (bytes_be_good key) _ (bytes_be_good x)) by (lia || exact HF).
  reflexivity.
Qed.

Theorem dec_sm_invariant key x s rest : 0 <= key < 2 ^ 128 -> 0 <= x < 2 ^ 128 -> Forall sm_no_reset rest ->
  let j := Nat.min (length rest) 10 in
  let w := KeyExpansion (bytes_be key) in
  fold_left dec_sm_step rest (dec_sm_step s (1, x, key))
  = (Z.of_nat j, of_bytes_be (dec_state w (bytes_be x) j), key).
Proof.
  intros Hk Hx HF j w.
  rewrite <- (of_bytes_be_bytes_be key Hk) at 1 2. rewrite <- (of_bytes_be_bytes_be x Hx) at 1.
  rewrite (dec_sm_reset _ (bytes_be_good key) _ (bytes_be_good x)).
  rewrite (dec_sm_run_inv _ (bytes_be_good key) _ (bytes_be_good x)) by (lia || exact HF).
  reflexivity.
Qed.

(* ready exactly from the 10th cycle after the reset cycle (i.e. visible in the 11th), with the
   FIPS-197 result, for as long as reset stays low *)
Theorem aes_state_machines_lemma key x s rest :
  0 <= key < 2 ^ 128 -> 0 <= x < 2 ^ 128 -> Forall sm_no_reset rest ->
  let e := sm_out (fold_left enc_sm_step rest (enc_sm_step s (1, x, key))) in
  let d := sm_out (fold_left dec_sm_step rest (dec_sm_step s (1, x, key))) in
  ((length rest < 10)%nat -> fst e = 0 /\ fst d = 0) /\
  ((10 <= length rest)%nat -> e = (1, CipherZ key x) /\ d = (1, InvCipherZ key x)).
Proof.
  intros Hk Hx HF e d. subst e d.
  rewrite (enc_sm_invariant key x s rest Hk Hx HF), (dec_sm_invariant key x s rest Hk Hx HF).
  cbv zeta. unfold sm_out. split; intros Hl.
  - rewrite Nat.min_l by lia. cbn [fst].
    destruct (Z.eqb_spec (Z.of_nat (length rest)) 10); [lia|]. split; reflexivity.
  - rewrite Nat.min_r by lia. change (Z.of_nat 10 =? 10) with true. cbv iota.
    rewrite enc_state_10, dec_state_10. unfold CipherZ, InvCipherZ. split; reflexivity.
Qed.

Theorem aes_state_machines_full key x s (rest : list sm_input) :
  0 <= key < 2 ^ 128 -> 0 <= x < 2 ^ 128 ->
  Forall (fun i => fst (fst i) = 0) rest -> (11 <= length rest)%nat ->
  sm_out (fold_left enc_sm_step rest (enc_sm_step s (1, x, key))) = (1, CipherZ key x) /\
  sm_out (fold_left dec_sm_step rest (dec_sm_step s (1, x, key))) = (1, InvCipherZ key x).
Proof.
  intros Hk Hx HF Hl.
  destruct (aes_state_machines_lemma key x s rest Hk Hx HF) as [_ H]. apply H. lia.
Qed.
