(* Entry points evaluated by py/checks/C13.py through ctx.coq_eval.
   Definitions only.  Operands are passed as Z with explicit widths. *)
From PyRTL Require Export Lib.Mult Lib.SeqMult.

Definition bits (w v : Z) : list bool := zbits (Z.to_nat w) v.

(* adder codes: 0 kogge_stone, 1 ripple_add, 10+la cla_adder(la_unit_len=la) *)
Definition adder_of (k : Z) : adder :=
  if k =? 0 then add_ks else if k =? 1 then add_ripple else add_cla (Z.to_nat (k - 10)).

(* reducer codes: 0 wallace_reducer, 1 dada_reducer *)
Definition reducer_of (k : Z) : reducer := if k =? 0 then wallace_reducer else dada_reducer.

(* result encoding: (length, value); (-1, -1) when the generator raises *)
Definition outv (r : list bool) : Z * Z := (Z.of_nat (length r), bval r).
Definition outo (r : option (list bool)) : Z * Z :=
  match r with Some l => outv l | None => (-1, -1) end.

(* rows of (length, value) -> (lengths of the first row, 1 iff every row has
   those lengths, rows of values): lengths depend on the widths only *)
Definition lens_eqb (a b : list Z) : bool :=
  (length a =? length b)%nat && forallb (fun xy => fst xy =? snd xy) (combine a b).

Definition pack (rows : list (list (Z * Z))) : list Z * Z * list (list Z) :=
  let l0 := match rows with [] => [] | r :: _ => map fst r end in
  (l0, b2z (forallb (fun r => lens_eqb (map fst r) l0) rows), map (map snd) rows).

Definition range2 (w : Z) : list Z := map Z.of_nat (seq 0 (Z.to_nat (2 ^ w))).

Definition all_cases3 (wa wb wc : Z) : list (Z * Z * Z) :=
  flat_map (fun a => flat_map (fun b => map (fun c => (a, b, c)) (range2 wc)) (range2 wb)) (range2 wa).

(* the same with the first operand restricted to [alo, ahi) *)
Definition all_cases3r (alo ahi wb wc : Z) : list (Z * Z * Z) :=
  flat_map (fun a => flat_map (fun b => map (fun c => (a, b, c)) (range2 wc)) (range2 wb))
           (map (fun k => alo + Z.of_nat k) (seq 0 (Z.to_nat (ahi - alo)))).

Definition adder_codes : list Z := [0; 1; 14].
Definition red_add_codes : list (Z * Z) := [(0, 0); (0, 1); (0, 14); (1, 0); (1, 1); (1, 14)].

(* two-operand adders with carry-in: kogge_stone, ripple_add, cla_adder la=1..5 *)
Definition h_add2_row (wa wb : Z) (c : Z * Z * Z) : list (Z * Z) :=
  let '(a, b, cin) := c in
  let A := bits wa a in let B := bits wb b in let ci := negb (cin =? 0) in
  outv (kogge_stone A B ci) :: outv (ripple_add A B ci)
  :: map (fun la => outv (cla_adder la A B ci)) [1; 2; 3; 4; 5]%nat
  ++ [outv (kogge_stone_with ks_init_gen_asis A B ci)].

Definition h_add2 (wa wb : Z) (cases : list (Z * Z * Z)) :=
  pack (map (h_add2_row wa wb) cases).

(* multipliers: tree_multiplier x 6 (reducer, adder), signed_tree_multiplier *)
Definition h_mul2_row (wa wb : Z) (c : Z * Z * Z) : list (Z * Z) :=
  let '(a, b, _) := c in
  let A := bits wa a in let B := bits wb b in
  map (fun ra => outo (tree_multiplier (reducer_of (fst ra)) (adder_of (snd ra)) A B)) red_add_codes
  ++ [outo (signed_tree_multiplier A B); outo (signed_tree_multiplier_with stm_magnitude_prefix A B)].

Definition h_mul2 (wa wb : Z) (cases : list (Z * Z * Z)) :=
  pack (map (h_mul2_row wa wb) cases).

(* three operands: carrysave x 3 adders, fast_group_adder x 6, fused_multiply_adder x 6 *)
Definition h_tri_row (wa wb wc : Z) (c : Z * Z * Z) : list (Z * Z) :=
  let '(a, b, cc) := c in
  let A := bits wa a in let B := bits wb b in let C := bits wc cc in
  map (fun k => outo (carrysave_adder (adder_of k) A B C)) adder_codes
  ++ map (fun ra => outo (fast_group_adder (reducer_of (fst ra)) (adder_of (snd ra)) [A; B; C]))
         red_add_codes
  ++ map (fun ra => outo (fused_multiply_adder (reducer_of (fst ra)) (adder_of (snd ra)) A B C))
         red_add_codes
  ++ map (fun k => outo (carrysave_adder_with true (adder_of k) A B C)) adder_codes.

Definition h_tri (wa wb wc : Z) (cases : list (Z * Z * Z)) :=
  pack (map (h_tri_row wa wb wc) cases).

(* fast_group_adder on any number of operands *)
Definition h_fga (red add : Z) (widths : list Z) (cases : list (list Z)) : list (Z * Z) :=
  map (fun vals => outo (fast_group_adder (reducer_of red) (adder_of add) (map2 bits widths vals)))
      cases.

(* generalized_fma: pair widths [(wa1, wb1); ...], add widths [wc1; ...];
   a case lists the pair operands [(a1, b1); ...] and the addends [c1; ...] *)
Definition h_gfma (red add : Z) (pw : list (Z * Z)) (aw : list Z)
    (cases : list (list (Z * Z) * list Z)) : list (Z * Z) :=
  map (fun c =>
         let pairs := map2 (fun w v => (bits (fst w) (fst v), bits (snd w) (snd v))) pw (fst c) in
         let adds := map2 bits aw (snd c) in
         outo (generalized_fma (reducer_of red) (adder_of add) pairs adds)) cases.

(* reducers called directly on a column array of given heights; bits listed per column *)
Definition h_reduce (red add : Z) (rw : Z) (cases : list (list (list Z))) : list (Z * Z) :=
  map (fun cols => outo (reducer_of red (adder_of add)
                           (map (map (fun v => negb (v =? 0))) cols) (Z.to_nat rw))) cases.

(* sequential multipliers: per cycle (accum, done) *)
Definition h_simple (wa wb : Z) (ins : list (Z * Z * Z)) : list (Z * Z) :=
  m_trace (simple_step wa wb) ins m_init.

Definition h_complex (wa wb shifts : Z) (ins : list (Z * Z * Z)) : list (Z * Z) :=
  m_trace (complex_step wa wb (Z.to_nat shifts)) ins m_init.

(* simple_mult's trivial path (one operand one bit wide): combinational *)
Definition h_trivial (wa wb : Z) (cases : list (Z * Z * Z)) : list (Z * Z) :=
  map (fun c => let '(a, b, _) := c in outo (trivial_mult (bits wa a) (bits wb b))) cases.

(* generate/propagate lists of kogge_stone after every stage *)
Definition h_ks_stages (wa wb a b cin : Z) : list (list Z * list Z) :=
  let '(A, B) := match2 (bits wa a) (bits wb b) in
  let n := length A in
  map (fun gp => (map b2z (fst gp), map b2z (snd gp)))
      (ks_trace n 1 n (ks_init_gen A B (negb (cin =? 0)), map2 xorb A B)).

(* structural tie for kogge_stone: generate/propagate lists at the head of every
   stage, for the pre-fix (v = 0) or current (v <> 0) initial generate bits *)
Definition h_ks_stages_v (v wa wb a b cin : Z) : list (list Z * list Z) :=
  let '(A, B) := match2 (bits wa a) (bits wb b) in
  let n := length A in
  let init := if v =? 0 then ks_init_gen_asis else ks_init_gen_cin in
  map (fun gp => (map b2z (fst gp), map b2z (snd gp)))
      (ks_trace n 1 n (init A B (negb (cin =? 0)), map2 xorb A B)).

Definition h_ks_stages_many (v wa wb : Z) (cases : list (Z * Z * Z))
  : list (list (list Z * list Z)) :=
  map (fun c => let '(a, b, cin) := c in h_ks_stages_v v wa wb a b cin) cases.
