(* Fuel sufficiency: the Wallace loop always terminates within `maxheight cols`
   passes (every pass lowers the maximal column height while it is >= 3). *)
From PyRTL Require Import Lib.Adders Lib.BitListFacts Lib.AddersProofs Lib.ReducerProofs
  Lib.AddersProofs3.
From Coq Require Import ZifyBool.

Lemma wallace_col_len_n n : forall w, (length w <= n)%nat ->
  (3 * length (fst (wallace_col w)) <= length w + 2)%nat /\
  (3 * length (snd (wallace_col w)) <= length w + 1)%nat.
Proof.
  induction n as [|n IH]; intros w Hn.
  - destruct w; cbn [length] in Hn; [|lia]. cbn. lia.
  - destruct w as [|x [|y [|z t]]].
    + cbn. lia.
    + cbn. lia.
    + cbn. lia.
    + cbn [wallace_col]. unfold full_add. cbn [length] in Hn.
      specialize (IH t ltac:(lia)). destruct (wallace_col t) as [st ca].
      cbn [fst snd length] in *. lia.
Qed.

Lemma wallace_col_len w :
  (3 * length (fst (wallace_col w)) <= length w + 2)%nat /\
  (3 * length (snd (wallace_col w)) <= length w + 1)%nat.
Proof. apply (wallace_col_len_n (length w)). lia. Qed.

Lemma wallace_pass_heights H cols : forall cin,
  (3 <= H)%nat -> heights_le H cols -> (3 * length cin <= H + 1)%nat ->
  heights_le (H - 1) (wallace_pass cols cin).
Proof.
  induction cols as [|w rest IH]; intros cin H3 Hh Hc; cbn [wallace_pass].
  - constructor; [lia|constructor].
  - inversion Hh as [|? ? Hw Hrest]; subst.
    pose proof (wallace_col_len w) as [L1 L2]. destruct (wallace_col w) as [st ca].
    cbn [fst snd] in *. constructor.
    + rewrite app_length. lia.
    + apply IH; [assumption|assumption|lia].
Qed.

Lemma heights_le_mono t t' cols : (t <= t')%nat -> heights_le t cols -> heights_le t' cols.
Proof. intros Ht. induction 1; constructor; [lia|assumption]. Qed.

Lemma heights_le_firstn t n : forall l, heights_le t l -> heights_le t (firstn n l).
Proof.
  induction n as [|n IH]; intros l Hl; cbn [firstn]; [constructor|].
  destruct l as [|c r]; [constructor|]. inversion Hl; subst. constructor; [assumption|].
  apply IH. assumption.
Qed.

Lemma heights_le_take_pad t rw l : heights_le t l -> heights_le t (take_pad rw l).
Proof.
  intros Hl. unfold take_pad. apply heights_le_firstn. apply Forall_app. split; [assumption|].
  induction (rw - length l)%nat; cbn [repeat]; constructor; [cbn; lia|assumption].
Qed.

Lemma heights_le_maxheight cols : heights_le (maxheight cols) cols.
Proof.
  induction cols as [|c t IH]; [constructor|]. cbn [maxheight fold_right]. fold (maxheight t).
  constructor; [lia|]. eapply heights_le_mono; [|exact IH]. lia.
Qed.

Lemma wallace_loop_terminates rw fuel : forall cols,
  heights_le fuel cols -> exists c', wallace_loop fuel rw cols = Some c'.
Proof.
  induction fuel as [|f IH]; intros cols Hh; cbn [wallace_loop].
  - rewrite all_le2_of_heights; [eexists; reflexivity|].
    eapply heights_le_mono; [|exact Hh]. lia.
  - destruct (all_le2 cols) eqn:E; [eexists; reflexivity|].
    destruct (Nat.le_gt_cases (S f) 2) as [Hs|Hs].
    + rewrite all_le2_of_heights in E; [discriminate|].
      eapply heights_le_mono; [|exact Hh]. lia.
    + apply IH. apply heights_le_take_pad.
      replace f with (S f - 1)%nat by lia.
      apply wallace_pass_heights; [lia|assumption|cbn [length]; lia].
Qed.

(* the fuel wallace_reducer uses (the maximal column height) is sufficient: the
   reduction loop itself never runs out of fuel *)
Theorem wallace_fuel_sufficient cols rw :
  exists c', wallace_loop (maxheight cols) rw cols = Some c'.
Proof. apply wallace_loop_terminates. apply heights_le_maxheight. Qed.

(* more fuel does not change the result *)
Lemma wallace_loop_fuel_mono rw fuel : forall cols c' k,
  wallace_loop fuel rw cols = Some c' -> wallace_loop (fuel + k) rw cols = Some c'.
Proof.
  induction fuel as [|f IH]; intros cols c' k H; cbn [wallace_loop] in H.
  - destruct (all_le2 cols) eqn:E; [|discriminate].
    destruct k; cbn [Nat.add wallace_loop]; rewrite E; assumption.
  - cbn [Nat.add wallace_loop]. destruct (all_le2 cols) eqn:E; [assumption|].
    apply IH. assumption.
Qed.

(* since fix be08f74 _sparse_adder never raises, so wallace_reducer always returns
   when the column array is not longer than the result width *)
Lemma sparse_split_total_some cols : exists pre z, sparse_split_total cols = Some (pre, z).
Proof.
  induction cols as [|c rest (pre & z & IH)]; cbn [sparse_split_total].
  - eexists; eexists; reflexivity.
  - destruct (length c =? 2)%nat; [eexists; eexists; reflexivity|].
    rewrite IH. eexists; eexists; reflexivity.
Qed.

Theorem wallace_reducer_returns add cols rw :
  (length cols <= rw)%nat -> exists r, wallace_reducer add cols rw = Some r.
Proof.
  intros H. unfold wallace_reducer, wallace_reducer_fuel.
  replace (rw <? length cols)%nat with false by lia.
  destruct (wallace_fuel_sufficient cols rw) as [c' ->].
  unfold sparse_adder, sparse_adder_with.
  destruct (sparse_split_total_some c') as (pre & z & ->).
  destruct z; eexists; reflexivity.
Qed.
