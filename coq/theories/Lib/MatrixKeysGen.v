(* C19 -- the key normalisation of Matrix.__getitem__ / __setitem__ REGENERATED from the source
   (Gen/MatrixKeys.v, symbolic execution of the `if isinstance(key, tuple):` fragment for every
   combination of int / slice keys, and of the single-int-key case) equals the model's key_get / key_set
   on which every getitem/setitem theorem rests. *)
From PyRTL Require Import Base.PyZ Lib.Matrix Gen.MatrixKeys.
From Coq Require Import ZifyBool.

Definition keys_model (kg : Z -> key1 -> option (Z * Z)) (r c : Z) (kr kc : key1) : option (Z * Z * Z * Z) :=
  match kg r kr, kg c kc with
  | Some (a, b), Some (c0, d) => Some (a, b, c0, d)
  | _, _ => None
  end.

Ltac kstep :=
  match goal with
  | |- context [Z.ltb ?a ?b] => destruct (Z.ltb a b) eqn:?
  | |- context [Z.gtb ?a ?b] => destruct (Z.gtb a b) eqn:?
  | |- context [Z.eqb ?a ?b] => destruct (Z.eqb a b) eqn:?
  end.
Ltac kcases :=
  cbv zeta; repeat (cbn [orb andb negb]; cbv iota; try reflexivity; kstep);
  cbn [orb andb negb]; cbv iota; try reflexivity; try lia.

Lemma gen_getitem_II r c x y : getitem_keys_II_gen r c x y = keys_model key_get r c (KInt x) (KInt y).
Proof. unfold getitem_keys_II_gen, keys_model, key_get, neg_norm, chk. kcases. Qed.

Lemma gen_getitem_IS r c x a b st :
  getitem_keys_IS_gen r c x a b st = keys_model key_get r c (KInt x) (KSl a b st).
Proof.
  unfold getitem_keys_IS_gen, keys_model, key_get, sl_bounds, step_accepted, neg_norm, chk.
  destruct a, b, st; kcases.
Qed.

Lemma gen_getitem_SI r c a b st y :
  getitem_keys_SI_gen r c a b st y = keys_model key_get r c (KSl a b st) (KInt y).
Proof.
  unfold getitem_keys_SI_gen, keys_model, key_get, sl_bounds, step_accepted, neg_norm, chk.
  destruct a, b, st; kcases.
Qed.

Lemma gen_getitem_SS r c a b st a' b' st' :
  getitem_keys_SS_gen r c a b st a' b' st' = keys_model key_get r c (KSl a b st) (KSl a' b' st').
Proof.
  unfold getitem_keys_SS_gen, keys_model, key_get, sl_bounds, step_accepted, neg_norm, chk.
  destruct a, b, st, a', b', st'; kcases.
Qed.
