(* C19 -- key normalisation of __getitem__/__setitem__ regenerated from the source = the model's key_get/key_set *)
From PyRTL Require Import Base.PyZ Lib.Matrix Gen.MatrixKeys Lib.MatrixKeysBase Lib.MatrixKeysGet Lib.MatrixKeysSet.
From Coq Require Import ZifyBool.

(* ---- the statements the Props file exports ---- *)
Theorem gen_getitem_keys r c kr kc :
  match kr, kc with
  | KInt x, KInt y => getitem_keys_II_gen r c x y
  | KInt x, KSl a b st => getitem_keys_IS_gen r c x a b st
  | KSl a b st, KInt y => getitem_keys_SI_gen r c a b st y
  | KSl a b st, KSl a' b' st' => getitem_keys_SS_gen r c a b st a' b' st'
  end = keys_model key_get r c kr kc.
Proof.
  destruct kr, kc; [apply gen_getitem_II|apply gen_getitem_IS|apply gen_getitem_SI|apply gen_getitem_SS].
Qed.

Theorem gen_setitem_keys r c kr kc :
  match kr, kc with
  | KInt x, KInt y => setitem_keys_II_gen r c x y
  | KInt x, KSl a b st => setitem_keys_IS_gen r c x a b st
  | KSl a b st, KInt y => setitem_keys_SI_gen r c a b st y
  | KSl a b st, KSl a' b' st' => setitem_keys_SS_gen r c a b st a' b' st'
  end = keys_model key_set r c kr kc.
Proof.
  destruct kr, kc; [apply gen_setitem_II|apply gen_setitem_IS|apply gen_setitem_SI|apply gen_setitem_SS].
Qed.

(* m[k] / m[k] = v with a single int: the code builds slice(start, start+1, None) and recurses with
   self[key, :]; this is the model's (KInt k, full slice) *)
Theorem gen_getitem_intkey r c k :
  match getitem_intkey_gen r c k with
  | Some (s, e) => getitem_keys_SS_gen r c (Some s) (Some e) None None None None
  | None => None
  end = keys_model key_get r c (KInt k) (KSl None None None).
Proof.
  unfold getitem_intkey_gen, getitem_keys_SS_gen, keys_model, key_get, sl_bounds, step_accepted, neg_norm, chk.
  kcases.
Qed.

Theorem gen_setitem_intkey r c k :
  match setitem_intkey_gen r c k with
  | Some (s, e) => setitem_keys_SS_gen r c (Some s) (Some e) None None None None
  | None => None
  end = keys_model key_set r c (KInt k) (KSl None None None).
Proof.
  unfold setitem_intkey_gen, setitem_keys_SS_gen, keys_model, key_set, sl_bounds, neg_norm, chk.
  kcases.
Qed.

(* what __getitem__ does with the resolved bounds: the single-element test, the result's shape and the
   source coordinates are the regenerated expressions *)
Lemma mk_ext r c f g : (forall i j, f i j = g i j) -> mk r c f = mk r c g.
Proof. intros H. unfold mk. apply map_ext. intros i. apply map_ext. intros j. apply H. Qed.

Lemma key_get_nonneg n k s e : key_get n k = Some (s, e) -> 0 <= s.
Proof.
  unfold key_get, sl_bounds, chk, neg_norm. destruct k as [z|a b st].
  - cbv zeta. repeat match goal with |- context [if ?c then _ else _] => destruct c eqn:? end;
      intros H; inversion H; subst; lia.
  - destruct (step_accepted st); [|discriminate].
    repeat match goal with |- context [if ?c then _ else _] => destruct c eqn:? end;
      intros H; inversion H; subst; lia.
Qed.

Theorem gen_getitem_block a kr kc :
  mgetitem a kr kc =
  match keys_model key_get (Z.of_nat (rows_of a)) (Z.of_nat (cols_of a)) kr kc with
  | None => None
  | Some (rs, re, cs, ce) =>
      let nr := getitem_result_rows_gen rs re cs ce in
      let nc := getitem_result_cols_gen rs re cs ce in
      if (nr <=? 0) || (nc <=? 0) then None
      else if getitem_is_scalar_gen rs re cs ce
           then Some (MkMx (bits a) (maxb a) [[el a (Z.to_nat rs) (Z.to_nat cs)]])
           else Some (mnew (Z.to_nat nr) (Z.to_nat nc) (bits a) (maxb a) (fun i j =>
                  el a (Z.to_nat (getitem_src_row_gen rs re cs ce (Z.of_nat i) (Z.of_nat j)))
                       (Z.to_nat (getitem_src_col_gen rs re cs ce (Z.of_nat i) (Z.of_nat j)))))
  end.
Proof.
  unfold mgetitem, keys_model.
  destruct (key_get (Z.of_nat (rows_of a)) kr) as [[rs re]|] eqn:Er; [|reflexivity].
  destruct (key_get (Z.of_nat (cols_of a)) kc) as [[cs ce]|] eqn:Ec; [|reflexivity].
  pose proof (key_get_nonneg _ _ _ _ Er) as Hr. pose proof (key_get_nonneg _ _ _ _ Ec) as Hc.
  cbv zeta. unfold getitem_result_rows_gen, getitem_result_cols_gen, getitem_is_scalar_gen,
    getitem_src_row_gen, getitem_src_col_gen.
  destruct ((re - rs <=? 0) || (ce - cs <=? 0)); [reflexivity|].
  destruct ((re - rs =? 1) && (ce - cs =? 1)); [reflexivity|].
  f_equal. unfold mnew. f_equal. apply mk_ext. intros i j. f_equal. f_equal; lia.
Qed.
