(* simple_mult / complex_mult of pyrtl/rtllib/multipliers.py as register
   machines over Z -- definitions only, no proofs.
   State = the three registers; one `step` = one clock edge.  The outputs a
   simulation sees in a cycle are (accum, done) of the state *before* the edge. *)
From PyRTL Require Export Base.PyZ.

Record mstate := MkM { areg : Z; breg : Z; accum : Z }.

Definition m_init : mstate := MkM 0 0 0.

(* done = (areg == 0) *)
Definition m_done (st : mstate) : bool := areg st =? 0.

(* simple_mult, non-trivial case (len(A) > 1 and len(B) > 1).
   with start: load;  with ~done: shift/add;  otherwise hold.
   breg and accum are (alen+blen)-bit registers: the assignments truncate. *)
Definition simple_step (alen blen : Z) (start : bool) (A B : Z) (st : mstate) : mstate :=
  let w := alen + blen in
  if start then MkM A B 0
  else if negb (m_done st) then
    MkM (Z.shiftr (areg st) 1)
        ((Z.shiftl (breg st) 1) mod 2 ^ w)
        ((accum st + (if Z.testbit (areg st) 0 then breg st else 0)) mod 2 ^ w)
  else st.

(* _one_cycle_mult(areg, breg, rem_bits, sum_sf, curr_bit): the mask
   `a_curr_val` is len(breg) bits wide and is zero-extended by `&`, so each
   shifted copy of breg is cut to len(breg) = w bits; the running sum grows. *)
Fixpoint one_cycle_mult (a b w : Z) (rem : nat) (sum_sf curr_bit : Z) : Z :=
  match rem with
  | O => sum_sf
  | S r =>
      one_cycle_mult a b w r
        (sum_sf + (if Z.testbit a curr_bit then (Z.shiftl b curr_bit) mod 2 ^ w else 0))
        (curr_bit + 1)
  end.

(* complex_mult with `shifts` bits per cycle (1 <= shifts <= min(alen, blen)) *)
Definition complex_step (alen blen : Z) (shifts : nat) (start : bool) (A B : Z) (st : mstate)
  : mstate :=
  let w := alen + blen in
  let s := Z.of_nat shifts in
  if start then MkM A B 0
  else if negb (m_done st) then
    MkM (Z.shiftr (areg st) s)
        ((Z.shiftl (breg st) s) mod 2 ^ w)
        ((accum st + one_cycle_mult (areg st) (breg st) w shifts 0 0) mod 2 ^ w)
  else st.

(* k further cycles with start low (operands are then irrelevant) *)
Fixpoint m_run (step : mstate -> mstate) (k : nat) (st : mstate) : mstate :=
  match k with O => st | S j => m_run step j (step st) end.

(* trace over a stimulus [(start, A, B); ...]: per cycle (accum, done) *)
Fixpoint m_trace (step : bool -> Z -> Z -> mstate -> mstate) (ins : list (Z * Z * Z))
    (st : mstate) : list (Z * Z) :=
  match ins with
  | [] => []
  | (s, A, B) :: rest =>
      (accum st, b2z (m_done st)) :: m_trace step rest (step (negb (s =? 0)) A B st)
  end.
