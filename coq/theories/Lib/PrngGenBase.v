(* Support definitions for the REGENERATED file Gen/PrngFrag.v (py/genfrag_C18prng.py): the meaning
   of the PyRTL / Python constructs the translator emits.  All wire values are non-negative
   integers; 1-bit wires are 0 / 1.  Definitions only. *)
From Coq Require Import ZArith List Bool.
From PyRTL Require Import Lib.PrngSpec.
Import ListNotations.
Open Scope Z_scope.

Definition g_bit (x i : Z) : Z := b2z (Z.testbit x i).          (* wire[i], 0 <= i < len(wire) *)
Definition g_eq (a b : Z) : Z := b2z (a =? b).                   (* a == b  (1-bit result) *)
Definition g_lt (a b : Z) : Z := b2z (a <? b).
Definition g_gt (a b : Z) : Z := b2z (b <? a).
Definition g_le (a b : Z) : Z := b2z (a <=? b).
Definition g_ge (a b : Z) : Z := b2z (b <=? a).
Definition g_not1 (x : Z) : Z := 1 - x.                          (* ~x on a 1-bit wire *)
Definition g_nz (x : Z) : bool := negb (x =? 0).                 (* `with x:` *)
Definition g_ceil_div (a b : Z) : Z := (a + b - 1) / b.          (* int(ceil(a / b)), a, b positive ints *)
Definition g_range (k : Z) : list Z := map Z.of_nat (seq 0 (Z.to_nat k)).   (* range(k) *)
(* pyrtl.concat(x, *bits): x most significant, then the 1-bit wires in list order *)
Definition g_concat_bits (x : Z) (bits : list Z) : Z := fold_left (fun acc b => 2 * acc + b) bits x.
(* `for i in range(n): x = f(x)` *)
Fixpoint g_iter (n : nat) (f : Z -> Z) (x : Z) : Z :=
  match n with O => x | S n' => g_iter n' f (f x) end.
