(* carrysave_adder; Wallace / Dada column reduction preserves the weighted
   column sum; _sparse_adder; the reducers return the column sum mod 2^rw. *)
From PyRTL Require Import Lib.Adders Lib.BitListFacts Lib.AddersProofs.
From Coq Require Import ZifyBool.

(* -------------------------------------------------------------- carrysave *)

Lemma map3_cs a : forall b c, length a = length b -> length a = length c ->
  bval (map3 cs_sum a b c) + 2 * bval (map3 cs_carry a b c) = bval a + bval b + bval c /\
  length (map3 cs_sum a b c) = length a.
Proof.
  induction a as [|x ta IH]; intros [|y tb] [|z tc] Hb Hc; cbn [length] in *; try lia.
  - cbn. split; lia.
  - cbn [map3 bval length]. destruct (IH tb tc ltac:(lia) ltac:(lia)) as [IH1 IH2].
    split; [|lia].
    assert (Hbit : b2z (cs_sum x y z) + 2 * b2z (cs_carry x y z) = b2z x + b2z y + b2z z)
      by (destruct x, y, z; reflexivity).
    lia.
Qed.

Theorem carrysave_exact_gen raises1 add a b c r :
  adder_ok add ->
  carrysave_adder_with raises1 add a b c = Some r ->
  bval r = bval a + bval b + bval c.
Proof.
  intros Hadd. unfold carrysave_adder_with.
  set (n := Nat.max (length a) (Nat.max (length b) (length c))).
  destruct ((n <=? 1)%nat && raises1); [discriminate|].
  destruct (map3_cs (zext n a) (zext n b) (zext n c)) as [Hv _].
  { rewrite !length_zext. lia. }
  { rewrite !length_zext. lia. }
  rewrite !bval_zext in Hv.
  destruct (map3 cs_sum (zext n a) (zext n b) (zext n c)) as [|p0 pt]; [discriminate|].
  intros E. injection E as <-. cbn [bval] in *. rewrite Hadd. lia.
Qed.

Theorem carrysave_defined raises1 add a b c :
  (2 <= Nat.max (length a) (Nat.max (length b) (length c)))%nat ->
  exists r, carrysave_adder_with raises1 add a b c = Some r.
Proof.
  intros H. unfold carrysave_adder_with.
  set (n := Nat.max (length a) (Nat.max (length b) (length c))) in *.
  replace (n <=? 1)%nat with false by lia. cbn [andb].
  destruct (map3_cs (zext n a) (zext n b) (zext n c)) as [_ Hl].
  { rewrite !length_zext. lia. }
  { rewrite !length_zext. lia. }
  rewrite length_zext in Hl.
  destruct (map3 cs_sum (zext n a) (zext n b) (zext n c)) as [|p0 pt]; cbn [length] in Hl; [lia|].
  eexists. reflexivity.
Qed.

(* carrysave_adder as the code is (after fix 36743df): total and exact *)
Theorem carrysave_exact add a b c :
  adder_ok add ->
  exists r, carrysave_adder add a b c = Some r /\ bval r = bval a + bval b + bval c.
Proof.
  intros Hadd. unfold carrysave_adder.
  set (n := Nat.max (length a) (Nat.max (length b) (length c))).
  destruct (map3_cs (zext n a) (zext n b) (zext n c)) as [Hv _].
  { rewrite !length_zext. lia. }
  { rewrite !length_zext. lia. }
  rewrite !bval_zext in Hv.
  eexists. split; [reflexivity|]. rewrite Hadd. cbn [bval b2z]. lia.
Qed.

(* before the fix it raised on three one-bit operands (F12) *)
Theorem carrysave_prefix_width1_refuted :
  exists a b c, length a = 1%nat /\ length b = 1%nat /\ length c = 1%nat /\
                carrysave_adder_with true add_ripple a b c = None.
Proof. exists [true], [true], [true]. vm_compute. repeat split; reflexivity. Qed.

(* ------------------------------------------------------ congruence mod 2^rw *)

Definition eqm (rw : nat) (x y : Z) : Prop := x mod 2 ^ Z.of_nat rw = y mod 2 ^ Z.of_nat rw.

Lemma eqm_refl rw x : eqm rw x x. Proof. reflexivity. Qed.
Lemma eqm_trans rw x y z : eqm rw x y -> eqm rw y z -> eqm rw x z.
Proof. unfold eqm. congruence. Qed.

Lemma eqm_add_mul rw x k : eqm rw (x + 2 ^ Z.of_nat rw * k) x.
Proof.
  unfold eqm. rewrite Z.mul_comm. apply Z.mod_add. apply Z.pow_nonzero; lia.
Qed.

Lemma colsum_firstn rw l : eqm rw (colsum (firstn rw l)) (colsum l).
Proof.
  destruct (Nat.le_gt_cases rw (length l)) as [H|H].
  - rewrite <- (firstn_skipn rw l) at 2. rewrite colsum_app.
    rewrite firstn_length_le by assumption. unfold eqm. symmetry. apply eqm_add_mul.
  - rewrite firstn_all2 by lia. apply eqm_refl.
Qed.

Lemma take_pad_sum rw l : eqm rw (colsum (take_pad rw l)) (colsum l).
Proof.
  unfold take_pad. eapply eqm_trans; [apply colsum_firstn|].
  rewrite colsum_app, colsum_repeat_nil. replace (colsum l + _ * 0) with (colsum l) by lia.
  apply eqm_refl.
Qed.

Lemma take_pad_len rw l : length (take_pad rw l) = rw.
Proof.
  unfold take_pad. rewrite firstn_length, app_length, repeat_length. lia.
Qed.

(* ----------------------------------------------------------------- Wallace *)

Lemma wallace_col_spec_n n : forall w, (length w <= n)%nat ->
  popc (fst (wallace_col w)) + 2 * popc (snd (wallace_col w)) = popc w.
Proof.
  induction n as [|n IH]; intros w Hn.
  - destruct w; cbn [length] in Hn; [|lia]. reflexivity.
  - destruct w as [|x [|y [|z t]]].
    + reflexivity.
    + cbn [wallace_col fst snd popc]. lia.
    + cbn [wallace_col half_add fst snd popc]. destruct x, y; reflexivity.
    + cbn [wallace_col]. unfold full_add.
      specialize (IH t). cbn [length] in Hn. specialize (IH ltac:(lia)).
      destruct (wallace_col t) as [st ca]. cbn [fst snd popc] in *.
      destruct x, y, z; cbn [xorb andb orb b2z]; lia.
Qed.

Lemma wallace_col_spec w :
  popc (fst (wallace_col w)) + 2 * popc (snd (wallace_col w)) = popc w.
Proof. apply (wallace_col_spec_n (length w)). lia. Qed.

(* a Wallace pass preserves the weighted column sum *)
Lemma wallace_pass_sum cols : forall cin,
  colsum (wallace_pass cols cin) = popc cin + colsum cols.
Proof.
  induction cols as [|w rest IH]; intros cin; cbn [wallace_pass colsum].
  - lia.
  - pose proof (wallace_col_spec w) as Hw. destruct (wallace_col w) as [st ca].
    cbn [fst snd] in Hw. cbn [colsum]. rewrite IH, popc_app. lia.
Qed.

Lemma wallace_loop_spec rw fuel : forall cols c',
  wallace_loop fuel rw cols = Some c' ->
  eqm rw (colsum c') (colsum cols) /\ all_le2 c' = true.
Proof.
  induction fuel as [|f IH]; intros cols c' H; cbn [wallace_loop] in H.
  - destruct (all_le2 cols) eqn:E; [|discriminate]. injection H as <-. split; [apply eqm_refl|exact E].
  - destruct (all_le2 cols) eqn:E.
    + injection H as <-. split; [apply eqm_refl|exact E].
    + apply IH in H. destruct H as [H1 H2]. split; [|exact H2].
      eapply eqm_trans; [exact H1|]. eapply eqm_trans; [apply take_pad_sum|].
      rewrite wallace_pass_sum. cbn [popc]. apply eqm_refl.
Qed.

(* ------------------------------------------------------------ _sparse_adder *)

Lemma popc_le2 c : (length c <= 2)%nat -> popc c = b2z (nth 0 c false) + b2z (nth 1 c false).
Proof.
  destruct c as [|x [|y [|z t]]]; cbn [length]; intros H; try lia; cbn [popc nth b2z]; lia.
Qed.

Lemma zip_sum z : all_le2 z = true ->
  colsum z = bval (map (fun c => nth 0 c false) z) + bval (map (fun c => nth 1 c false) z).
Proof.
  induction z as [|c t IH]; intros H; cbn [all_le2 forallb] in H.
  - reflexivity.
  - apply andb_prop in H. destruct H as [Hc Ht]. cbn [map colsum bval].
    rewrite IH by exact Ht. rewrite popc_le2 by lia. lia.
Qed.

Lemma sparse_split_spec cols : forall pre z,
  all_le2 cols = true -> sparse_split cols = Some (pre, z) ->
  colsum cols = bval pre + 2 ^ Z.of_nat (length pre) * colsum z /\ all_le2 z = true.
Proof.
  induction cols as [|c rest IH]; intros pre z Hall H; cbn [sparse_split] in H; [discriminate|].
  pose proof Hall as Hall'. cbn [all_le2 forallb] in Hall'. apply andb_prop in Hall'.
  destruct Hall' as [Hc Hr].
  destruct (length c =? 2)%nat eqn:E.
  - injection H as <- <-. cbn [bval length]. change (2 ^ Z.of_nat 0) with 1. split; [lia|exact Hall].
  - destruct c as [|x c']; [discriminate|].
    destruct (sparse_split rest) as [[pre' z']|] eqn:Es; [|discriminate].
    injection H as <- <-.
    destruct (IH pre' z' Hr eq_refl) as [IH1 IH2]. split; [|exact IH2].
    assert (c' = []) by (destruct c'; cbn [length] in *; [reflexivity|lia]). subst c'.
    cbn [colsum popc bval length]. rewrite IH1, Nat2Z.inj_succ, Z.pow_succ_r by lia. ring.
Qed.

Definition split_ok (split : list (list bool) -> option (list bool * list (list bool))) : Prop :=
  forall cols pre z, all_le2 cols = true -> split cols = Some (pre, z) ->
    colsum cols = bval pre + 2 ^ Z.of_nat (length pre) * colsum z /\ all_le2 z = true.

Lemma sparse_split_ok : split_ok sparse_split.
Proof. intros cols pre z. apply sparse_split_spec. Qed.

Lemma sparse_split_total_ok : split_ok sparse_split_total.
Proof.
  intros cols. induction cols as [|c rest IH]; intros pre z Hall H; cbn [sparse_split_total] in H.
  - injection H as <- <-. cbn. split; reflexivity.
  - pose proof Hall as Hall'. cbn [all_le2 forallb] in Hall'. apply andb_prop in Hall'.
    destruct Hall' as [Hc Hr].
    destruct (length c =? 2)%nat eqn:E.
    + injection H as <- <-. cbn [bval length]. change (2 ^ Z.of_nat 0) with 1. split; [lia|exact Hall].
    + destruct (sparse_split_total rest) as [[pre' z']|] eqn:Es; [|discriminate].
      injection H as <- <-.
      destruct (IH pre' z' Hr eq_refl) as [IH1 IH2]. split; [|exact IH2].
      assert (Hp : popc c = b2z (nth 0 c false)).
      { destruct c as [|x [|y [|w t]]]; cbn [length] in *; try lia; cbn [popc nth b2z]; lia. }
      cbn [colsum bval length]. rewrite Hp, IH1, Nat2Z.inj_succ, Z.pow_succ_r by lia. ring.
Qed.

Lemma sparse_adder_with_spec split add cols r :
  split_ok split -> adder_ok add -> all_le2 cols = true ->
  sparse_adder_with split add cols = Some r -> bval r = colsum cols.
Proof.
  intros Hsplit Hadd Hall H. unfold sparse_adder_with in H.
  destruct (split cols) as [[pre z]|] eqn:Es; [|discriminate].
  destruct (Hsplit cols pre z Hall Es) as [H1 H2].
  destruct z as [|c0 z0].
  - injection H as <-. rewrite H1. cbn [colsum]. lia.
  - injection H as <-. rewrite bval_app, Hadd, H1, (zip_sum _ H2). reflexivity.
Qed.

Lemma sparse_adder_spec add cols r :
  adder_ok add -> all_le2 cols = true -> sparse_adder add cols = Some r -> bval r = colsum cols.
Proof. unfold sparse_adder. apply sparse_adder_with_spec. exact sparse_split_total_ok. Qed.

Lemma colsum_mod_of_firstn rw r x : eqm rw (bval r) x -> bval (firstn rw r) = x mod 2 ^ Z.of_nat rw.
Proof. intros H. rewrite bval_firstn. exact H. Qed.

(* a reducer returns the weighted column sum mod 2^rw whenever it returns *)
Definition reducer_ok (red : reducer) : Prop :=
  forall add cols rw r, adder_ok add -> red add cols rw = Some r ->
    bval r = colsum cols mod 2 ^ Z.of_nat rw.

Theorem wallace_fuel_exact fuel : reducer_ok (wallace_reducer_fuel fuel).
Proof.
  intros add cols rw r Hadd H. unfold wallace_reducer_fuel in H.
  destruct (rw <? length cols)%nat; [discriminate|].
  destruct (wallace_loop fuel rw cols) as [c'|] eqn:El; [|discriminate].
  destruct (sparse_adder add c') as [r0|] eqn:Es; [|discriminate].
  injection H as <-. destruct (wallace_loop_spec rw fuel cols c' El) as [H1 H2].
  apply colsum_mod_of_firstn. rewrite (sparse_adder_spec add c' r0 Hadd H2 Es). exact H1.
Qed.

Theorem wallace_exact : reducer_ok wallace_reducer.
Proof. intros add cols rw r. unfold wallace_reducer. apply wallace_fuel_exact. Qed.

(* -------------------------------------------------------------------- Dada *)

Lemma dada_col_spec fuel target : forall w def carry d ca,
  dada_col fuel target w def carry = Some (d, ca) ->
  popc d + 2 * popc ca = popc w + popc def + 2 * popc carry /\ (length d <= target)%nat.
Proof.
  induction fuel as [|f IH]; intros w def carry d ca H.
  - cbn [dada_col] in H. destruct (length w + length def <=? target)%nat eqn:E; [|discriminate].
    injection H as <- <-. rewrite popc_app, app_length. split; lia.
  - cbn [dada_col] in H. destruct (length w + length def <=? target)%nat eqn:E.
    + injection H as <- <-. rewrite popc_app, app_length. split; lia.
    + destruct (2 <=? length w + length def - target)%nat.
      * destruct w as [|x [|y [|z t]]]; try discriminate.
        unfold full_add in H. apply IH in H. destruct H as [H1 H2]. split; [|exact H2].
        rewrite !popc_app in H1. cbn [popc] in *.
        destruct x, y, z; cbn [xorb andb orb b2z] in *; lia.
      * destruct w as [|x [|y t]]; try discriminate.
        unfold half_add in H. apply IH in H. destruct H as [H1 H2]. split; [|exact H2].
        rewrite !popc_app in H1. cbn [popc] in *.
        destruct x, y; cbn [xorb andb b2z] in *; lia.
Qed.

(* a Dada pass preserves the weighted column sum *)
Lemma dada_pass_sum target cols : forall cin r,
  dada_pass target cols cin = Some r -> colsum r = popc cin + colsum cols.
Proof.
  induction cols as [|w rest IH]; intros cin r H; cbn [dada_pass] in H.
  - injection H as <-. cbn [colsum]. lia.
  - destruct (dada_col (S (length w)) target w cin []) as [[d ca]|] eqn:Ec; [|discriminate].
    destruct (dada_pass target rest ca) as [r'|] eqn:Ep; [|discriminate].
    injection H as <-. cbn [colsum]. rewrite (IH ca r' Ep).
    apply dada_col_spec in Ec. destruct Ec as [Ec _]. cbn [popc] in Ec. lia.
Qed.

Lemma dada_loop_sum rw targets : forall cols c',
  dada_loop targets rw cols = Some c' -> eqm rw (colsum c') (colsum cols).
Proof.
  induction targets as [|t ts IH]; intros cols c' H; cbn [dada_loop] in H.
  - injection H as <-. apply eqm_refl.
  - destruct (dada_pass t cols []) as [c1|] eqn:Ep; [|discriminate].
    apply IH in H. eapply eqm_trans; [exact H|]. eapply eqm_trans; [apply take_pad_sum|].
    rewrite (dada_pass_sum t cols [] c1 Ep). cbn [popc]. apply eqm_refl.
Qed.

(* the columns the Dada schedule hands to _sparse_adder *)
Definition dada_reduced (cols : list (list bool)) (rw : nat) : option (list (list bool)) :=
  dada_loop (dada_targets (maxheight cols)) rw cols.

Theorem dada_exact_when_reduced add cols rw r c' :
  adder_ok add ->
  dada_reducer add cols rw = Some r ->
  dada_reduced cols rw = Some c' -> all_le2 c' = true ->
  bval r = colsum cols mod 2 ^ Z.of_nat rw.
Proof.
  intros Hadd H Hred Hall. unfold dada_reducer in H. unfold dada_reduced in Hred.
  destruct (rw <? length cols)%nat; [discriminate|].
  rewrite Hred in H.
  destruct (sparse_adder add c') as [r0|] eqn:Es; [|discriminate].
  injection H as <-. apply colsum_mod_of_firstn.
  rewrite (sparse_adder_spec add c' r0 Hadd Hall Es). apply (dada_loop_sum rw _ _ _ Hred).
Qed.
