(* Exactness of ripple_add, kogge_stone, cla_adder, carrysave_adder. *)
From PyRTL Require Import Lib.Adders Lib.BitListFacts.
From Coq Require Import ZifyBool.

(* an adder (two-argument call) is exact *)
Definition adder_ok (add : adder) : Prop := forall a b, bval (add a b) = bval a + bval b.

(* ------------------------------------------------------------------ ripple *)

Lemma ripple_half_add_val a c : bval (ripple_half_add a c) = bval a + b2z c.
Proof.
  revert c. induction a as [|x t IH]; intros c; cbn [ripple_half_add half_add bval].
  - lia.
  - rewrite IH. destruct x, c; cbn [xorb andb b2z]; lia.
Qed.

Lemma ripple_half_add_len a c : length (ripple_half_add a c) = S (length a).
Proof.
  revert c. induction a as [|x t IH]; intros c; cbn [ripple_half_add half_add length]; auto.
Qed.

Lemma ripple_aux_val a : forall b c, bval (ripple_aux a b c) = bval a + bval b + b2z c.
Proof.
  induction a as [|x ta IH]; intros [|y tb] c; cbn [ripple_aux].
  - cbn [bval]. lia.
  - rewrite ripple_half_add_val. cbn [bval]. lia.
  - rewrite ripple_half_add_val. cbn [bval]. lia.
  - unfold full_add. cbn [bval]. rewrite IH.
    destruct x, y, c; cbn [xorb andb orb b2z]; lia.
Qed.

Lemma ripple_aux_len a : forall b c,
  length (ripple_aux a b c) = S (Nat.max (length a) (length b)).
Proof.
  induction a as [|x ta IH]; intros [|y tb] c; cbn [ripple_aux].
  - reflexivity.
  - rewrite ripple_half_add_len. reflexivity.
  - rewrite ripple_half_add_len. cbn [length]. lia.
  - unfold full_add. cbn [length]. rewrite IH. lia.
Qed.

Theorem ripple_add_exact a b c :
  bval (ripple_add a b c) = bval a + bval b + b2z c /\
  length (ripple_add a b c) = S (Nat.max (length a) (length b)).
Proof.
  unfold ripple_add. destruct (length a <? length b)%nat;
    rewrite ripple_aux_val, ripple_aux_len; split; lia.
Qed.

Lemma add_ripple_ok : adder_ok add_ripple.
Proof. intros a b. unfold add_ripple. destruct (ripple_add_exact a b false) as [H _]. rewrite H. cbn. lia. Qed.

(* -------------------------------------------------------------- kogge_stone *)

(* carry-out list of the textbook recurrence c_{i+1} = g_i | p_i & c_i *)
Fixpoint carries (a b : list bool) (c : bool) : list bool :=
  match a, b with
  | x :: ta, y :: tb => let c' := (x && y) || (xorb x y && c) in c' :: carries ta tb c'
  | _, _ => []
  end.

Lemma carries_len a : forall b c, length a = length b -> length (carries a b c) = length a.
Proof.
  induction a as [|x ta IH]; intros [|y tb] c H; cbn [carries length] in *; try lia.
  rewrite IH by lia. reflexivity.
Qed.

Lemma add_via_carries a : forall b c, length a = length b ->
  bval (xor_ext (c :: carries a b c) (map2 xorb a b)) = bval a + bval b + b2z c.
Proof.
  induction a as [|x ta IH]; intros [|y tb] c H; cbn [length] in H; try lia.
  - cbn. lia.
  - cbn [carries map2 xor_ext bval].
    specialize (IH tb ((x && y) || (xorb x y && c)) ltac:(lia)).
    cbn [xor_ext] in IH. cbn [bval] in IH.
    destruct (carries ta tb ((x && y) || (xorb x y && c))) eqn:E;
      destruct (map2 xorb ta tb) eqn:E2; cbn [xor_ext bval] in *;
      destruct x, y, c; cbn [xorb andb orb b2z] in *; lia.
Qed.

Lemma carries_nth0 a b c x y ta tb : a = x :: ta -> b = y :: tb ->
  nth 0 (carries a b c) false = (x && y) || (xorb x y && c).
Proof. intros -> ->. reflexivity. Qed.

Lemma carries_nthS a : forall b c i, length a = length b -> (S i < length a)%nat ->
  nth (S i) (carries a b c) false =
  nth (S i) (map2 andb a b) false
  || (nth (S i) (map2 xorb a b) false && nth i (carries a b c) false).
Proof.
  induction a as [|x ta IH]; intros [|y tb] c i H Hi; cbn [length] in *; try lia.
  cbn [carries map2 nth].
  destruct i as [|i].
  - destruct ta as [|x1 ta1]; destruct tb as [|y1 tb1]; cbn [length] in *; try lia.
    reflexivity.
  - rewrite IH by lia. reflexivity.
Qed.

Section Prefix.
  Variable g0 p0 : nat -> bool.

  (* generate / propagate of the span of `len` bits ending at bit i (clipped at 0) *)
  Fixpoint Gsp (i len : nat) {struct len} : bool :=
    match len with
    | O => false
    | S l => match i with O => g0 O | S i' => g0 i || (p0 i && Gsp i' l) end
    end.

  Fixpoint Psp (i len : nat) : bool :=
    match len with O => true | S l => p0 i && Psp (Nat.pred i) l end.

  Lemma Gsp_clip i : forall len, (i < len)%nat -> Gsp i len = Gsp i (S i).
  Proof.
    induction i as [|i IH]; intros [|l] H; try lia; cbn [Gsp]; [reflexivity|].
    rewrite (IH l) by lia. reflexivity.
  Qed.

  Lemma Gsp_split d1 : forall i d2, (d1 <= i)%nat ->
    Gsp i (d1 + d2) = Gsp i d1 || (Psp i d1 && Gsp (i - d1) d2).
  Proof.
    induction d1 as [|d IH]; intros i d2 H.
    - cbn [Nat.add Gsp Psp]. rewrite Nat.sub_0_r. reflexivity.
    - destruct i as [|i]; [lia|].
      cbn [Nat.add Gsp Psp Nat.pred Nat.sub]. rewrite IH by lia.
      destruct (g0 (S i)), (p0 (S i)), (Gsp i d), (Psp i d), (Gsp (i - d) d2); reflexivity.
  Qed.

  Lemma Psp_split d1 : forall i d2, Psp i (d1 + d2) = Psp i d1 && Psp (i - d1) d2.
  Proof.
    induction d1 as [|d IH]; intros i d2.
    - cbn [Nat.add Psp]. rewrite Nat.sub_0_r. reflexivity.
    - cbn [Nat.add Psp]. rewrite IH.
      replace (Nat.pred i - d)%nat with (i - S d)%nat by lia.
      rewrite andb_assoc. reflexivity.
  Qed.

  Lemma Gsp_SS i l : Gsp (S i) (S l) = g0 (S i) || (p0 (S i) && Gsp i l).
  Proof. reflexivity. Qed.

  Lemma Gsp_0S l : Gsp 0 (S l) = g0 O.
  Proof. reflexivity. Qed.

  Lemma Gsp_1 i : Gsp i 1 = g0 i.
  Proof. destruct i; cbn [Gsp]; [reflexivity|]. rewrite andb_false_r, orb_false_r. reflexivity. Qed.

  Lemma Psp_1 i : Psp i 1 = p0 i.
  Proof. cbn [Psp]. apply andb_true_r. Qed.
End Prefix.

Lemma fold_left_rev {A B} (f : A -> B -> A) l : forall a,
  fold_left f (rev l) a = fold_right (fun x acc => f acc x) a l.
Proof.
  induction l as [|x t IH]; intros a; cbn [rev fold_right]; [reflexivity|].
  rewrite fold_left_app. cbn [fold_left]. rewrite IH. reflexivity.
Qed.

(* one stage of the in-place loop = simultaneous update from the old lists *)
Lemma ks_fold_spec d n k : forall s g p,
  length g = n -> length p = n -> (s + k <= n)%nat ->
  let '(g', p') := fold_right (fun i acc => ks_update d acc i) (g, p) (seq s k) in
  length g' = n /\ length p' = n /\
  (forall i, nth i g' false =
     if (s <=? i)%nat && (i <? s + k)%nat
     then nth i g false || (nth i p false && nth (i - d) g false) else nth i g false) /\
  (forall i, nth i p' false =
     if (s <=? i)%nat && (i <? s + k)%nat && (2 * d <=? i)%nat
     then nth i p false && nth (i - d) p false else nth i p false).
Proof.
  induction k as [|k IH]; intros s g p Hg Hp Hs.
  - cbn [seq fold_right]. repeat split; auto; intros i.
    + destruct (s <=? i)%nat eqn:E1; destruct (i <? s + 0)%nat eqn:E2; cbn [andb]; try reflexivity. lia.
    + destruct (s <=? i)%nat eqn:E1; destruct (i <? s + 0)%nat eqn:E2; cbn [andb]; try reflexivity. lia.
  - cbn [seq fold_right].
    specialize (IH (S s) g p Hg Hp ltac:(lia)).
    destruct (fold_right (fun i acc => ks_update d acc i) (g, p) (seq (S s) k)) as [g1 p1].
    destruct IH as (Hg1 & Hp1 & Hgn & Hpn).
    unfold ks_update.
    assert (Es : forall j, (j <= s)%nat -> nth j g1 false = nth j g false).
    { intros j Hj. rewrite Hgn. destruct (S s <=? j)%nat eqn:E; [lia|reflexivity]. }
    assert (Ep : forall j, (j <= s)%nat -> nth j p1 false = nth j p false).
    { intros j Hj. rewrite Hpn. destruct (S s <=? j)%nat eqn:E; [lia|reflexivity]. }
    rewrite (Es s), (Ep s), (Es (s - d)%nat), (Ep (s - d)%nat) by lia.
    split; [rewrite length_set_nth; exact Hg1|].
    split; [destruct (2 * d <=? s)%nat; [rewrite length_set_nth|]; exact Hp1|].
    split; intros i.
    + rewrite nth_set_nth, Hg1, Hgn.
      destruct (Nat.eqb_spec i s) as [->|Hne].
      * replace (s <? n)%nat with true by lia.
        replace (s <=? s)%nat with true by lia.
        replace (s <? s + S k)%nat with true by lia. reflexivity.
      * cbn [andb].
        destruct (S s <=? i)%nat eqn:E1; destruct (s <=? i)%nat eqn:E2; try lia;
        destruct (i <? S s + k)%nat eqn:E3; destruct (i <? s + S k)%nat eqn:E4; try lia; reflexivity.
    + destruct (2 * d <=? s)%nat eqn:E2d.
      * rewrite nth_set_nth, Hp1, Hpn.
        destruct (Nat.eqb_spec i s) as [->|Hne].
        -- replace (s <? n)%nat with true by lia.
           replace (s <=? s)%nat with true by lia.
           replace (s <? s + S k)%nat with true by lia. rewrite E2d. reflexivity.
        -- cbn [andb].
           destruct (S s <=? i)%nat eqn:E1; destruct (s <=? i)%nat eqn:E2; try lia;
           destruct (i <? S s + k)%nat eqn:E3; destruct (i <? s + S k)%nat eqn:E4; try lia; reflexivity.
      * rewrite Hpn.
        destruct (Nat.eqb_spec i s) as [->|Hne].
        -- replace (S s <=? s)%nat with false by lia. rewrite E2d. cbn [andb].
           rewrite andb_false_r. reflexivity.
        -- destruct (S s <=? i)%nat eqn:E1; destruct (s <=? i)%nat eqn:E2; try lia;
           destruct (i <? S s + k)%nat eqn:E3; destruct (i <? s + S k)%nat eqn:E4; try lia; reflexivity.
Qed.

Section KSInv.
  Variable ginit pinit : list bool.
  Variable n : nat.
  Let g0 := fun i => nth i ginit false.
  Let p0 := fun i => nth i pinit false.

  Definition ks_inv (d : nat) (gp : list bool * list bool) : Prop :=
    length (fst gp) = n /\ length (snd gp) = n /\
    (forall i, (i < n)%nat -> nth i (fst gp) false = Gsp g0 p0 i d) /\
    (forall i, (d <= i < n)%nat -> nth i (snd gp) false = Psp p0 i d).

  Lemma ks_inv_init : length ginit = n -> length pinit = n -> ks_inv 1 (ginit, pinit).
  Proof.
    intros Hg Hp. unfold ks_inv. cbn [fst snd]. repeat split; auto; intros i Hi.
    - rewrite Gsp_1. reflexivity.
    - rewrite Psp_1. reflexivity.
  Qed.

  Lemma ks_inv_stage d gp : (1 <= d)%nat -> ks_inv d gp -> ks_inv (2 * d) (ks_stage d n gp).
  Proof.
    intros Hd (Hg & Hp & HG & HP). destruct gp as [g p]. cbn [fst snd] in *.
    unfold ks_stage. rewrite fold_left_rev.
    destruct (Nat.le_gt_cases d n) as [Hdn|Hdn].
    - pose proof (ks_fold_spec d n (n - d) d g p Hg Hp ltac:(lia)) as H.
      destruct (fold_right (fun i acc => ks_update d acc i) (g, p) (seq d (n - d))) as [g' p'].
      destruct H as (Hg' & Hp' & Hgn & Hpn).
      unfold ks_inv. cbn [fst snd]. repeat split; auto.
      + intros i Hi. rewrite Hgn.
        replace (2 * d)%nat with (d + d)%nat by lia.
        destruct (d <=? i)%nat eqn:E1.
        * replace (i <? d + (n - d))%nat with true by lia. cbn [andb].
          rewrite Gsp_split by lia.
          rewrite !HG, HP by lia. reflexivity.
        * cbn [andb]. rewrite HG by lia.
          rewrite (Gsp_clip g0 p0 i d) by lia. rewrite (Gsp_clip g0 p0 i (d + d)) by lia. reflexivity.
      + intros i Hi. rewrite Hpn.
        replace (d <=? i)%nat with true by lia.
        replace (i <? d + (n - d))%nat with true by lia.
        replace (2 * d <=? i)%nat with true by lia. cbn [andb].
        replace (2 * d)%nat with (d + d)%nat by lia. rewrite Psp_split.
        rewrite !HP by lia. reflexivity.
    - replace (n - d)%nat with O by lia. cbn [seq fold_right].
      unfold ks_inv. cbn [fst snd]. repeat split; auto.
      + intros i Hi. rewrite HG by lia.
        rewrite (Gsp_clip g0 p0 i d) by lia. rewrite (Gsp_clip g0 p0 i (2 * d)) by lia. reflexivity.
      + intros i Hi. lia.
  Qed.

  Lemma ks_loop_spec fuel : forall d gp, (1 <= d)%nat -> ks_inv d gp -> (n <= fuel + d)%nat ->
    length (fst (ks_loop fuel d n gp)) = n /\
    forall i, (i < n)%nat -> nth i (fst (ks_loop fuel d n gp)) false = Gsp g0 p0 i (S i).
  Proof.
    induction fuel as [|f IH]; intros d gp Hd Hinv Hf.
    - cbn [ks_loop]. destruct Hinv as (Hg & _ & HG & _). split; [exact Hg|].
      intros i Hi. rewrite HG by lia. apply Gsp_clip. lia.
    - cbn [ks_loop]. destruct (d <? n)%nat eqn:E.
      + apply IH; [lia| apply ks_inv_stage; assumption | lia].
      + destruct Hinv as (Hg & _ & HG & _). split; [exact Hg|].
        intros i Hi. rewrite HG by lia. apply Gsp_clip. lia.
  Qed.
End KSInv.

(* the prefix network computes the carry list, provided the initial generate
   list has the carry-in folded into bit 0 *)
Lemma ks_generic init a b c :
  length a = length b ->
  length (init a b c) = length a ->
  (forall i, (i < length a)%nat ->
     nth i (init a b c) false =
     match i with
     | O => nth 0 (map2 andb a b) false || (nth 0 (map2 xorb a b) false && c)
     | S _ => nth i (map2 andb a b) false
     end) ->
  let n := length a in
  fst (ks_loop n 1 n (init a b c, map2 xorb a b)) = carries a b c.
Proof.
  intros Hab Hlen Hinit n.
  assert (Hp : length (map2 xorb a b) = n) by (rewrite length_map2; lia).
  pose proof (ks_loop_spec (init a b c) (map2 xorb a b) n n 1 (init a b c, map2 xorb a b)
                (le_n 1) (ks_inv_init _ _ n Hlen Hp) ltac:(lia)) as [HL HN].
  apply nth_ext with (d := false) (d' := false).
  - rewrite HL, carries_len by assumption. reflexivity.
  - rewrite HL. intros i Hi. rewrite HN by assumption.
    clear HL HN. induction i as [|i IHi].
    + rewrite Gsp_0S. rewrite (Hinit 0%nat Hi).
      destruct a as [|x ta]; destruct b as [|y tb]; cbn [length] in *; try lia. reflexivity.
    + rewrite Gsp_SS. rewrite IHi by lia. cbv beta. rewrite (Hinit (S i) Hi).
      rewrite carries_nthS by (assumption || lia). reflexivity.
Qed.

Lemma xor_ext_len c : forall p, length (xor_ext c p) = Nat.max (length c) (length p).
Proof.
  induction c as [|x t IH]; intros [|y tp]; cbn [xor_ext length]; try lia.
  rewrite IH. lia.
Qed.

Lemma ks_with_exact init a b c :
  (forall a' b', length a' = length b' ->
     length (init a' b' c) = length a' /\
     forall i, (i < length a')%nat ->
       nth i (init a' b' c) false =
       match i with
       | O => nth 0 (map2 andb a' b') false || (nth 0 (map2 xorb a' b') false && c)
       | S _ => nth i (map2 andb a' b') false
       end) ->
  bval (kogge_stone_with init a b c) = bval a + bval b + b2z c /\
  length (kogge_stone_with init a b c) = S (Nat.max (length a) (length b)).
Proof.
  intros Hinit. unfold kogge_stone_with.
  pose proof (match2_spec a b) as Hm. destruct (match2 a b) as [a' b'].
  destruct Hm as (La & Lb & Va & Vb).
  destruct (Hinit a' b' ltac:(lia)) as [Hl Hn].
  pose proof (ks_generic init a' b' c ltac:(lia) Hl Hn) as Hk. cbn zeta in Hk.
  destruct (ks_loop (length a') 1 (length a') (init a' b' c, map2 xorb a' b')) as [g p].
  cbn [fst] in Hk. subst g.
  split.
  - rewrite add_via_carries by lia. lia.
  - rewrite xor_ext_len. cbn [length]. rewrite carries_len, length_map2 by lia. lia.
Qed.

Lemma ks_init_asis_ok a b : length a = length b ->
  length (ks_init_gen_asis a b false) = length a /\
  forall i, (i < length a)%nat ->
    nth i (ks_init_gen_asis a b false) false =
    match i with
    | O => nth 0 (map2 andb a b) false || (nth 0 (map2 xorb a b) false && false)
    | S _ => nth i (map2 andb a b) false
    end.
Proof.
  intros H. unfold ks_init_gen_asis. split; [rewrite length_map2; lia|].
  intros [|i] Hi; [rewrite andb_false_r, orb_false_r|]; reflexivity.
Qed.

Lemma ks_init_cin_ok a b c : length a = length b ->
  length (ks_init_gen_cin a b c) = length a /\
  forall i, (i < length a)%nat ->
    nth i (ks_init_gen_cin a b c) false =
    match i with
    | O => nth 0 (map2 andb a b) false || (nth 0 (map2 xorb a b) false && c)
    | S _ => nth i (map2 andb a b) false
    end.
Proof.
  intros H. unfold ks_init_gen_cin.
  destruct a as [|x ta]; destruct b as [|y tb]; cbn [length] in *; try lia.
  - split; [reflexivity|]. intros i Hi. lia.
  - cbn [map2 length]. split; [rewrite length_map2; lia|].
    intros [|i] Hi; reflexivity.
Qed.

(* kogge_stone before fix fa565d3 (generate bits a & b): exact only for carry-in 0 *)
Theorem kogge_stone_prefix_exact_cin0 a b :
  bval (kogge_stone_with ks_init_gen_asis a b false) = bval a + bval b /\
  length (kogge_stone_with ks_init_gen_asis a b false) = S (Nat.max (length a) (length b)).
Proof.
  destruct (ks_with_exact ks_init_gen_asis a b false) as [H1 H2].
  - intros a' b' H. apply ks_init_asis_ok. assumption.
  - rewrite H1, H2. cbn [b2z]. split; [lia|reflexivity].
Qed.

(* kogge_stone as the code is (carry-in folded into generate bit 0): exact for every cin *)
Theorem kogge_stone_exact a b c :
  bval (kogge_stone a b c) = bval a + bval b + b2z c /\
  length (kogge_stone a b c) = S (Nat.max (length a) (length b)).
Proof.
  unfold kogge_stone, ks_init_gen.
  apply ks_with_exact. intros a' b' H. apply ks_init_cin_ok. assumption.
Qed.

Lemma add_ks_ok : adder_ok add_ks.
Proof.
  intros a b. unfold add_ks. destruct (kogge_stone_exact a b false) as [H _]. rewrite H.
  cbn [b2z]. lia.
Qed.

(* before the fix the documented carry-in was ignored by the prefix tree (F9) *)
Theorem kogge_prefix_cin_refuted :
  exists a b c, bval (kogge_stone_with ks_init_gen_asis a b c) <> bval a + bval b + b2z c.
Proof. exists [true], [false], true. vm_compute. discriminate. Qed.
