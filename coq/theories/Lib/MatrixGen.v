(* C19 -- the translated fragments of pyrtl/rtllib/matrix.py (Gen/MatrixRules.v, regenerated from the
   source on every run) agree with the hand-written model Lib/Matrix.v.  A source edit that changes a
   width rule, the constructor's slice arithmetic, put's index handling or reshape's index
   arithmetic changes Gen/MatrixRules.v and breaks one of these proofs. *)
From PyRTL Require Import Base.PyZ Lib.Matrix Gen.MatrixRules Lib.MatrixProofs.
From Coq Require Import ZifyBool Arith.

Theorem gen_ctor_bits b mb : ctor_bits_gen b mb = capb b mb.
Proof. unfold ctor_bits_gen, capb. destruct (b >? mb); reflexivity. Qed.

Theorem gen_add_bits a b : bits (madd a b) = ctor_bits_gen (add_bits_gen (bits a) (bits b)) (maxb a).
Proof.
  rewrite gen_ctor_bits. unfold madd, add_bits_gen. cbn [mnew bits].
  destruct (bits b >? bits a); reflexivity.
Qed.

Theorem gen_sub_bits a b : bits (msub a b) = ctor_bits_gen (sub_bits_gen (bits a) (bits b)) (maxb a).
Proof.
  rewrite gen_ctor_bits. unfold msub, sub_bits_gen. cbn [mnew bits].
  destruct (bits b >? bits a); reflexivity.
Qed.

Theorem gen_mul_bits a b : bits (mmul a b) = ctor_bits_gen (mul_bits_gen (bits a) (bits b)) (maxb a).
Proof. rewrite gen_ctor_bits. reflexivity. Qed.

Theorem gen_scal_bits a ws s : bits (mscal a ws s) = ctor_bits_gen (scal_bits_gen (bits a) ws) (maxb a).
Proof. rewrite gen_ctor_bits. reflexivity. Qed.

Theorem gen_matmul_bits a b :
  bits (mmatmul a b) =
  ctor_bits_gen (matmul_bits_gen (Z.of_nat (cols_of a)) (Z.of_nat (rows_of b)) (bits a) (bits b)) (maxb a).
Proof. rewrite gen_ctor_bits. reflexivity. Qed.

(* the constructor loop `for i, j: _matrix[rows-i-1][columns-j-1] = value[start:start+bits]` *)
Theorem gen_ctor_layout r c b mb v i j : 0 <= i < Z.of_nat r -> 0 <= j < Z.of_nat c ->
  let b' := ctor_bits_gen b mb in
  let start := ctor_start_gen i j b' (Z.of_nat c) in
  el (mx_in r c b mb v) (Z.to_nat (ctor_row_gen (Z.of_nat r) i)) (Z.to_nat (ctor_col_gen (Z.of_nat c) j))
  = (v / 2 ^ start) mod 2 ^ (ctor_stop_gen start b' - start).
Proof.
  intros Hi Hj b' start. subst b' start. rewrite gen_ctor_bits.
  unfold ctor_row_gen, ctor_col_gen, ctor_start_gen, ctor_stop_gen, el, mx_in. cbn [dat].
  rewrite get_mk by lia.
  replace (r - 1 - Z.to_nat (Z.of_nat r - i - 1))%nat with (Z.to_nat i) by lia.
  replace (c - 1 - Z.to_nat (Z.of_nat c - j - 1))%nat with (Z.to_nat j) by lia.
  rewrite !Z2Nat.id by lia. f_equal. f_equal. lia.
Qed.

Definition mode_of (m : Z) : pmode := if m =? 0 then PRaise else if m =? 1 then PWrap else PClip.

Theorem gen_put_ix count m ix : 0 <= m <= 2 -> put_ix_gen count m ix = put_ix count (mode_of m) ix.
Proof.
  intros Hm. unfold put_ix_gen, put_ix, mode_of. cbn zeta. bcases.
Qed.

Theorem gen_put_position a ix x :
  set_flat a ix x =
  MkMx (bits a) (maxb a)
    (mk (rows_of a) (cols_of a) (fun i j =>
       if Nat.eqb i (Z.to_nat (put_row_gen ix (Z.of_nat (cols_of a)))) &&
          Nat.eqb j (Z.to_nat (put_col_gen ix (Z.of_nat (cols_of a))))
       then trunc (bits a) x else el a i j)).
Proof. reflexivity. Qed.

Theorem gen_reshape_C r c ix : (0 < c)%nat ->
  src_C r c ix = (Z.to_nat (reshape_C_r_gen (Z.of_nat ix) (Z.of_nat r) (Z.of_nat c)),
                  Z.to_nat (reshape_C_c_gen (Z.of_nat ix) (Z.of_nat r) (Z.of_nat c))).
Proof.
  intros Hc. unfold src_C, reshape_C_r_gen, reshape_C_c_gen.
  rewrite <- Nat2Z.inj_div, <- Nat2Z.inj_mod, !Nat2Z.id. reflexivity.
Qed.

Theorem gen_reshape_F r c ix : (0 < r)%nat ->
  src_F r c ix = (Z.to_nat (reshape_F_r_gen (Z.of_nat ix) (Z.of_nat r) (Z.of_nat c)),
                  Z.to_nat (reshape_F_c_gen (Z.of_nat ix) (Z.of_nat r) (Z.of_nat c))).
Proof.
  intros Hr. unfold src_F, reshape_F_r_gen, reshape_F_c_gen.
  rewrite <- Nat2Z.inj_div, <- Nat2Z.inj_mod, !Nat2Z.id. reflexivity.
Qed.

(* newshape resolution written with the translated inference and size guard *)
Theorem gen_resolve_shape count nr nc :
  resolve_shape count nr nc =
  if (nr =? -1) && (nc =? -1) then None
  else let '(r, c) := if nr =? -1 then (reshape_infer_rows_gen count nc, nc)
                      else if nc =? -1 then (nr, reshape_infer_cols_gen count nr) else (nr, nc) in
       if negb (reshape_size_bad_gen r c count) && (0 <? r) && (0 <? c) then Some (r, c) else None.
Proof.
  unfold resolve_shape, reshape_infer_rows_gen, reshape_infer_cols_gen, reshape_size_bad_gen.
  destruct ((nr =? -1) && (nc =? -1)); [reflexivity|].
  destruct (nr =? -1); [|destruct (nc =? -1)]; rewrite Bool.negb_involutive; reflexivity.
Qed.

(* the max_bits every constructed result carries is the one the source passes to Matrix(...) *)
Theorem gen_max_bits a b ws s :
  maxb (mtranspose a) = transpose_maxbits_gen (bits a) (maxb a) /\
  maxb (mreversed a) = reversed_maxbits_gen (bits a) (maxb a) /\
  maxb (mcopy a) = copy_maxbits_gen (bits a) (maxb a) /\
  maxb (madd a b) = add_maxbits_gen (bits a) (maxb a) /\
  maxb (msub a b) = sub_maxbits_gen (bits a) (maxb a) /\
  maxb (mmul a b) = mul_maxbits_gen (bits a) (maxb a) /\
  maxb (mscal a ws s) = mul_maxbits_gen (bits a) (maxb a) /\
  maxb (mmatmul a b) = matmul_maxbits_gen (bits a) (maxb a).
Proof. repeat split; reflexivity. Qed.

Theorem gen_max_bits_reshape a nr nc o res :
  mreshape a nr nc o = Some res -> maxb res = reshape_maxbits_gen (bits a) (maxb a).
Proof.
  unfold mreshape. destruct (resolve_shape _ nr nc) as [[r' c']|]; [|discriminate].
  intros H. inversion H. reflexivity.
Qed.

Theorem gen_max_bits_getitem a kr kc res :
  mgetitem a kr kc = Some res -> maxb res = getitem_maxbits_gen (bits a) (maxb a).
Proof.
  unfold mgetitem. destruct (key_get _ kr) as [[rs re]|]; [|discriminate].
  destruct (key_get _ kc) as [[cs ce]|]; [|discriminate].
  destruct ((re - rs <=? 0) || (ce - cs <=? 0)); [discriminate|].
  destruct ((re - rs =? 1) && (ce - cs =? 1)); intros H; inversion H; reflexivity.
Qed.

(* put's early return: taken exactly for an EMPTY tuple/list of values, and only after a bare int has
   been wrapped into a one-element tuple *)
Theorem gen_put_early_return (v : list Z) :
  put_early_return_gen true (Z.of_nat (length v)) = (match v with [] => true | _ => false end) /\
  (forall n, put_early_return_gen false n = false) /\
  put_int_wrapped_before_return_gen = true.
Proof.
  unfold put_early_return_gen. split; [destruct v; reflexivity|]. split; reflexivity.
Qed.
