(* C19 -- proofs about the model Lib/Matrix.v *)
From PyRTL Require Import Base.PyZ Lib.Matrix.
From Coq Require Import ZifyBool Arith.

(* ------------------------------------------------------------------ lists, mk, get *)
Lemma nth_map_seq {A} (f : nat -> A) d n k : (k < n)%nat -> nth k (map f (seq 0 n)) d = f k.
Proof.
  intros H. rewrite nth_indep with (d' := f 0%nat) by (rewrite map_length, seq_length; exact H).
  rewrite map_nth. rewrite seq_nth by exact H. reflexivity.
Qed.

Lemma get_mk r c f i j : (i < r)%nat -> (j < c)%nat -> get (mk r c f) i j = f i j.
Proof.
  intros Hi Hj. unfold get, mk. rewrite (nth_map_seq (fun i => map (fun j => f i j) (seq 0 c))) by exact Hi.
  apply (nth_map_seq (fun j => f i j)). exact Hj.
Qed.

Lemma nrows_mk r c f : nrows (mk r c f) = r.
Proof. unfold nrows, mk. rewrite map_length, seq_length. reflexivity. Qed.

Lemma ncols_mk r c f : (0 < r)%nat -> ncols (mk r c f) = c.
Proof.
  intros H. unfold ncols, mk. destruct r as [|r]; [lia|]. cbn [seq map hd].
  rewrite map_length, seq_length. reflexivity.
Qed.

(* shape: r rows, each of c elements *)
Definition wfm (r c : nat) (m : mat) : Prop := length m = r /\ Forall (fun row => length row = c) m.

Lemma wfm_mk r c f : wfm r c (mk r c f).
Proof.
  split; [apply nrows_mk|]. unfold mk. apply Forall_forall. intros row Hin.
  apply in_map_iff in Hin. destruct Hin as [i [<- _]]. rewrite map_length, seq_length. reflexivity.
Qed.

Lemma mat_ext r c m1 m2 : wfm r c m1 -> wfm r c m2 ->
  (forall i j, (i < r)%nat -> (j < c)%nat -> get m1 i j = get m2 i j) -> m1 = m2.
Proof.
  intros [L1 F1] [L2 F2] H. apply (nth_ext _ _ [] []); [congruence|].
  intros i Hi. rewrite L1 in Hi.
  assert (R1 : length (nth i m1 []) = c).
  { rewrite Forall_forall in F1. apply F1. apply nth_In. lia. }
  assert (R2 : length (nth i m2 []) = c).
  { rewrite Forall_forall in F2. apply F2. apply nth_In. lia. }
  apply (nth_ext _ _ 0 0); [congruence|]. intros j Hj. rewrite R1 in Hj. apply (H i j Hi Hj).
Qed.

Lemma mk_get r c m : wfm r c m -> mk r c (get m) = m.
Proof.
  intros W. apply (mat_ext r c); [apply wfm_mk|exact W|]. intros i j Hi Hj. apply get_mk; assumption.
Qed.

Lemma wfm_ncols r c m : (0 < r)%nat -> wfm r c m -> ncols m = c.
Proof.
  intros Hr [L F]. unfold ncols. destruct m as [|row m]; [simpl in L; lia|]. inversion F; subst. reflexivity.
Qed.

(* ------------------------------------------------------------------ to_wirevector layout *)
Definition all_inrange (b : Z) (l : list Z) : Prop := Forall (fun x => inrange x b) l.

Lemma pow2_split b n : 0 <= b -> 2 ^ (b * Z.of_nat (S n)) = 2 ^ b * 2 ^ (b * Z.of_nat n).
Proof. intros Hb. rewrite <- Z.pow_add_r by lia. f_equal. lia. Qed.

Lemma encode_range b l : 0 <= b -> all_inrange b l -> 0 <= encode b l < 2 ^ (b * Z.of_nat (length l)).
Proof.
  intros Hb H. induction H as [|x xs [Hx0 Hx1] _ IH]; cbn [encode length].
  - rewrite Z.mul_0_r. simpl. lia.
  - rewrite pow2_split by assumption.
    pose proof (pow2_pos (b * Z.of_nat (length xs)) ltac:(lia)) as HP.
    assert (x * 2 ^ (b * Z.of_nat (length xs)) <= (2 ^ b - 1) * 2 ^ (b * Z.of_nat (length xs)))
      by (apply Z.mul_le_mono_nonneg_r; lia).
    assert (0 <= x * 2 ^ (b * Z.of_nat (length xs))) by (apply Z.mul_nonneg_nonneg; lia).
    lia.
Qed.

Lemma decode_add_high b n : 0 <= b -> forall k x e, (n <= k)%nat ->
  decode b n (x * 2 ^ (b * Z.of_nat k) + e) = decode b n e.
Proof.
  intros Hb. induction n as [|n IH]; intros k x e Hk; cbn [decode]; [reflexivity|].
  f_equal; [|apply IH; lia].
  assert (E : b * Z.of_nat k = b * Z.of_nat (k - n - 1) + b + b * Z.of_nat n).
  { replace (Z.of_nat k) with (Z.of_nat (k - n - 1) + 1 + Z.of_nat n) by lia. ring. }
  rewrite E, !Z.pow_add_r by (try apply Z.mul_nonneg_nonneg; lia).
  pose proof (pow2_pos (b * Z.of_nat n) ltac:(lia)) as HP.
  pose proof (pow2_pos b Hb) as HB.
  replace (x * (2 ^ (b * Z.of_nat (k - n - 1)) * 2 ^ b * 2 ^ (b * Z.of_nat n)) + e)
    with (e + (x * 2 ^ (b * Z.of_nat (k - n - 1)) * 2 ^ b) * 2 ^ (b * Z.of_nat n)) by ring.
  rewrite Z.div_add by lia. rewrite Z.mod_add by lia. reflexivity.
Qed.

Lemma decode_encode b l : 0 <= b -> all_inrange b l -> decode b (length l) (encode b l) = l.
Proof.
  intros Hb H. induction H as [|x xs Hx Hxs IH]; cbn [encode length decode]; [reflexivity|].
  f_equal.
  - pose proof (encode_range b xs Hb Hxs) as He.
    pose proof (pow2_pos (b * Z.of_nat (length xs)) ltac:(lia)) as HP.
    rewrite Z.add_comm, Z.div_add by lia. rewrite Z.div_small by lia. cbn [Z.add].
    apply Z.mod_small. exact Hx.
  - rewrite decode_add_high by lia. exact IH.
Qed.

Lemma decode_length b n v : length (decode b n v) = n.
Proof. induction n; cbn [decode length]; congruence. Qed.

Lemma decode_inrange b n v : 0 <= b -> all_inrange b (decode b n v).
Proof.
  intros Hb. induction n; cbn [decode]; constructor; [apply mod_range; exact Hb|assumption].
Qed.

(* the wire holds exactly the low b*n bits: re-encoding the decoded list gives v mod 2^(b*n) *)
Lemma encode_decode b n v : 0 <= b -> encode b (decode b n v) = v mod 2 ^ (b * Z.of_nat n).
Proof.
  intros Hb. induction n as [|n IH]; cbn [decode encode].
  - rewrite Z.mul_0_r. simpl. rewrite Z.mod_1_r. reflexivity.
  - rewrite decode_length, IH. rewrite pow2_split by assumption.
    pose proof (pow2_pos (b * Z.of_nat n) ltac:(lia)) as HP. pose proof (pow2_pos b Hb) as HB.
    rewrite (Z.mul_comm (2 ^ b)). rewrite Z.rem_mul_r by lia. lia.
Qed.

Lemma nth_decode b n v k : (k < n)%nat ->
  nth k (decode b n v) 0 = (v / 2 ^ (b * Z.of_nat (n - 1 - k))) mod 2 ^ b.
Proof.
  revert k. induction n as [|n IH]; intros k Hk; [lia|]. cbn [decode].
  destruct k as [|k]; cbn [nth].
  - replace (S n - 1 - 0)%nat with n by lia. reflexivity.
  - rewrite IH by lia. replace (S n - 1 - S k)%nat with (n - 1 - k)%nat by lia. reflexivity.
Qed.

(* ------------------------------------------------------------------ row-major flattening *)
Lemma flat_length r c m : wfm r c m -> length (flat m) = (r * c)%nat.
Proof.
  intros [L F]. subst r. unfold flat. induction F as [|row m Hrow F IH]; cbn [concat length]; [reflexivity|].
  rewrite app_length, IH, Hrow. lia.
Qed.

Lemma nth_flat r c m i j : wfm r c m -> (i < r)%nat -> (j < c)%nat ->
  nth (i * c + j) (flat m) 0 = get m i j.
Proof.
  intros [L F]. subst r. revert i. unfold flat, get.
  induction F as [|row m Hrow F IH]; intros i Hi Hj; cbn [length] in Hi; [lia|].
  cbn [concat]. destruct i as [|i].
  - cbn [nth Nat.mul Nat.add]. apply app_nth1. lia.
  - cbn [nth]. rewrite app_nth2 by lia. rewrite Hrow.
    replace (S i * c + j - c)%nat with (i * c + j)%nat by lia. apply IH; lia.
Qed.

Lemma unflat_flat r c m : wfm r c m -> unflat r c (flat m) = m.
Proof.
  intros W. apply (mat_ext r c); [apply wfm_mk|exact W|]. intros i j Hi Hj.
  unfold unflat. rewrite get_mk by assumption. apply (nth_flat r c); assumption.
Qed.

Lemma divmod_lt r c k : (k < r * c)%nat -> (k / c < r)%nat /\ (k mod c < c)%nat /\ (k = (k / c) * c + k mod c)%nat.
Proof.
  intros H. assert (Hc : (0 < c)%nat) by (destruct c; lia).
  pose proof (Nat.div_mod k c ltac:(lia)) as E. pose proof (Nat.mod_upper_bound k c ltac:(lia)) as U.
  split; [|split; [exact U|lia]].
  apply Nat.div_lt_upper_bound; lia.
Qed.

Lemma flat_mk r c f :
  flat (mk r c f) = map (fun k => f (k / c)%nat (k mod c)%nat) (seq 0 (r * c)).
Proof.
  apply (nth_ext _ _ 0 0).
  - rewrite (flat_length r c) by apply wfm_mk. rewrite map_length, seq_length. reflexivity.
  - intros k Hk. rewrite (flat_length r c) in Hk by apply wfm_mk.
    destruct (divmod_lt r c k Hk) as [H1 [H2 H3]].
    rewrite (nth_map_seq (fun k => f (k / c)%nat (k mod c)%nat)) by exact Hk.
    rewrite H3 at 1. rewrite (nth_flat r c) by (try apply wfm_mk; assumption).
    apply get_mk; assumption.
Qed.

Lemma flat_unflat r c l : length l = (r * c)%nat -> flat (unflat r c l) = l.
Proof.
  intros L. unfold unflat. rewrite flat_mk. apply (nth_ext _ _ 0 0).
  - rewrite map_length, seq_length. lia.
  - intros k Hk. rewrite map_length, seq_length in Hk.
    rewrite (nth_map_seq (fun k => nth (k / c * c + k mod c) l 0)) by exact Hk.
    destruct (divmod_lt r c k Hk) as [_ [_ H3]]. rewrite <- H3. reflexivity.
Qed.

(* ------------------------------------------------------------------ wire <-> matrix round trips *)
Definition mrange (a : Mx) : Prop := forall i j, inrange (el a i j) (bits a).
Definition wfx (r c : nat) (a : Mx) : Prop := wfm r c (dat a) /\ (0 < r)%nat /\ (0 < c)%nat.

Lemma wfx_rows r c a : wfx r c a -> rows_of a = r.
Proof. intros [[L _] _]. exact L. Qed.
Lemma wfx_cols r c a : wfx r c a -> cols_of a = c.
Proof. intros [W [Hr _]]. apply (wfm_ncols r c); assumption. Qed.

Lemma trunc_id b x : inrange x b -> trunc b x = x.
Proof. intros H. unfold trunc. apply Z.mod_small. exact H. Qed.

Lemma trunc_range b x : 0 <= b -> inrange (trunc b x) b.
Proof. intros. apply mod_range. assumption. Qed.

Lemma all_inrange_trunc b l : 0 <= b -> all_inrange b (map (trunc b) l).
Proof. intros Hb. apply Forall_forall. intros x Hin. apply in_map_iff in Hin. destruct Hin as [y [<- _]]. apply trunc_range; exact Hb. Qed.

(* matrix_wv_to_list inverts to_wirevector (each element as seen through `bits`) *)
Lemma wv_to_list_to_wv r c a i j : wfx r c a -> 0 <= bits a -> (i < r)%nat -> (j < c)%nat ->
  get (matrix_wv_to_list (to_wv a) r c (bits a)) i j = trunc (bits a) (el a i j).
Proof.
  intros [W [Hr Hc]] Hb Hi Hj. unfold matrix_wv_to_list, to_wv, unflat. rewrite get_mk by assumption.
  replace (r * c)%nat with (length (map (trunc (bits a)) (flat (dat a))))
    by (rewrite map_length; apply flat_length; exact W).
  rewrite decode_encode by (try apply all_inrange_trunc; assumption).
  change 0 with (trunc (bits a) 0) at 1. rewrite map_nth. f_equal. apply (nth_flat r c); assumption.
Qed.

Theorem wv_roundtrip r c a : wfx r c a -> 0 <= bits a -> mrange a ->
  matrix_wv_to_list (to_wv a) r c (bits a) = dat a.
Proof.
  intros W Hb R. apply (mat_ext r c); [apply wfm_mk|apply W|]. intros i j Hi Hj.
  rewrite wv_to_list_to_wv by assumption. apply trunc_id. apply R.
Qed.

(* to_wirevector of what matrix_wv_to_list produced gives back the low rows*columns*bits bits *)
Theorem list_roundtrip r c b mb v : 0 <= b -> (0 < r)%nat -> (0 < c)%nat ->
  to_wv (MkMx b mb (matrix_wv_to_list v r c b)) = v mod 2 ^ (b * Z.of_nat (r * c)).
Proof.
  intros Hb Hr Hc. unfold to_wv, matrix_wv_to_list. cbn [bits dat].
  rewrite flat_unflat by apply decode_length.
  rewrite <- encode_decode by assumption. f_equal.
  rewrite <- (map_id (decode b (r * c) v)) at 2. apply map_ext_in. intros x Hin.
  apply trunc_id. pose proof (decode_inrange b (r * c) v Hb) as F. unfold all_inrange in F. rewrite Forall_forall in F. apply F, Hin.
Qed.

(* the constructor's slice arithmetic is the row-major layout *)
Lemma mx_in_layout r c b mb v i j : (i < r)%nat -> (j < c)%nat ->
  el (mx_in r c b mb v) i j = nth (i * c + j) (decode (capb b mb) (r * c) v) 0.
Proof.
  intros Hi Hj. unfold el, mx_in. cbn [dat]. rewrite get_mk by assumption.
  assert (Hk : (i * c + j < r * c)%nat) by nia.
  rewrite nth_decode by exact Hk. do 3 f_equal.
  replace (r * c - 1 - (i * c + j))%nat with ((r - 1 - i) * c + (c - 1 - j))%nat by nia.
  rewrite Nat2Z.inj_add, Nat2Z.inj_mul. ring.
Qed.

Lemma capb_id b mb : b <= mb -> capb b mb = b.
Proof. unfold capb. intros. destruct (b >? mb) eqn:E; lia. Qed.

Lemma capb_le b mb : capb b mb <= b /\ capb b mb <= mb.
Proof. unfold capb. destruct (b >? mb) eqn:E; lia. Qed.

Lemma wfx_mx_in r c b mb v : (0 < r)%nat -> (0 < c)%nat -> wfx r c (mx_in r c b mb v).
Proof. intros. split; [apply wfm_mk|split; assumption]. Qed.

(* Matrix.copy (to_wirevector, then the WireVector constructor) preserves every element *)
Theorem copy_correct r c a : wfx r c a -> 0 <= bits a <= maxb a -> mrange a ->
  dat (mcopy a) = dat a /\ bits (mcopy a) = bits a.
Proof.
  intros W [Hb Hm] R. pose proof W as [Wm [Hr Hc]].
  unfold mcopy. rewrite (wfx_rows r c a W), (wfx_cols r c a W). split.
  - apply (mat_ext r c); [apply wfm_mk|exact Wm|]. intros i j Hi Hj.
    change (get (dat (mx_in r c (bits a) (maxb a) (to_wv a))) i j)
      with (el (mx_in r c (bits a) (maxb a) (to_wv a)) i j).
    rewrite mx_in_layout by assumption. rewrite capb_id by exact Hm.
    pose proof (wv_to_list_to_wv r c a i j W Hb Hi Hj) as E.
    unfold matrix_wv_to_list, unflat in E. rewrite get_mk in E by assumption.
    rewrite E. apply trunc_id, R.
  - cbn [mx_in bits]. apply capb_id; exact Hm.
Qed.

(* ------------------------------------------------------------------ list_to_int *)
Lemma lor_shiftl_add' r v w : 0 <= w -> inrange v w -> Z.lor (Z.shiftl r w) v = r * 2 ^ w + v.
Proof.
  intros Hw Hv.
  assert (Hl : Z.land (Z.shiftl r w) v = 0).
  { apply Z.bits_inj'. intros i Hi. rewrite Z.land_spec, Z.bits_0.
    destruct (Z.lt_ge_cases i w).
    - rewrite Z.shiftl_spec_low by assumption. reflexivity.
    - rewrite (inrange_testbit v w) by auto. apply andb_false_r. }
  rewrite <- Z.lxor_lor by exact Hl. rewrite <- Z.add_nocarry_lxor by exact Hl.
  rewrite Z.shiftl_mul_pow2 by exact Hw. reflexivity.
Qed.

Lemma list_to_int_fold b l : 0 <= b -> forall acc,
  fold_left (fun acc x => Z.lor (Z.shiftl acc b) (Z.land x (Z.ones b))) l acc
  = acc * 2 ^ (b * Z.of_nat (length l)) + encode b (map (trunc b) l).
Proof.
  intros Hb. induction l as [|x xs IH]; intros acc; cbn [fold_left map encode length].
  - rewrite Z.mul_0_r. simpl. lia.
  - rewrite IH. rewrite Z.land_ones by exact Hb.
    rewrite lor_shiftl_add' by (try apply mod_range; assumption).
    rewrite map_length. rewrite pow2_split by exact Hb. unfold trunc. ring.
Qed.

Theorem list_to_int_encode m b : 0 <= b -> list_to_int m b = encode b (map (trunc b) (flat m)).
Proof. intros Hb. unfold list_to_int. rewrite list_to_int_fold by exact Hb. lia. Qed.

(* ------------------------------------------------------------------ element-wise arithmetic *)
Lemma el_mnew r c b mb f i j : (i < r)%nat -> (j < c)%nat ->
  el (mnew r c b mb f) i j = trunc (capb b mb) (f i j).
Proof. intros. unfold el, mnew. cbn [dat]. apply get_mk; assumption. Qed.

Lemma wfx_mnew r c b mb f : (0 < r)%nat -> (0 < c)%nat -> wfx r c (mnew r c b mb f).
Proof. intros. split; [apply wfm_mk|split; assumption]. Qed.

Lemma mod_mod_le v p q : 0 <= p <= q -> (v mod 2 ^ q) mod 2 ^ p = v mod 2 ^ p.
Proof.
  intros [Hp Hq]. symmetry. apply Znumtheory.Zmod_div_mod; try (apply pow2_pos; lia).
  exists (2 ^ (q - p)). rewrite <- Z.pow_add_r by lia. f_equal. lia.
Qed.

Lemma pow2_mono p q : 0 <= p <= q -> 2 ^ p <= 2 ^ q.
Proof. intros. apply Z.pow_le_mono_r; lia. Qed.

Lemma zmax_if x y : (if y >? x then y else x) = Z.max x y.
Proof. destruct (y >? x) eqn:E; lia. Qed.

Lemma wv_add_exact wa wb x y : inrange x wa -> inrange y wb -> wv_add wa wb x y = x + y.
Proof.
  intros [Hx0 Hx1] [Hy0 Hy1]. unfold wv_add. apply Z.mod_small.
  assert (0 <= wa) by (apply (inrange_nonneg_w x); split; assumption).
  assert (0 <= wb) by (apply (inrange_nonneg_w y); split; assumption).
  pose proof (pow2_mono wa (Z.max wa wb) ltac:(lia)). pose proof (pow2_mono wb (Z.max wa wb) ltac:(lia)).
  rewrite Z.pow_add_r by lia. lia.
Qed.

Lemma sat_sub_exact wa wb x y : inrange x wa -> inrange y wb -> sat_sub wa wb x y = Z.max (x - y) 0.
Proof.
  intros [Hx0 Hx1] [Hy0 Hy1]. unfold sat_sub, wv_sub.
  assert (0 <= wa) by (apply (inrange_nonneg_w x); split; assumption).
  assert (0 <= wb) by (apply (inrange_nonneg_w y); split; assumption).
  destruct (x >? y) eqn:E; [|lia].
  rewrite Z.mod_small; [lia|].
  pose proof (pow2_mono wa (Z.max wa wb) ltac:(lia)). rewrite Z.pow_add_r by lia. lia.
Qed.

Lemma mul_lt_pow2 wa wb x y : inrange x wa -> inrange y wb -> 0 <= x * y < 2 ^ (wa + wb).
Proof.
  intros [Hx0 Hx1] [Hy0 Hy1].
  assert (0 <= wa) by (apply (inrange_nonneg_w x); split; assumption).
  assert (0 <= wb) by (apply (inrange_nonneg_w y); split; assumption).
  rewrite Z.pow_add_r by lia. nia.
Qed.

Lemma wv_mul_exact wa wb x y : inrange x wa -> inrange y wb -> wv_mul wa wb x y = x * y.
Proof. intros Hx Hy. unfold wv_mul. apply Z.mod_small. apply mul_lt_pow2; assumption. Qed.

Section Elementwise.
  Variables (r c : nat) (a b : Mx).
  Hypothesis Wa : wfx r c a.
  Hypothesis Ra : mrange a.
  Hypothesis Rb : mrange b.

  Let mxb := Z.max (bits a) (bits b).

  Theorem add_mod i j : (i < r)%nat -> (j < c)%nat ->
    bits (madd a b) = capb (mxb + 1) (maxb a) /\
    el (madd a b) i j = (el a i j + el b i j) mod 2 ^ bits (madd a b).
  Proof.
    intros Hi Hj. unfold madd. rewrite (wfx_rows r c a Wa), (wfx_cols r c a Wa), zmax_if.
    split; [reflexivity|]. rewrite el_mnew by assumption. cbn [mnew bits].
    rewrite wv_add_exact by (try apply Ra; apply Rb). reflexivity.
  Qed.

  Theorem add_width_exact i j : (i < r)%nat -> (j < c)%nat -> mxb + 1 <= maxb a ->
    bits (madd a b) = mxb + 1 /\ el (madd a b) i j = el a i j + el b i j.
  Proof.
    intros Hi Hj Hm. destruct (add_mod i j Hi Hj) as [Eb Ev]. rewrite Ev, Eb, capb_id by exact Hm.
    split; [reflexivity|]. apply Z.mod_small.
    pose proof (Ra i j) as [Hx0 Hx1]. pose proof (Rb i j) as [Hy0 Hy1].
    assert (0 <= bits a) by (apply (inrange_nonneg_w (el a i j)); split; assumption).
    assert (0 <= bits b) by (apply (inrange_nonneg_w (el b i j)); split; assumption).
    pose proof (pow2_mono (bits a) mxb ltac:(unfold mxb; lia)).
    pose proof (pow2_mono (bits b) mxb ltac:(unfold mxb; lia)).
    rewrite Z.pow_add_r by (unfold mxb; lia). lia.
  Qed.

  Theorem sub_mod i j : (i < r)%nat -> (j < c)%nat ->
    bits (msub a b) = capb mxb (maxb a) /\
    el (msub a b) i j = Z.max (el a i j - el b i j) 0 mod 2 ^ bits (msub a b).
  Proof.
    intros Hi Hj. unfold msub. rewrite (wfx_rows r c a Wa), (wfx_cols r c a Wa), zmax_if.
    split; [reflexivity|]. rewrite el_mnew by assumption. cbn [mnew bits].
    rewrite sat_sub_exact by (try apply Ra; apply Rb). reflexivity.
  Qed.

  (* saturating: never wraps below 0, and exact when max_bits is not reached *)
  Theorem sub_saturates i j : (i < r)%nat -> (j < c)%nat -> mxb <= maxb a ->
    el (msub a b) i j = (if el a i j <=? el b i j then 0 else el a i j - el b i j).
  Proof.
    intros Hi Hj Hm. destruct (sub_mod i j Hi Hj) as [Eb Ev]. rewrite Ev, Eb, capb_id by exact Hm.
    pose proof (Ra i j) as [Hx0 Hx1]. pose proof (Rb i j) as [Hy0 Hy1].
    assert (0 <= bits a) by (apply (inrange_nonneg_w (el a i j)); split; assumption).
    pose proof (pow2_mono (bits a) mxb ltac:(unfold mxb; lia)).
    rewrite Z.mod_small by lia. destruct (el a i j <=? el b i j) eqn:E; lia.
  Qed.

  Theorem mul_mod i j : (i < r)%nat -> (j < c)%nat ->
    bits (mmul a b) = capb (bits a + bits b) (maxb a) /\
    el (mmul a b) i j = (el a i j * el b i j) mod 2 ^ bits (mmul a b).
  Proof.
    intros Hi Hj. unfold mmul. rewrite (wfx_rows r c a Wa), (wfx_cols r c a Wa).
    split; [reflexivity|]. rewrite el_mnew by assumption. cbn [mnew bits].
    rewrite wv_mul_exact by (try apply Ra; apply Rb). reflexivity.
  Qed.

  Theorem mul_width_exact i j : (i < r)%nat -> (j < c)%nat -> bits a + bits b <= maxb a ->
    bits (mmul a b) = bits a + bits b /\ el (mmul a b) i j = el a i j * el b i j.
  Proof.
    intros Hi Hj Hm. destruct (mul_mod i j Hi Hj) as [Eb Ev]. rewrite Ev, Eb, capb_id by exact Hm.
    split; [reflexivity|]. apply Z.mod_small. apply mul_lt_pow2; [apply Ra|apply Rb].
  Qed.
End Elementwise.

Theorem scal_mod r c a ws s i j : wfx r c a -> mrange a -> inrange s ws -> (i < r)%nat -> (j < c)%nat ->
  bits (mscal a ws s) = capb (bits a + ws) (maxb a) /\
  el (mscal a ws s) i j = (el a i j * s) mod 2 ^ bits (mscal a ws s).
Proof.
  intros Wa Ra Hs Hi Hj. unfold mscal. rewrite (wfx_rows r c a Wa), (wfx_cols r c a Wa).
  split; [reflexivity|]. rewrite el_mnew by assumption. cbn [mnew bits].
  rewrite wv_mul_exact by (try apply Ra; exact Hs). reflexivity.
Qed.

Theorem scal_width_exact r c a ws s i j : wfx r c a -> mrange a -> inrange s ws -> (i < r)%nat -> (j < c)%nat ->
  bits a + ws <= maxb a ->
  bits (mscal a ws s) = bits a + ws /\ el (mscal a ws s) i j = el a i j * s.
Proof.
  intros Wa Ra Hs Hi Hj Hm. destruct (scal_mod r c a ws s i j Wa Ra Hs Hi Hj) as [Eb Ev].
  rewrite Ev, Eb, capb_id by exact Hm. split; [reflexivity|]. apply Z.mod_small.
  apply mul_lt_pow2; [apply Ra|exact Hs].
Qed.

(* ------------------------------------------------------------------ matrix multiplication *)
Definition sumZ (l : list Z) : Z := fold_right Z.add 0 l.
(* the mathematical entry (i,j) of A.B with inner dimension K *)
Definition dot_spec (a b : Mx) (K : nat) (i j : nat) : Z :=
  sumZ (map (fun k => el a i k * el b k j) (seq 0 K)).

(* F11 (fused_multiply_adder result one bit too narrow) cannot surface: __setitem__ truncates the
   fma result to result.bits = the addend's width, which is below the fma width *)
Theorem fma_trunc_harmless wa wb rb x y acc : 0 <= rb ->
  trunc rb (fma wa wb rb x y acc) = (x * y + acc) mod 2 ^ rb.
Proof.
  intros Hrb. unfold trunc, fma, fma_width. apply mod_mod_le. lia.
Qed.

Lemma matmul_fold wa wb rb (f g : nat -> Z) : 0 <= rb -> forall l a0,
  fold_left (fun acc k => matmul_step wa wb rb acc (f k) (g k)) l (a0 mod 2 ^ rb)
  = (a0 + sumZ (map (fun k => f k * g k) l)) mod 2 ^ rb.
Proof.
  intros Hrb. induction l as [|k l IH]; intros a0; cbn [fold_left map sumZ fold_right].
  - rewrite Z.add_0_r. reflexivity.
  - unfold matmul_step at 2. rewrite fma_trunc_harmless by exact Hrb.
    rewrite Zplus_mod_idemp_r. rewrite IH. f_equal. fold (sumZ (map (fun k => f k * g k) l)). ring.
Qed.

Theorem matmul_mod r K c a b i j : wfx r K a -> wfx K c b -> 0 <= maxb a -> 0 <= bits a + bits b ->
  (i < r)%nat -> (j < c)%nat ->
  bits (mmatmul a b) = capb (Z.of_nat K * Z.of_nat K * (bits a + bits b)) (maxb a) /\
  el (mmatmul a b) i j = dot_spec a b K i j mod 2 ^ bits (mmatmul a b).
Proof.
  intros Wa Wb Hm Hs Hi Hj. unfold mmatmul, matmul_bits.
  rewrite (wfx_rows r K a Wa), (wfx_cols r K a Wa), (wfx_rows K c b Wb), (wfx_cols K c b Wb).
  cbn [bits]. split; [reflexivity|]. unfold el at 1. cbn [dat]. rewrite get_mk by assumption.
  unfold matmul_el. rewrite (wfx_cols r K a Wa).
  set (rb := capb _ _).
  assert (Hrb : 0 <= rb).
  { subst rb. unfold capb. destruct (_ >? _) eqn:E; [exact Hm|]. apply Z.mul_nonneg_nonneg; lia. }
  change 0 with (0 mod 2 ^ rb) at 1.
  rewrite (matmul_fold (bits a) (bits b) rb (fun k => el a i k) (fun k => el b k j) Hrb).
  reflexivity.
Qed.

Lemma sumZ_bound (h : nat -> Z) B : 0 <= B -> forall n, (forall k, (k < n)%nat -> 0 <= h k <= B) ->
  forall s, (forall k, In k s -> (k < n)%nat) -> 0 <= sumZ (map h s) <= Z.of_nat (length s) * B.
Proof.
  intros HB n Hh s. induction s as [|k s IH]; intros Hs; cbn [map sumZ fold_right length].
  - lia.
  - fold (sumZ (map h s)). specialize (IH (fun k H => Hs k (or_intror H))).
    pose proof (Hh k (Hs k (or_introl eq_refl))). lia.
Qed.

Lemma matmul_width_bound K wa wb : 1 <= K -> 0 <= wa -> 0 <= wb -> 1 <= wa + wb ->
  K * ((2 ^ wa - 1) * (2 ^ wb - 1)) < 2 ^ (K * K * (wa + wb)).
Proof.
  intros HK Ha Hb Hs.
  pose proof (pow2_pos wa Ha) as Pa. pose proof (pow2_pos wb Hb) as Pb.
  assert (X : (2 ^ wa - 1) * (2 ^ wb - 1) < 2 ^ (wa + wb)) by (rewrite Z.pow_add_r by lia; nia).
  assert (X0 : 0 <= (2 ^ wa - 1) * (2 ^ wb - 1)) by nia.
  destruct (Z.eq_dec K 1) as [->|Hne].
  - replace (1 * 1 * (wa + wb)) with (wa + wb) by ring. lia.
  - assert (HK2 : 2 <= K) by lia.
    pose proof (Z.pow_gt_lin_r 2 K ltac:(lia) ltac:(lia)) as Hlin.
    assert (Hexp : K + (wa + wb) <= K * K * (wa + wb)).
    { assert (H4 : 4 <= K * K) by nia. assert (H2 : 2 * K <= K * K) by nia.
      pose proof (Z.mul_le_mono_nonneg_r 4 (K * K) (wa + wb - 1) ltac:(lia) H4) as H5.
      replace (K * K * (wa + wb)) with (K * K * (wa + wb - 1) + K * K) by ring. lia. }
    pose proof (pow2_mono (K + (wa + wb)) (K * K * (wa + wb)) ltac:(lia)) as Hmono.
    rewrite Z.pow_add_r in Hmono by lia.
    pose proof (pow2_pos (wa + wb) ltac:(lia)) as Ps.
    assert (K * ((2 ^ wa - 1) * (2 ^ wb - 1)) < 2 ^ K * 2 ^ (wa + wb)) by nia.
    lia.
Qed.

(* when max_bits is not reached, the declared width K*K*(bits a + bits b) holds the exact value *)
Theorem matmul_width_exact r K c a b i j : wfx r K a -> wfx K c b -> mrange a -> mrange b ->
  1 <= bits a + bits b -> Z.of_nat K * Z.of_nat K * (bits a + bits b) <= maxb a ->
  (i < r)%nat -> (j < c)%nat ->
  bits (mmatmul a b) = Z.of_nat K * Z.of_nat K * (bits a + bits b) /\
  el (mmatmul a b) i j = dot_spec a b K i j.
Proof.
  intros Wa Wb Ra Rb Hs Hm Hi Hj.
  assert (HK : (0 < K)%nat) by apply Wa.
  assert (Hpos : 0 <= Z.of_nat K * Z.of_nat K * (bits a + bits b)) by (apply Z.mul_nonneg_nonneg; lia).
  destruct (matmul_mod r K c a b i j Wa Wb ltac:(lia) ltac:(lia) Hi Hj) as [Eb Ev].
  rewrite Ev, Eb, capb_id by exact Hm. split; [reflexivity|]. apply Z.mod_small.
  assert (Ha : 0 <= bits a) by (apply (inrange_nonneg_w (el a 0 0)); apply Ra).
  assert (Hb : 0 <= bits b) by (apply (inrange_nonneg_w (el b 0 0)); apply Rb).
  pose proof (pow2_pos (bits a) Ha) as Pa. pose proof (pow2_pos (bits b) Hb) as Pb.
  unfold dot_spec.
  pose proof (sumZ_bound (fun k => el a i k * el b k j) ((2 ^ bits a - 1) * (2 ^ bits b - 1)) ltac:(nia) K) as SB.
  assert (Hk : forall k, (k < K)%nat ->
             0 <= el a i k * el b k j <= (2 ^ bits a - 1) * (2 ^ bits b - 1)).
  { intros k _. pose proof (Ra i k) as [? ?]. pose proof (Rb k j) as [? ?]. nia. }
  specialize (SB Hk (seq 0 K)). rewrite seq_length in SB.
  assert (Hin : forall k, In k (seq 0 K) -> (k < K)%nat) by (intros k Hk'; apply in_seq in Hk'; lia).
  specialize (SB Hin).
  pose proof (matmul_width_bound (Z.of_nat K) (bits a) (bits b) ltac:(lia) Ha Hb Hs). lia.
Qed.

(* ------------------------------------------------------------------ transpose *)
Theorem transpose_correct r c a i j : wfx r c a -> mrange a -> bits a <= maxb a ->
  (i < c)%nat -> (j < r)%nat ->
  el (mtranspose a) i j = el a j i /\ bits (mtranspose a) = bits a /\ wfx c r (mtranspose a).
Proof.
  intros W R Hm Hi Hj. pose proof W as [_ [Hr Hc]]. unfold mtranspose.
  rewrite (wfx_rows r c a W), (wfx_cols r c a W). rewrite el_mnew by assumption.
  rewrite capb_id by exact Hm. split; [apply trunc_id, R|]. split; [cbn [mnew bits]; apply capb_id; exact Hm|].
  apply wfx_mnew; assumption.
Qed.

Lemma get_mk_out r c f i j : ~ ((i < r)%nat /\ (j < c)%nat) -> get (mk r c f) i j = 0.
Proof.
  intros H. unfold get. destruct (lt_dec i r) as [Hi|Hi].
  - unfold mk. rewrite (nth_map_seq (fun i => map (fun j => f i j) (seq 0 c))) by exact Hi.
    apply nth_overflow. rewrite map_length, seq_length. lia.
  - rewrite (nth_overflow (mk r c f)) by (rewrite (proj1 (wfm_mk r c f)); lia). destruct j; reflexivity.
Qed.

Lemma mrange_mnew r c b mb f : 0 <= capb b mb -> mrange (mnew r c b mb f).
Proof.
  intros Hb i j. unfold el, mnew. cbn [dat bits].
  destruct (lt_dec i r) as [Hi|Hi]; [destruct (lt_dec j c) as [Hj|Hj]|].
  - rewrite get_mk by assumption. apply trunc_range; exact Hb.
  - rewrite get_mk_out by lia. split; [lia|apply pow2_pos; exact Hb].
  - rewrite get_mk_out by lia. split; [lia|apply pow2_pos; exact Hb].
Qed.

Lemma mrange_transpose r c a : wfx r c a -> mrange a -> bits a <= maxb a -> mrange (mtranspose a).
Proof.
  intros W R Hm.
  assert (Hb : 0 <= bits a) by (apply (inrange_nonneg_w (el a 0 0)); apply R).
  unfold mtranspose. apply mrange_mnew. rewrite capb_id by exact Hm. exact Hb.
Qed.

Theorem transpose_involutive r c a : wfx r c a -> mrange a -> bits a <= maxb a ->
  dat (mtranspose (mtranspose a)) = dat a.
Proof.
  intros W R Hm. pose proof W as [Wm [Hr Hc]].
  assert (Wt : wfx c r (mtranspose a)) by (apply (transpose_correct r c a 0 0); assumption).
  assert (Rt : mrange (mtranspose a)) by (apply (mrange_transpose r c); assumption).
  assert (Bt : bits (mtranspose a) = bits a) by (apply (transpose_correct r c a 0 0); assumption).
  assert (Mt : maxb (mtranspose a) = maxb a) by reflexivity.
  apply (mat_ext r c); [|exact Wm|].
  - apply (transpose_correct c r (mtranspose a) 0 0); try assumption. lia.
  - intros i j Hi Hj.
    destruct (transpose_correct c r (mtranspose a) i j Wt Rt ltac:(lia) Hi Hj) as [E _].
    unfold el in E. rewrite E.
    destruct (transpose_correct r c a j i W R Hm Hj Hi) as [E2 _]. exact E2.
Qed.

(* ------------------------------------------------------------------ reshape index maps *)
(* C order: ix |-> (ix / c, ix mod c) and (i, j) |-> i*c + j are mutually inverse between
   [0, r*c) and [0,r) x [0,c) *)
Theorem reshape_C_bijection r c : (0 < c)%nat ->
  (forall ix, (ix < r * c)%nat ->
     (fst (src_C r c ix) < r)%nat /\ (snd (src_C r c ix) < c)%nat /\
     ix_C r c (fst (src_C r c ix)) (snd (src_C r c ix)) = ix) /\
  (forall i j, (i < r)%nat -> (j < c)%nat ->
     (ix_C r c i j < r * c)%nat /\ src_C r c (ix_C r c i j) = (i, j)).
Proof.
  intros Hc. split.
  - intros ix H. unfold src_C, ix_C. cbn [fst snd]. destruct (divmod_lt r c ix H) as [H1 [H2 H3]].
    repeat split; try assumption. lia.
  - intros i j Hi Hj. unfold src_C, ix_C. split; [nia|]. f_equal.
    + rewrite Nat.div_add_l by lia. rewrite Nat.div_small by exact Hj. lia.
    + rewrite Nat.add_comm, Nat.mod_add by lia. apply Nat.mod_small; exact Hj.
Qed.

(* F order: ix |-> (ix mod r, ix / r) and (i, j) |-> j*r + i *)
Theorem reshape_F_bijection r c : (0 < r)%nat ->
  (forall ix, (ix < r * c)%nat ->
     (fst (src_F r c ix) < r)%nat /\ (snd (src_F r c ix) < c)%nat /\
     ix_F r c (fst (src_F r c ix)) (snd (src_F r c ix)) = ix) /\
  (forall i j, (i < r)%nat -> (j < c)%nat ->
     (ix_F r c i j < r * c)%nat /\ src_F r c (ix_F r c i j) = (i, j)).
Proof.
  intros Hr. split.
  - intros ix H. unfold src_F, ix_F. cbn [fst snd].
    destruct (divmod_lt c r ix ltac:(lia)) as [H1 [H2 H3]]. repeat split; try assumption. lia.
  - intros i j Hi Hj. unfold src_F, ix_F. split; [nia|]. f_equal.
    + rewrite Nat.add_comm, Nat.mod_add by lia. apply Nat.mod_small; exact Hi.
    + rewrite Nat.div_add_l by lia. rewrite Nat.div_small by exact Hi. lia.
Qed.

Lemma resolve_shape_pos count nr nc : 0 < nr -> 0 < nc -> nr * nc = count ->
  resolve_shape count nr nc = Some (nr, nc).
Proof.
  intros Hr Hc E. unfold resolve_shape.
  replace (nr =? -1) with false by lia. replace (nc =? -1) with false by lia. cbn [andb].
  replace ((nr * nc =? count) && (0 <? nr) && (0 <? nc)) with true by lia. reflexivity.
Qed.

(* a -1 dimension is inferred as count / other *)
Lemma resolve_shape_infer_rows count nc : 0 < nc -> (count / nc) * nc = count -> 0 < count ->
  resolve_shape count (-1) nc = Some (count / nc, nc).
Proof.
  intros Hc E H0. unfold resolve_shape.
  replace (nc =? -1) with false by lia. cbn [Z.eqb andb Pos.eqb].
  assert (0 < count / nc) by nia.
  replace ((count / nc * nc =? count) && (0 <? count / nc) && (0 <? nc)) with true by lia. reflexivity.
Qed.
Lemma resolve_shape_infer_cols count nr : 0 < nr -> nr * (count / nr) = count -> 0 < count ->
  resolve_shape count nr (-1) = Some (nr, count / nr).
Proof.
  intros Hr E H0. unfold resolve_shape.
  replace (nr =? -1) with false by lia. cbn [Z.eqb andb Pos.eqb].
  assert (0 < count / nr) by nia.
  replace ((nr * (count / nr) =? count) && (0 <? nr) && (0 <? count / nr)) with true by lia. reflexivity.
Qed.

(* reshape in C order keeps the row-major reading; in F order it keeps the column-major reading
   (= the row-major reading of the transpose) *)
Theorem reshape_C_correct r c a r' c' i j : wfx r c a -> mrange a -> bits a <= maxb a ->
  (0 < r')%nat -> (0 < c')%nat -> (r' * c' = r * c)%nat -> (i < r')%nat -> (j < c')%nat ->
  exists res, mreshape a (Z.of_nat r') (Z.of_nat c') false = Some res /\ wfx r' c' res /\
    bits res = bits a /\ el res i j = nth (i * c' + j) (flat (dat a)) 0.
Proof.
  intros W R Hm Hr' Hc' E Hi Hj. pose proof W as [Wm [Hr Hc]].
  unfold mreshape. rewrite (wfx_rows r c a W), (wfx_cols r c a W).
  rewrite resolve_shape_pos by nia. rewrite !Nat2Z.id. eexists. split; [reflexivity|].
  split; [apply wfx_mnew; assumption|]. split; [cbn [mnew bits]; apply capb_id; exact Hm|].
  rewrite el_mnew by assumption. rewrite capb_id by exact Hm.
  assert (Hk : (ix_C r' c' i j < r * c)%nat) by (unfold ix_C; nia).
  destruct (reshape_C_bijection r c Hc) as [B _]. destruct (B _ Hk) as [H1 [H2 H3]].
  destruct (src_C r c (ix_C r' c' i j)) as [sr sc] eqn:Es. cbn [fst snd] in *.
  rewrite trunc_id by apply R. unfold el. rewrite <- (nth_flat r c) by assumption.
  unfold ix_C in H3. rewrite H3. reflexivity.
Qed.

Theorem reshape_F_correct r c a r' c' i j : wfx r c a -> mrange a -> bits a <= maxb a ->
  (0 < r')%nat -> (0 < c')%nat -> (r' * c' = r * c)%nat -> (i < r')%nat -> (j < c')%nat ->
  exists res, mreshape a (Z.of_nat r') (Z.of_nat c') true = Some res /\ wfx r' c' res /\
    bits res = bits a /\ el res i j = nth (j * r' + i) (flat (dat (mtranspose a))) 0.
Proof.
  intros W R Hm Hr' Hc' E Hi Hj. pose proof W as [Wm [Hr Hc]].
  unfold mreshape. rewrite (wfx_rows r c a W), (wfx_cols r c a W).
  rewrite resolve_shape_pos by nia. rewrite !Nat2Z.id. eexists. split; [reflexivity|].
  split; [apply wfx_mnew; assumption|]. split; [cbn [mnew bits]; apply capb_id; exact Hm|].
  rewrite el_mnew by assumption. rewrite capb_id by exact Hm.
  assert (Hk : (ix_F r' c' i j < r * c)%nat) by (unfold ix_F; nia).
  destruct (reshape_F_bijection r c Hr) as [B _]. destruct (B _ Hk) as [H1 [H2 H3]].
  destruct (src_F r c (ix_F r' c' i j)) as [sr sc] eqn:Es. cbn [fst snd] in *.
  rewrite trunc_id by apply R.
  destruct (transpose_correct r c a sc sr W R Hm H2 H1) as [Et [_ [Wt _]]].
  rewrite <- Et. unfold el. rewrite <- (nth_flat c r) by assumption.
  unfold ix_F in H3. rewrite H3. reflexivity.
Qed.

(* ------------------------------------------------------------------ reductions *)
Lemma wv_add_range wa wb x y : inrange x wa -> inrange y wb -> inrange (x + y) (Z.max wa wb + 1).
Proof.
  intros [Hx0 Hx1] [Hy0 Hy1].
  assert (0 <= wa) by (apply (inrange_nonneg_w x); split; assumption).
  assert (0 <= wb) by (apply (inrange_nonneg_w y); split; assumption).
  pose proof (pow2_mono wa (Z.max wa wb) ltac:(lia)). pose proof (pow2_mono wb (Z.max wa wb) ltac:(lia)).
  split; [lia|]. rewrite Z.pow_add_r by lia. lia.
Qed.

Lemma sum_fold b l : all_inrange b l -> forall w s, b <= w -> inrange s w ->
  fold_left sum_2 (as_wvs b l) (w, s) = (w + Z.of_nat (length l), s + sumZ l).
Proof.
  intros H. induction H as [|x xs Hx _ IH]; intros w s Hw Hs; cbn [as_wvs map fold_left length sumZ fold_right].
  - f_equal; lia.
  - fold (as_wvs b xs). fold (sumZ xs). unfold sum_2 at 2. cbn [fst snd].
    rewrite wv_add_exact by assumption. replace (Z.max w b) with w by lia.
    rewrite IH; [f_equal; lia|lia|].
    replace (w + 1) with (Z.max w b + 1) by lia. apply wv_add_range; assumption.
Qed.

(* reduce(sum_2, wires): the width grows by one per addition and the sum is exact *)
Theorem reduce_sum_exact b l : all_inrange b l ->
  snd (reduce1 sum_2 (0, 0) (as_wvs b l)) = sumZ l /\
  (l <> [] -> fst (reduce1 sum_2 (0, 0) (as_wvs b l)) = b + Z.of_nat (length l) - 1).
Proof.
  intros H. destruct l as [|x xs]; [split; [reflexivity|congruence]|].
  inversion H as [|? ? Hx Hxs]; subst. cbn [as_wvs map reduce1].
  fold (as_wvs b xs). rewrite (sum_fold b xs Hxs b x ltac:(lia) Hx). cbn [fst snd sumZ fold_right length].
  split; [reflexivity|]. intros _. lia.
Qed.

Definition is_max (m : Z) (l : list Z) : Prop := In m l /\ forall x, In x l -> x <= m.
Definition is_min (m : Z) (l : list Z) : Prop := In m l /\ forall x, In x l -> m <= x.

Lemma max_fold b l : forall w s, snd (fold_left max_2 (as_wvs b l) (w, s)) = fold_left Z.max l s.
Proof.
  induction l as [|x xs IH]; intros w s; cbn [as_wvs map fold_left]; [reflexivity|].
  fold (as_wvs b xs). unfold max_2 at 2. cbn [fst snd]. rewrite IH. f_equal.
  destruct (s >? x) eqn:E; lia.
Qed.
Lemma min_fold b l : forall w s, snd (fold_left min_2 (as_wvs b l) (w, s)) = fold_left Z.min l s.
Proof.
  induction l as [|x xs IH]; intros w s; cbn [as_wvs map fold_left]; [reflexivity|].
  fold (as_wvs b xs). unfold min_2 at 2. cbn [fst snd]. rewrite IH. f_equal.
  destruct (s <? x) eqn:E; lia.
Qed.

Lemma fold_max_is_max xs : forall x, is_max (fold_left Z.max xs x) (x :: xs).
Proof.
  induction xs as [|y ys IH]; intros x; cbn [fold_left].
  - split; [left; reflexivity|]. intros z [<-|[]]. lia.
  - destruct (IH (Z.max x y)) as [Hin Hle]. split.
    + destruct Hin as [E|Hin]; [|right; right; exact Hin]. rewrite <- E.
      destruct (Z.max_spec x y) as [[_ ->]|[_ ->]]; [right; left|left]; reflexivity.
    + intros z [E|[E|Hz]].
      * specialize (Hle (Z.max x y) (or_introl eq_refl)). lia.
      * specialize (Hle (Z.max x y) (or_introl eq_refl)). lia.
      * apply Hle. right. exact Hz.
Qed.
Lemma fold_min_is_min xs : forall x, is_min (fold_left Z.min xs x) (x :: xs).
Proof.
  induction xs as [|y ys IH]; intros x; cbn [fold_left].
  - split; [left; reflexivity|]. intros z [<-|[]]. lia.
  - destruct (IH (Z.min x y)) as [Hin Hle]. split.
    + destruct Hin as [E|Hin]; [|right; right; exact Hin]. rewrite <- E.
      destruct (Z.min_spec x y) as [[_ ->]|[_ ->]]; [left|right; left]; reflexivity.
    + intros z [E|[E|Hz]].
      * specialize (Hle (Z.min x y) (or_introl eq_refl)). lia.
      * specialize (Hle (Z.min x y) (or_introl eq_refl)). lia.
      * apply Hle. right. exact Hz.
Qed.

Theorem reduce_max_is_max b l : l <> [] -> is_max (snd (reduce1 max_2 (0, 0) (as_wvs b l))) l.
Proof.
  intros Hne. destruct l as [|x xs]; [congruence|]. cbn [as_wvs map reduce1]. fold (as_wvs b xs).
  rewrite max_fold. apply fold_max_is_max.
Qed.
Theorem reduce_min_is_min b l : l <> [] -> is_min (snd (reduce1 min_2 (0, 0) (as_wvs b l))) l.
Proof.
  intros Hne. destruct l as [|x xs]; [congruence|]. cbn [as_wvs map reduce1]. fold (as_wvs b xs).
  rewrite min_fold. apply fold_min_is_min.
Qed.

Lemma col_range a j : mrange a -> all_inrange (bits a) (col a j).
Proof. intros R. apply Forall_forall. intros x Hin. apply in_map_iff in Hin. destruct Hin as [i [<- _]]. apply R. Qed.
Lemma row_range a i : mrange a -> all_inrange (bits a) (row a i).
Proof. intros R. apply Forall_forall. intros x Hin. apply in_map_iff in Hin. destruct Hin as [j [<- _]]. apply R. Qed.
Lemma col_nonempty r c a j : wfx r c a -> col a j <> [].
Proof.
  intros W. unfold col. rewrite (wfx_rows r c a W). destruct W as [_ [Hr _]].
  destruct r; [lia|]. cbn [seq map]. congruence.
Qed.
Lemma row_nonempty r c a i : wfx r c a -> row a i <> [].
Proof.
  intros W. unfold row. rewrite (wfx_cols r c a W). destruct W as [_ [_ Hc]].
  destruct c; [lia|]. cbn [seq map]. congruence.
Qed.

(* sum/min/max along an axis: Matrix(1, n, bits) whose element is the reduction of the column
   (axis 0) / row (axis 1), truncated to `bits` (default: the matrix's bits; default max_bits 64) *)
Theorem sum_axis0 r c a bo j : wfx r c a -> mrange a -> (j < c)%nat ->
  bits (msum a Ax0 bo) = capb (default_bits a bo) 64 /\
  el (msum a Ax0 bo) 0 j = sumZ (col a j) mod 2 ^ bits (msum a Ax0 bo).
Proof.
  intros W R Hj. unfold msum, mreduce. rewrite (wfx_cols r c a W). split; [reflexivity|].
  rewrite el_mnew by lia. cbn [mnew bits].
  rewrite (proj1 (reduce_sum_exact (bits a) (col a j) (col_range a j R))). reflexivity.
Qed.
Theorem sum_axis1 r c a bo i : wfx r c a -> mrange a -> (i < r)%nat ->
  bits (msum a Ax1 bo) = capb (default_bits a bo) 64 /\
  el (msum a Ax1 bo) 0 i = sumZ (row a i) mod 2 ^ bits (msum a Ax1 bo).
Proof.
  intros W R Hi. unfold msum, mreduce. rewrite (wfx_rows r c a W). split; [reflexivity|].
  rewrite el_mnew by lia. cbn [mnew bits].
  rewrite (proj1 (reduce_sum_exact (bits a) (row a i) (row_range a i R))). reflexivity.
Qed.
(* axis=None returns a WireVector wide enough for the exact total *)
Theorem sum_all_exact r c a bo : wfx r c a -> mrange a ->
  el (msum a AxNone bo) 0 0 = sumZ (flat (dat a)) /\
  bits (msum a AxNone bo) = bits a + Z.of_nat (r * c) - 1.
Proof.
  intros W R. unfold msum, mreduce, el. cbn [dat bits get nth].
  assert (F : all_inrange (bits a) (flat (dat a))).
  { apply Forall_forall. intros x Hin. destruct (In_nth _ _ 0 Hin) as [k [Hk <-]].
    rewrite (flat_length r c) in Hk by apply W. destruct (divmod_lt r c k Hk) as [H1 [H2 H3]].
    rewrite H3. rewrite (nth_flat r c) by (try apply W; assumption). apply R. }
  destruct (reduce_sum_exact (bits a) (flat (dat a)) F) as [E1 E2]. split; [exact E1|].
  rewrite E2; [rewrite (flat_length r c) by apply W; reflexivity|].
  intros E. pose proof (flat_length r c (dat a) (proj1 W)) as L. rewrite E in L. simpl in L.
  destruct W as [_ [? ?]]. nia.
Qed.

Theorem max_axis0 r c a bo j : wfx r c a -> (j < c)%nat ->
  exists m, is_max m (col a j) /\ el (mmax a Ax0 bo) 0 j = m mod 2 ^ bits (mmax a Ax0 bo).
Proof.
  intros W Hj. eexists. split; [apply (reduce_max_is_max (bits a)), (col_nonempty r c a j W)|].
  unfold mmax, mreduce. rewrite (wfx_cols r c a W). rewrite el_mnew by lia. reflexivity.
Qed.
Theorem max_axis1 r c a bo i : wfx r c a -> (i < r)%nat ->
  exists m, is_max m (row a i) /\ el (mmax a Ax1 bo) 0 i = m mod 2 ^ bits (mmax a Ax1 bo).
Proof.
  intros W Hi. eexists. split; [apply (reduce_max_is_max (bits a)), (row_nonempty r c a i W)|].
  unfold mmax, mreduce. rewrite (wfx_rows r c a W). rewrite el_mnew by lia. reflexivity.
Qed.
Theorem min_axis0 r c a bo j : wfx r c a -> (j < c)%nat ->
  exists m, is_min m (col a j) /\ el (mmin a Ax0 bo) 0 j = m mod 2 ^ bits (mmin a Ax0 bo).
Proof.
  intros W Hj. eexists. split; [apply (reduce_min_is_min (bits a)), (col_nonempty r c a j W)|].
  unfold mmin, mreduce. rewrite (wfx_cols r c a W). rewrite el_mnew by lia. reflexivity.
Qed.
Theorem min_axis1 r c a bo i : wfx r c a -> (i < r)%nat ->
  exists m, is_min m (row a i) /\ el (mmin a Ax1 bo) 0 i = m mod 2 ^ bits (mmin a Ax1 bo).
Proof.
  intros W Hi. eexists. split; [apply (reduce_min_is_min (bits a)), (row_nonempty r c a i W)|].
  unfold mmin, mreduce. rewrite (wfx_rows r c a W). rewrite el_mnew by lia. reflexivity.
Qed.
Lemma flat_nonempty r c a : wfx r c a -> flat (dat a) <> [].
Proof.
  intros W E. pose proof (flat_length r c (dat a) (proj1 W)) as L. rewrite E in L. simpl in L.
  destruct W as [_ [? ?]]. nia.
Qed.
Theorem max_all r c a bo : wfx r c a -> is_max (el (mmax a AxNone bo) 0 0) (flat (dat a)).
Proof. intros W. unfold mmax, mreduce, el. cbn [dat get nth]. apply reduce_max_is_max, (flat_nonempty r c a W). Qed.
Theorem min_all r c a bo : wfx r c a -> is_min (el (mmin a AxNone bo) 0 0) (flat (dat a)).
Proof. intros W. unfold mmin, mreduce, el. cbn [dat get nth]. apply reduce_min_is_min, (flat_nonempty r c a W). Qed.

(* ------------------------------------------------------------------ argmax *)
(* n is the FIRST position of m in l *)
Definition first_index (m : Z) (l : list Z) (n : nat) : Prop :=
  (n < length l)%nat /\ nth n l 0 = m /\ forall n', (n' < n)%nat -> nth n' l 0 <> m.

Lemma argmax_from_first l : forall m idx, In m l ->
  exists n, argmax_from m idx l = idx + Z.of_nat n /\ first_index m l n.
Proof.
  induction l as [|x xs IH]; intros m idx Hin; [destruct Hin|]. cbn [argmax_from].
  destruct (m =? x) eqn:E.
  - exists 0%nat. split; [lia|]. split; [cbn; lia|]. split; [cbn; lia|]. intros n' Hn'. lia.
  - assert (Hin' : In m xs) by (destruct Hin as [->|H]; [lia|exact H]).
    destruct (IH m (idx + 1) Hin') as [n [E1 [L [N F]]]].
    exists (S n). split; [lia|]. split; [cbn [length]; lia|]. split; [exact N|].
    intros [|n'] Hn'; cbn [nth]; [lia|]. apply F. lia.
Qed.

Theorem argmax_all_first_max r c a bo : wfx r c a ->
  exists m n, is_max m (flat (dat a)) /\ first_index m (flat (dat a)) n /\
              el (margmax a AxNone bo) 0 0 = Z.of_nat n.
Proof.
  intros W. pose proof (max_all r c a (Some (bits a)) W) as Hm.
  destruct (argmax_from_first (flat (dat a)) _ 0 (proj1 Hm)) as [n [E F]].
  exists (el (mmax a AxNone (Some (bits a))) 0 0), n. split; [exact Hm|]. split; [exact F|].
  unfold margmax, el at 1. cbn [dat get nth]. rewrite E. lia.
Qed.

(* along an axis the first maximal index is returned (mod 2^bits of the result) for every `bits`
   argument; the intermediate max(matrix, axis, bits=matrix.bits) is built with the default
   max_bits=64, hence the hypothesis bits a <= 64 *)
Theorem argmax_axis0_first_max r c a bo j : wfx r c a -> mrange a -> (j < c)%nat ->
  bits a <= 64 ->
  exists m n, is_max m (col a j) /\ first_index m (col a j) n /\
              el (margmax a Ax0 bo) 0 j = Z.of_nat n mod 2 ^ bits (margmax a Ax0 bo).
Proof.
  intros W R Hj Hb. destruct (max_axis0 r c a (Some (bits a)) j W Hj) as [m [Hm Em]].
  assert (Hr : inrange m (bits a)).
  { destruct Hm as [Hin _]. pose proof (col_range a j R) as F. unfold all_inrange in F.
    rewrite Forall_forall in F. apply F, Hin. }
  assert (Em' : el (mmax a Ax0 (Some (bits a))) 0 j = m).
  { rewrite Em. apply Z.mod_small. unfold mmax, mreduce. cbn [mnew bits default_bits].
    rewrite capb_id by exact Hb. exact Hr. }
  destruct (argmax_from_first (col a j) m 0 (proj1 Hm)) as [n [E F]].
  exists m, n. split; [exact Hm|]. split; [exact F|].
  unfold margmax. rewrite (wfx_cols r c a W). rewrite el_mnew by lia. cbn [mnew bits].
  rewrite Em', E. reflexivity.
Qed.
Theorem argmax_axis1_first_max r c a bo i : wfx r c a -> mrange a -> (i < r)%nat ->
  bits a <= 64 ->
  exists m n, is_max m (row a i) /\ first_index m (row a i) n /\
              el (margmax a Ax1 bo) 0 i = Z.of_nat n mod 2 ^ bits (margmax a Ax1 bo).
Proof.
  intros W R Hi Hb. destruct (max_axis1 r c a (Some (bits a)) i W Hi) as [m [Hm Em]].
  assert (Hr : inrange m (bits a)).
  { destruct Hm as [Hin _]. pose proof (row_range a i R) as F. unfold all_inrange in F.
    rewrite Forall_forall in F. apply F, Hin. }
  assert (Em' : el (mmax a Ax1 (Some (bits a))) 0 i = m).
  { rewrite Em. apply Z.mod_small. unfold mmax, mreduce. cbn [mnew bits default_bits].
    rewrite capb_id by exact Hb. exact Hr. }
  destruct (argmax_from_first (row a i) m 0 (proj1 Hm)) as [n [E F]].
  exists m, n. split; [exact Hm|]. split; [exact F|].
  unfold margmax. rewrite (wfx_rows r c a W). rewrite el_mnew by lia. cbn [mnew bits].
  rewrite Em', E. reflexivity.
Qed.

(* residue of the same mechanism: elements wider than 64 bits (only possible with max_bits > 64) are
   compared with a maximum truncated to the reduction's default max_bits=64 *)
Theorem argmax_wide_elements_refuted :
  exists a bo j m n, wfx 2 1 a /\ mrange a /\ is_max m (col a j) /\ first_index m (col a j) n /\
     el (margmax a Ax0 bo) 0 j <> Z.of_nat n mod 2 ^ bits (margmax a Ax0 bo).
Proof.
  exists (MkMx 65 100 [[2 ^ 64]; [2 ^ 64 + 1]]), None, 0%nat, (2 ^ 64 + 1), 1%nat.
  split; [repeat split; cbn; try lia; repeat constructor|].
  split.
  { intros i j. unfold el, get, inrange. cbn [dat bits].
    destruct i as [|[|i]]; cbn [nth].
    1,2: destruct j as [|j]; cbn [nth]; [lia|destruct j; cbn; lia].
    destruct i; cbn [nth]; destruct j; cbn; lia. }
  assert (C : col (MkMx 65 100 [[2 ^ 64]; [2 ^ 64 + 1]]) 0 = [2 ^ 64; 2 ^ 64 + 1]) by reflexivity. rewrite C.
  split; [split; [cbn; tauto|intros x [E|[E|[]]]; lia]|].
  split; [split; [cbn; lia|split; [reflexivity|]]; intros [|n'] H; cbn; lia|].
  vm_compute. congruence.
Qed.

(* ------------------------------------------------------------------ put: index modes *)
Ltac bcases :=
  repeat match goal with
  | |- context [Z.ltb ?a ?b] => destruct (Z.ltb a b) eqn:?
  | |- context [Z.gtb ?a ?b] => destruct (Z.gtb a b) eqn:?
  | |- context [Z.leb ?a ?b] => destruct (Z.leb a b) eqn:?
  | |- context [Z.geb ?a ?b] => destruct (Z.geb a b) eqn:?
  | |- context [Z.eqb ?a ?b] => destruct (Z.eqb a b) eqn:?
  end; cbn [orb andb]; try reflexivity; try lia; try (f_equal; lia); try (f_equal; f_equal; lia).

Section PutIx.
  Local Ltac Zify.zify_post_hook ::= Z.to_euclidean_division_equations.

  (* negative indices count from the end; what is still outside [0,count) is handled by the mode *)
  Definition from_end (count ix : Z) : Z := if ix <? 0 then ix + count else ix.

  Theorem put_ix_raise count ix : 0 < count ->
    put_ix count PRaise ix =
      if (- count <=? ix) && (ix <? count) then Some (from_end count ix) else None.
  Proof.
    intros Hc. unfold put_ix, from_end.
    destruct (ix <? 0) eqn:E1; cbn zeta;
      destruct ((_ <? 0) || (_ >=? count)) eqn:E2; destruct ((- count <=? ix) && (ix <? count)) eqn:E3;
      try reflexivity; try lia; f_equal; lia.
  Qed.

  Theorem put_ix_wrap count ix : 0 < count -> put_ix count PWrap ix = Some (ix mod count).
  Proof.
    intros Hc. unfold put_ix.
    destruct (ix <? 0) eqn:E1; cbn zeta; destruct ((_ <? 0) || (_ >=? count)) eqn:E2; f_equal.
    - replace (count - Z.abs ix) with (ix + 1 * count) by lia. apply Z.mod_add. lia.
    - replace (count - Z.abs ix) with (ix + 1 * count) by lia. rewrite <- (Z.mod_add ix 1 count) by lia.
      symmetry. apply Z.mod_small. lia.
    - symmetry. apply Z.mod_small. lia.
  Qed.

  Theorem put_ix_clip count ix : 0 < count ->
    put_ix count PClip ix = Some (Z.max 0 (Z.min (count - 1) (from_end count ix))).
  Proof.
    intros Hc. unfold put_ix, from_end.
    destruct (ix <? 0) eqn:E1; cbn zeta; destruct ((_ <? 0) || (_ >=? count)) eqn:E2; f_equal;
      repeat match goal with |- context [if ?b then _ else _] => destruct b eqn:? end; lia.
  Qed.
End PutIx.

(* writing flat position ix = i*c + j changes exactly element (i, j) *)
Theorem set_flat_spec r c a ix x i j : wfx r c a -> 0 <= ix < Z.of_nat (r * c) ->
  (i < r)%nat -> (j < c)%nat ->
  el (set_flat a ix x) i j = if Z.of_nat (i * c + j) =? ix then trunc (bits a) x else el a i j.
Proof.
  intros W Hix Hi Hj. pose proof W as [_ [Hr Hc]]. unfold set_flat.
  rewrite (wfx_rows r c a W), (wfx_cols r c a W). unfold el at 1. cbn [dat]. rewrite get_mk by assumption.
  assert (Hc' : 0 < Z.of_nat c) by lia.
  pose proof (Z.div_mod ix (Z.of_nat c) ltac:(lia)) as DM.
  pose proof (Z.mod_pos_bound ix (Z.of_nat c) Hc') as MB.
  assert (0 <= ix / Z.of_nat c) by (apply Z.div_pos; lia).
  destruct (Z.of_nat (i * c + j) =? ix) eqn:E.
  - assert (E' : ix = Z.of_nat i * Z.of_nat c + Z.of_nat j) by lia.
    assert (Hq : ix / Z.of_nat c = Z.of_nat i).
    { rewrite E'. rewrite Z.div_add_l by lia. rewrite Z.div_small by lia. lia. }
    assert (Hm : ix mod Z.of_nat c = Z.of_nat j).
    { rewrite E'. rewrite Z.add_comm, Z.mod_add by lia. apply Z.mod_small. lia. }
    rewrite Hq, Hm, !Nat2Z.id, !Nat.eqb_refl. reflexivity.
  - destruct (Nat.eqb i (Z.to_nat (ix / Z.of_nat c))) eqn:E1;
      destruct (Nat.eqb j (Z.to_nat (ix mod Z.of_nat c))) eqn:E2; try reflexivity.
    apply Nat.eqb_eq in E1, E2. exfalso. apply Z.eqb_neq in E. apply E.
    rewrite Nat2Z.inj_add, Nat2Z.inj_mul, E1, E2, !Z2Nat.id by lia. lia.
Qed.

(* ------------------------------------------------------------------ indexing *)
(* Python sequence semantics of an int index *)
Theorem key_get_int n z : 0 < n ->
  key_get n (KInt z) = if (- n <=? z) && (z <? n) then Some (from_end n z, from_end n z + 1) else None.
Proof.
  intros Hn. unfold key_get, neg_norm, chk, from_end. cbn zeta. bcases.
Qed.

(* slice bounds within [-n, n] are normalised like Python's; None means 0 / n *)
Definition py_bound (n : Z) (dflt : Z) (o : option Z) : Z :=
  match o with None => dflt | Some z => from_end n z end.
Theorem key_get_slice n s e st : 0 < n -> step_accepted st = true ->
  (forall z, s = Some z -> - n <= z <= n) -> (forall z, e = Some z -> - n <= z <= n) ->
  key_get n (KSl s e st) = Some (py_bound n 0 s, py_bound n n e).
Proof.
  intros Hn Hst Hs He. unfold key_get. rewrite Hst. unfold sl_bounds, chk, py_bound, neg_norm, from_end.
  destruct s as [s|]; destruct e as [e|];
    try (specialize (Hs s eq_refl)); try (specialize (He e eq_refl)); bcases.
Qed.

(* a step other than None / 1 is rejected, never silently ignored *)
Theorem key_get_step_rejected n s e z : z <> 1 -> key_get n (KSl s e (Some z)) = None.
Proof. intros Hz. unfold key_get, step_accepted. replace (z =? 1) with false by lia. reflexivity. Qed.

(* __setitem__ resolves int keys exactly like __getitem__ (m[-1, c] = v addresses the last row) *)
Theorem key_set_int n z : key_set n (KInt z) = key_get n (KInt z).
Proof. reflexivity. Qed.

(* the selected block: element (i, j) of the result is element (rs+i, cs+j) *)
Theorem getitem_block r c a kr kc rs re cs ce i j : wfx r c a -> mrange a -> bits a <= maxb a ->
  key_get (Z.of_nat r) kr = Some (rs, re) -> key_get (Z.of_nat c) kc = Some (cs, ce) ->
  0 <= rs < re -> 0 <= cs < ce -> (Z.of_nat i < re - rs) -> (Z.of_nat j < ce - cs) ->
  exists res, mgetitem a kr kc = Some res /\ bits res = bits a /\
              el res i j = el a (Z.to_nat rs + i) (Z.to_nat cs + j).
Proof.
  intros W R Hm Kr Kc Hrs Hcs Hi Hj. unfold mgetitem.
  rewrite (wfx_rows r c a W), (wfx_cols r c a W), Kr, Kc.
  replace ((re - rs <=? 0) || (ce - cs <=? 0)) with false by lia.
  destruct ((re - rs =? 1) && (ce - cs =? 1)) eqn:E.
  - eexists. split; [reflexivity|]. split; [reflexivity|].
    assert (i = 0%nat) by lia. assert (j = 0%nat) by lia. subst. rewrite !Nat.add_0_r. reflexivity.
  - eexists. split; [reflexivity|]. split; [cbn [mnew bits]; apply capb_id; exact Hm|].
    rewrite el_mnew by lia. rewrite capb_id by exact Hm. rewrite trunc_id by apply R.
    rewrite (Nat.add_comm i), (Nat.add_comm j). reflexivity.
Qed.

(* put with a row-vector Matrix of values behaves like put with the list of its elements *)
Theorem put_matrix_value_as_list a ind v mode : nth 0 (dat v) [] <> [] ->
  mput_mat a ind v mode = mput_list a ind (nth 0 (dat v) []) mode.
Proof.
  intros Hne. unfold mput_mat, mput_list. destruct (nth 0 (dat v) []) as [|x xs] eqn:E; [congruence|].
  generalize (Z.of_nat (rows_of a * cols_of a)) as count. intros count.
  assert (Hf : forall k, put_val_mat (x :: xs) k = put_val_list (x :: xs) k).
  { intros k. unfold put_val_mat, put_val_list. f_equal.
    destruct (Z.of_nat k >=? Z.of_nat (length (x :: xs))) eqn:E1;
      destruct (length (x :: xs) <=? k)%nat eqn:E2; try reflexivity.
    - apply Nat.leb_gt in E2. lia.
    - apply Nat.leb_le in E2. lia. }
  generalize 0%nat as k. revert a. induction ind as [|ix rest IH]; intros a0 k; cbn [put_loop]; [reflexivity|].
  destruct (put_ix count mode ix); [|reflexivity]. rewrite Hf.
  destruct (put_val_list (x :: xs) k); [apply IH|reflexivity].
Qed.

(* dot with a 1x1 operand is the scalar product, whichever side the 1x1 operand is on *)
Theorem dot_1x1_first a b : is11 a = true -> is11 b = false ->
  mdot a b = Some (mscal b (bits a) (el a 0 0)).
Proof. intros Ha Hb. unfold mdot. rewrite Ha, Hb. reflexivity. Qed.
Theorem dot_1x1_second a b : is11 a = false -> is11 b = true ->
  mdot a b = Some (mscal a (bits b) (el b 0 0)).
Proof. intros Ha Hb. unfold mdot. rewrite Ha, Hb. reflexivity. Qed.

(* ------------------------------------------------------------------ stacking *)
Lemma map_seq_offset {A} (f : nat -> A) n : forall k, map f (seq k n) = map (fun x => f (k + x)%nat) (seq 0 n).
Proof.
  induction n as [|n IH]; intros k; cbn [seq map]; [reflexivity|]. f_equal; [f_equal; lia|].
  rewrite (IH (S k)), <- seq_shift, map_map. apply map_ext. intros x. f_equal. lia.
Qed.

Lemma nth_mk_row r c f i : (i < r)%nat -> nth i (mk r c f) [] = map (fun j => f i j) (seq 0 c).
Proof. intros Hi. unfold mk. apply (nth_map_seq (fun i => map (fun j => f i j) (seq 0 c))). exact Hi. Qed.

Lemma map_hget ms i :
  map (hget ms i) (seq 0 (natsum (map cols_of ms))) = concat (map (fun m => row m i) ms).
Proof.
  induction ms as [|m rest IH]; cbn [map natsum fold_right concat seq]; [reflexivity|].
  fold (natsum (map cols_of rest)). rewrite seq_app, map_app. f_equal.
  - unfold row. apply map_ext_in. intros j Hj. apply in_seq in Hj. cbn [hget].
    replace (j <? cols_of m)%nat with true by (symmetry; apply Nat.ltb_lt; lia). reflexivity.
  - rewrite map_seq_offset, <- IH. apply map_ext. intros x. cbn [hget Nat.add].
    replace (cols_of m + x <? cols_of m)%nat with false by (symmetry; apply Nat.ltb_ge; lia).
    f_equal. lia.
Qed.

(* hstack: every row of the result is the concatenation of the operands' rows (zero-extended to
   the widest element width) *)
Theorem hstack_rows m1 m2 ms i : let all := m1 :: m2 :: ms in
  forallb (fun x => Nat.eqb (rows_of x) (rows_of m1)) all = true -> (i < rows_of m1)%nat ->
  exists res, mhstack all = Some res /\
    bits res = capb (zmaxl (map bits all)) (zmaxl (map maxb all)) /\
    nth i (dat res) [] = map (trunc (bits res)) (concat (map (fun m => row m i) all)).
Proof.
  intros all Hall Hi. subst all. unfold mhstack. cbv beta iota. rewrite Hall. eexists. split; [reflexivity|].
  split; [reflexivity|]. cbn [mnew dat bits]. rewrite nth_mk_row by exact Hi.
  rewrite <- map_hget, map_map. reflexivity.
Qed.

Lemma map_vget ms c nb :
  map (fun i => map (fun j => trunc nb (vget ms i j)) (seq 0 c)) (seq 0 (natsum (map rows_of ms)))
  = concat (map (fun m => map (fun i => map (fun j => trunc nb (el m i j)) (seq 0 c)) (seq 0 (rows_of m))) ms).
Proof.
  induction ms as [|m rest IH]; cbn [map natsum fold_right concat seq]; [reflexivity|].
  fold (natsum (map rows_of rest)). rewrite seq_app, map_app. f_equal.
  - apply map_ext_in. intros i Hi. apply in_seq in Hi. apply map_ext. intros j. cbn [vget].
    replace (i <? rows_of m)%nat with true by (symmetry; apply Nat.ltb_lt; lia). reflexivity.
  - rewrite map_seq_offset, <- IH. apply map_ext. intros x. apply map_ext. intros j. cbn [vget Nat.add].
    replace (rows_of m + x <? rows_of m)%nat with false by (symmetry; apply Nat.ltb_ge; lia).
    do 2 f_equal. lia.
Qed.

Lemma mk_el_rows c a nb : wfm (rows_of a) c (dat a) ->
  map (fun i => map (fun j => trunc nb (el a i j)) (seq 0 c)) (seq 0 (rows_of a)) = map (map (trunc nb)) (dat a).
Proof.
  intros W. change (map (fun i => map (fun j => trunc nb (el a i j)) (seq 0 c)) (seq 0 (rows_of a)))
    with (mk (rows_of a) c (fun i j => trunc nb (el a i j))).
  apply (mat_ext (rows_of a) c); [apply wfm_mk| |].
  - destruct W as [L F]. split; [rewrite map_length; exact L|]. apply Forall_forall. intros row Hin.
    apply in_map_iff in Hin. destruct Hin as [row' [<- Hin]]. rewrite map_length.
    rewrite Forall_forall in F. apply F, Hin.
  - intros i j Hi Hj. rewrite get_mk by assumption. unfold get.
    rewrite nth_indep with (d' := map (trunc nb) []) by (rewrite map_length; exact Hi).
    rewrite map_nth.
    change (nth j (map (trunc nb) (nth i (dat a) [])) 0) with (nth j (map (trunc nb) (nth i (dat a) [])) (trunc nb 0)).
    rewrite map_nth. reflexivity.
Qed.

(* vstack: the rows of the result are the operands' rows one after another *)
Theorem vstack_rows m1 m2 ms : let all := m1 :: m2 :: ms in
  forallb (fun x => Nat.eqb (cols_of x) (cols_of m1)) all = true ->
  (forall m, In m all -> wfm (rows_of m) (cols_of m1) (dat m)) ->
  exists res, mvstack all = Some res /\
    bits res = capb (zmaxl (map bits all)) (zmaxl (map maxb all)) /\
    dat res = map (map (trunc (bits res))) (concat (map dat all)).
Proof.
  intros all Hall W. subst all. unfold mvstack. cbv beta iota. rewrite Hall. eexists. split; [reflexivity|].
  split; [reflexivity|]. cbn [mnew dat bits]. unfold mk. rewrite map_vget.
  set (nb := capb _ _). clearbody nb. clear Hall. revert W. generalize (m1 :: m2 :: ms) as all.
  induction all as [|m rest IH]; intros W; [reflexivity|].
  cbn [map concat]. rewrite map_app. f_equal.
  - apply mk_el_rows. apply W. left. reflexivity.
  - apply IH. intros m' Hin. apply W. right. exact Hin.
Qed.

(* ------------------------------------------------------------------ matrix power *)
(* the mathematical power: A^0 = I, A^1 = A, A^(n+1) = A^n . A *)
Fixpoint mat_pow_spec (a : Mx) (n : nat) (i j : nat) : Z :=
  match n with
  | O => if Nat.eqb i j then 1 else 0
  | S k => match k with
           | O => el a i j
           | S _ => sumZ (map (fun t => mat_pow_spec a k i t * el a t j) (seq 0 (rows_of a)))
           end
  end.

Lemma sumZ_map_ext (f g : nat -> Z) l : (forall k, In k l -> f k = g k) -> sumZ (map f l) = sumZ (map g l).
Proof. intros H. f_equal. apply map_ext_in. exact H. Qed.

Lemma sumZ_mod_mul_l M (f g : nat -> Z) l :
  sumZ (map (fun k => (f k mod M) * g k) l) mod M = sumZ (map (fun k => f k * g k) l) mod M.
Proof.
  induction l as [|k l IH]; cbn [map sumZ fold_right]; [reflexivity|].
  fold (sumZ (map (fun k => (f k mod M) * g k) l)). fold (sumZ (map (fun k => f k * g k) l)).
  rewrite Zplus_mod, IH, Zmult_mod_idemp_l, <- Zplus_mod. reflexivity.
Qed.

Lemma wfx_matmul r K c a b : wfx r K a -> wfx K c b -> wfx r c (mmatmul a b).
Proof.
  intros Wa Wb. unfold mmatmul. rewrite (wfx_rows r K a Wa), (wfx_cols K c b Wb).
  split; [apply wfm_mk|]. split; [apply Wa|apply Wb].
Qed.

Lemma matmul_bits_nonneg a b : 0 <= maxb a -> 0 <= bits a + bits b -> 0 <= matmul_bits a b.
Proof.
  intros Hm Hs. unfold matmul_bits, capb. destruct (_ >? _) eqn:E; [exact Hm|].
  apply Z.mul_nonneg_nonneg; lia.
Qed.

Lemma mrange_matmul r K c a b : wfx r K a -> wfx K c b -> 0 <= maxb a -> 0 <= bits a + bits b ->
  mrange (mmatmul a b).
Proof.
  intros Wa Wb Hm Hs i j.
  assert (Hrb : 0 <= bits (mmatmul a b)) by (apply matmul_bits_nonneg; assumption).
  destruct (lt_dec i r) as [Hi|Hi]; [destruct (lt_dec j c) as [Hj|Hj]|].
  - destruct (matmul_mod r K c a b i j Wa Wb Hm Hs Hi Hj) as [_ E]. rewrite E. apply mod_range. exact Hrb.
  - unfold el, mmatmul. cbn [dat]. rewrite (wfx_rows r K a Wa), (wfx_cols K c b Wb).
    rewrite get_mk_out by lia. split; [lia|apply pow2_pos; exact Hrb].
  - unfold el, mmatmul. cbn [dat]. rewrite (wfx_rows r K a Wa), (wfx_cols K c b Wb).
    rewrite get_mk_out by lia. split; [lia|apply pow2_pos; exact Hrb].
Qed.

(* acc holds A^n (n >= 1): exactly while max_bits has not been reached, mod 2^max_bits afterwards *)
Definition pow_inv (r : nat) (a acc : Mx) (n : nat) : Prop :=
  wfx r r acc /\ maxb acc = maxb a /\ mrange acc /\ 0 < bits acc <= maxb a /\
  ((forall i j, (i < r)%nat -> (j < r)%nat -> el acc i j = mat_pow_spec a n i j) \/
   (bits acc = maxb a /\
    forall i j, (i < r)%nat -> (j < r)%nat -> el acc i j = mat_pow_spec a n i j mod 2 ^ maxb a)).

Lemma pow_step r a acc c n : wfx r r a -> 0 < bits a <= maxb a ->
  wfx r r c -> bits c = bits a -> mrange c -> (forall i j, el c i j = el a i j) ->
  pow_inv r a acc (S n) -> pow_inv r a (mmatmul acc c) (S (S n)).
Proof.
  intros Wa Hb Wc Bc Rc Ec [Wacc [Macc [Racc [Bacc Hv]]]].
  assert (Hr : (0 < r)%nat) by apply Wa.
  assert (Hs : 0 <= bits acc + bits c) by lia.
  assert (Wn : wfx r r (mmatmul acc c)) by (apply (wfx_matmul r r r); assumption).
  assert (Rn : mrange (mmatmul acc c)) by (apply (mrange_matmul r r r); try assumption; lia).
  assert (Hspec : forall i j, (i < r)%nat -> (j < r)%nat ->
            mat_pow_spec a (S (S n)) i j = sumZ (map (fun t => mat_pow_spec a (S n) i t * el a t j) (seq 0 r))).
  { intros i j _ _. cbn [mat_pow_spec]. rewrite (wfx_rows r r a Wa). reflexivity. }
  assert (Hbits : bits (mmatmul acc c) = capb (Z.of_nat r * Z.of_nat r * (bits acc + bits c)) (maxb acc)).
  { apply (matmul_mod r r r acc c 0 0); try assumption; lia. }
  assert (Hpos : 0 < Z.of_nat r * Z.of_nat r * (bits acc + bits c)).
  { apply Z.mul_pos_pos; [apply Z.mul_pos_pos|]; lia. }
  assert (Bn : 0 < bits (mmatmul acc c) <= maxb a).
  { rewrite Hbits, Macc. unfold capb. destruct (_ >? _) eqn:E; lia. }
  split; [exact Wn|]. split; [exact Macc|]. split; [exact Rn|]. split; [exact Bn|].
  destruct Hv as [Hex|[Hcap Hmod]].
  - (* values exact so far *)
    assert (Hdot : forall i j, (i < r)%nat -> (j < r)%nat ->
              dot_spec acc c r i j = mat_pow_spec a (S (S n)) i j).
    { intros i j Hi Hj. rewrite Hspec by assumption. unfold dot_spec. apply sumZ_map_ext.
      intros k Hk. apply in_seq in Hk. rewrite Hex by lia. rewrite Ec. reflexivity. }
    destruct (Z_le_gt_dec (Z.of_nat r * Z.of_nat r * (bits acc + bits c)) (maxb acc)) as [Hfit|Hover].
    + left. intros i j Hi Hj.
      destruct (matmul_width_exact r r r acc c i j Wacc Wc Racc Rc ltac:(lia) Hfit Hi Hj) as [_ E].
      rewrite E. apply Hdot; assumption.
    + right. split.
      * rewrite Hbits, Macc. unfold capb. rewrite Macc in Hover.
        destruct (_ >? _) eqn:E; [reflexivity|lia].
      * intros i j Hi Hj.
        destruct (matmul_mod r r r acc c i j Wacc Wc ltac:(lia) Hs Hi Hj) as [Eb E].
        rewrite E, Hdot by assumption. f_equal. f_equal.
        rewrite Eb, Macc. unfold capb. rewrite Macc in Hover. destruct (_ >? _) eqn:E2; [reflexivity|lia].
  - (* already capped: everything is mod 2^max_bits from here on *)
    right.
    assert (Hb2 : bits (mmatmul acc c) = maxb a).
    { rewrite Hbits, Macc, Hcap. unfold capb.
      destruct (_ >? _) eqn:E; [reflexivity|]. exfalso.
      assert (H1 : 1 <= Z.of_nat r * Z.of_nat r) by nia.
      pose proof (Z.mul_le_mono_nonneg_r 1 (Z.of_nat r * Z.of_nat r) (maxb a + bits c) ltac:(lia) H1). lia. }
    split; [exact Hb2|]. intros i j Hi Hj.
    destruct (matmul_mod r r r acc c i j Wacc Wc ltac:(lia) Hs Hi Hj) as [_ E].
    rewrite E, Hb2, Hspec by assumption. unfold dot_spec.
    rewrite <- (sumZ_mod_mul_l (2 ^ maxb a) (fun t => mat_pow_spec a (S n) i t) (fun t => el a t j)).
    f_equal. apply sumZ_map_ext. intros k Hk. apply in_seq in Hk. rewrite Hmod by lia. rewrite Ec. reflexivity.
Qed.

Lemma pow_from_inv r a c : wfx r r a -> 0 < bits a <= maxb a ->
  wfx r r c -> bits c = bits a -> mrange c -> (forall i j, el c i j = el a i j) ->
  forall k acc n, pow_inv r a acc (S n) -> pow_inv r a (mpow_from acc c k) (S n + k).
Proof.
  intros Wa Hb Wc Bc Rc Ec. induction k as [|k IH]; intros acc n Hinv; cbn [mpow_from].
  - rewrite Nat.add_0_r. exact Hinv.
  - replace (S n + S k)%nat with (S (S n) + k)%nat by lia. apply IH.
    apply (pow_step r a acc c n); assumption.
Qed.

(* a ** n : entry (i,j) is the mathematical power modulo 2^bits of the result *)
Theorem pow_correct r a n i j : wfx r r a -> mrange a -> 0 < bits a <= maxb a ->
  (i < r)%nat -> (j < r)%nat ->
  el (mpow a n) i j = mat_pow_spec a n i j mod 2 ^ bits (mpow a n).
Proof.
  intros Wa Ra Hb Hi Hj.
  destruct (copy_correct r r a Wa ltac:(lia) Ra) as [Cd Cb].
  set (c := mcopy a) in *.
  assert (Mc : maxb c = maxb a) by reflexivity.
  assert (Wc : wfx r r c).
  { destruct Wa as [Wm [Hr Hc]]. split; [rewrite Cd; exact Wm|split; assumption]. }
  assert (Ec : forall i j, el c i j = el a i j) by (intros; unfold el; rewrite Cd; reflexivity).
  assert (Rc : mrange c) by (intros i' j'; rewrite Ec, Cb; apply Ra).
  unfold mpow. fold c. destruct n as [|k].
  - unfold midentity, el at 1. cbn [dat bits]. rewrite (wfx_rows r r c Wc), (wfx_cols r r c Wc).
    rewrite get_mk by assumption. reflexivity.
  - assert (Inv0 : pow_inv r a c 1).
    { split; [exact Wc|]. split; [exact Mc|]. split; [exact Rc|]. split; [lia|].
      left. intros i' j' _ _. cbn [mat_pow_spec]. apply Ec. }
    pose proof (pow_from_inv r a c Wa Hb Wc Cb Rc Ec k c 0%nat Inv0) as [_ [_ [Rn [_ Hv]]]].
    cbn [Nat.add] in Hv. destruct Hv as [Hex|[Hcap Hmod]].
    + rewrite <- Hex by assumption. symmetry. apply Z.mod_small. apply Rn.
    + rewrite Hcap. apply Hmod; assumption.
Qed.

(* ------------------------------------------------------------------ dot: inner product *)
Lemma sumZ_mod_each M l : sumZ (map (fun x => x mod M) l) mod M = sumZ l mod M.
Proof.
  induction l as [|x l IH]; cbn [map sumZ fold_right]; [reflexivity|].
  fold (sumZ (map (fun x => x mod M) l)). fold (sumZ l).
  rewrite Zplus_mod, IH, Zmod_mod, <- Zplus_mod. reflexivity.
Qed.

(* the integer inner product of two equally shaped matrices, read in row-major order *)
Definition inner_spec (x y : Mx) (r c : nat) : Z :=
  sumZ (map (fun k => el x (k / c) (k mod c) * el y (k / c) (k mod c)) (seq 0 (r * c))).

Theorem inner_product_correct r c x y : wfx r c x -> mrange x -> mrange y -> 0 <= maxb x ->
  el (inner_product x y) 0 0 = inner_spec x y r c mod 2 ^ bits (inner_product x y) /\
  (bits x + bits y <= maxb x -> el (inner_product x y) 0 0 = inner_spec x y r c).
Proof.
  intros W Rx Ry Hm.
  assert (Hbx : 0 <= bits x) by (apply (inrange_nonneg_w (el x 0 0)); apply Rx).
  assert (Hby : 0 <= bits y) by (apply (inrange_nonneg_w (el y 0 0)); apply Ry).
  set (p := mmul x y).
  assert (Bp : bits p = capb (bits x + bits y) (maxb x)) by reflexivity.
  assert (Hbp : 0 <= bits p) by (rewrite Bp; unfold capb; destruct (_ >? _); lia).
  assert (Wp : wfx r c p).
  { unfold p, mmul. rewrite (wfx_rows r c x W), (wfx_cols r c x W). apply wfx_mnew; apply W. }
  assert (Rp : mrange p) by (unfold p, mmul; apply mrange_mnew; fold p; rewrite <- Bp; exact Hbp).
  destruct (sum_all_exact r c p None Wp Rp) as [Es Bs].
  assert (Fp : flat (dat p) = map (fun k => (el x (k / c) (k mod c) * el y (k / c) (k mod c)) mod 2 ^ bits p)
                                  (seq 0 (r * c))).
  { unfold p, mmul. rewrite (wfx_rows r c x W), (wfx_cols r c x W). cbn [mnew dat]. rewrite flat_mk.
    apply map_ext. intros k. rewrite wv_mul_exact by (try apply Rx; apply Ry). reflexivity. }
  assert (Hsum : sumZ (flat (dat p)) mod 2 ^ bits p = inner_spec x y r c mod 2 ^ bits p).
  { rewrite Fp. unfold inner_spec.
    rewrite <- (map_map (fun k => el x (k / c) (k mod c) * el y (k / c) (k mod c)) (fun v => v mod 2 ^ bits p)).
    apply sumZ_mod_each. }
  unfold inner_product. fold p. destruct (bits p <? bits x + bits y) eqn:Ecap.
  - (* capped: the sum is truncated to the products' width *)
    split.
    + cbn [bits]. unfold el at 1. cbn [dat get nth]. rewrite Es.
      assert (Hmin : Z.min (bits (msum p AxNone None)) (bits p) = bits p).
      { rewrite Bs. destruct Wp as [_ [Hr Hc]]. nia. }
      rewrite Hmin. unfold trunc. exact Hsum.
    + intros Hfit. rewrite Bp, capb_id in Ecap by exact Hfit. lia.
  - (* not capped: every product and the sum are exact *)
    assert (Bfull : bits p = bits x + bits y).
    { rewrite Bp. unfold capb. rewrite Bp in Ecap. unfold capb in Ecap. destruct (_ >? _) eqn:E; lia. }
    assert (Hexact : sumZ (flat (dat p)) = inner_spec x y r c).
    { rewrite Fp. unfold inner_spec. apply sumZ_map_ext. intros k _. apply Z.mod_small.
      rewrite Bfull. apply mul_lt_pow2; [apply Rx|apply Ry]. }
    assert (Hval : el (msum p AxNone None) 0 0 = inner_spec x y r c) by (rewrite Es; exact Hexact).
    split; [|intros _; exact Hval].
    rewrite Hval. symmetry. apply Z.mod_small.
    (* the reduction's wire is wide enough: every partial sum stays in range *)
    assert (F : all_inrange (bits p) (flat (dat p))).
    { apply Forall_forall. intros v Hin. rewrite Fp in Hin. apply in_map_iff in Hin.
      destruct Hin as [k [<- _]]. apply mod_range. exact Hbp. }
    rewrite <- Hexact.
    unfold msum, mreduce. cbn [bits].
    destruct (flat (dat p)) as [|v vs] eqn:El.
    { exfalso. apply (flat_nonempty r c p Wp). exact El. }
    inversion F as [|? ? Hv Hvs]; subst.
    cbn [as_wvs map reduce1]. fold (as_wvs (bits p) vs).
    rewrite (sum_fold (bits p) vs Hvs (bits p) v ltac:(lia) Hv). cbn [fst sumZ fold_right].
    fold (sumZ vs).
    assert (G : forall l w s, all_inrange (bits p) l -> bits p <= w -> inrange s w ->
              inrange (s + sumZ l) (w + Z.of_nat (length l))).
    { induction l as [|u l IHl]; intros w s Hl Hw Hs; cbn [sumZ fold_right length].
      - rewrite Z.add_0_r. replace (w + Z.of_nat 0) with w by lia. exact Hs.
      - fold (sumZ l). inversion Hl as [|? ? Hu Hl']; subst.
        replace (s + (u + sumZ l)) with ((s + u) + sumZ l) by ring.
        replace (w + Z.of_nat (S (length l))) with ((w + 1) + Z.of_nat (length l)) by lia.
        apply IHl; [exact Hl'|lia|].
        replace (w + 1) with (Z.max w (bits p) + 1) by lia. apply wv_add_range; assumption. }
    apply G; [exact Hvs|lia|exact Hv].
Qed.

(* ------------------------------------------------------------------ reversed, setitem, bits setter *)
Theorem reversed_correct r c a i j : wfx r c a -> mrange a -> bits a <= maxb a ->
  (i < r)%nat -> (j < c)%nat ->
  el (mreversed a) i j = el a (r - 1 - i) (c - 1 - j) /\ bits (mreversed a) = bits a.
Proof.
  intros W R Hm Hi Hj. unfold mreversed. rewrite (wfx_rows r c a W), (wfx_cols r c a W).
  rewrite el_mnew by assumption. rewrite capb_id by exact Hm.
  split; [apply trunc_id, R|cbn [mnew bits]; apply capb_id; exact Hm].
Qed.

(* m[kr, kc] = x for a single position: only that element changes, to x mod 2^bits *)
Theorem setitem_scalar r c a kr kc x rs cs i j : wfx r c a ->
  key_set (Z.of_nat r) kr = Some (rs, rs + 1) -> key_set (Z.of_nat c) kc = Some (cs, cs + 1) ->
  (i < r)%nat -> (j < c)%nat ->
  exists res, msetitem_s a kr kc x = Some res /\ bits res = bits a /\
    el res i j = if (Z.of_nat i =? rs) && (Z.of_nat j =? cs) then trunc (bits a) x else el a i j.
Proof.
  intros W Kr Kc Hi Hj. unfold msetitem_s. rewrite (wfx_rows r c a W), (wfx_cols r c a W), Kr, Kc.
  replace ((rs + 1 - rs =? 1) && (cs + 1 - cs =? 1)) with true by lia.
  eexists. split; [reflexivity|]. split; [reflexivity|].
  unfold el at 1. cbn [dat]. rewrite get_mk by assumption. unfold in_box.
  destruct ((Z.of_nat i =? rs) && (Z.of_nat j =? cs)) eqn:E.
  - replace ((rs <=? Z.of_nat i) && (Z.of_nat i <? rs + 1) && (cs <=? Z.of_nat j) && (Z.of_nat j <? cs + 1))
      with true by lia. reflexivity.
  - replace ((rs <=? Z.of_nat i) && (Z.of_nat i <? rs + 1) && (cs <=? Z.of_nat j) && (Z.of_nat j <? cs + 1))
      with false by lia. reflexivity.
Qed.

(* m[kr, kc] = <Matrix v>: the addressed block receives v (truncated to bits of m), the rest is unchanged *)
Theorem setitem_block r c a kr kc v rs re cs ce i j : wfx r c a ->
  key_set (Z.of_nat r) kr = Some (rs, re) -> key_set (Z.of_nat c) kc = Some (cs, ce) ->
  0 <= rs -> 0 <= cs -> Z.of_nat (rows_of v) = re - rs -> Z.of_nat (cols_of v) = ce - cs ->
  (i < r)%nat -> (j < c)%nat ->
  exists res, msetitem_m a kr kc v = Some res /\ bits res = bits a /\
    el res i j = if (rs <=? Z.of_nat i) && (Z.of_nat i <? re) && (cs <=? Z.of_nat j) && (Z.of_nat j <? ce)
                 then trunc (bits a) (el v (i - Z.to_nat rs) (j - Z.to_nat cs)) else el a i j.
Proof.
  intros W Kr Kc Hrs Hcs Hvr Hvc Hi Hj. unfold msetitem_m.
  rewrite (wfx_rows r c a W), (wfx_cols r c a W), Kr, Kc.
  replace ((Z.of_nat (rows_of v) =? re - rs) && (Z.of_nat (cols_of v) =? ce - cs)) with true by lia.
  eexists. split; [reflexivity|]. split; [reflexivity|].
  unfold el at 1. cbn [dat]. rewrite get_mk by assumption. reflexivity.
Qed.

Lemma get_map_map (f : Z -> Z) m i j : f 0 = 0 -> get (map (map f) m) i j = f (get m i j).
Proof.
  intros H0. unfold get. change (@nil Z) with (map f []) at 1. rewrite map_nth.
  rewrite <- H0 at 1. apply map_nth.
Qed.

(* the bits setter truncates every element (elem[:bits]) *)
Theorem set_bits_correct a b i j :
  el (mset_bits a b) i j = trunc b (el a i j) /\ bits (mset_bits a b) = b.
Proof.
  split; [|reflexivity]. unfold el, mset_bits. cbn [dat]. apply get_map_map. apply Zmod_0_l.
Qed.

(* ------------------------------------------------------------------ put: the whole loop *)
Section PutRange.
  Local Ltac Zify.zify_post_hook ::= Z.to_euclidean_division_equations.
  Lemma put_ix_range count mode ix p : 0 < count -> put_ix count mode ix = Some p -> 0 <= p < count.
  Proof.
    intros Hc. unfold put_ix. cbn zeta. destruct mode;
      repeat match goal with |- context [if ?b then _ else _] => destruct b eqn:? end;
      intros H; inversion H; subst; clear H; lia.
  Qed.
End PutRange.

(* value left at flat position pos by the writes of put, in the order of `ind`: the LAST write wins *)
Fixpoint put_last (count : Z) (mode : pmode) (valf : nat -> option Z) (b pos : Z)
         (ind : list Z) (k : nat) (d : Z) : Z :=
  match ind with
  | [] => d
  | ix :: rest =>
      match put_ix count mode ix, valf k with
      | Some p, Some x => put_last count mode valf b pos rest (S k) (if p =? pos then trunc b x else d)
      | _, _ => d
      end
  end.

(* every index resolves under the mode and every value exists *)
Fixpoint put_ok (count : Z) (mode : pmode) (valf : nat -> option Z) (ind : list Z) (k : nat) : bool :=
  match ind with
  | [] => true
  | ix :: rest =>
      match put_ix count mode ix, valf k with
      | Some _, Some _ => put_ok count mode valf rest (S k)
      | _, _ => false
      end
  end.

Lemma wfx_set_flat r c a ix x : wfx r c a -> wfx r c (set_flat a ix x) /\ bits (set_flat a ix x) = bits a.
Proof.
  intros W. unfold set_flat. rewrite (wfx_rows r c a W), (wfx_cols r c a W).
  split; [|reflexivity]. split; [apply wfm_mk|]. split; apply W.
Qed.

Theorem put_loop_spec r c mode valf : forall ind a k,
  wfx r c a ->
  (put_loop a (Z.of_nat (r * c)) mode valf ind k = None <-> put_ok (Z.of_nat (r * c)) mode valf ind k = false) /\
  (forall res, put_loop a (Z.of_nat (r * c)) mode valf ind k = Some res ->
     wfx r c res /\ bits res = bits a /\
     forall i j, (i < r)%nat -> (j < c)%nat ->
       el res i j = put_last (Z.of_nat (r * c)) mode valf (bits a) (Z.of_nat (i * c + j)) ind k (el a i j)).
Proof.
  induction ind as [|ix rest IH]; intros a k W; cbn [put_loop put_ok put_last].
  - split; [split; discriminate|]. intros res H. inversion H; subst. repeat split; try apply W; reflexivity.
  - destruct (put_ix (Z.of_nat (r * c)) mode ix) as [p|] eqn:Ep; [|split; [tauto|discriminate]].
    destruct (valf k) as [x|] eqn:Ev; [|split; [tauto|discriminate]].
    destruct (wfx_set_flat r c a p x W) as [W' B'].
    destruct (IH (set_flat a p x) (S k) W') as [IHn IHs]. split; [exact IHn|].
    intros res H. destruct (IHs res H) as [Wr [Br Hel]]. split; [exact Wr|]. split; [congruence|].
    intros i j Hi Hj. rewrite (Hel i j Hi Hj), B'. f_equal.
    assert (Hcount : 0 < Z.of_nat (r * c)) by (destruct W as [_ [? ?]]; nia).
    pose proof (put_ix_range _ _ _ _ Hcount Ep) as Hp.
    rewrite (set_flat_spec r c a p x i j W Hp Hi Hj).
    rewrite (Z.eqb_sym p). reflexivity.
Qed.

Lemma put_loop_maxb count mode valf : forall ind a k res,
  put_loop a count mode valf ind k = Some res -> maxb res = maxb a.
Proof.
  induction ind as [|ix rest IH]; intros a k res H; cbn [put_loop] in H.
  - inversion H. reflexivity.
  - destruct (put_ix count mode ix); [|discriminate]. destruct (valf k); [|discriminate].
    apply IH in H. exact H.
Qed.

(* m.put(ind, v, mode) with a non-empty list of values *)
Theorem put_list_spec r c a ind v mode : wfx r c a -> v <> [] ->
  let count := Z.of_nat (r * c) in
  (mput_list a ind v mode = None <-> exists ix, In ix ind /\ put_ix count mode ix = None) /\
  (forall res, mput_list a ind v mode = Some res ->
     wfx r c res /\ bits res = bits a /\ maxb res = maxb a /\
     forall i j, (i < r)%nat -> (j < c)%nat ->
       el res i j = put_last count mode (put_val_list v) (bits a) (Z.of_nat (i * c + j)) ind 0 (el a i j)).
Proof.
  intros W Hv count. unfold mput_list. destruct v as [|v0 vs]; [congruence|].
  rewrite (wfx_rows r c a W), (wfx_cols r c a W). fold count.
  destruct (put_loop_spec r c mode (put_val_list (v0 :: vs)) ind a 0 W) as [Hn Hs]. fold count in Hn, Hs.
  split.
  - rewrite Hn. clear. generalize 0%nat. induction ind as [|ix rest IH]; intros k; cbn [put_ok].
    + split; [discriminate|]. intros [ix [[] _]].
    + destruct (put_ix count mode ix) eqn:E.
      * unfold put_val_list at 1. rewrite IH. split.
        -- intros [ix' [Hin Hx]]. exists ix'. split; [right; exact Hin|exact Hx].
        -- intros [ix' [[<-|Hin] Hx]]; [congruence|]. exists ix'. split; assumption.
      * split; [|reflexivity]. intros _. exists ix. split; [left; reflexivity|exact E].
  - intros res H. destruct (Hs res H) as [Wr [Br Hel]]. repeat split; try assumption; try apply Wr.
    apply (put_loop_maxb _ _ _ _ _ _ _ H).
Qed.

(* ------------------------------------------------------------------ in-place operators *)
Lemma map_trunc_id r c n : wfx r c n -> mrange n -> map (map (trunc (bits n))) (dat n) = dat n.
Proof.
  intros [Wm _] R. apply (mat_ext r c); [|exact Wm|].
  - destruct Wm as [L F]. split; [rewrite map_length; exact L|]. apply Forall_forall. intros row Hin.
    apply in_map_iff in Hin. destruct Hin as [row' [<- Hin]]. rewrite map_length.
    rewrite Forall_forall in F. apply F, Hin.
  - intros i j _ _. rewrite get_map_map by apply Zmod_0_l. apply trunc_id, R.
Qed.

Lemma inplace_copy r c a n : wfx r c n -> mrange n -> 0 <= bits n <= maxb a ->
  dat (mcopy (inplace_self a n)) = dat n /\ bits (mcopy (inplace_self a n)) = bits n /\
  maxb (mcopy (inplace_self a n)) = maxb a.
Proof.
  intros W R Hb.
  assert (W' : wfx r c (inplace_self a n)) by exact W.
  assert (R' : mrange (inplace_self a n)) by exact R.
  destruct (copy_correct r c (inplace_self a n) W' Hb R') as [E1 E2].
  split; [exact E1|]. split; [exact E2|reflexivity].
Qed.

Lemma capb_nonneg b mb : 0 <= b -> 0 <= mb -> 0 <= capb b mb.
Proof. intros. unfold capb. destruct (b >? mb); assumption. Qed.

(* a += b, a -= b, a *= b (element-wise): the value is the operator's result, re-read through
   to_wirevector (copy), with the same bits and the max_bits of a *)
Theorem inplace_elementwise r c a b : wfx r c a -> 0 <= bits a -> 0 <= bits b -> 0 <= maxb a ->
  (dat (miadd a b) = dat (madd a b) /\ bits (miadd a b) = bits (madd a b) /\ maxb (miadd a b) = maxb a) /\
  (dat (misub a b) = dat (msub a b) /\ bits (misub a b) = bits (msub a b) /\ maxb (misub a b) = maxb a) /\
  (dat (mimul a b) = dat (mmul a b) /\ bits (mimul a b) = bits (mmul a b) /\ maxb (mimul a b) = maxb a).
Proof.
  intros W Ha Hb Hm. pose proof W as [_ [Hr Hc]].
  assert (Hw : forall bb f, wfx r c (mnew (rows_of a) (cols_of a) bb (maxb a) f)).
  { intros. rewrite (wfx_rows r c a W), (wfx_cols r c a W). apply wfx_mnew; assumption. }
  assert (Hrange : forall bb f, 0 <= bb -> mrange (mnew (rows_of a) (cols_of a) bb (maxb a) f)).
  { intros. apply mrange_mnew. apply capb_nonneg; assumption. }
  assert (Hbits : forall bb f, 0 <= bb -> 0 <= bits (mnew (rows_of a) (cols_of a) bb (maxb a) f) <= maxb a).
  { intros bb f H. cbn [mnew bits]. split; [apply capb_nonneg; assumption|apply capb_le]. }
  split; [|split].
  - unfold miadd. set (n := madd a b).
    assert (Wn : wfx r c n) by apply Hw.
    assert (Rn : mrange n) by (apply Hrange; destruct (bits b >? bits a); lia).
    assert (Bn : 0 <= bits n <= maxb a) by (apply Hbits; destruct (bits b >? bits a); lia).
    assert (E : mset_bits (MkMx (bits a) (maxb a) (dat n)) (bits n) = inplace_self a n).
    { unfold mset_bits, inplace_self. cbn [dat maxb]. f_equal. apply (map_trunc_id r c); assumption. }
    rewrite E. apply (inplace_copy r c); assumption.
  - unfold misub. apply (inplace_copy r c); [apply Hw|apply Hrange|apply Hbits]; destruct (bits b >? bits a); lia.
  - unfold mimul. apply (inplace_copy r c); [apply Hw|apply Hrange|apply Hbits]; lia.
Qed.

Theorem inplace_matmul r K c a b : wfx r K a -> wfx K c b -> 0 <= maxb a -> 0 <= bits a + bits b ->
  dat (mimatmul a b) = dat (mmatmul a b) /\ bits (mimatmul a b) = bits (mmatmul a b) /\
  maxb (mimatmul a b) = maxb a.
Proof.
  intros Wa Wb Hm Hs. unfold mimatmul. apply (inplace_copy r c).
  - apply (wfx_matmul r K c); assumption.
  - apply (mrange_matmul r K c); assumption.
  - split; [apply matmul_bits_nonneg; assumption|]. cbn [mmatmul bits]. apply capb_le.
Qed.

Lemma pow_wf r a n : wfx r r a -> mrange a -> 0 < bits a <= maxb a ->
  wfx r r (mpow a n) /\ mrange (mpow a n) /\ 0 < bits (mpow a n) <= maxb a /\ maxb (mpow a n) = maxb a.
Proof.
  intros Wa Ra Hb.
  destruct (copy_correct r r a Wa ltac:(lia) Ra) as [Cd Cb].
  set (c := mcopy a) in *.
  assert (Mc : maxb c = maxb a) by reflexivity.
  assert (Wc : wfx r r c).
  { destruct Wa as [Wm [Hr Hc]]. split; [rewrite Cd; exact Wm|split; assumption]. }
  assert (Ec : forall i j, el c i j = el a i j) by (intros; unfold el; rewrite Cd; reflexivity).
  assert (Rc : mrange c) by (intros i' j'; rewrite Ec, Cb; apply Ra).
  unfold mpow. fold c. destruct n as [|k].
  - unfold midentity. rewrite (wfx_rows r r c Wc), (wfx_cols r r c Wc). cbn [bits maxb].
    split; [split; [apply wfm_mk|split; apply Wa]|]. split; [|split; [lia|exact Mc]].
    intros i j. unfold el. cbn [dat bits].
    destruct (lt_dec i r) as [Hi|Hi]; [destruct (lt_dec j r) as [Hj|Hj]|].
    + rewrite get_mk by assumption. apply trunc_range. lia.
    + rewrite get_mk_out by lia. split; [lia|apply pow2_pos; lia].
    + rewrite get_mk_out by lia. split; [lia|apply pow2_pos; lia].
  - assert (Inv0 : pow_inv r a c 1).
    { split; [exact Wc|]. split; [exact Mc|]. split; [exact Rc|]. split; [lia|].
      left. intros i' j' _ _. cbn [mat_pow_spec]. apply Ec. }
    pose proof (pow_from_inv r a c Wa Hb Wc Cb Rc Ec k c 0%nat Inv0) as [Wn [Mn [Rn [Bn _]]]].
    split; [exact Wn|]. split; [exact Rn|]. split; [exact Bn|exact Mn].
Qed.

Theorem inplace_pow r a n : wfx r r a -> mrange a -> 0 < bits a <= maxb a ->
  dat (mipow a n) = dat (mpow a n) /\ bits (mipow a n) = bits (mpow a n) /\ maxb (mipow a n) = maxb a.
Proof.
  intros Wa Ra Hb. destruct (pow_wf r a n Wa Ra Hb) as [Wn [Rn [Bn Mn]]].
  unfold mipow. apply (inplace_copy r r); [exact Wn|exact Rn|lia].
Qed.

(* ------------------------------------------------------------------ stacking: any number of operands *)
Lemma fold_max_ge l : forall x, x <= fold_left Z.max l x /\ forall y, In y l -> y <= fold_left Z.max l x.
Proof.
  induction l as [|z l IH]; intros x; cbn [fold_left]; [split; [lia|intros y []]|].
  destruct (IH (Z.max x z)) as [H1 H2]. split; [lia|]. intros y [<-|Hy]; [lia|apply H2, Hy].
Qed.
Lemma zmaxl_ge l x : In x l -> x <= zmaxl l.
Proof.
  destruct l as [|z l]; [intros []|]. cbn [zmaxl]. destruct (fold_max_ge l z) as [H1 H2].
  intros [<-|H]; [exact H1|apply H2, H].
Qed.
Lemma fold_max_in l : forall x, fold_left Z.max l x = x \/ In (fold_left Z.max l x) l.
Proof.
  induction l as [|z l IH]; intros x; cbn [fold_left]; [left; reflexivity|].
  destruct (IH (Z.max x z)) as [E|Hin]; [|right; right; exact Hin].
  rewrite E. destruct (Z.max_spec x z) as [[_ ->]|[_ ->]]; [right; left; reflexivity|left; reflexivity].
Qed.
Lemma zmaxl_in l : l <> [] -> In (zmaxl l) l.
Proof.
  destruct l as [|z l]; [congruence|]. intros _. cbn [zmaxl].
  destruct (fold_max_in l z) as [->|H]; [left; reflexivity|right; exact H].
Qed.

(* operands of a stack: common number R of rows (hstack) / C of columns (vstack), elements in range *)
Definition stackable_h (R : nat) (m : Mx) : Prop :=
  exists c, wfx R c m /\ mrange m /\ 0 <= bits m <= maxb m.
Definition stackable_v (C : nat) (m : Mx) : Prop :=
  exists r, wfx r C m /\ mrange m /\ 0 <= bits m <= maxb m.

Lemma stack_bits ms : ms <> [] -> (forall m, In m ms -> 0 <= bits m <= maxb m) ->
  capb (zmaxl (map bits ms)) (zmaxl (map maxb ms)) = zmaxl (map bits ms) /\
  forall m, In m ms -> bits m <= zmaxl (map bits ms).
Proof.
  intros Hne Hb. split.
  - apply capb_id.
    assert (Hin : In (zmaxl (map bits ms)) (map bits ms)) by (apply zmaxl_in; destruct ms; [congruence|discriminate]).
    apply in_map_iff in Hin. destruct Hin as [m0 [<- Hm0]].
    transitivity (maxb m0); [apply Hb, Hm0|]. apply zmaxl_ge. apply in_map. exact Hm0.
  - intros m Hm. apply zmaxl_ge. apply in_map. exact Hm.
Qed.

Lemma row_is_nth r c m i : wfx r c m -> (i < r)%nat -> row m i = nth i (dat m) [].
Proof.
  intros W Hi. unfold row. rewrite (wfx_cols r c m W).
  assert (L : length (nth i (dat m) []) = c).
  { destruct W as [[L F] _]. rewrite Forall_forall in F. apply F. apply nth_In. lia. }
  apply (nth_ext _ _ 0 0); [rewrite map_length, seq_length; congruence|].
  intros j Hj. rewrite map_length, seq_length in Hj.
  rewrite (nth_map_seq (fun j => el m i j)) by exact Hj. reflexivity.
Qed.

Lemma map_trunc_row_id nb r c m i : wfx r c m -> mrange m -> bits m <= nb -> (i < r)%nat ->
  map (trunc nb) (row m i) = row m i.
Proof.
  intros W R Hb Hi. unfold row. rewrite map_map. apply map_ext. intros j. apply trunc_id.
  apply (inrange_mono _ (bits m)); [exact Hb|apply R].
Qed.

(* hstack of n >= 1 matrices with R rows each: row i of the result is the concatenation of the rows i,
   the element width is the largest one, no element is changed *)
Theorem hstack_any R ms i : ms <> [] -> (forall m, In m ms -> stackable_h R m) -> (i < R)%nat ->
  exists res, mhstack ms = Some res /\ bits res = zmaxl (map bits ms) /\
    nth i (dat res) [] = concat (map (fun m => nth i (dat m) []) ms).
Proof.
  intros Hne Hs Hi.
  assert (Hb : forall m, In m ms -> 0 <= bits m <= maxb m) by (intros m Hm; destruct (Hs m Hm) as [c [_ [_ H]]]; exact H).
  destruct (stack_bits ms Hne Hb) as [Ecap Hle].
  destruct ms as [|m1 [|m2 rest]]; [congruence| |].
  - destruct (Hs m1 (or_introl eq_refl)) as [c [W [Rm Hbm]]].
    destruct (copy_correct R c m1 W Hbm Rm) as [Ed Eb].
    exists (mcopy m1). split; [reflexivity|]. split; [exact Eb|].
    rewrite Ed. cbn [map concat]. rewrite app_nil_r. reflexivity.
  - assert (Hall : forallb (fun x => Nat.eqb (rows_of x) (rows_of m1)) (m1 :: m2 :: rest) = true).
    { apply forallb_forall. intros m Hm. apply Nat.eqb_eq.
      destruct (Hs m Hm) as [c [W _]]. destruct (Hs m1 (or_introl eq_refl)) as [c1 [W1 _]].
      rewrite (wfx_rows R c m W), (wfx_rows R c1 m1 W1). reflexivity. }
    assert (Hi1 : (i < rows_of m1)%nat).
    { destruct (Hs m1 (or_introl eq_refl)) as [c1 [W1 _]]. rewrite (wfx_rows R c1 m1 W1). exact Hi. }
    destruct (hstack_rows m1 m2 rest i Hall Hi1) as [res [E [Eb Erow]]]. cbv zeta in E, Eb, Erow.
    exists res. split; [exact E|]. rewrite Eb, Ecap. split; [reflexivity|].
    rewrite Erow, Eb, Ecap. rewrite concat_map, map_map. f_equal. apply map_ext_in. intros m Hm.
    destruct (Hs m Hm) as [c [W [Rm _]]].
    rewrite (map_trunc_row_id _ R c m i W Rm (Hle m Hm) Hi). apply (row_is_nth R c); assumption.
Qed.

Theorem hstack_errors :
  mhstack [] = None /\
  forall m1 m2 ms, forallb (fun x => Nat.eqb (rows_of x) (rows_of m1)) (m1 :: m2 :: ms) = false ->
                   mhstack (m1 :: m2 :: ms) = None.
Proof. split; [reflexivity|]. intros m1 m2 ms H. unfold mhstack. rewrite H. reflexivity. Qed.

Lemma map_trunc_dat_id nb r c m : wfx r c m -> mrange m -> bits m <= nb -> map (map (trunc nb)) (dat m) = dat m.
Proof.
  intros W R Hb. destruct W as [Wm _]. apply (mat_ext r c); [|exact Wm|].
  - destruct Wm as [L F]. split; [rewrite map_length; exact L|]. apply Forall_forall. intros row Hin.
    apply in_map_iff in Hin. destruct Hin as [row' [<- Hin]]. rewrite map_length.
    rewrite Forall_forall in F. apply F, Hin.
  - intros i j _ _. rewrite get_map_map by apply Zmod_0_l. apply trunc_id.
    apply (inrange_mono _ (bits m)); [exact Hb|apply R].
Qed.

(* vstack of n >= 1 matrices with C columns each: the rows of the operands one after another *)
Theorem vstack_any C ms : ms <> [] -> (forall m, In m ms -> stackable_v C m) ->
  exists res, mvstack ms = Some res /\ bits res = zmaxl (map bits ms) /\
    dat res = concat (map dat ms).
Proof.
  intros Hne Hs.
  assert (Hb : forall m, In m ms -> 0 <= bits m <= maxb m) by (intros m Hm; destruct (Hs m Hm) as [r [_ [_ H]]]; exact H).
  destruct (stack_bits ms Hne Hb) as [Ecap Hle].
  destruct ms as [|m1 [|m2 rest]]; [congruence| |].
  - destruct (Hs m1 (or_introl eq_refl)) as [r [W [Rm Hbm]]].
    destruct (copy_correct r C m1 W Hbm Rm) as [Ed Eb].
    exists (mcopy m1). split; [reflexivity|]. split; [exact Eb|].
    rewrite Ed. cbn [map concat]. rewrite app_nil_r. reflexivity.
  - assert (Hc : forall m, In m (m1 :: m2 :: rest) -> cols_of m = C).
    { intros m Hm. destruct (Hs m Hm) as [r [W _]]. apply (wfx_cols r C m W). }
    assert (Hall : forallb (fun x => Nat.eqb (cols_of x) (cols_of m1)) (m1 :: m2 :: rest) = true).
    { apply forallb_forall. intros m Hm. apply Nat.eqb_eq.
      rewrite (Hc m Hm), (Hc m1 (or_introl eq_refl)). reflexivity. }
    assert (Hw : forall m, In m (m1 :: m2 :: rest) -> wfm (rows_of m) (cols_of m1) (dat m)).
    { intros m Hm. rewrite (Hc m1 (or_introl eq_refl)). destruct (Hs m Hm) as [r [W _]].
      rewrite (wfx_rows r C m W). apply W. }
    destruct (vstack_rows m1 m2 rest Hall Hw) as [res [E [Eb Ed]]]. cbv zeta in E, Eb, Ed.
    exists res. split; [exact E|]. rewrite Eb, Ecap. split; [reflexivity|].
    rewrite Ed, Eb, Ecap. rewrite concat_map, map_map. f_equal. apply map_ext_in. intros m Hm.
    destruct (Hs m Hm) as [r [W [Rm _]]]. apply (map_trunc_dat_id _ r C m W Rm (Hle m Hm)).
Qed.

Theorem vstack_errors :
  mvstack [] = None /\
  forall m1 m2 ms, forallb (fun x => Nat.eqb (cols_of x) (cols_of m1)) (m1 :: m2 :: ms) = false ->
                   mvstack (m1 :: m2 :: ms) = None.
Proof. split; [reflexivity|]. intros m1 m2 ms H. unfold mvstack. rewrite H. reflexivity. Qed.

(* concatenate(matrices, axis): 0 = hstack, 1 = vstack, anything else raises *)
Theorem concatenate_dispatch ms ax :
  mconcatenate ms ax = if ax =? 0 then mhstack ms else if ax =? 1 then mvstack ms else None.
Proof. reflexivity. Qed.

(* ------------------------------------------------------------------ dot: which branch for which shapes *)
Lemma wfx_transpose r c b : wfx r c b -> wfx c r (mtranspose b).
Proof.
  intros W. unfold mtranspose. rewrite (wfx_rows r c b W), (wfx_cols r c b W).
  apply wfx_mnew; apply W.
Qed.

(* the second vector brought to the orientation of the first *)
Definition orient (a b : Mx) : Mx := if same_shape a b then b else mtranspose b.

Theorem dot_dispatch r1 c1 r2 c2 a b : wfx r1 c1 a -> wfx r2 c2 b ->
  mdot a b =
    if ((r1 =? 1) && (c1 =? 1))%nat then
      if ((r2 =? 1) && (c2 =? 1))%nat
      then Some (MkMx (2 * Z.max (bits a) (bits b)) (maxb a) [[el a 0 0 * el b 0 0]])
      else Some (mscal b (bits a) (el a 0 0))
    else if ((r2 =? 1) && (c2 =? 1))%nat then Some (mscal a (bits b) (el b 0 0))
    else if (((r1 =? 1) || (c1 =? 1)) && ((r2 =? 1) || (c2 =? 1)))%nat then
      if (r1 * c1 =? r2 * c2)%nat then Some (inner_product a (orient a b)) else None
    else if (c1 =? r2)%nat then Some (mmatmul a b) else None.
Proof.
  intros Wa Wb. pose proof (wfx_transpose r2 c2 b Wb) as Wt.
  unfold mdot, is11, orient, same_shape.
  rewrite (wfx_rows c2 r2 _ Wt), (wfx_cols c2 r2 _ Wt).
  rewrite (wfx_rows r1 c1 a Wa), (wfx_cols r1 c1 a Wa), (wfx_rows r2 c2 b Wb), (wfx_cols r2 c2 b Wb).
  destruct (Nat.eqb_spec r1 1); destruct (Nat.eqb_spec c1 1);
    destruct (Nat.eqb_spec r2 1); destruct (Nat.eqb_spec c2 1); subst; cbn [andb orb];
    repeat match goal with
           | |- context [Nat.eqb ?x ?y] => destruct (Nat.eqb_spec x y); cbn [andb orb]
           end; try reflexivity; try lia.
Qed.

Lemma inner_spec_flat r c x y : wfx r c x -> wfx r c y ->
  inner_spec x y r c = sumZ (map (fun k => nth k (flat (dat x)) 0 * nth k (flat (dat y)) 0) (seq 0 (r * c))).
Proof.
  intros Wx Wy. unfold inner_spec. apply sumZ_map_ext. intros k Hk. apply in_seq in Hk.
  destruct (divmod_lt r c k ltac:(lia)) as [H1 [H2 H3]].
  unfold el. rewrite <- (nth_flat r c (dat x)) by (try apply Wx; assumption).
  rewrite <- (nth_flat r c (dat y)) by (try apply Wy; assumption). rewrite <- H3. reflexivity.
Qed.

(* the row-major reading of a row or column vector does not change under transposition *)
Lemma transpose_vector_flat r c b : wfx r c b -> mrange b -> bits b <= maxb b -> (r = 1 \/ c = 1)%nat ->
  flat (dat (mtranspose b)) = flat (dat b).
Proof.
  intros W R Hm Hv. pose proof (wfx_transpose r c b W) as Wt.
  apply (nth_ext _ _ 0 0).
  - rewrite (flat_length c r) by apply Wt. rewrite (flat_length r c) by apply W. lia.
  - intros k Hk. rewrite (flat_length c r) in Hk by apply Wt.
    destruct Hv as [->| ->].
    + (* 1 x c  ->  c x 1 *)
      replace k with (k * 1 + 0)%nat at 1 by lia. rewrite (nth_flat c 1) by (try apply Wt; lia).
      destruct (transpose_correct 1 c b k 0 W R Hm ltac:(lia) ltac:(lia)) as [E _].
      unfold el in E. rewrite E. replace k with (0 * c + k)%nat at 2 by lia.
      symmetry. apply (nth_flat 1 c); [apply W|lia|lia].
    + (* r x 1  ->  1 x r *)
      replace k with (0 * r + k)%nat at 1 by lia. rewrite (nth_flat 1 r) by (try apply Wt; lia).
      destruct (transpose_correct r 1 b 0 k W R Hm ltac:(lia) ltac:(lia)) as [E _].
      unfold el in E. rewrite E. replace k with (k * 1 + 0)%nat at 2 by lia.
      symmetry. apply (nth_flat r 1); [apply W|lia|lia].
Qed.

(* dot of two vectors (rows or columns, in any combination) of equal length n: the integer inner
   product of their readings, modulo 2^len(result); exact when max_bits is not reached *)
Theorem dot_vectors r1 c1 r2 c2 a b : wfx r1 c1 a -> wfx r2 c2 b ->
  mrange a -> mrange b -> 0 <= maxb a -> bits b <= maxb b ->
  (r1 = 1 \/ c1 = 1)%nat -> (r2 = 1 \/ c2 = 1)%nat -> (r1 * c1 <> 1)%nat -> (r2 * c2 <> 1)%nat ->
  (r1 * c1 = r2 * c2)%nat ->
  let ip := sumZ (map (fun k => nth k (flat (dat a)) 0 * nth k (flat (dat b)) 0) (seq 0 (r1 * c1))) in
  exists res, mdot a b = Some res /\ el res 0 0 = ip mod 2 ^ bits res /\
              (bits a + bits b <= maxb a -> el res 0 0 = ip).
Proof.
  intros Wa Wb Ra Rb Hm Hmb Va Vb Na Nb Hlen ip.
  rewrite (dot_dispatch r1 c1 r2 c2 a b Wa Wb).
  replace ((r1 =? 1) && (c1 =? 1))%nat with false
    by (symmetry; apply Bool.andb_false_iff; destruct (Nat.eqb_spec r1 1); destruct (Nat.eqb_spec c1 1); subst; auto; lia).
  replace ((r2 =? 1) && (c2 =? 1))%nat with false
    by (symmetry; apply Bool.andb_false_iff; destruct (Nat.eqb_spec r2 1); destruct (Nat.eqb_spec c2 1); subst; auto; lia).
  replace (((r1 =? 1) || (c1 =? 1)) && ((r2 =? 1) || (c2 =? 1)))%nat with true
    by (symmetry; apply Bool.andb_true_iff; split; apply Bool.orb_true_iff;
        [destruct Va; [left|right]|destruct Vb; [left|right]]; apply Nat.eqb_eq; assumption).
  replace (r1 * c1 =? r2 * c2)%nat with true by (symmetry; apply Nat.eqb_eq; exact Hlen).
  eexists. split; [reflexivity|].
  assert (Wo : wfx r1 c1 (orient a b) /\ mrange (orient a b) /\ flat (dat (orient a b)) = flat (dat b)).
  { unfold orient, same_shape.
    rewrite (wfx_rows r1 c1 a Wa), (wfx_cols r1 c1 a Wa), (wfx_rows r2 c2 b Wb), (wfx_cols r2 c2 b Wb).
    destruct (Nat.eqb_spec r1 r2); destruct (Nat.eqb_spec c1 c2); cbn [andb].
    - subst. split; [exact Wb|]. split; [exact Rb|reflexivity].
    - exfalso. subst. destruct Va, Vb; subst; nia.
    - exfalso. subst. destruct Va, Vb; subst; nia.
    - assert (r1 = c2 /\ c1 = r2) by (destruct Va, Vb; subst; split; nia). destruct H as [-> ->].
      split; [apply wfx_transpose; exact Wb|]. split; [apply (mrange_transpose r2 c2); assumption|].
      apply (transpose_vector_flat r2 c2); assumption. }
  destruct Wo as [Wo [Ro Fo]].
  destruct (inner_product_correct r1 c1 a (orient a b) Wa Ra Ro Hm) as [E1 E2].
  rewrite (inner_spec_flat r1 c1 a (orient a b) Wa Wo), Fo in E1, E2.
  split; [exact E1|]. intros Hfit. apply E2.
  assert (bits (orient a b) = bits b).
  { unfold orient. destruct (same_shape a b); [reflexivity|].
    unfold mtranspose. cbn [mnew bits]. apply capb_id. exact Hmb. }
  lia.
Qed.

(* ------------------------------------------------------------------ histories: the pool of objects *)
(* the only object a step may modify *)
Definition step_target (s : pstep) : option nat :=
  match s with
  | PIadd i _ | PIsub i _ | PImul i _ | PImatmul i _ | PIpow i _
  | PSetitemS i _ _ _ | PSetitemM i _ _ _ | PPut i _ _ _ | PSetbits i _ => Some i
  | _ => None
  end.

Lemma pset_length p : forall i m, length (pset p i m) = length p.
Proof. induction p as [|x p IH]; intros [|i] m; cbn [pset length]; try reflexivity. rewrite IH. reflexivity. Qed.

Lemma nth_error_pset_other p : forall i k m, k <> i -> nth_error (pset p i m) k = nth_error p k.
Proof.
  induction p as [|x p IH]; intros [|i] [|k] m H; cbn [pset nth_error]; try reflexivity; try congruence.
  apply IH. congruence.
Qed.

Lemma nth_error_pset_same p : forall i m, (i < length p)%nat -> nth_error (pset p i m) i = Some m.
Proof.
  induction p as [|x p IH]; intros [|i] m H; cbn [pset nth_error length] in *; try lia; try reflexivity.
  apply IH. lia.
Qed.

Ltac pool_cases :=
  repeat match goal with
         | H : match ?x with _ => _ end = Some _ |- _ => destruct x eqn:?; try discriminate H
         | H : (if ?x then _ else _) = Some _ |- _ => destruct x eqn:?; try discriminate H
         | H : Some _ = Some _ |- _ => inversion H; subst; clear H
         end.

(* FRAME: a step changes at most its documented target; every other object of the pool -- operands
   included -- is exactly what it was, and at most one new object is appended *)
Theorem papply_frame p s p' : papply p s = Some p' ->
  (length p <= length p' <= S (length p))%nat /\
  forall k, (k < length p)%nat -> step_target s <> Some k -> nth_error p' k = nth_error p k.
Proof.
  intros H.
  assert (A1 : forall m k, (k < length p)%nat -> nth_error (p ++ [m]) k = nth_error p k)
    by (intros; apply nth_error_app1; assumption).
  assert (A2 : forall i x m k, (k < length p)%nat -> k <> i ->
               nth_error (pset p i x ++ [m]) k = nth_error p k).
  { intros. rewrite nth_error_app1 by (rewrite pset_length; assumption). apply nth_error_pset_other; assumption. }
  destruct s; cbn [papply step_target] in *;
    unfold pun, pbin, pupd, pinpl, padd1, if_shape in H; pool_cases;
    (split; [rewrite ?app_length, ?pset_length; cbn [length]; lia|]);
    intros k Hk Hne; try reflexivity; try (apply A1; assumption);
    try (apply A2; [assumption|congruence]);
    try (apply nth_error_pset_other; congruence).
Qed.

(* the documented target of an update really holds the new state *)
Theorem papply_setbits p i b a : nth_error p i = Some a ->
  exists p', papply p (PSetbits i b) = Some p' /\ nth_error p' i = Some (mset_bits a b) /\ length p' = length p.
Proof.
  intros H. cbn [papply]. unfold pupd. rewrite H. eexists. split; [reflexivity|].
  split; [apply nth_error_pset_same; apply nth_error_Some; congruence|apply pset_length].
Qed.

(* hstack / vstack / concatenate of ONE matrix build a new object (a copy); the operand stays in place *)
Theorem papply_stack_one p i a : nth_error p i = Some a ->
  papply p (PHstack [i]) = Some (p ++ [mcopy a]) /\ papply p (PVstack [i]) = Some (p ++ [mcopy a]) /\
  papply p (PConcat [i] 0) = Some (p ++ [mcopy a]) /\ papply p (PConcat [i] 1) = Some (p ++ [mcopy a]).
Proof. intros H. cbn [papply pgets]. rewrite H. repeat split; reflexivity. Qed.

(* an augmented assignment leaves the operator's result in its target and appends a copy of it *)
Theorem papply_isub p i j a b : nth_error p i = Some a -> nth_error p j = Some b -> same_shape a b = true ->
  papply p (PIsub i j) = Some (pset p i (inplace_self a (msub a b)) ++ [misub a b]).
Proof. intros Ha Hb Hs. cbn [papply]. unfold pinpl, if_shape. rewrite Ha, Hb, Hs. reflexivity. Qed.

(* m.bits = k; m.bits = k2 with k <= k2: the elements are the old ones mod 2^k, zero-extended --
   the bits dropped by the narrowing never come back *)
Theorem bits_narrow_widen a k k2 i j : 0 <= k <= k2 ->
  el (mset_bits (mset_bits a k) k2) i j = trunc k (el a i j) /\ bits (mset_bits (mset_bits a k) k2) = k2.
Proof.
  intros Hk. destruct (set_bits_correct (mset_bits a k) k2 i j) as [E1 E2].
  destruct (set_bits_correct a k i j) as [E3 _]. rewrite E1, E3. split; [|exact E2].
  apply trunc_id. apply (inrange_mono _ k); [lia|]. apply trunc_range. lia.
Qed.

(* ------------------------------------------------------------------ put with one (scalar) value *)
(* m.put(ix, x) with a bare int x -- the code wraps it into (x,) -- writes x mod 2^bits at the resolved
   position for EVERY x, the value 0 included; only an empty list/tuple of values means "nothing to place" *)
Theorem put_scalar_value r c a ix x mode p i j : wfx r c a ->
  put_ix (Z.of_nat (r * c)) mode ix = Some p -> (i < r)%nat -> (j < c)%nat ->
  exists res, mput_list a [ix] [x] mode = Some res /\
    el res i j = if Z.of_nat (i * c + j) =? p then trunc (bits a) x else el a i j.
Proof.
  intros W Hp Hi Hj. unfold mput_list. rewrite (wfx_rows r c a W), (wfx_cols r c a W).
  cbn [put_loop]. rewrite Hp. cbn [put_val_list length Nat.leb nth].
  eexists. split; [reflexivity|].
  assert (Hcount : 0 < Z.of_nat (r * c)) by (destruct W as [_ [? ?]]; nia).
  apply (set_flat_spec r c a p x i j W (put_ix_range _ _ _ _ Hcount Hp) Hi Hj).
Qed.

Theorem put_nothing a ind mode : mput_list a ind [] mode = Some a.
Proof. reflexivity. Qed.
