(* C19 -- proofs about the model Lib/Matrix.v *)
From PyRTL Require Import Base.PyZ Lib.Matrix.
From Coq Require Import ZifyBool Arith.

(* ------------------------------------------------------------------ lists, mk, get *)
Lemma nth_map_seq {A} (f : nat -> A) d n k : (k < n)%nat -> nth k (map f (seq 0 n)) d = f k.
Proof.
  intros H. rewrite nth_indep with (d' := f 0%nat) by (rewrite map_length, seq_length; exact H).
  rewrite map_nth. rewrite seq_nth by exact H. reflexivity.
Qed.

Lemma get_mk r c f i j : (i < r)%nat -> (j < c)%nat -> get (mk r c f) i j = f i j.
Proof.
  intros Hi Hj. unfold get, mk. rewrite (nth_map_seq (fun i => map (fun j => f i j) (seq 0 c))) by exact Hi.
  apply (nth_map_seq (fun j => f i j)). exact Hj.
Qed.

Lemma nrows_mk r c f : nrows (mk r c f) = r.
Proof. unfold nrows, mk. rewrite map_length, seq_length. reflexivity. Qed.

Lemma ncols_mk r c f : (0 < r)%nat -> ncols (mk r c f) = c.
Proof.
  intros H. unfold ncols, mk. destruct r as [|r]; [lia|]. cbn [seq map hd].
  rewrite map_length, seq_length. reflexivity.
Qed.

(* shape: r rows, each of c elements *)
Definition wfm (r c : nat) (m : mat) : Prop := length m = r /\ Forall (fun row => length row = c) m.

Lemma wfm_mk r c f : wfm r c (mk r c f).
Proof.
  split; [apply nrows_mk|]. unfold mk. apply Forall_forall. intros row Hin.
  apply in_map_iff in Hin. destruct Hin as [i [<- _]]. rewrite map_length, seq_length. reflexivity.
Qed.

Lemma mat_ext r c m1 m2 : wfm r c m1 -> wfm r c m2 ->
  (forall i j, (i < r)%nat -> (j < c)%nat -> get m1 i j = get m2 i j) -> m1 = m2.
Proof.
  intros [L1 F1] [L2 F2] H. apply (nth_ext _ _ [] []); [congruence|].
  intros i Hi. rewrite L1 in Hi.
  assert (R1 : length (nth i m1 []) = c).
  { rewrite Forall_forall in F1. apply F1. apply nth_In. lia. }
  assert (R2 : length (nth i m2 []) = c).
  { rewrite Forall_forall in F2. apply F2. apply nth_In. lia. }
  apply (nth_ext _ _ 0 0); [congruence|]. intros j Hj. rewrite R1 in Hj. apply (H i j Hi Hj).
Qed.

Lemma mk_get r c m : wfm r c m -> mk r c (get m) = m.
Proof.
  intros W. apply (mat_ext r c); [apply wfm_mk|exact W|]. intros i j Hi Hj. apply get_mk; assumption.
Qed.

Lemma wfm_ncols r c m : (0 < r)%nat -> wfm r c m -> ncols m = c.
Proof.
  intros Hr [L F]. unfold ncols. destruct m as [|row m]; [simpl in L; lia|]. inversion F; subst. reflexivity.
Qed.

(* ------------------------------------------------------------------ to_wirevector layout *)
Definition all_inrange (b : Z) (l : list Z) : Prop := Forall (fun x => inrange x b) l.

Lemma pow2_split b n : 0 <= b -> 2 ^ (b * Z.of_nat (S n)) = 2 ^ b * 2 ^ (b * Z.of_nat n).
Proof. intros Hb. rewrite <- Z.pow_add_r by lia. f_equal. lia. Qed.

Lemma encode_range b l : 0 <= b -> all_inrange b l -> 0 <= encode b l < 2 ^ (b * Z.of_nat (length l)).
Proof.
  intros Hb H. induction H as [|x xs [Hx0 Hx1] _ IH]; cbn [encode length].
  - rewrite Z.mul_0_r. simpl. lia.
  - rewrite pow2_split by assumption.
    pose proof (pow2_pos (b * Z.of_nat (length xs)) ltac:(lia)) as HP.
    assert (x * 2 ^ (b * Z.of_nat (length xs)) <= (2 ^ b - 1) * 2 ^ (b * Z.of_nat (length xs)))
      by (apply Z.mul_le_mono_nonneg_r; lia).
    assert (0 <= x * 2 ^ (b * Z.of_nat (length xs))) by (apply Z.mul_nonneg_nonneg; lia).
    lia.
Qed.

Lemma decode_add_high b n : 0 <= b -> forall k x e, (n <= k)%nat ->
  decode b n (x * 2 ^ (b * Z.of_nat k) + e) = decode b n e.
Proof.
  intros Hb. induction n as [|n IH]; intros k x e Hk; cbn [decode]; [reflexivity|].
  f_equal; [|apply IH; lia].
  assert (E : b * Z.of_nat k = b * Z.of_nat (k - n - 1) + b + b * Z.of_nat n).
  { replace (Z.of_nat k) with (Z.of_nat (k - n - 1) + 1 + Z.of_nat n) by lia. ring. }
  rewrite E, !Z.pow_add_r by (try apply Z.mul_nonneg_nonneg; lia).
  pose proof (pow2_pos (b * Z.of_nat n) ltac:(lia)) as HP.
  pose proof (pow2_pos b Hb) as HB.
  replace (x * (2 ^ (b * Z.of_nat (k - n - 1)) * 2 ^ b * 2 ^ (b * Z.of_nat n)) + e)
    with (e + (x * 2 ^ (b * Z.of_nat (k - n - 1)) * 2 ^ b) * 2 ^ (b * Z.of_nat n)) by ring.
  rewrite Z.div_add by lia. rewrite Z.mod_add by lia. reflexivity.
Qed.

Lemma decode_encode b l : 0 <= b -> all_inrange b l -> decode b (length l) (encode b l) = l.
Proof.
  intros Hb H. induction H as [|x xs Hx Hxs IH]; cbn [encode length decode]; [reflexivity|].
  f_equal.
  - pose proof (encode_range b xs Hb Hxs) as He.
    pose proof (pow2_pos (b * Z.of_nat (length xs)) ltac:(lia)) as HP.
    rewrite Z.add_comm, Z.div_add by lia. rewrite Z.div_small by lia. cbn [Z.add].
    apply Z.mod_small. exact Hx.
  - rewrite decode_add_high by lia. exact IH.
Qed.

Lemma decode_length b n v : length (decode b n v) = n.
Proof. induction n; cbn [decode length]; congruence. Qed.

Lemma decode_inrange b n v : 0 <= b -> all_inrange b (decode b n v).
Proof.
  intros Hb. induction n; cbn [decode]; constructor; [apply mod_range; exact Hb|assumption].
Qed.

(* the wire holds exactly the low b*n bits: re-encoding the decoded list gives v mod 2^(b*n) *)
Lemma encode_decode b n v : 0 <= b -> encode b (decode b n v) = v mod 2 ^ (b * Z.of_nat n).
Proof.
  intros Hb. induction n as [|n IH]; cbn [decode encode].
  - rewrite Z.mul_0_r. simpl. rewrite Z.mod_1_r. reflexivity.
  - rewrite decode_length, IH. rewrite pow2_split by assumption.
    pose proof (pow2_pos (b * Z.of_nat n) ltac:(lia)) as HP. pose proof (pow2_pos b Hb) as HB.
    rewrite (Z.mul_comm (2 ^ b)). rewrite Z.rem_mul_r by lia. lia.
Qed.

Lemma nth_decode b n v k : (k < n)%nat ->
  nth k (decode b n v) 0 = (v / 2 ^ (b * Z.of_nat (n - 1 - k))) mod 2 ^ b.
Proof.
  revert k. induction n as [|n IH]; intros k Hk; [lia|]. cbn [decode].
  destruct k as [|k]; cbn [nth].
  - replace (S n - 1 - 0)%nat with n by lia. reflexivity.
  - rewrite IH by lia. replace (S n - 1 - S k)%nat with (n - 1 - k)%nat by lia. reflexivity.
Qed.
