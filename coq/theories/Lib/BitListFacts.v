(* Facts about bit lists used by the adder / multiplier proofs. *)
From PyRTL Require Import Lib.BitList.
From Coq Require Import ZifyBool.

Lemma b2z_range b : 0 <= b2z b <= 1.
Proof. destruct b; cbn; lia. Qed.

Lemma bval_range l : 0 <= bval l < 2 ^ Z.of_nat (length l).
Proof.
  induction l as [|b t IH].
  - cbn. lia.
  - cbn [bval length]. rewrite Nat2Z.inj_succ, Z.pow_succ_r by lia.
    pose proof (b2z_range b). lia.
Qed.

Lemma bval_nonneg l : 0 <= bval l.
Proof. apply bval_range. Qed.

Lemma bval_app a b : bval (a ++ b) = bval a + 2 ^ Z.of_nat (length a) * bval b.
Proof.
  induction a as [|x t IH]; cbn [app bval length].
  - change (2 ^ Z.of_nat 0) with 1. lia.
  - rewrite IH, Nat2Z.inj_succ, Z.pow_succ_r by lia. ring.
Qed.

Lemma bval_repeat_false n : bval (repeat false n) = 0.
Proof. induction n; cbn [repeat bval b2z]; lia. Qed.

Lemma bval_zext n l : bval (zext n l) = bval l.
Proof. unfold zext. rewrite bval_app, bval_repeat_false. lia. Qed.

Lemma length_zext n l : length (zext n l) = Nat.max n (length l).
Proof. unfold zext. rewrite app_length, repeat_length. lia. Qed.

Lemma length_zbits n z : length (zbits n z) = n.
Proof. revert z. induction n; intros; cbn [zbits length]; [reflexivity|]. rewrite IHn. reflexivity. Qed.

Lemma odd_div2 z : z = b2z (Z.odd z) + 2 * Z.div2 z.
Proof. rewrite (Z.div2_odd z) at 1. unfold b2z. destruct (Z.odd z); lia. Qed.

Lemma bval_zbits n z : bval (zbits n z) = z mod 2 ^ Z.of_nat n.
Proof.
  revert z. induction n as [|n IH]; intros z.
  - cbn. rewrite Z.mod_1_r. reflexivity.
  - cbn [zbits bval]. rewrite IH, Nat2Z.inj_succ, Z.pow_succ_r by lia.
    assert (Hp : 0 < 2 ^ Z.of_nat n) by (apply Z.pow_pos_nonneg; lia).
    pose proof (odd_div2 z) as Hz. pose proof (b2z_range (Z.odd z)) as Hb.
    pose proof (Z.mod_pos_bound (Z.div2 z) (2 ^ Z.of_nat n) Hp) as Hm.
    pose proof (Z.div_mod (Z.div2 z) (2 ^ Z.of_nat n) ltac:(lia)) as Hd.
    apply Z.mod_unique_pos with (q := Z.div2 z / 2 ^ Z.of_nat n); lia.
Qed.

Lemma bval_firstn n l : bval (firstn n l) = bval l mod 2 ^ Z.of_nat n.
Proof.
  revert l. induction n as [|n IH]; intros l.
  - cbn [firstn bval]. change (2 ^ Z.of_nat 0) with 1. rewrite Z.mod_1_r. reflexivity.
  - destruct l as [|b t].
    + cbn [firstn bval]. rewrite Z.mod_0_l; [reflexivity|]. apply Z.pow_nonzero; lia.
    + cbn [firstn bval]. rewrite IH, Nat2Z.inj_succ, Z.pow_succ_r by lia.
      assert (Hp : 0 < 2 ^ Z.of_nat n) by (apply Z.pow_pos_nonneg; lia).
      pose proof (b2z_range b) as Hb.
      pose proof (Z.mod_pos_bound (bval t) (2 ^ Z.of_nat n) Hp) as Hm.
      pose proof (Z.div_mod (bval t) (2 ^ Z.of_nat n) ltac:(lia)) as Hd.
      apply Z.mod_unique_pos with (q := bval t / 2 ^ Z.of_nat n); lia.
Qed.

Lemma bval_split n l :
  bval l = bval (firstn n l) + 2 ^ Z.of_nat (length (firstn n l)) * bval (skipn n l).
Proof. rewrite <- bval_app, firstn_skipn. reflexivity. Qed.

Lemma full_add_spec a b c :
  b2z (fst (full_add a b c)) + 2 * b2z (snd (full_add a b c)) = b2z a + b2z b + b2z c.
Proof. destruct a, b, c; reflexivity. Qed.

Lemma half_add_spec a b :
  b2z (fst (half_add a b)) + 2 * b2z (snd (half_add a b)) = b2z a + b2z b.
Proof. destruct a, b; reflexivity. Qed.

Lemma popc_app a b : popc (a ++ b) = popc a + popc b.
Proof. induction a; cbn [app popc]; lia. Qed.

Lemma popc_nonneg a : 0 <= popc a.
Proof. induction a as [|x t IH]; cbn [popc]; [lia|]. pose proof (b2z_range x). lia. Qed.

Lemma colsum_nonneg c : 0 <= colsum c.
Proof. induction c as [|x t IH]; cbn [colsum]; [lia|]. pose proof (popc_nonneg x). lia. Qed.

Lemma colsum_app a b : colsum (a ++ b) = colsum a + 2 ^ Z.of_nat (length a) * colsum b.
Proof.
  induction a as [|x t IH]; cbn [app colsum length].
  - change (2 ^ Z.of_nat 0) with 1. lia.
  - rewrite IH, Nat2Z.inj_succ, Z.pow_succ_r by lia. ring.
Qed.

Lemma colsum_repeat_nil n : colsum (repeat [] n) = 0.
Proof. induction n; cbn [repeat colsum popc]; lia. Qed.

(* set_nth *)
Lemma length_set_nth {A} i (x : A) l : length (set_nth i x l) = length l.
Proof. revert i. induction l as [|h t IH]; intros [|j]; cbn [set_nth length]; auto. Qed.

Lemma nth_set_nth {A} (l : list A) i j x d :
  nth i (set_nth j x l) d = if (i =? j)%nat && (j <? length l)%nat then x else nth i l d.
Proof.
  revert i j. induction l as [|h t IH]; intros i j.
  - destruct j; cbn [set_nth length]; rewrite andb_false_r; reflexivity.
  - destruct j as [|j]; destruct i as [|i]; cbn [set_nth nth length]; try reflexivity.
    rewrite IH. reflexivity.
Qed.

Lemma length_map2 {A B C} (f : A -> B -> C) a b :
  length (map2 f a b) = Nat.min (length a) (length b).
Proof.
  revert b. induction a as [|x ta IH]; intros [|y tb]; cbn [map2 length]; auto.
  rewrite IH. reflexivity.
Qed.

Lemma nth_map2 {A B C} (f : A -> B -> C) a b i da db dc :
  (i < length a)%nat -> (i < length b)%nat ->
  nth i (map2 f a b) dc = f (nth i a da) (nth i b db).
Proof.
  revert b i. induction a as [|x ta IH]; intros [|y tb] [|i] Ha Hb; cbn [length] in *; try lia;
    cbn [map2 nth]; [reflexivity|]. apply IH; lia.
Qed.

Lemma match2_spec a b :
  let '(a', b') := match2 a b in
  length a' = Nat.max (length a) (length b) /\ length b' = Nat.max (length a) (length b) /\
  bval a' = bval a /\ bval b' = bval b.
Proof.
  unfold match2. rewrite !length_zext, !bval_zext. repeat split; lia.
Qed.
