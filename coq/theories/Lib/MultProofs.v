(* tree_multiplier, fast_group_adder, generalized_fma, signed_tree_multiplier. *)
From PyRTL Require Import Lib.Mult Lib.BitListFacts Lib.AddersProofs Lib.ReducerProofs.
From Coq Require Import ZifyBool.

Lemma add_wire_sum w : forall cols, colsum (add_wire cols w) = colsum cols + bval w.
Proof.
  induction w as [|b tw IH]; intros cols; cbn [add_wire bval].
  - lia.
  - destruct cols as [|c tc]; cbn [colsum]; rewrite IH.
    + cbn [colsum popc]. lia.
    + rewrite popc_app. cbn [popc]. lia.
Qed.

Lemma bval_map_andb a B : bval (map (andb a) B) = b2z a * bval B.
Proof.
  induction B as [|b t IH]; cbn [map bval]; [lia|]. rewrite IH. destruct a, b; cbn [andb b2z]; lia.
Qed.

(* the partial-product array sums to the product *)
Lemma add_pp_sum A B : forall cols, colsum (add_pp cols A B) = colsum cols + bval A * bval B.
Proof.
  induction A as [|a ta IH]; intros cols; cbn [add_pp bval].
  - lia.
  - pose proof (add_wire_sum (map (andb a) B) cols) as Hw. rewrite bval_map_andb in Hw.
    destruct (add_wire cols (map (andb a) B)) as [|c0 rest] eqn:E.
    + cbn [colsum] in *.
      (* only possible when B = []: then bval B = 0 *)
      destruct B as [|b tb].
      * cbn [bval] in *. lia.
      * cbn [map add_wire] in E. destruct cols; discriminate.
    + cbn [colsum] in *. rewrite IH. lia.
Qed.

Lemma trivial_mult_spec A B r : trivial_mult A B = Some r -> bval r = bval A * bval B.
Proof.
  unfold trivial_mult.
  assert (H1 : forall X Y, (length X =? 1)%nat = true ->
            bval (map (andb (hd false X)) Y ++ [false]) = bval X * bval Y).
  { intros X Y HX. destruct X as [|x [|x2 t]]; cbn [length] in HX; try discriminate.
    rewrite bval_app, bval_map_andb. cbn [hd bval b2z]. lia. }
  destruct (length B =? 1)%nat eqn:EB.
  - rewrite EB. intros E. injection E as <-. rewrite H1 by assumption. lia.
  - destruct (length A =? 1)%nat eqn:EA; [|discriminate].
    intros E. injection E as <-. apply H1. assumption.
Qed.

Lemma bval_mul_bound A B : 0 <= bval A * bval B < 2 ^ Z.of_nat (length A + length B).
Proof.
  pose proof (bval_range A) as [HA0 HA1]. pose proof (bval_range B) as [HB0 HB1].
  rewrite Nat2Z.inj_add, Z.pow_add_r by lia. split; [apply Z.mul_nonneg_nonneg; assumption|].
  apply Z.mul_lt_mono_nonneg; assumption.
Qed.

(* tree_multiplier returns the exact product (result_bitwidth = len(A)+len(B)) *)
Theorem tree_multiplier_exact red add A B r :
  reducer_ok red -> adder_ok add ->
  tree_multiplier red add A B = Some r -> bval r = bval A * bval B.
Proof.
  intros Hred Hadd. unfold tree_multiplier.
  destruct (trivial_mult A B) as [t|] eqn:Et.
  - intros E. injection E as <-. apply trivial_mult_spec. assumption.
  - intros E. rewrite (Hred add _ _ r Hadd E), add_pp_sum, colsum_repeat_nil.
    apply Z.mod_small. pose proof (bval_mul_bound A B). lia.
Qed.

(* ------------------------------------------------------- fast_group_adder *)

Definition sum_bvals (ws : list (list bool)) : Z := fold_right (fun w s => bval w + s) 0 ws.

Lemma fold_add_wire_sum ws : forall cols,
  colsum (fold_left add_wire ws cols) = colsum cols + sum_bvals ws.
Proof.
  induction ws as [|w t IH]; intros cols; cbn [fold_left sum_bvals fold_right].
  - lia.
  - rewrite IH, add_wire_sum. fold (sum_bvals t). lia.
Qed.

Lemma sum_bvals_bound ws :
  0 <= sum_bvals ws <= Z.of_nat (length ws) * (2 ^ Z.of_nat (maxlen ws) - 1).
Proof.
  induction ws as [|w t IH].
  - cbn. lia.
  - cbn [sum_bvals fold_right length maxlen]. fold (sum_bvals t). fold (maxlen t).
    pose proof (bval_range w) as Hw.
    assert (H1 : 2 ^ Z.of_nat (length w) <= 2 ^ Z.of_nat (Nat.max (length w) (maxlen t)))
      by (apply Z.pow_le_mono_r; lia).
    assert (H2 : 2 ^ Z.of_nat (maxlen t) <= 2 ^ Z.of_nat (Nat.max (length w) (maxlen t)))
      by (apply Z.pow_le_mono_r; lia).
    rewrite Nat2Z.inj_succ. nia.
Qed.

Lemma clog2_spec k : (1 <= k)%nat -> Z.of_nat k <= 2 ^ Z.of_nat (clog2 k).
Proof.
  intros Hk. unfold clog2. rewrite Z2Nat.id by apply Z.log2_up_nonneg.
  destruct (Nat.eq_dec k 1) as [->|Hne].
  - cbn. lia.
  - apply Z.log2_up_spec. lia.
Qed.

(* fast_group_adder returns the exact sum: L + ceil(log2 k) bits always suffice *)
Theorem fast_group_adder_exact red add ws r :
  reducer_ok red -> adder_ok add ->
  fast_group_adder red add ws = Some r -> bval r = sum_bvals ws.
Proof.
  intros Hred Hadd E. unfold fast_group_adder in E.
  rewrite (Hred add _ _ r Hadd E), fold_add_wire_sum, colsum_repeat_nil.
  apply Z.mod_small. pose proof (sum_bvals_bound ws) as Hb.
  split; [lia|]. unfold fga_width. rewrite Nat2Z.inj_add, Z.pow_add_r by lia.
  destruct ws as [|w t].
  - cbn. lia.
  - pose proof (clog2_spec (length (w :: t)) ltac:(cbn [length]; lia)) as Hc.
    assert (Hp : 0 < 2 ^ Z.of_nat (maxlen (w :: t))) by (apply Z.pow_pos_nonneg; lia).
    nia.
Qed.

(* --------------------------------------------------------- generalized_fma *)

Lemma fold_add_pp_sum pairs : forall cols,
  colsum (fold_left (fun cols ab => add_pp cols (fst ab) (snd ab)) pairs cols)
  = colsum cols + fold_right (fun ab s => bval (fst ab) * bval (snd ab) + s) 0 pairs.
Proof.
  induction pairs as [|ab t IH]; intros cols; cbn [fold_left fold_right].
  - lia.
  - rewrite IH, add_pp_sum. lia.
Qed.

Lemma fma_bits_sum pairs adds : colsum (fma_bits pairs adds) = fma_exact pairs adds.
Proof.
  unfold fma_bits, fma_exact. rewrite fold_add_wire_sum, fold_add_pp_sum, colsum_repeat_nil.
  unfold sum_bvals. lia.
Qed.

(* generalized_fma returns sum a_i*b_i + sum c_j mod 2^(its result width), hence the
   exact value whenever that value fits the result width the code chooses *)
Theorem generalized_fma_mod red add pairs adds r :
  reducer_ok red -> adder_ok add ->
  generalized_fma red add pairs adds = Some r ->
  bval r = fma_exact pairs adds mod 2 ^ Z.of_nat (fma_width pairs adds).
Proof.
  intros Hred Hadd E. unfold generalized_fma in E.
  rewrite (Hred add _ _ r Hadd E), fma_bits_sum. reflexivity.
Qed.

Lemma fma_exact_nonneg pairs adds : 0 <= fma_exact pairs adds.
Proof.
  unfold fma_exact.
  assert (H1 : 0 <= fold_right (fun ab s => bval (fst ab) * bval (snd ab) + s) 0 pairs).
  { induction pairs as [|ab t IH]; cbn [fold_right]; [lia|].
    pose proof (bval_nonneg (fst ab)). pose proof (bval_nonneg (snd ab)). nia. }
  assert (H2 : 0 <= fold_right (fun c s => bval c + s) 0 adds).
  { induction adds as [|c t IH]; cbn [fold_right]; [lia|]. pose proof (bval_nonneg c). lia. }
  lia.
Qed.

Theorem generalized_fma_exact_when_fits red add pairs adds r :
  reducer_ok red -> adder_ok add ->
  generalized_fma red add pairs adds = Some r ->
  fma_exact pairs adds < 2 ^ Z.of_nat (fma_width pairs adds) ->
  bval r = fma_exact pairs adds.
Proof.
  intros Hred Hadd E Hfit. rewrite (generalized_fma_mod red add pairs adds r Hred Hadd E).
  apply Z.mod_small. pose proof (fma_exact_nonneg pairs adds). lia.
Qed.

(* the code's result width is too narrow: 3*3 + 7 = 16 is returned as 0 in 4 bits *)
Theorem fma_width_refuted :
  exists a b c r,
    fused_multiply_adder wallace_reducer add_ks a b c = Some r /\
    length r = fma_width [(a, b)] [c] /\
    bval r <> bval a * bval b + bval c.
Proof.
  exists [true; true], [true; true], [true; true; true], [false; false; false; false].
  vm_compute. repeat split; try reflexivity. discriminate.
Qed.
