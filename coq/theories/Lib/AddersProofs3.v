(* dada_reducer: after the schedule every column has height <= 2, hence the
   reducer is exact whenever it returns (no side condition). *)
From PyRTL Require Import Lib.Adders Lib.BitListFacts Lib.AddersProofs Lib.ReducerProofs.
From Coq Require Import ZifyBool.

Lemma all_le2_app a b : all_le2 (a ++ b) = all_le2 a && all_le2 b.
Proof. unfold all_le2. apply forallb_app. Qed.

Lemma all_le2_cons c t : all_le2 (c :: t) = (length c <=? 2)%nat && all_le2 t.
Proof. reflexivity. Qed.

Lemma all_le2_firstn n : forall l, all_le2 l = true -> all_le2 (firstn n l) = true.
Proof.
  induction n as [|n IH]; intros [|c t] H; cbn [firstn]; try reflexivity.
  rewrite all_le2_cons in *. apply andb_prop in H. destruct H as [H1 H2].
  rewrite H1. cbn [andb]. apply IH. exact H2.
Qed.

Lemma all_le2_repeat_nil k : all_le2 (repeat [] k) = true.
Proof. induction k; cbn [repeat]; [reflexivity|]. rewrite all_le2_cons. exact IHk. Qed.

Lemma all_le2_take_pad rw l : all_le2 l = true -> all_le2 (take_pad rw l) = true.
Proof.
  intros H. unfold take_pad. apply all_le2_firstn. rewrite all_le2_app, H, all_le2_repeat_nil.
  reflexivity.
Qed.

Lemma all_le2_of_maxheight cols : (maxheight cols <= 2)%nat -> all_le2 cols = true.
Proof.
  induction cols as [|c t IH]; intros H; cbn [maxheight fold_right] in *.
  - reflexivity.
  - fold (maxheight t) in H. rewrite all_le2_cons, IH by lia.
    replace (length c <=? 2)%nat with true by lia. reflexivity.
Qed.

Definition heights_le (t : nat) (cols : list (list bool)) : Prop :=
  Forall (fun c => (length c <= t)%nat) cols.

Lemma all_le2_of_heights cols : heights_le 2 cols -> all_le2 cols = true.
Proof.
  induction 1 as [|c l Hc _ IH]; [reflexivity|]. rewrite all_le2_cons.
  replace (length c <=? 2)%nat with true by lia. exact IH.
Qed.

(* every column a Dada pass has processed ends with height <= target *)
Lemma dada_pass_heights target cols : forall cin r,
  dada_pass target cols cin = Some r ->
  exists body last, r = body ++ [last] /\ length body = length cols /\ heights_le target body.
Proof.
  induction cols as [|w rest IH]; intros cin r H; cbn [dada_pass] in H.
  - injection H as <-. exists [], cin. repeat split. constructor.
  - destruct (dada_col (S (length w)) target w cin []) as [[d ca]|] eqn:Ec; [|discriminate].
    destruct (dada_pass target rest ca) as [r'|] eqn:Ep; [|discriminate].
    injection H as <-. destruct (IH ca r' Ep) as (body & last & -> & Hl & Hh).
    exists (d :: body), last. cbn [app length]. repeat split; [lia|].
    constructor; [|exact Hh]. apply dada_col_spec in Ec. apply Ec.
Qed.

Lemma take_pad_body rw body last : length body = rw -> take_pad rw (body ++ [last]) = body.
Proof.
  intros H. unfold take_pad. rewrite app_length. cbn [length].
  replace (rw - (length body + 1))%nat with O by lia. cbn [repeat]. rewrite app_nil_r.
  rewrite firstn_app, H, Nat.sub_diag. cbn [firstn]. rewrite app_nil_r.
  rewrite <- H. apply firstn_all.
Qed.

(* a pass over columns that already meet the target changes nothing *)
Lemma dada_pass_idle target cols :
  (maxheight cols <= target)%nat -> dada_pass target cols [] = Some (cols ++ [[]]).
Proof.
  induction cols as [|w rest IH]; intros H; cbn [dada_pass app].
  - reflexivity.
  - cbn [maxheight fold_right] in H. fold (maxheight rest) in H.
    cbn [dada_col length]. rewrite Nat.add_0_r.
    replace (length w <=? target)%nat with true by lia. cbn [app].
    rewrite IH by lia. reflexivity.
Qed.

Lemma dada_loop_to2_full rw T : forall cols c',
  length cols = rw -> dada_loop (T ++ [2%nat]) rw cols = Some c' -> all_le2 c' = true.
Proof.
  induction T as [|t T IH]; intros cols c' Hl H; cbn [app dada_loop] in H.
  - destruct (dada_pass 2 cols []) as [c1|] eqn:Ep; [|discriminate].
    injection H as <-. destruct (dada_pass_heights 2 cols [] c1 Ep) as (body & last & -> & Hb & Hh).
    rewrite take_pad_body by lia. apply all_le2_of_heights. exact Hh.
  - destruct (dada_pass t cols []) as [c1|] eqn:Ep; [|discriminate].
    apply IH in H; [exact H|apply take_pad_len].
Qed.

Lemma dada_loop_to2 rw T cols c' :
  T <> [] -> dada_loop (T ++ [2%nat]) rw cols = Some c' -> all_le2 c' = true.
Proof.
  intros HT H. destruct T as [|t T]; [congruence|]. cbn [app dada_loop] in H.
  destruct (dada_pass t cols []) as [c1|] eqn:Ep; [|discriminate].
  apply dada_loop_to2_full in H; [exact H|apply take_pad_len].
Qed.

Theorem dada_reduced_le2 cols rw c' : dada_reduced cols rw = Some c' -> all_le2 c' = true.
Proof.
  unfold dada_reduced, dada_targets. intros H.
  destruct (maxheight cols) as [|[|[|m]]] eqn:Em.
  - cbn in H. injection H as <-. apply all_le2_of_maxheight. lia.
  - cbn in H. injection H as <-. apply all_le2_of_maxheight. lia.
  - change (rev (dada_sched_up 3 2 2)) with [2%nat] in H. cbn [dada_loop] in H.
    rewrite dada_pass_idle in H by lia. injection H as <-.
    apply all_le2_take_pad. rewrite all_le2_app. rewrite all_le2_of_maxheight by lia. reflexivity.
  - assert (Es : dada_sched_up (S (S (S (S m)))) 2 (S (S (S m)))
                 = 2%nat :: 3%nat :: dada_sched_up (S (S m)) 4 (S (S (S m)))).
    { cbn [dada_sched_up]. replace (2 <=? S (S (S m)))%nat with true by lia.
      change (2 * 3 / 2)%nat with 3%nat. replace (3 <=? S (S (S m)))%nat with true by lia.
      change (3 * 3 / 2)%nat with 4%nat. reflexivity. }
    rewrite Es in H. cbn [rev] in H. rewrite <- app_assoc in H. cbn [app] in H.
    change [3%nat; 2%nat] with ([3%nat] ++ [2%nat]) in H. rewrite app_assoc in H.
    eapply dada_loop_to2; [|exact H]. destruct (rev _); discriminate.
Qed.

(* dada_reducer returns the weighted column sum mod 2^rw whenever it returns *)
Theorem dada_exact : reducer_ok dada_reducer.
Proof.
  intros add cols rw r Hadd H. pose proof H as H0. unfold dada_reducer in H.
  destruct (rw <? length cols)%nat; [discriminate|].
  destruct (dada_loop (dada_targets (maxheight cols)) rw cols) as [c'|] eqn:El; [|discriminate].
  apply (dada_exact_when_reduced add cols rw r c' Hadd H0 El).
  apply (dada_reduced_le2 cols rw c' El).
Qed.
