(* C19 -- executable model of pyrtl/rtllib/matrix.py (definitions only, no proofs).

   A Matrix is a Python list of lists of WireVectors plus `bits` and `max_bits`.
   The model keeps, for every element, the VALUE the element wire carries when read
   through `self[i, j]` (i.e. as_wires(elem, bitwidth=self.bits)): a Z in [0, 2^bits).
   Every operation is written the way the code computes it: the result Matrix is
   constructed with its width rule (capped by max_bits), then every element is
   assigned through __setitem__ (truncation `mod 2^bits`).  WireVector-level operators
   used by the code (+, -, *, <, >, ==, select, fused_multiply_adder) appear with the
   bitwidth of the wire they produce. *)
From PyRTL Require Import Base.PyZ.

Definition mat := list (list Z).

Definition get (m : mat) (i j : nat) : Z := nth j (nth i m []) 0.
Definition mk (r c : nat) (f : nat -> nat -> Z) : mat :=
  map (fun i => map (fun j => f i j) (seq 0 c)) (seq 0 r).
Definition nrows (m : mat) : nat := length m.
Definition ncols (m : mat) : nat := length (hd [] m).

Record Mx := MkMx { bits : Z; maxb : Z; dat : mat }.
Definition rows_of (a : Mx) := nrows (dat a).
Definition cols_of (a : Mx) := ncols (dat a).
Definition el (a : Mx) (i j : nat) : Z := get (dat a) i j.

(* ---- wire-level operators with the width of the produced wire ---- *)
Definition trunc (b v : Z) : Z := v mod 2 ^ b.                       (* as_wires(v, bitwidth=b) / v[:b] *)
Definition wv_add (wa wb x y : Z) : Z := (x + y) mod 2 ^ (Z.max wa wb + 1).
Definition wv_sub (wa wb x y : Z) : Z := (x - y) mod 2 ^ (Z.max wa wb + 1).
Definition wv_mul (wa wb x y : Z) : Z := (x * y) mod 2 ^ (wa + wb).
(* multipliers.generalized_fma with one product and one addend:
   longest = max(len a + len b - 1, len c); result_bitwidth = longest + ceil(log2 2) *)
Definition fma_width (wa wb wc : Z) : Z := Z.max (wa + wb - 1) wc + 1.
Definition fma (wa wb wc a b c : Z) : Z := (a * b + c) mod 2 ^ (fma_width wa wb wc).

(* `if bits > max_bits: bits = max_bits` *)
Definition capb (b mb : Z) : Z := if b >? mb then mb else b.

(* Matrix(r, c, b, max_bits=mb) followed by result[i, j] = f i j for every i, j *)
Definition mnew (r c : nat) (b mb : Z) (f : nat -> nat -> Z) : Mx :=
  let b' := capb b mb in
  MkMx b' mb (mk r c (fun i j => trunc b' (f i j))).

(* ---- WireVector <-> Matrix layout ---- *)
(* concat of the element list: the first element is the most significant *)
Fixpoint encode (b : Z) (l : list Z) : Z :=
  match l with
  | [] => 0
  | x :: xs => x * 2 ^ (b * Z.of_nat (length xs)) + encode b xs
  end.

(* element k of n (row-major) = bits [ (n-1-k)*b , (n-k)*b ) of the wire *)
Fixpoint decode (b : Z) (n : nat) (v : Z) : list Z :=
  match n with
  | O => []
  | S k => (v / 2 ^ (b * Z.of_nat k)) mod 2 ^ b :: decode b k v
  end.

Definition flat (m : mat) : list Z := concat m.
Definition unflat (r c : nat) (l : list Z) : mat := mk r c (fun i j => nth (i * c + j) l 0).

(* Matrix.to_wirevector *)
Definition to_wv (a : Mx) : Z := encode (bits a) (map (trunc (bits a)) (flat (dat a))).
Definition wv_len (a : Mx) : Z := bits a * Z.of_nat (rows_of a) * Z.of_nat (cols_of a).

(* Matrix(r, c, b, value=<WireVector carrying v>, max_bits=mb):
   _matrix[rows-i-1][columns-j-1] = value[start:start+bits], start = j*bits + i*columns*bits *)
Definition mx_in (r c : nat) (b mb : Z) (v : Z) : Mx :=
  let b' := capb b mb in
  MkMx b' mb (mk r c (fun i j =>
     let i' := (r - 1 - i)%nat in let j' := (c - 1 - j)%nat in
     (v / 2 ^ (Z.of_nat j' * b' + Z.of_nat i' * Z.of_nat c * b')) mod 2 ^ b')).

(* Matrix(r, c, b, value=<list of lists of wires/ints>, max_bits=mb) *)
Definition mx_list (b mb : Z) (m : mat) : Mx := mnew (nrows m) (ncols m) b mb (get m).

(* module functions matrix_wv_to_list(value, rows, columns, bits) and list_to_int(matrix, n_bits) *)
Definition matrix_wv_to_list (v : Z) (r c : nat) (b : Z) : mat := unflat r c (decode b (r * c) v).
Definition list_to_int (m : mat) (b : Z) : Z :=
  fold_left (fun acc x => Z.lor (Z.shiftl acc b) (Z.land x (Z.ones b))) (flat m) 0.

(* Matrix.copy *)
Definition mcopy (a : Mx) : Mx := mx_in (rows_of a) (cols_of a) (bits a) (maxb a) (to_wv a).

(* bits setter: every element wire becomes elem[:bits] *)
Definition mset_bits (a : Mx) (b : Z) : Mx := MkMx b (maxb a) (map (map (trunc b)) (dat a)).

(* ---- structural operations ---- *)
Definition mtranspose (a : Mx) : Mx :=
  mnew (cols_of a) (rows_of a) (bits a) (maxb a) (fun i j => el a j i).

Definition mreversed (a : Mx) : Mx :=
  mnew (rows_of a) (cols_of a) (bits a) (maxb a)
       (fun i j => el a (rows_of a - 1 - i) (cols_of a - 1 - j)).

(* ---- arithmetic ---- *)
Definition madd (a b : Mx) : Mx :=
  let nb := if bits b >? bits a then bits b else bits a in
  mnew (rows_of a) (cols_of a) (nb + 1) (maxb a)
       (fun i j => wv_add (bits a) (bits b) (el a i j) (el b i j)).

(* select(a > b, a - b, Const(0)) *)
Definition sat_sub (wa wb x y : Z) : Z := if x >? y then wv_sub wa wb x y else 0.
Definition msub (a b : Mx) : Mx :=
  let nb := if bits b >? bits a then bits b else bits a in
  mnew (rows_of a) (cols_of a) nb (maxb a)
       (fun i j => sat_sub (bits a) (bits b) (el a i j) (el b i j)).

Definition mmul (a b : Mx) : Mx :=
  mnew (rows_of a) (cols_of a) (bits a + bits b) (maxb a)
       (fun i j => wv_mul (bits a) (bits b) (el a i j) (el b i j)).

(* Matrix * WireVector (width ws, value s) *)
Definition mscal (a : Mx) (ws s : Z) : Mx :=
  mnew (rows_of a) (cols_of a) (bits a + ws) (maxb a)
       (fun i j => wv_mul (bits a) ws (el a i j) s).

(* __matmul__: result elements start as 0; for k: result[i,j] = fma(self[i,k], other[k,j], result[i,j]) *)
Definition matmul_bits (a b : Mx) : Z :=
  capb (Z.of_nat (cols_of a) * Z.of_nat (rows_of b) * (bits a + bits b)) (maxb a).
Definition matmul_step (wa wb rb : Z) (acc x y : Z) : Z := trunc rb (fma wa wb rb x y acc).
Definition matmul_el (a b : Mx) (rb : Z) (i j : nat) : Z :=
  fold_left (fun acc k => matmul_step (bits a) (bits b) rb acc (el a i k) (el b k j))
            (seq 0 (cols_of a)) 0.
Definition mmatmul (a b : Mx) : Mx :=
  let rb := matmul_bits a b in
  MkMx rb (maxb a) (mk (rows_of a) (cols_of b) (matmul_el a b rb)).

(* __pow__: power 0 -> identity written into a copy; power n>=1 -> reduce(matmul, [copy]*n) *)
Definition midentity (a : Mx) : Mx :=
  MkMx (bits a) (maxb a)
       (mk (rows_of a) (cols_of a) (fun i j => trunc (bits a) (if Nat.eqb i j then 1 else 0))).
Fixpoint mpow_from (acc c : Mx) (n : nat) : Mx :=
  match n with O => acc | S k => mpow_from (mmatmul acc c) c k end.
Definition mpow (a : Mx) (n : nat) : Mx :=
  let c := mcopy a in
  match n with O => midentity c | S k => mpow_from c c k end.

(* ---- indexing ---- *)
(* a slice key carries its step; __getitem__ rejects steps other than None / 1
   (`if rows.step not in (None, 1) ...: raise`); __setitem__ does not look at the step *)
Inductive key1 := KInt (z : Z) | KSl (a b st : option Z).
Definition step_accepted (st : option Z) : bool :=
  match st with None => true | Some z => z =? 1 end.

Definition neg_norm (n z : Z) : Z := if z <? 0 then n - Z.abs z else z.
Definition chk (n s e : Z) : option (Z * Z) :=
  if (s >? n) || (e >? n) || (s <? 0) || (e <? 0) then None else Some (s, e).
Definition sl_bounds (n : Z) (a b : option Z) : option (Z * Z) :=
  chk n (match a with None => 0 | Some s => neg_norm n s end)
        (match b with None => n | Some e => neg_norm n e end).
(* __getitem__ normalises a negative int BEFORE building slice(i, i+1) *)
Definition key_get (n : Z) (k : key1) : option (Z * Z) :=
  match k with
  | KInt z => let z' := neg_norm n z in if z' <? 0 then None else chk n z' (z' + 1)
  | KSl a b st => if step_accepted st then sl_bounds n a b else None
  end.
(* __setitem__ normalises a negative int the same way (since the repair of m[-1, c] = v) *)
Definition key_set (n : Z) (k : key1) : option (Z * Z) :=
  match k with
  | KInt z => let z' := neg_norm n z in if z' <? 0 then None else chk n z' (z' + 1)
  | KSl a b st => sl_bounds n a b
  end.

(* self[kr, kc]; a single element is returned as a 1x1 result (it is a WireVector of width bits) *)
Definition mgetitem (a : Mx) (kr kc : key1) : option Mx :=
  match key_get (Z.of_nat (rows_of a)) kr, key_get (Z.of_nat (cols_of a)) kc with
  | Some (rs, re), Some (cs, ce) =>
      if (re - rs <=? 0) || (ce - cs <=? 0) then None
      else if (re - rs =? 1) && (ce - cs =? 1)
      then Some (MkMx (bits a) (maxb a) [[el a (Z.to_nat rs) (Z.to_nat cs)]])
      else Some (mnew (Z.to_nat (re - rs)) (Z.to_nat (ce - cs)) (bits a) (maxb a)
                      (fun i j => el a (i + Z.to_nat rs) (j + Z.to_nat cs)))
  | _, _ => None
  end.

Definition in_box (rs re cs ce : Z) (i j : nat) : bool :=
  (rs <=? Z.of_nat i) && (Z.of_nat i <? re) && (cs <=? Z.of_nat j) && (Z.of_nat j <? ce).

(* self[kr, kc] = <Matrix v> *)
Definition msetitem_m (a : Mx) (kr kc : key1) (v : Mx) : option Mx :=
  match key_set (Z.of_nat (rows_of a)) kr, key_set (Z.of_nat (cols_of a)) kc with
  | Some (rs, re), Some (cs, ce) =>
      if (Z.of_nat (rows_of v) =? re - rs) && (Z.of_nat (cols_of v) =? ce - cs)
      then Some (MkMx (bits a) (maxb a)
             (mk (rows_of a) (cols_of a) (fun i j =>
                if in_box rs re cs ce i j
                then trunc (bits a) (el v (i - Z.to_nat rs) (j - Z.to_nat cs))
                else el a i j)))
      else None
  | _, _ => None
  end.

(* self[kr, kc] = <WireVector/int of value x> *)
Definition msetitem_s (a : Mx) (kr kc : key1) (x : Z) : option Mx :=
  match key_set (Z.of_nat (rows_of a)) kr, key_set (Z.of_nat (cols_of a)) kc with
  | Some (rs, re), Some (cs, ce) =>
      if (re - rs =? 1) && (ce - cs =? 1)
      then Some (MkMx (bits a) (maxb a)
             (mk (rows_of a) (cols_of a) (fun i j =>
                if in_box rs re cs ce i j then trunc (bits a) x else el a i j)))
      else None
  | _, _ => None
  end.

(* ---- put ---- *)
Inductive pmode := PRaise | PWrap | PClip.
Definition put_ix (count : Z) (mode : pmode) (ix : Z) : option Z :=
  let ix := if ix <? 0 then count - Z.abs ix else ix in
  if (ix <? 0) || (ix >=? count) then
    match mode with
    | PRaise => None
    | PWrap => Some (ix mod count)
    | PClip => Some (if ix <? 0 then 0 else count - 1)
    end
  else Some ix.

(* value for the v_ix-th index when v is a tuple/list: repeat the LAST value *)
Definition put_val_list (v : list Z) (ix : nat) : option Z :=
  Some (if (length v <=? ix)%nat then last v 0 else nth ix v 0).
(* when v is a row-vector Matrix: `if ix >= v.columns: return v[0, -1]` else v[0, ix] *)
Definition put_val_mat (v : list Z) (ix : nat) : option Z :=
  Some (if Z.of_nat ix >=? Z.of_nat (length v) then last v 0 else nth ix v 0).

Definition set_flat (a : Mx) (ix : Z) (x : Z) : Mx :=
  let c := cols_of a in
  let r0 := Z.to_nat (ix / Z.of_nat c) in let c0 := Z.to_nat (ix mod Z.of_nat c) in
  MkMx (bits a) (maxb a)
       (mk (rows_of a) c (fun i j => if Nat.eqb i r0 && Nat.eqb j c0 then trunc (bits a) x else el a i j)).

Fixpoint put_loop (a : Mx) (count : Z) (mode : pmode) (valf : nat -> option Z)
         (ind : list Z) (k : nat) : option Mx :=
  match ind with
  | [] => Some a
  | ix :: rest =>
      match put_ix count mode ix with
      | None => None
      | Some ix' =>
          match valf k with
          | None => None
          | Some x => put_loop (set_flat a ix' x) count mode valf rest (S k)
          end
      end
  end.

Definition mput_list (a : Mx) (ind v : list Z) (mode : pmode) : option Mx :=
  match v with
  | [] => Some a
  | _ => put_loop a (Z.of_nat (rows_of a * cols_of a)) mode (put_val_list v) ind 0
  end.
Definition mput_mat (a : Mx) (ind : list Z) (v : Mx) (mode : pmode) : option Mx :=
  let count := Z.of_nat (rows_of a * cols_of a) in
  put_loop a count mode (put_val_mat (nth 0 (dat v) [])) ind 0.

(* ---- reshape / flatten ---- *)
(* source coordinates of the ix-th element read in C (row-major) / F (column-major) order *)
Definition src_C (r c ix : nat) : nat * nat := ((ix / c)%nat, (ix mod c)%nat).
Definition src_F (r c ix : nat) : nat * nat := ((ix mod r)%nat, (ix / r)%nat).
(* position of the ix-th element written in C / F order in the new shape *)
Definition ix_C (r' c' i j : nat) : nat := (i * c' + j)%nat.
Definition ix_F (r' c' i j : nat) : nat := (j * r' + i)%nat.

(* newshape resolution: (rows, cols) with at most one -1 *)
Definition resolve_shape (count nr nc : Z) : option (Z * Z) :=
  if (nr =? -1) && (nc =? -1) then None
  else let '(r, c) := if nr =? -1 then (count / nc, nc)
                      else if nc =? -1 then (nr, count / nr) else (nr, nc) in
       if (r * c =? count) && (0 <? r) && (0 <? c) then Some (r, c) else None.

Definition mreshape (a : Mx) (nr nc : Z) (orderF : bool) : option Mx :=
  let r := rows_of a in let c := cols_of a in
  match resolve_shape (Z.of_nat (r * c)) nr nc with
  | None => None
  | Some (r', c') =>
      let r' := Z.to_nat r' in let c' := Z.to_nat c' in
      Some (mnew r' c' (bits a) (maxb a) (fun i j =>
        let '(sr, sc) := if orderF then src_F r c (ix_F r' c' i j) else src_C r c (ix_C r' c' i j) in
        el a sr sc))
  end.

Definition mflatten (a : Mx) (orderF : bool) : option Mx :=
  mreshape a 1 (Z.of_nat (rows_of a * cols_of a)) orderF.

(* ---- reductions ---- *)
(* a WireVector result: (bitwidth, value) *)
Definition wv := (Z * Z)%type.
Definition reduce1 {A} (f : A -> A -> A) (d : A) (l : list A) : A :=
  match l with [] => d | x :: xs => fold_left f xs x end.

Definition sum_2 (p q : wv) : wv := (Z.max (fst p) (fst q) + 1, wv_add (fst p) (fst q) (snd p) (snd q)).
Definition min_2 (p q : wv) : wv := (Z.max (fst p) (fst q), if snd p <? snd q then snd p else snd q).
Definition max_2 (p q : wv) : wv := (Z.max (fst p) (fst q), if snd p >? snd q then snd p else snd q).

Definition as_wvs (b : Z) (l : list Z) : list wv := map (fun x => (b, x)) l.
Definition col (a : Mx) (j : nat) : list Z := map (fun i => el a i j) (seq 0 (rows_of a)).
Definition row (a : Mx) (i : nat) : list Z := map (fun j => el a i j) (seq 0 (cols_of a)).

Inductive axis := AxNone | Ax0 | Ax1.
Definition default_bits (a : Mx) (b : option Z) : Z := match b with None => bits a | Some b => b end.

(* sum/min/max(matrix, axis, bits): axis None -> a WireVector (returned as a 1x1 result whose
   `bits` is the wire's bitwidth); axis 0/1 -> Matrix(1, n, bits=bits) with the default max_bits=64 *)
Definition mreduce (f : wv -> wv -> wv) (a : Mx) (ax : axis) (b : option Z) : Mx :=
  let bb := default_bits a b in
  match ax with
  | AxNone => let r := reduce1 f (0, 0) (as_wvs (bits a) (flat (dat a))) in MkMx (fst r) (maxb a) [[snd r]]
  | Ax0 => mnew 1 (cols_of a) bb 64 (fun _ j => snd (reduce1 f (0, 0) (as_wvs (bits a) (col a j))))
  | Ax1 => mnew 1 (rows_of a) bb 64 (fun _ i => snd (reduce1 f (0, 0) (as_wvs (bits a) (row a i))))
  end.
Definition msum := mreduce sum_2.
Definition mmin := mreduce min_2.
Definition mmax := mreduce max_2.

(* chain of select(max == elem, Const(arg), index) built from the last element to the first:
   the first element equal to mx wins, 0 when none is equal *)
Fixpoint argmax_from (mx : Z) (idx : Z) (l : list Z) : Z :=
  match l with
  | [] => 0
  | x :: xs => if mx =? x then idx else argmax_from mx (idx + 1) xs
  end.

(* bit length of Const(n) *)
Definition const_len (n : Z) : Z := if n =? 0 then 1 else Z.log2 n + 1.

(* argmax(matrix, axis, bits): the max is first computed by max(matrix, axis, bits=matrix.bits)
   (a Matrix(1, n, bits=matrix.bits) with the default max_bits=64) and compared with the elements *)
Definition margmax (a : Mx) (ax : axis) (b : option Z) : Mx :=
  let bb := default_bits a b in
  let mxm := mmax a ax (Some (bits a)) in
  match ax with
  | AxNone =>
      let l := flat (dat a) in
      let n := Z.of_nat (length l) in
      MkMx (Z.max (const_len (n - 1)) 1) (maxb a) [[argmax_from (el mxm 0 0) 0 l]]
  | Ax0 => mnew 1 (cols_of a) bb 64 (fun _ j => argmax_from (el mxm 0 j) 0 (col a j))
  | Ax1 => mnew 1 (rows_of a) bb 64 (fun _ i => argmax_from (el mxm 0 i) 0 (row a i))
  end.

(* ---- dot ---- *)
Definition is11 (a : Mx) : bool := Nat.eqb (rows_of a) 1 && Nat.eqb (cols_of a) 1.
Definition same_shape (a b : Mx) : bool :=
  Nat.eqb (rows_of a) (rows_of b) && Nat.eqb (cols_of a) (cols_of b).
(* dot's local inner_product(a, b): products = a * b; result = sum(products); when the products were
   capped (products.bits < a.bits + b.bits) the sum is truncated to products.bits: result[:products.bits] *)
Definition inner_product (x y : Mx) : Mx :=
  let p := mmul x y in
  let s := msum p AxNone None in
  if bits p <? bits x + bits y
  then MkMx (Z.min (bits s) (bits p)) (maxb s) [[trunc (bits p) (el s 0 0)]]
  else s.

(* x[:, :] is a WireVector when x is 1x1 and a Matrix otherwise.
   first 1x1: `second[:, :] * first[0, 0]`; second 1x1: `first[:, :] * second[:, :]` *)
Definition mdot (a b : Mx) : option Mx :=
  if is11 a then
    if is11 b then Some (MkMx (2 * Z.max (bits a) (bits b)) (maxb a) [[el a 0 0 * el b 0 0]])
    else Some (mscal b (bits a) (el a 0 0))
  else if is11 b then Some (mscal a (bits b) (el b 0 0))
  else
    let inner x y := if same_shape x y then Some (inner_product x y) else None in
    if Nat.eqb (rows_of a) 1 && Nat.eqb (rows_of b) 1 then inner a b
    else if Nat.eqb (rows_of a) 1 && Nat.eqb (cols_of b) 1 then inner a (mtranspose b)
    else if Nat.eqb (cols_of a) 1 && Nat.eqb (rows_of b) 1 then inner a (mtranspose b)
    else if Nat.eqb (cols_of a) 1 && Nat.eqb (cols_of b) 1 then inner a b
    else if Nat.eqb (cols_of a) (rows_of b) then Some (mmatmul a b) else None.

(* ---- stacking ---- *)
Definition zmaxl (l : list Z) : Z := match l with [] => 0 | x :: xs => fold_left Z.max xs x end.
Fixpoint hget (ms : list Mx) (r c : nat) : Z :=
  match ms with
  | [] => 0
  | m :: rest => if (c <? cols_of m)%nat then el m r c else hget rest r (c - cols_of m)
  end.
Fixpoint vget (ms : list Mx) (r c : nat) : Z :=
  match ms with
  | [] => 0
  | m :: rest => if (r <? rows_of m)%nat then el m r c else vget rest (r - rows_of m) c
  end.
Definition natsum (l : list nat) : nat := fold_right Nat.add O l.

Definition mhstack (ms : list Mx) : option Mx :=
  match ms with
  | [] => None
  | [m] => Some (mcopy m)
  | m :: _ =>
      if forallb (fun x => Nat.eqb (rows_of x) (rows_of m)) ms
      then Some (mnew (rows_of m) (natsum (map cols_of ms)) (zmaxl (map bits ms)) (zmaxl (map maxb ms))
                      (hget ms))
      else None
  end.
Definition mvstack (ms : list Mx) : option Mx :=
  match ms with
  | [] => None
  | [m] => Some (mcopy m)
  | m :: _ =>
      if forallb (fun x => Nat.eqb (cols_of x) (cols_of m)) ms
      then Some (mnew (natsum (map rows_of ms)) (cols_of m) (zmaxl (map bits ms)) (zmaxl (map maxb ms))
                      (vget ms))
      else None
  end.
(* concatenate(matrices, axis): 0 -> hstack, 1 -> vstack *)
Definition mconcatenate (ms : list Mx) (ax : Z) : option Mx :=
  if ax =? 0 then mhstack ms else if ax =? 1 then mvstack ms else None.

(* ---- what the harness reads back: (bits, rows, to_wirevector value) ---- *)
Definition out (a : Mx) : Z * mat * Z := (bits a, dat a, to_wv a).
Definition outo (a : option Mx) : option (Z * mat * Z) :=
  match a with None => None | Some a => Some (out a) end.

(* with the max_bits attribute, and chaining of operations (op2 (op1 A) B) for the harness *)
Definition outx (a : Mx) : Z * mat * Z * Z := (bits a, dat a, to_wv a, maxb a).
Definition outxo (a : option Mx) : option (Z * mat * Z * Z) :=
  match a with None => None | Some a => Some (outx a) end.
Definition obind (a : option Mx) (f : Mx -> option Mx) : option Mx :=
  match a with None => None | Some a => f a end.

(* ---- in-place operators ----
   new_value = self <op> other; self._matrix = new_value._matrix; self takes new_value's bits
   (`+=` through the bits setter, the others by assigning _bits; `@=` also takes rows/columns);
   the statement's value is self.copy() -- self keeps its own max_bits *)
Definition inplace_self (a n : Mx) : Mx := MkMx (bits n) (maxb a) (dat n).
Definition miadd (a b : Mx) : Mx :=
  let n := madd a b in mcopy (mset_bits (MkMx (bits a) (maxb a) (dat n)) (bits n)).
Definition misub (a b : Mx) : Mx := mcopy (inplace_self a (msub a b)).
Definition mimul (a b : Mx) : Mx := mcopy (inplace_self a (mmul a b)).
Definition mimatmul (a b : Mx) : Mx := mcopy (inplace_self a (mmatmul a b)).
Definition mipow (a : Mx) (n : nat) : Mx := mcopy (inplace_self a (mpow a n)).

(* ---- a pool of Matrix objects and API steps on it (histories on the same objects) ----
   Every name in a program is an index into the pool.  A call that builds a result appends it; a call
   documented as in-place replaces the state of its target (and, for the augmented assignments, also
   appends the value of the statement, which is `self.copy()`); nothing else ever changes. *)
Inductive pstep :=
| PProbe (i : nat)                                   (* p[i].to_wirevector() *)
| PCopy (i : nat) | PTranspose (i : nat) | PReversed (i : nat)
| PGetitem (i : nat) (kr kc : key1)
| PReshape (i : nat) (nr nc : Z) (orderF : bool) | PFlatten (i : nat) (orderF : bool)
| PPow (i n : nat)
| PAdd (i j : nat) | PSub (i j : nat) | PMul (i j : nat) | PMatmul (i j : nat)
| PHstack (l : list nat) | PVstack (l : list nat) | PConcat (l : list nat) (ax : Z)
| PReduce (w : Z) (i : nat) (ax : axis) (b : option Z)   (* w: 0 sum, 1 min, 2 max, 3 argmax; axis 0/1 *)
| PIadd (i j : nat) | PIsub (i j : nat) | PImul (i j : nat) | PImatmul (i j : nat) | PIpow (i n : nat)
| PSetitemS (i : nat) (kr kc : key1) (x : Z) | PSetitemM (i : nat) (kr kc : key1) (j : nat)
| PPut (i : nat) (ind v : list Z) (mode : pmode)
| PSetbits (i : nat) (b : Z).

Fixpoint pset (p : list Mx) (i : nat) (m : Mx) : list Mx :=
  match p, i with
  | [], _ => []
  | _ :: t, O => m :: t
  | x :: t, S k => x :: pset t k m
  end.
Fixpoint pgets (p : list Mx) (l : list nat) : option (list Mx) :=
  match l with
  | [] => Some []
  | i :: rest => match nth_error p i, pgets p rest with
                 | Some m, Some r => Some (m :: r)
                 | _, _ => None
                 end
  end.
Definition padd1 (p : list Mx) (o : option Mx) : option (list Mx) :=
  match o with Some m => Some (p ++ [m]) | None => None end.
Definition pun (p : list Mx) (i : nat) (f : Mx -> option Mx) : option (list Mx) :=
  match nth_error p i with Some a => padd1 p (f a) | None => None end.
Definition pbin (p : list Mx) (i j : nat) (f : Mx -> Mx -> option Mx) : option (list Mx) :=
  match nth_error p i, nth_error p j with Some a, Some b => padd1 p (f a b) | _, _ => None end.
Definition pupd (p : list Mx) (i : nat) (f : Mx -> option Mx) : option (list Mx) :=
  match nth_error p i with
  | Some a => match f a with Some m => Some (pset p i m) | None => None end
  | None => None
  end.
(* augmented assignment: the target becomes self', the statement's value self'.copy() is a new object *)
Definition pinpl (p : list Mx) (i j : nat) (f : Mx -> Mx -> option Mx) : option (list Mx) :=
  match nth_error p i, nth_error p j with
  | Some a, Some b => match f a b with Some s => Some (pset p i s ++ [mcopy s]) | None => None end
  | _, _ => None
  end.
Definition if_shape (c : bool) (m : Mx) : option Mx := if c then Some m else None.
Definition is_square (a : Mx) : bool := Nat.eqb (rows_of a) (cols_of a).

Definition papply (p : list Mx) (s : pstep) : option (list Mx) :=
  match s with
  | PProbe i => match nth_error p i with Some _ => Some p | None => None end
  | PCopy i => pun p i (fun a => Some (mcopy a))
  | PTranspose i => pun p i (fun a => Some (mtranspose a))
  | PReversed i => pun p i (fun a => Some (mreversed a))
  | PGetitem i kr kc => pun p i (fun a => mgetitem a kr kc)
  | PReshape i nr nc f => pun p i (fun a => mreshape a nr nc f)
  | PFlatten i f => pun p i (fun a => mflatten a f)
  | PPow i n => pun p i (fun a => if_shape (is_square a) (mpow a n))
  | PAdd i j => pbin p i j (fun a b => if_shape (same_shape a b) (madd a b))
  | PSub i j => pbin p i j (fun a b => if_shape (same_shape a b) (msub a b))
  | PMul i j => pbin p i j (fun a b => if_shape (same_shape a b) (mmul a b))
  | PMatmul i j => pbin p i j (fun a b => if_shape (Nat.eqb (cols_of a) (rows_of b)) (mmatmul a b))
  | PHstack l => match pgets p l with Some ms => padd1 p (mhstack ms) | None => None end
  | PVstack l => match pgets p l with Some ms => padd1 p (mvstack ms) | None => None end
  | PConcat l ax => match pgets p l with Some ms => padd1 p (mconcatenate ms ax) | None => None end
  | PReduce w i ax b =>
      pun p i (fun a => match ax with
                        | AxNone => None
                        | _ => Some (if w =? 0 then msum a ax b else if w =? 1 then mmin a ax b
                                     else if w =? 2 then mmax a ax b else margmax a ax b)
                        end)
  | PIadd i j => pinpl p i j (fun a b =>
      if_shape (same_shape a b) (let n := madd a b in mset_bits (MkMx (bits a) (maxb a) (dat n)) (bits n)))
  | PIsub i j => pinpl p i j (fun a b => if_shape (same_shape a b) (inplace_self a (msub a b)))
  | PImul i j => pinpl p i j (fun a b => if_shape (same_shape a b) (inplace_self a (mmul a b)))
  | PImatmul i j => pinpl p i j (fun a b =>
      if_shape (Nat.eqb (cols_of a) (rows_of b)) (inplace_self a (mmatmul a b)))
  | PIpow i n => pinpl p i i (fun a _ => if_shape (is_square a) (inplace_self a (mpow a n)))
  | PSetitemS i kr kc x => pupd p i (fun a => msetitem_s a kr kc x)
  | PSetitemM i kr kc j => match nth_error p j with
                           | Some v => pupd p i (fun a => msetitem_m a kr kc v)
                           | None => None
                           end
  | PPut i ind v mode => pupd p i (fun a => mput_list a ind v mode)
  | PSetbits i b => pupd p i (fun a => Some (mset_bits a b))
  end.

(* the pool after every step (stops at the first step that raises) *)
Fixpoint prun (p : list Mx) (ss : list pstep) : list (list Mx) :=
  match ss with
  | [] => []
  | s :: rest => match papply p s with
                 | Some p' => p' :: prun p' rest
                 | None => []
                 end
  end.
Definition prun_out (p : list Mx) (ss : list pstep) : list (list (Z * mat * Z * Z)) :=
  map (map outx) (prun p ss).
