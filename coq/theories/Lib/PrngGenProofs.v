(* Bridging theorems: the step functions REGENERATED from pyrtl/rtllib/prngs.py (Gen/PrngFrag.v) are
   the hand-written structure model of Lib/PrngModel.v, for all parameters, register contents and
   inputs (load / req one bit wide, seed within its width).  Every property theorem stated over
   PrngModel therefore speaks about what the source says NOW; an edit of prngs.py changes
   Gen/PrngFrag.v and either these proofs still go through or an obligation fails. *)
From Coq Require Import ZArith List Bool Lia ZifyBool.
From PyRTL Require Import Base.PyZ Lib.PrngSpec Lib.PrngModel Lib.PrngProofs Lib.PrngProto
  Lib.PrngGenBase Gen.PrngFrag Lib.PrngGenRun.
Import ListNotations.
Open Scope Z_scope.

Notation b2z := PrngSpec.b2z.

Definition bit1 (x : Z) : Prop := x = 0 \/ x = 1.

Lemma b2z_xor x y : Z.lxor (b2z x) (b2z y) = b2z (xorb x y).
Proof. destruct x, y; reflexivity. Qed.
Lemma b2z_and x y : Z.land (b2z x) (b2z y) = b2z (andb x y).
Proof. destruct x, y; reflexivity. Qed.
Lemma b2z_or x y : Z.lor (b2z x) (b2z y) = b2z (orb x y).
Proof. destruct x, y; reflexivity. Qed.
Lemma nz_b2z x : g_nz (b2z x) = x.
Proof. destruct x; reflexivity. Qed.
Lemma not1_b2z x : g_not1 (b2z x) = b2z (negb x).
Proof. destruct x; reflexivity. Qed.
Lemma not1_bit x : bit1 x -> g_not1 x = b2z (x =? 0).
Proof. intros [->| ->]; reflexivity. Qed.

Lemma g_concat_map x l : g_concat_bits x (map b2z l) = concat_bits x l.
Proof.
  unfold g_concat_bits, concat_bits. revert x. induction l as [|t l IH]; intros x; cbn [map fold_left]; auto.
Qed.

(* ---------------- prng_lfsr ---------------- *)
Lemma g_iter_leap n : forall la,
  g_iter n (fun it => Z.add (Z.shiftl it 1) (Z.lxor (g_bit it 125) (g_bit it 126))) la = m_leap n la.
Proof.
  induction n; intros la; cbn [g_iter m_leap]; [reflexivity|].
  rewrite IHn. f_equal. unfold g_bit. rewrite b2z_xor, Z.shiftl_mul_pow2 by lia. change (2 ^ 1) with 2. ring.
Qed.

Theorem gen_lfsr_is_model bw lfsr i :
  g_lfsr_step bw lfsr i = (m_lfsr_step bw lfsr i, m_lfsr_out bw lfsr).
Proof.
  destruct i as [[load req] seed]. unfold g_lfsr_step, m_lfsr_step, m_lfsr_out, lfsr_width, g_nz.
  cbv zeta. rewrite g_iter_leap. reflexivity.
Qed.

(* ---------------- prng_xoroshiro128 ---------------- *)
Lemma gtb_ltb (a : Z) : Z.gtb a 1 = Z.ltb 1 a.
Proof. apply Z.gtb_ltb. Qed.

Theorem gen_xoroshiro_is_model bw s0 s1 rand counter state load req seed :
  bit1 load -> bit1 req ->
  g_xo_step bw (s0, s1, rand, counter, state) (load, req, seed)
  = (m_xo_step bw (s0, s1, rand, counter, state) (load, req, seed),
     m_xo_out bw (s0, s1, rand, counter, state) (load, req, seed)).
Proof.
  intros Hl Hr.
  unfold g_xo_step, m_xo_step, m_xo_out, m_xo_s0_next, m_xo_s1_next, m_xo_output,
    xo_counter_bw, xo_gen_cycles, ceil_div, g_ceil_div.
  cbv zeta. unfold g_eq. rewrite !not1_b2z, !nz_b2z, !(not1_bit load), !(not1_bit req) by assumption.
  rewrite !b2z_and. rewrite gtb_ltb.
  rewrite (low_low 64) by lia. rewrite !low_land0.
  change (low 1 0) with 0. change (low 1 1) with 1.
  unfold g_nz.
  destruct Hl as [-> | ->], Hr as [-> | ->]; cbn [Z.eqb negb andb];
    destruct (state =? 1), (counter =? (bw + 64 - 1) / 64 - 1); cbn [negb andb]; reflexivity.
Qed.

(* ---------------- csprng_trivium ---------------- *)
Lemma g_taps a b c (k : Z) :
  map (fun i => Z.lxor (Z.lxor (Z.lxor (g_bit c (65 - i)) (g_bit c (110 - i)))
                               (Z.land (g_bit c (108 - i)) (g_bit c (109 - i)))) (g_bit a (68 - i))) (g_range k)
    = map b2z (map fa4 (map (m_tv_taps a b c) (idxs (Z.to_nat k)))) /\
  map (fun i => Z.lxor (Z.lxor (Z.lxor (g_bit a (65 - i)) (g_bit a (92 - i)))
                               (Z.land (g_bit a (90 - i)) (g_bit a (91 - i)))) (g_bit b (77 - i))) (g_range k)
    = map b2z (map fb4 (map (m_tv_taps a b c) (idxs (Z.to_nat k)))) /\
  map (fun i => Z.lxor (Z.lxor (Z.lxor (g_bit b (68 - i)) (g_bit b (83 - i)))
                               (Z.land (g_bit b (81 - i)) (g_bit b (82 - i)))) (g_bit c (86 - i))) (g_range k)
    = map b2z (map fc4 (map (m_tv_taps a b c) (idxs (Z.to_nat k)))) /\
  map (fun i => Z.lxor (Z.lxor (Z.lxor (g_bit a (65 - i)) (g_bit a (92 - i)))
                               (Z.lxor (g_bit b (68 - i)) (g_bit b (83 - i))))
                       (Z.lxor (g_bit c (65 - i)) (g_bit c (110 - i)))) (g_range k)
    = map b2z (map out4 (map (m_tv_taps a b c) (idxs (Z.to_nat k)))).
Proof.
  unfold g_range. change (map Z.of_nat (seq 0 (Z.to_nat k))) with (idxs (Z.to_nat k)).
  repeat split; rewrite !map_map; apply map_ext; intros i; unfold m_tv_taps, g_bit;
    cbn [fa4 fb4 fc4 out4]; rewrite ?b2z_xor, ?b2z_and, ?b2z_xor; reflexivity.
Qed.

Theorem gen_trivium_is_model bw k a b c rand counter state load req seed :
  bit1 load -> bit1 req -> 0 <= seed < 2 ^ 160 ->
  g_tv_step bw k (a, b, c, rand, counter, state) (load, req, seed)
  = (let '(abc', rand', counter', state') := m_tv_step bw k ((a, b, c), rand, counter, state) (load, req, seed) in
     let '(a', b', c') := abc' in (a', b', c', rand', counter', state'),
     m_tv_out bw k ((a, b, c), rand, counter, state) (load, req, seed)).
Proof.
  intros Hl Hr Hs.
  destruct (g_taps a b c k) as (Ta & Tb & Tc & To).
  unfold g_tv_step, m_tv_step, m_tv_out, m_tv_par, tv_counter_bw, tv_init_cycles, tv_gen_cycles, ceil_div, g_ceil_div.
  cbv zeta.
  rewrite Ta, Tb, Tc, To, !g_concat_map.
  unfold g_eq. rewrite !not1_b2z, !nz_b2z, !(not1_bit load), !(not1_bit req) by assumption.
  rewrite !b2z_and, !b2z_or, !b2z_and.
  (* the load values *)
  assert (K : low 93 (Z.shiftr seed 80) = low 80 (Z.shiftr seed 80)).
  { assert (0 <= Z.shiftr seed 80 < 2 ^ 80).
    { rewrite Z.shiftr_div_pow2 by lia. split; [apply Z.div_pos; lia|].
      apply Z.div_lt_upper_bound; [lia|]. rewrite <- Z.pow_add_r by lia. exact (proj2 Hs). }
    assert (2 ^ 80 < 2 ^ 93) by (apply Z.pow_lt_mono_r; lia).
    rewrite !low_id by lia. reflexivity. }
  assert (IV : low 84 (low 80 seed) = low 80 seed).
  { pose proof (low_range 80 seed ltac:(lia)). assert (2 ^ 80 < 2 ^ 84) by (apply Z.pow_lt_mono_r; lia).
    apply low_id; lia. }
  rewrite K, IV.
  change (low 111 (Z.shiftl 7 108 + 0)) with (Z.shiftl 7 108).
  rewrite !low_land0.
  change (low 2 1) with 1. change (low 2 2) with 2.
  unfold g_nz, fst, snd.
  destruct Hl as [-> | ->], Hr as [-> | ->]; cbn [Z.eqb negb andb];
    destruct (state =? 1), (state =? 2), (counter =? 1152 / k), (counter =? (bw + k - 1) / k - 1);
    cbn [negb andb orb]; reflexivity.
Qed.

(* the parameter guard of csprng_trivium: accepted bits_per_cycle in 1..64 are the divisors of 64 *)
Theorem gen_trivium_guard k : 1 <= k <= 64 ->
  (g_tv_rejects 0 k = false <-> In k [1; 2; 4; 8; 16; 32; 64]).
Proof.
  intros Hk. unfold g_tv_rejects.
  assert (forallb (fun n => let k := Z.of_nat n + 1 in
            Bool.eqb (negb (negb (64 / k * k =? 64)))
                     (existsb (Z.eqb k) [1; 2; 4; 8; 16; 32; 64])) (seq 0 64) = true) as H by (vm_compute; reflexivity).
  rewrite forallb_forall in H. specialize (H (Z.to_nat (k - 1))).
  rewrite in_seq in H. specialize (H ltac:(lia)). cbv zeta in H.
  replace (Z.of_nat (Z.to_nat (k - 1)) + 1) with k in H by lia.
  apply Bool.eqb_prop in H. rewrite negb_involutive in H.
  split.
  - intros E. apply negb_false_iff in E. rewrite E in H. symmetry in H.
    apply existsb_exists in H. destruct H as [x [Hin Hx]]. apply Z.eqb_eq in Hx. subst x. exact Hin.
  - intros Hin. apply negb_false_iff. rewrite H. apply existsb_exists. exists k. split; [exact Hin|apply Z.eqb_refl].
Qed.

(* ---------------- run level: the regenerated step functions deliver the protocol specification ---------------- *)
Definition ins_ok (W : Z) (i : Z * Z * Z) : Prop :=
  bit1 (fst (fst i)) /\ bit1 (snd (fst i)) /\ 0 <= snd i < 2 ^ W.

Lemma g_lfsr_run_model bw : forall ins regs, g_lfsr_run bw regs ins = m_lfsr_run bw regs ins.
Proof.
  induction ins as [|i t IH]; intros regs; [reflexivity|].
  cbn [g_lfsr_run m_lfsr_run]. rewrite gen_lfsr_is_model. cbn [fst snd]. rewrite IH. reflexivity.
Qed.

Lemma g_xo_run_model bw : forall ins regs, Forall (ins_ok 128) ins -> g_xo_run bw regs ins = m_xo_run bw regs ins.
Proof.
  induction ins as [|[[load req] seed] t IH]; intros [[[[s0 s1] rand] counter] state] HF; [reflexivity|].
  pose proof (Forall_inv HF) as (Hl & Hr & _). apply Forall_inv_tail in HF. cbn [fst snd] in Hl, Hr.
  cbn [g_xo_run m_xo_run]. rewrite gen_xoroshiro_is_model by assumption. cbn [fst snd].
  rewrite IH by exact HF. reflexivity.
Qed.

Definition tv_nest (r : Z * Z * Z * Z * Z * Z) : tv_state :=
  let '(a, b, c, rand, counter, state) := r in ((a, b, c), rand, counter, state).

Lemma g_tv_run_model bw k : forall ins regs, Forall (ins_ok 160) ins ->
  g_tv_run bw k regs ins = m_tv_run bw k (tv_nest regs) ins.
Proof.
  induction ins as [|[[load req] seed] t IH]; intros [[[[[a b] c] rand] counter] state] HF; [reflexivity|].
  pose proof (Forall_inv HF) as (Hl & Hr & Hs). apply Forall_inv_tail in HF. cbn [fst snd] in Hl, Hr, Hs.
  cbn [g_tv_run m_tv_run tv_nest]. rewrite gen_trivium_is_model by assumption. cbn [fst snd].
  rewrite IH by exact HF. f_equal. f_equal.
  destruct (m_tv_step bw k (a, b, c, rand, counter, state) (load, req, seed)) as [[[[[a' b'] c'] rand'] counter'] state'].
  reflexivity.
Qed.

Theorem gen_prng_protocol :
  (forall bw ins, 0 < bw -> g_lfsr_run bw 0 ins = s_lfsr_run bw 0 ins) /\
  (forall bw ins, 0 < bw -> Forall (ins_ok 128) ins ->
     g_xo_run bw (0, 0, 0, 0, 0) ins = s_xo_run bw sxo_init ins) /\
  (forall bw k ins, 0 < bw -> g_tv_rejects bw k = false -> 1 <= k <= 64 -> Forall (ins_ok 160) ins ->
     g_tv_run bw k (0, 0, 0, 0, 0, 0) ins = s_tv_run bw k stv_init ins).
Proof.
  destruct prng_protocol_all as (PL & PX & PT). split; [|split].
  - intros bw ins Hb. rewrite g_lfsr_run_model. apply PL. exact Hb.
  - intros bw ins Hb HF. rewrite g_xo_run_model by exact HF. apply PX. exact Hb.
  - intros bw k ins Hb Hrej Hk HF. rewrite g_tv_run_model by exact HF. apply PT; [exact Hb|].
    apply (gen_trivium_guard k Hk). exact Hrej.
Qed.
