(* Translator tie: the hand-written model agrees with the fragments regenerated from
   /repo's current source on every run (Gen/C06Src.v, py/genfrag_C06.py):
     - the result-length rule of WireVector._two_var_op,
     - helperfuncs._convert_int / _convert_bool (what Const(int) / Const(bool) means). *)
From Coq Require Import ZArith List Bool Lia ZifyBool.
From PyRTL Require Import Front.Ops Gen.C06Src.
Open Scope Z_scope.

(* LogicNet.op characters of the ten two-operand operators (pyrtl/core.py) *)
Definition op_char (o : op) : Z :=
  match o with
  | OpAnd => 38 | OpOr => 124 | OpXor => 94 | OpNand => 110
  | OpAdd => 43 | OpSub => 45 | OpMul => 42
  | OpLt => 60 | OpGt => 62 | OpEq => 61
  | _ => 0
  end.

Definition two_var_ops : list op :=
  [OpAnd; OpOr; OpXor; OpNand; OpAdd; OpSub; OpMul; OpLt; OpGt; OpEq].

Lemma result_len_tie o w : In o two_var_ops ->
  two_var_result_len (op_char o) w = Ok (result_len o w).
Proof.
  intros H. cbn in H.
  repeat (destruct H as [<-|H]; [reflexivity|]). destruct H.
Qed.

Lemma convert_bool_tie b bw s :
  Ops.convert_bool b bw s = res_opt (C06Src.convert_bool b bw s).
Proof.
  unfold Ops.convert_bool, C06Src.convert_bool.
  destruct s; [reflexivity|]. destruct bw as [w|]; [|reflexivity].
  destruct (Z.eqb w 1) eqn:E.
  - assert (w = 1) by lia. subst. reflexivity.
  - cbn [negb res_opt]. destruct w as [|p|p]; try reflexivity.
    destruct p; try reflexivity. discriminate.
Qed.

Lemma len_bin_signed_nonneg v : 0 <= v -> len_bin_signed v + 2 - 2 = len_bin v.
Proof. intros H. unfold len_bin_signed. destruct (v <? 0) eqn:E; lia. Qed.

Lemma convert_int_tie v bw s :
  Ops.convert_int v bw s = res_opt (C06Src.convert_int v bw s).
Proof.
  unfold Ops.convert_int, C06Src.convert_int. change (Z.opp 1) with (-1).
  destruct (0 <=? v) eqn:E0; destruct (Z.geb v 0) eqn:E1; try lia.
  - cbv zeta. rewrite len_bin_signed_nonneg by lia.
    destruct (s && negb (v =? 0)) eqn:E2.
    + destruct bw as [w|]; [|reflexivity].
      destruct (w <? len_bin v + 1) eqn:E3; reflexivity.
    + rewrite Z.add_0_r. destruct bw as [w|]; [|reflexivity].
      destruct (w <? len_bin v) eqn:E3; reflexivity.
  - destruct (negb s && match bw with None => true | Some _ => false end) eqn:E2; [reflexivity|].
    destruct bw as [w|].
    + destruct (negb (Z.shiftr v (w - 1) =? -1)) eqn:E3; reflexivity.
    + cbv zeta.
      assert (Hl : len_bin_signed (Z.lnot v) + 2 - 1 = len_bin (Z.lnot v) + 1).
      { unfold len_bin_signed, Z.lnot. destruct (Z.pred (- v) <? 0) eqn:E; lia. }
      rewrite Hl.
      destruct (v =? -1) eqn:E4.
      * destruct (negb (Z.shiftr v (1 - 1) =? -1)) eqn:E3; reflexivity.
      * destruct (negb (Z.shiftr v (len_bin (Z.lnot v) + 1 - 1) =? -1)) eqn:E3; reflexivity.
Qed.
