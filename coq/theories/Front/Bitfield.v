(* C14 -- corecircuits.bitfield_update / bitfield_update_set (definitions only).
   The model follows the code line by line: a list of integer indices is sliced
   with Python slice semantics, then w is cut at idxs_middle[0] and
   idxs_middle[-1]+1 and the new value is concatenated in between. *)
From Coq Require Import ZArith List Bool Lia.
From PyRTL Require Import Base.PyZ Front.SliceC14.
Import ListNotations.
Open Scope Z_scope.

(* as_wires(newvalue, bitwidth=bw, truncating=tr) for a WireVector argument *)
Definition as_wires_bw (nv : bits) (bw : nat) (tr : bool) : bits :=
  if Nat.ltb (length nv) bw then zext bw nv
  else if tr && Nat.ltb bw (length nv) then pyslice nv None (Some (Z.of_nat bw))
  else nv.

(* conv bw = as_wires(newvalue, bitwidth=bw, truncating) ; None = it raises *)
Definition bitfield_update_core (w : bits) (s e : option Z) (conv : nat -> option bits) : option bits :=
  let idxs := seq 0 (length w) in
  let mid := pyslice idxs s e in
  match mid with
  | [] => None                                   (* bitfield of size 0 *)
  | m0 :: _ =>
    let lower := pyslice idxs None (Some (Z.of_nat m0)) in
    let upper := pyslice idxs (Some (Z.of_nat (last mid 0%nat) + 1)) None in
    match conv (length mid) with
    | None => None
    | Some nv' =>
      if negb (Nat.eqb (length mid) (length nv')) then None else
      let lo := match lower with
                | [] => []
                | l0 :: _ => pyslice w (Some (Z.of_nat l0)) (Some (Z.of_nat (last lower 0%nat) + 1))
                end in
      let hi := match upper with
                | [] => []
                | u0 :: _ => pyslice w (Some (Z.of_nat u0)) (Some (Z.of_nat (last upper 0%nat) + 1))
                end in
      let result := lo ++ nv' ++ hi in             (* concat_list([lower, newvalue, upper]) *)
      if Nat.eqb (length result) (length w) then Some result else None
    end
  end.

(* newvalue is a WireVector *)
Definition bitfield_update (w : bits) (s e : option Z) (nv : bits) (tr : bool) : option bits :=
  bitfield_update_core w s e (fun bw => Some (as_wires_bw nv bw tr)).

(* newvalue is a Python int (any sign):
     if truncating and isinstance(newvalue, int): newvalue &= (1 << len(idxs_middle)) - 1
   then as_wires -> Const(val, bitwidth=bw) -> helperfuncs._convert_int(val, bw, signed=False):
   val >= 0 raises when val needs more than bw bits; val < 0 raises unless (val >> bw-1) == -1,
   otherwise it is stored in two's complement at bw bits *)
Definition conv_int (v : Z) (tr : bool) (bw : nat) : option bits :=
  let v' := if tr then Z.land v (2 ^ Z.of_nat bw - 1) else v in
  let fits := if 0 <=? v' then v' <? 2 ^ Z.of_nat bw
              else Z.shiftr v' (Z.of_nat bw - 1) =? -1 in
  if fits then Some (of_Z bw v') else None.
Definition bitfield_update_int (w : bits) (s e : option Z) (v : Z) (tr : bool) : option bits :=
  bitfield_update_core w s e (conv_int v tr).

(* a new value of either kind *)
Inductive newval := NVw (b : bits) | NVi (v : Z).
Definition conv_nv (nv : newval) (tr : bool) (bw : nat) : option bits :=
  match nv with NVw b => Some (as_wires_bw b bw tr) | NVi v => conv_int v tr bw end.
Definition bitfield_update_nv (w : bits) (s e : option Z) (nv : newval) (tr : bool) : option bits :=
  bitfield_update_core w s e (conv_nv nv tr).

(* setlist[s:e] = [True] * len(setlist[s:e]) *)
Definition set_slice (l : list bool) (s e : option Z) : list bool :=
  let '(a, b) := slice_bounds (length l) s e in
  if Nat.leb b a then l else firstn a l ++ repeat true (b - a) ++ skipn b l.

Fixpoint bfus_rec (w : bits) (setlist : list bool)
         (ups : list ((option Z * option Z) * bits)) (tr : bool) : option bits :=
  match ups with
  | [] => Some w
  | ((s, e), nv) :: rest =>
    if existsb (fun b => b) (pyslice setlist s e) then None     (* overlapping *)
    else match bitfield_update w s e nv tr with
         | None => None
         | Some w' => bfus_rec w' (set_slice setlist s e) rest tr
         end
  end.

Definition bitfield_update_set (w : bits) (ups : list ((option Z * option Z) * bits)) (tr : bool)
  : option bits :=
  bfus_rec w (repeat false (length w)) ups tr.

(* bitfield_update_set with wire or int values *)
Fixpoint bfus_rec_nv (w : bits) (setlist : list bool)
         (ups : list ((option Z * option Z) * newval)) (tr : bool) : option bits :=
  match ups with
  | [] => Some w
  | ((s, e), nv) :: rest =>
    if existsb (fun b => b) (pyslice setlist s e) then None
    else match bitfield_update_nv w s e nv tr with
         | None => None
         | Some w' => bfus_rec_nv w' (set_slice setlist s e) rest tr
         end
  end.

Definition bitfield_update_set_nv (w : bits) (ups : list ((option Z * option Z) * newval)) (tr : bool)
  : option bits :=
  bfus_rec_nv w (repeat false (length w)) ups tr.
