(* C14 -- barrel_shifter shifts by the full amount in the chosen direction and
   fills with bit_in (proved for C14's own copy of the staged loop). *)
From Coq Require Import ZArith List Bool Lia.
From PyRTL Require Import Base.PyZ Front.SliceC14 Front.SliceC14Proofs Front.Mux Front.MuxProofs
     Front.BitfieldProofs Front.BarrelC14.
Import ListNotations.
Open Scope nat_scope.

(* bit j of x shifted by s positions: dir = true shifts up (towards the msb) *)
Definition shift_bit (x : bits) (b : bool) (dir : bool) (s j : nat) : bool :=
  if dir then (if j <? s then b else nth (j - s) x false)
  else (if j + s <? length x then nth (j + s) x false else b).

Lemma select_same_len s t f : length t = length f -> select s t f = if s then t else f.
Proof.
  intros H. unfold select. destruct s; apply zext_id; lia.
Qed.

Lemma firstn_repeat {A} (a : A) k m : firstn k (repeat a m) = repeat a (Nat.min k m).
Proof.
  revert m. induction k as [|k IH]; intros m; [reflexivity|].
  destruct m as [|m]; [reflexivity|]. cbn [repeat firstn Nat.min]. rewrite IH. reflexivity.
Qed.

Lemma nth_repeat_lt {A} (a d : A) m j : j < m -> nth j (repeat a m) d = a.
Proof.
  revert j. induction m as [|m IH]; intros j H; [lia|].
  destruct j as [|j]; [reflexivity|]. cbn [repeat nth]. apply IH. lia.
Qed.

Section Barrel.
  Variable x : bits.
  Variable b : bool.
  Variable dir : bool.
  Let n := length x.

  Definition inv (s : nat) (val : bits) : Prop :=
    length val = n /\ forall j, j < n -> nth j val false = shift_bit x b dir s j.

  (* one shifting stage: amt < n *)
  Lemma stage_shift s val amt :
    inv s val -> 1 <= amt -> amt < n ->
    let app := repeat b amt in
    let up := concat2 (pyslice val None (Some (- Z.of_nat amt)%Z)) app in
    let down := concat2 app (pyslice val (Some (Z.of_nat amt)) None) in
    inv (s + amt) (select dir up down).
  Proof.
    intros [Hl Hv] Ha1 Ha app up down.
    assert (Eup : up = repeat b amt ++ firstn (n - amt) val).
    { unfold up, concat2, app. f_equal. unfold pyslice, slice_bounds, clamp_bound.
      destruct amt as [|amt']; [lia|].
      replace (- Z.of_nat (S amt') <? 0)%Z with true by lia. cbn [skipn Z.to_nat]. rewrite Hl. f_equal. lia. }
    assert (Edown : down = skipn amt val ++ repeat b amt).
    { unfold down, concat2, app. f_equal. rewrite pyslice_nat_None. rewrite Hl. f_equal. lia. }
    assert (Lup : length up = n) by (rewrite Eup, app_length, repeat_length, firstn_length; lia).
    assert (Ldown : length down = n) by (rewrite Edown, app_length, repeat_length, skipn_length; lia).
    rewrite select_same_len by lia. split; [destruct dir; assumption|].
    intros j Hj. unfold shift_bit in *. fold n in Hv |- *. destruct dir.
    - rewrite Eup. destruct (j <? amt) eqn:E1.
      + apply Nat.ltb_lt in E1. rewrite app_nth1 by (rewrite repeat_length; lia).
        rewrite nth_repeat_lt by lia. replace (j <? s + amt) with true by (symmetry; apply Nat.ltb_lt; lia). reflexivity.
      + apply Nat.ltb_ge in E1. rewrite app_nth2 by (rewrite repeat_length; lia). rewrite repeat_length.
        rewrite nth_firstn' by lia. rewrite Hv by lia.
        destruct (j - amt <? s) eqn:E2.
        * apply Nat.ltb_lt in E2. replace (j <? s + amt) with true by (symmetry; apply Nat.ltb_lt; lia). reflexivity.
        * apply Nat.ltb_ge in E2. replace (j <? s + amt) with false by (symmetry; apply Nat.ltb_ge; lia).
          f_equal. lia.
    - rewrite Edown. destruct (j <? n - amt) eqn:E1.
      + apply Nat.ltb_lt in E1. rewrite app_nth1 by (rewrite skipn_length; lia).
        rewrite nth_skipn'. rewrite Hv by lia.
        destruct (amt + j + s <? n) eqn:E2.
        * apply Nat.ltb_lt in E2. replace (j + (s + amt) <? n) with true by (symmetry; apply Nat.ltb_lt; lia).
          f_equal. lia.
        * apply Nat.ltb_ge in E2. replace (j + (s + amt) <? n) with false by (symmetry; apply Nat.ltb_ge; lia).
          reflexivity.
      + apply Nat.ltb_ge in E1. rewrite app_nth2 by (rewrite skipn_length; lia). rewrite skipn_length.
        rewrite nth_repeat_lt by lia.
        replace (j + (s + amt) <? n) with false by (symmetry; apply Nat.ltb_ge; lia). reflexivity.
  Qed.

  (* a saturating stage: amt >= n, everything is replaced by bit_in *)
  Lemma stage_saturate s amt : n <= amt -> inv (s + amt) (repeat b n).
  Proof.
    intros Ha. split; [apply repeat_length|]. intros j Hj. rewrite nth_repeat_lt by lia.
    unfold shift_bit. fold n. destruct dir.
    - replace (j <? s + amt) with true by (symmetry; apply Nat.ltb_lt; lia). reflexivity.
    - replace (j + (s + amt) <? n) with false by (symmetry; apply Nat.ltb_ge; lia). reflexivity.
  Qed.

  Lemma barrel_loop_spec : forall stages i s val,
    1 <= n -> inv s val ->
    inv (s + 2 ^ i * Z.to_nat (to_Z stages))
        (barrel_loop stages i n dir val (repeat b (Nat.min (2 ^ i) n))).
  Proof.
    induction stages as [|sdi rest IH]; intros i s val Hn Hinv.
    - cbn [barrel_loop to_Z Z.to_nat]. rewrite Nat.mul_0_r, Nat.add_0_r. exact Hinv.
    - cbn [barrel_loop].
      assert (Hs : s + 2 ^ i * Z.to_nat (to_Z (sdi :: rest)) =
                   (s + (if sdi then 2 ^ i else 0)) + 2 ^ S i * Z.to_nat (to_Z rest)).
      { cbn [to_Z]. pose proof (to_Z_nonneg rest) as Hr. rewrite Nat.pow_succ_r'.
        destruct sdi; cbn [b2z]; nia. }
      rewrite Hs. destruct (2 ^ i <? n) eqn:E.
      + apply Nat.ltb_lt in E. rewrite (Nat.min_l (2 ^ i) n) by lia.
        pose proof (stage_shift s val (2 ^ i) Hinv (pow2_nat_pos i) E) as Hst. cbv zeta in Hst.
        set (newval := select dir _ _) in *.
        assert (Happ : pyslice (concat2 (repeat b (2 ^ i)) (repeat b (2 ^ i))) None (Some (Z.of_nat n)) =
                       repeat b (Nat.min (2 ^ S i) n)).
        { unfold concat2. rewrite <- repeat_app. rewrite pyslice_None_nat. rewrite repeat_length.
          rewrite firstn_repeat. f_equal. rewrite Nat.pow_succ_r'. lia. }
        rewrite Happ. apply IH; [exact Hn|].
        destruct Hinv as [Hl Hv]. destruct Hst as [Hl2 Hv2].
        rewrite select_same_len by lia. destruct sdi.
        * split; assumption.
        * rewrite Nat.add_0_r. split; assumption.
      + apply Nat.ltb_ge in E. rewrite (Nat.min_r (2 ^ i) n) by lia.
        replace (repeat b n) with (repeat b (Nat.min (2 ^ S i) n)) at 2
          by (f_equal; rewrite Nat.pow_succ_r'; lia).
        apply IH; [exact Hn|]. destruct Hinv as [Hl Hv].
        rewrite select_same_len by (rewrite repeat_length; lia). destruct sdi.
        * apply stage_saturate. exact E.
        * rewrite Nat.add_0_r. split; assumption.
  Qed.
End Barrel.

(* barrel_shifter: for every width, every shift_dist width (also wider than
   log2(width)) and every value: bit j of the result is bit j-s (shift up) or
   j+s (shift down) of the input when that position exists, bit_in otherwise,
   where s is the FULL value of shift_dist *)
Theorem barrel_full_shift : forall x b dir sd,
  1 <= length x ->
  let r := barrel_shifter x [b] dir sd in
  length r = length x /\
  forall j, j < length x -> nth j r false = shift_bit x b dir (Z.to_nat (to_Z sd)) j.
Proof.
  intros x b dir sd Hn r. unfold r, barrel_shifter.
  pose proof (barrel_loop_spec x b dir sd 0 0 x Hn) as H.
  assert (H0 : inv x b dir 0 x).
  { split; [reflexivity|]. intros j Hj. unfold shift_bit. destruct dir.
    - replace (j <? 0) with false by reflexivity. f_equal. lia.
    - rewrite Nat.add_0_r. replace (j <? length x) with true by (symmetry; apply Nat.ltb_lt; lia). reflexivity. }
  specialize (H H0). change (2 ^ 0) with 1 in H. rewrite Nat.min_l in H by lia.
  rewrite Nat.mul_1_l, Nat.add_0_l in H. exact H.
Qed.

Lemma shift_spec_bits x b dir s :
  length (shift_spec x b dir s) = length x /\
  forall j, j < length x -> nth j (shift_spec x b dir s) false = shift_bit x b dir s j.
Proof.
  unfold shift_spec, shift_bit. destruct dir.
  - split.
    + rewrite firstn_length, app_length, repeat_length. lia.
    + intros j Hj. rewrite nth_firstn' by lia. destruct (j <? s) eqn:E.
      * apply Nat.ltb_lt in E. rewrite app_nth1 by (rewrite repeat_length; lia). apply nth_repeat_lt. lia.
      * apply Nat.ltb_ge in E. rewrite app_nth2 by (rewrite repeat_length; lia). rewrite repeat_length. reflexivity.
  - split.
    + rewrite app_length, skipn_length, repeat_length. lia.
    + intros j Hj. destruct (j + s <? length x) eqn:E.
      * apply Nat.ltb_lt in E. rewrite app_nth1 by (rewrite skipn_length; lia). rewrite nth_skipn'. f_equal. lia.
      * apply Nat.ltb_ge in E. rewrite app_nth2 by (rewrite skipn_length; lia). rewrite skipn_length.
        apply nth_repeat_lt. lia.
Qed.

(* the same as an equation between bit lists *)
Theorem barrel_full_shift_eq : forall x b dir sd,
  1 <= length x ->
  barrel_shifter x [b] dir sd = shift_spec x b dir (Z.to_nat (to_Z sd)).
Proof.
  intros x b dir sd Hn. destruct (barrel_full_shift x b dir sd Hn) as [Hl Hb].
  destruct (shift_spec_bits x b dir (Z.to_nat (to_Z sd))) as [Hl2 Hb2].
  apply bits_ext; [lia|]. intros i Hi. rewrite Hb by lia. rewrite Hb2 by lia. reflexivity.
Qed.

(* ---------- shift_* with a Python int amount ---------- *)
Lemma pyslice_None_neg {A} (x : list A) k : 1 <= k ->
  pyslice x None (Some (- Z.of_nat k)%Z) = firstn (length x - k) x.
Proof.
  intros Hk. unfold pyslice, slice_bounds, clamp_bound.
  replace (- Z.of_nat k <? 0)%Z with true by lia. cbn [skipn Z.to_nat]. f_equal. lia.
Qed.

Lemma firstn_app_repeat {A} (a : A) k n (x : list A) : k <= n ->
  firstn n (repeat a k ++ x) = repeat a k ++ firstn (n - k) x.
Proof.
  intros H. rewrite firstn_app, repeat_length. f_equal. rewrite firstn_all2; [reflexivity|]. rewrite repeat_length. lia.
Qed.

Lemma last_skipn {A} (x : list A) k d : k < length x -> last (skipn k x) d = last x d.
Proof.
  revert x. induction k as [|k IH]; intros x H; [reflexivity|].
  destruct x as [|a x]; [cbn in H; lia|]. cbn [skipn]. cbn [length] in H.
  rewrite IH by lia. destruct x; [cbn in H; lia|reflexivity].
Qed.

(* shift_left_logical(x, k): k int, 0 < k < len(x) (other k raise): zeros enter at the lsb *)
Theorem sll_const_spec : forall x k r, 0 <= k -> sll_const x (Z.of_nat k) = Some r ->
  0 < k < length x /\ r = shift_spec x false true k.
Proof.
  intros x k r _ H. unfold sll_const in H.
  destruct (wslice x None (Some (- Z.of_nat k)%Z)) as [lo|] eqn:E; [|discriminate].
  destruct (0 <? Z.of_nat k)%Z eqn:Ek; [|discriminate]. injection H as <-.
  assert (Hk : 1 <= k) by lia. unfold wslice in E. rewrite pyslice_None_neg in E by exact Hk.
  destruct (firstn (length x - k) x) as [|a l] eqn:Ef; [discriminate|]. injection E as <-.
  assert (Hlt : k < length x).
  { destruct (Nat.lt_ge_cases k (length x)); [assumption|].
    replace (length x - k) with 0 in Ef by lia. discriminate. }
  split; [lia|]. unfold shift_spec, concat2. rewrite Nat2Z.id. rewrite firstn_app_repeat by lia.
  rewrite Ef. reflexivity.
Qed.

(* shift_right_logical(x, k), 0 <= k < len(x): zeros enter at the msb *)
Theorem srl_const_spec : forall x k r, srl_const x (Z.of_nat k) = Some r ->
  k < length x /\ r = shift_spec x false false k.
Proof.
  intros x k r H. unfold srl_const in H.
  destruct (wslice x (Some (Z.of_nat k)) None) as [hi|] eqn:E; [|discriminate]. injection H as <-.
  unfold wslice in E. rewrite pyslice_nat_None in E.
  destruct (skipn (Nat.min k (length x)) x) as [|a l] eqn:Es; [discriminate|]. injection E as <-.
  assert (Hlt : k < length x).
  { destruct (Nat.lt_ge_cases k (length x)); [assumption|].
    rewrite Nat.min_r in Es by lia. rewrite skipn_all in Es. discriminate. }
  split; [exact Hlt|]. rewrite Nat.min_l in Es by lia. rewrite <- Es.
  unfold shift_spec, zext. rewrite skipn_length. f_equal. f_equal. lia.
Qed.

(* shift_right_arithmetic(x, k), 0 <= k < len(x): the sign bit enters at the msb *)
Theorem sra_const_spec : forall x k r, sra_const x (Z.of_nat k) = Some r ->
  k < length x /\ r = shift_spec x (last x false) false k.
Proof.
  intros x k r H. unfold sra_const in H.
  destruct (wslice x (Some (Z.of_nat k)) None) as [hi|] eqn:E; [|discriminate]. injection H as <-.
  unfold wslice in E. rewrite pyslice_nat_None in E.
  destruct (skipn (Nat.min k (length x)) x) as [|a l] eqn:Es; [discriminate|]. injection E as <-.
  assert (Hlt : k < length x).
  { destruct (Nat.lt_ge_cases k (length x)); [assumption|].
    rewrite Nat.min_r in Es by lia. rewrite skipn_all in Es. discriminate. }
  split; [exact Hlt|]. rewrite Nat.min_l in Es by lia. rewrite <- Es.
  unfold shift_spec. rewrite last_skipn by exact Hlt. rewrite skipn_length. f_equal. f_equal. lia.
Qed.
