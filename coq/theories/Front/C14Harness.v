(* C14 -- evaluation entry points used by py/checks/C14.py (definitions only;
   depends on no proof file).  Every entry tabulates one helper configuration
   over ALL values of a pool of input wires:  x in [0, 2^total) is split into
   the pool wires, wire 0 in the least significant bits. *)
From Coq Require Import ZArith List Bool Lia Ascii String.
From PyRTL Require Import Base.PyZ Front.SliceC14 Front.Mux Front.BarrelC14 Front.Bitfield
     Front.Pattern Front.Struct.
Import ListNotations.
Open Scope Z_scope.

Inductive src :=
| SW (i : nat)              (* pool wire i *)
| SC (w : nat) (v : Z)      (* Const(v, bitwidth=w) *)
| SS (i : nat) (lo hi : nat)(* pool wire i sliced [lo:hi] *)
| SP (sch : schema) (base : src) (path : list nat)
                            (* as_wires(component at `path` of the wire_struct / wire_matrix instance
                               built (slicing mode) from `base`); path [] = the instance itself *)
| SMsb (base : src)         (* base[-1] *).

Fixpoint eval (env : list bits) (s : src) : bits :=
  match s with
  | SW i => nth i env []
  | SC w v => of_Z w v
  | SS i lo hi => sl (nth i env []) lo hi
  | SP sch base path =>
    match cpath (slice_comp sch (eval env base)) path with
    | Some t => croot t
    | None => []
    end
  | SMsb base => [last (eval env base) false]
  end.

Definition eval1 (env : list bits) (s : src) : bool := nth 0 (eval env s) false.

Fixpoint split_fields (ws : list nat) (l : bits) : list bits :=
  match ws with
  | [] => []
  | w :: r => firstn w l :: split_fields r (skipn w l)
  end.

Definition envs (ws : list nat) : list (list bits) :=
  let t := sum_nat ws in
  map (fun x => split_fields ws (of_Z t (Z.of_nat x))) (seq 0 (2 ^ t)).

(* a bit list as hex digits, least significant nibble first, prepended to k *)
Definition nib (a b c d : bool) : ascii :=
  nth ((if a then 1 else 0) + (if b then 2 else 0) + (if c then 4 else 0) + (if d then 8 else 0))%nat
      (list_ascii_of_string "0123456789abcdef") "0"%char.

Fixpoint hex (l : bits) (k : string) : string :=
  match l with
  | a :: b :: c :: d :: r => String (nib a b c d) (hex r k)
  | [a; b; c] => String (nib a b c false) k
  | [a; b] => String (nib a b false false) k
  | [a] => String (nib a false false false) k
  | [] => k
  end.

(* None = the helper raises; otherwise (output bitwidths, table): one row per pool value, a row =
   the outputs concatenated (first output in the low bits) as ceil(bits/4) hex digits, low nibble
   first.  (A string prints an order of magnitude faster than nested lists.) *)
Definition run_tab (ws : list nat) (f : list bits -> option (list bits))
  : option (list Z * string) :=
  match envs ws with
  | [] => None
  | e0 :: _ =>
    match f e0 with
    | None => None
    | Some r0 =>
      Some (map (fun b => Z.of_nat (List.length b)) r0,
            fold_right (fun e k => match f e with Some r => hex (List.concat r) k | None => k end)
                       EmptyString (envs ws))
    end
  end.

Definition one (o : option bits) : option (list bits) :=
  match o with Some r => Some [r] | None => None end.

Definition t_select ws s t f :=
  run_tab ws (fun env => Some [select (eval1 env s) (eval env t) (eval env f)]).

Definition t_mux ws idx ins (dflt : option src) :=
  run_tab ws (fun env => one (mux (eval env idx) (map (eval env) ins) (option_map (eval env) dflt))).

Definition t_pmux ws sels vals :=
  run_tab ws (fun env => one (prioritized_mux (map (eval1 env) sels) (map (eval env) vals))).

Definition tsrc := (option Z * src)%type.
Definition evalw (env : list bits) (ts : tsrc) : wire := mkW (fst ts) (eval env (snd ts)).

Definition t_sparse ws sel (vals : list (Z * tsrc)) (dflt : option tsrc) :=
  run_tab ws (fun env =>
    one (option_map wbits
          (sparse_mux (eval env sel) (map (fun kv => (fst kv, evalw env (snd kv))) vals)
                      (option_map (evalw env) dflt)))).

Definition t_enum ws cntrl members (table : list (option Z * tsrc)) (dflt : option tsrc) strict :=
  run_tab ws (fun env =>
    one (option_map wbits
          (enum_mux (eval env cntrl) members
                    (map (fun kv => (fst kv, evalw env (snd kv))) table)
                    (option_map (evalw env) dflt) strict))).

Definition t_multi ws sel dws (opts : list (option Z * list tsrc)) :=
  run_tab ws (fun env =>
    multiselector (eval env sel) dws (map (fun o => (fst o, map (evalw env) (snd o))) opts)).

Definition t_demux ws sel :=
  run_tab ws (fun env => Some (map (fun b : bool => [b]) (demux (eval env sel)))).

Definition t_barrel ws x bit_in dir sd :=
  run_tab ws (fun env =>
    Some [barrel_shifter (eval env x) (eval env bit_in) (eval1 env dir) (eval env sd)]).

Definition t_sll_i ws x k := run_tab ws (fun env => one (sll_const (eval env x) k)).
Definition t_srl_i ws x k := run_tab ws (fun env => one (srl_const (eval env x) k)).
Definition t_sra_i ws x k := run_tab ws (fun env => one (sra_const (eval env x) k)).

Definition t_bfu ws w s e nv tr :=
  run_tab ws (fun env => one (bitfield_update (eval env w) s e (eval env nv) tr)).

Definition t_bfui ws w s e v tr :=
  run_tab ws (fun env => one (bitfield_update_int (eval env w) s e v tr)).

(* a new value: a source wire or a Python int *)
Inductive vsrc := VS (s : src) | VI (v : Z).
Definition evalv (env : list bits) (x : vsrc) : newval :=
  match x with VS s => NVw (eval env s) | VI v => NVi v end.

Definition t_bfus ws w (ups : list ((option Z * option Z) * vsrc)) tr :=
  run_tab ws (fun env =>
    one (bitfield_update_set_nv (eval env w) (map (fun u => (fst u, evalv env (snd u))) ups) tr)).

Definition t_mbp ws w (pat : string) :=
  (map (fun c => Z.of_nat (nat_of_ascii c))
       (dedup (filter is_field (strip (list_ascii_of_string pat)))),
   run_tab ws (fun env =>
     match match_bitpattern (eval env w) pat with
     | Some (m, fs) => Some ([m] :: map snd fs)
     | None => None
     end)).

(* with a field_map (given as its keys in dict order, mapped names irrelevant for the values) *)
Definition t_mbp_fm ws w (pat : string) (keys : list ascii) :=
  (map (fun c => Z.of_nat (nat_of_ascii c))
       (dedup (filter is_field (strip (list_ascii_of_string pat)))),
   run_tab ws (fun env =>
     match match_bitpattern_fm (eval env w) pat (map (fun k => (k, String k EmptyString)) keys) with
     | Some (m, fs) => Some ([m] :: map snd fs)
     | None => None
     end)).

Definition t_chop ws w widths := run_tab ws (fun env => chop (eval env w) widths).
Definition t_part ws w size := run_tab ws (fun env => partition_wire (eval env w) size).

Definition t_sslice ws (s : schema) v :=
  run_tab ws (fun env => Some (cflat (slice_comp s (eval env v)))).
Definition t_sconcat ws (s : schema) vals :=
  run_tab ws (fun env => option_map cflat (concat_comp s (map (eval env) vals))).

(* the slice model itself against Python's  list(range(n))[s:e] *)
Definition t_slices (n : nat) (bounds : list (option Z)) : list (list (list nat)) :=
  map (fun s => map (fun e => pyslice (seq 0 n) s e) bounds) bounds.
