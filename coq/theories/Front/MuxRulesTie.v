(* C14 -- translator tie: the arithmetic and the guards the hand-written models use are exactly
   the ones regenerated from the current source into Gen/MuxRules.v (re-checked on every run:
   a changed operator or constant in the source changes the generated definition and breaks the
   corresponding equation below). *)
From Coq Require Import ZArith List Bool Lia ZifyBool.
From PyRTL Require Import Base.PyZ Front.SliceC14 Front.Mux Front.BarrelC14 Front.Struct
     Front.MuxProofs Gen.MuxRules.
Import ListNotations.
Open Scope Z_scope.

(* ---- corecircuits.mux ---- *)
(* mux_rec's arity test *)
Lemma mux_arity_tie n (ins : list bits) :
  negb (Nat.eqb (2 ^ n) (length ins)) = mux_arity_bad (Z.of_nat n) (Z.of_nat (length ins)).
Proof. unfold mux_arity_bad. rewrite <- pow2_nat_Z. lia. Qed.

(* mux_pad appends the default exactly short_by times, and only when short_by > 0 *)
Lemma mux_pad_tie n (ins : list bits) d :
  let sb := mux_short_by (Z.of_nat n) (Z.of_nat (length ins)) in
  mux_pad n ins (Some d) = if mux_pads sb then ins ++ repeat d (Z.to_nat sb) else ins.
Proof.
  cbv zeta. unfold mux_pad, mux_pads, mux_short_by. rewrite <- pow2_nat_Z.
  destruct (Z.of_nat (2 ^ n) - Z.of_nat (length ins) >? 0) eqn:E.
  - f_equal. f_equal. lia.
  - replace (2 ^ n - length ins)%nat with 0%nat by lia. apply app_nil_r.
Qed.

(* the one-select-bit branch of mux_rec (its `match n'`) *)
Lemma mux_base_tie n' : (match n' with O => true | S _ => false end) = mux_base (Z.of_nat (S n')).
Proof. unfold mux_base. destruct n'; lia. Qed.

Lemma mux_half_tie (ins : list bits) : Z.of_nat (Nat.div (length ins) 2) = mux_half (Z.of_nat (length ins)).
Proof. unfold mux_half. rewrite Nat2Z.inj_div. reflexivity. Qed.

(* ---- muxes.sparse_mux / _sparse_mux ---- *)
Lemma sparse_keys_tie n (vals : list (Z * wire)) :
  keys_ok (2 ^ Z.of_nat n - 1) vals =
  forallb (fun kv => negb (sparse_key_bad (fst kv) (sparse_max_val (Z.of_nat n)))) vals.
Proof.
  unfold keys_ok, sparse_key_bad, sparse_max_val.
  induction vals as [|kv r IH]; cbn [forallb]; [reflexivity|]. rewrite IH. f_equal. lia.
Qed.

Lemma sparse_small_tie (vals : list (Z * wire)) :
  (match vals with [] => true | [_] => true | _ => false end) = sparse_small (Z.of_nat (length vals)).
Proof. unfold sparse_small. destruct vals as [|a [|b r]]; cbn [length]; lia. Qed.

Lemma sparse_base_tie n' : (match n' with O => true | S _ => false end) = sparse_base (Z.of_nat (S n')).
Proof. unfold sparse_base. destruct n'; lia. Qed.

Lemma sparse_half_tie n' : 2 ^ Z.of_nat n' = sparse_half (Z.of_nat (S n')).
Proof. unfold sparse_half. f_equal. lia. Qed.

Lemma sparse_split_tie k half :
  (k <? half) = sparse_in_first k half /\ sparse_first_key k = k /\
  (half <=? k) = sparse_in_second k half /\ k - half = sparse_second_key k half.
Proof. unfold sparse_in_first, sparse_first_key, sparse_in_second, sparse_second_key. repeat split; lia. Qed.

(* ---- muxes.prioritized_mux / demux ---- *)
Lemma pmux_tie (sels : list bool) (vals : list bits) :
  negb (Nat.eqb (length sels) (length vals)) = pmux_mismatch (Z.of_nat (length sels)) (Z.of_nat (length vals)) /\
  (match vals with [] => true | _ => false end) = pmux_empty (Z.of_nat (length vals)) /\
  (match vals with [_] => true | _ => false end) = pmux_single (Z.of_nat (length vals)) /\
  Z.of_nat (Nat.div (length vals) 2) = pmux_half (Z.of_nat (length vals)).
Proof.
  unfold pmux_mismatch, pmux_empty, pmux_single, pmux_half. repeat split.
  - lia.
  - destruct vals; cbn [length]; lia.
  - destruct vals as [|a [|b r]]; cbn [length]; lia.
  - rewrite Nat2Z.inj_div. reflexivity.
Qed.

Lemma demux_base_tie n' : (match n' with O => true | S _ => false end) = demux_base (Z.of_nat (S n')).
Proof. unfold demux_base. destruct n'; lia. Qed.

(* ---- barrel.barrel_shifter: the stage test of barrel_loop ---- *)
Lemma barrel_stage_tie i fw :
  Nat.ltb (2 ^ i) fw = barrel_stage_shifts (barrel_shift_amt (Z.of_nat i)) (Z.of_nat fw).
Proof. unfold barrel_stage_shifts, barrel_shift_amt. rewrite <- pow2_nat_Z. lia. Qed.

(* ---- libutils.partition_wire ---- *)
Lemma partition_tie (w : bits) size :
  negb (Nat.eqb (Nat.modulo (length w) size) 0) = partition_bad (Z.of_nat (length w)) (Z.of_nat size).
Proof. unfold partition_bad. rewrite <- Nat2Z.inj_mod. lia. Qed.

Theorem rules_tie :
  (forall n (ins : list bits),
     negb (Nat.eqb (2 ^ n) (length ins)) = mux_arity_bad (Z.of_nat n) (Z.of_nat (length ins))) /\
  (forall n (ins : list bits) d,
     mux_pad n ins (Some d) =
     if mux_pads (mux_short_by (Z.of_nat n) (Z.of_nat (length ins)))
     then ins ++ repeat d (Z.to_nat (mux_short_by (Z.of_nat n) (Z.of_nat (length ins)))) else ins) /\
  (forall n', (match n' with O => true | S _ => false end) = mux_base (Z.of_nat (S n'))) /\
  (forall ins : list bits, Z.of_nat (Nat.div (length ins) 2) = mux_half (Z.of_nat (length ins))) /\
  (forall n (vals : list (Z * wire)),
     keys_ok (2 ^ Z.of_nat n - 1) vals =
     forallb (fun kv => negb (sparse_key_bad (fst kv) (sparse_max_val (Z.of_nat n)))) vals) /\
  (forall vals : list (Z * wire),
     (match vals with [] => true | [_] => true | _ => false end) = sparse_small (Z.of_nat (length vals))) /\
  (forall n', (match n' with O => true | S _ => false end) = sparse_base (Z.of_nat (S n'))) /\
  (forall n', 2 ^ Z.of_nat n' = sparse_half (Z.of_nat (S n'))) /\
  (forall k half,
     (k <? half) = sparse_in_first k half /\ sparse_first_key k = k /\
     (half <=? k) = sparse_in_second k half /\ k - half = sparse_second_key k half) /\
  (forall (sels : list bool) (vals : list bits),
     negb (Nat.eqb (length sels) (length vals)) = pmux_mismatch (Z.of_nat (length sels)) (Z.of_nat (length vals)) /\
     (match vals with [] => true | _ => false end) = pmux_empty (Z.of_nat (length vals)) /\
     (match vals with [_] => true | _ => false end) = pmux_single (Z.of_nat (length vals)) /\
     Z.of_nat (Nat.div (length vals) 2) = pmux_half (Z.of_nat (length vals))) /\
  (forall n', (match n' with O => true | S _ => false end) = demux_base (Z.of_nat (S n'))) /\
  (forall i fw, Nat.ltb (2 ^ i) fw = barrel_stage_shifts (barrel_shift_amt (Z.of_nat i)) (Z.of_nat fw)) /\
  (forall (w : bits) size,
     negb (Nat.eqb (Nat.modulo (length w) size) 0) = partition_bad (Z.of_nat (length w)) (Z.of_nat size)).
Proof.
  split; [exact mux_arity_tie|]. split; [exact mux_pad_tie|]. split; [exact mux_base_tie|].
  split; [exact mux_half_tie|]. split; [exact sparse_keys_tie|]. split; [exact sparse_small_tie|].
  split; [exact sparse_base_tie|]. split; [exact sparse_half_tie|]. split; [exact sparse_split_tie|].
  split; [exact pmux_tie|]. split; [exact demux_base_tie|]. split; [exact barrel_stage_tie|].
  exact partition_tie.
Qed.
