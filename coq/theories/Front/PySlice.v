(* Python index/slice semantics on a sequence of length n: the model of
   `range(n)[item]` used by WireVector.__getitem__ (pyrtl/wire.py:398-420).

   DEFINITIONS ONLY (no proofs; evaluated by the harnesses).  Proofs are in
   Front/PySliceProofs.v.

   Interface (stable; C14 and others may import it):
     item                         := IInt i | ISlice start stop step   (None = omitted)
     slice_adjust n start stop step : (i, j, k)     CPython slice.indices(n)
     range_len i j k              : Z               len(range(i, j, k))
     range_list i k len           : list Z          [i, i+k, ..., i+(len-1)k]
     slice_indices n start stop step : option (list Z)   None <-> step = 0 (ValueError)
     index_int n i                : option Z        None <-> IndexError
     getitem_indices n item       : option (list Z) what __getitem__ passes as op_param;
                                                    None <-> it raises (IndexError,
                                                    ValueError, or PyrtlError on an
                                                    empty selection)                     *)
From PyRTL Require Export Base.PyZ.

Inductive item :=
| IInt (i : Z)
| ISlice (start stop step : option Z).

(* step is None -> 1 *)
Definition slice_step (step : option Z) : Z :=
  match step with None => 1 | Some k => k end.

(* CPython PySlice_AdjustIndices / slice.indices: for k < 0 the legal interval
   is [-1, n-1], for k > 0 it is [0, n]; a negative bound is first shifted by n *)
Definition slice_lower (k : Z) : Z := if k <? 0 then -1 else 0.
Definition slice_upper (n k : Z) : Z := if k <? 0 then n - 1 else n.

Definition clamp_index (n k i : Z) : Z :=
  if i <? 0 then Z.max (i + n) (slice_lower k) else Z.min i (slice_upper n k).

Definition slice_start (n k : Z) (start : option Z) : Z :=
  match start with
  | None => if k <? 0 then slice_upper n k else slice_lower k
  | Some i => clamp_index n k i
  end.

Definition slice_stop (n k : Z) (stop : option Z) : Z :=
  match stop with
  | None => if k <? 0 then slice_lower k else slice_upper n k
  | Some j => clamp_index n k j
  end.

Definition slice_adjust (n : Z) (start stop step : option Z) : Z * Z * Z :=
  let k := slice_step step in
  (slice_start n k start, slice_stop n k stop, k).

(* len(range(i, j, k)), k <> 0 *)
Definition range_len (i j k : Z) : Z :=
  if 0 <? k then (if i <? j then (j - i - 1) / k + 1 else 0)
  else (if j <? i then (i - j - 1) / (- k) + 1 else 0).

Definition range_list (i k len : Z) : list Z :=
  map (fun m => i + Z.of_nat m * k) (seq 0 (Z.to_nat len)).

Definition slice_indices (n : Z) (start stop step : option Z) : option (list Z) :=
  let '(i, j, k) := slice_adjust n start stop step in
  if k =? 0 then None else Some (range_list i k (range_len i j k)).

(* range(n)[i] for an int i *)
Definition index_int (n i : Z) : option Z :=
  let i' := if i <? 0 then i + n else i in
  if (0 <=? i') && (i' <? n) then Some i' else None.

Definition getitem_indices (n : Z) (it : item) : option (list Z) :=
  match it with
  | IInt i => match index_int n i with Some x => Some [x] | None => None end
  | ISlice start stop step =>
      match slice_indices n start stop step with
      | Some [] => None          (* PyrtlError: must select at least one wire *)
      | r => r
      end
  end.
