(* The PyRTL operator front end as shallow functions on sized values
   sv = (value, bitwidth), each mirroring how the operator is BUILT from
   primitive nets (pyrtl/wire.py, pyrtl/corecircuits.py):
      as_wires -> match_bitwidth (zero/sign extension) -> one primitive net with
      the result-width rule of _two_var_op -> truncation / extension.
   A primitive net means what the reference semantics says (Netlist/Sem.v
   op_spec, reduced mod 2^width of the destination wire).

   DEFINITIONS ONLY (evaluated by py/checks/C06.py); proofs in OpsProofs.v. *)
From PyRTL Require Export Netlist.Sem Front.PySlice.

Definition sv := (Z * Z)%type.
Definition val (a : sv) : Z := fst a.
Definition wd (a : sv) : Z := snd a.

(* one LogicNet: op, argument wires, destination bitwidth *)
Definition prim (o : op) (args : list sv) (w : Z) : sv :=
  match op_spec o args with
  | Some r => (r mod 2 ^ w, w)
  | None => (0, w)
  end.

(* ---- constants: helperfuncs._convert_int/_convert_bool/_convert_verilog_str as
        used by Const.__init__ (wire.py:590-638).  None <-> PyrtlError *)
Definition convert_int (v : Z) (bitwidth : option Z) (signed : bool) : option sv :=
  if 0 <=? v then
    let min_bw := len_bin v + (if signed && negb (v =? 0) then 1 else 0) in
    match bitwidth with
    | None => Some (v, min_bw)
    | Some bw => if bw <? min_bw then None else Some (v, bw)
    end
  else
    if negb signed && (match bitwidth with None => true | _ => false end) then None
    else
      let bw := match bitwidth with
                | Some bw => bw
                | None => if v =? -1 then 1 else len_bin (Z.lnot v) + 1
                end in
      if negb (Z.shiftr v (bw - 1) =? -1) then None
      else Some (Z.land v (Z.shiftl 1 bw - 1), bw).

Definition convert_bool (b : bool) (bitwidth : option Z) (signed : bool) : option sv :=
  if signed then None
  else match bitwidth with
       | None | Some 1 => Some (b2z b, 1)
       | _ => None
       end.

(* numeric part of a Verilog-style string  [-]<bw>'<base><num>  (the text ->
   (neg, bw, num) parsing is C16's subject) *)
Definition convert_vstr (neg : bool) (bw num : Z) (bitwidth : option Z) (signed : bool)
  : option sv :=
  if signed then None
  else if bw <? 1 then None       (* bitwidth of a verilog-style constant must be at least 1 *)
  else
    let ok1 := negb (neg && negb (num =? 0) && negb (Z.shiftr num (bw - 1) =? 0)) in
    let num' := if neg && negb (num =? 0) then Z.shiftl 1 bw - num else num in
    let ok2 := match bitwidth with
               | Some p => (p =? 0) || (p =? bw)
               | None => true
               end in
    if ok1 && ok2 && (Z.shiftr num' bw =? 0) then Some (num', bw) else None.

(* Const(val, bitwidth, signed) *)
Inductive operand :=
| OWire (a : sv)
| OInt (v : Z)
| OBool (b : bool)
| OVStr (neg : bool) (bw num : Z)
| OConst (o : operand) (bitwidth : option Z) (signed : bool)
| OLazy (a : sv).   (* mem[addr] / rom[addr] not yet materialised (memory._MemIndexed); a = the read data *)

Definition const_of (o : operand) (bitwidth : option Z) (signed : bool) : option sv :=
  match o with
  | OInt v => convert_int v bitwidth signed
  | OBool b => convert_bool b bitwidth signed
  | OVStr neg bw num => convert_vstr neg bw num bitwidth signed
  | _ => None
  end.

(* ---- select net, concat net *)
Definition sumw (args : list sv) : Z := fold_right (fun a acc => wd a + acc) 0 args.

(* corecircuits.concat *)
Definition concat (args : list sv) : sv :=
  match args with
  | [a] => a
  | _ => prim OpConcat args (sumw args)
  end.

Definition concat_list (args : list sv) : sv := concat (rev args).

(* WireVector.__getitem__ ; None <-> raises *)
Definition getitem (a : sv) (it : item) : option sv :=
  match getitem_indices (wd a) it with
  | Some idx => Some (prim (OpSelect idx) [a] (Z.of_nat (length idx)))
  | None => None
  end.

(* the same where the model's caller has already established that it cannot raise *)
Definition getitem_d (a : sv) (it : item) : sv :=
  match getitem a it with Some r => r | None => (0, 0) end.

Definition slice_to (a : sv) (hi : Z) : sv := getitem_d a (ISlice None (Some hi) None).   (* a[:hi] *)
Definition slice_from (a : sv) (lo : Z) : sv := getitem_d a (ISlice (Some lo) None None). (* a[lo:] *)
Definition msb (a : sv) : sv := getitem_d a (IInt (-1)).                                  (* a[-1] *)

(* WireVector._extend_with_bit (numext < 0 raises: see *_extended below) *)
Definition extend_with_bit (a : sv) (bitwidth : Z) (extbit : sv) : sv :=
  let numext := bitwidth - wd a in
  if numext <=? 0 then a
  else concat [prim (OpSelect (repeat 0 (Z.to_nat numext))) [extbit] numext; a].

Definition zero_ext (a : sv) (bitwidth : Z) : sv := extend_with_bit a bitwidth (0, 1).
Definition sign_ext (a : sv) (bitwidth : Z) : sv := extend_with_bit a bitwidth (msb a).

(* public methods; None <-> PyrtlError *)
Definition zero_extended (a : sv) (bitwidth : Z) : option sv :=
  if bitwidth <? wd a then None else Some (zero_ext a bitwidth).
Definition sign_extended (a : sv) (bitwidth : Z) : option sv :=
  if bitwidth <? wd a then None else Some (sign_ext a bitwidth).
Definition truncate (a : sv) (bitwidth : Z) : option sv :=
  if wd a <? bitwidth then None else getitem a (ISlice None (Some bitwidth) None).

(* the same three where the caller (a regenerated helper body, Gen/C06Helpers.v) does not
   handle the error case: (0, 0) stands for "the call raised" *)
Definition sign_extended_d (a : sv) (n : Z) : sv :=
  match sign_extended a n with Some r => r | None => (0, 0) end.
Definition zero_extended_d (a : sv) (n : Z) : sv :=
  match zero_extended a n with Some r => r | None => (0, 0) end.
(* Const(v, bitwidth, signed) for a Python int v *)
Definition const_d (v : Z) (bitwidth : option Z) (signed : bool) : sv :=
  match convert_int v bitwidth signed with Some r => r | None => (0, 0) end.

(* corecircuits.as_wires(val, bitwidth) on something that already is a WireVector *)
Definition as_wires_wire (a : sv) (bitwidth : option Z) : option sv :=
  match bitwidth with
  | None => Some a
  | Some bw =>
      if bw =? 0 then Some a                       (* `bitwidth and ...` is falsy *)
      else if wd a <? bw then Some (zero_ext a bw)
      else if bw <? wd a then getitem a (ISlice None (Some bw) None)
      else Some a
  end.

(* corecircuits.as_wires(val, bitwidth): int/bool/str become Const(val, bitwidth) *)
Definition as_wires (o : operand) (bitwidth : option Z) : option sv :=
  match o with
  | OWire a => as_wires_wire a bitwidth
  | OLazy a => as_wires_wire a bitwidth    (* as_wires builds the read port, then it is a WireVector *)
  | OConst c bw' s =>
      match const_of c bw' s with
      | Some a => as_wires_wire a bitwidth
      | None => None
      end
  | c => const_of c bitwidth false
  end.

(* corecircuits.match_bitwidth for two wires *)
Definition match_bitwidth (a b : sv) (signed : bool) : sv * sv :=
  let m := Z.max (wd a) (wd b) in
  if signed then (sign_ext a m, sign_ext b m) else (zero_ext a m, zero_ext b m).

(* WireVector._two_var_op: the result-length rule *)
Definition result_len (o : op) (w : Z) : Z :=
  match o with
  | OpAdd | OpSub => w + 1
  | OpMul => w * 2
  | OpLt | OpGt | OpEq => 1
  | _ => w
  end.

Definition two_var_op (o : op) (a b : sv) : sv :=
  let '(a', b') := match_bitwidth a b false in
  prim o [a'; b'] (result_len o (wd a')).

Definition op_invert (a : sv) : sv := prim OpNot [a] (wd a).

Definition op_and := two_var_op OpAnd.
Definition op_or := two_var_op OpOr.
Definition op_xor := two_var_op OpXor.
Definition op_nand := two_var_op OpNand.
Definition op_add := two_var_op OpAdd.
Definition op_sub := two_var_op OpSub.
Definition op_mul := two_var_op OpMul.
Definition op_lt := two_var_op OpLt.
Definition op_gt := two_var_op OpGt.
Definition op_eq := two_var_op OpEq.
Definition op_le (a b : sv) : sv := op_invert (two_var_op OpGt a b).
Definition op_ge (a b : sv) : sv := op_invert (two_var_op OpLt a b).
Definition op_ne (a b : sv) : sv := op_invert (two_var_op OpEq a b).

(* corecircuits.select(sel, truecase, falsecase) *)
Definition select (sel t f : sv) : sv :=
  let '(f', t') := match_bitwidth f t false in
  prim OpMux [sel; f'; t'] (wd f').

(* dest <<= rhs for a destination declared with bitwidth dw (None: takes the
   width of rhs): _prepare_for_assignment + the 'w' net *)
Definition ilshift (dw : option Z) (rhs : operand) : option sv :=
  match as_wires rhs dw with
  | Some r => let w := match dw with Some w => w | None => wd r end in
              Some (prim OpW [r] w)
  | None => None
  end.

(* binary operator on operand kinds: `a op other` = a._two_var_op(as_wires(other)) *)
Definition lift2 (f : sv -> sv -> sv) (x y : operand) : option sv :=
  match as_wires x None, as_wires y None with
  | Some a, Some b => Some (f a b)
  | _, _ => None
  end.
