(* C14 -- bitfield_update replaces exactly the addressed slice. *)
From Coq Require Import ZArith List Bool Lia.
From PyRTL Require Import Base.PyZ Front.SliceC14 Front.SliceC14Proofs Front.Bitfield.
Import ListNotations.
Open Scope Z_scope.

Lemma last_seq a k d : last (seq a (S k)) d = (a + k)%nat.
Proof.
  revert a. induction k as [|k IH]; intros a.
  - cbn. lia.
  - change (seq a (S (S k))) with (a :: seq (S a) (S k)).
    change (last (a :: seq (S a) (S k)) d) with (last (seq (S a) (S k)) d). rewrite IH. lia.
Qed.

Lemma pyslice_nat_bounds {A} (l : list A) (s e : option nat) :
  pyslice l (option_map Z.of_nat s) (option_map Z.of_nat e) =
  let a := match s with Some x => Nat.min x (length l) | None => 0%nat end in
  let b := match e with Some x => Nat.min x (length l) | None => length l end in
  firstn (b - a) (skipn a l).
Proof.
  unfold pyslice, slice_bounds, clamp_bound.
  destruct s as [x|], e as [y|]; cbn [option_map];
    repeat match goal with |- context [Z.of_nat ?x <? 0] => replace (Z.of_nat x <? 0) with false by lia end;
    cbv zeta; f_equal; try f_equal; lia.
Qed.

Lemma pyslice_None_nat {A} (l : list A) y :
  pyslice l None (Some (Z.of_nat y)) = firstn (Nat.min y (length l)) l.
Proof.
  pose proof (pyslice_nat_bounds l None (Some y)) as X. cbn [option_map] in X. rewrite X.
  cbv zeta. cbn [skipn]. rewrite Nat.sub_0_r. reflexivity.
Qed.

Lemma pyslice_nat_None {A} (l : list A) x :
  pyslice l (Some (Z.of_nat x)) None = skipn (Nat.min x (length l)) l.
Proof.
  pose proof (pyslice_nat_bounds l (Some x) None) as X. cbn [option_map] in X. rewrite X.
  cbv zeta. apply firstn_all2. rewrite skipn_length. lia.
Qed.

Lemma pyslice_nat_nat {A} (l : list A) x y :
  pyslice l (Some (Z.of_nat x)) (Some (Z.of_nat y)) =
  firstn (Nat.min y (length l) - Nat.min x (length l)) (skipn (Nat.min x (length l)) l).
Proof. exact (sl_spec l x y). Qed.

(* shape of the result: w cut at [a, b) with the converted new value in between *)
Lemma bitfield_core_shape w s e conv r :
  bitfield_update_core w s e conv = Some r ->
  let a := fst (slice_bounds (length w) s e) in
  let b := snd (slice_bounds (length w) s e) in
  (a < b <= length w)%nat /\
  exists nv', conv (b - a)%nat = Some nv' /\ length nv' = (b - a)%nat /\
              r = firstn a w ++ nv' ++ skipn b w.
Proof.
  intros H a b. unfold bitfield_update_core in H.
  rewrite pyslice_seq in H. fold a b in H.
  pose proof (slice_bounds_le (length w) s e) as Hb.
  destruct (slice_bounds (length w) s e) as [a' b'] eqn:Esb. cbn [fst snd] in a, b. subst a b.
  destruct Hb as [Ha Hb].
  rewrite !seq_length in H.
  destruct (b' - a')%nat as [|k] eqn:Ek; [discriminate|].
  rewrite !last_seq in H. cbn [seq] in H.
  destruct (conv (S k)) as [nv'|] eqn:Ec; [|discriminate].
  destruct (Nat.eqb (S k) (length nv')) eqn:El; cbn [negb] in H; [|discriminate].
  apply Nat.eqb_eq in El.
  split; [lia|]. exists nv'. split; [reflexivity|]. split; [lia|].
  (* lower part *)
  assert (Hlo : (match pyslice (seq 0 (length w)) None (Some (Z.of_nat a')) with
                 | [] => []
                 | l0 :: _ => pyslice w (Some (Z.of_nat l0))
                     (Some (Z.of_nat (last (pyslice (seq 0 (length w)) None (Some (Z.of_nat a'))) 0%nat) + 1))
                 end) = firstn a' w).
  { rewrite pyslice_None_nat. rewrite seq_length.
    rewrite Nat.min_l by lia. rewrite firstn_seq'. rewrite Nat.min_l by lia.
    destruct a' as [|a'']; [reflexivity|]. cbn [seq]. change (0%nat :: seq 1 a'') with (seq 0 (S a'')).
    rewrite last_seq. cbn [Nat.add].
    replace (Z.of_nat a'' + 1) with (Z.of_nat (S a'')) by lia.
    rewrite pyslice_nat_nat.
    rewrite Nat.min_0_l. rewrite Nat.min_l by lia. cbn [skipn]. rewrite Nat.sub_0_r. reflexivity. }
  assert (Hhi : (match pyslice (seq 0 (length w)) (Some (Z.of_nat (a' + k) + 1)) None with
                 | [] => []
                 | u0 :: _ => pyslice w (Some (Z.of_nat u0))
                     (Some (Z.of_nat (last (pyslice (seq 0 (length w)) (Some (Z.of_nat (a' + k) + 1)) None) 0%nat) + 1))
                 end) = skipn b' w).
  { replace (Z.of_nat (a' + k) + 1) with (Z.of_nat b') by lia.
    rewrite pyslice_nat_None. rewrite seq_length.
    rewrite Nat.min_l by lia. rewrite skipn_seq'. cbn [Nat.add].
    destruct (length w - b')%nat as [|m] eqn:Em.
    - cbn [seq]. symmetry. apply skipn_all2. lia.
    - cbn [seq]. change (b' :: seq (S b') m) with (seq b' (S m)). rewrite last_seq.
      replace (Z.of_nat (b' + m) + 1) with (Z.of_nat (length w)) by lia.
      rewrite pyslice_nat_nat.
      rewrite Nat.min_id. rewrite Nat.min_l by lia.
      apply firstn_all2. rewrite skipn_length. lia. }
  rewrite Hlo, Hhi in H.
  destruct (Nat.eqb (length (firstn a' w ++ nv' ++ skipn b' w)) (length w)); [|discriminate].
  injection H as <-. reflexivity.
Qed.

Lemma nth_skipn' {A} (l : list A) b i d : nth i (skipn b l) d = nth (b + i) l d.
Proof.
  revert l. induction b as [|b IH]; intros l; [reflexivity|].
  destruct l as [|x l]; [destruct i; reflexivity|]. cbn [skipn Nat.add nth]. apply IH.
Qed.

Lemma nth_firstn' {A} (l : list A) a i d : (i < a)%nat -> nth i (firstn a l) d = nth i l d.
Proof.
  revert l i. induction a as [|a IH]; intros l i H; [lia|].
  destruct l as [|x l]; [reflexivity|]. destruct i as [|i]; [reflexivity|].
  cbn [firstn nth]. apply IH. lia.
Qed.

(* bitfield_update: the bits addressed by Python's range(len(w))[s:e] receive the
   new value (bit j of it goes to the j-th addressed index); every other bit of w
   is unchanged; the bitwidth is unchanged *)
Theorem bitfield_core_spec : forall w s e conv r,
  bitfield_update_core w s e conv = Some r ->
  let idx := pyslice (seq 0 (length w)) s e in
  idx <> [] /\
  length r = length w /\
  exists nv', conv (length idx) = Some nv' /\ length nv' = length idx /\
    (forall j, (j < length idx)%nat -> nth (nth j idx 0%nat) r false = nth j nv' false) /\
    (forall i, ~ In i idx -> nth i r false = nth i w false).
Proof.
  intros w s e conv r H idx. apply bitfield_core_shape in H. cbv zeta in H.
  unfold idx. rewrite pyslice_seq.
  set (a := fst (slice_bounds (length w) s e)) in *.
  set (b := snd (slice_bounds (length w) s e)) in *.
  destruct H as (Hab & nv' & Hc & Hl & ->).
  rewrite seq_length.
  split. { intro E. apply (f_equal (@length nat)) in E. rewrite seq_length in E. cbn [length] in E. lia. }
  split. { rewrite !app_length, firstn_length, skipn_length. lia. }
  exists nv'. split; [exact Hc|]. split; [exact Hl|]. split.
  - intros j Hj. rewrite seq_nth by lia.
    rewrite app_nth2 by (rewrite firstn_length; lia). rewrite firstn_length.
    rewrite app_nth1 by lia. f_equal. lia.
  - intros i Hni. rewrite in_seq in Hni.
    destruct (Nat.ltb i a) eqn:E.
    + apply Nat.ltb_lt in E. rewrite app_nth1 by (rewrite firstn_length; lia). apply nth_firstn'. exact E.
    + apply Nat.ltb_ge in E. rewrite app_nth2 by (rewrite firstn_length; lia). rewrite firstn_length.
      rewrite app_nth2 by lia. rewrite nth_skipn'. f_equal. lia.
Qed.

(* the conversion applied to a WireVector new value *)
Lemma length_as_wires_bw nv bw tr :
  length (as_wires_bw nv bw tr) =
  if Nat.ltb (length nv) bw then bw else if tr then bw else length nv.
Proof.
  unfold as_wires_bw. destruct (Nat.ltb (length nv) bw) eqn:E1.
  - apply Nat.ltb_lt in E1. rewrite length_zext. lia.
  - apply Nat.ltb_ge in E1. destruct tr; cbn [andb]; [|reflexivity].
    destruct (Nat.ltb bw (length nv)) eqn:E2.
    + apply Nat.ltb_lt in E2. rewrite pyslice_None_nat. rewrite firstn_length. lia.
    + apply Nat.ltb_ge in E2. lia.
Qed.

Lemma nth_as_wires_bw nv bw tr j : (j < bw)%nat -> nth j (as_wires_bw nv bw tr) false = nth j nv false.
Proof.
  intros Hj. unfold as_wires_bw. destruct (Nat.ltb (length nv) bw) eqn:E1.
  - unfold zext. destruct (Nat.ltb j (length nv)) eqn:E.
    + apply Nat.ltb_lt in E. apply app_nth1. exact E.
    + apply Nat.ltb_ge in E. rewrite app_nth2 by exact E. rewrite (nth_overflow nv false E).
      apply nth_repeat.
  - destruct (tr && Nat.ltb bw (length nv)) eqn:E2; [|reflexivity].
    rewrite pyslice_None_nat.
    apply nth_firstn'. apply andb_prop in E2. destruct E2 as [_ E2]. apply Nat.ltb_lt in E2. lia.
Qed.

Theorem bitfield_update_spec : forall w s e nv tr r,
  bitfield_update w s e nv tr = Some r ->
  let idx := pyslice (seq 0 (length w)) s e in
  idx <> [] /\ length r = length w /\
  (length nv <= length idx \/ tr = true)%nat /\
  (forall j, (j < length idx)%nat -> nth (nth j idx 0%nat) r false = nth j nv false) /\
  (forall i, ~ In i idx -> nth i r false = nth i w false).
Proof.
  intros w s e nv tr r H idx. unfold bitfield_update in H.
  destruct (bitfield_core_spec _ _ _ _ _ H) as (Hne & Hlen & nv' & Hc & Hl & Hin & Hout).
  fold idx in Hne, Hc, Hl, Hin, Hout. injection Hc as <-.
  split; [exact Hne|]. split; [exact Hlen|]. split.
  - rewrite length_as_wires_bw in Hl.
    destruct (Nat.ltb (length nv) (length idx)) eqn:E; [apply Nat.ltb_lt in E; left; lia|].
    destruct tr; [right; reflexivity|left; lia].
  - split; [|exact Hout]. intros j Hj. rewrite Hin by exact Hj. apply nth_as_wires_bw. exact Hj.
Qed.

(* two's complement range test of _convert_int: (v >> bw-1) == -1 *)
Lemma shiftr_minus_one v bw : (1 <= bw)%nat ->
  (Z.shiftr v (Z.of_nat bw - 1) =? -1) = true <-> - 2 ^ (Z.of_nat bw - 1) <= v < 0.
Proof.
  intros Hbw. rewrite Z.eqb_eq. rewrite Z.shiftr_div_pow2 by lia.
  pose proof (pow2_pos (Z.of_nat bw - 1) ltac:(lia)) as Hp. set (p := 2 ^ (Z.of_nat bw - 1)) in *.
  pose proof (Z.div_mod v p ltac:(lia)) as Hd. pose proof (Z.mod_pos_bound v p Hp) as Hm.
  split; intros H.
  - rewrite H in Hd. lia.
  - assert (Hq : v / p < 0) by (apply Z.div_lt_upper_bound; lia).
    assert (Hq2 : -1 <= v / p) by (apply Z.div_le_lower_bound; lia). lia.
Qed.

Lemma conv_int_spec v tr bw b : (1 <= bw)%nat -> conv_int v tr bw = Some b ->
  length b = bw /\
  (tr = true \/ - 2 ^ (Z.of_nat bw - 1) <= v < 2 ^ Z.of_nat bw) /\
  (forall j, (j < bw)%nat -> nth j b false = Z.testbit v (Z.of_nat j)).
Proof.
  intros Hbw H. unfold conv_int in H.
  set (v' := if tr then Z.land v (2 ^ Z.of_nat bw - 1) else v) in *.
  destruct (if 0 <=? v' then v' <? 2 ^ Z.of_nat bw else Z.shiftr v' (Z.of_nat bw - 1) =? -1) eqn:Ef; [|discriminate].
  injection H as <-. split; [apply length_of_Z|]. split.
  - destruct tr; [left; reflexivity|right]. unfold v' in Ef.
    pose proof (pow2_pos (Z.of_nat bw - 1) ltac:(lia)) as Hp.
    assert (Hpow : 2 ^ Z.of_nat bw = 2 * 2 ^ (Z.of_nat bw - 1)).
    { replace (Z.of_nat bw) with (Z.succ (Z.of_nat bw - 1)) at 1 by lia. rewrite Z.pow_succ_r by lia. reflexivity. }
    destruct (0 <=? v) eqn:E0.
    + apply Z.ltb_lt in Ef. apply Z.leb_le in E0. lia.
    + apply (shiftr_minus_one v bw Hbw) in Ef. lia.
  - intros j Hj. rewrite nth_of_Z by exact Hj. unfold v'. destruct tr; [|reflexivity].
    replace (2 ^ Z.of_nat bw - 1) with (Z.ones (Z.of_nat bw)) by (rewrite Z.ones_equiv; lia).
    rewrite Z.land_spec, Z.ones_spec_low by lia. apply andb_true_r.
Qed.

(* int new value (any sign): bit j of the field is bit j of the two's complement of v, i.e. the int is
   stored AT THE FIELD WIDTH (a negative value sign-fills the field); without truncating it must fit
   in [-2^(m-1), 2^m) *)
Theorem bitfield_update_int_spec : forall w s e v tr r,
  bitfield_update_int w s e v tr = Some r ->
  let idx := pyslice (seq 0 (length w)) s e in
  idx <> [] /\ length r = length w /\
  (tr = true \/ - 2 ^ (Z.of_nat (length idx) - 1) <= v < 2 ^ Z.of_nat (length idx)) /\
  (forall j, (j < length idx)%nat -> nth (nth j idx 0%nat) r false = Z.testbit v (Z.of_nat j)) /\
  (forall i, ~ In i idx -> nth i r false = nth i w false).
Proof.
  intros w s e v tr r H idx. unfold bitfield_update_int in H.
  destruct (bitfield_core_spec _ _ _ _ _ H) as (Hne & Hlen & nv' & Hc & Hl & Hin & Hout).
  fold idx in Hne, Hc, Hl, Hin, Hout.
  assert (Hbw : (1 <= length idx)%nat) by (destruct idx; [congruence|cbn; lia]).
  destruct (conv_int_spec _ _ _ _ Hbw Hc) as (_ & Hfit & Hbits).
  split; [exact Hne|]. split; [exact Hlen|]. split; [exact Hfit|]. split; [|exact Hout].
  intros j Hj. rewrite Hin by exact Hj. apply Hbits. exact Hj.
Qed.

(* ---------- bitfield_update_set ---------- *)
Definition idx_of (n : nat) (u : (option Z * option Z) * bits) : list nat :=
  pyslice (seq 0 n) (fst (fst u)) (snd (fst u)).

Lemma in_idx n s e i :
  In i (pyslice (seq 0 n) s e) <->
  (fst (slice_bounds n s e) <= i < snd (slice_bounds n s e))%nat.
Proof. rewrite pyslice_seq, in_seq. lia. Qed.

Lemma nth_repeat_lt' {A} (a d : A) m j : (j < m)%nat -> nth j (repeat a m) d = a.
Proof.
  revert j. induction m as [|m IH]; intros j H; [lia|].
  destruct j as [|j]; [reflexivity|]. cbn [repeat nth]. apply IH. lia.
Qed.

Lemma length_set_slice sl s e : length (set_slice sl s e) = length sl.
Proof.
  unfold set_slice. pose proof (slice_bounds_le (length sl) s e) as Hb.
  destruct (slice_bounds (length sl) s e) as [a b]. destruct Hb as [Ha Hb].
  destruct (Nat.leb b a) eqn:E; [reflexivity|]. apply Nat.leb_gt in E.
  rewrite !app_length, firstn_length, repeat_length, skipn_length. lia.
Qed.

Lemma nth_set_slice sl s e i :
  nth i (set_slice sl s e) false = nth i sl false || existsb (Nat.eqb i) (pyslice (seq 0 (length sl)) s e).
Proof.
  assert (Hex : existsb (Nat.eqb i) (pyslice (seq 0 (length sl)) s e) = true <->
                (fst (slice_bounds (length sl) s e) <= i < snd (slice_bounds (length sl) s e))%nat).
  { rewrite <- in_idx. rewrite existsb_exists. split.
    - intros (x & Hx & E). apply Nat.eqb_eq in E. subst. exact Hx.
    - intros H. exists i. split; [exact H|apply Nat.eqb_refl]. }
  unfold set_slice. pose proof (slice_bounds_le (length sl) s e) as Hb.
  destruct (slice_bounds (length sl) s e) as [a b]. cbn [fst snd] in Hex. destruct Hb as [Ha Hb].
  destruct (existsb (Nat.eqb i) (pyslice (seq 0 (length sl)) s e)) eqn:Ex.
  - destruct (proj1 Hex eq_refl) as [H1 H2]. rewrite orb_true_r.
    replace (Nat.leb b a) with false by (symmetry; apply Nat.leb_gt; lia).
    rewrite app_nth2 by (rewrite firstn_length; lia). rewrite firstn_length.
    rewrite app_nth1 by (rewrite repeat_length; lia). apply nth_repeat_lt'. lia.
  - rewrite orb_false_r. destruct (Nat.leb b a) eqn:E; [reflexivity|]. apply Nat.leb_gt in E.
    assert (Hni : ~ (a <= i < b)%nat) by (intro H; apply Hex in H; discriminate).
    destruct (Nat.ltb i a) eqn:E2.
    + apply Nat.ltb_lt in E2. rewrite app_nth1 by (rewrite firstn_length; lia). apply nth_firstn'. exact E2.
    + apply Nat.ltb_ge in E2. rewrite app_nth2 by (rewrite firstn_length; lia). rewrite firstn_length.
      rewrite app_nth2 by (rewrite repeat_length; lia). rewrite repeat_length. rewrite nth_skipn'. f_equal. lia.
Qed.

Lemma existsb_eqb_In i l : existsb (Nat.eqb i) l = true <-> In i l.
Proof.
  rewrite existsb_exists. split.
  - intros (x & Hx & E). apply Nat.eqb_eq in E. subst. exact Hx.
  - intros H. exists i. split; [exact H|apply Nat.eqb_refl].
Qed.

Definition bfus_post (w r : bits) (setlist : list bool) (tr : bool)
           (ups : list ((option Z * option Z) * bits)) : Prop :=
  length r = length w /\
  (forall i, nth i setlist false = true -> nth i r false = nth i w false) /\
  (forall u, In u ups ->
     let idx := idx_of (length w) u in
     idx <> [] /\ (length (snd u) <= length idx \/ tr = true)%nat /\
     (forall i, In i idx -> nth i setlist false = false) /\
     (forall j, (j < length idx)%nat -> nth (nth j idx 0%nat) r false = nth j (snd u) false)) /\
  (forall i, (forall u, In u ups -> ~ In i (idx_of (length w) u)) -> nth i r false = nth i w false) /\
  ForallOrdPairs (fun u1 u2 => forall i, In i (idx_of (length w) u1) -> ~ In i (idx_of (length w) u2)) ups.

Lemma bfus_rec_spec : forall ups w setlist tr r,
  length setlist = length w ->
  bfus_rec w setlist ups tr = Some r -> bfus_post w r setlist tr ups.
Proof.
  induction ups as [|[[s e] nv] rest IH]; intros w setlist tr r Hsl H.
  - cbn [bfus_rec] in H. injection H as <-. unfold bfus_post.
    split; [reflexivity|]. split; [intros; reflexivity|]. split; [intros u []|].
    split; [intros; reflexivity|constructor].
  - cbn [bfus_rec] in H.
    destruct (existsb (fun b : bool => b) (pyslice setlist s e)) eqn:Eov; [discriminate|].
    destruct (bitfield_update w s e nv tr) as [w'|] eqn:Eb; [|discriminate].
    pose proof (bitfield_update_spec _ _ _ _ _ _ Eb) as Hb. cbv zeta in Hb.
    destruct Hb as (Hne & Hlw & Htr & Hin & Hout).
    set (idx := pyslice (seq 0 (length w)) s e) in *.
    assert (Hunset : forall i, In i idx -> nth i setlist false = false).
    { intros i Hi. destruct (nth i setlist false) eqn:E; [|reflexivity]. exfalso.
      assert (Hex : existsb (fun b : bool => b) (pyslice setlist s e) = true).
      { apply existsb_exists. exists true. split; [|reflexivity].
        rewrite (pyslice_nth setlist false). rewrite Hsl. apply in_map_iff. exists i. split; [exact E|exact Hi]. }
      congruence. }
    apply IH in H; [|rewrite length_set_slice; lia].
    destruct H as (R1 & R2 & R3 & R4 & R5).
    assert (Hmark : forall i, nth i (set_slice setlist s e) false = true <->
                              nth i setlist false = true \/ In i idx).
    { intros i. rewrite nth_set_slice, orb_true_iff, existsb_eqb_In, Hsl. reflexivity. }
    unfold bfus_post. rewrite Hlw in *. split; [exact R1|]. split; [|split; [|split]].
    + intros i Hi. rewrite R2 by (apply Hmark; left; exact Hi). apply Hout.
      intro Hc. apply Hunset in Hc. congruence.
    + intros u [<-|Hu]; cbv zeta.
      * unfold idx_of. cbn [fst snd]. fold idx. split; [exact Hne|]. split; [exact Htr|]. split; [exact Hunset|].
        intros j Hj. rewrite R2; [apply Hin; exact Hj|]. apply Hmark. right. apply nth_In. exact Hj.
      * destruct (R3 u Hu) as (U1 & U2 & U3 & U4). split; [exact U1|]. split; [exact U2|]. split; [|exact U4].
        intros i Hi. specialize (U3 i Hi). destruct (nth i setlist false) eqn:E; [|reflexivity].
        assert (Hm : nth i (set_slice setlist s e) false = true) by (apply Hmark; left; exact E). congruence.
    + intros i Hi. rewrite R4 by (intros u Hu; apply Hi; right; exact Hu). apply Hout.
      apply (Hi ((s, e), nv)). left. reflexivity.
    + constructor; [|exact R5]. apply Forall_forall. intros u Hu i Hi Hc.
      unfold idx_of in Hi. cbn [fst snd] in Hi. fold idx in Hi.
      destruct (R3 u Hu) as (_ & _ & U3 & _). specialize (U3 i Hc).
      assert (Hm : nth i (set_slice setlist s e) false = true) by (apply Hmark; right; exact Hi). congruence.
Qed.

Lemma nth_repeat_false n i : nth i (repeat false n) false = false.
Proof. apply nth_repeat. Qed.

(* bitfield_update_set: the ranges are non-empty and pairwise disjoint (otherwise
   it raises), every range receives its new value, every bit outside all ranges
   is unchanged, the bitwidth is unchanged *)
Theorem bitfield_update_set_spec : forall w ups tr r,
  bitfield_update_set w ups tr = Some r ->
  length r = length w /\
  (forall u, In u ups ->
     let idx := idx_of (length w) u in
     idx <> [] /\ (length (snd u) <= length idx \/ tr = true)%nat /\
     (forall j, (j < length idx)%nat -> nth (nth j idx 0%nat) r false = nth j (snd u) false)) /\
  (forall i, (forall u, In u ups -> ~ In i (idx_of (length w) u)) -> nth i r false = nth i w false) /\
  ForallOrdPairs (fun u1 u2 => forall i, In i (idx_of (length w) u1) -> ~ In i (idx_of (length w) u2)) ups.
Proof.
  intros w ups tr r H. unfold bitfield_update_set in H.
  apply bfus_rec_spec in H; [|apply repeat_length].
  destruct H as (R1 & _ & R3 & R4 & R5). split; [exact R1|]. split; [|split; assumption].
  intros u Hu. destruct (R3 u Hu) as (U1 & U2 & _ & U4). cbv zeta. tauto.
Qed.

(* ---------- no spurious errors ---------- *)
Lemma lower_part (w : bits) a' : (a' <= length w)%nat ->
  (match pyslice (seq 0 (length w)) None (Some (Z.of_nat a')) with
   | [] => []
   | l0 :: _ => pyslice w (Some (Z.of_nat l0))
       (Some (Z.of_nat (last (pyslice (seq 0 (length w)) None (Some (Z.of_nat a'))) 0%nat) + 1))
   end) = firstn a' w.
Proof.
  intros Ha. rewrite pyslice_None_nat. rewrite seq_length.
  rewrite Nat.min_l by lia. rewrite firstn_seq'. rewrite Nat.min_l by lia.
  destruct a' as [|a'']; [reflexivity|]. cbn [seq]. change (0%nat :: seq 1 a'') with (seq 0 (S a'')).
  rewrite last_seq. cbn [Nat.add].
  replace (Z.of_nat a'' + 1) with (Z.of_nat (S a'')) by lia.
  rewrite pyslice_nat_nat.
  rewrite Nat.min_0_l. rewrite Nat.min_l by lia. cbn [skipn]. rewrite Nat.sub_0_r. reflexivity.
Qed.

Lemma upper_part (w : bits) b' : (b' <= length w)%nat ->
  (match pyslice (seq 0 (length w)) (Some (Z.of_nat b')) None with
   | [] => []
   | u0 :: _ => pyslice w (Some (Z.of_nat u0))
       (Some (Z.of_nat (last (pyslice (seq 0 (length w)) (Some (Z.of_nat b')) None) 0%nat) + 1))
   end) = skipn b' w.
Proof.
  intros Hb. rewrite pyslice_nat_None. rewrite seq_length.
  rewrite Nat.min_l by lia. rewrite skipn_seq'. cbn [Nat.add].
  destruct (length w - b')%nat as [|m] eqn:Em.
  - cbn [seq]. symmetry. apply skipn_all2. lia.
  - cbn [seq]. change (b' :: seq (S b') m) with (seq b' (S m)). rewrite last_seq.
    replace (Z.of_nat (b' + m) + 1) with (Z.of_nat (length w)) by lia.
    rewrite pyslice_nat_nat.
    rewrite Nat.min_id. rewrite Nat.min_l by lia.
    apply firstn_all2. rewrite skipn_length. lia.
Qed.

(* closed form of the whole function *)
Lemma bitfield_core_eq w s e conv :
  let a := fst (slice_bounds (length w) s e) in
  let b := snd (slice_bounds (length w) s e) in
  bitfield_update_core w s e conv =
  if Nat.leb b a then None else
  match conv (b - a)%nat with
  | None => None
  | Some nv' => if Nat.eqb (b - a) (length nv') then Some (firstn a w ++ nv' ++ skipn b w) else None
  end.
Proof.
  intros a b. unfold bitfield_update_core. rewrite pyslice_seq. fold a b.
  pose proof (slice_bounds_le (length w) s e) as Hb.
  destruct (slice_bounds (length w) s e) as [a' b'] eqn:Esb. cbn [fst snd] in a, b. subst a b.
  destruct Hb as [Ha Hb]. rewrite !seq_length.
  destruct (Nat.leb b' a') eqn:Ele.
  - apply Nat.leb_le in Ele. replace (b' - a')%nat with 0%nat by lia. reflexivity.
  - apply Nat.leb_gt in Ele. destruct (b' - a')%nat as [|k] eqn:Ek; [lia|].
    rewrite !last_seq. cbn [seq].
    destruct (conv (S k)) as [nv'|]; [|reflexivity].
    destruct (Nat.eqb (S k) (length nv')) eqn:El; cbn [negb]; [|reflexivity].
    apply Nat.eqb_eq in El.
    replace (Z.of_nat (a' + k) + 1) with (Z.of_nat b') by lia.
    rewrite (lower_part w a' Ha), (upper_part w b' Hb).
    replace (Nat.eqb (length (firstn a' w ++ nv' ++ skipn b' w)) (length w)) with true; [reflexivity|].
    symmetry. apply Nat.eqb_eq. rewrite !app_length, firstn_length, skipn_length. lia.
Qed.

(* bitfield_update does not raise when the addressed slice is non-empty and the
   new value fits (or truncating=True) *)
Theorem bitfield_update_ok : forall w s e nv tr,
  pyslice (seq 0 (length w)) s e <> [] ->
  (length nv <= length (pyslice (seq 0 (length w)) s e) \/ tr = true)%nat ->
  bitfield_update w s e nv tr <> None.
Proof.
  intros w s e nv tr Hne Hfit. unfold bitfield_update. rewrite bitfield_core_eq.
  rewrite pyslice_seq in Hne, Hfit. rewrite seq_length in Hfit.
  set (a := fst (slice_bounds (length w) s e)) in *. set (b := snd (slice_bounds (length w) s e)) in *.
  destruct (Nat.leb b a) eqn:E.
  - apply Nat.leb_le in E. exfalso. apply Hne. replace (b - a)%nat with 0%nat by lia. reflexivity.
  - rewrite length_as_wires_bw.
    replace (Nat.eqb (b - a) _) with true; [discriminate|]. symmetry. apply Nat.eqb_eq.
    destruct (Nat.ltb (length nv) (b - a)) eqn:E1; [reflexivity|]. apply Nat.ltb_ge in E1.
    destruct tr; [reflexivity|]. destruct Hfit as [H|H]; [lia|discriminate].
Qed.

(* ---------- bitfield_update_set: overlap is order-independent ---------- *)
From Coq Require Import Permutation.

(* success means: ANY two distinct entries address disjoint bit sets (whatever their order) *)
Theorem bitfield_update_set_disjoint : forall w ups tr r,
  bitfield_update_set w ups tr = Some r ->
  forall u1 u2, In u1 ups -> In u2 ups -> u1 <> u2 ->
  forall i, In i (idx_of (length w) u1) -> ~ In i (idx_of (length w) u2).
Proof.
  intros w ups tr r H u1 u2 H1 H2 Hne i Hi Hc.
  destruct (bitfield_update_set_spec _ _ _ _ H) as (_ & _ & _ & Hp).
  destruct (ForallOrdPairs_In Hp u1 u2 H1 H2) as [E|[R|R]]; [contradiction| |].
  - exact (R i Hi Hc).
  - exact (R i Hc Hi).
Qed.

(* overlap = non-empty intersection of the addressed index sets: it raises, in either order *)
Theorem bitfield_update_set_overlap_raises : forall w ups tr u1 u2 i,
  In u1 ups -> In u2 ups -> u1 <> u2 ->
  In i (idx_of (length w) u1) -> In i (idx_of (length w) u2) ->
  bitfield_update_set w ups tr = None.
Proof.
  intros w ups tr u1 u2 i H1 H2 Hne Hi1 Hi2.
  destruct (bitfield_update_set w ups tr) as [r|] eqn:E; [|reflexivity]. exfalso.
  exact (bitfield_update_set_disjoint _ _ _ _ E u1 u2 H1 H2 Hne i Hi1 Hi2).
Qed.

Lemma in_some_idx_dec n ups i :
  {exists u, In u ups /\ In i (idx_of n u)} + {forall u, In u ups -> ~ In i (idx_of n u)}.
Proof.
  destruct (existsb (fun u => existsb (Nat.eqb i) (idx_of n u)) ups) eqn:E.
  - left. apply existsb_exists in E. destruct E as (u & Hu & E). exists u. split; [exact Hu|].
    apply existsb_eqb_In. exact E.
  - right. intros u Hu Hin. assert (existsb (fun u => existsb (Nat.eqb i) (idx_of n u)) ups = true); [|congruence].
    apply existsb_exists. exists u. split; [exact Hu|]. apply existsb_eqb_In. exact Hin.
Qed.

(* the result does not depend on the dictionary order *)
Theorem bitfield_update_set_perm : forall w ups ups' tr r r',
  Permutation ups ups' ->
  bitfield_update_set w ups tr = Some r -> bitfield_update_set w ups' tr = Some r' -> r = r'.
Proof.
  intros w ups ups' tr r r' Hp H H'.
  destruct (bitfield_update_set_spec _ _ _ _ H) as (L & V & O & _).
  destruct (bitfield_update_set_spec _ _ _ _ H') as (L' & V' & O' & _).
  apply bits_ext; [congruence|]. intros i _.
  destruct (in_some_idx_dec (length w) ups i) as [(u & Hu & Hi)|Hno].
  - destruct (In_nth _ _ 0%nat Hi) as (j & Hj & Ej).
    destruct (V u Hu) as (_ & _ & Vu). destruct (V' u (Permutation_in _ Hp Hu)) as (_ & _ & Vu').
    cbv zeta in Vu, Vu'. rewrite <- Ej. rewrite Vu by exact Hj. rewrite Vu' by exact Hj. reflexivity.
  - rewrite O by exact Hno. rewrite O'; [reflexivity|].
    intros u Hu. apply Hno. apply (Permutation_in _ (Permutation_sym Hp) Hu).
Qed.

(* no spurious error: non-empty, fitting, pairwise disjoint ranges are accepted *)
Lemma bfus_rec_ok : forall ups w setlist tr,
  length setlist = length w ->
  (forall u, In u ups ->
     idx_of (length w) u <> [] /\
     (length (snd u) <= length (idx_of (length w) u) \/ tr = true)%nat /\
     (forall i, In i (idx_of (length w) u) -> nth i setlist false = false)) ->
  ForallOrdPairs (fun u1 u2 => forall i, In i (idx_of (length w) u1) -> ~ In i (idx_of (length w) u2)) ups ->
  bfus_rec w setlist ups tr <> None.
Proof.
  induction ups as [|[[s e] nv] rest IH]; intros w setlist tr Hsl Hall Hp; [discriminate|].
  cbn [bfus_rec].
  destruct (Hall ((s, e), nv) (or_introl eq_refl)) as (Hne & Hfit & Hun).
  unfold idx_of in Hne, Hfit, Hun. cbn [fst snd] in Hne, Hfit, Hun.
  assert (Eov : existsb (fun b : bool => b) (pyslice setlist s e) = false).
  { destruct (existsb (fun b : bool => b) (pyslice setlist s e)) eqn:E; [|reflexivity]. exfalso.
    apply existsb_exists in E. destruct E as (b & Hb & Hbt). subst b.
    rewrite (pyslice_nth setlist false) in Hb. rewrite Hsl in Hb. apply in_map_iff in Hb.
    destruct Hb as (i & Ei & Hi). rewrite (Hun i Hi) in Ei. discriminate. }
  rewrite Eov.
  pose proof (bitfield_update_ok w s e nv tr Hne Hfit) as Hok.
  destruct (bitfield_update w s e nv tr) as [w'|] eqn:Eb; [|congruence].
  destruct (bitfield_update_spec _ _ _ _ _ _ Eb) as (_ & Hlw & _).
  inversion Hp as [|? ? Hhead Htail]; subst.
  apply IH.
  - rewrite length_set_slice. lia.
  - rewrite Hlw. intros u Hu. destruct (Hall u (or_intror Hu)) as (U1 & U2 & U3).
    split; [exact U1|]. split; [exact U2|]. intros i Hi.
    rewrite nth_set_slice, (U3 i Hi), Hsl. cbn [orb].
    destruct (existsb (Nat.eqb i) (pyslice (seq 0 (length w)) s e)) eqn:E; [|reflexivity]. exfalso.
    apply existsb_eqb_In in E. rewrite Forall_forall in Hhead.
    apply (Hhead u Hu i); [exact E|exact Hi].
  - rewrite Hlw. exact Htail.
Qed.

Theorem bitfield_update_set_ok : forall w ups tr,
  (forall u, In u ups ->
     idx_of (length w) u <> [] /\ (length (snd u) <= length (idx_of (length w) u) \/ tr = true)%nat) ->
  ForallOrdPairs (fun u1 u2 => forall i, In i (idx_of (length w) u1) -> ~ In i (idx_of (length w) u2)) ups ->
  bitfield_update_set w ups tr <> None.
Proof.
  intros w ups tr Hall Hp. unfold bitfield_update_set. apply bfus_rec_ok; [apply repeat_length| |exact Hp].
  intros u Hu. destruct (Hall u Hu) as [U1 U2]. split; [exact U1|]. split; [exact U2|].
  intros i _. apply nth_repeat_false.
Qed.

(* hence acceptance itself is independent of the dictionary order *)
Theorem bitfield_update_set_order_independent : forall w ups ups' tr,
  Permutation ups ups' -> NoDup ups ->
  bitfield_update_set w ups tr <> None -> bitfield_update_set w ups' tr <> None.
Proof.
  intros w ups ups' tr Hp Hnd H.
  destruct (bitfield_update_set w ups tr) as [r|] eqn:E; [|congruence].
  destruct (bitfield_update_set_spec _ _ _ _ E) as (_ & V & _ & _).
  apply bitfield_update_set_ok.
  - intros u Hu. destruct (V u (Permutation_in _ (Permutation_sym Hp) Hu)) as (U1 & U2 & _). split; assumption.
  - assert (Hnd' : NoDup ups') by (apply (Permutation_NoDup Hp Hnd)).
    assert (Hsym : forall u1 u2, In u1 ups' -> In u2 ups' -> u1 <> u2 ->
                   forall i, In i (idx_of (length w) u1) -> ~ In i (idx_of (length w) u2)).
    { intros u1 u2 H1 H2. apply (bitfield_update_set_disjoint _ _ _ _ E);
        apply (Permutation_in _ (Permutation_sym Hp)); assumption. }
    clear - Hnd' Hsym. induction ups' as [|u rest IH]; [constructor|].
    inversion Hnd' as [|? ? Hni Hnd'']; subst. constructor.
    + apply Forall_forall. intros u2 H2. apply Hsym; [left; reflexivity|right; exact H2|].
      intro E. subst. contradiction.
    + apply IH; [exact Hnd''|]. intros u1 u2 H1 H2. apply Hsym; right; assumption.
Qed.

(* ---------- int new values in bitfield_update / bitfield_update_set ---------- *)
(* an int that converts behaves exactly like the wire holding its field-width two's complement bits *)
Theorem bitfield_update_int_as_wire : forall w s e v tr,
  bitfield_update_int w s e v tr =
  match conv_int v tr (length (pyslice (seq 0 (length w)) s e)) with
  | Some b => bitfield_update w s e b false
  | None => None
  end.
Proof.
  intros w s e v tr. unfold bitfield_update_int, bitfield_update.
  rewrite (bitfield_core_eq w s e (conv_int v tr)). rewrite pyslice_seq, seq_length.
  set (a := fst (slice_bounds (length w) s e)). set (b := snd (slice_bounds (length w) s e)).
  destruct (conv_int v tr (b - a)) as [bits|] eqn:Ec.
  - rewrite (bitfield_core_eq w s e (fun bw => Some (as_wires_bw bits bw false))). fold a b.
    destruct (Nat.leb b a) eqn:E; [reflexivity|].
    assert (Hl : length bits = (b - a)%nat).
    { unfold conv_int in Ec.
      match type of Ec with (if ?c then _ else _) = _ => destruct c; [|discriminate] end.
      injection Ec as <-. apply length_of_Z. }
    assert (Ha : as_wires_bw bits (b - a) false = bits).
    { unfold as_wires_bw. rewrite Hl, Nat.ltb_irrefl. reflexivity. }
    rewrite Ha. reflexivity.
  - destruct (Nat.leb b a); reflexivity.
Qed.

Lemma bitfield_update_nv_cases w s e tr :
  (forall b, bitfield_update_nv w s e (NVw b) tr = bitfield_update w s e b tr) /\
  (forall v, bitfield_update_nv w s e (NVi v) tr = bitfield_update_int w s e v tr).
Proof. split; reflexivity. Qed.

(* the set function on wire values is the wire-only model the set theorems are stated for *)
Theorem bitfield_update_set_nv_wires : forall w ups tr,
  bitfield_update_set_nv w (map (fun u => (fst u, NVw (snd u))) ups) tr = bitfield_update_set w ups tr.
Proof.
  intros w ups tr. unfold bitfield_update_set_nv, bitfield_update_set.
  generalize (repeat false (length w)). revert w.
  induction ups as [|[[s e] nv] rest IH]; intros w sl; [reflexivity|].
  cbn [map fst snd bfus_rec_nv bfus_rec].
  destruct (existsb (fun b : bool => b) (pyslice sl s e)); [reflexivity|].
  change (bitfield_update_nv w s e (NVw nv) tr) with (bitfield_update w s e nv tr).
  destruct (bitfield_update w s e nv tr) as [w'|]; [apply IH|reflexivity].
Qed.

(* ... and an int entry of a set acts as the wire holding its field-width two's complement *)
Theorem bitfield_update_set_nv_int_step : forall w sl s e v tr rest,
  bfus_rec_nv w sl (((s, e), NVi v) :: rest) tr =
  if existsb (fun b : bool => b) (pyslice sl s e) then None else
  match conv_int v tr (length (pyslice (seq 0 (length w)) s e)) with
  | None => None
  | Some b => match bitfield_update w s e b false with
              | None => None
              | Some w' => bfus_rec_nv w' (set_slice sl s e) rest tr
              end
  end.
Proof.
  intros w sl s e v tr rest. cbn [bfus_rec_nv].
  destruct (existsb (fun b : bool => b) (pyslice sl s e)); [reflexivity|].
  change (bitfield_update_nv w s e (NVi v) tr) with (bitfield_update_int w s e v tr).
  rewrite bitfield_update_int_as_wire.
  destruct (conv_int v tr (length (pyslice (seq 0 (length w)) s e))); reflexivity.
Qed.
