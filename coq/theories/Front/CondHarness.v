(* C07 -- entry points evaluated by py/checks/C07.py with vm_compute. No proofs. *)
From Coq Require Import ZArith List Bool.
From PyRTL Require Import Front.Cond Front.CondSpec.
Import ListNotations.
Open Scope Z_scope.

Definition nthb (bs : list bool) (p : Z) : bool := nth (Z.to_nat p) bs false.
Definition nthz (zs : list Z) (p : Z) : Z := nth (Z.to_nat p) zs 0.

(* one cycle of stimulus: predicate values, leaf values, current register values *)
Definition stim := (list bool * list Z * list Z)%type.

Definition env_of (s : stim) : env :=
  mkEnv (nthb (fst (fst s))) (nthz (snd (fst s))) (nthz (snd s)).

Definition lhs_code (l : lhs) : list Z :=
  match l with
  | LW (TWire i) => [0; i]
  | LW (TReg i) => [1; i]
  | LM m => [2; m]
  end.

Definition b2z (b : bool) : Z := if b then 1 else 0.

(* MODEL: per cycle, per elaborated target: code ++ value  |  code ++ [enable; addr; data] *)
Definition model_row (res : list (lhs * fexpr)) (s : stim) : list (list Z) :=
  map (fun kv =>
         lhs_code (fst kv) ++
         match snd kv with
         | FVal e => [veval (env_of s) e]
         | FMem en ad da => [veval (env_of s) en; veval (env_of s) ad; veval (env_of s) da]
         end) res.

Definition cond_case (prog : list ctree) (d : defaults) (steps : list stim)
  : option (list (list (list Z))) :=
  match elab prog d with
  | None => None
  | Some res => Some (map (model_row res) steps)
  end.

(* SPEC: acceptance flag; per cycle per assigned target: code ++ [n_active; ...]
   wire/reg: value (or -1 when undefined); memory: written?, addr, data (0 0 0 when not written) *)
Definition spec_row (prog : list ctree) (d : defaults) (s : stim) : list (list Z) :=
  map (fun l =>
         lhs_code l ++
         Z.of_nat (length (active_for (e_pred (env_of s)) prog l)) ::
         match l with
         | LW t => match spec_value (env_of s) d prog t with Some v => [v] | None => [-1] end
         | LM m => match spec_mem (env_of s) prog m with
                   | Some (Some (a, dd, e)) => [e; a; dd]
                   | Some None => [0; 0; 0]
                   | None => [-1; -1; -1]
                   end
         end) (assigned prog).

Definition spec_case (prog : list ctree) (d : defaults) (steps : list stim)
  : (bool * list (list (list Z))) :=
  (spec_accepts prog, map (spec_row prog d) steps).

(* ---------- structural tie: prefix serialisation of the elaborated expressions ---------- *)
Fixpoint ser_b (b : bexpr) : list Z :=
  match b with
  | BVar p => [0; p]
  | BNot a => 1 :: ser_b a
  | BAnd a c => 2 :: ser_b a ++ ser_b c
  end.

Fixpoint ser_v (e : vexpr) : list Z :=
  match e with
  | VLeaf r => [5; r]
  | VZero => [4]
  | VSelf i => [6; i]
  | VSel s t f => 3 :: ser_b s ++ ser_v t ++ ser_v f
  end.

Definition ser_f (f : fexpr) : list (list Z) :=
  match f with
  | FVal e => [ser_v e]
  | FMem en ad da => [ser_v en; ser_v ad; ser_v da]
  end.

Definition struct_case (prog : list ctree) (d : defaults) : option (list (list (list Z))) :=
  match elab prog d with
  | None => None
  | Some res => Some (map (fun kv => lhs_code (fst kv) :: ser_f (snd kv)) res)
  end.

(* the select conditions and pred_sets the elaborator recorded, for debugging replays *)
Definition lits_case (prog : list ctree) : list (list Z * list (Z * bool)) :=
  map (fun x => (lhs_code (fst x), snd x)) (slits prog).

(* everything the check needs about one program in one evaluation *)
Definition all_case (prog : list ctree) (d : defaults) (steps : list stim) :=
  (cond_case prog d steps, spec_case prog d steps, struct_case prog d).

Definition all_case4 (prog : list ctree) (d : defaults) (steps : list stim) :=
  (cond_case prog d steps, spec_case prog d steps, struct_case prog d, lits_case prog).

(* with predicate bitwidths (pws: width of predicate wire p at index p, default 1) *)
Definition pw_of (pws : list Z) : pid -> Z := fun p => nth (Z.to_nat p) pws 1.

Definition all_case5 (pws : list Z) (prog : list ctree) (d : defaults) (steps : list stim) :=
  (match elab_w (pw_of pws) prog d with
   | None => None
   | Some res => Some (map (model_row res) steps)
   end,
   (spec_accepts_w (pw_of pws) prog, map (spec_row prog d) steps),
   match elab_w (pw_of pws) prog d with
   | None => None
   | Some res => Some (map (fun kv => lhs_code (fst kv) :: ser_f (snd kv)) res)
   end,
   lits_case prog).
