(* C07 -- proofs about the elaborator model (Cond.v) against the tree interpreter (CondSpec.v). *)
From Coq Require Import ZArith List Bool Lia.
From PyRTL Require Import Front.Cond Front.CondSpec.
Import ListNotations.
Open Scope Z_scope.

(* ------------------------------------------------------------------ basics *)
Lemma wtarget_eqb_eq : forall a b, wtarget_eqb a b = true <-> a = b.
Proof.
  intros [i|i] [j|j]; cbn; split; intro H; try discriminate; try congruence;
    try (apply Z.eqb_eq in H; subst; reflexivity); injection H as ->; apply Z.eqb_refl.
Qed.

Lemma lhs_eqb_eq : forall a b, lhs_eqb a b = true <-> a = b.
Proof.
  intros [s|i] [t|j]; cbn; split; intro H; try discriminate.
  - apply wtarget_eqb_eq in H. subst. reflexivity.
  - injection H as ->. apply wtarget_eqb_eq. reflexivity.
  - apply Z.eqb_eq in H. subst. reflexivity.
  - injection H as ->. apply Z.eqb_refl.
Qed.

Lemma lhs_eqb_refl : forall a, lhs_eqb a a = true.
Proof. intro a. apply lhs_eqb_eq. reflexivity. Qed.

Lemma lhs_eqb_sym : forall a b, lhs_eqb a b = lhs_eqb b a.
Proof.
  intros a b. destruct (lhs_eqb a b) eqn:E.
  - apply lhs_eqb_eq in E. subst. symmetry. apply lhs_eqb_refl.
  - destruct (lhs_eqb b a) eqn:E2; [|reflexivity].
    apply lhs_eqb_eq in E2. subst. rewrite lhs_eqb_refl in E. discriminate.
Qed.

(* ------------------------------------------------------------------ induction on trees *)
Section ctree_ind2.
  Variable P : ctree -> Prop.
  Hypothesis HW : forall p body, Forall P body -> P (With p body).
  Hypothesis HO : forall body, Forall P body -> P (Otherwise body).
  Hypothesis HA : forall t r, P (Assign t r).
  Hypothesis HM : forall m a d e, P (MemAssign m a d e).

  Fixpoint ctree_ind2 (t : ctree) : P t :=
    match t with
    | With p body =>
        HW p body ((fix go (l : list ctree) : Forall P l :=
                      match l with
                      | [] => Forall_nil P
                      | x :: r => Forall_cons x (ctree_ind2 x) (go r)
                      end) body)
    | Otherwise body =>
        HO body ((fix go (l : list ctree) : Forall P l :=
                    match l with
                    | [] => Forall_nil P
                    | x :: r => Forall_cons x (ctree_ind2 x) (go r)
                    end) body)
    | Assign t r => HA t r
    | MemAssign m a d e => HM m a d e
    end.
End ctree_ind2.

(* ------------------------------------------------------------------ unfolding lemmas *)
Lemma elab_tree_With : forall p body s,
  elab_tree (With p body) s =
  match push (CP p) s with
  | None => None
  | Some s1 => match elab_forest body s1 with None => None | Some s2 => pop s2 end
  end.
Proof. reflexivity. Qed.

Lemma elab_tree_Otherwise : forall body s,
  elab_tree (Otherwise body) s =
  match push COth s with
  | None => None
  | Some s1 => match elab_forest body s1 with None => None | Some s2 => pop s2 end
  end.
Proof. reflexivity. Qed.

Lemma flags_tree_With : forall rho en taken p body,
  flags_tree rho en taken (With p body) =
  flags_forest rho (branch_active rho en taken (With p body)) body false.
Proof. reflexivity. Qed.

Lemma flags_tree_Otherwise : forall rho en taken body,
  flags_tree rho en taken (Otherwise body) =
  flags_forest rho (branch_active rho en taken (Otherwise body)) body false.
Proof. reflexivity. Qed.

Lemma slits_tree_With : forall ctx since p body,
  slits_tree ctx since (With p body) =
  slits_forest (branch_lits ctx since (With p body)) body [].
Proof. reflexivity. Qed.

Lemma slits_tree_Otherwise : forall ctx since body,
  slits_tree ctx since (Otherwise body) =
  slits_forest (branch_lits ctx since (Otherwise body)) body [].
Proof. reflexivity. Qed.

(* ------------------------------------------------------------------ the records the machine builds *)
Definition rcd := (lhs * payload * list lit)%type.
Definition r_lhs (r : rcd) : lhs := fst (fst r).
Definition r_pl (r : rcd) : payload := snd (fst r).
Definition r_lits (r : rcd) : list lit := snd r.

(* literals contributed by the enclosing levels (tl of the stack) *)
Definition lits_ctx (ctx : list (list cond)) : list lit := flat_map level_lits (rev ctx).

Definition next_pre (pre : list cond) (t : ctree) : list cond :=
  match t with
  | With p _ => CP p :: pre
  | Otherwise _ => COth :: pre
  | _ => pre
  end.

Definition branch_cond (t : ctree) : cond :=
  match t with With p _ => CP p | _ => COth end.

Fixpoint recs_tree (ctx : list (list cond)) (pre : list cond) (t : ctree) {struct t} : list rcd :=
  match t with
  | Assign w r => [(LW w, PVal r, lits_ctx ctx)]
  | MemAssign m a d e => [(LM m, PMem a d e, lits_ctx ctx)]
  | With p body =>
      (fix go (l : list ctree) (pr : list cond) {struct l} : list rcd :=
         match l with
         | [] => []
         | x :: r => recs_tree ((CP p :: pre) :: ctx) pr x ++ go r (next_pre pr x)
         end) body []
  | Otherwise body =>
      (fix go (l : list ctree) (pr : list cond) {struct l} : list rcd :=
         match l with
         | [] => []
         | x :: r => recs_tree ((COth :: pre) :: ctx) pr x ++ go r (next_pre pr x)
         end) body []
  end.

Definition recs_forest (ctx : list (list cond)) : list ctree -> list cond -> list rcd :=
  fix go (l : list ctree) (pr : list cond) {struct l} : list rcd :=
    match l with
    | [] => []
    | x :: r => recs_tree ctx pr x ++ go r (next_pre pr x)
    end.

Lemma recs_forest_cons : forall ctx x r pr,
  recs_forest ctx (x :: r) pr = recs_tree ctx pr x ++ recs_forest ctx r (next_pre pr x).
Proof. reflexivity. Qed.

Lemma flags_forest_cons : forall rho en x r tk,
  flags_forest rho en (x :: r) tk =
  flags_tree rho en tk x ++ flags_forest rho en r (next_taken rho en tk x).
Proof. reflexivity. Qed.

Lemma slits_forest_cons : forall ctx x r sn,
  slits_forest ctx (x :: r) sn = slits_tree ctx sn x ++ slits_forest ctx r (next_since sn x).
Proof. reflexivity. Qed.

Lemma recs_tree_With : forall ctx pre p body,
  recs_tree ctx pre (With p body) = recs_forest ((CP p :: pre) :: ctx) body [].
Proof. reflexivity. Qed.

Lemma recs_tree_Otherwise : forall ctx pre body,
  recs_tree ctx pre (Otherwise body) = recs_forest ((COth :: pre) :: ctx) body [].
Proof. reflexivity. Qed.

(* ------------------------------------------------------------------ A: machine = fold of builds *)
Definition maps := (amap (bexpr * payload) * amap (list lit))%type.

Definition build_m (r : rcd) (m : maps) : option maps :=
  match sel_of_lits (r_lits r) with
  | None => None
  | Some sel =>
      if existsb (in_conflict (r_lits r)) (am_get (snd m) (r_lhs r)) then None
      else Some (am_app (fst m) (r_lhs r) (sel, r_pl r), am_app (snd m) (r_lhs r) (r_lits r))
  end.

Fixpoint build_all (rs : list rcd) (m : maps) : option maps :=
  match rs with
  | [] => Some m
  | r :: rest => match build_m r m with Some m' => build_all rest m' | None => None end
  end.

Lemma build_all_app : forall a b m,
  build_all (a ++ b) m = match build_all a m with Some m' => build_all b m' | None => None end.
Proof.
  induction a as [|r a IH]; intros b m; cbn; [reflexivity|].
  destruct (build_m r m); [apply IH|reflexivity].
Qed.

Definition with_stack (stack : list (list cond)) (o : option maps) : option st :=
  match o with
  | Some m => Some (mkSt stack (fst m) (snd m))
  | None => None
  end.

Definition tree_ok (t : ctree) : Prop :=
  forall pre ctx pm cm,
    elab_tree t (mkSt (pre :: ctx) pm cm) =
    with_stack (next_pre pre t :: ctx) (build_all (recs_tree ctx pre t) (pm, cm)).

Lemma forest_ok : forall l, Forall tree_ok l ->
  forall pre ctx pm cm,
    elab_forest l (mkSt (pre :: ctx) pm cm) =
    with_stack (fold_left next_pre l pre :: ctx) (build_all (recs_forest ctx l pre) (pm, cm)).
Proof.
  induction 1 as [|x l Hx Hl IH]; intros pre ctx pm cm; [reflexivity|].
  cbn [elab_forest fold_left]. rewrite recs_forest_cons, Hx, build_all_app.
  destruct (build_all (recs_tree ctx pre x) (pm, cm)) as [[pm' cm']|]; cbn; [|reflexivity].
  apply IH.
Qed.

Lemma build_single : forall l pl pre ctx pm cm,
  build l pl (mkSt (pre :: ctx) pm cm) =
  with_stack (pre :: ctx) (build_all [(l, pl, lits_ctx ctx)] (pm, cm)).
Proof.
  intros. unfold build, build_all, build_m, current_lits, lits_ctx, r_lits, r_lhs, r_pl.
  cbn [stk pmap cmap tl fst snd].
  destruct (sel_of_lits (flat_map level_lits (rev ctx))); [|reflexivity].
  destruct (existsb _ _); reflexivity.
Qed.

Lemma all_tree_ok : forall t, tree_ok t.
Proof.
  induction t as [p body IH|body IH|t r|m a d e] using ctree_ind2; unfold tree_ok; intros pre ctx pm cm.
  - rewrite elab_tree_With, recs_tree_With. unfold push; cbn [stk pmap cmap].
    rewrite (forest_ok body IH). cbn [next_pre].
    destruct (build_all _ _) as [[pm' cm']|]; reflexivity.
  - rewrite elab_tree_Otherwise, recs_tree_Otherwise. unfold push; cbn [stk pmap cmap].
    rewrite (forest_ok body IH). cbn [next_pre].
    destruct (build_all _ _) as [[pm' cm']|]; reflexivity.
  - cbn [elab_tree recs_tree next_pre]. apply build_single.
  - cbn [elab_tree recs_tree next_pre]. apply build_single.
Qed.

Definition recs (prog : list ctree) : list rcd := recs_forest [] prog [].

Lemma elab_forest_recs : forall prog,
  elab_forest prog init_st = with_stack [fold_left next_pre prog []] (build_all (recs prog) ([], [])).
Proof.
  intro prog. unfold init_st, recs. apply forest_ok.
  apply Forall_forall. intros t _. apply all_tree_ok.
Qed.

(* ------------------------------------------------------------------ B: records vs the tree interpreter *)
Definition holds (rho : pid -> bool) (ls : list lit) : bool := forallb (lit_holds rho) ls.

Lemma lits_ctx_cons : forall lvl ctx, lits_ctx (lvl :: ctx) = lits_ctx ctx ++ level_lits lvl.
Proof.
  intros. unfold lits_ctx. cbn [rev]. rewrite flat_map_app. cbn [flat_map].
  rewrite app_nil_r. reflexivity.
Qed.

Lemma holds_app : forall rho a b, holds rho (a ++ b) = holds rho a && holds rho b.
Proof. intros. apply forallb_app. Qed.

Lemma forallb_rev : forall (A : Type) (f : A -> bool) (l : list A), forallb f (rev l) = forallb f l.
Proof.
  induction l as [|x l IH]; cbn; [reflexivity|].
  rewrite forallb_app, IH. cbn. rewrite andb_true_r. apply andb_comm.
Qed.

Lemma holds_negs : forall rho L,
  holds rho (map (fun p => (p, true)) (rev L)) = negb (existsb rho L).
Proof.
  intros rho L. unfold holds. rewrite map_rev, forallb_rev.
  induction L as [|p L IH]; cbn; [reflexivity|].
  rewrite IH, negb_orb. unfold lit_holds. cbn. rewrite xorb_true_r. reflexivity.
Qed.

Lemma holds_level_CP : forall rho p pre,
  holds rho (level_lits (CP p :: pre)) = negb (existsb rho (since_oth pre)) && rho p.
Proof.
  intros. cbn [level_lits]. rewrite holds_app, holds_negs. unfold holds, lit_holds. cbn.
  rewrite xorb_false_r, andb_true_r. reflexivity.
Qed.

Lemma holds_level_Oth : forall rho pre,
  holds rho (level_lits (COth :: pre)) = negb (existsb rho (since_oth pre)).
Proof.
  intros. cbn [level_lits]. rewrite holds_app, holds_negs. cbn. apply andb_true_r.
Qed.

Definition proj_flag (rho : pid -> bool) (r : rcd) : asg * bool :=
  ((r_lhs r, r_pl r), holds rho (r_lits r)).

Definition treeB (rho : pid -> bool) (t : ctree) : Prop :=
  forall ctx pre en taken,
    en = holds rho (lits_ctx ctx) ->
    taken = en && existsb rho (since_oth pre) ->
    map (proj_flag rho) (recs_tree ctx pre t) = flags_tree rho en taken t.

Lemma next_taken_inv : forall rho en taken pre x,
  taken = en && existsb rho (since_oth pre) ->
  next_taken rho en taken x = en && existsb rho (since_oth (next_pre pre x)).
Proof.
  intros rho en taken pre x ->. destruct x; cbn.
  - destruct en, (existsb rho (since_oth pre)), (rho p); reflexivity.
  - symmetry. apply andb_false_r.
  - reflexivity.
  - reflexivity.
Qed.

Lemma forestB : forall rho l, Forall (treeB rho) l ->
  forall ctx pre en taken,
    en = holds rho (lits_ctx ctx) ->
    taken = en && existsb rho (since_oth pre) ->
    map (proj_flag rho) (recs_forest ctx l pre) = flags_forest rho en l taken.
Proof.
  induction 1 as [|x l Hx Hl IH]; intros ctx pre en taken Hen Htk; [reflexivity|].
  rewrite recs_forest_cons, flags_forest_cons, map_app.
  rewrite (Hx ctx pre en taken Hen Htk). f_equal.
  apply IH; [exact Hen|]. apply next_taken_inv. exact Htk.
Qed.

Lemma all_treeB : forall rho t, treeB rho t.
Proof.
  intros rho t.
  induction t as [p body IH|body IH|t r|m a d e] using ctree_ind2;
    unfold treeB; intros ctx pre en taken Hen Htk.
  - rewrite recs_tree_With, flags_tree_With. apply (forestB rho body IH).
    + rewrite lits_ctx_cons, holds_app, holds_level_CP. rewrite <- Hen. subst taken. cbn [branch_active].
      destruct en, (existsb rho (since_oth pre)), (rho p); reflexivity.
    + cbn. symmetry. apply andb_false_r.
  - rewrite recs_tree_Otherwise, flags_tree_Otherwise. apply (forestB rho body IH).
    + rewrite lits_ctx_cons, holds_app, holds_level_Oth, <- Hen. subst taken. cbn [branch_active].
      destruct en, (existsb rho (since_oth pre)); reflexivity.
    + cbn. symmetry. apply andb_false_r.
  - cbn [recs_tree flags_tree map]. unfold proj_flag, r_lhs, r_pl, r_lits. cbn [fst snd].
    rewrite <- Hen. reflexivity.
  - cbn [recs_tree flags_tree map]. unfold proj_flag, r_lhs, r_pl, r_lits. cbn [fst snd].
    rewrite <- Hen. reflexivity.
Qed.

Lemma recs_flags : forall rho prog, map (proj_flag rho) (recs prog) = spec_flags rho prog.
Proof.
  intros. unfold recs, spec_flags. apply forestB; try reflexivity.
  apply Forall_forall. intros t _. apply all_treeB.
Qed.

(* ------------------------------------------------------------------ C: records vs the syntactic path conditions *)
Definition proj_sl (r : rcd) : lhs * list lit := (r_lhs r, r_lits r).

Definition treeC (t : ctree) : Prop :=
  forall ctx pre,
    map proj_sl (recs_tree ctx pre t) = slits_tree (lits_ctx ctx) (rev (since_oth pre)) t.

Lemma next_since_inv : forall pre x,
  next_since (rev (since_oth pre)) x = rev (since_oth (next_pre pre x)).
Proof. intros pre x. destruct x; reflexivity. Qed.

Lemma forestC : forall l, Forall treeC l ->
  forall ctx pre,
    map proj_sl (recs_forest ctx l pre) = slits_forest (lits_ctx ctx) l (rev (since_oth pre)).
Proof.
  induction 1 as [|x l Hx Hl IH]; intros ctx pre; [reflexivity|].
  rewrite recs_forest_cons, slits_forest_cons, map_app, Hx, IH, next_since_inv. reflexivity.
Qed.

Lemma all_treeC : forall t, treeC t.
Proof.
  induction t as [p body IH|body IH|t r|m a d e] using ctree_ind2; unfold treeC; intros ctx pre.
  - rewrite recs_tree_With, slits_tree_With, (forestC body IH), lits_ctx_cons. reflexivity.
  - rewrite recs_tree_Otherwise, slits_tree_Otherwise, (forestC body IH), lits_ctx_cons.
    cbn [level_lits branch_lits]. rewrite app_nil_r. reflexivity.
  - reflexivity.
  - reflexivity.
Qed.

Lemma recs_slits : forall prog, map proj_sl (recs prog) = slits prog.
Proof.
  intros. unfold recs, slits. apply (forestC prog).
  apply Forall_forall. intros t _. apply all_treeC.
Qed.

(* ------------------------------------------------------------------ D: the two dictionaries *)
Lemma am_get_app : forall (V : Type) (m : amap V) k v k',
  am_get (am_app m k v) k' = if lhs_eqb k' k then am_get m k' ++ [v] else am_get m k'.
Proof.
  induction m as [|[k0 vs] m IH]; intros k v k'; cbn.
  - destruct (lhs_eqb k' k); reflexivity.
  - destruct (lhs_eqb k k0) eqn:E; cbn.
    + apply lhs_eqb_eq in E. subst k0. destruct (lhs_eqb k' k); reflexivity.
    + destruct (lhs_eqb k' k0) eqn:E2.
      * apply lhs_eqb_eq in E2. subst k'. rewrite lhs_eqb_sym, E. reflexivity.
      * apply IH.
Qed.

Lemma am_keys_app : forall (V : Type) (m : amap V) k v l,
  In l (map fst (am_app m k v)) <-> l = k \/ In l (map fst m).
Proof.
  induction m as [|[k0 vs] m IH]; intros k v l; cbn.
  - intuition.
  - destruct (lhs_eqb k k0) eqn:E; cbn.
    + apply lhs_eqb_eq in E. subst k0. intuition.
    + rewrite IH. intuition.
Qed.

Definition the_sel (ls : list lit) : bexpr :=
  match sel_of_lits ls with Some s => s | None => BVar 0 end.
Definition selpl (r : rcd) : bexpr * payload := (the_sel (r_lits r), r_pl r).
Definition same (l : lhs) (r : rcd) : bool := lhs_eqb l (r_lhs r).

Definition Rep (done : list rcd) (m : maps) : Prop :=
  (forall l, am_get (fst m) l = map selpl (filter (same l) done)) /\
  (forall l, am_get (snd m) l = map r_lits (filter (same l) done)) /\
  (forall l, In l (map fst (fst m)) <-> In l (map r_lhs done)).

(* x is earlier than y *)
Definition compat (x y : rcd) : bool :=
  negb (lhs_eqb (r_lhs x) (r_lhs y)) || syn_excl (r_lits y) (r_lits x).
Definition nonempty (ls : list lit) : bool := match ls with [] => false | _ => true end.

Fixpoint ok_all (done rs : list rcd) : bool :=
  match rs with
  | [] => true
  | r :: rest =>
      nonempty (r_lits r) && forallb (fun x => compat x r) done && ok_all (done ++ [r]) rest
  end.

Lemma existsb_ext' : forall (A : Type) (f g : A -> bool) l,
  (forall x, f x = g x) -> existsb f l = existsb g l.
Proof. intros A f g l H. induction l as [|x l IH]; cbn; [reflexivity|]. rewrite H, IH. reflexivity. Qed.

Lemma in_conflict_syn : forall a b, in_conflict a b = negb (syn_excl a b).
Proof.
  intros a b. unfold in_conflict, syn_excl. f_equal.
  apply existsb_ext'. intro la. apply existsb_ext'. intro lb.
  unfold opposite. destruct la as [pa ba], lb as [pb bb]. cbn. destruct ba, bb; reflexivity.
Qed.

Lemma sel_some : forall ls a, exists s, fold_left (fun s l => and_opt s (lit_expr l)) ls (Some a) = Some s.
Proof.
  induction ls as [|l ls IH]; intro a; cbn.
  - exists a. reflexivity.
  - apply IH.
Qed.

Lemma sel_none_iff : forall ls, sel_of_lits ls = None <-> nonempty ls = false.
Proof.
  intros [|l ls]; cbn.
  - split; reflexivity.
  - unfold sel_of_lits. cbn. destruct (sel_some ls (lit_expr l)) as [s Hs]. rewrite Hs.
    split; discriminate.
Qed.

Lemma conflict_scan : forall r done,
  existsb (in_conflict (r_lits r)) (map r_lits (filter (same (r_lhs r)) done))
  = negb (forallb (fun x => compat x r) done).
Proof.
  intros r done. induction done as [|x done IH]; cbn; [reflexivity|].
  unfold same at 1, compat at 1. rewrite (lhs_eqb_sym (r_lhs x) (r_lhs r)).
  destruct (lhs_eqb (r_lhs r) (r_lhs x)); cbn.
  - rewrite IH, in_conflict_syn, negb_andb. reflexivity.
  - exact IH.
Qed.

Lemma filter_snoc : forall (A : Type) (f : A -> bool) l x,
  filter f (l ++ [x]) = if f x then filter f l ++ [x] else filter f l.
Proof.
  intros. rewrite filter_app. cbn. destruct (f x); [reflexivity|apply app_nil_r].
Qed.

Lemma build_m_char : forall r done m, Rep done m ->
  match build_m r m with
  | Some m' => nonempty (r_lits r) && forallb (fun x => compat x r) done = true /\ Rep (done ++ [r]) m'
  | None => nonempty (r_lits r) && forallb (fun x => compat x r) done = false
  end.
Proof.
  intros r done [pm cm] (Hp & Hc & Hk). unfold build_m. cbn [fst snd] in *.
  destruct (sel_of_lits (r_lits r)) as [sel|] eqn:Es.
  - assert (Hne : nonempty (r_lits r) = true).
    { destruct (nonempty (r_lits r)) eqn:E; [reflexivity|]. apply sel_none_iff in E. congruence. }
    rewrite Hc, conflict_scan, Hne. cbn [andb].
    destruct (forallb (fun x => compat x r) done); cbn; [|reflexivity].
    split; [reflexivity|]. unfold Rep; cbn [fst snd]. repeat split.
    + intro l. rewrite am_get_app, filter_snoc, Hp.
      change (same l r) with (lhs_eqb l (r_lhs r)).
      destruct (lhs_eqb l (r_lhs r)); [|reflexivity].
      rewrite map_app. cbn [map]. f_equal. unfold selpl, the_sel. rewrite Es. reflexivity.
    + intro l. rewrite am_get_app, filter_snoc, Hc.
      change (same l r) with (lhs_eqb l (r_lhs r)).
      destruct (lhs_eqb l (r_lhs r)); [|reflexivity].
      rewrite map_app. reflexivity.
    + rewrite am_keys_app, map_app, in_app_iff, Hk. cbn. intuition.
    + rewrite am_keys_app, map_app, in_app_iff, Hk. cbn. intuition.
  - apply sel_none_iff in Es. rewrite Es. reflexivity.
Qed.

Lemma build_all_char : forall rs done m, Rep done m ->
  match build_all rs m with
  | Some m' => ok_all done rs = true /\ Rep (done ++ rs) m'
  | None => ok_all done rs = false
  end.
Proof.
  induction rs as [|r rs IH]; intros done m HR; cbn [build_all ok_all].
  - split; [reflexivity|]. rewrite app_nil_r. exact HR.
  - pose proof (build_m_char r done m HR) as Hb.
    destruct (build_m r m) as [m'|].
    + destruct Hb as [Hok HR']. rewrite Hok. cbn [andb].
      specialize (IH (done ++ [r]) m' HR').
      destruct (build_all rs m') as [m''|].
      * destruct IH as [Hok2 HR2]. split; [exact Hok2|].
        rewrite <- app_assoc in HR2. exact HR2.
      * exact IH.
    + rewrite Hb. reflexivity.
Qed.

Lemma Rep_nil : Rep [] ([], []).
Proof. unfold Rep; cbn. repeat split; intros; try reflexivity; intuition. Qed.

(* ok_all in terms of the specification's booleans *)
Fixpoint pw (rs : list rcd) : bool :=
  match rs with
  | [] => true
  | x :: r => forallb (fun y => compat x y) r && pw r
  end.

Definition cross (done rs : list rcd) : bool :=
  forallb (fun y => forallb (fun x => compat x y) done) rs.

Lemma forallb_andb : forall (A : Type) (f g : A -> bool) l,
  forallb (fun y => f y && g y) l = forallb f l && forallb g l.
Proof.
  induction l as [|x l IH]; cbn; [reflexivity|]. rewrite IH.
  destruct (f x), (g x), (forallb f l), (forallb g l); reflexivity.
Qed.

Lemma forallb_ext' : forall (A : Type) (f g : A -> bool) l,
  (forall x, f x = g x) -> forallb f l = forallb g l.
Proof. intros A f g l H. induction l as [|x l IH]; cbn; [reflexivity|]. rewrite H, IH. reflexivity. Qed.

Lemma cross_snoc : forall done r rs,
  cross (done ++ [r]) rs = cross done rs && forallb (fun y => compat r y) rs.
Proof.
  intros. unfold cross. rewrite <- forallb_andb. apply forallb_ext'. intro y.
  rewrite forallb_app. cbn. rewrite andb_true_r. reflexivity.
Qed.

Lemma ok_all_split : forall rs done,
  ok_all done rs = forallb (fun r => nonempty (r_lits r)) rs && cross done rs && pw rs.
Proof.
  induction rs as [|r rs IH]; intro done; [reflexivity|].
  cbn [ok_all forallb pw]. rewrite IH, cross_snoc. unfold cross at 2. cbn [forallb].
  fold (cross done rs).
  destruct (nonempty (r_lits r)), (forallb (fun x => compat x r) done),
    (forallb (fun r0 => nonempty (r_lits r0)) rs), (cross done rs),
    (forallb (fun y => compat r y) rs), (pw rs); reflexivity.
Qed.

Lemma cross_nil : forall rs, cross [] rs = true.
Proof. induction rs as [|r rs IH]; cbn; [reflexivity|exact IH]. Qed.

Lemma forallb_map' : forall (A B : Type) (f : B -> bool) (g : A -> B) l,
  forallb f (map g l) = forallb (fun x => f (g x)) l.
Proof. induction l as [|x l IH]; cbn; [reflexivity|]. rewrite IH. reflexivity. Qed.

Lemma guarded_recs : forall rs, guarded (map proj_sl rs) = forallb (fun r => nonempty (r_lits r)) rs.
Proof.
  intro rs. unfold guarded. rewrite forallb_map'. apply forallb_ext'. intro r.
  unfold proj_sl, nonempty. cbn. reflexivity.
Qed.

Lemma pairwise_recs : forall rs, pairwise_excl (map proj_sl rs) = pw rs.
Proof.
  induction rs as [|x rs IH]; cbn [map pairwise_excl pw]; [reflexivity|].
  rewrite IH, forallb_map'. reflexivity.
Qed.

Lemma ok_all_spec : forall prog, ok_all [] (recs prog) = spec_accepts prog.
Proof.
  intro prog. rewrite ok_all_split, cross_nil, andb_true_r.
  unfold spec_accepts. rewrite <- recs_slits, guarded_recs, pairwise_recs. reflexivity.
Qed.

(* the machine on a whole program *)
Lemma elab_forest_char : forall prog,
  match elab_forest prog init_st with
  | Some s => spec_accepts prog = true /\ Rep (recs prog) (pmap s, cmap s)
  | None => spec_accepts prog = false
  end.
Proof.
  intro prog. rewrite elab_forest_recs, <- ok_all_spec.
  pose proof (build_all_char (recs prog) [] ([], []) Rep_nil) as H.
  destruct (build_all (recs prog) ([], [])) as [[pm cm]|]; cbn; exact H.
Qed.
