(* C07 -- proofs about the elaborator model (Cond.v) against the tree interpreter (CondSpec.v). *)
From Coq Require Import ZArith List Bool Lia.
From PyRTL Require Import Front.Cond Front.CondSpec.
Import ListNotations.
Open Scope Z_scope.

(* ------------------------------------------------------------------ basics *)
Lemma wtarget_eqb_eq : forall a b, wtarget_eqb a b = true <-> a = b.
Proof.
  intros [i|i] [j|j]; cbn; split; intro H; try discriminate; try congruence;
    try (apply Z.eqb_eq in H; subst; reflexivity); injection H as ->; apply Z.eqb_refl.
Qed.

Lemma lhs_eqb_eq : forall a b, lhs_eqb a b = true <-> a = b.
Proof.
  intros [s|i] [t|j]; cbn; split; intro H; try discriminate.
  - apply wtarget_eqb_eq in H. subst. reflexivity.
  - injection H as ->. apply wtarget_eqb_eq. reflexivity.
  - apply Z.eqb_eq in H. subst. reflexivity.
  - injection H as ->. apply Z.eqb_refl.
Qed.

Lemma lhs_eqb_refl : forall a, lhs_eqb a a = true.
Proof. intro a. apply lhs_eqb_eq. reflexivity. Qed.

Lemma lhs_eqb_sym : forall a b, lhs_eqb a b = lhs_eqb b a.
Proof.
  intros a b. destruct (lhs_eqb a b) eqn:E.
  - apply lhs_eqb_eq in E. subst. symmetry. apply lhs_eqb_refl.
  - destruct (lhs_eqb b a) eqn:E2; [|reflexivity].
    apply lhs_eqb_eq in E2. subst. rewrite lhs_eqb_refl in E. discriminate.
Qed.

(* ------------------------------------------------------------------ induction on trees *)
Section ctree_ind2.
  Variable P : ctree -> Prop.
  Hypothesis HW : forall p body, Forall P body -> P (With p body).
  Hypothesis HO : forall body, Forall P body -> P (Otherwise body).
  Hypothesis HA : forall t r, P (Assign t r).
  Hypothesis HM : forall m a d e, P (MemAssign m a d e).

  Fixpoint ctree_ind2 (t : ctree) : P t :=
    match t with
    | With p body =>
        HW p body ((fix go (l : list ctree) : Forall P l :=
                      match l with
                      | [] => Forall_nil P
                      | x :: r => Forall_cons x (ctree_ind2 x) (go r)
                      end) body)
    | Otherwise body =>
        HO body ((fix go (l : list ctree) : Forall P l :=
                    match l with
                    | [] => Forall_nil P
                    | x :: r => Forall_cons x (ctree_ind2 x) (go r)
                    end) body)
    | Assign t r => HA t r
    | MemAssign m a d e => HM m a d e
    end.
End ctree_ind2.

(* ------------------------------------------------------------------ unfolding lemmas *)
Lemma elab_tree_With : forall p body s,
  elab_tree (With p body) s =
  match push (CP p) s with
  | None => None
  | Some s1 => match elab_forest body s1 with None => None | Some s2 => pop s2 end
  end.
Proof. reflexivity. Qed.

Lemma elab_tree_Otherwise : forall body s,
  elab_tree (Otherwise body) s =
  match push COth s with
  | None => None
  | Some s1 => match elab_forest body s1 with None => None | Some s2 => pop s2 end
  end.
Proof. reflexivity. Qed.

Lemma flags_tree_With : forall rho en taken p body,
  flags_tree rho en taken (With p body) =
  flags_forest rho (branch_active rho en taken (With p body)) body false.
Proof. reflexivity. Qed.

Lemma flags_tree_Otherwise : forall rho en taken body,
  flags_tree rho en taken (Otherwise body) =
  flags_forest rho (branch_active rho en taken (Otherwise body)) body false.
Proof. reflexivity. Qed.

Lemma slits_tree_With : forall ctx since p body,
  slits_tree ctx since (With p body) =
  slits_forest (branch_lits ctx since (With p body)) body [].
Proof. reflexivity. Qed.

Lemma slits_tree_Otherwise : forall ctx since body,
  slits_tree ctx since (Otherwise body) =
  slits_forest (branch_lits ctx since (Otherwise body)) body [].
Proof. reflexivity. Qed.

(* ------------------------------------------------------------------ the records the machine builds *)
Definition rcd := (lhs * payload * list lit)%type.
Definition r_lhs (r : rcd) : lhs := fst (fst r).
Definition r_pl (r : rcd) : payload := snd (fst r).
Definition r_lits (r : rcd) : list lit := snd r.

(* literals contributed by the enclosing levels (tl of the stack) *)
Definition lits_ctx (ctx : list (list cond)) : list lit := flat_map level_lits (rev ctx).

Definition next_pre (pre : list cond) (t : ctree) : list cond :=
  match t with
  | With p _ => CP p :: pre
  | Otherwise _ => COth :: pre
  | _ => pre
  end.

Definition branch_cond (t : ctree) : cond :=
  match t with With p _ => CP p | _ => COth end.

Fixpoint recs_tree (ctx : list (list cond)) (pre : list cond) (t : ctree) {struct t} : list rcd :=
  match t with
  | Assign w r => [(LW w, PVal r, lits_ctx ctx)]
  | MemAssign m a d e => [(LM m, PMem a d e, lits_ctx ctx)]
  | With p body =>
      (fix go (l : list ctree) (pr : list cond) {struct l} : list rcd :=
         match l with
         | [] => []
         | x :: r => recs_tree ((CP p :: pre) :: ctx) pr x ++ go r (next_pre pr x)
         end) body []
  | Otherwise body =>
      (fix go (l : list ctree) (pr : list cond) {struct l} : list rcd :=
         match l with
         | [] => []
         | x :: r => recs_tree ((COth :: pre) :: ctx) pr x ++ go r (next_pre pr x)
         end) body []
  end.

Definition recs_forest (ctx : list (list cond)) : list ctree -> list cond -> list rcd :=
  fix go (l : list ctree) (pr : list cond) {struct l} : list rcd :=
    match l with
    | [] => []
    | x :: r => recs_tree ctx pr x ++ go r (next_pre pr x)
    end.

Lemma recs_forest_cons : forall ctx x r pr,
  recs_forest ctx (x :: r) pr = recs_tree ctx pr x ++ recs_forest ctx r (next_pre pr x).
Proof. reflexivity. Qed.

Lemma flags_forest_cons : forall rho en x r tk,
  flags_forest rho en (x :: r) tk =
  flags_tree rho en tk x ++ flags_forest rho en r (next_taken rho en tk x).
Proof. reflexivity. Qed.

Lemma slits_forest_cons : forall ctx x r sn,
  slits_forest ctx (x :: r) sn = slits_tree ctx sn x ++ slits_forest ctx r (next_since sn x).
Proof. reflexivity. Qed.

Lemma recs_tree_With : forall ctx pre p body,
  recs_tree ctx pre (With p body) = recs_forest ((CP p :: pre) :: ctx) body [].
Proof. reflexivity. Qed.

Lemma recs_tree_Otherwise : forall ctx pre body,
  recs_tree ctx pre (Otherwise body) = recs_forest ((COth :: pre) :: ctx) body [].
Proof. reflexivity. Qed.

(* ------------------------------------------------------------------ A: machine = fold of builds *)
Definition maps := (amap (bexpr * payload) * amap (list lit))%type.

Definition build_m (r : rcd) (m : maps) : option maps :=
  match sel_of_lits (r_lits r) with
  | None => None
  | Some sel =>
      if existsb (in_conflict (r_lits r)) (am_get (snd m) (r_lhs r)) then None
      else Some (am_app (fst m) (r_lhs r) (sel, r_pl r), am_app (snd m) (r_lhs r) (r_lits r))
  end.

Fixpoint build_all (rs : list rcd) (m : maps) : option maps :=
  match rs with
  | [] => Some m
  | r :: rest => match build_m r m with Some m' => build_all rest m' | None => None end
  end.

Lemma build_all_app : forall a b m,
  build_all (a ++ b) m = match build_all a m with Some m' => build_all b m' | None => None end.
Proof.
  induction a as [|r a IH]; intros b m; cbn; [reflexivity|].
  destruct (build_m r m); [apply IH|reflexivity].
Qed.

Definition with_stack (stack : list (list cond)) (o : option maps) : option st :=
  match o with
  | Some m => Some (mkSt stack (fst m) (snd m))
  | None => None
  end.

Definition tree_ok (t : ctree) : Prop :=
  forall pre ctx pm cm,
    elab_tree t (mkSt (pre :: ctx) pm cm) =
    with_stack (next_pre pre t :: ctx) (build_all (recs_tree ctx pre t) (pm, cm)).

Lemma forest_ok : forall l, Forall tree_ok l ->
  forall pre ctx pm cm,
    elab_forest l (mkSt (pre :: ctx) pm cm) =
    with_stack (fold_left next_pre l pre :: ctx) (build_all (recs_forest ctx l pre) (pm, cm)).
Proof.
  induction 1 as [|x l Hx Hl IH]; intros pre ctx pm cm; [reflexivity|].
  cbn [elab_forest fold_left]. rewrite recs_forest_cons, Hx, build_all_app.
  destruct (build_all (recs_tree ctx pre x) (pm, cm)) as [[pm' cm']|]; cbn; [|reflexivity].
  apply IH.
Qed.

Lemma build_single : forall l pl pre ctx pm cm,
  build l pl (mkSt (pre :: ctx) pm cm) =
  with_stack (pre :: ctx) (build_all [(l, pl, lits_ctx ctx)] (pm, cm)).
Proof.
  intros. unfold build, build_all, build_m, current_lits, lits_ctx, r_lits, r_lhs, r_pl.
  cbn [stk pmap cmap tl fst snd].
  destruct (sel_of_lits (flat_map level_lits (rev ctx))); [|reflexivity].
  destruct (existsb _ _); reflexivity.
Qed.

Lemma all_tree_ok : forall t, tree_ok t.
Proof.
  induction t as [p body IH|body IH|t r|m a d e] using ctree_ind2; unfold tree_ok; intros pre ctx pm cm.
  - rewrite elab_tree_With, recs_tree_With. unfold push; cbn [stk pmap cmap].
    rewrite (forest_ok body IH). cbn [next_pre].
    destruct (build_all _ _) as [[pm' cm']|]; reflexivity.
  - rewrite elab_tree_Otherwise, recs_tree_Otherwise. unfold push; cbn [stk pmap cmap].
    rewrite (forest_ok body IH). cbn [next_pre].
    destruct (build_all _ _) as [[pm' cm']|]; reflexivity.
  - cbn [elab_tree recs_tree next_pre]. apply build_single.
  - cbn [elab_tree recs_tree next_pre]. apply build_single.
Qed.

Definition recs (prog : list ctree) : list rcd := recs_forest [] prog [].

Lemma elab_forest_recs : forall prog,
  elab_forest prog init_st = with_stack [fold_left next_pre prog []] (build_all (recs prog) ([], [])).
Proof.
  intro prog. unfold init_st, recs. apply forest_ok.
  apply Forall_forall. intros t _. apply all_tree_ok.
Qed.

(* ------------------------------------------------------------------ B: records vs the tree interpreter *)
Definition holds (rho : pid -> bool) (ls : list lit) : bool := forallb (lit_holds rho) ls.

Lemma lits_ctx_cons : forall lvl ctx, lits_ctx (lvl :: ctx) = lits_ctx ctx ++ level_lits lvl.
Proof.
  intros. unfold lits_ctx. cbn [rev]. rewrite flat_map_app. cbn [flat_map].
  rewrite app_nil_r. reflexivity.
Qed.

Lemma holds_app : forall rho a b, holds rho (a ++ b) = holds rho a && holds rho b.
Proof. intros. apply forallb_app. Qed.

Lemma forallb_rev : forall (A : Type) (f : A -> bool) (l : list A), forallb f (rev l) = forallb f l.
Proof.
  induction l as [|x l IH]; cbn; [reflexivity|].
  rewrite forallb_app, IH. cbn. rewrite andb_true_r. apply andb_comm.
Qed.

Lemma holds_negs : forall rho L,
  holds rho (map (fun p => (p, true)) (rev L)) = negb (existsb rho L).
Proof.
  intros rho L. unfold holds. rewrite map_rev, forallb_rev.
  induction L as [|p L IH]; cbn; [reflexivity|].
  rewrite IH, negb_orb. unfold lit_holds. cbn. rewrite xorb_true_r. reflexivity.
Qed.

Lemma holds_level_CP : forall rho p pre,
  holds rho (level_lits (CP p :: pre)) = negb (existsb rho (since_oth pre)) && rho p.
Proof.
  intros. cbn [level_lits]. rewrite holds_app, holds_negs. unfold holds, lit_holds. cbn.
  rewrite xorb_false_r, andb_true_r. reflexivity.
Qed.

Lemma holds_level_Oth : forall rho pre,
  holds rho (level_lits (COth :: pre)) = negb (existsb rho (since_oth pre)).
Proof.
  intros. cbn [level_lits]. rewrite holds_app, holds_negs. cbn. apply andb_true_r.
Qed.

Definition proj_flag (rho : pid -> bool) (r : rcd) : asg * bool :=
  ((r_lhs r, r_pl r), holds rho (r_lits r)).

Definition treeB (rho : pid -> bool) (t : ctree) : Prop :=
  forall ctx pre en taken,
    en = holds rho (lits_ctx ctx) ->
    taken = en && existsb rho (since_oth pre) ->
    map (proj_flag rho) (recs_tree ctx pre t) = flags_tree rho en taken t.

Lemma next_taken_inv : forall rho en taken pre x,
  taken = en && existsb rho (since_oth pre) ->
  next_taken rho en taken x = en && existsb rho (since_oth (next_pre pre x)).
Proof.
  intros rho en taken pre x ->. destruct x; cbn.
  - destruct en, (existsb rho (since_oth pre)), (rho p); reflexivity.
  - symmetry. apply andb_false_r.
  - reflexivity.
  - reflexivity.
Qed.

Lemma forestB : forall rho l, Forall (treeB rho) l ->
  forall ctx pre en taken,
    en = holds rho (lits_ctx ctx) ->
    taken = en && existsb rho (since_oth pre) ->
    map (proj_flag rho) (recs_forest ctx l pre) = flags_forest rho en l taken.
Proof.
  induction 1 as [|x l Hx Hl IH]; intros ctx pre en taken Hen Htk; [reflexivity|].
  rewrite recs_forest_cons, flags_forest_cons, map_app.
  rewrite (Hx ctx pre en taken Hen Htk). f_equal.
  apply IH; [exact Hen|]. apply next_taken_inv. exact Htk.
Qed.

Lemma all_treeB : forall rho t, treeB rho t.
Proof.
  intros rho t.
  induction t as [p body IH|body IH|t r|m a d e] using ctree_ind2;
    unfold treeB; intros ctx pre en taken Hen Htk.
  - rewrite recs_tree_With, flags_tree_With. apply (forestB rho body IH).
    + rewrite lits_ctx_cons, holds_app, holds_level_CP. rewrite <- Hen. subst taken. cbn [branch_active].
      destruct en, (existsb rho (since_oth pre)), (rho p); reflexivity.
    + cbn. symmetry. apply andb_false_r.
  - rewrite recs_tree_Otherwise, flags_tree_Otherwise. apply (forestB rho body IH).
    + rewrite lits_ctx_cons, holds_app, holds_level_Oth, <- Hen. subst taken. cbn [branch_active].
      destruct en, (existsb rho (since_oth pre)); reflexivity.
    + cbn. symmetry. apply andb_false_r.
  - cbn [recs_tree flags_tree map]. unfold proj_flag, r_lhs, r_pl, r_lits. cbn [fst snd].
    rewrite <- Hen. reflexivity.
  - cbn [recs_tree flags_tree map]. unfold proj_flag, r_lhs, r_pl, r_lits. cbn [fst snd].
    rewrite <- Hen. reflexivity.
Qed.

Lemma recs_flags : forall rho prog, map (proj_flag rho) (recs prog) = spec_flags rho prog.
Proof.
  intros. unfold recs, spec_flags. apply forestB; try reflexivity.
  apply Forall_forall. intros t _. apply all_treeB.
Qed.

(* ------------------------------------------------------------------ C: records vs the syntactic path conditions *)
Definition proj_sl (r : rcd) : lhs * list lit := (r_lhs r, r_lits r).

Definition treeC (t : ctree) : Prop :=
  forall ctx pre,
    map proj_sl (recs_tree ctx pre t) = slits_tree (lits_ctx ctx) (rev (since_oth pre)) t.

Lemma next_since_inv : forall pre x,
  next_since (rev (since_oth pre)) x = rev (since_oth (next_pre pre x)).
Proof. intros pre x. destruct x; reflexivity. Qed.

Lemma forestC : forall l, Forall treeC l ->
  forall ctx pre,
    map proj_sl (recs_forest ctx l pre) = slits_forest (lits_ctx ctx) l (rev (since_oth pre)).
Proof.
  induction 1 as [|x l Hx Hl IH]; intros ctx pre; [reflexivity|].
  rewrite recs_forest_cons, slits_forest_cons, map_app, Hx, IH, next_since_inv. reflexivity.
Qed.

Lemma all_treeC : forall t, treeC t.
Proof.
  induction t as [p body IH|body IH|t r|m a d e] using ctree_ind2; unfold treeC; intros ctx pre.
  - rewrite recs_tree_With, slits_tree_With, (forestC body IH), lits_ctx_cons. reflexivity.
  - rewrite recs_tree_Otherwise, slits_tree_Otherwise, (forestC body IH), lits_ctx_cons.
    cbn [level_lits branch_lits]. rewrite app_nil_r. reflexivity.
  - reflexivity.
  - reflexivity.
Qed.

Lemma recs_slits : forall prog, map proj_sl (recs prog) = slits prog.
Proof.
  intros. unfold recs, slits. apply (forestC prog).
  apply Forall_forall. intros t _. apply all_treeC.
Qed.

(* ------------------------------------------------------------------ D: the two dictionaries *)
Lemma am_get_app : forall (V : Type) (m : amap V) k v k',
  am_get (am_app m k v) k' = if lhs_eqb k' k then am_get m k' ++ [v] else am_get m k'.
Proof.
  induction m as [|[k0 vs] m IH]; intros k v k'; cbn.
  - destruct (lhs_eqb k' k); reflexivity.
  - destruct (lhs_eqb k k0) eqn:E; cbn.
    + apply lhs_eqb_eq in E. subst k0. destruct (lhs_eqb k' k); reflexivity.
    + destruct (lhs_eqb k' k0) eqn:E2.
      * apply lhs_eqb_eq in E2. subst k'. rewrite lhs_eqb_sym, E. reflexivity.
      * apply IH.
Qed.

Lemma am_keys_app : forall (V : Type) (m : amap V) k v l,
  In l (map fst (am_app m k v)) <-> l = k \/ In l (map fst m).
Proof.
  induction m as [|[k0 vs] m IH]; intros k v l; cbn.
  - intuition.
  - destruct (lhs_eqb k k0) eqn:E; cbn.
    + apply lhs_eqb_eq in E. subst k0. intuition.
    + rewrite IH. intuition.
Qed.

Definition the_sel (ls : list lit) : bexpr :=
  match sel_of_lits ls with Some s => s | None => BVar 0 end.
Definition selpl (r : rcd) : bexpr * payload := (the_sel (r_lits r), r_pl r).
Definition same (l : lhs) (r : rcd) : bool := lhs_eqb l (r_lhs r).

Definition Rep (done : list rcd) (m : maps) : Prop :=
  (forall l, am_get (fst m) l = map selpl (filter (same l) done)) /\
  (forall l, am_get (snd m) l = map r_lits (filter (same l) done)) /\
  (forall l, In l (map fst (fst m)) <-> In l (map r_lhs done)).

(* x is earlier than y *)
Definition compat (x y : rcd) : bool :=
  negb (lhs_eqb (r_lhs x) (r_lhs y)) || syn_excl (r_lits y) (r_lits x).
Definition nonempty (ls : list lit) : bool := match ls with [] => false | _ => true end.

Fixpoint ok_all (done rs : list rcd) : bool :=
  match rs with
  | [] => true
  | r :: rest =>
      nonempty (r_lits r) && forallb (fun x => compat x r) done && ok_all (done ++ [r]) rest
  end.

Lemma existsb_ext' : forall (A : Type) (f g : A -> bool) l,
  (forall x, f x = g x) -> existsb f l = existsb g l.
Proof. intros A f g l H. induction l as [|x l IH]; cbn; [reflexivity|]. rewrite H, IH. reflexivity. Qed.

Lemma in_conflict_syn : forall a b, in_conflict a b = negb (syn_excl a b).
Proof.
  intros a b. unfold in_conflict, syn_excl. f_equal.
  apply existsb_ext'. intro la. apply existsb_ext'. intro lb.
  unfold opposite. destruct la as [pa ba], lb as [pb bb]. cbn. destruct ba, bb; reflexivity.
Qed.

Lemma sel_some : forall ls a, exists s, fold_left (fun s l => and_opt s (lit_expr l)) ls (Some a) = Some s.
Proof.
  induction ls as [|l ls IH]; intro a; cbn.
  - exists a. reflexivity.
  - apply IH.
Qed.

Lemma sel_none_iff : forall ls, sel_of_lits ls = None <-> nonempty ls = false.
Proof.
  intros [|l ls]; cbn.
  - split; reflexivity.
  - unfold sel_of_lits. cbn. destruct (sel_some ls (lit_expr l)) as [s Hs]. rewrite Hs.
    split; discriminate.
Qed.

Lemma conflict_scan : forall r done,
  existsb (in_conflict (r_lits r)) (map r_lits (filter (same (r_lhs r)) done))
  = negb (forallb (fun x => compat x r) done).
Proof.
  intros r done. induction done as [|x done IH]; cbn; [reflexivity|].
  unfold same at 1, compat at 1. rewrite (lhs_eqb_sym (r_lhs x) (r_lhs r)).
  destruct (lhs_eqb (r_lhs r) (r_lhs x)); cbn.
  - rewrite IH, in_conflict_syn, negb_andb. reflexivity.
  - exact IH.
Qed.

Lemma filter_snoc : forall (A : Type) (f : A -> bool) l x,
  filter f (l ++ [x]) = if f x then filter f l ++ [x] else filter f l.
Proof.
  intros. rewrite filter_app. cbn. destruct (f x); [reflexivity|apply app_nil_r].
Qed.

Lemma build_m_char : forall r done m, Rep done m ->
  match build_m r m with
  | Some m' => nonempty (r_lits r) && forallb (fun x => compat x r) done = true /\ Rep (done ++ [r]) m'
  | None => nonempty (r_lits r) && forallb (fun x => compat x r) done = false
  end.
Proof.
  intros r done [pm cm] (Hp & Hc & Hk). unfold build_m. cbn [fst snd] in *.
  destruct (sel_of_lits (r_lits r)) as [sel|] eqn:Es.
  - assert (Hne : nonempty (r_lits r) = true).
    { destruct (nonempty (r_lits r)) eqn:E; [reflexivity|]. apply sel_none_iff in E. congruence. }
    rewrite Hc, conflict_scan, Hne. cbn [andb].
    destruct (forallb (fun x => compat x r) done); cbn; [|reflexivity].
    split; [reflexivity|]. unfold Rep; cbn [fst snd]. repeat split.
    + intro l. rewrite am_get_app, filter_snoc, Hp.
      change (same l r) with (lhs_eqb l (r_lhs r)).
      destruct (lhs_eqb l (r_lhs r)); [|reflexivity].
      rewrite map_app. cbn [map]. f_equal. unfold selpl, the_sel. rewrite Es. reflexivity.
    + intro l. rewrite am_get_app, filter_snoc, Hc.
      change (same l r) with (lhs_eqb l (r_lhs r)).
      destruct (lhs_eqb l (r_lhs r)); [|reflexivity].
      rewrite map_app. reflexivity.
    + rewrite am_keys_app, map_app, in_app_iff, Hk. cbn. intuition.
    + rewrite am_keys_app, map_app, in_app_iff, Hk. cbn. intuition.
  - apply sel_none_iff in Es. rewrite Es. reflexivity.
Qed.

Lemma build_all_char : forall rs done m, Rep done m ->
  match build_all rs m with
  | Some m' => ok_all done rs = true /\ Rep (done ++ rs) m'
  | None => ok_all done rs = false
  end.
Proof.
  induction rs as [|r rs IH]; intros done m HR; cbn [build_all ok_all].
  - split; [reflexivity|]. rewrite app_nil_r. exact HR.
  - pose proof (build_m_char r done m HR) as Hb.
    destruct (build_m r m) as [m'|].
    + destruct Hb as [Hok HR']. rewrite Hok. cbn [andb].
      specialize (IH (done ++ [r]) m' HR').
      destruct (build_all rs m') as [m''|].
      * destruct IH as [Hok2 HR2]. split; [exact Hok2|].
        rewrite <- app_assoc in HR2. exact HR2.
      * exact IH.
    + rewrite Hb. reflexivity.
Qed.

Lemma Rep_nil : Rep [] ([], []).
Proof. unfold Rep; cbn. repeat split; intros; try reflexivity; intuition. Qed.

(* ok_all in terms of the specification's booleans *)
Fixpoint pw (rs : list rcd) : bool :=
  match rs with
  | [] => true
  | x :: r => forallb (fun y => compat x y) r && pw r
  end.

Definition cross (done rs : list rcd) : bool :=
  forallb (fun y => forallb (fun x => compat x y) done) rs.

Lemma forallb_andb : forall (A : Type) (f g : A -> bool) l,
  forallb (fun y => f y && g y) l = forallb f l && forallb g l.
Proof.
  induction l as [|x l IH]; cbn; [reflexivity|]. rewrite IH.
  destruct (f x), (g x), (forallb f l), (forallb g l); reflexivity.
Qed.

Lemma forallb_ext' : forall (A : Type) (f g : A -> bool) l,
  (forall x, f x = g x) -> forallb f l = forallb g l.
Proof. intros A f g l H. induction l as [|x l IH]; cbn; [reflexivity|]. rewrite H, IH. reflexivity. Qed.

Lemma cross_snoc : forall done r rs,
  cross (done ++ [r]) rs = cross done rs && forallb (fun y => compat r y) rs.
Proof.
  intros. unfold cross. rewrite <- forallb_andb. apply forallb_ext'. intro y.
  rewrite forallb_app. cbn. rewrite andb_true_r. reflexivity.
Qed.

Lemma ok_all_split : forall rs done,
  ok_all done rs = forallb (fun r => nonempty (r_lits r)) rs && cross done rs && pw rs.
Proof.
  induction rs as [|r rs IH]; intro done; [reflexivity|].
  cbn [ok_all forallb pw]. rewrite IH, cross_snoc. unfold cross at 2. cbn [forallb].
  fold (cross done rs).
  destruct (nonempty (r_lits r)), (forallb (fun x => compat x r) done),
    (forallb (fun r0 => nonempty (r_lits r0)) rs), (cross done rs),
    (forallb (fun y => compat r y) rs), (pw rs); reflexivity.
Qed.

Lemma cross_nil : forall rs, cross [] rs = true.
Proof. induction rs as [|r rs IH]; cbn; [reflexivity|exact IH]. Qed.

Lemma forallb_map' : forall (A B : Type) (f : B -> bool) (g : A -> B) l,
  forallb f (map g l) = forallb (fun x => f (g x)) l.
Proof. induction l as [|x l IH]; cbn; [reflexivity|]. rewrite IH. reflexivity. Qed.

Lemma guarded_recs : forall rs, guarded (map proj_sl rs) = forallb (fun r => nonempty (r_lits r)) rs.
Proof.
  intro rs. unfold guarded. rewrite forallb_map'. apply forallb_ext'. intro r.
  unfold proj_sl, nonempty. cbn. reflexivity.
Qed.

Lemma pairwise_recs : forall rs, pairwise_excl (map proj_sl rs) = pw rs.
Proof.
  induction rs as [|x rs IH]; cbn [map pairwise_excl pw]; [reflexivity|].
  rewrite IH, forallb_map'. reflexivity.
Qed.

Lemma ok_all_spec : forall prog, ok_all [] (recs prog) = spec_accepts prog.
Proof.
  intro prog. rewrite ok_all_split, cross_nil, andb_true_r.
  unfold spec_accepts. rewrite <- recs_slits, guarded_recs, pairwise_recs. reflexivity.
Qed.

(* the machine on a whole program *)
Lemma elab_forest_char : forall prog,
  match elab_forest prog init_st with
  | Some s => spec_accepts prog = true /\ Rep (recs prog) (pmap s, cmap s)
  | None => spec_accepts prog = false
  end.
Proof.
  intro prog. rewrite elab_forest_recs, <- ok_all_spec.
  pose proof (build_all_char (recs prog) [] ([], []) Rep_nil) as H.
  destruct (build_all (recs prog) ([], [])) as [[pm cm]|]; cbn; exact H.
Qed.

(* ------------------------------------------------------------------ E: the theorems *)
Lemma lit_expr_holds : forall rho l, beval rho (lit_expr l) = lit_holds rho l.
Proof.
  intros rho [p b]. unfold lit_expr, lit_holds. cbn. destruct b; cbn.
  - rewrite xorb_true_r. reflexivity.
  - rewrite xorb_false_r. reflexivity.
Qed.

Definition beval_o (rho : pid -> bool) (o : option bexpr) : bool :=
  match o with Some b => beval rho b | None => true end.

Lemma sel_fold_holds : forall rho ls acc,
  beval_o rho (fold_left (fun s l => and_opt s (lit_expr l)) ls acc) = beval_o rho acc && holds rho ls.
Proof.
  induction ls as [|l ls IH]; intro acc; cbn.
  - rewrite andb_true_r. reflexivity.
  - rewrite IH. destruct acc; cbn; rewrite lit_expr_holds; [rewrite andb_assoc|]; reflexivity.
Qed.

(* the select wire _current_select returns evaluates to the conjunction of its pred_set *)
Lemma sel_of_lits_holds : forall rho ls s, sel_of_lits ls = Some s -> beval rho s = holds rho ls.
Proof.
  intros rho ls s H. pose proof (sel_fold_holds rho ls None) as H1.
  unfold sel_of_lits in H. rewrite H in H1. exact H1.
Qed.

Lemma the_sel_holds : forall rho ls, nonempty ls = true -> beval rho (the_sel ls) = holds rho ls.
Proof.
  intros rho ls Hne. unfold the_sel. destruct (sel_of_lits ls) eqn:E.
  - apply sel_of_lits_holds. exact E.
  - apply sel_none_iff in E. congruence.
Qed.

Lemma filter_map' : forall (A B : Type) (f : B -> bool) (g : A -> B) l,
  filter f (map g l) = map g (filter (fun x => f (g x)) l).
Proof.
  induction l as [|x l IH]; cbn; [reflexivity|]. rewrite IH. destruct (f (g x)); reflexivity.
Qed.

Lemma filter_filter' : forall (A : Type) (f g : A -> bool) l,
  filter f (filter g l) = filter (fun x => f x && g x) l.
Proof.
  induction l as [|x l IH]; cbn; [reflexivity|].
  destruct (g x); cbn; rewrite IH; [|rewrite andb_false_r; reflexivity].
  rewrite andb_true_r. reflexivity.
Qed.

Lemma accepts_facts : forall prog, spec_accepts prog = true ->
  forallb (fun r => nonempty (r_lits r)) (recs prog) = true /\ pw (recs prog) = true.
Proof.
  intros prog H. rewrite <- ok_all_spec, ok_all_split, cross_nil, andb_true_r in H.
  apply andb_true_iff in H. exact H.
Qed.

(* Theorem 1: every recorded select condition is the activity of its branch *)
Theorem select_is_activity : forall prog s, elab_forest prog init_st = Some s ->
  forall rho l,
    map (fun sp => (snd sp, beval rho (fst sp))) (am_get (pmap s) l) = flags_for rho prog l.
Proof.
  intros prog s Hs rho l. pose proof (elab_forest_char prog) as H. rewrite Hs in H.
  destruct H as [Hacc (Hp & _ & _)]. cbn [fst] in Hp. rewrite Hp.
  destruct (accepts_facts prog Hacc) as [Hne _].
  unfold flags_for. rewrite <- recs_flags, filter_map', !map_map.
  change (fun x : rcd => lhs_eqb l (fst (fst (proj_flag rho x)))) with (same l).
  apply map_ext_in. intros r Hr. apply filter_In in Hr. destruct Hr as [Hr _].
  cbn. f_equal. apply the_sel_holds.
  rewrite forallb_forall in Hne. apply Hne. exact Hr.
Qed.

Lemma syn_excl_sound : forall rho a b,
  syn_excl a b = true -> holds rho a = true -> holds rho b = true -> False.
Proof.
  intros rho a b H Ha Hb. unfold syn_excl in H.
  apply existsb_exists in H. destruct H as [[pa ba] [Hina H]].
  apply existsb_exists in H. destruct H as [[pb bb] [Hinb H]].
  cbn in H. apply andb_true_iff in H. destruct H as [Hp Hx]. apply Z.eqb_eq in Hp. subst pb.
  unfold holds in Ha, Hb. rewrite forallb_forall in Ha, Hb.
  specialize (Ha _ Hina). specialize (Hb _ Hinb). unfold lit_holds in Ha, Hb. cbn in Ha, Hb.
  destruct (rho pa), ba, bb; discriminate.
Qed.

Lemma filter_nil_iff : forall (A : Type) (f : A -> bool) l,
  filter f l = [] <-> (forall y, In y l -> f y = false).
Proof.
  induction l as [|x l IH]; cbn.
  - split; [intros _ y []|reflexivity].
  - destruct (f x) eqn:E.
    + split; [discriminate|]. intro H. rewrite (H x) in E; [discriminate|left; reflexivity].
    + rewrite IH. split.
      * intros H y [<-|Hy]; [exact E|apply H; exact Hy].
      * intros H y Hy. apply H. right. exact Hy.
Qed.

Lemma pw_unique : forall rho l rs, pw rs = true ->
  (length (filter (fun r => holds rho (r_lits r) && same l r) rs) <= 1)%nat.
Proof.
  intros rho l. induction rs as [|x rs IH]; intro H; cbn; [lia|].
  cbn in H. apply andb_true_iff in H. destruct H as [Hx Hrs].
  destruct (holds rho (r_lits x) && same l x) eqn:Ex; [|apply IH; exact Hrs].
  apply andb_true_iff in Ex. destruct Ex as [Hhx Hsx].
  assert (Hnil : filter (fun r => holds rho (r_lits r) && same l r) rs = []).
  { apply filter_nil_iff. intros y Hy.
    destruct (holds rho (r_lits y) && same l y) eqn:Ey; [|reflexivity]. exfalso.
    apply andb_true_iff in Ey. destruct Ey as [Hhy Hsy].
    rewrite forallb_forall in Hx. specialize (Hx y Hy). unfold compat in Hx.
    unfold same in Hsx, Hsy. apply lhs_eqb_eq in Hsx, Hsy. rewrite <- Hsx, <- Hsy in Hx.
    rewrite lhs_eqb_refl in Hx. cbn in Hx.
    exact (syn_excl_sound rho _ _ Hx Hhy Hhx). }
  rewrite Hnil. cbn. lia.
Qed.

Lemma active_for_recs : forall rho prog l,
  active_for rho prog l
  = map r_pl (filter (fun r => holds rho (r_lits r) && same l r) (recs prog)).
Proof.
  intros. unfold active_for. rewrite <- recs_flags, filter_map', map_map. reflexivity.
Qed.

(* Theorem 2: soundness of the syntactic conflict check *)
Theorem accepted_exclusive : forall prog, spec_accepts prog = true ->
  forall rho l, (length (active_for rho prog l) <= 1)%nat.
Proof.
  intros prog H rho l. rewrite active_for_recs, map_length.
  apply pw_unique. apply (accepts_facts prog H).
Qed.

(* Theorem 3: the model raises exactly when the syntactic criterion fails *)
Theorem elab_none_iff : forall prog d, elab prog d = None <-> spec_accepts prog = false.
Proof.
  intros prog d. unfold elab. pose proof (elab_forest_char prog) as H.
  destruct (elab_forest prog init_st) as [s|].
  - destruct H as [H _]. rewrite H. split; discriminate.
  - rewrite H. split; reflexivity.
Qed.

(* ---- the select chains of _finalize *)
Definition chain (g : payload -> vexpr) (rs : list (bexpr * payload)) (dflt : vexpr) : vexpr :=
  fold_left (fun acc pr => VSel (fst pr) (g (snd pr)) acc) rs dflt.

Lemma chain_none : forall E g rs dflt,
  (forall x, In x rs -> beval (e_pred E) (fst x) = false) ->
  veval E (chain g rs dflt) = veval E dflt.
Proof.
  intros E g. induction rs as [|x rs IH]; intros dflt H; [reflexivity|].
  unfold chain. cbn [fold_left]. fold (chain g rs (VSel (fst x) (g (snd x)) dflt)).
  rewrite IH; [|intros y Hy; apply H; right; exact Hy].
  cbn [veval]. rewrite (H x); [reflexivity|left; reflexivity].
Qed.

Lemma chain_one : forall E g a x b dflt,
  beval (e_pred E) (fst x) = true ->
  (forall y, In y b -> beval (e_pred E) (fst y) = false) ->
  veval E (chain g (a ++ x :: b) dflt) = veval E (g (snd x)).
Proof.
  intros E g a x b dflt Hx Hb. unfold chain. rewrite fold_left_app. cbn [fold_left].
  fold (chain g b (VSel (fst x) (g (snd x)) (fold_left (fun acc pr => VSel (fst pr) (g (snd pr)) acc) a dflt))).
  rewrite chain_none; [|exact Hb]. cbn [veval]. rewrite Hx. reflexivity.
Qed.

Lemma filter_single : forall (A : Type) (f : A -> bool) l x,
  filter f l = [x] ->
  exists a b, l = a ++ x :: b /\ (forall y, In y a -> f y = false) /\ f x = true
              /\ (forall y, In y b -> f y = false).
Proof.
  induction l as [|y l IH]; intros x H; cbn in H; [discriminate|].
  destruct (f y) eqn:E.
  - injection H as -> Hnil. exists [], l. repeat split.
    + intros z [].
    + exact E.
    + apply filter_nil_iff. exact Hnil.
  - destruct (IH x H) as (a & b & -> & Ha & Hx & Hb).
    exists (y :: a), b. repeat split.
    + intros z [<-|Hz]; [exact E|apply Ha; exact Hz].
    + exact Hx.
    + exact Hb.
Qed.

(* kinds: Assign records carry PVal, MemAssign records carry PMem *)
Definition kind_ok (r : rcd) : Prop :=
  match r_lhs r, r_pl r with
  | LW _, PVal _ => True
  | LM _, PMem _ _ _ => True
  | _, _ => False
  end.

Lemma recs_kind_tree : forall t ctx pre, Forall kind_ok (recs_tree ctx pre t).
Proof.
  induction t as [p body IH|body IH|t r|m a d e] using ctree_ind2; intros ctx pre.
  - rewrite recs_tree_With. generalize (@nil cond) as pr.
    induction IH as [|x l Hx Hl IHl]; intro pr; [constructor|].
    rewrite recs_forest_cons. apply Forall_app. split; [apply Hx|apply IHl].
  - rewrite recs_tree_Otherwise. generalize (@nil cond) as pr.
    induction IH as [|x l Hx Hl IHl]; intro pr; [constructor|].
    rewrite recs_forest_cons. apply Forall_app. split; [apply Hx|apply IHl].
  - repeat constructor.
  - repeat constructor.
Qed.

Lemma recs_kind : forall prog, Forall kind_ok (recs prog).
Proof.
  intro prog. unfold recs. generalize (@nil cond) as pr.
  induction prog as [|x l IH]; intro pr; [constructor|].
  rewrite recs_forest_cons. apply Forall_app. split; [apply recs_kind_tree|apply IH].
Qed.

Lemma res_get_finalize : forall d pm l, In l (map fst pm) ->
  res_get (map (fin_one d) pm) l = Some (snd (fin_one d (l, am_get pm l))).
Proof.
  intros d. induction pm as [|[k vs] pm IH]; intros l Hin; [destruct Hin|].
  cbn [map res_get am_get].
  assert (Hk : fst (fin_one d (k, vs)) = k) by (destruct k; reflexivity).
  destruct (fin_one d (k, vs)) as [k' e] eqn:Ef. cbn in Hk. subst k'.
  destruct (lhs_eqb l k) eqn:E.
  - apply lhs_eqb_eq in E. subst l. rewrite Ef. reflexivity.
  - apply IH. destruct Hin as [Hin|Hin]; [|exact Hin].
    cbn in Hin. subst l. rewrite lhs_eqb_refl in E. discriminate.
Qed.

Lemma slits_keys : forall prog, map fst (slits prog) = map r_lhs (recs prog).
Proof. intro prog. rewrite <- recs_slits, map_map. reflexivity. Qed.

Lemma default_expr_value : forall E d t, veval E (default_expr d t) = default_value E d t.
Proof.
  intros E d t. unfold default_expr, default_value.
  destruct (dflt_get d t); [reflexivity|]. destruct t; reflexivity.
Qed.

(* common set-up for the value theorems *)
Lemma accepted_setup : forall prog d res, elab prog d = Some res ->
  exists s, res = finalize d s /\ spec_accepts prog = true /\
    (forall l, am_get (pmap s) l = map selpl (filter (same l) (recs prog))) /\
    (forall l, In l (map fst (pmap s)) <-> In l (map fst (slits prog))).
Proof.
  intros prog d res H. unfold elab in H. pose proof (elab_forest_char prog) as Hc.
  destruct (elab_forest prog init_st) as [s|]; [|discriminate].
  injection H as <-. destruct Hc as [Hacc (Hp & _ & Hk)]. cbn [fst] in Hp, Hk.
  exists s. repeat split; try assumption.
  - rewrite slits_keys. apply Hk.
  - rewrite slits_keys. apply Hk.
Qed.

(* evaluation of a chain over the records of one target *)
Lemma chain_records : forall E g prog l X dflt,
  spec_accepts prog = true ->
  X = filter (same l) (recs prog) ->
  match active_for (e_pred E) prog l with
  | [] => veval E (chain g (map selpl X) dflt) = veval E dflt
  | [pl] => veval E (chain g (map selpl X) dflt) = veval E (g pl)
  | _ => False
  end.
Proof.
  intros E g prog l X dflt Hacc HX.
  destruct (accepts_facts prog Hacc) as [Hne Hpw].
  pose proof (pw_unique (e_pred E) l (recs prog) Hpw) as Hlen.
  rewrite active_for_recs.
  assert (Hf : filter (fun r => holds (e_pred E) (r_lits r) && same l r) (recs prog)
               = filter (fun r => holds (e_pred E) (r_lits r)) X).
  { subst X. rewrite filter_filter'. reflexivity. }
  rewrite Hf in *.
  assert (Hact : forall r, In r X ->
            beval (e_pred E) (fst (selpl r)) = holds (e_pred E) (r_lits r)).
  { intros r Hr. subst X. apply filter_In in Hr. destruct Hr as [Hr _]. cbn.
    apply the_sel_holds. rewrite forallb_forall in Hne. apply Hne. exact Hr. }
  destruct (filter (fun r => holds (e_pred E) (r_lits r)) X) as [|r [|r2 rest]] eqn:EF.
  - cbn. apply chain_none. intros x Hx. apply in_map_iff in Hx. destruct Hx as [r [<- Hr]].
    rewrite Hact by exact Hr. apply (proj1 (filter_nil_iff _ _ X) EF). exact Hr.
  - cbn. destruct (filter_single _ _ _ _ EF) as (a & b & HXab & Ha & Hr & Hb).
    rewrite HXab, map_app. cbn [map]. rewrite chain_one; [reflexivity| |].
    + rewrite Hact; [exact Hr|]. rewrite HXab. apply in_or_app. right. left. reflexivity.
    + intros y Hy. apply in_map_iff in Hy. destruct Hy as [r' [<- Hr']].
      rewrite Hact; [apply Hb; exact Hr'|]. rewrite HXab. apply in_or_app. right. right. exact Hr'.
  - cbn in Hlen. lia.
Qed.

(* Theorem 4a: wires and registers *)
Theorem value_wire : forall prog d res, elab prog d = Some res ->
  forall t, In (LW t) (map fst (slits prog)) ->
  exists e, res_get res (LW t) = Some (FVal e) /\
            forall E, Some (veval E e) = spec_value E d prog t.
Proof.
  intros prog d res H t Hin.
  destruct (accepted_setup prog d res H) as (s & -> & Hacc & Hp & Hk).
  exists (fin_val (default_expr d t) (am_get (pmap s) (LW t))). split.
  - unfold finalize. rewrite res_get_finalize; [reflexivity|]. apply Hk. exact Hin.
  - intro E. rewrite Hp.
    pose proof (chain_records E pl_val prog (LW t) _ (default_expr d t) Hacc eq_refl) as Hc.
    unfold spec_value. fold (chain pl_val (map selpl (filter (same (LW t)) (recs prog))) (default_expr d t)).
    pose proof (active_for_recs (e_pred E) prog (LW t)) as Hact.
    destruct (active_for (e_pred E) prog (LW t)) as [|pl [|pl2 rest]]; [| |destruct Hc].
    + change (fin_val (default_expr d t)) with (fun rs => chain pl_val rs (default_expr d t)).
      cbn beta. rewrite Hc, default_expr_value. reflexivity.
    + change (fin_val (default_expr d t)) with (fun rs => chain pl_val rs (default_expr d t)).
      cbn beta. rewrite Hc.
      (* the single active payload is a PVal *)
      assert (Hk1 : exists r, pl = PVal r).
      { assert (Hinpl : In pl (map r_pl (filter (fun r => holds (e_pred E) (r_lits r) && same (LW t) r) (recs prog)))).
        { rewrite <- Hact. left. reflexivity. }
        apply in_map_iff in Hinpl. destruct Hinpl as [r [<- Hr]].
        apply filter_In in Hr. destruct Hr as [Hr Hs].
        apply andb_true_iff in Hs. destruct Hs as [_ Hs]. unfold same in Hs. apply lhs_eqb_eq in Hs.
        pose proof (recs_kind prog) as HK. rewrite Forall_forall in HK. specialize (HK r Hr).
        unfold kind_ok in HK. rewrite <- Hs in HK. destruct (r_pl r); [eexists; reflexivity|destruct HK]. }
      destruct Hk1 as [r ->]. reflexivity.
Qed.

Lemma active_kind : forall rho prog l pl, In pl (active_for rho prog l) ->
  match l, pl with
  | LW _, PVal _ => True
  | LM _, PMem _ _ _ => True
  | _, _ => False
  end.
Proof.
  intros rho prog l pl Hin. rewrite active_for_recs in Hin.
  apply in_map_iff in Hin. destruct Hin as [r [<- Hr]].
  apply filter_In in Hr. destruct Hr as [Hr Hs].
  apply andb_true_iff in Hs. destruct Hs as [_ Hs]. unfold same in Hs. apply lhs_eqb_eq in Hs.
  pose proof (recs_kind prog) as HK. rewrite Forall_forall in HK. specialize (HK r Hr).
  unfold kind_ok in HK. rewrite <- Hs in HK. exact HK.
Qed.

Lemma chain_dflt_ext : forall E g rs d1 d2,
  veval E d1 = veval E d2 -> veval E (chain g rs d1) = veval E (chain g rs d2).
Proof.
  intros E g. induction rs as [|x rs IH]; intros d1 d2 H; [exact H|].
  unfold chain. cbn [fold_left].
  fold (chain g rs (VSel (fst x) (g (snd x)) d1)). fold (chain g rs (VSel (fst x) (g (snd x)) d2)).
  apply IH. cbn [veval]. rewrite H. reflexivity.
Qed.

(* Theorem 4b: memories *)
Theorem value_mem : forall prog d res, elab prog d = Some res ->
  forall m, In (LM m) (map fst (slits prog)) ->
  exists en ad da, res_get res (LM m) = Some (FMem en ad da) /\
    forall E,
      match spec_mem E prog m with
      | Some None => veval E en = 0
      | Some (Some (a, dd, e)) => veval E en = e /\ veval E ad = a /\ veval E da = dd
      | None => False
      end.
Proof.
  intros prog d res H m Hin.
  destruct (accepted_setup prog d res H) as (s & -> & Hacc & Hp & Hk).
  assert (HX : exists r0 X', filter (same (LM m)) (recs prog) = r0 :: X').
  { rewrite slits_keys in Hin. apply in_map_iff in Hin. destruct Hin as [r [Hl Hr]].
    destruct (filter (same (LM m)) (recs prog)) as [|r0 X'] eqn:EX; [|eauto].
    exfalso. assert (Hf : In r (filter (same (LM m)) (recs prog))).
    { apply filter_In. split; [exact Hr|]. unfold same. rewrite Hl. apply lhs_eqb_refl. }
    rewrite EX in Hf. destruct Hf. }
  destruct HX as (r0 & X' & HX).
  exists (chain pl_en (map selpl (r0 :: X')) VZero),
         (chain pl_addr (map selpl X') (pl_addr (r_pl r0))),
         (chain pl_val (map selpl X') (pl_val (r_pl r0))).
  split.
  - unfold finalize. rewrite res_get_finalize; [|apply Hk; rewrite slits_keys in *; exact Hin].
    rewrite Hp, HX. reflexivity.
  - intro E.
    assert (Hshift : forall g,
              veval E (chain g (map selpl X') (g (r_pl r0)))
              = veval E (chain g (map selpl (r0 :: X')) (g (r_pl r0)))).
    { intro g. cbn [map]. unfold chain at 2. cbn [fold_left].
      fold (chain g (map selpl X') (VSel (fst (selpl r0)) (g (snd (selpl r0))) (g (r_pl r0)))).
      apply chain_dflt_ext. cbn [veval selpl snd]. destruct (beval _ _); reflexivity. }
    pose proof (chain_records E pl_en prog (LM m) _ VZero Hacc (eq_sym HX)) as Hen.
    pose proof (chain_records E pl_addr prog (LM m) _ (pl_addr (r_pl r0)) Hacc (eq_sym HX)) as Had.
    pose proof (chain_records E pl_val prog (LM m) _ (pl_val (r_pl r0)) Hacc (eq_sym HX)) as Hda.
    pose proof (active_kind (e_pred E) prog (LM m)) as HK.
    unfold spec_mem.
    destruct (active_for (e_pred E) prog (LM m)) as [|pl [|pl2 rest]]; [| |destruct Hen].
    + exact Hen.
    + specialize (HK pl (or_introl eq_refl)). destruct pl as [r|a dd e]; [destruct HK|].
      rewrite !Hshift, Hen, Had, Hda. cbn. repeat split.
Qed.

(* ------------------------------------------------------------------ rejection, in the property's words *)
Lemma syn_excl_iff : forall a b,
  syn_excl a b = true <->
  exists la lb, In la a /\ In lb b /\ fst la = fst lb /\ snd la <> snd lb.
Proof.
  intros a b. unfold syn_excl. rewrite existsb_exists. split.
  - intros [la [Ha H]]. apply existsb_exists in H. destruct H as [lb [Hb H]].
    destruct la as [pa na], lb as [pb nb]. cbn [fst snd] in H.
    apply andb_true_iff in H. destruct H as [H1 H2]. apply Z.eqb_eq in H1.
    exists (pa, na), (pb, nb). cbn [fst snd]. repeat split; try assumption.
    destruct na, nb; cbn in H2; congruence.
  - intros (la & lb & Ha & Hb & H1 & H2). exists la. split; [exact Ha|].
    apply existsb_exists. exists lb. split; [exact Hb|].
    destruct la as [pa na], lb as [pb nb]. cbn [fst snd] in *.
    rewrite H1, Z.eqb_refl. destruct na, nb; cbn; congruence.
Qed.

Lemma syn_excl_sym : forall a b, syn_excl a b = syn_excl b a.
Proof.
  intros a b. destruct (syn_excl a b) eqn:E1, (syn_excl b a) eqn:E2; try reflexivity; exfalso.
  - apply syn_excl_iff in E1. destruct E1 as (la & lb & Ha & Hb & H1 & H2).
    assert (syn_excl b a = true) by (apply syn_excl_iff; exists lb, la; repeat split; auto).
    congruence.
  - apply syn_excl_iff in E2. destruct E2 as (la & lb & Ha & Hb & H1 & H2).
    assert (syn_excl a b = true) by (apply syn_excl_iff; exists lb, la; repeat split; auto).
    congruence.
Qed.

Lemma pairwise_excl_bad : forall l la lb a b c,
  syn_excl la lb = false ->
  pairwise_excl (a ++ (l, la) :: b ++ (l, lb) :: c) = false.
Proof.
  intros l la lb a b c H. induction a as [|x a IH]; cbn [app pairwise_excl].
  - rewrite forallb_app. cbn [forallb fst snd]. rewrite lhs_eqb_refl, syn_excl_sym, H. cbn.
    rewrite andb_false_r. reflexivity.
  - rewrite IH. apply andb_false_r.
Qed.

Theorem rejects_non_exclusive : forall prog d l la lb a b c,
  slits prog = a ++ (l, la) :: b ++ (l, lb) :: c ->
  syn_excl la lb = false ->
  elab prog d = None.
Proof.
  intros prog d l la lb a b c Hs H. apply elab_none_iff. unfold spec_accepts.
  rewrite Hs, pairwise_excl_bad by exact H. apply andb_false_r.
Qed.

Theorem rejects_unguarded : forall prog d l,
  In (l, []) (slits prog) -> elab prog d = None.
Proof.
  intros prog d l Hin. apply elab_none_iff. unfold spec_accepts.
  assert (Hg : guarded (slits prog) = false).
  { unfold guarded. destruct (forallb _ (slits prog)) eqn:E; [|reflexivity].
    rewrite forallb_forall in E. specialize (E _ Hin). discriminate. }
  rewrite Hg. reflexivity.
Qed.

(* the syntactic criterion is exact for independent predicates: two satisfiable path
   conditions that are not syntactically exclusive can be active together *)
Theorem syn_excl_complete : forall a b,
  syn_excl a b = false -> syn_excl a a = false -> syn_excl b b = false ->
  exists rho, holds rho a = true /\ holds rho b = true.
Proof.
  intros a b Hab Haa Hbb.
  exists (fun p => existsb (fun l => (fst l =? p) && negb (snd l)) (a ++ b)).
  assert (Hgen : forall c, (c = a \/ c = b) -> forall l, In l c ->
            lit_holds (fun p => existsb (fun l0 => (fst l0 =? p) && negb (snd l0)) (a ++ b)) l = true).
  { intros c Hc [p n] Hl. unfold lit_holds. cbn [fst snd]. destruct n; cbn.
    - (* negated literal: p must not occur positively anywhere *)
      rewrite xorb_true_r. apply negb_true_iff.
      destruct (existsb (fun l0 => (fst l0 =? p) && negb (snd l0)) (a ++ b)) eqn:E; [|reflexivity].
      exfalso. apply existsb_exists in E. destruct E as [[q nq] [Hq E]]. cbn in E.
      apply andb_true_iff in E. destruct E as [E1 E2]. apply Z.eqb_eq in E1. subst q.
      apply negb_true_iff in E2. subst nq.
      apply in_app_or in Hq.
      assert (Hcontra : forall x y, In (p, true) x -> In (p, false) y -> syn_excl x y = true).
      { intros x y Hx Hy. apply syn_excl_iff. exists (p, true), (p, false). cbn. repeat split; auto. discriminate. }
      destruct Hc as [-> | ->], Hq as [Hq|Hq].
      + rewrite (Hcontra a a Hl Hq) in Haa. discriminate.
      + rewrite (Hcontra a b Hl Hq) in Hab. discriminate.
      + rewrite syn_excl_sym, (Hcontra b a Hl Hq) in Hab. discriminate.
      + rewrite (Hcontra b b Hl Hq) in Hbb. discriminate.
    - rewrite xorb_false_r. apply existsb_exists. exists (p, false). split.
      + apply in_or_app. destruct Hc as [-> | ->]; [left|right]; exact Hl.
      + cbn. rewrite Z.eqb_refl. reflexivity. }
  split; unfold holds; apply forallb_forall; intros l Hl.
  - apply (Hgen a); auto.
  - apply (Hgen b); auto.
Qed.

Theorem accepted_exclusive_elab : forall prog d res,
  elab prog d = Some res ->
  forall rho l, (length (active_for rho prog l) <= 1)%nat.
Proof.
  intros prog d res H. apply accepted_exclusive.
  destruct (spec_accepts prog) eqn:E; [reflexivity|].
  apply (elab_none_iff prog d) in E. congruence.
Qed.

(* ------------------------------------------------------------------ one driver per assigned target, first-assignment order *)
Definition has_key (ks : list lhs) (k : lhs) : bool := existsb (lhs_eqb k) ks.
Definition add_key (ks : list lhs) (k : lhs) : list lhs := if has_key ks k then ks else ks ++ [k].

Lemma am_keys_app_eq : forall (V : Type) (m : amap V) k v,
  map fst (am_app m k v) = add_key (map fst m) k.
Proof.
  unfold add_key, has_key. induction m as [|[k0 vs] m IH]; intros k v; cbn; [reflexivity|].
  destruct (lhs_eqb k k0) eqn:E; cbn; [reflexivity|].
  rewrite IH. destruct (existsb (lhs_eqb k) (map fst m)); reflexivity.
Qed.

Lemma build_all_keys : forall rs m m', build_all rs m = Some m' ->
  map fst (fst m') = fold_left add_key (map r_lhs rs) (map fst (fst m)).
Proof.
  induction rs as [|r rs IH]; intros m m' H; cbn in *.
  - injection H as <-. reflexivity.
  - destruct (build_m r m) as [m1|] eqn:E; [|discriminate].
    rewrite (IH m1 m' H). f_equal. unfold build_m in E.
    destruct (sel_of_lits (r_lits r)); [|discriminate].
    destruct (existsb _ _); [discriminate|]. injection E as <-. cbn [fst].
    apply am_keys_app_eq.
Qed.

Definition neqb (x y : lhs) : bool := negb (lhs_eqb y x).

Lemma filter_comm : forall (A : Type) (f g : A -> bool) l,
  filter f (filter g l) = filter g (filter f l).
Proof.
  intros. rewrite !filter_filter'. apply filter_ext. intro a. apply andb_comm.
Qed.

Lemma nodup_filter : forall P l, nodup_lhs (filter P l) = filter P (nodup_lhs l).
Proof.
  intros P. induction l as [|x l IH]; cbn [filter nodup_lhs]; [reflexivity|].
  destruct (P x) eqn:E; cbn [nodup_lhs filter]; rewrite ?E.
  - rewrite IH. f_equal. apply filter_comm.
  - rewrite IH. rewrite filter_filter'. apply filter_ext_in. intros y _.
    destruct (lhs_eqb y x) eqn:Eyx; cbn.
    + apply lhs_eqb_eq in Eyx. subst y. rewrite E. reflexivity.
    + rewrite andb_true_r. reflexivity.
Qed.

Lemma fold_add_key : forall l acc,
  fold_left add_key l acc = acc ++ nodup_lhs (filter (fun y => negb (has_key acc y)) l).
Proof.
  induction l as [|x l IH]; intro acc; cbn [fold_left filter].
  - cbn. rewrite app_nil_r. reflexivity.
  - unfold add_key at 2. destruct (has_key acc x) eqn:E; cbn [negb].
    + apply IH.
    + rewrite IH. cbn [nodup_lhs]. rewrite <- app_assoc. cbn [app]. do 2 f_equal.
      rewrite <- nodup_filter, filter_filter'. f_equal. apply filter_ext. intro y.
      unfold has_key. rewrite existsb_app. cbn. rewrite orb_false_r, negb_orb.
      rewrite (lhs_eqb_sym y x). apply andb_comm.
Qed.

Theorem elab_keys : forall prog d res, elab prog d = Some res -> map fst res = assigned prog.
Proof.
  intros prog d res H. unfold elab in H. rewrite elab_forest_recs in H.
  destruct (build_all (recs prog) ([], [])) as [m|] eqn:E; [|discriminate].
  cbn in H. injection H as <-. unfold finalize. cbn [pmap]. rewrite map_map.
  assert (Hf : forall kv, fst (fin_one d kv) = fst kv) by (intros [[t|m0] vs]; reflexivity).
  rewrite (map_ext _ _ Hf). rewrite (build_all_keys _ _ _ E). cbn [fst map].
  rewrite fold_add_key. cbn [app]. unfold assigned. rewrite slits_keys.
  f_equal. clear. induction (map r_lhs (recs prog)) as [|x l IH]; [reflexivity|].
  cbn [filter]. change (has_key [] x) with false. cbn [negb]. f_equal. exact IH.
Qed.

Lemma nodup_lhs_in : forall l y, In y (nodup_lhs l) <-> In y l.
Proof.
  induction l as [|a l IH]; intro y; cbn; [tauto|].
  rewrite filter_In, IH. split.
  - intros [->|[H _]]; auto.
  - intros [->|H]; [auto|]. destruct (lhs_eqb y a) eqn:E.
    + left. symmetry. apply lhs_eqb_eq. exact E.
    + right. split; [exact H|reflexivity].
Qed.

Lemma nodup_lhs_NoDup : forall l, NoDup (nodup_lhs l).
Proof.
  induction l as [|a l IH]; cbn; constructor.
  - rewrite filter_In. intros [_ H]. rewrite lhs_eqb_refl in H. discriminate.
  - apply NoDup_filter. exact IH.
Qed.

(* exactly one elaborated driver per assigned target, none for the others *)
Theorem one_driver_per_target : forall prog d res, elab prog d = Some res ->
  map fst res = assigned prog /\ NoDup (map fst res) /\
  (forall l, In l (map fst res) <-> In l (map fst (slits prog))).
Proof.
  intros prog d res H. rewrite (elab_keys prog d res H). unfold assigned. repeat split.
  - apply nodup_lhs_NoDup.
  - apply nodup_lhs_in.
  - apply nodup_lhs_in.
Qed.

(* ------------------------------------------------------------------ several cycles *)
Lemma res_get_none : forall (res : list (lhs * fexpr)) l, ~ In l (map fst res) -> res_get res l = None.
Proof.
  induction res as [|[k e] res IH]; intros l H; [reflexivity|]. cbn in *.
  destruct (lhs_eqb l k) eqn:E.
  - apply lhs_eqb_eq in E. subst. exfalso. apply H. left. reflexivity.
  - apply IH. intro Hin. apply H. right. exact Hin.
Qed.

Lemma next_agree : forall prog d res, elab prog d = Some res ->
  forall E i, model_next res E i = spec_next d prog E i.
Proof.
  intros prog d res H E i. unfold model_next, spec_next, is_assigned.
  destruct (existsb (lhs_eqb (LW (TReg i))) (map fst (slits prog))) eqn:Ex.
  - apply existsb_exists in Ex. destruct Ex as [l [Hin Hl]]. apply lhs_eqb_eq in Hl. subst l.
    destruct (value_wire prog d res H (TReg i) Hin) as (e & Hget & Hv).
    rewrite Hget, <- Hv. reflexivity.
  - rewrite res_get_none; [reflexivity|].
    intro Hin. apply (one_driver_per_target prog d res H) in Hin.
    assert (Ht : existsb (lhs_eqb (LW (TReg i))) (map fst (slits prog)) = true).
    { apply existsb_exists. exists (LW (TReg i)). split; [exact Hin|apply lhs_eqb_refl]. }
    congruence.
Qed.

Theorem run_agree : forall prog d res, elab prog d = Some res ->
  forall inputs regs, model_run res inputs regs = spec_run d prog inputs regs.
Proof.
  intros prog d res H. induction inputs as [|inp rest IH]; intro regs; [reflexivity|].
  cbn [model_run spec_run].
  assert (Hs : model_step res inp regs = spec_step d prog inp regs).
  { unfold model_step, spec_step. apply map_ext. intro k. apply (next_agree prog d res H). }
  rewrite Hs, IH. reflexivity.
Qed.

(* explicit hold: when the unique active branch assigns the register to itself (its rhs wire carries the
   register's current value), the register keeps its value -- whatever default is declared for it *)
Theorem explicit_hold : forall prog d res, elab prog d = Some res ->
  forall i, In (LW (TReg i)) (map fst (slits prog)) ->
  exists e, res_get res (LW (TReg i)) = Some (FVal e) /\
    forall E r, active_for (e_pred E) prog (LW (TReg i)) = [PVal r] ->
                e_leaf E r = e_reg E i -> veval E e = e_reg E i.
Proof.
  intros prog d res H i Hin.
  destruct (value_wire prog d res H (TReg i) Hin) as (e & Hget & Hv).
  exists e. split; [exact Hget|]. intros E r Hact Hr. specialize (Hv E).
  unfold spec_value in Hv. rewrite Hact in Hv. injection Hv as Hv. congruence.
Qed.
