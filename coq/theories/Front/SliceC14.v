(* C14 -- bit lists and Python slice semantics (definitions only, no proofs).

   A wire's value is a `bits` = list bool, LSB first; its bitwidth is the
   length of the list.  `pyslice` is Python's  l[s:e]  for step 1 with
   None / negative / out-of-range bounds (CPython PySlice_AdjustIndices).
   This file is C14's own copy (C06 owns Front/PySlice.v). *)
From Coq Require Import ZArith List Bool Lia.
From PyRTL Require Import Base.PyZ.
Import ListNotations.
Open Scope Z_scope.

Definition bits := list bool.

Fixpoint to_Z (l : bits) : Z :=
  match l with [] => 0 | b :: r => b2z b + 2 * to_Z r end.

Definition of_Z (n : nat) (z : Z) : bits :=
  map (fun i => Z.testbit z (Z.of_nat i)) (seq 0 n).

Definition bit (l : bits) (i : nat) : bool := nth i l false.

(* zero extension to n bits (no-op when already >= n) *)
Definition zext (n : nat) (l : bits) : bits := l ++ repeat false (n - length l).

(* `dest <<= x` : truncate or zero-extend to the destination's bitwidth *)
Definition resize (n : nat) (l : bits) : bits := firstn n (zext n l).

(* concat(a, b): a is most significant *)
Definition concat2 (hi lo : bits) : bits := lo ++ hi.
(* concat of an argument list: first element most significant *)
Definition concat_msb (l : list bits) : bits := concat (rev l).
(* concat_list(l): first element least significant *)
Definition concat_lsb (l : list bits) : bits := concat l.

(* ---- Python slice bounds, step = 1 ---- *)
Definition clamp_bound (n : Z) (b : option Z) (dflt : Z) : Z :=
  match b with
  | None => dflt
  | Some x => if x <? 0 then Z.max (x + n) 0 else Z.min x n
  end.

Definition slice_bounds (n : nat) (s e : option Z) : nat * nat :=
  let zn := Z.of_nat n in
  (Z.to_nat (clamp_bound zn s 0), Z.to_nat (clamp_bound zn e zn)).

Definition pyslice {A} (l : list A) (s e : option Z) : list A :=
  let '(a, b) := slice_bounds (length l) s e in
  firstn (b - a) (skipn a l).

(* convenience: non-negative bounds given as nat *)
Definition sl {A} (l : list A) (a b : nat) : list A :=
  pyslice l (Some (Z.of_nat a)) (Some (Z.of_nat b)).

(* WireVector.__getitem__(slice): PyrtlError when nothing is selected *)
Definition wslice (w : bits) (s e : option Z) : option bits :=
  match pyslice w s e with [] => None | r => Some r end.

(* WireVector.__getitem__(int): range(n)[i]; IndexError outside [-n, n) *)
Definition windex (w : bits) (i : Z) : option bool :=
  let n := Z.of_nat (length w) in
  if (0 <=? i) && (i <? n) then Some (nth (Z.to_nat i) w false)
  else if (- n <=? i) && (i <? 0) then Some (nth (Z.to_nat (i + n)) w false)
  else None.

Fixpoint all_some {A} (l : list (option A)) : option (list A) :=
  match l with
  | [] => Some []
  | None :: _ => None
  | Some x :: r => match all_some r with Some r' => Some (x :: r') | None => None end
  end.

Definition sum_nat (l : list nat) : nat := fold_right Nat.add 0%nat l.

Definition maxlen (l : list bits) : nat := fold_right (fun x m => Nat.max (length x) m) 0%nat l.
