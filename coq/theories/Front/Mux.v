(* C14 -- value-level models of the multiplexing helpers (definitions only).
   Each function mirrors the structure of the Python code it models:
     corecircuits.select / mux,  rtllib/muxes.py: prioritized_mux, sparse_mux,
     _sparse_mux, _is_equivalent, MultiSelector, demux;  corecircuits.enum_mux.
   `None` = the code raises. *)
From Coq Require Import ZArith List Bool Lia.
From PyRTL Require Import Base.PyZ Front.SliceC14.
Import ListNotations.
Open Scope Z_scope.

(* select(sel, truecase, falsecase): match_bitwidth zero-extends the shorter
   argument, the 'x' net yields falsecase when sel == 0 *)
Definition select (s : bool) (t f : bits) : bits :=
  let n := Nat.max (length f) (length t) in
  if s then zext n t else zext n f.

(* ---- corecircuits.mux ---- *)
(* n = len(index).  `2 ** len(index) != len(mux_ins)` -> raise;
   len(index)==1 -> select(index, falsecase=ins[0], truecase=ins[1]);
   else select(index[-1], falsecase=mux(index[0:-1], *ins[:half]),
                          truecase =mux(index[0:-1], *ins[half:])) *)
Fixpoint mux_rec (n : nat) (idx : bits) (ins : list bits) : option bits :=
  match n with
  | O => None
  | S n' =>
    if negb (Nat.eqb (2 ^ n) (length ins)) then None else
    match n' with
    | O => Some (select (nth 0 idx false) (nth 1 ins []) (nth 0 ins []))
    | S _ =>
      let half := Nat.div (length ins) 2 in
      let idx' := pyslice idx (Some 0) (Some (-1)) in
      match mux_rec n' idx' (firstn half ins), mux_rec n' idx' (skipn half ins) with
      | Some f, Some t => Some (select (last idx false) t f)
      | _, _ => None
      end
    end
  end.

(* the padded input list: `mux_ins.extend([default] * short_by)` *)
Definition mux_pad (n : nat) (ins : list bits) (dflt : option bits) : list bits :=
  match dflt with
  | Some d => ins ++ repeat d (2 ^ n - length ins)
  | None => ins
  end.

Definition mux (idx : bits) (ins : list bits) (dflt : option bits) : option bits :=
  mux_rec (length idx) idx (mux_pad (length idx) ins dflt).

(* ---- muxes.prioritized_mux ---- *)
Fixpoint pmux_rec (fuel : nat) (sels : list bool) (vals : list bits) : option bits :=
  match fuel with
  | O => None
  | S fuel' =>
    if negb (Nat.eqb (length sels) (length vals)) then None else
    match vals with
    | [] => None
    | [v] => Some v
    | _ =>
      let half := Nat.div (length vals) 2 in
      match pmux_rec fuel' (firstn half sels) (firstn half vals),
            pmux_rec fuel' (skipn half sels) (skipn half vals) with
      | Some t, Some f => Some (select (existsb (fun b => b) (firstn half sels)) t f)
      | _, _ => None
      end
    end
  end.

Definition prioritized_mux (sels : list bool) (vals : list bits) : option bits :=
  pmux_rec (S (length vals)) sels vals.

(* ---- muxes.sparse_mux / _sparse_mux ---- *)
(* A wire carries an identity tag: `Some t` for a wire object handed in by the
   caller (same tag <=> `w1 is w2`, or both Const with equal val and bitwidth);
   `None` for a wire freshly created by select (never equivalent to anything). *)
Record wire := mkW { wtag : option Z; wbits : bits }.

Definition equiv (a b : wire) : bool :=
  match wtag a, wtag b with
  | Some x, Some y => x =? y
  | _, _ => false
  end.

Definition wselect (s : bool) (t f : wire) : wire := mkW None (select s (wbits t) (wbits f)).

Fixpoint lookup {A} (k : Z) (l : list (Z * A)) : option A :=
  match l with
  | [] => None
  | (k', v) :: r => if k =? k' then Some v else lookup k r
  end.

Definition keys_ok (maxv : Z) {A} (vals : list (Z * A)) : bool :=
  forallb (fun kv => (0 <=? fst kv) && (fst kv <=? maxv)) vals.

(* one level = sparse_mux's key check followed by _sparse_mux's body;
   n = len(sel) *)
Fixpoint sparse_rec (n : nat) (sel : bits) (vals : list (Z * wire)) : option wire :=
  match n with
  | O => None
  | S n' =>
    if negb (keys_ok (2 ^ Z.of_nat n - 1) vals) then None else
    match vals with
    | [] => None
    | [kv] => Some (snd kv)
    | _ =>
      match n' with
      | O =>
        match lookup 0 vals, lookup 1 vals with
        | Some f, Some t => Some (if equiv f t then t else wselect (last sel false) t f)
        | _, _ => None
        end
      | S _ =>
        let half := 2 ^ Z.of_nat n' in
        let first := filter (fun kv => fst kv <? half) vals in
        let second := map (fun kv => (fst kv - half, snd kv))
                          (filter (fun kv => half <=? fst kv) vals) in
        let sel' := pyslice sel None (Some (-1)) in
        match first, second with
        | [], _ => sparse_rec n' sel' second
        | _, [] => sparse_rec n' sel' first
        | _, _ =>
          match sparse_rec n' sel' first, sparse_rec n' sel' second with
          | Some f, Some t => Some (if equiv f t then t else wselect (last sel false) t f)
          | _, _ => None
          end
        end
      end
    end
  end.

Fixpoint zrange (lo : Z) (n : nat) : list Z :=
  match n with O => [] | S n' => lo :: zrange (lo + 1) n' end.

(* the `default` entry: every i in range(max_val+1) not in vals gets default *)
Definition sparse_fill (n : nat) (vals : list (Z * wire)) (dflt : option wire) : list (Z * wire) :=
  match dflt with
  | None => vals
  | Some d =>
    vals ++ map (fun i => (i, d))
                (filter (fun i => match lookup i vals with Some _ => false | None => true end)
                        (zrange 0 (2 ^ n)))
  end.

Definition sparse_mux (sel : bits) (vals : list (Z * wire)) (dflt : option wire) : option wire :=
  sparse_rec (length sel) sel (sparse_fill (length sel) vals dflt).

(* ---- corecircuits.enum_mux ----
   table: key None = `otherwise`.  members = the enum's values. *)
Definition enum_mux (cntrl : bits) (members : list Z) (table : list (option Z * wire))
           (dflt : option wire) (strict : bool) : option wire :=
  let ow := map snd (filter (fun kv => match fst kv with None => true | _ => false end) table) in
  let vals := flat_map (fun kv => match fst kv with Some k => [(k, snd kv)] | None => [] end) table in
  match ow, dflt with
  | _ :: _, Some _ => None                  (* both "otherwise" and default *)
  | _, _ =>
    let d := match ow with o :: _ => Some o | [] => dflt end in
    let missing := filter (fun m => match lookup m vals with Some _ => false | None => true end) members in
    match vals with
    | [] => None                            (* no key type *)
    | _ =>
      if strict && (match d with None => true | _ => false end)
                && (match missing with [] => false | _ => true end)
      then None else sparse_mux cntrl vals d
    end
  end.

(* ---- muxes.MultiSelector ----
   opts: in call order, key None = .default(...), Some k = .option(k, ...);
   as_wires(sig, dw.bitwidth): unchanged when the width already matches,
   otherwise a fresh zero-extended / truncated wire. *)
Definition as_wires_to (w : nat) (x : wire) : wire :=
  if Nat.eqb (length (wbits x)) w then x else mkW None (resize w (wbits x)).

Fixpoint dup_keys (l : list Z) : bool :=
  match l with [] => false | k :: r => existsb (Z.eqb k) r || dup_keys r end.

Definition multiselector (sel : bits) (dws : list nat) (opts : list (option Z * list wire))
  : option (list bits) :=
  let keys := flat_map (fun o => match fst o with Some k => [k] | None => [] end) opts in
  if dup_keys keys then None else
  if negb (forallb (fun o => Nat.eqb (length (snd o)) (length dws)) opts) then None else
  all_some (map (fun j =>
    let w := nth j dws 0%nat in
    let col := map (fun o => (fst o, as_wires_to w (nth j (snd o) (mkW None [])))) opts in
    let vals := flat_map (fun kv => match fst kv with Some k => [(k, snd kv)] | None => [] end) col in
    let d := match filter (fun kv => match fst kv with None => true | _ => false end) col with
             | kv :: _ => Some (snd kv) | [] => None end in
    match sparse_mux sel vals d with
    | Some r => Some (resize w (wbits r))
    | None => None
    end) (seq 0 (length dws))).

(* ---- muxes.demux ---- every output is one bit *)
Fixpoint demux_rec (n : nat) (sel : bits) : list bool :=
  match n with
  | O => []
  | S n' =>
    match n' with
    | O => [negb (nth 0 sel false); nth 0 sel false]
    | S _ =>
      let ws := demux_rec n' (pyslice sel None (Some (-1))) in
      let s := last sel false in
      map (fun w => andb (negb s) w) ws ++ map (fun w => andb s w) ws
    end
  end.

Definition demux (sel : bits) : list bool := demux_rec (length sel) sel.
