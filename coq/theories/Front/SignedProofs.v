(* signed_add / signed_mult / signed_lt,le,gt,ge (Front/Signed.v, composed exactly
   as corecircuits.py composes them) compute the exact two's-complement result
   for ALL operand widths (mixed widths included) and all values. *)
From Coq Require Import ZArith List Bool Lia ZifyBool.
From PyRTL Require Import Front.Ops Front.Signed Front.PySliceProofs Front.OpsProofs.
Open Scope Z_scope.

Lemma pow2_succ w : 1 <= w -> 2 ^ w = 2 * 2 ^ (w - 1).
Proof. intros. replace w with (Z.succ (w - 1)) at 1 by lia. apply Z.pow_succ_r. lia. Qed.

Lemma sval_range a : wf a -> - 2 ^ (wd a - 1) <= sval a < 2 ^ (wd a - 1).
Proof. intros [Hw Hr]. apply to_signed_range; assumption. Qed.

(* a sign-extended operand, abstractly *)
Lemma sign_ext_props a n : wf a -> wd a <= n ->
  wf (sign_ext a n) /\ wd (sign_ext a n) = n /\ val (sign_ext a n) = sval a mod 2 ^ n
  /\ sval (sign_ext a n) = sval a.
Proof.
  intros Ha Hn. destruct (sign_ext_spec a n Ha Hn) as [H1 [H2 H3]].
  split; [assumption|]. split; [rewrite H1; reflexivity|].
  split; [rewrite H1; reflexivity|assumption].
Qed.

Section Signed.
Variables a b : sv.
Hypothesis Ha : wf a.
Hypothesis Hb : wf b.
Let m := Z.max (wd a) (wd b).

Lemma sval_a_range_m : - 2 ^ (m - 1) <= sval a < 2 ^ (m - 1).
Proof.
  pose proof (sval_range a Ha). destruct Ha as [Hw _].
  pose proof (pow2_le (wd a - 1) (m - 1) ltac:(subst m; lia)). lia.
Qed.

Lemma sval_b_range_m : - 2 ^ (m - 1) <= sval b < 2 ^ (m - 1).
Proof.
  pose proof (sval_range b Hb). destruct Hb as [Hw _].
  pose proof (pow2_le (wd b - 1) (m - 1) ltac:(subst m; lia)). lia.
Qed.

Lemma m_ge1 : 1 <= m.
Proof. destruct Ha. subst m. lia. Qed.

(* ---- signed_add *)
Lemma signed_add_value :
  signed_add a b = ((sval a + sval b) mod 2 ^ (m + 1), m + 1).
Proof.
  unfold signed_add, match_bitwidth. fold m.
  destruct (sign_ext_props a m Ha ltac:(subst m; lia)) as [Wa [Wwa [Va Sa]]].
  destruct (sign_ext_props b m Hb ltac:(subst m; lia)) as [Wb [Wwb [Vb Sb]]].
  rewrite Wwa.
  destruct (sign_ext_props (sign_ext a m) (m + 1) Wa ltac:(lia)) as [Wa2 [Wwa2 [Va2 Sa2]]].
  destruct (sign_ext_props (sign_ext b m) (m + 1) Wb ltac:(lia)) as [Wb2 [Wwb2 [Vb2 Sb2]]].
  rewrite add_exact by assumption. rewrite Wwa2, Wwb2, Z.max_id.
  pose proof m_ge1.
  unfold getitem_d. rewrite getitem_0to.
  - cbn [val fst]. rewrite Va2, Vb2, Sa, Sb.
    rewrite <- Z.add_mod by (pose proof (pow2_pos (m + 1)); lia). reflexivity.
  - apply wf_pair. split; [lia|].
    destruct Wa2 as [_ [A0 A1]], Wb2 as [_ [B0 B1]]. rewrite Wwa2 in A1. rewrite Wwb2 in B1.
    rewrite (pow2_succ (m + 1 + 1)) by lia. replace (m + 1 + 1 - 1) with (m + 1) by lia. lia.
  - cbn [wd snd]. lia.
Qed.

Lemma signed_add_exact :
  wd (signed_add a b) = m + 1 /\ sval (signed_add a b) = sval a + sval b.
Proof.
  rewrite signed_add_value. split; [reflexivity|]. unfold sval at 1. cbn [val wd fst snd].
  pose proof m_ge1. apply to_signed_of_mod; [lia|].
  replace (m + 1 - 1) with m by lia. rewrite (pow2_succ m) by lia.
  pose proof sval_a_range_m. pose proof sval_b_range_m. lia.
Qed.

(* ---- signed_mult *)
Lemma signed_mult_value :
  signed_mult a b = ((sval a * sval b) mod 2 ^ (wd a + wd b), wd a + wd b).
Proof.
  unfold signed_mult. set (fl := wd a + wd b).
  pose proof Ha as [Hwa _]. pose proof Hb as [Hwb _].
  destruct (sign_ext_props a fl Ha ltac:(subst fl; lia)) as [Wa [Wwa [Va Sa]]].
  destruct (sign_ext_props b fl Hb ltac:(subst fl; lia)) as [Wb [Wwb [Vb Sb]]].
  rewrite mul_exact by assumption. rewrite Wwa, Wwb, Z.max_id.
  unfold getitem_d. rewrite getitem_0to.
  - cbn [val fst]. rewrite Va, Vb.
    rewrite <- Z.mul_mod by (pose proof (pow2_pos fl); lia). reflexivity.
  - apply wf_pair. split; [lia|].
    destruct Wa as [_ [A0 A1]], Wb as [_ [B0 B1]]. rewrite Wwa in A1. rewrite Wwb in B1.
    replace (fl * 2) with (fl + fl) by lia. rewrite Z.pow_add_r by lia. nia.
  - cbn [wd snd]. lia.
Qed.

Lemma signed_mult_exact :
  wd (signed_mult a b) = wd a + wd b /\ sval (signed_mult a b) = sval a * sval b.
Proof.
  rewrite signed_mult_value. split; [reflexivity|]. unfold sval at 1. cbn [val wd fst snd].
  pose proof Ha as [Hwa _]. pose proof Hb as [Hwb _].
  apply to_signed_of_mod; [lia|].
  pose proof (sval_range a Ha) as Ra. pose proof (sval_range b Hb) as Rb.
  assert (Hp : 2 ^ (wd a + wd b - 1) = 2 * (2 ^ (wd a - 1) * 2 ^ (wd b - 1))).
  { rewrite <- Z.pow_add_r by lia. rewrite <- Z.pow_succ_r by lia. f_equal. lia. }
  rewrite Hp.
  pose proof (pow2_pos (wd a - 1) ltac:(lia)). pose proof (pow2_pos (wd b - 1) ltac:(lia)).
  nia.
Qed.

End Signed.

Lemma mod_wrap d P : 0 < P -> - P <= d < P -> d mod P = if d <? 0 then d + P else d.
Proof.
  intros HP Hd. destruct (d <? 0) eqn:E.
  - symmetry. apply Z.mod_unique with (-1); lia.
  - apply Z.mod_small. lia.
Qed.

(* ---- comparisons: two operands already sign-matched to the same width *)
Lemma xor_bits c1 c2 : op_xor (b2z c1, 1) (b2z c2, 1) = (b2z (xorb c1 c2), 1).
Proof. destruct c1, c2; reflexivity. Qed.

Lemma or_bits c1 c2 : op_or (b2z c1, 1) (b2z c2, 1) = (b2z (c1 || c2), 1).
Proof. destruct c1, c2; reflexivity. Qed.

Lemma sign_trick_lt x y : wf x -> wf y -> wd x = wd y ->
  sign_trick (op_sub x y) x y = (b2z (sval x <? sval y), 1).
Proof.
  intros Hx Hy Hw. pose proof Hx as [Hwx [X0 X1]]. pose proof Hy as [Hwy [Y0 Y1]].
  unfold sign_trick. rewrite sub_wrap by assumption.
  rewrite <- Hw, Z.max_id.
  set (w := wd x) in *. set (R := (val x - val y) mod 2 ^ (w + 1)).
  assert (HR : wf (R, w + 1)).
  { apply wf_pair. split; [lia|]. apply Z.mod_pos_bound. apply pow2_pos. lia. }
  rewrite (msb_value (R, w + 1)) by assumption.
  rewrite (msb_value x), (msb_value y) by assumption. fold w. rewrite <- Hw. fold w.
  cbn [val wd fst snd]. replace (w + 1 - 1) with w by lia.
  rewrite !invert_bit, !xor_bits. f_equal. f_equal.
  pose proof (pow2_succ w ltac:(lia)) as HP. pose proof (pow2_succ (w + 1) ltac:(lia)) as HP1.
  replace (w + 1 - 1) with w in HP1 by lia.
  pose proof (pow2_pos (w - 1) ltac:(lia)) as Hp.
  unfold sval, to_signed. fold w. rewrite <- Hw. fold w.
  rewrite <- Hw in Y1.
  assert (HRv : R = if val x <? val y then val x - val y + 2 ^ (w + 1) else val x - val y).
  { subst R. rewrite mod_wrap by lia.
    destruct (val x - val y <? 0) eqn:E; destruct (val x <? val y) eqn:E'; lia. }
  rewrite HRv. clearbody R. clear HRv HR.
  destruct (val x <? val y) eqn:E1;
    destruct (val x <? 2 ^ (w - 1)) eqn:E2; destruct (val y <? 2 ^ (w - 1)) eqn:E3;
    destruct (2 ^ (w - 1) <=? val x) eqn:E4; destruct (2 ^ (w - 1) <=? val y) eqn:E5;
    try lia; cbn [xorb negb];
    match goal with |- context [?p <=? ?q] => destruct (p <=? q) eqn:E6 end; try lia;
    match goal with |- context [?p <? ?q] => destruct (p <? q) eqn:E7 end; try lia; reflexivity.
Qed.

(* r = y - x: the same trick decides sval y < sval x *)
Lemma sign_trick_gt x y : wf x -> wf y -> wd x = wd y ->
  sign_trick (op_sub y x) x y = (b2z (sval y <? sval x), 1).
Proof.
  intros Hx Hy Hw. rewrite <- (sign_trick_lt y x) by (auto; lia).
  unfold sign_trick.
  rewrite (msb_value x), (msb_value y) by assumption.
  set (r := msb (op_sub y x)).
  assert (Hr : exists c, r = (b2z c, 1)).
  { subst r. rewrite sub_wrap by assumption. eexists. apply msb_value.
    apply wf_pair. destruct Hy as [Hwy _]. split; [lia|]. apply Z.mod_pos_bound. apply pow2_pos. lia. }
  destruct Hr as [c ->]. rewrite !invert_bit, !xor_bits. f_equal. f_equal.
  destruct c, (2 ^ (wd x - 1) <=? val x), (2 ^ (wd y - 1) <=? val y); reflexivity.
Qed.

Section Cmp.
Variables a b : sv.
Hypothesis Ha : wf a.
Hypothesis Hb : wf b.
Let m := Z.max (wd a) (wd b).

Lemma matched :
  exists x y, match_bitwidth a b true = (x, y) /\ wf x /\ wf y /\ wd x = wd y /\
    sval x = sval a /\ sval y = sval b /\ val x = sval a mod 2 ^ m /\ val y = sval b mod 2 ^ m
    /\ wd x = m.
Proof.
  unfold match_bitwidth. fold m.
  destruct (sign_ext_props a m Ha ltac:(subst m; lia)) as [Wa [Wwa [Va Sa]]].
  destruct (sign_ext_props b m Hb ltac:(subst m; lia)) as [Wb [Wwb [Vb Sb]]].
  exists (sign_ext a m), (sign_ext b m).
  split; [reflexivity|]. split; [assumption|]. split; [assumption|].
  split; [congruence|]. split; [assumption|]. split; [assumption|].
  split; [assumption|]. split; assumption.
Qed.

Lemma signed_lt_spec : signed_lt a b = (b2z (sval a <? sval b), 1).
Proof.
  unfold signed_lt. destruct matched as [x [y [-> [Hx [Hy [Hw [Sx [Sy _]]]]]]]].
  rewrite sign_trick_lt by assumption. rewrite Sx, Sy. reflexivity.
Qed.

Lemma signed_gt_spec : signed_gt a b = (b2z (sval a >? sval b), 1).
Proof.
  unfold signed_gt. destruct matched as [x [y [-> [Hx [Hy [Hw [Sx [Sy _]]]]]]]].
  rewrite sign_trick_gt by assumption. rewrite Sx, Sy. f_equal. f_equal. lia.
Qed.

(* equal sign-extended bit patterns <-> equal signed values *)
Lemma eq_matched x y : wf x -> wf y -> wd x = wd y -> (val x =? val y) = (sval x =? sval y).
Proof.
  intros [Hwx [X0 X1]] [Hwy [Y0 Y1]] Hw. unfold sval, to_signed. rewrite <- Hw.
  pose proof (pow2_succ (wd x) Hwx). rewrite <- Hw in Y1.
  destruct (val x <? 2 ^ (wd x - 1)) eqn:E1; destruct (val y <? 2 ^ (wd x - 1)) eqn:E2; lia.
Qed.

Lemma signed_le_spec : signed_le a b = (b2z (sval a <=? sval b), 1).
Proof.
  unfold signed_le. destruct matched as [x [y [-> [Hx [Hy [Hw [Sx [Sy _]]]]]]]].
  rewrite sign_trick_lt by assumption. rewrite eq_spec by assumption.
  rewrite or_bits. rewrite eq_matched by assumption. rewrite Sx, Sy. f_equal. f_equal. lia.
Qed.

Lemma signed_ge_spec : signed_ge a b = (b2z (sval a >=? sval b), 1).
Proof.
  unfold signed_ge. destruct matched as [x [y [-> [Hx [Hy [Hw [Sx [Sy _]]]]]]]].
  rewrite sign_trick_gt by assumption. rewrite eq_spec by assumption.
  rewrite or_bits. rewrite eq_matched by assumption. rewrite Sx, Sy. f_equal. f_equal. lia.
Qed.

End Cmp.
