(* C07 -- model of pyrtl/conditional.py : the ELABORATOR.
   Definitions only (no proofs) so that the harness can evaluate them even when a
   proof file is broken.

   Python                                  model
   ------------------------------------    ------------------------------------------
   `with p:` / `with otherwise:`           With p body / Otherwise body
   `w |= rhs`, `r.next |= rhs`             Assign (TWire i | TReg i) rhs
   `m[a] |= EnabledWrite(d, e)`            MemAssign m a d e
   _conditions_list_stack                  stk : list (list cond), TOP OF STACK AT THE HEAD and
                                           every level stored latest-sibling-first, i.e.
                                           python_stack = rev (map (@rev _) stk)
   _predicate_map  (dict, insertion order) pmap : association list lhs -> list (select, rhs)
   _conflicts_map                          cmap : association list lhs -> list pred_set
   pred_set element (pred, True|False)     lit = (pid, negated?)
   raise PyrtlError                        None
   _depth                                  = length stk (not stored)

   rhs / addr / data / enable / declared defaults are LEAF identifiers: their values
   come from an environment (they are arbitrary wires for the elaborator). *)
From Coq Require Import ZArith List Bool.
Import ListNotations.
Open Scope Z_scope.

Definition pid := Z.

Inductive cond := CP (p : pid) | COth.

Inductive wtarget := TWire (i : Z) | TReg (i : Z).
Inductive lhs := LW (t : wtarget) | LM (m : Z).
Inductive payload := PVal (r : Z) | PMem (a d e : Z).

Inductive ctree :=
| With (p : pid) (body : list ctree)
| Otherwise (body : list ctree)
| Assign (t : wtarget) (rhs : Z)
| MemAssign (m : Z) (a d e : Z).

Definition wtarget_eqb (a b : wtarget) : bool :=
  match a, b with
  | TWire i, TWire j => i =? j
  | TReg i, TReg j => i =? j
  | _, _ => false
  end.

Definition lhs_eqb (a b : lhs) : bool :=
  match a, b with
  | LW s, LW t => wtarget_eqb s t
  | LM i, LM j => i =? j
  | _, _ => false
  end.

(* ---------- 1-bit select expressions built by _current_select ---------- *)
Inductive bexpr := BVar (p : pid) | BNot (b : bexpr) | BAnd (a b : bexpr).

Fixpoint beval (rho : pid -> bool) (b : bexpr) : bool :=
  match b with
  | BVar p => rho p
  | BNot a => negb (beval rho a)
  | BAnd a c => beval rho a && beval rho c
  end.

(* (pred, True) = negated occurrence, (pred, False) = plain occurrence, as in the code *)
Definition lit := (pid * bool)%type.

Definition lit_expr (l : lit) : bexpr :=
  if snd l then BNot (BVar (fst l)) else BVar (fst l).

(* and_with_possible_none *)
Definition and_opt (a : option bexpr) (b : bexpr) : option bexpr :=
  match a with None => Some b | Some a' => Some (BAnd a' b) end.

(* between_otherwise_and_current on a level stored latest-first WITHOUT its last
   element: the predicates after the last otherwise, latest first *)
Fixpoint since_oth (pre : list cond) : list pid :=
  match pre with
  | [] => []
  | COth :: _ => []
  | CP p :: r => p :: since_oth r
  end.

(* one iteration of `for predlist in _conditions_list_stack[:-1]`:
   the (pred,bool) pairs added, in the order the conjunction is extended *)
Definition level_lits (lvl : list cond) : list lit :=
  match lvl with
  | [] => []
  | c :: pre =>
      map (fun p => (p, true)) (rev (since_oth pre))
      ++ match c with CP p => [(p, false)] | COth => [] end
  end.

(* all levels except the current children list, outermost first *)
Definition current_lits (stack : list (list cond)) : list lit :=
  flat_map level_lits (rev (tl stack)).

(* `select` is extended by exactly one conjunct per pred_set.add, in the same order *)
Definition sel_of_lits (ls : list lit) : option bexpr :=
  fold_left (fun s l => and_opt s (lit_expr l)) ls None.

(* _pred_sets_are_in_conflict *)
Definition opposite (a b : lit) : bool :=
  (fst a =? fst b) && negb (Bool.eqb (snd a) (snd b)).

Definition in_conflict (a b : list lit) : bool :=
  negb (existsb (fun la => existsb (fun lb => opposite la lb) b) a).

(* ---------- dictionaries keyed by object identity, insertion ordered ---------- *)
Definition amap (V : Type) := list (lhs * list V).

Fixpoint am_get {V} (m : amap V) (k : lhs) : list V :=
  match m with
  | [] => []
  | (k', vs) :: r => if lhs_eqb k k' then vs else am_get r k
  end.

(* m.setdefault(k, []).append(v) *)
Fixpoint am_app {V} (m : amap V) (k : lhs) (v : V) : amap V :=
  match m with
  | [] => [(k, [v])]
  | (k', vs) :: r => if lhs_eqb k k' then (k', vs ++ [v]) :: r else (k', vs) :: am_app r k v
  end.

Record st := mkSt {
  stk : list (list cond);
  pmap : amap (bexpr * payload);
  cmap : amap (list lit) }.

Definition init_st : st := mkSt [[]] [] [].

(* _push_condition (predicates are 1-bit by construction of ctree) *)
Definition push (c : cond) (s : st) : option st :=
  match stk s with
  | [] => None
  | cur :: rest => Some (mkSt ([] :: (c :: cur) :: rest) (pmap s) (cmap s))
  end.

(* _pop_condition *)
Definition pop (s : st) : option st :=
  match stk s with
  | [] => None
  | _ :: rest => Some (mkSt rest (pmap s) (cmap s))
  end.

(* _build : _current_select, _check_and_add_pred_set, _predicate_map append *)
Definition build (l : lhs) (pl : payload) (s : st) : option st :=
  let lits := current_lits (stk s) in
  match sel_of_lits lits with
  | None => None                       (* 'problem with conditional assignment' *)
  | Some sel =>
      if existsb (in_conflict lits) (am_get (cmap s) l)
      then None                        (* 'conflicting conditions for ...' *)
      else Some (mkSt (stk s) (am_app (pmap s) l (sel, pl)) (am_app (cmap s) l lits))
  end.

(* the `with` protocol: __enter__ ; body ; __exit__ , threading the module state *)
Fixpoint elab_tree (t : ctree) (s : st) {struct t} : option st :=
  match t with
  | With p body =>
      match push (CP p) s with
      | None => None
      | Some s1 =>
          match (fix go (l : list ctree) (s : st) {struct l} : option st :=
                   match l with
                   | [] => Some s
                   | x :: r => match elab_tree x s with Some s' => go r s' | None => None end
                   end) body s1 with
          | None => None
          | Some s2 => pop s2
          end
      end
  | Otherwise body =>
      match push COth s with
      | None => None
      | Some s1 =>
          match (fix go (l : list ctree) (s : st) {struct l} : option st :=
                   match l with
                   | [] => Some s
                   | x :: r => match elab_tree x s with Some s' => go r s' | None => None end
                   end) body s1 with
          | None => None
          | Some s2 => pop s2
          end
      end
  | Assign t r => build (LW t) (PVal r) s
  | MemAssign m a d e => build (LM m) (PMem a d e) s
  end.

Fixpoint elab_forest (l : list ctree) (s : st) {struct l} : option st :=
  match l with
  | [] => Some s
  | x :: r => match elab_tree x s with Some s' => elab_forest r s' | None => None end
  end.

(* ---------- _finalize ---------- *)
Inductive vexpr :=
| VLeaf (r : Z)                     (* an rhs / default / addr / data / enable wire *)
| VZero                             (* Const(0) *)
| VSelf (i : Z)                     (* the register itself *)
| VSel (s : bexpr) (t f : vexpr).   (* select(s, truecase=t, falsecase=f) *)

Inductive fexpr :=
| FVal (e : vexpr)                     (* lhs._build(result) *)
| FMem (en addr data : vexpr).         (* lhs._build(combined_addr, combined_data, combined_enable) *)

Definition defaults := list (wtarget * Z).

Fixpoint dflt_get (d : defaults) (t : wtarget) : option Z :=
  match d with
  | [] => None
  | (t', r) :: rest => if wtarget_eqb t t' then Some r else dflt_get rest t
  end.

Definition default_expr (d : defaults) (t : wtarget) : vexpr :=
  match dflt_get d t with
  | Some r => VLeaf r
  | None => match t with TWire _ => VZero | TReg i => VSelf i end
  end.

(* the payload kind always matches the lhs kind for states produced from a ctree
   (Assign -> LW/PVal, MemAssign -> LM/PMem); the other cases are unreachable and
   only make the projections total *)
Definition pl_val (pl : payload) : vexpr :=
  match pl with PVal r => VLeaf r | PMem _ d _ => VLeaf d end.
Definition pl_addr (pl : payload) : vexpr :=
  match pl with PVal r => VLeaf r | PMem a _ _ => VLeaf a end.
Definition pl_en (pl : payload) : vexpr :=
  match pl with PVal r => VLeaf r | PMem _ _ e => VLeaf e end.

Definition fin_val (dflt : vexpr) (recs : list (bexpr * payload)) : vexpr :=
  fold_left (fun acc pr => VSel (fst pr) (pl_val (snd pr)) acc) recs dflt.

Definition fin_mem (recs : list (bexpr * payload)) : fexpr :=
  match recs with
  | [] => FMem VZero VZero VZero      (* unreachable: every key has >= 1 record *)
  | (p0, pl0) :: rest =>
      FMem (fold_left (fun acc pr => VSel (fst pr) (pl_en (snd pr)) acc) rest
                      (VSel p0 (pl_en pl0) VZero))
           (fold_left (fun acc pr => VSel (fst pr) (pl_addr (snd pr)) acc) rest (pl_addr pl0))
           (fold_left (fun acc pr => VSel (fst pr) (pl_val (snd pr)) acc) rest (pl_val pl0))
  end.

Definition fin_one (d : defaults) (kv : lhs * list (bexpr * payload)) : lhs * fexpr :=
  match fst kv with
  | LM m => (LM m, fin_mem (snd kv))
  | LW t => (LW t, FVal (fin_val (default_expr d t) (snd kv)))
  end.

Definition finalize (d : defaults) (s : st) : list (lhs * fexpr) :=
  map (fin_one d) (pmap s).

(* `with conditional_assignment(defaults=d): prog` *)
Definition elab (prog : list ctree) (d : defaults) : option (list (lhs * fexpr)) :=
  match elab_forest prog init_st with
  | None => None
  | Some s => Some (finalize d s)
  end.

(* ---------- evaluation of the elaborated expressions in one cycle ---------- *)
Record env := mkEnv {
  e_pred : pid -> bool;      (* predicate wires *)
  e_leaf : Z -> Z;           (* rhs / default / addr / data / enable wires *)
  e_reg : Z -> Z }.          (* current register values *)

Fixpoint veval (E : env) (e : vexpr) : Z :=
  match e with
  | VLeaf r => e_leaf E r
  | VZero => 0
  | VSelf i => e_reg E i
  | VSel s t f => if beval (e_pred E) s then veval E t else veval E f
  end.

Fixpoint res_get (res : list (lhs * fexpr)) (l : lhs) : option fexpr :=
  match res with
  | [] => None
  | (k, e) :: r => if lhs_eqb l k then Some e else res_get r l
  end.

(* ---------- registers over several cycles (the simulator latches veval of the elaborated
   next-value expression; registers that are not conditionally assigned are left alone here) ---------- *)
Definition reg_env (rho : pid -> bool) (sigma : Z -> Z) (regs : list Z) : env :=
  mkEnv rho sigma (fun i => nth (Z.to_nat i) regs 0).

Definition model_next (res : list (lhs * fexpr)) (E : env) (i : Z) : Z :=
  match res_get res (LW (TReg i)) with
  | Some (FVal e) => veval E e
  | _ => e_reg E i
  end.

Definition model_step (res : list (lhs * fexpr)) (inp : (pid -> bool) * (Z -> Z)) (regs : list Z) : list Z :=
  map (fun k => model_next res (reg_env (fst inp) (snd inp) regs) (Z.of_nat k)) (seq 0 (length regs)).

(* register file after each cycle *)
Fixpoint model_run (res : list (lhs * fexpr)) (inputs : list ((pid -> bool) * (Z -> Z))) (regs : list Z)
  : list (list Z) :=
  match inputs with
  | [] => []
  | inp :: rest => model_step res inp regs :: model_run res rest (model_step res inp regs)
  end.

(* ---------- predicates wider than one bit ----------
   _push_condition:  `if predicate is not otherwise and len(predicate) > 1: raise PyrtlError`
   (checked when the `with` is ENTERED, whether or not anything is assigned under it).
   pw p = len(p), the bitwidth of predicate wire p. *)
Definition pred_too_wide (pw : pid -> Z) (c : cond) : bool :=
  match c with CP p => pw p >? 1 | COth => false end.

Definition push_w (pw : pid -> Z) (c : cond) (s : st) : option st :=
  if pred_too_wide pw c then None else push c s.

Section WithWidths.
  Variable pw : pid -> Z.

  Fixpoint elab_tree_w (t : ctree) (s : st) {struct t} : option st :=
    match t with
    | With p body =>
        match push_w pw (CP p) s with
        | None => None
        | Some s1 =>
            match (fix go (l : list ctree) (s : st) {struct l} : option st :=
                     match l with
                     | [] => Some s
                     | x :: r => match elab_tree_w x s with Some s' => go r s' | None => None end
                     end) body s1 with
            | None => None
            | Some s2 => pop s2
            end
        end
    | Otherwise body =>
        match push_w pw COth s with
        | None => None
        | Some s1 =>
            match (fix go (l : list ctree) (s : st) {struct l} : option st :=
                     match l with
                     | [] => Some s
                     | x :: r => match elab_tree_w x s with Some s' => go r s' | None => None end
                     end) body s1 with
            | None => None
            | Some s2 => pop s2
            end
        end
    | Assign t r => build (LW t) (PVal r) s
    | MemAssign m a d e => build (LM m) (PMem a d e) s
    end.

  Fixpoint elab_forest_w (l : list ctree) (s : st) {struct l} : option st :=
    match l with
    | [] => Some s
    | x :: r => match elab_tree_w x s with Some s' => elab_forest_w r s' | None => None end
    end.

  Definition elab_w (prog : list ctree) (d : defaults) : option (list (lhs * fexpr)) :=
    match elab_forest_w prog init_st with
    | None => None
    | Some s => Some (finalize d s)
    end.
End WithWidths.

(* the three things _finalize can start a select chain from (used by the generated Gen/CondRules.v) *)
Inductive dsel := DDeclared | DSelf | DZero.

(* helpers used by the generated Gen/CondRules.v (python list idioms) *)
Definition is_oth (c : cond) : bool := match c with COth => true | CP _ => false end.

Fixpoint enum_from (i : Z) (l : list cond) : list (Z * cond) :=
  match l with
  | [] => []
  | x :: r => (i, x) :: enum_from (i + 1) r
  end.
