(* Translator tie for the helper COMPOSITIONS: Gen/C06Helpers.v holds the bodies of
   corecircuits.signed_add/signed_mult/signed_lt/le/gt/ge, the four shift_* (wire-amount and
   int-amount paths) and the stage of rtllib/barrel.py barrel_shifter, regenerated from /repo on
   every run (py/genfrag_C06.py).  Here: (1) each regenerated body equals the definition the
   property theorems were proved about (Front/Signed.v, Front/Barrel.v); (2) the property
   theorems restated about the REGENERATED bodies. *)
From Coq Require Import ZArith List Bool Lia ZifyBool.
From PyRTL Require Import Front.Ops Front.Signed Front.Barrel Front.PySliceProofs Front.OpsProofs
                          Front.SignedProofs Front.BarrelProofs Front.KindsProofs.
From PyRTL Require Gen.C06Helpers.
Module G := Gen.C06Helpers.
Open Scope Z_scope.

Lemma sign_extended_d_ge a n : wd a <= n -> sign_extended_d a n = sign_ext a n.
Proof.
  intros H. unfold sign_extended_d, sign_extended. destruct (n <? wd a) eqn:E; [lia|reflexivity].
Qed.

Lemma zero_extended_d_ge a n : wd a <= n -> zero_extended_d a n = zero_ext a n.
Proof.
  intros H. unfold zero_extended_d, zero_extended. destruct (n <? wd a) eqn:E; [lia|reflexivity].
Qed.

(* ---------------------------------------------------------------- (1) regenerated = model *)
Lemma signed_add_src a b : G.signed_add_ww a b = signed_add a b.
Proof.
  unfold G.signed_add_ww, signed_add. destruct (match_bitwidth a b true) as [a' b'] eqn:E.
  cbv zeta.
  assert (Hw : wd b' = wd a').
  { unfold match_bitwidth in E. inversion E; subst.
    unfold sign_ext, extend_with_bit.
    destruct (Z.max (wd a) (wd b) - wd a <=? 0) eqn:E1;
      destruct (Z.max (wd a) (wd b) - wd b <=? 0) eqn:E2;
      unfold concat, prim; cbn [wd snd sumw fold_right];
      repeat match goal with |- context [match ?x with Some _ => _ | None => _ end] => destruct x end;
      cbn [wd snd]; lia. }
  rewrite !sign_extended_d_ge by lia. reflexivity.
Qed.

Lemma signed_mult_src a b : 0 <= wd a -> 0 <= wd b -> G.signed_mult_ww a b = signed_mult a b.
Proof.
  intros Ha Hb. unfold G.signed_mult_ww, signed_mult. cbv zeta beta iota.
  rewrite !sign_extended_d_ge by lia. reflexivity.
Qed.

Lemma signed_lt_src a b : G.signed_lt_ww a b = signed_lt a b.
Proof.
  unfold G.signed_lt_ww, signed_lt, sign_trick, msb. change (Z.opp 1) with (-1).
  destruct (match_bitwidth a b true) as [a' b']. reflexivity.
Qed.
Lemma signed_le_src a b : G.signed_le_ww a b = signed_le a b.
Proof.
  unfold G.signed_le_ww, signed_le, sign_trick, msb. change (Z.opp 1) with (-1).
  destruct (match_bitwidth a b true) as [a' b']. reflexivity.
Qed.
Lemma signed_gt_src a b : G.signed_gt_ww a b = signed_gt a b.
Proof.
  unfold G.signed_gt_ww, signed_gt, sign_trick, msb. change (Z.opp 1) with (-1).
  destruct (match_bitwidth a b true) as [a' b']. reflexivity.
Qed.
Lemma signed_ge_src a b : G.signed_ge_ww a b = signed_ge a b.
Proof.
  unfold G.signed_ge_ww, signed_ge, sign_trick, msb. change (Z.opp 1) with (-1).
  destruct (match_bitwidth a b true) as [a' b']. reflexivity.
Qed.

(* the int-operand paths are the wire path applied to Const(v, signed=True) *)
Lemma signed_add_int_src a v :
  G.signed_add_wi a v = G.signed_add_ww a (const_d v None true) /\
  G.signed_add_iw v a = G.signed_add_ww (const_d v None true) a /\
  G.signed_mult_wi a v = G.signed_mult_ww a (const_d v None true) /\
  G.signed_mult_iw v a = G.signed_mult_ww (const_d v None true) a.
Proof.
  unfold G.signed_add_wi, G.signed_add_iw, G.signed_add_ww, G.signed_mult_wi, G.signed_mult_iw,
         G.signed_mult_ww.
  cbv zeta. repeat split; reflexivity.
Qed.

Lemma barrel_stage_src fw dir dist st i : G.barrel_stage fw dir dist st i = barrel_stage fw dir dist st i.
Proof. destruct st as [v app]. reflexivity. Qed.

Lemma shift_wire_src bits amt :
  G.shift_left_logical_ww bits amt = shift_left_logical bits amt /\
  G.shift_left_arithmetic_ww bits amt = shift_left_arithmetic bits amt /\
  G.shift_right_logical_ww bits amt = shift_right_logical bits amt /\
  G.shift_right_arithmetic_ww bits amt = shift_right_arithmetic bits amt.
Proof. repeat split; reflexivity. Qed.

Lemma shift_int_src bits k : wf bits -> 1 <= k <= wd bits - 1 ->
  sll_const bits k = Some (G.shift_left_logical_wi bits k) /\
  sla_const bits k = Some (G.shift_left_arithmetic_wi bits k) /\
  srl_const bits k = Some (G.shift_right_logical_wi bits k) /\
  sra_const bits k = Some (G.shift_right_arithmetic_wi bits k).
Proof.
  intros Hb Hk. pose proof Hb as [Hw Hr].
  assert (H1 : sll_const bits k = Some (G.shift_left_logical_wi bits k)).
  { unfold sll_const, G.shift_left_logical_wi, getitem_d, const_d. cbv zeta.
    rewrite getitem_negto by (try assumption; lia). rewrite convert_int_zero by lia. reflexivity. }
  assert (Hhi : wf (val bits / 2 ^ k, wd bits - k)).
  { apply wf_pair. split; [lia|].
    pose proof (div_pow2_small (val bits) (wd bits) k ltac:(lia) ltac:(lia) Hr) as Hd.
    rewrite Z.min_l in Hd by lia. exact Hd. }
  split; [exact H1|]. split; [exact H1|]. split.
  - unfold srl_const, G.shift_right_logical_wi, getitem_d, zero_extended_d. cbv zeta.
    rewrite getitem_from by (try assumption; lia).
    unfold zero_extended. cbn [wd snd]. destruct (wd bits <? wd bits - k) eqn:E; [lia|reflexivity].
  - unfold sra_const, G.shift_right_arithmetic_wi, getitem_d, sign_extended_d. cbv zeta.
    rewrite getitem_from by (try assumption; lia).
    unfold sign_extended. cbn [wd snd]. destruct (wd bits <? wd bits - k) eqn:E; [lia|reflexivity].
Qed.

(* ---------------------------------------------------------------- (2) theorems about the
   regenerated bodies *)
Lemma src_signed_add_exact a b : wf a -> wf b ->
  wd (G.signed_add_ww a b) = Z.max (wd a) (wd b) + 1 /\
  sval (G.signed_add_ww a b) = sval a + sval b.
Proof. intros Ha Hb. rewrite signed_add_src. apply signed_add_exact; assumption. Qed.

Lemma src_signed_mult_exact a b : wf a -> wf b ->
  wd (G.signed_mult_ww a b) = wd a + wd b /\ sval (G.signed_mult_ww a b) = sval a * sval b.
Proof.
  intros Ha Hb. rewrite signed_mult_src by (destruct Ha, Hb; lia). apply signed_mult_exact; assumption.
Qed.

Lemma src_signed_comparisons a b : wf a -> wf b ->
  G.signed_lt_ww a b = (b2z (sval a <? sval b), 1) /\ G.signed_le_ww a b = (b2z (sval a <=? sval b), 1) /\
  G.signed_gt_ww a b = (b2z (sval a >? sval b), 1) /\ G.signed_ge_ww a b = (b2z (sval a >=? sval b), 1).
Proof.
  intros Ha Hb. rewrite signed_lt_src, signed_le_src, signed_gt_src, signed_ge_src.
  split; [apply signed_lt_spec; assumption|]. split; [apply signed_le_spec; assumption|].
  split; [apply signed_gt_spec; assumption|apply signed_ge_spec; assumption].
Qed.

(* signed_add(a, v) / signed_mult(a, v) with a Python int v: exact with v itself *)
Lemma src_signed_int_exact a v : wf a ->
  sval (G.signed_add_wi a v) = sval a + v /\ sval (G.signed_add_iw v a) = v + sval a /\
  sval (G.signed_mult_wi a v) = sval a * v /\ sval (G.signed_mult_iw v a) = v * sval a.
Proof.
  intros Ha. destruct (const_int_signed v) as [r [Hr [Hwf Hs]]].
  assert (Hc : const_d v None true = r) by (unfold const_d; rewrite Hr; reflexivity).
  destruct (signed_add_int_src a v) as [E1 [E2 [E3 E4]]]. rewrite E1, E2, E3, E4, Hc.
  destruct (src_signed_add_exact a r Ha Hwf) as [_ A1]. destruct (src_signed_add_exact r a Hwf Ha) as [_ A2].
  destruct (src_signed_mult_exact a r Ha Hwf) as [_ M1]. destruct (src_signed_mult_exact r a Hwf Ha) as [_ M2].
  rewrite A1, A2, M1, M2, Hs. repeat split; reflexivity.
Qed.

(* the barrel shifter whose stage is the REGENERATED loop body *)
Definition barrel_shifter_src (bits bit_in dir dist : sv) : sv :=
  fst (fold_left (G.barrel_stage (wd bits) dir dist) (seq 0 (Z.to_nat (wd dist))) (bits, bit_in)).

Lemma fold_stage_src fw dir dist l : forall st,
  fold_left (G.barrel_stage fw dir dist) l st = fold_left (barrel_stage fw dir dist) l st.
Proof.
  induction l as [|i l IH]; intros st; [reflexivity|].
  cbn [fold_left]. rewrite barrel_stage_src. apply IH.
Qed.

Lemma barrel_shifter_src_eq bits bit_in dir dist :
  barrel_shifter_src bits bit_in dir dist = barrel_shifter bits bit_in dir dist.
Proof. unfold barrel_shifter_src, barrel_shifter. rewrite fold_stage_src. reflexivity. Qed.

Lemma src_barrel_full_shift x fw f dir dist : 1 <= fw -> inrange x fw -> wf dist ->
  barrel_shifter_src (x, fw) (b2z f, 1) dir dist =
  (if negb (val dir =? 0) then shl_fill x fw f (val dist) else shr_fill x fw f (val dist), fw).
Proof. intros. rewrite barrel_shifter_src_eq. apply barrel_full_shift; assumption. Qed.

Lemma src_shift_wire bits amt : wf bits -> wf amt ->
  G.shift_left_logical_ww bits amt = ((val bits * 2 ^ val amt) mod 2 ^ wd bits, wd bits) /\
  G.shift_left_arithmetic_ww bits amt = ((val bits * 2 ^ val amt) mod 2 ^ wd bits, wd bits) /\
  G.shift_right_logical_ww bits amt = (val bits / 2 ^ val amt, wd bits) /\
  (wd (G.shift_right_arithmetic_ww bits amt) = wd bits /\
   sval (G.shift_right_arithmetic_ww bits amt) = sval bits / 2 ^ val amt).
Proof.
  intros Hb Ha. destruct (shift_wire_src bits amt) as [E1 [E2 [E3 E4]]]. rewrite E1, E2, E3, E4.
  split; [apply shift_left_logical_spec; assumption|].
  split; [apply shift_left_arithmetic_spec; assumption|].
  split; [apply shift_right_logical_spec; assumption|apply shift_right_arithmetic_signed; assumption].
Qed.

Lemma src_shift_int bits k : wf bits -> 1 <= k <= wd bits - 1 ->
  G.shift_left_logical_wi bits k = ((val bits * 2 ^ k) mod 2 ^ wd bits, wd bits) /\
  G.shift_left_arithmetic_wi bits k = ((val bits * 2 ^ k) mod 2 ^ wd bits, wd bits) /\
  G.shift_right_logical_wi bits k = (val bits / 2 ^ k, wd bits) /\
  G.shift_right_arithmetic_wi bits k
    = (shr_fill (val bits) (wd bits) (Z.testbit (val bits) (wd bits - 1)) k, wd bits).
Proof.
  intros Hb Hk. destruct (shift_int_src bits k Hb Hk) as [E1 [E2 [E3 E4]]].
  destruct (const_shifts bits k Hb Hk) as [C1 [C2 [C3 C4]]].
  split; [congruence|]. split; [congruence|]. split; congruence.
Qed.

Lemma src_bodies_are_model a b : wf a -> wf b ->
  G.signed_add_ww a b = signed_add a b /\ G.signed_mult_ww a b = signed_mult a b /\
  G.signed_lt_ww a b = signed_lt a b /\ G.signed_le_ww a b = signed_le a b /\
  G.signed_gt_ww a b = signed_gt a b /\ G.signed_ge_ww a b = signed_ge a b /\
  G.shift_left_logical_ww a b = shift_left_logical a b /\
  G.shift_left_arithmetic_ww a b = shift_left_arithmetic a b /\
  G.shift_right_logical_ww a b = shift_right_logical a b /\
  G.shift_right_arithmetic_ww a b = shift_right_arithmetic a b.
Proof.
  intros Ha Hb. destruct (shift_wire_src a b) as [E1 [E2 [E3 E4]]].
  split; [apply signed_add_src|]. split; [apply signed_mult_src; destruct Ha, Hb; lia|].
  split; [apply signed_lt_src|]. split; [apply signed_le_src|].
  split; [apply signed_gt_src|]. split; [apply signed_ge_src|].
  split; [exact E1|]. split; [exact E2|]. split; [exact E3|exact E4].
Qed.
