(* Facts about the slice model Front/PySlice.v:
   A. range_list basics; B. the special forms the hardware helpers use
   (a[:k], a[k:], a[:-k], a[0:k], a[-1], a[::-1]); C. equivalence of the
   executable model with a declarative definition of Python slice semantics. *)
From Coq Require Import ZArith List Bool Lia ZifyBool.
From PyRTL Require Import Front.PySlice.
Open Scope Z_scope.
Ltac Zify.zify_post_hook ::= Z.to_euclidean_division_equations.

(* ---------------------------------------------------------------- A *)
Lemma length_range_list i k len : length (range_list i k len) = Z.to_nat len.
Proof. unfold range_list. rewrite map_length, seq_length. reflexivity. Qed.

Lemma nth_range_list i k len m d : (m < Z.to_nat len)%nat ->
  nth m (range_list i k len) d = i + Z.of_nat m * k.
Proof.
  intros H. unfold range_list.
  rewrite nth_indep with (d' := i + Z.of_nat 0 * k)
    by (rewrite map_length, seq_length; exact H).
  change (i + Z.of_nat 0 * k) with ((fun m => i + Z.of_nat m * k) 0%nat).
  rewrite map_nth, seq_nth by exact H. reflexivity.
Qed.

Lemma In_range_list i k len x :
  In x (range_list i k len) <-> exists m, 0 <= m < len /\ x = i + m * k.
Proof.
  unfold range_list. rewrite in_map_iff. split.
  - intros [m [Hx Hm]]. apply in_seq in Hm. exists (Z.of_nat m). split; [lia|auto].
  - intros [m [Hm Hx]]. exists (Z.to_nat m). split.
    + rewrite Z2Nat.id by lia. auto.
    + apply in_seq. lia.
Qed.

Lemma range_len_nonneg i j k : k <> 0 -> 0 <= range_len i j k.
Proof.
  intros Hk. unfold range_len.
  destruct (0 <? k) eqn:E.
  - destruct (i <? j) eqn:E2; [|lia].
    assert (0 <= (j - i - 1) / k) by (apply Z.div_pos; lia). lia.
  - destruct (j <? i) eqn:E2; [|lia].
    assert (0 <= (i - j - 1) / (- k)) by (apply Z.div_pos; lia). lia.
Qed.

(* the counting fact behind len(range(i,j,k)) *)
Lemma range_len_pos_iff i j k m : 0 < k -> 0 <= m ->
  (m < range_len i j k <-> i + m * k < j).
Proof.
  intros Hk Hm. unfold range_len.
  assert (E : (0 <? k) = true) by lia. rewrite E.
  destruct (i <? j) eqn:E2.
  - pose proof (Z.div_mod (j - i - 1) k ltac:(lia)) as Hd.
    pose proof (Z.mod_pos_bound (j - i - 1) k Hk) as Hb.
    set (q := (j - i - 1) / k) in *. set (r := (j - i - 1) mod k) in *.
    split; intro H; nia.
  - split; intro H; nia.
Qed.

Lemma range_len_neg_iff i j k m : k < 0 -> 0 <= m ->
  (m < range_len i j k <-> j < i + m * k).
Proof.
  intros Hk Hm. unfold range_len.
  assert (E : (0 <? k) = false) by lia. rewrite E.
  destruct (j <? i) eqn:E2.
  - pose proof (Z.div_mod (i - j - 1) (- k) ltac:(lia)) as Hd.
    pose proof (Z.mod_pos_bound (i - j - 1) (- k) ltac:(lia)) as Hb.
    set (q := (i - j - 1) / (- k)) in *. set (r := (i - j - 1) mod (- k)) in *.
    split; intro H; nia.
  - split; intro H; nia.
Qed.

(* ---------------------------------------------------------------- B *)
Ltac slice_unfold :=
  unfold slice_indices, slice_adjust, slice_step, slice_start, slice_stop,
         clamp_index, slice_lower, slice_upper, range_len; cbn.

Lemma slice_ab_indices n a b : 0 <= a <= b -> b <= n ->
  slice_indices n (Some a) (Some b) None = Some (range_list a 1 (b - a)).
Proof.
  intros Ha Hb. slice_unfold.
  destruct (a <? 0) eqn:E1; [lia|]. destruct (b <? 0) eqn:E2; [lia|].
  rewrite !Z.min_l by lia.
  destruct (a <? b) eqn:E3.
  - f_equal. f_equal. rewrite Z.div_1_r. lia.
  - replace (b - a) with 0 by lia. reflexivity.
Qed.

Lemma slice_0to_indices n hi : 0 <= hi <= n ->
  slice_indices n (Some 0) (Some hi) None = Some (range_list 0 1 hi).
Proof.
  intros H. rewrite slice_ab_indices by lia. rewrite Z.sub_0_r. reflexivity.
Qed.

Lemma slice_to_indices n hi : 0 <= hi <= n ->
  slice_indices n None (Some hi) None = Some (range_list 0 1 hi).
Proof.
  intros H. slice_unfold.
  destruct (hi <? 0) eqn:E2; [lia|].
  rewrite !Z.min_l by lia.
  destruct (0 <? hi) eqn:E3.
  - f_equal. f_equal. rewrite Z.div_1_r. lia.
  - replace hi with 0 by lia. reflexivity.
Qed.

Lemma slice_from_indices n lo : 0 <= lo <= n ->
  slice_indices n (Some lo) None None = Some (range_list lo 1 (n - lo)).
Proof.
  intros H. slice_unfold.
  destruct (lo <? 0) eqn:E2; [lia|].
  rewrite !Z.min_l by lia.
  destruct (lo <? n) eqn:E3.
  - f_equal. f_equal. rewrite Z.div_1_r. lia.
  - replace (n - lo) with 0 by lia. reflexivity.
Qed.

Lemma slice_negto_indices n s : 0 < s <= n ->
  slice_indices n None (Some (- s)) None = Some (range_list 0 1 (n - s)).
Proof.
  intros H. slice_unfold.
  destruct (- s <? 0) eqn:E2; [|lia].
  rewrite Z.max_l by lia.
  destruct (0 <? - s + n) eqn:E3.
  - f_equal. f_equal. rewrite Z.div_1_r. lia.
  - replace (n - s) with 0 by lia. reflexivity.
Qed.

Lemma slice_reverse_indices n : 0 <= n ->
  slice_indices n None None (Some (-1)) = Some (range_list (n - 1) (-1) n).
Proof.
  intros H. slice_unfold.
  destruct (-1 <? n - 1) eqn:E3.
  - f_equal. f_equal. change (- -1) with 1. rewrite Z.div_1_r. lia.
  - replace n with 0 by lia. reflexivity.
Qed.

Lemma index_int_last n : 1 <= n -> index_int n (-1) = Some (n - 1).
Proof.
  intros H. unfold index_int. change (-1 <? 0) with true. cbv iota.
  replace (-1 + n) with (n - 1) by lia.
  destruct ((0 <=? n - 1) && (n - 1 <? n)) eqn:E; [reflexivity|lia].
Qed.

Lemma index_int_nonneg n i : 0 <= i < n -> index_int n i = Some i.
Proof.
  intros H. unfold index_int.
  destruct (i <? 0) eqn:E1; [lia|].
  destruct ((0 <=? i) && (i <? n)) eqn:E; [reflexivity|lia].
Qed.

Lemma index_int_neg n i : - n <= i < 0 -> index_int n i = Some (i + n).
Proof.
  intros H. unfold index_int.
  destruct (i <? 0) eqn:E1; [|lia].
  destruct ((0 <=? i + n) && (i + n <? n)) eqn:E; [reflexivity|lia].
Qed.

Lemma index_int_none n i : (i < - n \/ n <= i) -> index_int n i = None.
Proof.
  intros H. unfold index_int.
  destruct (i <? 0) eqn:E1.
  - destruct ((0 <=? i + n) && (i + n <? n)) eqn:E; [lia|reflexivity].
  - destruct ((0 <=? i) && (i <? n)) eqn:E; [lia|reflexivity].
Qed.

Lemma index_int_range n i x : index_int n i = Some x -> 0 <= x < n.
Proof.
  unfold index_int. destruct (i <? 0) eqn:E1.
  - destruct ((0 <=? i + n) && (i + n <? n)) eqn:E; [|discriminate].
    intros H; inversion H; lia.
  - destruct ((0 <=? i) && (i <? n)) eqn:E; [|discriminate].
    intros H; inversion H; lia.
Qed.

(* a[:hi] with hi beyond the end selects everything (Python clamps the bound) *)
Lemma slice_to_indices_clamp n hi : 0 <= hi -> 0 <= n ->
  slice_indices n None (Some hi) None = Some (range_list 0 1 (Z.min hi n)).
Proof.
  intros H Hn. slice_unfold.
  destruct (hi <? 0) eqn:E2; [lia|].
  destruct (0 <? Z.min hi n) eqn:E3.
  - f_equal. f_equal. rewrite Z.div_1_r. lia.
  - replace (Z.min hi n) with 0 by lia. reflexivity.
Qed.

Lemma index_int_spec n i :
  index_int n i = if (0 <=? i) && (i <? n) then Some i
                  else if (- n <=? i) && (i <? 0) then Some (i + n) else None.
Proof.
  unfold index_int.
  destruct (i <? 0) eqn:E1.
  - destruct ((0 <=? i) && (i <? n)) eqn:E2; [lia|].
    destruct ((0 <=? i + n) && (i + n <? n)) eqn:E3;
      destruct ((- n <=? i) && true) eqn:E4; try lia; reflexivity.
  - rewrite andb_false_r. destruct ((0 <=? i) && (i <? n)) eqn:E2; reflexivity.
Qed.

(* ---------------------------------------------------------------- C *)
(* Declarative definition of Python slicing (Language Reference, sequence types,
   "s[i:j:k]"): the slice of s from i to j with step k is the sequence of items
   with index x = i + m*k for m = 0, 1, ... while x has not reached j (x < j for
   k > 0, x > j for k < 0).  A negative bound is relative to the end (len(s) + i);
   for k > 0 the bounds are reduced to [0, len(s)], for k < 0 to [-1, len(s)-1];
   an omitted bound is the "end" value for the direction.  k = 0 is an error. *)
Definition clip (lo hi x : Z) : Z := Z.max lo (Z.min x hi).

Definition decl_bound (n k : Z) (is_start : bool) (b : option Z) : Z :=
  match b with
  | None => if 0 <? k then (if is_start then 0 else n) else (if is_start then n - 1 else -1)
  | Some x => let x' := if x <? 0 then x + n else x in
              if 0 <? k then clip 0 n x' else clip (-1) (n - 1) x'
  end.

Definition is_slice_of (n : Z) (start stop step : option Z) (l : list Z) : Prop :=
  let k := slice_step step in
  let i := decl_bound n k true start in
  let j := decl_bound n k false stop in
  k <> 0 /\
  (forall m, 0 <= m -> (m < Z.of_nat (length l) <-> (if 0 <? k then i + m * k < j else j < i + m * k))) /\
  (forall m, (m < length l)%nat -> nth m l 0 = i + Z.of_nat m * k).

Lemma slice_start_decl n k s : 0 <= n -> k <> 0 -> slice_start n k s = decl_bound n k true s.
Proof.
  intros Hn Hk. unfold slice_start, decl_bound, clamp_index, slice_lower, slice_upper, clip.
  destruct s as [x|]; destruct (k <? 0) eqn:E1; destruct (0 <? k) eqn:E2; try lia;
    try (destruct (x <? 0) eqn:E3); lia.
Qed.

Lemma slice_stop_decl n k s : 0 <= n -> k <> 0 -> slice_stop n k s = decl_bound n k false s.
Proof.
  intros Hn Hk. unfold slice_stop, decl_bound, clamp_index, slice_lower, slice_upper, clip.
  destruct s as [x|]; destruct (k <? 0) eqn:E1; destruct (0 <? k) eqn:E2; try lia;
    try (destruct (x <? 0) eqn:E3); lia.
Qed.

Lemma decl_bound_range n k st b : 0 <= n -> k <> 0 ->
  (0 < k -> 0 <= decl_bound n k st b <= n) /\ (k < 0 -> -1 <= decl_bound n k st b <= n - 1).
Proof.
  intros Hn Hk. unfold decl_bound, clip.
  destruct b as [x|]; destruct (0 <? k) eqn:E2; destruct st; try (destruct (x <? 0) eqn:E3); lia.
Qed.

Lemma slice_indices_none_iff n s e st : slice_indices n s e st = None <-> st = Some 0.
Proof.
  unfold slice_indices, slice_adjust.
  destruct st as [k|]; cbn [slice_step].
  - destruct (k =? 0) eqn:E; split; intro H.
    + f_equal. lia.
    + reflexivity.
    + discriminate.
    + exfalso. assert (k = 0) by congruence. lia.
  - cbn. split; discriminate.
Qed.

Lemma slice_indices_some n s e st l : slice_indices n s e st = Some l ->
  let k := slice_step st in
  k <> 0 /\ l = range_list (slice_start n k s) k (range_len (slice_start n k s) (slice_stop n k e) k).
Proof.
  unfold slice_indices, slice_adjust. intros H. cbv zeta. set (k := slice_step st) in *.
  destruct (k =? 0) eqn:E; [discriminate|]. inversion H. split; [lia|reflexivity].
Qed.

Lemma slice_indices_sound n s e st l : 0 <= n ->
  slice_indices n s e st = Some l -> is_slice_of n s e st l.
Proof.
  intros Hn H. apply slice_indices_some in H. cbv zeta in H. destruct H as [Hk ->].
  unfold is_slice_of. cbv zeta. set (k := slice_step st) in *.
  rewrite slice_start_decl, slice_stop_decl by assumption.
  set (i := decl_bound n k true s). set (j := decl_bound n k false e).
  pose proof (range_len_nonneg i j k Hk) as Hl.
  split; [exact Hk|]. split.
  - intros m Hm. rewrite length_range_list, Z2Nat.id by assumption.
    destruct (0 <? k) eqn:E.
    + apply range_len_pos_iff; lia.
    + apply range_len_neg_iff; lia.
  - intros m Hm. rewrite length_range_list in Hm. apply nth_range_list. exact Hm.
Qed.

Lemma is_slice_of_unique n s e st l1 l2 :
  is_slice_of n s e st l1 -> is_slice_of n s e st l2 -> l1 = l2.
Proof.
  unfold is_slice_of. cbv zeta. intros [_ [A1 B1]] [_ [A2 B2]].
  assert (Hlen : length l1 = length l2).
  { pose proof (A1 (Z.of_nat (length l2)) ltac:(lia)) as X1.
    pose proof (A2 (Z.of_nat (length l2)) ltac:(lia)) as X2.
    pose proof (A1 (Z.of_nat (length l1)) ltac:(lia)) as Y1.
    pose proof (A2 (Z.of_nat (length l1)) ltac:(lia)) as Y2.
    destruct (Nat.lt_trichotomy (length l1) (length l2)) as [Hlt|[Heq|Hgt]]; [|exact Heq|].
    - exfalso. assert (Z.of_nat (length l1) < Z.of_nat (length l2)) as Hz by lia.
      apply Y2 in Hz. apply Y1 in Hz. lia.
    - exfalso. assert (Z.of_nat (length l2) < Z.of_nat (length l1)) as Hz by lia.
      apply X1 in Hz. apply X2 in Hz. lia. }
  apply (nth_ext l1 l2 0 0 Hlen). intros m Hm.
  rewrite B1 by exact Hm. rewrite B2 by (rewrite <- Hlen; exact Hm). reflexivity.
Qed.

Lemma slice_indices_complete n s e st l : 0 <= n ->
  is_slice_of n s e st l -> slice_indices n s e st = Some l.
Proof.
  intros Hn H. destruct (slice_indices n s e st) as [l'|] eqn:E.
  - f_equal. apply (is_slice_of_unique n s e st); [|exact H].
    apply slice_indices_sound; assumption.
  - apply slice_indices_none_iff in E. subst st. destruct H as [Hk _]. cbn in Hk. lia.
Qed.

Lemma slice_indices_iff n s e st l : 0 <= n ->
  (slice_indices n s e st = Some l <-> is_slice_of n s e st l).
Proof.
  intros Hn. split; [apply slice_indices_sound|apply slice_indices_complete]; assumption.
Qed.

(* every selected index is a valid bit position *)
Lemma slice_indices_in_range n s e st l x : 0 <= n ->
  slice_indices n s e st = Some l -> In x l -> 0 <= x < n.
Proof.
  intros Hn H Hin. apply slice_indices_some in H. cbv zeta in H. destruct H as [Hk ->].
  set (k := slice_step st) in *.
  rewrite slice_start_decl, slice_stop_decl in Hin by assumption.
  set (i := decl_bound n k true s) in *. set (j := decl_bound n k false e) in *.
  apply In_range_list in Hin. destruct Hin as [m [Hm ->]].
  destruct (decl_bound_range n k true s Hn Hk) as [Pi Ni]. fold i in Pi, Ni.
  destruct (decl_bound_range n k false e Hn Hk) as [Pj Nj]. fold j in Pj, Nj.
  destruct (Z.lt_trichotomy k 0) as [Hneg|[H0|Hpos]]; [|lia|].
  - assert (Hc : j < i + m * k) by (apply range_len_neg_iff; lia). nia.
  - assert (Hc : i + m * k < j) by (apply range_len_pos_iff; lia). nia.
Qed.

Lemma getitem_indices_valid n it l x : 0 <= n ->
  getitem_indices n it = Some l -> l <> [] /\ (In x l -> 0 <= x < n).
Proof.
  intros Hn H. destruct it as [i|s e st]; cbn [getitem_indices] in H.
  - destruct (index_int n i) as [y|] eqn:E; [|discriminate]. inversion H; subst l.
    split; [discriminate|]. intros [<-|[]]. apply (index_int_range n i). exact E.
  - destruct (slice_indices n s e st) as [[|y l']|] eqn:E; try discriminate.
    inversion H; subst l. split; [discriminate|].
    intros Hin. apply (slice_indices_in_range n s e st (y :: l')); assumption.
Qed.
