(* C07 -- the SPECIFICATION: a direct interpreter of condition trees (trusted text).
   Definitions only.

   "a branch is active when its predicate holds, all enclosing branches are active
    and no earlier sibling since the last otherwise at that level was taken"

   en     : all enclosing branches are active
   taken  : an earlier sibling since the last otherwise at this level was taken (= active)  *)
From Coq Require Import ZArith List Bool.
From PyRTL Require Import Front.Cond.
Import ListNotations.
Open Scope Z_scope.

Definition branch_active (rho : pid -> bool) (en taken : bool) (t : ctree) : bool :=
  match t with
  | With p _ => en && negb taken && rho p
  | Otherwise _ => en && negb taken
  | _ => false
  end.

Definition next_taken (rho : pid -> bool) (en taken : bool) (t : ctree) : bool :=
  match t with
  | With _ _ => taken || branch_active rho en taken t
  | Otherwise _ => false               (* a new chain starts after an otherwise *)
  | _ => taken
  end.

Definition asg := (lhs * payload)%type.

(* every assignment of the program, in program order, with "its branch is active" *)
Fixpoint flags_tree (rho : pid -> bool) (en taken : bool) (t : ctree) {struct t}
  : list (asg * bool) :=
  match t with
  | Assign w r => [((LW w, PVal r), en)]
  | MemAssign m a d e => [((LM m, PMem a d e), en)]
  | With p body =>
      (fix go (l : list ctree) (tk : bool) {struct l} : list (asg * bool) :=
         match l with
         | [] => []
         | x :: r => flags_tree rho (branch_active rho en taken t) tk x
                     ++ go r (next_taken rho (branch_active rho en taken t) tk x)
         end) body false
  | Otherwise body =>
      (fix go (l : list ctree) (tk : bool) {struct l} : list (asg * bool) :=
         match l with
         | [] => []
         | x :: r => flags_tree rho (branch_active rho en taken t) tk x
                     ++ go r (next_taken rho (branch_active rho en taken t) tk x)
         end) body false
  end.

Definition flags_forest (rho : pid -> bool) (en : bool) : list ctree -> bool -> list (asg * bool) :=
  fix go (l : list ctree) (tk : bool) {struct l} : list (asg * bool) :=
    match l with
    | [] => []
    | x :: r => flags_tree rho en tk x ++ go r (next_taken rho en tk x)
    end.

Definition spec_flags (rho : pid -> bool) (prog : list ctree) : list (asg * bool) :=
  flags_forest rho true prog false.

(* the payloads of the ACTIVE assignments to l, in program order *)
Definition active_for (rho : pid -> bool) (prog : list ctree) (l : lhs) : list payload :=
  map (fun x => snd (fst x))
      (filter (fun x => snd x && lhs_eqb l (fst (fst x))) (spec_flags rho prog)).

(* all assignments to l with their activity *)
Definition flags_for (rho : pid -> bool) (prog : list ctree) (l : lhs) : list (payload * bool) :=
  map (fun x => (snd (fst x), snd x))
      (filter (fun x => lhs_eqb l (fst (fst x))) (spec_flags rho prog)).

(* value of a wire / next value of a register: the unique active branch's rhs, else the default;
   None = the property does not define a value (two active assigning branches) *)
Definition default_value (E : env) (d : defaults) (t : wtarget) : Z :=
  match dflt_get d t with
  | Some r => e_leaf E r
  | None => match t with TWire _ => 0 | TReg i => e_reg E i end
  end.

Definition spec_value (E : env) (d : defaults) (prog : list ctree) (t : wtarget) : option Z :=
  match active_for (e_pred E) prog (LW t) with
  | [] => Some (default_value E d t)
  | [PVal r] => Some (e_leaf E r)
  | _ => None
  end.

(* memory: Some None = not written; Some (Some (addr,data,enable)) = the unique active branch's
   EnabledWrite; None = undefined (two active branches) *)
Definition spec_mem (E : env) (prog : list ctree) (m : Z) : option (option (Z * Z * Z)) :=
  match active_for (e_pred E) prog (LM m) with
  | [] => Some None
  | [PMem a d e] => Some (Some (e_leaf E a, e_leaf E d, e_leaf E e))
  | _ => None
  end.

(* ---------- the syntactic mutual-exclusion criterion, read off the tree ----------
   The path condition of an assignment: for every enclosing branch, the negations of the
   predicates of the earlier siblings since the last otherwise, then the branch's own predicate. *)
Definition next_since (since : list pid) (t : ctree) : list pid :=
  match t with
  | With p _ => since ++ [p]
  | Otherwise _ => []
  | _ => since
  end.

Definition branch_lits (ctx : list lit) (since : list pid) (t : ctree) : list lit :=
  match t with
  | With p _ => ctx ++ map (fun q => (q, true)) since ++ [(p, false)]
  | Otherwise _ => ctx ++ map (fun q => (q, true)) since
  | _ => ctx
  end.

Fixpoint slits_tree (ctx : list lit) (since : list pid) (t : ctree) {struct t}
  : list (lhs * list lit) :=
  match t with
  | Assign w _ => [(LW w, ctx)]
  | MemAssign m _ _ _ => [(LM m, ctx)]
  | With p body =>
      (fix go (l : list ctree) (sn : list pid) {struct l} : list (lhs * list lit) :=
         match l with
         | [] => []
         | x :: r => slits_tree (branch_lits ctx since t) sn x ++ go r (next_since sn x)
         end) body []
  | Otherwise body =>
      (fix go (l : list ctree) (sn : list pid) {struct l} : list (lhs * list lit) :=
         match l with
         | [] => []
         | x :: r => slits_tree (branch_lits ctx since t) sn x ++ go r (next_since sn x)
         end) body []
  end.

Definition slits_forest (ctx : list lit) : list ctree -> list pid -> list (lhs * list lit) :=
  fix go (l : list ctree) (sn : list pid) {struct l} : list (lhs * list lit) :=
    match l with
    | [] => []
    | x :: r => slits_tree ctx sn x ++ go r (next_since sn x)
    end.

Definition slits (prog : list ctree) : list (lhs * list lit) := slits_forest [] prog [].

Definition lit_holds (rho : pid -> bool) (l : lit) : bool := xorb (rho (fst l)) (snd l).

(* two path conditions are syntactically mutually exclusive: they contain the same
   predicate with opposite polarity *)
Definition syn_excl (a b : list lit) : bool :=
  existsb (fun la => existsb (fun lb => (fst la =? fst lb) && xorb (snd la) (snd lb)) b) a.

Fixpoint pairwise_excl (l : list (lhs * list lit)) : bool :=
  match l with
  | [] => true
  | x :: r =>
      forallb (fun y => negb (lhs_eqb (fst x) (fst y)) || syn_excl (snd y) (snd x)) r
      && pairwise_excl r
  end.

(* an assignment must be under at least one predicate (|= directly under
   conditional_assignment, or only under top-level otherwise, is an error) *)
Definition guarded (l : list (lhs * list lit)) : bool :=
  forallb (fun x => match snd x with [] => false | _ => true end) l.

Definition spec_accepts (prog : list ctree) : bool :=
  guarded (slits prog) && pairwise_excl (slits prog).

(* the assigned targets, first occurrence order *)
Fixpoint nodup_lhs (l : list lhs) : list lhs :=
  match l with
  | [] => []
  | x :: r => x :: filter (fun y => negb (lhs_eqb y x)) (nodup_lhs r)
  end.

Definition assigned (prog : list ctree) : list lhs := nodup_lhs (map fst (slits prog)).

(* ---------- several cycles: registers assigned by the program take spec_value each cycle ---------- *)
Definition is_assigned (prog : list ctree) (l : lhs) : bool := existsb (lhs_eqb l) (map fst (slits prog)).

Definition spec_next (d : defaults) (prog : list ctree) (E : env) (i : Z) : Z :=
  if is_assigned prog (LW (TReg i))
  then match spec_value E d prog (TReg i) with Some v => v | None => e_reg E i end
  else e_reg E i.

Definition spec_step (d : defaults) (prog : list ctree) (inp : (pid -> bool) * (Z -> Z)) (regs : list Z) : list Z :=
  map (fun k => spec_next d prog (reg_env (fst inp) (snd inp) regs) (Z.of_nat k)) (seq 0 (length regs)).

Fixpoint spec_run (d : defaults) (prog : list ctree) (inputs : list ((pid -> bool) * (Z -> Z))) (regs : list Z)
  : list (list Z) :=
  match inputs with
  | [] => []
  | inp :: rest => spec_step d prog inp regs :: spec_run d prog rest (spec_step d prog inp regs)
  end.

(* ---------- predicates must be 1-bit wires: a program that enters a `with` on a wider wire is
   rejected (the property speaks about predicates, i.e. 1-bit conditions) ---------- *)
Section Widths.
  Variable pw : pid -> Z.

  Fixpoint tree_w1 (t : ctree) {struct t} : bool :=
    match t with
    | With p body =>
        negb (pw p >? 1)
        && (fix go (l : list ctree) : bool :=
              match l with [] => true | x :: r => tree_w1 x && go r end) body
    | Otherwise body =>
        (fix go (l : list ctree) : bool :=
           match l with [] => true | x :: r => tree_w1 x && go r end) body
    | _ => true
    end.

  Fixpoint forest_w1 (l : list ctree) : bool :=
    match l with [] => true | x :: r => tree_w1 x && forest_w1 r end.
End Widths.

Definition spec_accepts_w (pw : pid -> Z) (prog : list ctree) : bool :=
  forest_w1 pw prog && spec_accepts prog.

(* ---------- the value an integer right-hand side denotes at the target's width ----------
   `t |= v` with a Python int v builds a constant OF THE TARGET'S WIDTH w: a non-negative v must fit in
   w bits, a negative v is taken in two's complement and must fit in w bits as a signed number;
   anything else is an error.  (Wires are taken modulo 2^w: zero-extended or truncated.) *)
Definition coerce_int (w v : Z) : option Z :=
  if 0 <=? v then (if v <? 2 ^ w then Some v else None)
  else (if - 2 ^ (w - 1) <=? v then Some (v + 2 ^ w) else None).

Definition coerce_wire (w v : Z) : Z := v mod 2 ^ w.
